import Hgxv.Proofs.C14Gen
import Hgxv.Proofs.C14Hoad
import Hgxv.Proofs.C14Shuffle
import Hgxv.Proofs.C14Raw
import Hgxv.Proofs.C14Count
import Hgxv.Proofs.C14HoadCount
import Hgxv.Proofs.C14Pool
import Hgxv.Proofs.C14Meta
import Hgxv.Proofs.C14Seed
/-! # C14 — random generators honour their structural contracts and their seeds

Property theorems about the model `Hgxv/Model/C14.lean`.  Every statement is for ALL draws that satisfy the
sampler contracts (`IsSample`: `k` distinct members of the population - trusted base), hence for every seed and
every execution. -/
open C14

/-! ## random_hypergraph / random_uniform_hypergraph -/

/-- `random_hypergraph(n, req)` for every outcome of `random.sample`.  Hypotheses: `req` comes from a dict (distinct
sizes); the recorded groups hold at least `count` samples per size, each `size` distinct members of `range n`.
Conclusion: the call is accepted; nodes are exactly `0..n-1`; hyperedges are pairwise distinct, sorted, have distinct
nodes `< n` and a requested size (requested at least once); per size `count ≤ requested` and `≥ 1` when `requested ≥ 1`;
no hyperedge of a size that was not requested. -/
theorem C14_random (n : Nat) (req : List (Nat × Nat)) (groups : List (List (List Nat)))
    (hkeys : (req.map (·.1)).Nodup) (hdraws : RandomDrawsOK n req groups) :
    randomHypergraph? n req groups = some (randomHypergraph n req groups) ∧
    (randomHypergraph n req groups).nodes = List.range n ∧
    (randomHypergraph n req groups).weighted = false ∧
    (keys (randomHypergraph n req groups)).Nodup ∧
    (∀ e ∈ keys (randomHypergraph n req groups),
      (∃ sc ∈ req, e.length = sc.1 ∧ 0 < sc.2) ∧ e.Nodup ∧ (∀ x ∈ e, x < n) ∧ sortE e = e) ∧
    (∀ sc ∈ req, countSize (randomHypergraph n req groups) sc.1 ≤ sc.2 ∧
      (1 ≤ sc.2 → 1 ≤ countSize (randomHypergraph n req groups) sc.1)) ∧
    (∀ s, s ∉ req.map (·.1) → countSize (randomHypergraph n req groups) s = 0) := by
  have hadm : admissible n req = true := by
    apply admissible_of_groups n _ _ req groups hdraws
    intro s c g hq hc
    obtain ⟨hlen, hs⟩ := hq
    cases g with
    | nil => simp at hlen; omega
    | cons d g =>
      have : d ∈ (d :: g).take c := by cases c with
        | zero => omega
        | succ c => simp
      exact sample_size_le (hs d this)
  have hL := genLoop_spec sizeEdges (List.range n) (fun c m => m ≤ c ∧ (1 ≤ c → 1 ≤ m))
    (fun s c g => c ≤ g.length ∧ ∀ d ∈ g.take c, IsSample (List.range n) s d)
    (fun s c g hq => sizeEdges_ok _ s c g hq.2) (fun s c g hq => sizeEdges_bound c g hq.1)
    req groups (addNodes {} (List.range n)) hdraws hkeys (by simp [keys, AL.keys, addNodes])
    (by intro sc _; simp [countSize, keys, AL.keys, addNodes]) (by intro x hx; rw [base_nodes]; exact hx)
  refine ⟨by simp [randomHypergraph?, hadm], ?_, ?_, hL.nodup, ?_, hL.count, ?_⟩
  · exact hL.nodes.trans (base_nodes n)
  · exact hL.weighted
  · intro e he
    rcases hL.mem e he with h0 | ⟨h1, h2, h3, h4⟩
    · simp [keys, AL.keys, addNodes] at h0
    · exact ⟨h1, h2, fun x hx => by simpa using h3 x hx, h4⟩
  · intro s hs
    have := hL.other s hs
    simp only [randomHypergraph, randomLoop]
    rw [this]; simp [countSize, keys, AL.keys, addNodes]

/-- `random_uniform_hypergraph(n, size, count)`: the same guarantees for the single requested size -/
theorem C14_random_uniform (n size count : Nat) (group : List (List Nat))
    (hlen : count ≤ group.length) (hdraws : ∀ d ∈ group.take count, IsSample (List.range n) size d) :
    (randomUniform n size count group).nodes = List.range n ∧
    (∀ e ∈ keys (randomUniform n size count group), e.length = size ∧ e.Nodup ∧ (∀ x ∈ e, x < n)) ∧
    countSize (randomUniform n size count group) size ≤ count ∧
    (1 ≤ count → 1 ≤ countSize (randomUniform n size count group) size) := by
  have h := C14_random n [(size, count)] [group] (by simp) (by simp [RandomDrawsOK, GroupsOK]; exact ⟨hlen, hdraws⟩)
  refine ⟨h.2.1, ?_, ?_⟩
  · intro e he
    obtain ⟨⟨sc, hsc, hl, _⟩, h2, h3, _⟩ := h.2.2.2.2.1 e he
    simp at hsc; subst hsc; exact ⟨hl, h2, h3⟩
  · exact h.2.2.2.2.2.1 (size, count) (by simp)

/-- non-vacuity: a concrete request whose third sample repeats the first one -/
example : RandomDrawsOK 5 [(2, 3), (3, 1)] [[[4, 1], [0, 2], [1, 4]], [[3, 0, 2]]] ∧
    keys (randomHypergraph 5 [(2, 3), (3, 1)] [[[4, 1], [0, 2], [1, 4]], [[3, 0, 2]]]) = [[1, 4], [0, 2], [0, 2, 3]] := by
  refine ⟨?_, by decide⟩
  simp only [RandomDrawsOK, GroupsOK, IsSample]
  decide

/-! ## scale_free_hypergraph -/

/-- `scale_free_hypergraph` (repaired, D26) for every outcome of the exponential draws, the swaps and
`np.random.choice`.  Hypotheses: the arguments pass the validation; `edges_by_size` is a dict (distinct sizes, one count per
size); the recorded groups belong to a run that returned (`SfDrawsOK`).  Conclusion: the call is accepted; nodes are
exactly `0..n-1`; exactly the requested number of pairwise distinct hyperedges per size, each with distinct nodes `< n`;
nothing of another size. -/
theorem C14_scale_free (n : Nat) (sizes : List Nat) (counts : List Int) (scaleKeys : List Nat) (correlated : Bool)
    (corr : Option Rat) (shuffles : Int) (groups : List (List (List Nat)))
    (hvalid : sfValid sizes counts scaleKeys correlated corr shuffles = true)
    (hkeys : sizes.Nodup) (hlen : counts.length = sizes.length)
    (hdraws : SfDrawsOK n (sizes.zip (counts.map Int.toNat)) groups) :
    ∃ h, scaleFree n sizes counts scaleKeys correlated corr shuffles groups = some h ∧
      h.nodes = List.range n ∧ (keys h).Nodup ∧
      (∀ sc ∈ sizes.zip (counts.map Int.toNat), countSize h sc.1 = sc.2) ∧
      (∀ s, s ∉ sizes → countSize h s = 0) ∧
      (∀ e ∈ keys h, e.length ∈ sizes ∧ e.Nodup ∧ (∀ x ∈ e, x < n)) := by
  have hmap : (sizes.zip (counts.map Int.toNat)).map (·.1) = sizes := by
    apply List.map_fst_zip; simp [hlen]
  have hadm : admissible n (sizes.zip (counts.map Int.toNat)) = true := by
    apply admissible_of_groups n _ _ _ groups hdraws
    intro s c g hq hc
    obtain ⟨hs, hcons⟩ := hq
    obtain ⟨d, hd⟩ := List.exists_mem_of_ne_nil g (consumedExactly_pos hcons hc)
    exact sample_size_le (hs d hd)
  have hL := genLoop_spec (fun c g => collect c [] g) (List.range n) (fun c m => m = c)
    (fun s c g => (∀ d ∈ g, IsSample (List.range n) s d) ∧ consumedExactly c [] g = true)
    (fun s c g hq => by
      have := collect_spec (List.range n) s c g [] hq.1 List.nodup_nil (by simp)
      exact ⟨this.1, this.2⟩)
    (fun s c g hq => collect_length c g [] hq.2 (by simp))
    (sizes.zip (counts.map Int.toNat)) groups (addNodes {} (List.range n)) hdraws (by rw [hmap]; exact hkeys)
    (by simp [keys, AL.keys, addNodes])
    (by intro sc _; simp [countSize, keys, AL.keys, addNodes]) (by intro x hx; rw [base_nodes]; exact hx)
  refine ⟨_, by simp only [scaleFree, hvalid, hadm, Bool.and_self, if_true]; rfl, ?_, hL.nodup, hL.count, ?_, ?_⟩
  · exact hL.nodes.trans (base_nodes n)
  · intro s hs
    have := hL.other s (by rw [hmap]; exact hs)
    show countSize (sfLoop _ _ _) s = 0
    unfold sfLoop
    rw [this]; simp [countSize, keys, AL.keys, addNodes]
  · intro e he
    rcases hL.mem e he with h0 | ⟨⟨sc, hsc, hl, _⟩, h2, h3, _⟩
    · simp [keys, AL.keys, addNodes] at h0
    · refine ⟨?_, h2, fun x hx => by simpa using h3 x hx⟩
      rw [hl, ← hmap]; exact List.mem_map_of_mem (f := (·.1)) hsc

/-- the default arguments (`correlated=True, corr_target=None, num_shuffles=0`) are accepted whenever every size has a
scale and every count is non-negative: the repaired validation does not compare `None` with a number (D26) -/
theorem C14_scale_free_defaults (sizes : List Nat) (counts : List Int) (hc : ∀ c ∈ counts, 0 ≤ c) :
    sfValid sizes counts sizes true none 0 = true := by
  simp only [sfValid]
  simp only [bne_self_eq_false, Bool.false_and, Bool.not_false, Bool.true_and, Option.isSome_none, Bool.and_true,
    Bool.and_eq_true, List.all_eq_true, List.contains_iff_mem, imp_self, implies_true,
    Bool.not_eq_true', decide_eq_false_iff_not, Int.not_lt]
  refine ⟨by decide, hc⟩

/-- non-vacuity: a returning run whose second choice repeats the first hyperedge -/
example : SfDrawsOK 4 [(2, 2)] [[[3, 1], [1, 3], [0, 2]]] ∧
    (scaleFree 4 [2] [2] [2] true none 0 [[[3, 1], [1, 3], [0, 2]]]).map keys = some [[1, 3], [0, 2]] := by
  refine ⟨?_, by decide⟩
  simp only [SfDrawsOK, GroupsOK, IsSample]
  decide

/-! ## seed reproducibility -/

/-- the program over named sources computes the pure function of the draws its generator hands out -/
theorem randomLoopS_eq {σ : Type} (g : RNG σ) (pop : List Nat) : ∀ (req : List (Nat × Nat)) (h : HG) (s : σ),
    (randomLoopS g pop h req s).1 = randomLoop h req (groupsOf g pop req s) := by
  intro req
  induction req with
  | nil => intro h s; rfl
  | cons sc req ih => intro h s; obtain ⟨sz, c⟩ := sc; simp only [randomLoopS, groupsOf, randomLoop, genLoop]; exact ih _ _

/-- `random_hypergraph(n, req, seed)` with a seed: the output is a function of `(n, req, seed)` and the generator
algorithm alone - it does not depend on the ambient state `w` of any random source.  (All draws of the program come from
the source it seeded; compare `shuffleIndicesM` below, where this fails.) -/
theorem C14_seeded {σ : Type} (g : RNG σ) (n : Nat) (req : List (Nat × Nat)) (seed : Nat) (w w' : World σ) :
    (randomHypergraphM g n req (some seed) w).1 = (randomHypergraphM g n req (some seed) w').1 ∧
    (randomHypergraphM g n req (some seed) w).1 =
      randomHypergraph n req (groupsOf g (List.range n) req (g.seed seed)) ∧
    ∀ size count, (randomUniformM g n size count (some seed) w).1 = (randomUniformM g n size count (some seed) w').1 := by
  refine ⟨rfl, ?_, fun _ _ => rfl⟩
  simp only [randomHypergraphM, seedPy, randomHypergraph]
  exact randomLoopS_eq g _ req _ _

/-- without a seed the output is the same pure function of the draws taken from the ambient `random` state -/
theorem C14_unseeded {σ : Type} (g : RNG σ) (n : Nat) (req : List (Nat × Nat)) (w : World σ) :
    (randomHypergraphM g n req none w).1 = randomHypergraph n req (groupsOf g (List.range n) req w.py) := by
  simp only [randomHypergraphM, seedPy, randomHypergraph]
  exact randomLoopS_eq g _ req _ _

/-- the statement has teeth: `random_shuffle` seeds `np.random` but draws its indices from `random`; for that program
ambient independence is FALSE (toy generator: the state is a counter, a sample is `[state % 3]`).  The property does not
claim seed reproducibility for `random_shuffle`. -/
example : ∃ (g : RNG Nat) (w w' : World Nat),
    (shuffleIndicesM g 3 1 (some 7) w).1 ≠ (shuffleIndicesM g 3 1 (some 7) w').1 :=
  ⟨{ seed := fun s => s, sample := fun st _ _ => ([st % 3], st + 1) }, ⟨0, 0⟩, ⟨1, 0⟩, by decide⟩

/-! ## HOADmodel -/

/-- `HOADmodel(N, activities_per_order, time)` for every outcome of the coins and samples and for activity vectors of
ANY length (no hypothesis on the arguments).  `hoad .. = .done out` says that the call returned on a recording that
follows the pattern `random() [sample]` and in which every sample satisfies the contract of
`random.sample(range(N), order)` (`sampleOK`); the correspondence check shows that real runs are of this kind.
Conclusion: the records are pairwise distinct; each has a time in `[0, time)`, and for some order of the dict size
`order + 1`, distinct nodes, all below `N`. -/
theorem C14_hoad (N time : Nat) (acts : List (Nat × List Rat)) (draws : List HoadDraw) (out : List (Nat × Edge))
    (h : hoad N time acts draws = .done out) :
    out.Nodup ∧ ∀ r ∈ out, r.1 < time ∧ ∃ oa ∈ acts, r.2.length = oa.1 + 1 ∧ r.2.Nodup ∧ ∀ x ∈ r.2, x < N := by
  unfold hoad at h
  split at h
  · rename_i o1 ho
    cases h
    refine ⟨nodup_dedup _, ?_⟩
    intro r hr
    obtain ⟨h1, oa, hoa, h2⟩ := hoadOrders_spec N time acts draws o1 [] ho r (mem_dedup.mp hr)
    exact ⟨h1, oa, hoa, h2⟩
  · cases h
  · cases h

/-- the nodes that can fire are `0..N-1`, whatever the length of the activity vectors: the entries of a vector beyond
position `N` are never read - the run on the vectors cut to their first `N` entries is the same run (same outcome
`done`/`raised`/`stuck`, same records) on every recording -/
theorem C14_hoad_surplus (N time : Nat) (acts : List (Nat × List Rat)) (draws : List HoadDraw) :
    hoad N time (acts.map (fun oa => (oa.1, oa.2.take N))) draws = hoad N time acts draws := by
  simp only [hoad, hoadOrders_take]

/-- an activity vector shorter than `N` never yields a result when at least one time step is simulated (the real
routine raises `IndexError` at `act_vect[node_i]`) -/
theorem C14_hoad_short (N time : Nat) (acts : List (Nat × List Rat)) (draws : List HoadDraw) (ht : 0 < time)
    (hex : ∃ oa ∈ acts, oa.2.length < N) : ∀ out, hoad N time acts draws ≠ .done out := by
  intro out h
  unfold hoad at h
  split at h
  · rename_i o1 ho
    exact hoadOrders_short N time ht acts draws hex _ ho
  · cases h
  · cases h

/-- vectors with at least `N` entries and orders `≤ N` (the admissible arguments): the routine never raises -/
theorem C14_hoad_no_raise (N time : Nat) (acts : List (Nat × List Rat)) (draws : List HoadDraw)
    (hall : ∀ oa ∈ acts, N ≤ oa.2.length ∧ oa.1 ≤ N) : ∀ r, hoad N time acts draws ≠ .raised r := by
  intro r h
  unfold hoad at h
  split at h
  · cases h
  · rename_i ho
    exact hoadOrders_no_raise N time acts draws hall _ ho
  · cases h

/-- non-vacuity (activities and coins are quarters): node 0 is activated and samples node 2; node 1 is activated but
samples itself (dropped); node 2 is not activated -/
example : hoad 3 1 [(1, [3/4, 3/4, 1/4])]
    [⟨1/4, true, [2]⟩, ⟨1/2, true, [1]⟩, ⟨1/2, false, []⟩] = .done [(0, [0, 2])] := by decide +kernel

/-- the same run with a vector of five entries (the seeded change C14-c2 let nodes 3 and 4 fire here): three coins are
consumed, not five, and no record contains a node `≥ 3` -/
example : hoad 3 1 [(1, [3/4, 3/4, 1/4, 1, 1])]
    [⟨1/4, true, [2]⟩, ⟨1/2, true, [1]⟩, ⟨1/2, false, []⟩] = .done [(0, [0, 2])] := by decide +kernel

/-- a vector of two entries for `N = 3`: the call raises after the coins of nodes 0 and 1 -/
example : hoad 3 1 [(1, [3/4, 1/4])] [⟨1/4, true, [2]⟩, ⟨1/2, false, []⟩] = .raised [] := by decide +kernel

/-- order 3 with `N = 2`: the first activated node makes `random.sample(range(2), 3)` raise -/
example : hoad 2 1 [(3, [1/4, 3/4])] [⟨1/2, false, []⟩, ⟨1/2, false, []⟩] = .raised [] := by decide +kernel

/-! ## add_random_edge / add_random_edges -/

/-- how a call hands back its result: `inplace=False` leaves the argument as it was and returns the new object,
`inplace=True` changes the argument and returns nothing -/
theorem C14_inplace (h h' : HG) :
    (finish false h h').arg = h ∧ (finish false h h').ret = some h' ∧
    (finish true h h').arg = h' ∧ (finish true h h').ret = none := by
  simp [finish]

/-- the same at the level of OBJECTS (`finishObj`, `finishObjAll`: `h = hg if inplace else hg.copy()`).  Hypothesis: the
argument is a live object `a` with content `h`.  With `inplace=False` the returned object is a different, new object
(not the argument, not any object that existed before), the argument keeps its content, the result carries `h'`, and
WHATEVER is written into the returned object afterwards (`x`: a later in-place shuffle, `add_edge`, ...) the argument
still has its content; every other object is untouched too.  With `inplace=True` the argument carries `h'`. -/
theorem C14_inplace_objects (H : Heap) (a : Nat) (h h' : HG) (ha : AL.get? H a = some h) :
    (∃ r, (finishObj H a false h').2 = some r ∧ (finishObjAll H a false h').2 = some r ∧
      finishObjAll H a false h' = finishObj H a false h' ∧
      r ≠ a ∧ AL.get? H r = none ∧
      AL.get? (finishObj H a false h').1 a = some h ∧ AL.get? (finishObj H a false h').1 r = some h' ∧
      (∀ b, b ≠ r → AL.get? (finishObj H a false h').1 b = AL.get? H b) ∧
      (∀ x b, b ≠ r → AL.get? (AL.set (finishObj H a false h').1 r x) b = AL.get? H b) ∧
      (∀ x, AL.get? (AL.set (finishObj H a false h').1 r x) a = some h)) ∧
    (finishObj H a true h').2 = none ∧ AL.get? (finishObj H a true h').1 a = some h' ∧
    (finishObjAll H a true h').2 = some a ∧ AL.get? (finishObjAll H a true h').1 a = some h' := by
  have hne : freshId H ≠ a := by
    intro e
    have := get?_freshId H
    rw [e, ha] at this; cases this
  refine ⟨⟨freshId H, by simp [finishObj], by simp [finishObjAll], by simp [finishObj, finishObjAll], hne,
    get?_freshId H, ?_, ?_, ?_, ?_, ?_⟩, by simp [finishObj], by simp [finishObj], by simp [finishObjAll],
    by simp [finishObjAll]⟩
  · simp only [finishObj, Bool.false_eq_true, if_false]
    rw [AL.get?_set_ne _ _ _ _ hne, ha]
  · simp [finishObj]
  · intro b hb
    simp only [finishObj, Bool.false_eq_true, if_false]
    exact AL.get?_set_ne _ _ _ _ (Ne.symm hb)
  · intro x b hb
    simp only [finishObj, Bool.false_eq_true, if_false]
    rw [AL.get?_set_ne _ _ _ _ (Ne.symm hb), AL.get?_set_ne _ _ _ _ (Ne.symm hb)]
  · intro x
    simp only [finishObj, Bool.false_eq_true, if_false]
    rw [AL.get?_set_ne _ _ _ _ hne, AL.get?_set_ne _ _ _ _ hne, ha]

/-- non-vacuity: two live objects 3 and 7; the call on object 3 with `inplace=False` returns the new object 8 -/
example : (finishObj [(3, ⟨false, [0, 1], [([0, 1], (1, 0))]⟩), (7, {})] 3 false ⟨false, [0, 1], []⟩).2 = some 8 ∧
    AL.get? (finishObj [(3, ⟨false, [0, 1], [([0, 1], (1, 0))]⟩), (7, {})] 3 false ⟨false, [0, 1], []⟩).1 3
      = some ⟨false, [0, 1], [([0, 1], (1, 0))]⟩ := by decide

/-- `add_random_edge` for every outcome of `random.sample(nodes, size)`.  Hypotheses: the class invariants `WF`;
exactly one of `order`/`size`; the sample contract.  Conclusion (for the object `h'` that carries the result, see
`C14_inplace`): node list and weighted flag unchanged; the only key that may be new is the sorted sample, which has the
requested size and distinct existing nodes; every other hyperedge keeps its weight and metadata; the sampled hyperedge
itself follows `add_edge` (`recAfter`). -/
theorem C14_add_random (h : HG) (wf : WF h) (order size : Option Nat) (inplace : Bool) (s : Nat)
    (hs : resolveSize order size = some s) (draw : List Nat) (hd : IsSample h.nodes s draw) :
    ∃ h', addRandomEdge h order size inplace draw = some (finish inplace h h') ∧
      h'.nodes = h.nodes ∧ h'.weighted = h.weighted ∧ WF h' ∧
      keys h' = insNew (keys h) (sortE draw) ∧
      (sortE draw).length = s ∧ (sortE draw).Nodup ∧ (∀ x ∈ sortE draw, x ∈ h.nodes) ∧
      (∀ k, k ≠ sortE draw → AL.get? h'.edges k = AL.get? h.edges k) ∧
      AL.get? h'.edges (sortE draw) = some (recAfter h (sortE draw) 1 0) := by
  obtain ⟨h1, h2, h3⟩ := hd
  have hle : s ≤ h.nodes.length := by
    have := List.Nodup.length_le_of_subset h1 (fun x hx => h3 x hx); omega
  refine ⟨addEdge h draw 1 0, by simp [addRandomEdge, hs, hle], nodes_addEdge_of_subset _ _ _ _ h3, by simp,
    wf.addEdge draw 1 0 h3, keys_addEdge _ _ _ _, by simp [h2], by simpa using h1,
    fun x hx => h3 x (by simpa using hx), ?_, get?_addEdge_self _ _ _ _⟩
  intro k hk
  exact get?_addEdge_ne _ _ _ _ _ (Ne.symm hk)

/-- `add_random_edges(hg, k, ..)` for every outcome of the samples of a run that returned.  Conclusion: node list and
flag unchanged; the new keys are exactly the `k` pairwise distinct collected hyperedges, each of the requested size
over distinct existing nodes; every hyperedge that was not drawn keeps its weight and metadata. -/
theorem C14_add_random_edges (h : HG) (wf : WF h) (k : Nat) (order size : Option Nat) (inplace : Bool) (s : Nat)
    (hs : resolveSize order size = some s) (draws : List (List Nat)) (hd : ∀ d ∈ draws, IsSample h.nodes s d)
    (hret : consumedExactly k [] draws = true) :
    ∃ h', addRandomEdges h k order size inplace draws = some (finish inplace h h') ∧
      h'.nodes = h.nodes ∧ h'.weighted = h.weighted ∧ WF h' ∧
      (∀ e, e ∈ keys h' ↔ e ∈ keys h ∨ e ∈ collect k [] draws) ∧
      (collect k [] draws).Nodup ∧ (collect k [] draws).length = k ∧
      (∀ e ∈ collect k [] draws, e.length = s ∧ e.Nodup ∧ ∀ x ∈ e, x ∈ h.nodes) ∧
      (∀ e, e ∉ collect k [] draws → AL.get? h'.edges e = AL.get? h.edges e) := by
  have hc := collect_spec h.nodes s k draws [] hd List.nodup_nil (by simp)
  have hacc : k = 0 ∨ s ≤ h.nodes.length := by
    by_cases hk : k = 0
    · exact Or.inl hk
    · obtain ⟨d, hd'⟩ := List.exists_mem_of_ne_nil draws (consumedExactly_pos hret hk)
      obtain ⟨h1, h2, h3⟩ := hd d hd'
      have := List.Nodup.length_le_of_subset h1 (fun x hx => h3 x hx)
      exact Or.inr (by omega)
  have hsub : ∀ t ∈ (collect k [] draws).map (fun e => (e, ((1 : Nat), (0 : Nat)))), ∀ x ∈ t.1, x ∈ h.nodes := by
    intro t ht x hx
    obtain ⟨e, he, rfl⟩ := List.mem_map.mp ht
    exact (hc.2 e he).2.2.1 x hx
  refine ⟨addEdges h (collect k [] draws), by simp [addRandomEdges, hs, hacc], nodes_addMany_of_subset _ _ hsub,
    by simp [addEdges], WF.addMany _ wf hsub, ?_, hc.1, collect_length k draws [] hret (by simp),
    fun e he => ⟨(hc.2 e he).1, (hc.2 e he).2.1, (hc.2 e he).2.2.1⟩, ?_⟩
  · intro e
    rw [keys_addEdges_sorted h _ (fun e he => (hc.2 e he).2.2.2.1), mem_insAll]
  · intro e he
    unfold addEdges
    apply get?_addMany_of_not_mem
    intro t ht hte
    obtain ⟨e', he', rfl⟩ := List.mem_map.mp ht
    simp only at hte
    rw [(hc.2 e' he').2.2.2.1] at hte
    exact he (hte ▸ he')

/-- non-vacuity: a weighted hypergraph, the sample re-draws the existing hyperedge `[1,2]` (weight 5 -> 6, metadata
reset), the hyperedge `[0,1,2]` is untouched -/
example : (addRandomEdge ⟨true, [0, 1, 2], [([1, 2], (5, 7)), ([0, 1, 2], (2, 3))]⟩ none (some 2) true [2, 1]).map
    (fun r => r.arg.edges) = some [([1, 2], (6, 0)), ([0, 1, 2], (2, 3))] := by decide

/-! ## random_shuffle / random_shuffle_all_orders -/

/-- `random_shuffle` (repaired, D27) for every outcome of the index sample and of the choices.  Hypotheses: class
invariants; exactly one of `order`/`size`; `0 ≤ p = pn/pd ≤ 1`; `random.sample(range(m), k)` returned `k = int(p*m)`
indices; every `np.random.choice` returned `s` distinct members of the pool (`ShuffleDrawsOK`).  Conclusion for the
object `h'` carrying the result (`C14_inplace`: with `inplace=False` the argument stays `h`):
node list and flag kept; hyperedges of other sizes keep weight and metadata and none appears or disappears; every
hyperedge of the result has size `s` or is such an untouched one (sizes of rewired hyperedges are kept); a size-`s`
hyperedge is one that was not selected or has distinct nodes all taken from the selected (rewired) hyperedges; and for
`p = 0` the result has the same records (weights and metadata included) as the argument. -/
theorem C14_shuffle (h : HG) (wf : WF h) (order size : Option Nat) (inplace : Bool) (pn : Int) (pd s : Nat)
    (hs : resolveSize order size = some s) (hp : 0 ≤ pn ∧ pn ≤ pd)
    (idx : List Nat) (choices : List (List Nat))
    (hidx : idx.length = numToRandomize pn.toNat pd (edgesOfSize h s).length)
    (hd : ShuffleDrawsOK h s idx choices) :
    ∃ h', randomShuffle h order size inplace pn pd idx choices = some (finish inplace h h') ∧
      WF h' ∧ h'.nodes = h.nodes ∧ h'.weighted = h.weighted ∧
      (∀ k : Edge, k.length ≠ s → AL.get? h'.edges k = AL.get? h.edges k) ∧
      (∀ k ∈ keys h', k.length = s ∨ (k ∈ keys h ∧ k.length ≠ s)) ∧
      (∀ k ∈ keys h', k.length = s →
        (∃ t ∈ keptList idx (edgesOfSize h s) 0, k = t.1) ∨
        (k.Nodup ∧ ∀ x ∈ k, ∃ j ∈ idx, ∃ e, ((edgesOfSize h s)[j]?).map (·.1) = some e ∧ x ∈ e)) ∧
      (pn = 0 → Equiv h' h ∧ ∀ k, AL.get? h'.edges k = AL.get? h.edges k) := by
  have hspec := shuffleCore_spec h wf s idx choices hd
  refine ⟨shuffleCore h s idx choices, by simp [randomShuffle, hs, hp], hspec.wf, hspec.nodes, hspec.weighted,
    hspec.other, hspec.sizes, ?_, ?_⟩
  · intro k hk hl
    rcases hspec.fromPool k hk hl with h1 | ⟨h1, h2⟩
    · exact Or.inl h1
    · refine Or.inr ⟨h1, ?_⟩
      intro x hx
      obtain ⟨e, he, hxe⟩ := h2 x hx
      obtain ⟨j, hj, hc⟩ := (mem_selected_iff _ _ 0 e).mp he
      exact ⟨j, by simpa using hj, e, hc, hxe⟩
  · intro h0
    subst h0
    have : idx = [] := by
      apply List.eq_nil_of_length_eq_zero
      rw [hidx]; exact numToRandomize_zero _ _
    subst this
    have e := shuffleCore_p0 h wf s choices
    exact ⟨e, fun k => e.get? hspec.wf k⟩

/-- `random_shuffle_all_orders`: the same per-size step for every size of the hypergraph, in any iteration order.
Node list and flag kept, class invariants kept, hyperedges whose size is not shuffled untouched, no hyperedge of a new
size; `p = 0` (no index drawn at any size) changes no record; `inplace=False` leaves the argument as it was. -/
theorem C14_shuffle_all (h : HG) (wf : WF h) (inplace : Bool) (pn : Int) (pd : Nat) (hp : 0 ≤ pn ∧ pn ≤ pd)
    (sizes : List Nat) (draws : List (List Nat × List (List Nat))) (hd : ShuffleAllOK h sizes draws) :
    ∃ h', randomShuffleAll h inplace pn pd sizes draws = some ⟨if inplace then h' else h, some h'⟩ ∧
      WF h' ∧ h'.nodes = h.nodes ∧ h'.weighted = h.weighted ∧
      (∀ k : Edge, k.length ∉ sizes → AL.get? h'.edges k = AL.get? h.edges k) ∧
      (∀ k ∈ keys h', k ∈ keys h ∨ k.length ∈ sizes) ∧
      ((∀ d ∈ draws, d.1 = []) → Equiv h' h ∧ ∀ k, AL.get? h'.edges k = AL.get? h.edges k) := by
  obtain ⟨h1, h2, h3, h4, h5⟩ := shuffleAllLoop_spec sizes draws h wf hd
  refine ⟨shuffleAllLoop h sizes draws, ?_, h1, h2, h3, h4, h5, ?_⟩
  · simp only [randomShuffleAll, hp, and_self, if_true]
    cases inplace <;> simp
  · intro hnil
    have e := shuffleAllLoop_p0 sizes draws h wf hnil
    exact ⟨e, fun k => e.get? h1 k⟩

/-- non-vacuity for `C14_shuffle`: weighted hypergraph with metadata; index 0 is selected, the choice `[1,0]` comes from
the pool `[0,1]`; `[1,2]` keeps (3,2) and the size-3 hyperedge keeps (4,3) -/
example : ShuffleDrawsOK ⟨true, [0, 1, 2, 3], [([0, 1], (2, 1)), ([1, 2], (3, 2)), ([1, 2, 3], (4, 3))]⟩ 2 [0] [[1, 0]] ∧
    (shuffleCore ⟨true, [0, 1, 2, 3], [([0, 1], (2, 1)), ([1, 2], (3, 2)), ([1, 2, 3], (4, 3))]⟩ 2 [0] [[1, 0]]).edges
      = [([1, 2, 3], (4, 3)), ([0, 1], (1, 0)), ([1, 2], (3, 2))] := by
  refine ⟨?_, by decide⟩
  intro c hc
  simp only [List.mem_singleton] at hc
  subst hc
  simp only [IsSample]
  decide

/-- non-vacuity for `p = 0`: the unrepaired routine returned weights 1 and metadata `{}` here (D27) -/
example : (shuffleCore ⟨true, [0, 1, 2, 3], [([0, 1], (2, 1)), ([1, 2], (3, 2)), ([1, 2, 3], (4, 3))]⟩ 2 [] []).edges
    = [([1, 2, 3], (4, 3)), ([0, 1], (2, 1)), ([1, 2], (3, 2))] := by decide

/-- witness of D27 in the model of the routine as it was before the repair: `p = 0` on the same weighted hypergraph
resets the weights of the size-2 hyperedges to 1 and their metadata to `{}` -/
example : (shuffleCoreUnrepaired ⟨true, [0, 1, 2, 3], [([0, 1], (2, 1)), ([1, 2], (3, 2)), ([1, 2, 3], (4, 3))]⟩ 2 [] []).edges
    = [([1, 2, 3], (4, 3)), ([0, 1], (1, 0)), ([1, 2], (1, 0))] := by decide

/-! ## further non-vacuity examples (hypotheses are jointly satisfiable on non-trivial inputs) -/

/-- the class invariants hold for the weighted example hypergraph used above -/
example : WF ⟨true, [0, 1, 2, 3], [([0, 1], (2, 1)), ([1, 2], (3, 2)), ([1, 2, 3], (4, 3))]⟩ :=
  ⟨by decide, by decide, by decide, by decide⟩

/-- `C14_seeded` on a toy generator (state = counter, a sample = the first `k` members of the population rotated by the
state): seed 1, two different ambient worlds, the same non-trivial hypergraph -/
example :
    (randomHypergraphM ⟨fun s => s, fun st pop k => ((pop.rotateLeft st).take k, st + 1)⟩ 4 [(2, 3)] (some 1) ⟨0, 0⟩).1.edges
      = [([1, 2], (1, 0)), ([2, 3], (1, 0)), ([0, 3], (1, 0))] ∧
    (randomHypergraphM ⟨fun s => s, fun st pop k => ((pop.rotateLeft st).take k, st + 1)⟩ 4 [(2, 3)] (some 1) ⟨5, 9⟩).1.edges
      = [([1, 2], (1, 0)), ([2, 3], (1, 0)), ([0, 3], (1, 0))] ∧
    (randomHypergraphM ⟨fun s => s, fun st pop k => ((pop.rotateLeft st).take k, st + 1)⟩ 4 [(2, 3)] none ⟨6, 9⟩).1.edges
      ≠ [([1, 2], (1, 0)), ([2, 3], (1, 0)), ([0, 3], (1, 0))] := by decide

/-- `C14_add_random_edges`: three samples, the second repeats the first hyperedge, so the loop needs all three to reach
`k = 2`; the existing hyperedge `[0,1]` (weight 5, metadata 7) is untouched -/
example : consumedExactly 2 [] [[2, 1], [1, 2], [0, 3]] = true ∧
    (addRandomEdges ⟨true, [0, 1, 2, 3], [([0, 1], (5, 7))]⟩ 2 (some 1) none false [[2, 1], [1, 2], [0, 3]]).map
      (fun r => (r.arg.edges, r.ret.map (·.edges)))
      = some ([([0, 1], (5, 7))], some [([0, 1], (5, 7)), ([1, 2], (1, 0)), ([0, 3], (1, 0))]) := by decide

/-- `C14_shuffle_all`: sizes 2 and 3; at size 2 position 1 is rewired (choice from the pool `[1,2]`), at size 3 nothing is
selected; the draws satisfy `ShuffleAllOK` -/
example : ShuffleAllOK ⟨true, [0, 1, 2, 3], [([0, 1], (2, 1)), ([1, 2], (3, 2)), ([1, 2, 3], (4, 3))]⟩ [2, 3]
      [([1], [[2, 1]]), ([], [])] ∧
    (randomShuffleAll ⟨true, [0, 1, 2, 3], [([0, 1], (2, 1)), ([1, 2], (3, 2)), ([1, 2, 3], (4, 3))]⟩ false 1 2 [2, 3]
      [([1], [[2, 1]]), ([], [])]).map (fun r => r.ret.map (·.edges))
      = some (some [([0, 1], (2, 1)), ([1, 2], (1, 0)), ([1, 2, 3], (4, 3))]) := by
  refine ⟨?_, by decide⟩
  simp only [ShuffleAllOK, ShuffleDrawsOK, IsSample, and_true]
  refine ⟨?_, ?_⟩
  · intro c hc
    simp only [List.mem_singleton] at hc
    subst hc
    decide
  · intro c hc; simp at hc

/-! ## argument VALUE TYPES: which number a routine works with (`Hgxv/Model/C14Raw.lean`)

The requested numbers reach the routines as Python objects (`Num`: int / bool / real of any type / text).  The theorems
above speak about the numbers the routines WORK WITH; the ones below say which numbers these are. -/

/-- The two conversions the generators apply to a requested number.  `loopCount x = k` is the exit point of
`while len(acc) < x` under Python's own exact comparison: the test holds at every length below `k` and fails at `k`;
it has no value exactly when the test raises (a `str`).  `int(x)` of a non-negative real is its floor.  The two differ by
at most one and agree exactly on integral values - for `3.7` they are 3 and 4. -/
theorem C14_count_conversions (x : Num) :
    (∀ k, x.loopCount = some k → (∀ j, j < k → x.natLt j = some true) ∧ x.natLt k = some false) ∧
    (x.loopCount = none ↔ ∀ j, x.natLt j = none) ∧
    (∀ n d k c, x = .real n d → 0 ≤ n → x.toInt = some k → x.loopCount = some c →
      k * ((d : Int) + 1) ≤ n ∧ n < (k + 1) * ((d : Int) + 1) ∧ k ≤ c ∧ (c : Int) ≤ k + 1 ∧
      (n = k * ((d : Int) + 1) → (c : Int) = k)) := by
  refine ⟨fun k h => Num.loopCount_spec x k h, Num.loopCount_none x, ?_⟩
  intro n d k c hx hn hk hc
  subst hx
  obtain ⟨_, h1, h2⟩ := Num.toInt_real_floor n d k hn hk
  obtain ⟨h3, h4, h5⟩ := Num.toInt_le_loopCount n d k c hn hk hc
  exact ⟨h1, h2, h3, h4, h5⟩

/-- with integer `n`, sizes and `num_shuffles` the routine on the caller's raw counts IS the routine on `int(count)` -/
theorem scaleFreeRaw_int (n : Nat) (sizes : List Nat) (counts : List Num) (cs : List Int) (scaleKeys : List Nat)
    (correlated : Bool) (corr : Option Rat) (shuffles : Int) (groups : List (List (List Nat)))
    (hconv : optAll Num.toInt counts = some cs) :
    scaleFreeRaw (Num.ofNat n) (sizes.map Num.ofNat) counts scaleKeys correlated corr (.int shuffles) groups =
      scaleFree n sizes cs scaleKeys correlated corr shuffles groups := by
  have h1 : optAll Num.natValue (sizes.map Num.ofNat) = some sizes :=
    optAll_map_some Num.natValue Num.ofNat Num.natValue_int sizes
  have h2 : (sizes.map Num.ofNat).map (Num.choiceK n) = sizes := by
    rw [List.map_map]
    conv => rhs; rw [← List.map_id sizes]
    apply List.map_congr_left
    intro s _
    exact Num.choiceK_int n s
  have h3 : (if (sizes.map Num.ofNat).isEmpty then (Num.ofNat n).index
      else (Num.ofNat n).npSize) = some (n : Int) := by
    split <;> rfl
  unfold scaleFreeRaw
  rw [h3]
  simp only [h1, hconv, shufflesArg, Num.index, Int.toNat_natCast, h2, scaleFree]
  simp

/-- `scale_free_hypergraph` returns exactly `int(count)` distinct hyperedges per size WHATEVER THE VALUE TYPE of the
requested numbers (`3.7` and `"3"` mean 3, `True` means 1): hypotheses and conclusion of `C14_scale_free` with
`cs = [int(c) for c in counts]`; a count whose conversion raises, or is negative, is refused. -/
theorem C14_scale_free_counts (n : Nat) (sizes : List Nat) (counts : List Num) (cs : List Int) (scaleKeys : List Nat)
    (correlated : Bool) (corr : Option Rat) (shuffles : Int) (groups : List (List (List Nat)))
    (hconv : optAll Num.toInt counts = some cs)
    (hvalid : sfValid sizes cs scaleKeys correlated corr shuffles = true)
    (hkeys : sizes.Nodup) (hlen : counts.length = sizes.length)
    (hdraws : SfDrawsOK n (sizes.zip (cs.map Int.toNat)) groups) :
    (∀ p ∈ counts.zip cs, p.1.toInt = some p.2 ∧ 0 ≤ p.2) ∧
    ∃ h, scaleFreeRaw (Num.ofNat n) (sizes.map Num.ofNat) counts scaleKeys correlated corr (.int shuffles)
          groups = some h ∧
      h.nodes = List.range n ∧ (keys h).Nodup ∧
      (∀ sc ∈ sizes.zip (cs.map Int.toNat), countSize h sc.1 = sc.2) ∧
      (∀ s, s ∉ sizes → countSize h s = 0) ∧
      (∀ e ∈ keys h, e.length ∈ sizes ∧ e.Nodup ∧ (∀ x ∈ e, x < n)) := by
  have hl : cs.length = sizes.length := (optAll_length _ _ _ hconv).trans hlen
  refine ⟨?_, ?_⟩
  · intro p hp
    refine ⟨optAll_mem _ _ _ hconv p hp, ?_⟩
    have hc : cs.all (fun c => !(c < 0)) = true := by
      simp only [sfValid, Bool.and_eq_true] at hvalid
      exact hvalid.2
    have := List.all_eq_true.mp hc p.2 (List.of_mem_zip hp).2
    simpa using this
  · rw [scaleFreeRaw_int n sizes counts cs scaleKeys correlated corr shuffles groups hconv]
    exact C14_scale_free n sizes cs scaleKeys correlated corr shuffles groups hvalid hkeys hl hdraws

/-- `optAll` refuses the whole request when one conversion raises: `"3.0"`, `"abc"` (`int` raises ValueError) -/
example : scaleFreeRaw (.int 4) [.int 2] [.text none] [2] true none (.int 0) [] = none := by decide

/-- non-vacuity and the witness for the seeded change C14-d1: a request of `3.7` hyperedges of size 2 on 4 nodes with
four recorded choices.  The code (`int(count)` stored back) stops after three distinct hyperedges and leaves the fourth
choice unused (`sfReturned = false`: this recording does not belong to a run of the code); the variant whose generation
loop reads the raw value collects four. -/
example : (scaleFreeRaw (.int 4) [.int 2] [.real 37 9] [2] true none (.int 0) [[[3, 1], [0, 2], [2, 1], [0, 3]]]).map keys
      = some [[1, 3], [0, 2], [1, 2]] ∧
    (scaleFreeUnconverted 4 [2] [.real 37 9] [2] true none 0 [[[3, 1], [0, 2], [2, 1], [0, 3]]]).map keys
      = some [[1, 3], [0, 2], [1, 2], [0, 3]] ∧
    Num.toInt (.real 37 9) = some 3 ∧ Num.loopCount (.real 37 9) = some 4 ∧
    Num.toInt (.text (some 4)) = some 4 ∧ Num.loopCount (.text (some 4)) = none ∧
    Num.toInt (.real (-1) 1) = some 0 ∧ Num.toInt (.real 5 0) = some 5 ∧ Num.loopCount (.real 5 0) = some 5 := by
  decide

/-- `random_hypergraph` on the caller's raw counts is the routine on the number of passes of `while len(edges) <
count` (`ceil` of a real, 0 for a non-positive one); hence, with `C14_random`: at most that many hyperedges per size and
at least one when it is positive.  A count that cannot be compared with a length (`str`) is refused. -/
theorem C14_random_counts (n : Nat) (sizes : List Nat) (counts : List Num) (cs : List Nat)
    (groups : List (List (List Nat))) (hconv : optAll Num.loopCount counts = some cs)
    (hkeys : sizes.Nodup) (hlen : counts.length = sizes.length) (hdraws : RandomDrawsOK n (sizes.zip cs) groups) :
    randomHypergraphRaw? (Num.ofNat n) (sizes.map Num.ofNat) counts groups
      = some (randomHypergraph n (sizes.zip cs) groups) ∧
    (randomHypergraph n (sizes.zip cs) groups).nodes = List.range n ∧
    (∀ sc ∈ sizes.zip cs, countSize (randomHypergraph n (sizes.zip cs) groups) sc.1 ≤ sc.2 ∧
      (1 ≤ sc.2 → 1 ≤ countSize (randomHypergraph n (sizes.zip cs) groups) sc.1)) ∧
    (∀ e ∈ keys (randomHypergraph n (sizes.zip cs) groups), e.length ∈ sizes ∧ e.Nodup ∧ (∀ x ∈ e, x < n)) := by
  have hl : cs.length = sizes.length := (optAll_length _ _ _ hconv).trans hlen
  have hmap : (sizes.zip cs).map (·.1) = sizes := by
    apply List.map_fst_zip; simp [hl]
  have h2 : (sizes.map Num.ofNat).map (Num.sampleK n) = sizes := by
    rw [List.map_map]
    conv => rhs; rw [← List.map_id sizes]
    apply List.map_congr_left
    intro s _
    exact Num.sampleK_int n s
  have h := C14_random n (sizes.zip cs) groups (by rw [hmap]; exact hkeys) hdraws
  refine ⟨?_, h.2.1, h.2.2.2.2.2.1, ?_⟩
  · simp only [randomHypergraphRaw?, Num.index_ofNat, hconv, Int.toNat_natCast, h2]
    exact h.1
  · intro e he
    obtain ⟨⟨sc, hsc, hl', _⟩, hnd, hlt, _⟩ := h.2.2.2.2.1 e he
    refine ⟨?_, hnd, hlt⟩
    rw [hl', ← hmap]
    exact List.mem_map_of_mem (f := (·.1)) hsc

/-- non-vacuity: `{2: 2.5}` makes three samples (the third repeats the first), `{2: "3"}` is refused -/
example : (randomHypergraphRaw? (.int 5) [.int 2] [.real 5 1] [[[4, 1], [0, 2], [1, 4]]]).map keys = some [[1, 4], [0, 2]] ∧
    randomHypergraphRaw? (.int 5) [.int 2] [.text (some 3)] [[[4, 1], [0, 2], [1, 4]]] = none ∧
    randomHypergraphRaw? (.real 5 0) [.int 2] [.int 1] [[[4, 1]]] = none ∧
    randomHypergraphRaw? (.int 5) [.real 2 0] [.int 1] [[[4, 1]]] = none ∧
    (randomHypergraphRaw? (.int 5) [.real 2 0] [.real (-1) 1] [[]]).map keys = some [] := by decide

/-- `add_random_edges(hg, k, size=s)` on the caller's raw `k` is the routine on the number of passes of
`while len(edges) < k` -/
theorem C14_add_random_edges_count (h : HG) (k : Num) (kc s : Nat) (inplace : Bool) (draws : List (List Nat))
    (hk : k.loopCount = some kc) :
    addRandomEdgesRaw h k none (some (Num.ofNat s)) inplace draws = addRandomEdges h kc none (some s) inplace draws ∧
    addRandomEdgesRaw h k (some (Num.ofNat s)) none inplace draws = addRandomEdges h kc (some s) none inplace draws := by
  simp [addRandomEdgesRaw, resolveSizeRaw, hk, Num.sampleK_int, Num.succ_ofNat, addRandomEdges, resolveSize]

/-- `HOADmodel` on raw `N`, `time` and orders of any value type: whenever the call returns, `N` and `time` were
indices (or never looked at: no order / no time step, then nothing is emitted) and every emitted record has a time below
`time`, distinct nodes below `N`, and `order + 1` nodes for an order of the dict that IS an index -/
theorem C14_hoad_raw (N time : Num) (acts : List (Num × List Rat)) (draws : List HoadDraw) (out : List (Nat × Edge))
    (h : hoadRaw N time acts draws = .done out) :
    out.Nodup ∧ ∀ r ∈ out, ∃ n t : Int, N.index = some n ∧ time.index = some t ∧ (r.1 : Int) < t ∧
      ∃ oa ∈ acts, ∃ o : Int, oa.1.index = some o ∧ 0 ≤ o ∧ (r.2.length : Int) = o + 1 ∧ r.2.Nodup ∧
        ∀ x ∈ r.2, (x : Int) < n := by
  have empty : ∀ ds, hoad 0 0 [] ds = .done out → out = [] := by
    intro ds hd
    unfold hoad hoadOrders at hd
    cases ds <;> simp at hd
    exact hd.symm
  unfold hoadRaw at h
  split at h
  · have := empty _ h; subst this; simp
  · split at h
    · split at h <;> cases h
    · rename_i t ht
      split at h
      · have := empty _ h; subst this; simp
      · split at h
        · split at h <;> cases h
        · rename_i hpos n hn
          obtain ⟨h1, h2⟩ := C14_hoad _ _ _ _ _ h
          refine ⟨h1, fun r hr => ?_⟩
          obtain ⟨ht', oa', hoa', hlen, hnd, hlt⟩ := h2 r hr
          obtain ⟨oa, hoa, rfl⟩ := List.mem_map.mp hoa'
          simp only at hlen
          have hle : r.2.length ≤ n.toNat := by
            have := List.Nodup.length_le_of_subset hnd (l₂ := List.range n.toNat)
              (fun x hx => List.mem_range.mpr (hlt x hx))
            simpa using this
          obtain ⟨o, ho1, ho2, ho3⟩ := Num.sampleK_le n.toNat oa.1 (by omega)
          refine ⟨n, t, hn, ht, by omega, oa, hoa, o, ho1, ho2, by omega, hnd, fun x hx => ?_⟩
          have := hlt x hx
          omega

/-- non-vacuity: `N = True` (one node), order `False` (no partner): the node fires alone; a float order raises when the
first node fires, a float `time` raises before any draw, and is never looked at when there is no order -/
example : hoadRaw (.bool true) (.int 1) [(.bool false, [1])] [⟨1/2, true, []⟩] = .done [(0, [0])] ∧
    hoadRaw (.int 2) (.int 1) [(.real 1 0, [1, 1])] [⟨1/2, false, []⟩] = .raised [] ∧
    hoadRaw (.int 2) (.real 1 0) [(.int 1, [1, 1])] [] = .raised [] ∧
    hoadRaw (.int 2) (.real 1 0) [] [] = .done [] := by decide +kernel

/-! ## Extension round: how many draws a run takes, which requests can be met, the options of `scale_free_hypergraph`
(`Hgxv/Model/C14Trace.lean`) -/

/-- The rejection loop `edges = set(); while len(edges) < k: edges.add(tuple(sorted(draw)))` of `add_random_edges` and
`scale_free_hypergraph` on EVERY stream of draws (no hypothesis): it returns the first `k` distinct sorted hyperedges of
the stream; it takes `collectUsed` draws and what lies behind them is never looked at; it stops within the first `m`
draws as soon as these hold `k` distinct hyperedges (termination bound) and not before; a stream that holds `k` distinct
hyperedges makes it return; and the draws of a run that returned hold exactly `k` distinct hyperedges, i.e. the run took
`k` draws plus one for every repetition. -/
theorem C14_rejection_loop (k : Nat) (ds : List (List Nat)) :
    collect k [] ds = (dedup (ds.map sortE)).take k ∧
    collectUsed k [] ds ≤ ds.length ∧
    collect k [] (ds.take (collectUsed k [] ds)) = collect k [] ds ∧
    (∀ m, k ≤ (dedup ((ds.take m).map sortE)).length → collectUsed k [] ds ≤ m) ∧
    (∀ m, m < collectUsed k [] ds → (dedup ((ds.take m).map sortE)).length < k) ∧
    (k ≤ (dedup (ds.map sortE)).length → consumedExactly k [] (ds.take (collectUsed k [] ds)) = true) ∧
    (consumedExactly k [] ds = true →
      (dedup (ds.map sortE)).length = k ∧ collectUsed k [] ds = ds.length ∧ (collect k [] ds).length = k ∧ k ≤ ds.length) := by
  refine ⟨collect_eq_take k ds [] (by simp), collectUsed_le_length k ds [], collect_take_used k ds [],
    fun m h => collectUsed_le_of_distinct k ds [] m h, fun m h => distinct_lt_of_lt_collectUsed k ds [] m h,
    fun h => consumed_prefix k ds [] h, ?_⟩
  intro h
  exact ⟨consumed_distinct k ds [] h (by simp), ((consumedExactly_iff k ds []).mp h).1,
    collect_length k ds [] h (by simp), consumed_length_ge k ds h⟩

/-- non-vacuity: the second draw repeats the first hyperedge; the loop for `k = 2` takes three draws, the fourth is
never looked at -/
example : collectUsed 2 [] [[2, 1], [1, 2], [0, 3], [5, 6]] = 3 ∧
    collect 2 [] [[2, 1], [1, 2], [0, 3], [5, 6]] = [[1, 2], [0, 3]] ∧
    consumedExactly 2 [] [[2, 1], [1, 2], [0, 3]] = true ∧ consumedExactly 2 [] [[2, 1], [1, 2], [0, 3], [5, 6]] = false := by
  decide

/-- WHICH requests can be met (the near-saturated and the infeasible ones).  Hypothesis: the sampler contract for every
draw.  Whatever the draws, the loop never holds more than `C(n, s)` hyperedges; a request above `C(n, s)` is met by NO
draw list (the real call does not return: `while len(edges) < k` can never fail); so every run that returned was asked for at
most `C(n, s)`, and a request of exactly `C(n, s)` is met by the draws that enumerate all of them. -/
theorem C14_saturation (n s k : Nat) (ds : List (List Nat)) (hs : ∀ d ∈ ds, IsSample (List.range n) s d) :
    (collect k [] ds).length ≤ n.choose s ∧
    (n.choose s < k → consumedExactly k [] ds = false) ∧
    (consumedExactly k [] ds = true → k ≤ n.choose s) := by
  have hret := returning_feasible n s k ds hs
  refine ⟨?_, ?_, hret⟩
  · rw [collect_eq_take k ds [] (by simp), List.length_take]
    have := distinct_le_choose n s ds hs
    unfold dedup at this
    omega
  · intro hk
    cases hc : consumedExactly k [] ds with
    | false => rfl
    | true => have := hret hc; omega

/-- non-vacuity: three nodes have `C(3,2) = 3` pairs; a request of 3 returns after the draws below (one repetition), a
request of 4 does not return on them (nor on any other list) -/
example : (∀ d ∈ [[0, 1], [2, 1], [1, 0], [2, 0]], IsSample (List.range 3) 2 d) ∧
    consumedExactly 3 [] [[0, 1], [2, 1], [1, 0], [2, 0]] = true ∧
    consumedExactly 4 [] [[0, 1], [2, 1], [1, 0], [2, 0]] = false ∧ Nat.choose 3 2 = 3 := by
  refine ⟨?_, by decide, by decide, by decide⟩
  simp only [IsSample]; decide

/-- `random_hypergraph` takes exactly `count` samples per size (`while len(edges) < count: edges.append(..)`, a list):
the number of draws is the sum of the requested counts for every generator algorithm and state - it always terminates -/
theorem C14_random_draws {σ : Type} (g : RNG σ) (pop : List Nat) : ∀ (req : List (Nat × Nat)) (s : σ),
    (groupsOf g pop req s).map List.length = req.map (·.2) := by
  have hdraw : ∀ (size c : Nat) (s : σ), (drawN g pop size c s).1.length = c := by
    intro size c
    induction c with
    | zero => intro s; rfl
    | succ c ih => intro s; simp [drawN, ih]
  intro req
  induction req with
  | nil => intro s; rfl
  | cons sc req ih =>
    intro s
    obtain ⟨sz, c⟩ := sc
    simp only [groupsOf, List.map_cons, hdraw, ih]

/-- `HOADmodel`: a run that returns took exactly one coin per (order, time step, node) - `len(orders) * time * N` draws
of `random.random`, whatever the coins decide - and emitted at most one hyperlink per coin -/
theorem C14_hoad_draws (N time : Nat) (acts : List (Nat × List Rat)) (draws : List HoadDraw) (out : List (Nat × Edge))
    (h : hoad N time acts draws = .done out) :
    draws.length = acts.length * (time * N) ∧ out.length ≤ acts.length * (time * N) :=
  hoad_count N time acts draws out h

/-- `scale_free_hypergraph` with ALL its options, as a function of the complete sequence of its calls on `np.random`
(`scaleFreeTrace`).  Hypotheses: `edges_by_size` is a dict; every hyperedge choice obeys the sampler contract for the size
IT WAS ASKED WITH; the run returned `h` after exactly the calls `evs`.  Conclusion, for `correlated` on or off,
`corr_target` given or not, any `num_shuffles`: the nodes are `0..n-1`; exactly the requested number of pairwise distinct
hyperedges per size, nothing of another size, distinct nodes `< n`; every requested number is at most `C(n, size)`;
`np.random.exponential` was called once per size; no swap call when `correlated` is off, exactly `num_shuffles` per size when
no `corr_target` is given (at least that many otherwise); every choice was asked with a requested size; and the choices,
grouped per size, are a run of the model `scaleFree` that held exactly `count` distinct hyperedges per size. -/
theorem C14_scale_free_options (n : Nat) (sizes : List Nat) (counts : List Int) (scaleKeys : List Nat)
    (correlated : Bool) (corr : Option Rat) (shuffles : Int) (evs : List SfEv) (h : HG)
    (hkeys : sizes.Nodup) (hlen : counts.length = sizes.length)
    (hsample : ∀ s d, SfEv.choice s d ∈ evs → IsSample (List.range n) s d)
    (hrun : scaleFreeTrace n sizes counts scaleKeys correlated corr shuffles evs = .done h) :
    h.nodes = List.range n ∧ (keys h).Nodup ∧
    (∀ sc ∈ sizes.zip (counts.map Int.toNat), countSize h sc.1 = sc.2) ∧
    (∀ s, s ∉ sizes → countSize h s = 0) ∧
    (∀ e ∈ keys h, e.length ∈ sizes ∧ e.Nodup ∧ (∀ x ∈ e, x < n)) ∧
    (∀ sc ∈ sizes.zip (counts.map Int.toNat), sc.2 ≤ n.choose sc.1) ∧
    countExp evs = sizes.length ∧
    (correlated = false → countSwap evs = 0) ∧
    (correlated = true → corr = none → countSwap evs = sizes.length * shuffles.toNat) ∧
    sizes.length * shuffles.toNat * correlated.toNat ≤ countSwap evs ∧
    (∀ s d, SfEv.choice s d ∈ evs → s ∈ sizes) ∧
    ∃ groups, sfParse n correlated corr shuffles.toNat true (sizes.zip (counts.map Int.toNat)) evs = some groups ∧
      scaleFree n sizes counts scaleKeys correlated corr shuffles groups = some h ∧
      countChoice evs = (groups.map List.length).sum ∧
      GroupsOK (fun _ c g => (dedup (g.map sortE)).length = c ∧ c ≤ g.length) (sizes.zip (counts.map Int.toNat)) groups := by
  have hreqlen : (sizes.zip (counts.map Int.toNat)).length = sizes.length := by simp [hlen]
  have hmap : (sizes.zip (counts.map Int.toNat)).map (·.1) = sizes := by
    apply List.map_fst_zip; simp [hlen]
  simp only [scaleFreeTrace] at hrun
  split at hrun
  · rename_i hcond
    simp only [Bool.and_eq_true] at hcond
    obtain ⟨⟨hvalid, hadm⟩, _⟩ := hcond
    split at hrun
    · cases hrun
    · rename_i groups hparse
      split at hrun
      · rename_i hret
        cases hrun
        have P := sfParse_spec n correlated corr shuffles.toNat _ true evs groups hparse
        have hcons := sfReturned_groupsOK _ _ hret P.len
        have hdraws : SfDrawsOK n (sizes.zip (counts.map Int.toNat)) groups :=
          groupsOK_and _ _ (groupsOK_imp (fun s _ g hg d hd => hsample s d (hg d hd)) _ _ P.mem) hcons
        obtain ⟨h', hsf, h1, h2, h3, h4, h5⟩ :=
          C14_scale_free n sizes counts scaleKeys correlated corr shuffles groups hvalid hkeys hlen hdraws
        have hsf' : scaleFree n sizes counts scaleKeys correlated corr shuffles groups =
            some (sfLoop (addNodes {} (List.range n)) (sizes.zip (counts.map Int.toNat)) groups) := by
          simp only [scaleFree, hvalid, hadm, Bool.and_self, if_true]
        have heq : h' = sfLoop (addNodes {} (List.range n)) (sizes.zip (counts.map Int.toNat)) groups := by
          rw [hsf'] at hsf; exact (Option.some.inj hsf).symm
        subst heq
        refine ⟨h1, h2, h3, h4, h5, ?_, by rw [P.exps, hreqlen], P.uncorr, ?_, ?_, ?_, groups, hparse, hsf', P.choices, ?_⟩
        · intro sc hsc
          obtain ⟨g, hg1, hg2⟩ := groupsOK_forall _ _ hdraws sc hsc
          exact returning_feasible n sc.1 sc.2 g hg1 hg2
        · intro hc hn; rw [P.shuffled hc hn, hreqlen]
        · have := P.atleast; rwa [hreqlen] at this
        · intro s d hm
          obtain ⟨sc, hsc, heq⟩ := P.only s d hm
          rw [← heq, ← hmap]; exact List.mem_map_of_mem (f := (·.1)) hsc
        · exact groupsOK_imp (fun _ c g hg => ⟨consumed_distinct c g [] hg (by simp), consumed_length_ge c g hg⟩) _ _ hcons
      · cases hrun
  · cases hrun

/-- non-vacuity: `num_shuffles=1` on 4 nodes, sizes 2 (two hyperedges, the second choice repeats the first) and 1: one
`exponential` and one swap per size -/
example : scaleFreeTrace 4 [2, 1] [2, 1] [1, 2] true none 1
      [.exp 4, .swap 0 1, .choice 2 [3, 1], .choice 2 [1, 3], .choice 2 [0, 2], .exp 4, .swap 2 3, .choice 1 [2]]
    = .done ⟨false, [0, 1, 2, 3], [([1, 3], (1, 0)), ([0, 2], (1, 0)), ([2], (1, 0))]⟩ := by decide +kernel

/-- `corr_target = 1/2`: the Spearman loop (two swaps here) runs for the second size only; a swap in front of the first
size, a choice asked with another size, or a missing `exponential` call are not runs of the routine -/
example : scaleFreeTrace 4 [2, 1] [1, 1] [2, 1] true (some (1/2)) 0
      [.exp 4, .choice 2 [3, 1], .exp 4, .swap 2 3, .swap 0 1, .choice 1 [2]]
      = .done ⟨false, [0, 1, 2, 3], [([1, 3], (1, 0)), ([2], (1, 0))]⟩ ∧
    scaleFreeTrace 4 [2, 1] [1, 1] [2, 1] true (some (1/2)) 0
      [.exp 4, .swap 2 3, .choice 2 [3, 1], .exp 4, .choice 1 [2]] = .stuck ∧
    scaleFreeTrace 4 [2, 1] [1, 1] [2, 1] true none 0 [.exp 4, .choice 3 [3, 1, 0], .exp 4, .choice 1 [2]] = .stuck ∧
    scaleFreeTrace 4 [2, 1] [1, 1] [2, 1] true none 0 [.exp 4, .choice 2 [3, 1], .choice 1 [2]] = .stuck ∧
    scaleFreeTrace 1 [1] [1] [1] true none 2 [.exp 1] = .rej ∧
    scaleFreeTrace 1 [1] [1] [1] false none 0 [.exp 1, .choice 1 [0]] = .done ⟨false, [0], [([0], (1, 0))]⟩ := by
  refine ⟨by decide +kernel, by decide +kernel, by decide +kernel, by decide +kernel, by decide +kernel,
    by decide +kernel⟩

/-- The node pool `random_shuffle` hands to `np.random.choice(pool, size, replace=False, p=weights/sum)` and the option
`preserve_degree`, for every index sample `idx`.  The pool has no repetitions and consists exactly of the nodes of the
selected (rewired) hyperedges; there is one weight per pool node and every weight is at least 1 (no zero probability);
with `preserve_degree=False` all weights are 1; with `preserve_degree=True` a node's weight is its number of occurrences in
the selected hyperedges and the weights add up to the number of node slots of these hyperedges; and a selected hyperedge
with distinct nodes is not larger than the pool, so the choice of `size` distinct pool nodes is possible. -/
theorem C14_shuffle_pool (cur : List (Edge × Rec)) (idx : List Nat) (preserve : Bool) :
    (pool cur idx).Nodup ∧
    (∀ x, x ∈ pool cur idx ↔ ∃ e ∈ selected cur idx 0, x ∈ e) ∧
    (poolWeights cur idx preserve).length = (pool cur idx).length ∧
    (∀ w ∈ poolWeights cur idx preserve, 1 ≤ w) ∧
    (∀ w ∈ poolWeights cur idx false, w = 1) ∧
    poolWeights cur idx true = (pool cur idx).map (fun x => (selected cur idx 0).flatten.count x) ∧
    (poolWeights cur idx true).sum = ((selected cur idx 0).map List.length).sum ∧
    (∀ e ∈ selected cur idx 0, e.Nodup → e.length ≤ (pool cur idx).length) :=
  ⟨nodup_dedup _, mem_pool cur idx, poolWeights_length cur idx preserve, poolWeights_pos cur idx preserve,
    poolWeights_uniform cur idx, by simp [poolWeights], poolWeights_sum cur idx,
    fun e he hnd => pool_large_enough cur idx e he hnd⟩

/-- non-vacuity: positions 0 and 2 of three pairs are selected; node 1 occurs in both -/
example : pool [([0, 1], (1, 0)), ([2, 3], (1, 0)), ([1, 4], (1, 0))] [2, 0] = [0, 1, 4] ∧
    poolWeights [([0, 1], (1, 0)), ([2, 3], (1, 0)), ([1, 4], (1, 0))] [2, 0] true = [1, 2, 1] ∧
    poolWeights [([0, 1], (1, 0)), ([2, 3], (1, 0)), ([1, 4], (1, 0))] [2, 0] false = [1, 1, 1] := by decide

/-- The validation of `scale_free_hypergraph` (lines 37-59) as the code runs it: `sfError` is the number of the first
`raise ValueError` that is reached, the checks in the order of the code.  It reports nothing exactly when the arguments
are valid in the sense of `sfValid` (the hypothesis of `C14_scale_free`); it only reports numbers 1..8; and the checks on
the two maps and on the counts have a witness: a size without scale (6), a scale without size (7), a negative number (8). -/
theorem C14_scale_free_validation (sizes : List Nat) (counts : List Int) (scaleKeys : List Nat) (correlated : Bool)
    (corr : Option Rat) (shuffles : Int) :
    (sfError sizes counts scaleKeys correlated corr shuffles = none ↔
      sfValid sizes counts scaleKeys correlated corr shuffles = true) ∧
    (∀ i, sfError sizes counts scaleKeys correlated corr shuffles = some i → 1 ≤ i ∧ i ≤ 8) ∧
    (sfError sizes counts scaleKeys correlated corr shuffles = some 1 ↔ (shuffles ≠ 0 ∧ correlated = false)) ∧
    (sfError sizes counts scaleKeys correlated corr shuffles = some 6 → ∃ k ∈ sizes, k ∉ scaleKeys) ∧
    (sfError sizes counts scaleKeys correlated corr shuffles = some 7 → ∃ k ∈ scaleKeys, k ∉ sizes) ∧
    (sfError sizes counts scaleKeys correlated corr shuffles = some 8 → ∃ c ∈ counts, c < 0) := by
  refine ⟨sfError_none_iff _ _ _ _ _ _, fun i h => sfError_range _ _ _ _ _ _ i h, ?_, ?_, ?_, ?_⟩
  · unfold sfError
    (repeat' split) <;> simp_all
  · intro h
    unfold sfError at h
    (repeat' split at h) <;> simp_all
  · intro h
    unfold sfError at h
    (repeat' split at h) <;> simp_all
  · intro h
    unfold sfError at h
    (repeat' split at h) <;> simp_all

/-- non-vacuity: the order of the checks - a negative `num_shuffles` without `correlated` is reported as 1, with it as 2;
a missing scale comes before a negative count -/
example : sfError [2] [3] [2] false none (-1) = some 1 ∧ sfError [2] [3] [2] true none (-1) = some 2 ∧
    sfError [2, 3] [-1, 1] [2] true none 0 = some 6 ∧ sfError [2] [-1] [2] true none 0 = some 8 ∧
    sfError [2] [3] [2] true (some (3/2)) 0 = some 3 ∧ sfError [2] [3] [2] true (some (1/2)) 4 = some 5 ∧
    sfError [2] [3] [2] true (some (1/2)) 0 = none := by
  refine ⟨by decide, by decide, by decide, by decide, by decide +kernel, by decide +kernel, by decide +kernel⟩

/-- The argument checks of `random_shuffle` and `add_random_edge(s)` in the order of the code (`argError`: 1 both of
`order`/`size`, 2 neither, 3 `p` outside `[0, 1]`): no error exactly when the model accepts the call; `order`/`size` are
looked at before `p`. -/
theorem C14_argument_errors (h : HG) (order size : Option Nat) (inplace : Bool) (pn : Int) (pd : Nat)
    (idx : List Nat) (cs : List (List Nat)) (p : Option (Int × Nat)) :
    (argError order size (some (pn, pd)) = none ↔ (randomShuffle h order size inplace pn pd idx cs).isSome = true) ∧
    (argError order size none = none ↔ (resolveSize order size).isSome = true) ∧
    (argError order size p = some 1 ↔ (order.isSome = true ∧ size.isSome = true)) ∧
    (argError order size p = some 2 ↔ (order = none ∧ size = none)) ∧
    (argError order size p = some 3 ↔
      ((resolveSize order size).isSome = true ∧ ∃ a b, p = some (a, b) ∧ ¬ (0 ≤ a ∧ a ≤ b))) := by
  refine ⟨?_, ?_, ?_, ?_, ?_⟩
  · cases order <;> cases size <;> simp [argError, randomShuffle, resolveSize]
  · cases order <;> cases size <;> simp [argError, resolveSize]
  · cases order <;> cases size <;> simp [argError] <;> (try split) <;> (try split) <;> simp_all
  · cases order <;> cases size <;> simp [argError] <;> (try split) <;> (try split) <;> simp_all
  · cases order <;> cases size <;> rcases p with _ | ⟨a, b⟩ <;> simp [argError, resolveSize]

example : argError (some 1) (some 2) (some (5, 4)) = some 1 ∧ argError none none (some (5, 4)) = some 2 ∧
    argError none (some 2) (some (5, 4)) = some 3 ∧ argError none (some 2) (some (-1, 4)) = some 3 ∧
    argError (some 1) none (some (3, 4)) = none := by decide

/-! ## node, hypergraph-level and incidence metadata (`Hgxv/Model/C14Meta.lean`) -/

/-- The model with the metadata tables (`HGM`) refines the content-level model: forgetting the tables, every call of
`add_random_edge(s)` / `random_shuffle(_all_orders)` IS the call of `Hgxv/Model/C14.lean` - for all arguments and draws, the
rejected calls included.  So every theorem above speaks about the content of the objects of this model as well. -/
theorem C14_metadata_refines (m : HGM) (order size : Option Nat) (inplace : Bool) (k : Nat) (pn : Int) (pd : Nat)
    (draw idx sizes : List Nat) (draws : List (List Nat)) (all : List (List Nat × List (List Nat))) :
    (addRandomEdgeM m order size inplace draw).map CallResultM.proj = addRandomEdge m.core order size inplace draw ∧
    (addRandomEdgesM m k order size inplace draws).map CallResultM.proj
      = addRandomEdges m.core k order size inplace draws ∧
    (randomShuffleM m order size inplace pn pd idx draws).map CallResultM.proj
      = randomShuffle m.core order size inplace pn pd idx draws ∧
    (randomShuffleAllM m inplace pn pd sizes all).map CallResultM.proj = randomShuffleAll m.core inplace pn pd sizes all := by
  refine ⟨?_, ?_, ?_, ?_⟩
  · unfold addRandomEdgeM addRandomEdge
    cases resolveSize order size with
    | none => rfl
    | some s => simp only; split <;> cases inplace <;> simp [finishM, finish, CallResultM.proj]
  · unfold addRandomEdgesM addRandomEdges
    cases resolveSize order size with
    | none => rfl
    | some s =>
      simp only; split <;> cases inplace <;>
        simp [finishM, finish, CallResultM.proj, addEdgesM, addEdges, addManyM_core]
  · unfold randomShuffleM randomShuffle
    cases resolveSize order size with
    | none => rfl
    | some s =>
      simp only; split <;> cases inplace <;> simp [finishM, finish, CallResultM.proj, shuffleCoreM_core]
  · unfold randomShuffleAllM randomShuffleAll
    simp only; split <;> cases inplace <;> simp [CallResultM.proj, shuffleAllLoopM_core]

/-- "... and leave everything else intact", for the tables the content does not show.  Hypotheses: class invariants of the
content (`WF`) and every node has an entry in the node-metadata table (`add_node` creates it); exactly one of
order/size; the draws obey their contracts.  Conclusion for `add_random_edge`, `add_random_edges`, `random_shuffle` and
`random_shuffle_all_orders`: the object that carries the result has the SAME node-metadata table (no node gained or lost
an entry, no dict was replaced), the same hypergraph-level metadata and the same incidence-metadata table as the
argument, and its content is the content-level result; with `inplace=False` the argument keeps all its tables. -/
theorem C14_metadata_intact (m : HGM) (wf : WF m.core) (hn : ∀ x ∈ m.core.nodes, x ∈ m.nmeta.map (·.1)) :
    (∀ (order size : Option Nat) (inplace : Bool) (s : Nat) (draw : List Nat),
      resolveSize order size = some s → IsSample m.core.nodes s draw →
      ∃ m', addRandomEdgeM m order size inplace draw = some (finishM inplace m m') ∧
        m'.core = addEdge m.core draw 1 0 ∧ m'.nmeta = m.nmeta ∧ m'.hmeta = m.hmeta ∧ m'.imeta = m.imeta) ∧
    (∀ (k : Nat) (order size : Option Nat) (inplace : Bool) (s : Nat) (draws : List (List Nat)),
      resolveSize order size = some s → (∀ d ∈ draws, IsSample m.core.nodes s d) →
      consumedExactly k [] draws = true →
      ∃ m', addRandomEdgesM m k order size inplace draws = some (finishM inplace m m') ∧
        m'.core = addEdges m.core (collect k [] draws) ∧
        m'.nmeta = m.nmeta ∧ m'.hmeta = m.hmeta ∧ m'.imeta = m.imeta) ∧
    (∀ (order size : Option Nat) (inplace : Bool) (pn : Int) (pd s : Nat) (idx : List Nat) (cs : List (List Nat)),
      resolveSize order size = some s → 0 ≤ pn ∧ pn ≤ pd → ShuffleDrawsOK m.core s idx cs →
      ∃ m', randomShuffleM m order size inplace pn pd idx cs = some (finishM inplace m m') ∧
        m'.core = shuffleCore m.core s idx cs ∧ m'.nmeta = m.nmeta ∧ m'.hmeta = m.hmeta ∧ m'.imeta = m.imeta) ∧
    (∀ (inplace : Bool) (pn : Int) (pd : Nat) (sizes : List Nat) (draws : List (List Nat × List (List Nat))),
      0 ≤ pn ∧ pn ≤ pd → ShuffleAllOK m.core sizes draws →
      ∃ m', randomShuffleAllM m inplace pn pd sizes draws = some ⟨if inplace then m' else m, some m'⟩ ∧
        m'.core = shuffleAllLoop m.core sizes draws ∧
        m'.nmeta = m.nmeta ∧ m'.hmeta = m.hmeta ∧ m'.imeta = m.imeta) ∧
    (∀ m', finishM false m m' = ⟨m, some m'⟩ ∧ finishM true m m' = ⟨m', none⟩) := by
  refine ⟨?_, ?_, ?_, ?_, fun m' => ⟨rfl, rfl⟩⟩
  · intro order size inplace s draw hs hd
    have hle : s ≤ m.core.nodes.length := by
      have := List.Nodup.length_le_of_subset hd.1 (fun x hx => hd.2.2 x hx)
      rw [hd.2.1] at this; exact this
    refine ⟨addEdgeM m draw 1 0, by simp [addRandomEdgeM, hs, hle], rfl, ?_, rfl, rfl⟩
    exact addEdgeM_nmeta m draw 1 0 (fun x hx => hn x (hd.2.2 x hx))
  · intro k order size inplace s draws hs hd hret
    have hc := collect_spec m.core.nodes s k draws [] hd List.nodup_nil (by simp)
    have hacc : k = 0 ∨ s ≤ m.core.nodes.length := by
      by_cases hk : k = 0
      · exact Or.inl hk
      · obtain ⟨d, hd'⟩ := List.exists_mem_of_ne_nil draws (consumedExactly_pos hret hk)
        obtain ⟨h1, h2, h3⟩ := hd d hd'
        have := List.Nodup.length_le_of_subset h1 (fun x hx => h3 x hx)
        exact Or.inr (by omega)
    have hmeta := addManyM_meta ((collect k [] draws).map (fun e => (e, ((1 : Nat), (0 : Nat))))) m (by
      intro t ht x hx
      obtain ⟨e, he, rfl⟩ := List.mem_map.mp ht
      exact hn x ((hc.2 e he).2.2.1 x hx))
    exact ⟨addEdgesM m (collect k [] draws), by simp [addRandomEdgesM, hs, hacc],
      by simp [addEdgesM, addEdges, addManyM_core], hmeta.1, hmeta.2.1, hmeta.2.2⟩
  · intro order size inplace pn pd s idx cs hs hp hd
    have hmeta := shuffleCoreM_meta m wf hn s idx cs hd
    exact ⟨shuffleCoreM m s idx cs, by simp [randomShuffleM, hs, hp], shuffleCoreM_core m s idx cs,
      hmeta.1, hmeta.2.1, hmeta.2.2⟩
  · intro inplace pn pd sizes draws hp hd
    have hmeta := shuffleAllLoopM_meta sizes draws m wf hn hd
    refine ⟨shuffleAllLoopM m sizes draws, ?_, shuffleAllLoopM_core sizes draws m, hmeta.1, hmeta.2.1, hmeta.2.2⟩
    simp only [randomShuffleAllM, hp, and_self, if_true]
    cases inplace <;> simp

/-- non-vacuity: nodes 0..3 with node metadata 5, 0, 6, 0, hypergraph metadata 9, an incidence entry for the hyperedge
that is rewired; position 0 of the two pairs is rewired - all three tables are as before (the incidence entry of the
removed hyperedge `[0,1]` is still there: `remove_edge` does not clear it) -/
example : (shuffleCoreM ⟨⟨true, [0, 1, 2, 3], [([0, 1], (2, 1)), ([1, 2], (3, 2))]⟩, [(0, 5), (1, 0), (2, 6), (3, 0)], 9,
      [(([0, 1], 1), 4)]⟩ 2 [0] [[1, 0]])
    = ⟨⟨true, [0, 1, 2, 3], [([0, 1], (1, 0)), ([1, 2], (3, 2))]⟩, [(0, 5), (1, 0), (2, 6), (3, 0)], 9,
      [(([0, 1], 1), 4)]⟩ := by decide

/-- the hypothesis "every node has an entry" matters: `add_edge` over a node the table does not know creates `{}` for it -/
example : (addEdgeM ⟨⟨false, [0, 1], []⟩, [(0, 5)], 0, []⟩ [1, 0] 1 0).nmeta = [(0, 5), (1, 0)] := by decide

/-! ## Second extension round: the `seed` option of every seeded routine, the depth of `copy()` -/

/-- `add_random_edge(.., seed)` as a program over the named sources, for EVERY generator algorithm `g`, hypergraph,
arguments, seed (0 included: `seed : Nat` is arbitrary) and ambient states `w`, `w'`: the outcome (argument afterwards and
returned object, or the rejection) does not depend on the ambient states - same seed, same output; `np.random` is never
touched; for admissible arguments the outcome is the pure `addRandomEdge` on the first sample of the stream that `seed`
determines, and `random` is left in the same state; without a seed it is the same function of the ambient `random`
state.  No hypothesis. -/
theorem C14_add_random_seeded {σ : Type} (g : RNG σ) (h : HG) (order size : Option Nat) (inplace : Bool) (seed : Nat)
    (w w' : World σ) :
    (addRandomEdgeS g h order size inplace (some seed) w).1 = (addRandomEdgeS g h order size inplace (some seed) w').1 ∧
    (addRandomEdgeS g h order size inplace (some seed) w).2.np = w.np ∧
    (addRandomEdgeS g h order size inplace none w).2.np = w.np ∧
    (∀ s, resolveSize order size = some s →
      (addRandomEdgeS g h order size inplace (some seed) w).2.py
        = (addRandomEdgeS g h order size inplace (some seed) w').2.py) ∧
    (∀ s, resolveSize order size = some s → s ≤ h.nodes.length →
      (addRandomEdgeS g h order size inplace (some seed) w).1
        = addRandomEdge h order size inplace (g.sample (g.seed seed) h.nodes s).1 ∧
      (addRandomEdgeS g h order size inplace none w).1
        = addRandomEdge h order size inplace (g.sample w.py h.nodes s).1) ∧
    ((addRandomEdgeS g h order size inplace (some seed) w).1 = none ↔ addRandomEdge h order size inplace [] = none) := by
  cases hr : resolveSize order size with
  | none => simp [addRandomEdgeS, addRandomEdge, hr]
  | some s =>
    by_cases hle : s ≤ h.nodes.length
    · simp [addRandomEdgeS, addRandomEdge, seedPy, hr, hle]
    · simp [addRandomEdgeS, addRandomEdge, seedPy, hr, hle]

/-- non-vacuity, SEED 0: from the ambient states 5 and 9 the call with `seed=0` gives the same hypergraph (hyperedge
`[0,1]`), a different one than the unseeded call from state 2 (`[2,3]`), and with the bug `if seed:` (`seedPyTruthy`) seed
0 would leave the ambient state in charge -/
example : (addRandomEdgeS demoRNG ⟨false, [0, 1, 2, 3], []⟩ none (some 2) false (some 0) ⟨5, 5⟩).1
      = some ⟨⟨false, [0, 1, 2, 3], []⟩, some ⟨false, [0, 1, 2, 3], [([0, 1], (1, 0))]⟩⟩ ∧
    (addRandomEdgeS demoRNG ⟨false, [0, 1, 2, 3], []⟩ none (some 2) false (some 0) ⟨9, 9⟩).1
      = (addRandomEdgeS demoRNG ⟨false, [0, 1, 2, 3], []⟩ none (some 2) false (some 0) ⟨5, 5⟩).1 ∧
    (addRandomEdgeS demoRNG ⟨false, [0, 1, 2, 3], []⟩ none (some 2) false none ⟨2, 2⟩).1
      = some ⟨⟨false, [0, 1, 2, 3], []⟩, some ⟨false, [0, 1, 2, 3], [([2, 3], (1, 0))]⟩⟩ ∧
    (seedPyTruthy demoRNG (some 0) ⟨2, 2⟩).py = 2 ∧ (seedPy demoRNG (some 0) ⟨2, 2⟩).py = 0 := by decide

/-- `add_random_edges(.., seed)` (`while len(edges) < k` run on a generator, at most `fuel` draws): for every generator,
hypergraph, arguments, seed (0 included), fuel and ambient states the outcome does not depend on the ambient states and
`np.random` is not touched; the loop takes at most `fuel` draws; for admissible arguments a run that returned is the pure
`addRandomEdges` on the draws the seed determines (the loop stopped exactly at their end), and then MORE fuel gives the
same outcome and the same generator state (fuel only decides whether a run is followed to its end); without a seed
the same holds with the ambient `random` state in place of `g.seed seed`.  No hypothesis. -/
theorem C14_add_random_edges_seeded {σ : Type} (g : RNG σ) (h : HG) (k : Nat) (order size : Option Nat) (inplace : Bool)
    (seed fuel : Nat) (w w' : World σ) :
    (addRandomEdgesS g h k order size inplace (some seed) fuel w).1
      = (addRandomEdgesS g h k order size inplace (some seed) fuel w').1 ∧
    (addRandomEdgesS g h k order size inplace (some seed) fuel w).2.np = w.np ∧
    (addRandomEdgesS g h k order size inplace none fuel w).2.np = w.np ∧
    (∀ s, resolveSize order size = some s →
      (addRandomEdgesS g h k order size inplace (some seed) fuel w).2.py
        = (addRandomEdgesS g h k order size inplace (some seed) fuel w').2.py) ∧
    (∀ s st, (drawUntil g h.nodes s k fuel [] st).1.length ≤ fuel) ∧
    (∀ s, resolveSize order size = some s → (k = 0 ∨ s ≤ h.nodes.length) →
      ∀ sd : Option Nat, consumedExactly k [] (drawUntil g h.nodes s k fuel [] (seedPy g sd w).py).1 = true →
        (addRandomEdgesS g h k order size inplace sd fuel w).1
          = addRandomEdges h k order size inplace (drawUntil g h.nodes s k fuel [] (seedPy g sd w).py).1 ∧
        (addRandomEdgesS g h k order size inplace sd fuel w).1 ≠ none ∧
        ∀ d, addRandomEdgesS g h k order size inplace sd (fuel + d) w
          = addRandomEdgesS g h k order size inplace sd fuel w) := by
  refine ⟨?_, ?_, ?_, ?_, fun s st => drawUntil_length g h.nodes s k fuel [] st, ?_⟩
  · cases hr : resolveSize order size with
    | none => simp [addRandomEdgesS, hr]
    | some s => by_cases hle : k = 0 ∨ s ≤ h.nodes.length <;> (simp [addRandomEdgesS, seedPy, hr, hle]; try rfl)
  · cases hr : resolveSize order size with
    | none => simp [addRandomEdgesS, hr]
    | some s => by_cases hle : k = 0 ∨ s ≤ h.nodes.length <;> (simp [addRandomEdgesS, seedPy, hr, hle]; try rfl)
  · cases hr : resolveSize order size with
    | none => simp [addRandomEdgesS, hr]
    | some s => by_cases hle : k = 0 ∨ s ≤ h.nodes.length <;> (simp [addRandomEdgesS, seedPy, hr, hle]; try rfl)
  · intro s hr
    by_cases hle : k = 0 ∨ s ≤ h.nodes.length <;> simp [addRandomEdgesS, seedPy, hr, hle]
  · intro s hr hle sd hc
    refine ⟨by simp [addRandomEdgesS, hr, hle, hc], ?_, ?_⟩
    · simp [addRandomEdgesS, addRandomEdges, hr, hle, hc]
    · intro d
      have e := drawUntil_mono g h.nodes s k fuel [] (seedPy g sd w).py hc d
      simp only [addRandomEdgesS, hr, hle, if_true, e]

/-- non-vacuity: `k = 2` pairs over 4 nodes with seed 0 from two ambient states: three draws (the generator repeats
nothing here: states 0, 1 give `[0,1]`, `[1,2]`), the loop returned, fuel 5 or 50 makes no difference -/
example : (addRandomEdgesS demoRNG ⟨false, [0, 1, 2, 3], []⟩ 2 none (some 2) true (some 0) 5 ⟨7, 7⟩).1
      = some ⟨⟨false, [0, 1, 2, 3], [([0, 1], (1, 0)), ([1, 2], (1, 0))]⟩, none⟩ ∧
    (addRandomEdgesS demoRNG ⟨false, [0, 1, 2, 3], []⟩ 2 none (some 2) true (some 0) 50 ⟨7, 7⟩).1
      = (addRandomEdgesS demoRNG ⟨false, [0, 1, 2, 3], []⟩ 2 none (some 2) true (some 0) 5 ⟨7, 7⟩).1 ∧
    (addRandomEdgesS demoRNG ⟨false, [0, 1, 2, 3], []⟩ 2 none (some 2) true (some 0) 50 ⟨7, 7⟩).2.py = 2 ∧
    (addRandomEdgesS demoRNG ⟨false, [0, 1, 2, 3], []⟩ 2 none (some 2) true (some 0) 1 ⟨7, 7⟩).1 = none := by decide

/-- `random_shuffle(.., seed)`: the routine seeds **np.random** and draws the rewired positions from **random**.  For every
generator, choice routine, hypergraph, arguments, seed (0 included) and ambient states: the outcome does not depend on
the ambient state of `np.random`; with equal ambient `random` states the outcomes AND the states left behind are equal
("same seed and same `random` state, same output"); the outcome is the pure `randomShuffle` on the positions
`random.sample(range(m), int(p*m))` from the ambient `random` state and the choices the seeded `np.random` stream gives
for the pool and weights of these positions; the seeded program rejects exactly what the pure routine rejects.  (That the
positions come from the UNSEEDED source is the negative witness after `C14_unseeded`.)  No hypothesis. -/
theorem C14_shuffle_seeded {σ : Type} (g : RNG σ) (c : Choice σ) (h : HG) (order size : Option Nat) (inplace : Bool)
    (pn : Int) (pd : Nat) (preserve : Bool) (seed : Nat) (w w' : World σ) (hpy : w.py = w'.py) :
    (randomShuffleS g c h order size inplace pn pd preserve (some seed) w).1
      = (randomShuffleS g c h order size inplace pn pd preserve (some seed) w').1 ∧
    (∀ s, resolveSize order size = some s → 0 ≤ pn ∧ pn ≤ pd →
      randomShuffleS g c h order size inplace pn pd preserve (some seed) w
        = randomShuffleS g c h order size inplace pn pd preserve (some seed) w' ∧
      ∀ sd : Option Nat,
        (randomShuffleS g c h order size inplace pn pd preserve sd w).1
          = randomShuffle h order size inplace pn pd
              (g.sample w.py (List.range (edgesOfSize h s).length)
                (numToRandomize pn.toNat pd (edgesOfSize h s).length)).1
              (drawChoices c
                (pool (edgesOfSize h s) (g.sample w.py (List.range (edgesOfSize h s).length)
                  (numToRandomize pn.toNat pd (edgesOfSize h s).length)).1)
                (poolWeights (edgesOfSize h s) (g.sample w.py (List.range (edgesOfSize h s).length)
                  (numToRandomize pn.toNat pd (edgesOfSize h s).length)).1 preserve) s
                (g.sample w.py (List.range (edgesOfSize h s).length)
                  (numToRandomize pn.toNat pd (edgesOfSize h s).length)).1
                (edgesOfSize h s) 0 (seedNp g sd w).np).1) ∧
    ((randomShuffleS g c h order size inplace pn pd preserve (some seed) w).1 = none
      ↔ randomShuffle h order size inplace pn pd [] [] = none) := by
  cases hr : resolveSize order size with
  | none => simp [randomShuffleS, randomShuffle, hr]
  | some s =>
    by_cases hp : 0 ≤ pn ∧ pn ≤ pd
    · refine ⟨by simp [randomShuffleS, seedNp, hr, hp, hpy], ?_, by simp [randomShuffleS, randomShuffle, hr, hp]⟩
      intro s' hs' _
      cases hs'
      refine ⟨by simp [randomShuffleS, seedNp, hr, hp, hpy], ?_⟩
      intro sd
      cases sd <;> simp [randomShuffleS, seedNp, hr, hp]
    · refine ⟨by simp [randomShuffleS, hr, hp], ?_, by simp [randomShuffleS, randomShuffle, hr, hp]⟩
      intro s' _ hp'
      exact absurd hp' hp

/-- `seed=0` is a seed: for every generator and ambient state, `random.seed(0)` / `np.random.seed(0)` is executed (the state
is `g.seed 0`, whatever it was), in `random_hypergraph`, `random_uniform_hypergraph`, `add_random_edge(s)` and
`random_shuffle` alike; the program with the test `if seed:` (`seedPyTruthy`) differs from the code exactly at seed 0. -/
theorem C14_seed_zero {σ : Type} (g : RNG σ) (w : World σ) :
    (seedPy g (some 0) w).py = g.seed 0 ∧ (seedPy g (some 0) w).np = w.np ∧
    (seedNp g (some 0) w).np = g.seed 0 ∧ (seedNp g (some 0) w).py = w.py ∧
    seedPy g none w = w ∧ seedNp g none w = w ∧
    (∀ s : Nat, s ≠ 0 → seedPyTruthy g (some s) w = seedPy g (some s) w) ∧ seedPyTruthy g (some 0) w = w ∧
    (∀ n req w', (randomHypergraphM g n req (some 0) w).1 = (randomHypergraphM g n req (some 0) w').1) ∧
    (∀ h order size inplace w',
      (addRandomEdgeS g h order size inplace (some 0) w).1 = (addRandomEdgeS g h order size inplace (some 0) w').1) ∧
    (∀ h k order size inplace fuel w', (addRandomEdgesS g h k order size inplace (some 0) fuel w).1
      = (addRandomEdgesS g h k order size inplace (some 0) fuel w').1) := by
  refine ⟨rfl, rfl, rfl, rfl, rfl, rfl, ?_, rfl, ?_, ?_, ?_⟩
  · intro s hs
    cases s with
    | zero => exact absurd rfl hs
    | succ s => rfl
  · intro n req w'; exact (C14_seeded g n req 0 w w').1
  · intro h order size inplace w'; exact (C14_add_random_seeded g h order size inplace 0 w w').1
  · intro h k order size inplace fuel w'; exact (C14_add_random_edges_seeded g h k order size inplace 0 fuel w w').1

example : (seedPy demoRNG (some 0) ⟨4, 6⟩).py = 0 ∧ (seedPy demoRNG (some 0) ⟨4, 6⟩).np = 6 ∧
    (seedNp demoRNG (some 0) ⟨4, 6⟩).py = 4 ∧ (seedNp demoRNG (some 0) ⟨4, 6⟩).np = 0 := by decide

/-- non-vacuity: two pairs and a triple, `p = 1/2` (one of the two pairs is rewired), seed 0, ambient `random` state 1
(position 1 = `[2,3]` is rewired: pool `[2,3]`, choice from state 0 = `[2,3]`): equal outcomes from the `np.random` states 4
and 8; the kept pair keeps weight 2 and metadata 1 -/
example : (randomShuffleS demoRNG demoChoice ⟨true, [0, 1, 2, 3], [([0, 1], (2, 1)), ([2, 3], (3, 2)), ([0, 1, 2], (4, 3))]⟩
      none (some 2) true 1 2 false (some 0) ⟨1, 4⟩).1
      = some ⟨⟨true, [0, 1, 2, 3], [([0, 1, 2], (4, 3)), ([0, 1], (2, 1)), ([2, 3], (1, 0))]⟩, none⟩ ∧
    (randomShuffleS demoRNG demoChoice ⟨true, [0, 1, 2, 3], [([0, 1], (2, 1)), ([2, 3], (3, 2)), ([0, 1, 2], (4, 3))]⟩
      none (some 2) true 1 2 false (some 0) ⟨1, 8⟩).1
      = (randomShuffleS demoRNG demoChoice ⟨true, [0, 1, 2, 3], [([0, 1], (2, 1)), ([2, 3], (3, 2)), ([0, 1, 2], (4, 3))]⟩
      none (some 2) true 1 2 false (some 0) ⟨1, 4⟩).1 := by decide

/-- how deep `copy()` is, as a statement about OBJECTS WITH ALL THEIR TABLES (`HeapM`: object id -> content with weights and
hyperedge metadata, node metadata, hypergraph metadata, incidence metadata).  Hypothesis: the argument is a live object
`a` holding `m`.  For EVERY result `m'` a routine computes (so for `add_random_edge`, `add_random_edges`, `random_shuffle`,
`random_shuffle_all_orders` alike - `C14_metadata_intact` says what `m'` is): with `inplace=False` the result is handed back
in an object that did not exist before and is not the argument; the argument still holds `m` - content, weights and all
three metadata tables; every other object is untouched; and after ANY sequence of later writes into the returned object
(`pokes`: whatever the caller does to it - nothing of the argument is shared with it) the argument and every other old
object still hold what they held.  With `inplace=True` the argument holds `m'`. -/
theorem C14_copy_depth (H : HeapM) (a : Nat) (m m' : HGM) (ha : AL.get? H a = some m) :
    (∃ r, (finishObjM H a false m').2 = some r ∧ (finishObjAllM H a false m').2 = some r ∧
      finishObjAllM H a false m' = finishObjM H a false m' ∧
      r ≠ a ∧ AL.get? H r = none ∧
      AL.get? (finishObjM H a false m').1 r = some m' ∧
      (∀ b, b ≠ r → AL.get? (finishObjM H a false m').1 b = AL.get? H b) ∧
      (∀ pokes : List HGM, ∀ b, b ≠ r → AL.get? (pokes.foldl (fun G x => poke G r x) (finishObjM H a false m').1) b = AL.get? H b) ∧
      (∀ pokes : List HGM, ∃ m₁, AL.get? (pokes.foldl (fun G x => poke G r x) (finishObjM H a false m').1) a = some m₁ ∧
        m₁.core = m.core ∧ m₁.nmeta = m.nmeta ∧ m₁.hmeta = m.hmeta ∧ m₁.imeta = m.imeta)) ∧
    (finishObjM H a true m').2 = none ∧ AL.get? (finishObjM H a true m').1 a = some m' ∧
    (finishObjAllM H a true m').2 = some a ∧ AL.get? (finishObjAllM H a true m').1 a = some m' := by
  have hne : freshIdM H ≠ a := by
    intro e
    have := get?_freshIdM H
    rw [e, ha] at this; cases this
  have hpk : ∀ (pokes : List HGM) (H' : HeapM) (b : Nat), b ≠ freshIdM H →
      AL.get? (pokes.foldl (fun G x => poke G (freshIdM H) x) H') b = AL.get? H' b := by
    intro pokes
    induction pokes with
    | nil => intro H' b _; rfl
    | cons x xs ih =>
      intro H' b hb
      rw [List.foldl_cons, ih _ b hb]
      exact AL.get?_set_ne _ _ _ _ (Ne.symm hb)
  have hold : ∀ b, b ≠ freshIdM H → AL.get? (finishObjM H a false m').1 b = AL.get? H b := by
    intro b hb
    simp only [finishObjM, Bool.false_eq_true, if_false]
    exact AL.get?_set_ne _ _ _ _ (Ne.symm hb)
  refine ⟨⟨freshIdM H, by simp [finishObjM], by simp [finishObjAllM], by simp [finishObjM, finishObjAllM], hne,
    get?_freshIdM H, by simp [finishObjM], hold, ?_, ?_⟩, by simp [finishObjM], by simp [finishObjM],
    by simp [finishObjAllM], by simp [finishObjAllM]⟩
  · intro pokes b hb
    rw [hpk pokes _ b hb, hold b hb]
  · intro pokes
    refine ⟨m, ?_, rfl, rfl, rfl, rfl⟩
    rw [hpk pokes _ a (Ne.symm hne), hold a (Ne.symm hne), ha]

/-- non-vacuity: objects 3 (with node metadata, hypergraph metadata 9, an incidence entry) and 7; the call on 3 with
`inplace=False` returns the new object 8; two later writes into 8 leave object 3 as it was -/
example : (finishObjM [(3, ⟨⟨false, [0, 1], [([0, 1], (1, 0))]⟩, [(0, 5), (1, 0)], 9, [(([0, 1], 1), 4)]⟩), (7, {})] 3 false {}).2
      = some 8 ∧
    AL.get? ([({} : HGM), ⟨⟨true, [], []⟩, [], 1, []⟩].foldl (fun G x => poke G 8 x)
      (finishObjM [(3, ⟨⟨false, [0, 1], [([0, 1], (1, 0))]⟩, [(0, 5), (1, 0)], 9, [(([0, 1], 1), 4)]⟩), (7, {})] 3 false {}).1) 3
      = some ⟨⟨false, [0, 1], [([0, 1], (1, 0))]⟩, [(0, 5), (1, 0)], 9, [(([0, 1], 1), 4)]⟩ := by decide

/-- TERMINATION BOUND of `add_random_edges` on a generator.  For every generator, state, hypergraph, admissible
arguments, seed (or none) and bound `fuel`: the loop's draws are a prefix of the generator's stream (`drawN`: the first
`fuel` samples) - exactly as many as the pure loop takes (`collectUsed`); and if the first `fuel` samples of the stream
hold `k` distinct hyperedges the call returns within `fuel` draws, with the first `k` distinct hyperedges of the stream,
and every larger bound gives the same.  (Hypothesis = "the draw list contains enough distinct proposals"; for requests
above `C(n, size)` no stream has that, `C14_saturation`.) -/
theorem C14_add_random_edges_terminates {σ : Type} (g : RNG σ) (h : HG) (k : Nat) (order size : Option Nat)
    (inplace : Bool) (sd : Option Nat) (fuel s : Nat) (w : World σ) (hr : resolveSize order size = some s)
    (hle : k = 0 ∨ s ≤ h.nodes.length) :
    (drawUntil g h.nodes s k fuel [] (seedPy g sd w).py).1
      = (drawN g h.nodes s fuel (seedPy g sd w).py).1.take
          (collectUsed k [] (drawN g h.nodes s fuel (seedPy g sd w).py).1) ∧
    (k ≤ (dedup ((drawN g h.nodes s fuel (seedPy g sd w).py).1.map sortE)).length →
      (addRandomEdgesS g h k order size inplace sd fuel w).1
        = some (finish inplace h (addEdges h ((dedup ((drawN g h.nodes s fuel (seedPy g sd w).py).1.map sortE)).take k))) ∧
      ∀ d, addRandomEdgesS g h k order size inplace sd (fuel + d) w = addRandomEdgesS g h k order size inplace sd fuel w) := by
  have e := drawUntil_eq g h.nodes s k fuel [] (seedPy g sd w).py
  refine ⟨e, ?_⟩
  intro hk
  have hc : consumedExactly k [] (drawUntil g h.nodes s k fuel [] (seedPy g sd w).py).1 = true := by
    rw [e]; exact consumed_prefix k _ [] hk
  have h3 := (C14_add_random_edges_seeded g h k order size inplace 0 fuel w w).2.2.2.2.2 s hr hle sd hc
  refine ⟨?_, h3.2.2⟩
  rw [h3.1, e, addRandomEdges, hr]
  simp only [hle, if_true]
  rw [(C14_rejection_loop k _).2.2.1, (C14_rejection_loop k _).1]

/-- non-vacuity: the first 3 samples of the stream from seed 0 hold 2 distinct pairs -/
example : 2 ≤ (dedup ((drawN demoRNG [0, 1, 2, 3] 2 3 0).1.map sortE)).length := by decide
