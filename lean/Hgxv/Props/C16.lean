import Hgxv.Proofs.C16Chain
import Hgxv.Proofs.C16Match
import Hgxv.Proofs.C16Output
import Hgxv.Proofs.C16Sample
import Hgxv.Proofs.C16Relabel
import Hgxv.Proofs.C16Ext
import Hgxv.Proofs.C16Deg
import Hgxv.Proofs.C16Run
import Hgxv.Model.C16Guard
import Hgxv.Proofs.C16Trunc
/-! # C16 — Hy-MMSBM sampler: valid hypergraphs, conditioning respected, seed decides the sequence

Theorems about the model `Hgxv/Model/C16.lean`.  Every statement is for **all oracle values**: all picks of
`rng.choice`, all accept bits, all weight vectors, all burn-in / thinning block lengths (the blocks are
lists of arbitrary lengths), all sequences.  The only hypotheses are (i) that the model function returned
(`= some _`, i.e. numpy's `choice` contract held on every draw and no call raised — "returning runs"), and
(ii) what the Python data structures guarantee: hyperedges are sets (`Nodup`), the label encoder's classes
are sorted and distinct. -/
open C16

/-! ## one reshuffle, one step -/

/-- `_pairwise_reshuffle`: both sizes and the node multiset of the pair are kept, the results are sets -/
theorem C16_step_preserves (h1 h2 pick a b : Hye) (n1 : h1.Nodup) (n2 : h2.Nodup)
    (h : pairReshuffle h1 h2 pick = some (a, b)) :
    a.length = h1.length ∧ b.length = h2.length ∧ (a ++ b).Perm (h1 ++ h2) ∧ a.Nodup ∧ b.Nodup := by
  obtain ⟨hA, hB, hla, hc⟩ := pairReshuffle_spec n1 n2 h
  have hp : (a ++ b).Perm (h1 ++ h2) := List.perm_iff_count.mpr (fun n => by
    rw [List.count_append, List.count_append]; exact hc n)
  have := hp.length_eq
  simp only [List.length_append] at this
  exact ⟨hla, by omega, hp, hA, hB⟩

/-- `_mcmc_step` (accepted or not): position-wise sizes, every node's degree, set-ness -/
theorem C16_mcmc_step_preserves (cfg cfg' : Config) (d : StepDraw) (hn : AllNodup cfg)
    (h : mcmcStep cfg d = some cfg') :
    cfg'.map List.length = cfg.map List.length ∧ (∀ n, degOf n cfg' = degOf n cfg) ∧ AllNodup cfg' :=
  mcmcStep_spec hn h

/-! ## the chain -/

/-- `_mcmc_routine`: one yield per thinning block, and **every** yielded configuration has, for every node,
the degree and, for every size, the count of `initial configuration + fixed hyperedges` (sizes even
position by position) -/
theorem C16_chain_preserves (cfg fixed : Config) (burn : List StepDraw) (thins : List (List StepDraw))
    (ys : List Config) (hn : AllNodup cfg) (h : mcmcRoutine cfg fixed burn thins = some ys) :
    ys.length = thins.length ∧ ∀ y ∈ ys,
      (∀ n, degOf n y = degOf n (cfg ++ fixed)) ∧ (∀ s, sizeCount s y = sizeCount s (cfg ++ fixed)) ∧
      y.map List.length = (cfg ++ fixed).map List.length ∧ (AllNodup fixed → AllNodup y) := by
  unfold mcmcRoutine at h
  cases hb : mcmcSteps cfg burn with
  | none => simp [hb] at h
  | some c0 =>
    simp only [hb, Option.bind_some] at h
    cases hy : yieldsFrom c0 thins with
    | none => simp [hy] at h
    | some zs =>
      simp only [hy, Option.map_some, Option.some.injEq] at h
      subst h
      obtain ⟨a1, a2, a3⟩ := mcmcSteps_spec hn hb
      obtain ⟨hl, hall⟩ := yieldsFrom_spec a3 hy
      refine ⟨by simp [hl], ?_⟩
      intro y hy'
      obtain ⟨z, hz, rfl⟩ := List.mem_map.mp hy'
      obtain ⟨b1, b2, b3⟩ := hall z hz
      have hlen : (z ++ fixed).map List.length = (cfg ++ fixed).map List.length := by
        simp only [List.map_append, b1, a1]
      refine ⟨?_, ?_, hlen, ?_⟩
      · intro n; rw [degOf_append, degOf_append, b2 n, a2 n]
      · intro s; unfold sizeCount; rw [hlen]
      · intro hf e he
        rcases List.mem_append.mp he with he | he
        · exact b3 e he
        · exact hf e he

/-! ## the initial configuration built from a degree and a size sequence -/

/-- `_deg_seq_to_dict`: distinct keys, and node `n` sits in the set stored under `d` exactly when `deg(n) = d` —
the dictionary is the bucket index (`bucket`) of the residual-degree map the model of `_extract_hye` works on -/
theorem C16_degToDict (degSeq : List Nat) :
    (AL.keys (degToDict degSeq)).Nodup ∧
    ∀ d n, n ∈ (AL.get? (degToDict degSeq) d).getD [] ↔ n ∈ bucket degSeq d := by
  refine ⟨?_, ?_⟩
  · rw [degToDict_eq]; exact foldl_dictStep_keys _ [] (by simp [AL.keys])
  · intro d n
    rw [degToDict_eq, foldl_dictStep_get, mem_bucket]
    simp only [AL.get?_nil, Option.getD_none, List.nil_append, List.mem_map, List.mem_filter, beq_iff_eq]
    constructor
    · rintro ⟨p, ⟨hp, hpd⟩, hpn⟩
      have := List.mem_zipIdx_iff_getElem?.mp hp
      rw [hpn, hpd] at this
      exact this
    · intro h
      exact ⟨(d, n), ⟨List.mem_zipIdx_iff_getElem?.mpr h, rfl⟩, rfl⟩


/-- `_match_sequences` (flags `true,true` or `false,false`): the hyperedges are sets of nodes `< N` of size ≥ 2;
the sizes are exactly the requested ones (in order; hence every size `≥ 2` has exactly its count) whether or
not the sequences match; and when `matching_sequences` stays `True` (sizes ≥ 2) no node is used more often
than its degree, and with equal totals every node is used exactly `deg(n)` times. -/
theorem C16_initial_matching (degSeq : List Nat) (dimSeq : List (Nat × Nat)) (fd fm : Bool)
    (picks : List (List Nat)) (st : MState) (h : matchSequences degSeq dimSeq fd fm picks = some st) :
    (∀ e ∈ st.cfg, e.Nodup ∧ 2 ≤ e.length ∧ ∀ x ∈ e, x < degSeq.length) ∧
    st.cfg.map List.length = sizesOfSeq dimSeq ∧
    (∀ s, 2 ≤ s → sizeCount s st.cfg = dimCount dimSeq s) ∧
    (st.flag = true → (∀ p ∈ dimSeq, 2 ≤ p.1) →
      (∀ n (hn : n < degSeq.length), degOf n st.cfg ≤ degSeq[n]) ∧
      (degSeq.sum = (dimSeq.map (fun p => p.1 * p.2)).sum →
        ∀ n (hn : n < degSeq.length), degOf n st.cfg = degSeq[n])) := by
  unfold matchSequences at h
  split at h
  · exact absurd h (by simp)
  · rename_i hflags
    have htop : (fm || !fd) = true := by
      cases fd <;> cases fm <;> simp_all
    have hb0 : MBasic degSeq.length ⟨AL.keys (degToDict degSeq), degSeq, [], true, picks⟩ := ⟨rfl, by simp⟩
    have hu0 : MUse degSeq ⟨AL.keys (degToDict degSeq), degSeq, [], true, picks⟩ := by
      intro _; simp [degOf]
    obtain ⟨b1, b2, b3⟩ := matchLoop_spec (degSeq := degSeq) hb0 h
    have hsizes : st.cfg.map List.length = sizesOfSeq dimSeq := by simpa using b2 htop
    refine ⟨b1.edges, hsizes, ?_, ?_⟩
    · intro s hs
      unfold sizeCount
      rw [hsizes]
      exact count_sizesOfSeq dimSeq s hs
    · intro hflag hall
      obtain ⟨u1, u2⟩ := b3 hall hu0 hflag
      have hrd : ∀ n (hn : n < degSeq.length), rd degSeq n = degSeq[n] := by
        intro n hn; simp [rd, List.getElem?_eq_getElem hn]
      constructor
      · intro n hn
        have := u1 n
        rw [hrd n hn] at this
        omega
      · intro htot n hn
        have hsum : (st.cfg.map List.length).sum = (dimSeq.map (fun p => p.1 * p.2)).sum := by
          rw [hsizes]; exact sum_sizesOfSeq hall
        have hz : st.resid.sum = 0 := by omega
        have := u1 n
        rw [hrd n hn, all_zero_of_sum_zero hz n] at this
        omega

/-! ## the output stage -/

/-- every yielded hypergraph (a list of hyperedge ↦ weight, i.e. always weighted): no repeated hyperedge —
the keys are pairwise different *and* strictly increasing lists, the canonical representatives of their node
sets —, positive integer weights, every hyperedge has the size of a hyperedge of the configuration, and its
nodes are nodes of the configuration (no initial hypergraph) / labels of the initial hypergraph -/
theorem C16_output_valid (cfg : Config) (ws : List Nat) (labels : Option (List Nat))
    (out : List (Hye × Nat)) (hn : AllNodup cfg)
    (hl : ∀ ls, labels = some ls → ls.Pairwise (· < ·))
    (h : outputStage cfg ws labels = some out) :
    (out.map (·.1)).Nodup ∧ (∀ p ∈ out, 0 < p.2) ∧ (∀ p ∈ out, p.1.Pairwise (· < ·)) ∧
    (∀ p ∈ out, ∃ e ∈ cfg, p.1.length = e.length) ∧
    (∀ p ∈ out, ∀ x ∈ p.1, match labels with
      | none => ∃ e ∈ cfg, x ∈ e
      | some ls => x ∈ ls) := by
  unfold outputStage at h
  split at h
  · rename_i hlen
    have hlen' : ws.length = (cfg.map canon).length := by simpa using hlen
    have hsub := dropZeros_keys_sublist (cfg.map canon) ws hlen'
    have hpos := dropZeros_pos (cfg.map canon) ws
    -- every kept key is `canon e` for some `e ∈ cfg`
    have hkey : ∀ p ∈ dropZeros (cfg.map canon) ws, ∃ e ∈ cfg, p.1 = canon e := by
      intro p hp
      have := hsub.subset (List.mem_map_of_mem (f := (·.1)) hp)
      obtain ⟨e, he, hpe⟩ := List.mem_map.mp this
      exact ⟨e, he, hpe.symm⟩
    cases labels with
    | none =>
      simp only [relabelAll, Option.map_some, Option.some.injEq] at h
      subst h
      obtain ⟨m1, m2, m3, _, _⟩ := mergeDup_spec _ hpos
      have hk : ∀ p ∈ mergeDup (dropZeros (cfg.map canon) ws), ∃ e ∈ cfg, p.1 = canon e := by
        intro p hp
        have := (m2 p.1).mp (List.mem_map_of_mem (f := (·.1)) hp)
        obtain ⟨q, hq, hqp⟩ := List.mem_map.mp this
        obtain ⟨e, he, hqe⟩ := hkey q hq
        exact ⟨e, he, by rw [← hqp, hqe]⟩
      refine ⟨m1, m3, ?_, ?_, ?_⟩
      · intro p hp
        obtain ⟨e, he, hpe⟩ := hk p hp
        rw [hpe]; exact canon_strict (hn e he)
      · intro p hp
        obtain ⟨e, he, hpe⟩ := hk p hp
        exact ⟨e, he, by rw [hpe, canon_length]⟩
      · intro p hp x hx
        obtain ⟨e, he, hpe⟩ := hk p hp
        exact ⟨e, he, mem_canon.mp (hpe ▸ hx)⟩
    | some ls =>
      have hls := hl ls rfl
      cases hr : relabelAll (some ls) (dropZeros (cfg.map canon) ws) with
      | none => simp [hr] at h
      | some Y =>
        simp only [hr, Option.map_some, Option.some.injEq] at h
        subst h
        obtain ⟨y1, y2⟩ := relabelAll_spec hr
        have hposY : ∀ p ∈ Y, 0 < p.2 := by
          intro p hp
          rw [y1] at hp
          obtain ⟨q, hq, hqp⟩ := List.mem_map.mp hp
          rw [← hqp]; exact hpos q hq
        obtain ⟨m1, m2, m3, _, _⟩ := mergeDup_spec Y hposY
        have hk : ∀ p ∈ mergeDup Y, ∃ e ∈ cfg, p.1 = (canon e).map (lab ls) ∧ ∀ i ∈ canon e, i < ls.length := by
          intro p hp
          have := (m2 p.1).mp (List.mem_map_of_mem (f := (·.1)) hp)
          obtain ⟨q, hq, hqp⟩ := List.mem_map.mp this
          rw [y1] at hq
          obtain ⟨q0, hq0, hq0q⟩ := List.mem_map.mp hq
          obtain ⟨e, he, hqe⟩ := hkey q0 hq0
          refine ⟨e, he, ?_, ?_⟩
          · rw [← hqp, ← hq0q, hqe]
          · exact hqe ▸ y2 q0 hq0
        refine ⟨m1, m3, ?_, ?_, ?_⟩
        · intro p hp
          obtain ⟨e, he, hpe, hr⟩ := hk p hp
          rw [hpe]; exact lab_strict hls hr (canon_strict (hn e he))
        · intro p hp
          obtain ⟨e, he, hpe, _⟩ := hk p hp
          exact ⟨e, he, by rw [hpe, List.length_map, canon_length]⟩
        · intro p hp x hx
          obtain ⟨e, he, hpe, hr⟩ := hk p hp
          rw [hpe] at hx
          obtain ⟨i, hi, hix⟩ := List.mem_map.mp hx
          exact hix ▸ lab_mem (hr i hi)
  · exact absurd h (by simp)

/-- no initial hypergraph (nodes are indices): in the yielded hypergraph no node has a higher degree and no size
a higher count than in the chain configuration; equal when no weight was zero (nothing dropped) and no two
hyperedges of the configuration coincide (nothing merged) -/
theorem C16_output_bounds (cfg : Config) (ws : List Nat) (out : List (Hye × Nat))
    (h : outputStage cfg ws none = some out) :
    (∀ n, degOf n (out.map (·.1)) ≤ degOf n cfg) ∧ (∀ s, sizeCount s (out.map (·.1)) ≤ sizeCount s cfg) ∧
    ((∀ w ∈ ws, 0 < w) → (cfg.map canon).Nodup →
      (∀ n, degOf n (out.map (·.1)) = degOf n cfg) ∧ (∀ s, sizeCount s (out.map (·.1)) = sizeCount s cfg)) := by
  unfold outputStage at h
  split at h
  · rename_i hlen
    have hlen' : ws.length = (cfg.map canon).length := by simpa using hlen
    simp only [relabelAll, Option.map_some, Option.some.injEq] at h
    subst h
    have hsub := dropZeros_keys_sublist (cfg.map canon) ws hlen'
    obtain ⟨_, _, _, m4, m5⟩ := mergeDup_spec _ (dropZeros_pos (cfg.map canon) ws)
    have hdeg : ∀ n, sumBy (fun e => e.count n) (cfg.map canon) = degOf n cfg := by
      intro n; simp [sumBy, degOf, Function.comp_def, canon_count]
    have hsz : ∀ s, sumBy (fun e => if e.length = s then 1 else 0) (cfg.map canon) = sizeCount s cfg := by
      intro s; rw [sizeCount_eq_sumBy]; simp [sumBy, Function.comp_def, canon_length]
    refine ⟨?_, ?_, ?_⟩
    · intro n
      rw [degOf_eq_sumBy, ← hdeg n]
      exact Nat.le_trans (m4 _) (sumBy_sublist hsub)
    · intro s
      rw [sizeCount_eq_sumBy, ← hsz s]
      exact Nat.le_trans (m4 _) (sumBy_sublist hsub)
    · intro hpos hnd
      have hall := dropZeros_all (cfg.map canon) ws hlen' hpos
      have hkeys := m5 (by rw [hall]; exact hnd)
      rw [hkeys, hall]
      exact ⟨fun n => by rw [degOf_eq_sumBy, hdeg n], fun s => by rw [sizeCount_eq_sumBy, hsz s]⟩
  · exact absurd h (by simp)

/-- with an initial hypergraph (`labels` = the encoder's classes, distinct): the degree of label `labels[i]` in
the yielded hypergraph is at most the degree of index `i` in the chain configuration, no size count grows;
equal when nothing was dropped or merged -/
theorem C16_output_bounds_labels (cfg : Config) (ws : List Nat) (ls : List Nat) (out : List (Hye × Nat))
    (hls : ls.Nodup) (h : outputStage cfg ws (some ls) = some out) :
    (∀ i (hi : i < ls.length), degOf ls[i] (out.map (·.1)) ≤ degOf i cfg) ∧
    (∀ s, sizeCount s (out.map (·.1)) ≤ sizeCount s cfg) ∧
    ((∀ w ∈ ws, 0 < w) → (cfg.map canon).Nodup →
      (∀ i (hi : i < ls.length), degOf ls[i] (out.map (·.1)) = degOf i cfg) ∧
      (∀ s, sizeCount s (out.map (·.1)) = sizeCount s cfg)) := by
  unfold outputStage at h
  split at h
  · rename_i hlen
    have hlen' : ws.length = (cfg.map canon).length := by simpa using hlen
    cases hr : relabelAll (some ls) (dropZeros (cfg.map canon) ws) with
    | none => simp [hr] at h
    | some Y =>
      simp only [hr, Option.map_some, Option.some.injEq] at h
      subst h
      obtain ⟨y1, y2⟩ := relabelAll_spec hr
      have hsub := dropZeros_keys_sublist (cfg.map canon) ws hlen'
      have hposY : ∀ p ∈ Y, 0 < p.2 := by
        intro p hp
        rw [y1] at hp
        obtain ⟨q, hq, hqp⟩ := List.mem_map.mp hp
        rw [← hqp]; exact dropZeros_pos _ _ q hq
      obtain ⟨_, _, _, m4, m5⟩ := mergeDup_spec Y hposY
      have hYk : Y.map (·.1) = ((dropZeros (cfg.map canon) ws).map (·.1)).map (List.map (lab ls)) := by
        rw [y1]; simp [Function.comp_def]
      have hrange : ∀ e ∈ (dropZeros (cfg.map canon) ws).map (·.1), ∀ i ∈ e, i < ls.length := by
        intro e he
        obtain ⟨q, hq, hqe⟩ := List.mem_map.mp he
        exact hqe ▸ y2 q hq
      have hlabi : ∀ i (hi : i < ls.length), ls[i] = lab ls i := by
        intro i hi; simp [lab, List.getElem?_eq_getElem hi]
      -- pull the two per-hyperedge quantities back through the relabelling
      have hdegY : ∀ i (hi : i < ls.length), sumBy (fun e => e.count ls[i]) (Y.map (·.1)) =
          sumBy (fun e => e.count i) ((dropZeros (cfg.map canon) ws).map (·.1)) := by
        intro i hi
        rw [hYk, hlabi i hi]
        unfold sumBy
        rw [List.map_map]
        congr 1
        apply List.map_congr_left
        intro e he
        exact count_map_lab hls (hrange e he) hi
      have hszY : ∀ s, sumBy (fun e => if e.length = s then 1 else 0) (Y.map (·.1)) =
          sumBy (fun e => if e.length = s then 1 else 0) ((dropZeros (cfg.map canon) ws).map (·.1)) := by
        intro s
        rw [hYk]
        unfold sumBy
        rw [List.map_map]
        congr 1
        apply List.map_congr_left
        intro e _
        simp
      have hdeg : ∀ n, sumBy (fun e => e.count n) (cfg.map canon) = degOf n cfg := by
        intro n; simp [sumBy, degOf, Function.comp_def, canon_count]
      have hsz : ∀ s, sumBy (fun e => if e.length = s then 1 else 0) (cfg.map canon) = sizeCount s cfg := by
        intro s; rw [sizeCount_eq_sumBy]; simp [sumBy, Function.comp_def, canon_length]
      refine ⟨?_, ?_, ?_⟩
      · intro i hi
        rw [degOf_eq_sumBy, ← hdeg i]
        exact Nat.le_trans (m4 _) ((hdegY i hi) ▸ sumBy_sublist hsub)
      · intro s
        rw [sizeCount_eq_sumBy, ← hsz s]
        exact Nat.le_trans (m4 _) ((hszY s) ▸ sumBy_sublist hsub)
      · intro hpos hnd
        have hall := dropZeros_all (cfg.map canon) ws hlen' hpos
        have hndY : (Y.map (·.1)).Nodup := by
          rw [hYk, hall]
          rw [List.Nodup, List.pairwise_map]
          refine (List.Pairwise.imp_of_mem ?_ hnd)
          intro a b ha hb hab hmap
          have ra := hrange a (by rw [hall]; exact ha)
          have rb := hrange b (by rw [hall]; exact hb)
          exact hab (map_lab_inj hls ra rb hmap)
        have hkeys := m5 hndY
        rw [hkeys]
        refine ⟨fun i hi => ?_, fun s => ?_⟩
        · rw [degOf_eq_sumBy, hdegY i hi, hall, hdeg i]
        · rw [sizeCount_eq_sumBy, hszY s, hall, hsz s]
  · exact absurd h (by simp)

/-- duplicates are merged by *summing* and only zero weights are dropped: the total weight of the yielded hypergraph
is the sum of the sampled weights -/
theorem C16_output_weight_total (cfg : Config) (ws : List Nat) (labels : Option (List Nat))
    (out : List (Hye × Nat)) (h : outputStage cfg ws labels = some out) :
    (out.map (·.2)).sum = ws.sum := by
  unfold outputStage at h
  split at h
  · rename_i hlen
    have hlen' : ws.length = (cfg.map canon).length := by simpa using hlen
    have hd := dropZeros_valSum (cfg.map canon) ws hlen'
    cases labels with
    | none =>
      simp only [relabelAll, Option.map_some, Option.some.injEq] at h
      subst h
      have := mergeDup_valSum (dropZeros (cfg.map canon) ws)
      unfold valSum at this hd
      omega
    | some ls =>
      cases hr : relabelAll (some ls) (dropZeros (cfg.map canon) ws) with
      | none => simp [hr] at h
      | some Y =>
        simp only [hr, Option.map_some, Option.some.injEq] at h
        subst h
        obtain ⟨y1, _⟩ := relabelAll_spec hr
        have hY : valSum Y = valSum (dropZeros (cfg.map canon) ws) := by
          rw [y1]; simp [valSum, Function.comp_def]
        have := mergeDup_valSum Y
        unfold valSum at this hd hY
        omega
  · exact absurd h (by simp)

/-- "returning runs" are exactly the runs in which numpy's `choice` contract holds: with two distinct valid
indices and a valid pick the step is defined -/
theorem C16_step_defined (cfg : Config) (d : StepDraw) (hi : d.i < cfg.length) (hj : d.j < cfg.length)
    (hij : d.i ≠ d.j)
    (hp : validPick (disjUnion cfg[d.i] cfg[d.j]) (cfg[d.i].length - (inter cfg[d.i] cfg[d.j]).length) d.pick
      = true) :
    (mcmcStep cfg d).isSome = true := by
  unfold mcmcStep
  simp only [hi, hj, hij, ne_eq, not_false_eq_true, and_self, dite_true]
  unfold pairReshuffle
  simp only [hp, if_true]
  rfl

/-! ## whole runs: every element of the generated sequence -/

/-- `sample(deg_seq, dim_seq)` (flags `true,true`, `fixed = []`) and `sample()` (flags `false,false`, sequences and
dyadic hyperedges `fixed` drawn by the inner model): for **every** `k`, the `k`-th yielded hypergraph is
well-formed, its nodes are `< N`, its hyperedges have size ≥ 2 and at most any bound `D ≥ 2` on the sizes of the
size sequence; with `fixed = []`: no size `≥ 2` exceeds its conditioned count — matching or not —, no node exceeds
its conditioned degree when the sampler reports matching sequences, and whenever no two hyperedges of the chain
state coincide, the counts are exact and (equal totals) so are the degrees - for every list of quantiles scipy may
deliver (the weights are `truncWeights q`, at least 1 after the repair of D44; no hypothesis on the weights). -/
theorem C16_sample_seqs (degSeq : List Nat) (dimSeq : List (Nat × Nat)) (fd fm : Bool) (fixed : Config)
    (t : OwnTape) (flag : Bool) (outs : List (List (Hye × Nat)))
    (hfix : ∀ e ∈ fixed, e.Nodup ∧ e.length = 2 ∧ ∀ x ∈ e, x < degSeq.length)
    (h : sampleFromSeqs degSeq dimSeq fd fm fixed t = some (flag, outs)) :
    outs.length = t.thins.length ∧ ∀ k (hk : k < outs.length),
      ValidOut outs[k] ∧
      (∀ p ∈ outs[k], (∀ x ∈ p.1, x < degSeq.length) ∧ 2 ≤ p.1.length ∧
        ∀ D, 2 ≤ D → (∀ q ∈ dimSeq, q.1 ≤ D) → p.1.length ≤ D) ∧
      (fixed = [] →
        (∀ s, 2 ≤ s → sizeCount s (outs[k].map (·.1)) ≤ dimCount dimSeq s) ∧
        (flag = true → (∀ q ∈ dimSeq, 2 ≤ q.1) →
          ∀ n (hn : n < degSeq.length), degOf n (outs[k].map (·.1)) ≤ degSeq[n]) ∧
        ∃ y q, t.quantiles[k]? = some q ∧ outputStage y (truncWeights q) none = some outs[k] ∧
          ((y.map canon).Nodup →
            (∀ s, 2 ≤ s → sizeCount s (outs[k].map (·.1)) = dimCount dimSeq s) ∧
            (flag = true → (∀ q ∈ dimSeq, 2 ≤ q.1) →
              degSeq.sum = (dimSeq.map (fun p => p.1 * p.2)).sum →
              ∀ n (hn : n < degSeq.length), degOf n (outs[k].map (·.1)) = degSeq[n]))) := by
  unfold sampleFromSeqs at h
  cases hm : matchSequences degSeq dimSeq fd fm t.picks with
  | none => simp [hm] at h
  | some st =>
    simp only [hm, Option.bind_some] at h
    cases hs : sampleFromConfig st.cfg fixed none t with
    | none => simp [hs] at h
    | some os =>
      simp only [hs, Option.map_some, Option.some.injEq, Prod.mk.injEq] at h
      obtain ⟨hflag, rfl⟩ := h
      obtain ⟨m1, m2, m3, m4⟩ := C16_initial_matching degSeq dimSeq fd fm t.picks st hm
      have hn0 : AllNodup st.cfg := fun e he => (m1 e he).1
      obtain ⟨ys, hy, hlen, hout⟩ := sampleFromConfig_spec hs
      obtain ⟨c1, c2⟩ := C16_chain_preserves st.cfg fixed t.burn t.thins ys hn0 hy
      refine ⟨by omega, ?_⟩
      intro k hk
      have hk' : k < ys.length := by omega
      obtain ⟨w, hw, ho⟩ := hout k hk' hk
      obtain ⟨d1, d2, d3, d4⟩ := c2 ys[k] (List.getElem_mem hk')
      have hny : AllNodup ys[k] := d4 (fun e he => (hfix e he).1)
      obtain ⟨v1, v2, v3, v4, v5⟩ := C16_output_valid ys[k] (truncWeights w) none os[k] hny (by simp) ho
      refine ⟨⟨v1, fun p hp => ⟨v2 p hp, v3 p hp⟩⟩, ?_, ?_⟩
      · intro p hp
        refine ⟨?_, ?_⟩
        · intro x hx
          obtain ⟨e, he, hxe⟩ := v5 p hp x hx
          have hpos : 0 < degOf x ys[k] := (degOf_pos_iff x _).mpr ⟨e, he, hxe⟩
          rw [d1 x] at hpos
          obtain ⟨e0, he0, hx0⟩ := (degOf_pos_iff x _).mp hpos
          rcases List.mem_append.mp he0 with he0 | he0
          · exact (m1 e0 he0).2.2 x hx0
          · exact (hfix e0 he0).2.2 x hx0
        · obtain ⟨e, he, hpe⟩ := v4 p hp
          have hmem : e.length ∈ (st.cfg ++ fixed).map List.length := by
            rw [← d3]; exact List.mem_map_of_mem he
          rw [List.map_append, List.mem_append, m2] at hmem
          rcases hmem with hmem | hmem
          · obtain ⟨h2, q, hq, hqs⟩ := mem_sizesOfSeq hmem
            exact ⟨by omega, fun D _ hD => by have := hD q hq; omega⟩
          · obtain ⟨e0, he0, hl0⟩ := List.mem_map.mp hmem
            have := (hfix e0 he0).2.1
            exact ⟨by omega, fun D hD _ => by omega⟩
      · intro hfx
        subst hfx
        simp only [List.append_nil] at d1 d2
        obtain ⟨b1, b2, b3⟩ := C16_output_bounds ys[k] (truncWeights w) os[k] ho
        refine ⟨?_, ?_, ys[k], w, hw, ho, ?_⟩
        · intro s hs2
          have := b2 s
          rw [d2 s, m3 s hs2] at this
          exact this
        · intro hf hall n hn
          have hf' : st.flag = true := by rw [hflag]; exact hf
          have := b1 n
          rw [d1 n] at this
          exact Nat.le_trans this ((m4 hf' hall).1 n hn)
        · intro hnd
          obtain ⟨e1, e2⟩ := b3 (truncWeights_pos w) hnd
          refine ⟨fun s hs2 => by rw [e2 s, d2 s, m3 s hs2], ?_⟩
          intro hf hall htot n hn
          have hf' : st.flag = true := by rw [hflag]; exact hf
          rw [e1 n, d1 n]
          exact (m4 hf' hall).2 htot n hn

/-- `sample(initial_hyg=h)`: `labels` = the sorted distinct nodes of `h`, `edges` = its hyperedges (sets).  For
**every** `k` the `k`-th yielded hypergraph is well-formed, its nodes are nodes of `h`, every hyperedge has the
size of a hyperedge of `h`; no node exceeds its degree in `h`, no size its count in `h`; and whenever no two
hyperedges of the chain state coincide, all degrees and size counts are exactly those of `h` - for every list of
quantiles scipy may deliver (weights `truncWeights q`; no hypothesis on the weights). -/
theorem C16_sample_hyg (labels : List Nat) (edges : Config) (t : OwnTape)
    (outs : List (List (Hye × Nat))) (hl : labels.Pairwise (· < ·)) (he : AllNodup edges)
    (h : sampleFromHyg labels edges t = some outs) :
    outs.length = t.thins.length ∧ ∀ k (hk : k < outs.length),
      ValidOut outs[k] ∧
      (∀ p ∈ outs[k], (∀ x ∈ p.1, x ∈ labels) ∧ ∃ e ∈ edges, p.1.length = e.length) ∧
      (∀ x ∈ labels, degOf x (outs[k].map (·.1)) ≤ degOf x edges) ∧
      (∀ s, sizeCount s (outs[k].map (·.1)) ≤ sizeCount s edges) ∧
      ∃ y q, t.quantiles[k]? = some q ∧ outputStage y (truncWeights q) (some labels) = some outs[k] ∧
        ((y.map canon).Nodup →
          (∀ x ∈ labels, degOf x (outs[k].map (·.1)) = degOf x edges) ∧
          (∀ s, sizeCount s (outs[k].map (·.1)) = sizeCount s edges)) := by
  unfold sampleFromHyg at h
  cases ht : edges.mapM (transform labels) with
  | none => simp [ht] at h
  | some cfg =>
    simp only [ht, Option.bind_some] at h
    obtain ⟨t1, t2⟩ := transformAll_spec ht
    have hnd : labels.Nodup := hl.imp (fun hab => Nat.ne_of_lt hab)
    have hn0 : AllNodup cfg := by
      intro e hec
      have : e.map (lab labels) ∈ edges := by rw [t1]; exact List.mem_map_of_mem hec
      exact nodup_of_map_nodup (he _ this)
    obtain ⟨ys, hy, hlen, hout⟩ := sampleFromConfig_spec h
    obtain ⟨c1, c2⟩ := C16_chain_preserves cfg [] t.burn t.thins ys hn0 hy
    refine ⟨by omega, ?_⟩
    intro k hk
    have hk' : k < ys.length := by omega
    obtain ⟨w, hw, ho⟩ := hout k hk' hk
    obtain ⟨d1, d2, d3, d4⟩ := c2 ys[k] (List.getElem_mem hk')
    simp only [List.append_nil] at d1 d2 d3
    have hny : AllNodup ys[k] := d4 (by intro e he; simp at he)
    obtain ⟨v1, v2, v3, v4, v5⟩ :=
      C16_output_valid ys[k] (truncWeights w) (some labels) outs[k] hny (by intro ls hls; cases hls; exact hl) ho
    obtain ⟨b1, b2, b3⟩ := C16_output_bounds_labels ys[k] (truncWeights w) labels outs[k] hnd ho
    have hdeg : ∀ i (hi : i < labels.length), degOf labels[i] edges = degOf i cfg := by
      intro i hi
      have e1 : labels[i] = lab labels i := by simp [lab, List.getElem?_eq_getElem hi]
      rw [e1, t1]
      exact degOf_map_lab hnd t2 hi
    have hsz : ∀ s, sizeCount s edges = sizeCount s cfg := by
      intro s; rw [t1]; exact sizeCount_map_lab labels cfg s
    refine ⟨⟨v1, fun p hp => ⟨v2 p hp, v3 p hp⟩⟩, ?_, ?_, ?_, ys[k], w, hw, ho, ?_⟩
    · intro p hp
      refine ⟨fun x hx => v5 p hp x hx, ?_⟩
      obtain ⟨e, hey, hpe⟩ := v4 p hp
      have hmem : e.length ∈ cfg.map List.length := by rw [← d3]; exact List.mem_map_of_mem hey
      obtain ⟨e0, he0, hl0⟩ := List.mem_map.mp hmem
      refine ⟨e0.map (lab labels), by rw [t1]; exact List.mem_map_of_mem he0, ?_⟩
      rw [List.length_map]; omega
    · intro x hx
      obtain ⟨i, hi, hxi⟩ := List.getElem_of_mem hx
      subst hxi
      rw [hdeg i hi, ← d1 i]
      exact b1 i hi
    · intro s
      rw [hsz s, ← d2 s]
      exact b2 s
    · intro hndy
      obtain ⟨e1, e2⟩ := b3 (truncWeights_pos w) hndy
      refine ⟨?_, fun s => by rw [e2 s, hsz s, d2 s]⟩
      intro x hx
      obtain ⟨i, hi, hxi⟩ := List.getElem_of_mem hx
      subst hxi
      rw [hdeg i hi, e1 i hi, d1 i]

/-! ## node labels of any type

`C16_sample_hyg` is stated for labels that are naturals.  The sampler sees a label only through equality with other
labels (`transformG`: position in the encoder's classes, `relabelG`: indexing the classes, label tuples as dictionary
keys), so its run on labels of ANY type `α` - integers of any size, negative numbers, floats, strings, fractions - is
the image of a run on naturals under the naming `f` of the labels, for every injective `f` (an infinite label type
has one extending any finite class list).  In particular the internal ids are never an output: every node of every
sample is `f` of a label, also when the sorted labels look like the ids `0..N-1` without being them. -/

/-- the run on the labels `f 'labels` is the image under `f` of the run of the model over the naturals -/
theorem C16_hyg_any_labels {α : Type} [DecidableEq α] (f : Nat → α) (hf : ∀ a b, f a = f b → a = b)
    (labels : List Nat) (edges : Config) (t : OwnTape) :
    sampleFromHygG (labels.map f) (edges.map (List.map f)) t
      = (sampleFromHyg labels edges t).map (List.map (mapOut f)) := by
  rw [sampleFromHygG_map f hf, sampleFromHygG_nat]

/-- the clauses of the property for an initial hypergraph over labels of any type (hypotheses: the classes are
listed without repetition in the order `f` carries over from the naturals, hyperedges are sets, the run returned):
every sample has no repeated hyperedge, positive weights, only nodes that are labels of the initial hypergraph, only
sizes of the initial hypergraph; no label exceeds its degree and no size its count; both are met exactly whenever no
two hyperedges of the chain state coincide -/
theorem C16_sample_hyg_any_labels {α : Type} [DecidableEq α] (f : Nat → α) (hf : ∀ a b, f a = f b → a = b)
    (labels : List Nat) (edges : Config) (t : OwnTape) (outs : List (List (List α × Nat)))
    (hl : labels.Pairwise (· < ·)) (he : AllNodup edges)
    (h : sampleFromHygG (labels.map f) (edges.map (List.map f)) t = some outs) :
    outs.length = t.thins.length ∧ ∀ k (hk : k < outs.length),
      (outs[k].map (·.1)).Nodup ∧
      (∀ p ∈ outs[k], 0 < p.2 ∧ p.1.Nodup ∧ (∀ x ∈ p.1, x ∈ labels.map f) ∧ ∃ e ∈ edges, p.1.length = e.length) ∧
      (∀ x ∈ labels, degOfG (f x) (outs[k].map (·.1)) ≤ degOfG (f x) (edges.map (List.map f))) ∧
      (∀ s, sizeCountG s (outs[k].map (·.1)) ≤ sizeCountG s (edges.map (List.map f))) ∧
      ∃ y q, t.quantiles[k]? = some q ∧ outputStageG y (truncWeights q) (labels.map f) = some outs[k] ∧
        ((y.map canon).Nodup →
          (∀ x ∈ labels, degOfG (f x) (outs[k].map (·.1)) = degOfG (f x) (edges.map (List.map f))) ∧
          (∀ s, sizeCountG s (outs[k].map (·.1)) = sizeCountG s (edges.map (List.map f)))) := by
  rw [C16_hyg_any_labels f hf] at h
  cases hn : sampleFromHyg labels edges t with
  | none => simp [hn] at h
  | some outsN =>
    simp only [hn, Option.map_some, Option.some.injEq] at h
    subst h
    obtain ⟨c1, c2⟩ := C16_sample_hyg labels edges t outsN hl he hn
    refine ⟨by simpa using c1, ?_⟩
    intro k hk
    have hk' : k < outsN.length := by simpa using hk
    obtain ⟨⟨v1, v2⟩, n1, d1, s1, y, q, hq, ho, hex⟩ := c2 k hk'
    have hfl : ∀ a b : List Nat, a.map f = b.map f → a = b := fun a b e => (List.map_inj_right hf).mp e
    have hget : (outsN.map (mapOut f))[k] = mapOut f outsN[k] := by simp
    rw [hget, keys_mapOut]
    have hdeg : ∀ x, degOfG (f x) ((outsN[k].map (·.1)).map (List.map f)) = degOf x (outsN[k].map (·.1)) := by
      intro x; rw [degOfG_map f hf, degOfG_nat]
    have hdeg0 : ∀ x, degOfG (f x) (edges.map (List.map f)) = degOf x edges := by
      intro x; rw [degOfG_map f hf, degOfG_nat]
    have hsz : ∀ s, sizeCountG s ((outsN[k].map (·.1)).map (List.map f)) = sizeCount s (outsN[k].map (·.1)) := by
      intro s; rw [sizeCountG_map, sizeCountG_nat]
    have hsz0 : ∀ s, sizeCountG s (edges.map (List.map f)) = sizeCount s edges := by
      intro s; rw [sizeCountG_map, sizeCountG_nat]
    refine ⟨nodup_map_inj _ hfl v1, ?_, ?_, ?_, y, q, hq, ?_, ?_⟩
    · intro p hp
      obtain ⟨pN, hpN, rfl⟩ := List.mem_map.mp hp
      obtain ⟨w1, w2⟩ := v2 pN hpN
      obtain ⟨m1, m2⟩ := n1 pN hpN
      refine ⟨w1, nodup_map_inj f hf (w2.imp (fun hab => Nat.ne_of_lt hab)), ?_, ?_⟩
      · intro x hx
        obtain ⟨x0, hx0, rfl⟩ := List.mem_map.mp hx
        exact List.mem_map_of_mem (m1 x0 hx0)
      · obtain ⟨e, he1, he2⟩ := m2
        exact ⟨e, he1, by simpa using he2⟩
    · intro x hx; rw [hdeg, hdeg0]; exact d1 x hx
    · intro s; rw [hsz, hsz0]; exact s1 s
    · rw [outputStageG_map f hf, outputStageG_nat, ho]; rfl
    · intro hnd
      obtain ⟨e1, e2⟩ := hex hnd
      exact ⟨fun x hx => by rw [hdeg, hdeg0]; exact e1 x hx, fun s => by rw [hsz, hsz0]; exact e2 s⟩

/-- the generated sequence is a stream: the first `k` samples do not depend on how many samples are drawn afterwards
(same initial configuration, same draws for the first `k` blocks) -/
theorem C16_sequence_prefix (cfg fixed : Config) (labels : Option (List Nat)) (t : OwnTape)
    (outs : List (List (Hye × Nat))) (k : Nat) (h : sampleFromConfig cfg fixed labels t = some outs) :
    sampleFromConfig cfg fixed labels { t with thins := t.thins.take k } = some (outs.take k) := by
  unfold sampleFromConfig at h ⊢
  cases hm : mcmcRoutine cfg fixed t.burn t.thins with
  | none => simp [hm] at h
  | some ys =>
    simp only [hm, Option.bind_some] at h
    simp only [mcmcRoutine_take k hm, Option.bind_some]
    exact outputsOf_take k h

/-! ## truncated-Poisson weights (D44) -/

/-- the repaired `sample_truncated_poisson` (`np.maximum(quantile, 1)`): every weight is positive whatever
quantiles scipy delivers, so the filter `np.where(weights > 0)` of `sample` drops nothing: the yielded hypergraph
has one (weight-carrying) entry per hyperedge of the chain state before duplicates are merged, and its total weight
is the sum of the clamped quantiles. -/
theorem C16_trunc_weights (cfg : Config) (qs : List Nat) (h : qs.length = cfg.length) :
    (∀ w ∈ truncWeights qs, 1 ≤ w) ∧
    dropZeros (cfg.map canon) (truncWeights qs) = (cfg.map canon).zip (truncWeights qs) ∧
    (dropZeros (cfg.map canon) (truncWeights qs)).map (·.1) = cfg.map canon := by
  have hpos := truncWeights_pos qs
  have hlen : (truncWeights qs).length = (cfg.map canon).length := by simp [truncWeights, h]
  refine ⟨fun w hw => hpos w hw, ?_, dropZeros_all _ _ hlen hpos⟩
  unfold dropZeros
  rw [List.filter_eq_self]
  intro p hp
  have := hpos p.2 (List.of_mem_zip hp).2
  simpa using this

/-- D44, the unrepaired weights (quantiles used as they come): a quantile 0 makes the output stage drop a
hyperedge although no two hyperedges of the chain state coincide - node 1 and size 2 fall below their
conditioned values.  With the clamp (`truncWeights`) the same draws keep everything. -/
theorem C16_unclamped_weight_drops :
    ∃ (cfg : Config) (qs : List Nat) (out : List (Hye × Nat)),
      (cfg.map canon).Nodup ∧ outputStage cfg qs none = some out ∧
      degOf 1 (out.map (·.1)) < degOf 1 cfg ∧ sizeCount 2 (out.map (·.1)) < sizeCount 2 cfg ∧
      ∃ out', outputStage cfg (truncWeights qs) none = some out' ∧
        degOf 1 (out'.map (·.1)) = degOf 1 cfg ∧ sizeCount 2 (out'.map (·.1)) = sizeCount 2 cfg :=
  ⟨[[0, 4], [1, 5], [2, 3, 6]], [1, 0, 7], [([0, 4], 1), ([2, 3, 6], 7)], by decide, by decide, by decide, by decide,
    [([0, 4], 1), ([1, 5], 1), ([2, 3, 6], 7)], by decide, by decide, by decide⟩

/-! ## seed -/

/-- The repaired sampler draws only from generators built from its own seed: a run `sample()` of
`HyMMSBMSampler(..., seed)` is a function of the parameters and the seed alone — whatever the state of any
other randomness source (`ambient`) is.  (For `sample(deg_seq, dim_seq)` and `sample(initial_hyg=...)` the
model functions `samplerRunSeqs`, `samplerRunHyg` have no other argument at all.) -/
theorem C16_seeded (G : Gens) (seed : Nat) (ambient₁ ambient₂ : InnerTape) :
    samplerRunModel true G seed ambient₁ = samplerRunModel true G seed ambient₂ := rfl

/-- D29, the unrepaired sampler (inner model seeded from the operating system): equal parameters and seed do
not determine the samples -/
theorem C16_unseeded_differs :
    ∃ (G : Gens) (seed : Nat) (a₁ a₂ : InnerTape),
      samplerRunModel false G seed a₁ ≠ samplerRunModel false G seed a₂ := by
  refine ⟨⟨fun _ => ⟨[[0, 1, 2]], [], [[]], [[2, 1]]⟩, fun _ => ⟨[], [], []⟩⟩, 0,
    ⟨[1, 1, 1], [(3, 1)], [[0, 1]]⟩, ⟨[1, 1, 1], [(3, 1)], [[1, 2]]⟩, ?_⟩
  decide

/-! ## one sampler object, several `sample(...)` calls (sampler-state record `Sampler`) -/

/-- A call's result depends only on this call's arguments and on what the generators deliver to it - not on the state
earlier calls left on the sampler object: two samplers in arbitrary states `s`, `s'` answer the same call with the
same samples and the same report.  (After the repair of D48; the only attribute `sample` reads or writes is
`matching_sequences`, see `Sampler`.) -/
theorem C16_call_local (s s' : Sampler) (c : Call) : (callStep true s c).2 = (callStep true s' c).2 :=
  callStep_local s s' c

/-- Several calls on ONE sampler, in any order of conditioning kinds: the `k`-th call delivers exactly what the same
call (same arguments, same draws delivered) delivers on a sampler that has just been built. -/
theorem C16_session_local (s : Sampler) (cs : List Call) : runSession true s cs = cs.map freshCall :=
  runSession_eq_map s cs

/-- What a call on a used sampler delivers, by conditioning kind: the samples of `sampleFromHyg` / `sampleFromSeqs` on
this call's arguments - so `C16_sample_hyg` / `C16_sample_seqs` apply to every call of a session with the conditioning
of THAT call - and the report `matching_sequences` is the flag of this call's own `_match_sequences` run ("the
sampler reports as matching" is about the call at hand); `sample(initial_hyg=...)` makes no report. -/
theorem C16_call_result (s : Sampler) (c : Call) :
    (callStep true s c).2 =
      match c.args with
      | .hyg labels edges => (sampleFromHyg labels edges c.own).map (fun o => ⟨none, o⟩)
      | .seqs d m => (sampleFromSeqs d m true true [] c.own).map (fun p => ⟨some p.1, p.2⟩)
      | .model =>
        (sampleFromSeqs c.inner.degSeq c.inner.dimSeq false false c.inner.dyads c.own).map
          (fun p => ⟨some p.1, p.2⟩) :=
  callStep_snd s c

/-- The clause "only nodes of the model (of the initial hypergraph when one is given)" for every call of a session
on one sampler started in any state: the hyperedges of every sample of the `k`-th call consist of labels of the
initial hypergraph of the `k`-th call, resp. of node indices `< N` (`N` = length of that call's degree sequence),
whatever the earlier calls were conditioned on; every sample is well-formed. -/
theorem C16_session_nodes (s : Sampler) (cs : List Call) (k : Nat) (hk : k < cs.length) (r : CallOut)
    (h : (runSession true s cs)[k]? = some (some r)) :
    (∀ labels edges, cs[k].args = .hyg labels edges → labels.Pairwise (· < ·) → AllNodup edges →
      r.report = none ∧ sampleFromHyg labels edges cs[k].own = some r.outs ∧
        ∀ o ∈ r.outs, ValidOut o ∧ ∀ p ∈ o, ∀ x ∈ p.1, x ∈ labels) ∧
    (∀ d m, cs[k].args = .seqs d m →
      ∃ ok, r.report = some ok ∧ sampleFromSeqs d m true true [] cs[k].own = some (ok, r.outs) ∧
        ∀ o ∈ r.outs, ValidOut o ∧ ∀ p ∈ o, ∀ x ∈ p.1, x < d.length) ∧
    (cs[k].args = .model →
      (∀ e ∈ cs[k].inner.dyads, e.Nodup ∧ e.length = 2 ∧ ∀ x ∈ e, x < cs[k].inner.degSeq.length) →
      ∃ ok, r.report = some ok ∧
        sampleFromSeqs cs[k].inner.degSeq cs[k].inner.dimSeq false false cs[k].inner.dyads cs[k].own =
          some (ok, r.outs) ∧
        ∀ o ∈ r.outs, ValidOut o ∧ ∀ p ∈ o, ∀ x ∈ p.1, x < cs[k].inner.degSeq.length) := by
  rw [C16_session_local, List.getElem?_map, List.getElem?_eq_getElem hk, Option.map_some,
    Option.some.injEq] at h
  unfold freshCall at h
  rw [C16_call_result] at h
  refine ⟨?_, ?_, ?_⟩
  · intro labels edges ha hl he
    rw [ha] at h
    simp only at h
    cases hs : sampleFromHyg labels edges cs[k].own with
    | none => simp [hs] at h
    | some outs =>
      simp only [hs, Option.map_some, Option.some.injEq] at h
      subst h
      obtain ⟨_, hall⟩ := C16_sample_hyg labels edges cs[k].own outs hl he hs
      refine ⟨rfl, rfl, ?_⟩
      intro o ho
      obtain ⟨i, hi, rfl⟩ := List.getElem_of_mem ho
      obtain ⟨v, hn, _⟩ := hall i hi
      exact ⟨v, fun p hp x hx => (hn p hp).1 x hx⟩
  · intro d m ha
    rw [ha] at h
    simp only at h
    cases hs : sampleFromSeqs d m true true [] cs[k].own with
    | none => simp [hs] at h
    | some fo =>
      obtain ⟨ok, outs⟩ := fo
      simp only [hs, Option.map_some, Option.some.injEq] at h
      subst h
      obtain ⟨_, hall⟩ := C16_sample_seqs d m true true [] cs[k].own ok outs (by simp) hs
      refine ⟨ok, rfl, rfl, ?_⟩
      intro o ho
      obtain ⟨i, hi, rfl⟩ := List.getElem_of_mem ho
      obtain ⟨v, hn, _⟩ := hall i hi
      exact ⟨v, fun p hp x hx => (hn p hp).1 x hx⟩
  · intro ha hfix
    rw [ha] at h
    simp only at h
    cases hs : sampleFromSeqs cs[k].inner.degSeq cs[k].inner.dimSeq false false cs[k].inner.dyads cs[k].own with
    | none => simp [hs] at h
    | some fo =>
      obtain ⟨ok, outs⟩ := fo
      simp only [hs, Option.map_some, Option.some.injEq] at h
      subst h
      obtain ⟨_, hall⟩ := C16_sample_seqs _ _ false false _ cs[k].own ok outs hfix hs
      refine ⟨ok, rfl, rfl, ?_⟩
      intro o ho
      obtain ⟨i, hi, rfl⟩ := List.getElem_of_mem ho
      obtain ⟨v, hn, _⟩ := hall i hi
      exact ⟨v, fun p hp x hx => (hn p hp).1 x hx⟩

/-- D48, the unrepaired `_match_sequences` (`matching_sequences` is not reset): after a call whose sequences did not
match, a later call on the same sampler whose sequences DO match (the fresh sampler reports `True` and delivers the
same sample) reports `False`; with the reset the session reports `True`. -/
theorem C16_stale_report :
    ∃ (c₁ c₂ : Call) (o : List (List (Hye × Nat))),
      (runSession false ⟨none⟩ [c₁, c₂])[1]? = some (some ⟨some false, o⟩) ∧
      freshCall c₂ = some ⟨some true, o⟩ ∧
      (runSession true ⟨none⟩ [c₁, c₂])[1]? = some (some ⟨some true, o⟩) :=
  ⟨⟨.seqs [4, 1, 1] [(2, 3)], ⟨[[0], [2], [], [0], [1], [], [], [0], [], [1]], [], [[]], [[1, 2, 3]]⟩, ⟨[], [], []⟩⟩,
    ⟨.seqs [2, 2, 1, 1] [(3, 2)], ⟨[[0, 1], [3], [], [2, 0, 1]], [], [[]], [[1, 2]]⟩, ⟨[], [], []⟩⟩,
    [[([0, 1, 3], 1), ([0, 1, 2], 2)]], by decide, by decide, by decide⟩

/-! ## non-vacuity: the hypotheses `= some _` are met on concrete non-trivial inputs (kernel-evaluated) -/

-- C16_step_preserves: {1,2,3}, {3,4}, pick {4,1} from the disjoint union {1,2,4}
example : pairReshuffle [1, 2, 3] [3, 4] [4, 1] = some ([4, 1, 3], [2, 3]) := by decide
-- a pick that breaks numpy's contract (too short) is refused
example : pairReshuffle [1, 2, 3] [3, 4] [4] = none := by decide

-- C16_mcmc_step_preserves: an accepted and a rejected proposal
example : mcmcStep [[1, 2, 3], [3, 4], [5, 6]] ⟨0, 1, [4, 1], true⟩ = some [[4, 1, 3], [2, 3], [5, 6]] := by decide
example : mcmcStep [[1, 2, 3], [3, 4], [5, 6]] ⟨0, 1, [4, 1], false⟩ = some [[1, 2, 3], [3, 4], [5, 6]] := by decide

-- C16_chain_preserves: one burn-in step, two yields (thinning blocks of length 1 and 0), one fixed hyperedge
example : mcmcRoutine [[1, 2, 3], [3, 4], [5, 6]] [[7, 8]] [⟨0, 1, [4, 1], true⟩]
    [[⟨2, 0, [4, 5], true⟩], []] =
    some [[[6, 1, 3], [2, 3], [4, 5], [7, 8]], [[6, 1, 3], [2, 3], [4, 5], [7, 8]]] := by decide

-- C16_degToDict
example : degToDict [2, 0, 2, 1] = [(2, [0, 2]), (0, [1]), (1, [3])] := by decide

-- C16_initial_matching: a matching pair (flag stays true, every node is used deg(n) times, residual degrees 0) ...
-- (the third draw is the size-0 draw from the bucket of degree 2, which has become empty but is still a key)
example : (matchSequences [2, 2, 1, 1] [(3, 2)] true true [[0, 1], [3], [], [2, 0, 1]]).map
    (fun st => (st.cfg, st.flag, st.resid, st.keys)) =
    some ([[0, 1, 3], [2, 0, 1]], true, [0, 0, 0, 0], [2, 1, 0]) := by decide
-- ... and a pair with equal totals that the greedy construction cannot realise: top-up from degree-0 nodes,
-- flag false, node 1 used twice although deg(1) = 1, size counts still respected
example : (matchSequences [4, 1, 1] [(2, 3)] true true [[0], [2], [], [0], [1], [], [], [0], [], [1]]).map
    (fun st => (st.cfg, st.flag, st.resid, st.keys)) =
    some ([[0, 2], [0, 1], [0, 1]], false, [1, 0, 0], [4, 1, 3, 0, 2]) := by decide
-- no node of degree 0 and no key 0 (`KeyError`): no output
example : (extractHye [1] [1, 1, 1] 4 true true [[0, 1, 2]]).isNone = true := by decide

-- C16_output_valid / C16_output_bounds(_labels): a zero weight is dropped, a duplicate is merged (weights summed),
-- indices are mapped back to labels
example : outputStage [[2, 1], [1, 2], [3, 4], [5, 6]] [1, 2, 0, 4] (some [10, 20, 30, 40, 50, 60, 70]) =
    some [([20, 30], 3), ([60, 70], 4)] := by decide
example : outputStage [[2, 1], [1, 2], [3, 4], [5, 6]] [1, 2, 0, 4] none = some [([1, 2], 3), ([5, 6], 4)] := by decide
-- nothing dropped, nothing merged: the equality case
example : outputStage [[2, 1], [0, 2], [3, 4]] [1, 2, 5] none = some [([1, 2], 1), ([0, 2], 2), ([3, 4], 5)] := by decide

-- C16_sample_seqs: non-matching sequences, burn-in 1, thinning blocks of length 1 and 0, a duplicate and a zero
-- quantile (second sample: its hyperedge keeps weight 1 and is merged with its duplicate)
example : sampleFromSeqs [4, 1, 1] [(2, 3)] true true []
    ⟨[[0], [2], [], [0], [1], [], [], [0], [], [1]], [⟨0, 1, [1], true⟩], [[⟨1, 2, [1], true⟩], []],
      [[1, 2, 3], [0, 1, 1]]⟩ =
    some (false, [[([0, 1], 3), ([0, 2], 3)], [([0, 1], 2), ([0, 2], 1)]]) := by decide
-- matching sequences, an accepted and a rejected proposal; degrees 2,2,1,1 and two hyperedges of size 3 throughout
example : sampleFromSeqs [2, 2, 1, 1] [(3, 2)] true true []
    ⟨[[0, 1], [3], [], [2, 0, 1]], [⟨0, 1, [2], true⟩], [[⟨1, 0, [2], true⟩], [⟨0, 1, [2], false⟩]],
      [[1, 2], [3, 1]]⟩ =
    some (true, [[([0, 1, 3], 1), ([0, 1, 2], 2)], [([0, 1, 3], 3), ([0, 1, 2], 1)]]) := by decide
-- sampling from the model: sequences and one dyadic hyperedge delivered by the inner model
example : sampleFromSeqs [1, 1, 1, 0] [(3, 1)] false false [[0, 3]] ⟨[[2, 0, 1]], [], [[], []], [[2, 1], [0, 4]]⟩ =
    some (true, [[([0, 1, 2], 2), ([0, 3], 1)], [([0, 1, 2], 1), ([0, 3], 4)]]) := by decide

-- C16_sample_hyg: labels 10..50, three hyperedges, two accepted proposals, a zero quantile in the second sample
-- (the hyperedge stays, with weight 1)
example : sampleFromHyg [10, 20, 30, 40, 50] [[10, 20, 30], [30, 40], [20, 50]]
    ⟨[], [⟨0, 1, [1, 3], true⟩], [[⟨2, 1, [0, 4], true⟩], []], [[1, 2, 2], [1, 0, 3]]⟩ =
    some [[([20, 30, 40], 1), ([20, 30], 2), ([10, 50], 2)], [([20, 30, 40], 1), ([20, 30], 1), ([10, 50], 3)]] := by decide
-- C16_trunc_weights / C16_unclamped_weight_drops: structurally-zero Poisson parameters (quantile 0 for the two
-- cross-community dyads), no MCMC step: the sample is the initial hypergraph, every weight positive
example : sampleFromHyg [0, 1, 2, 3, 4, 5, 6, 7] [[0, 4], [1, 5], [2, 3, 6]] ⟨[], [], [[]], [[0, 0, 7]]⟩ =
    some [[([0, 4], 1), ([1, 5], 1), ([2, 3, 6], 7)]] := by decide

-- C16_seeded: a run of the repaired sampler that returns
example : samplerRunModel true
    ⟨fun _ => ⟨[[0, 1, 2]], [], [[]], [[2, 1]]⟩, fun _ => ⟨[1, 1, 1], [(3, 1)], [[0, 1]]⟩⟩ 7 ⟨[], [], []⟩ =
    some (true, [[([0, 1, 2], 2), ([0, 1], 1)]]) := by decide

-- C16_call_local / C16_session_local / C16_session_nodes: ONE sampler, three calls - around an initial hypergraph with
-- labels 10..50, then on sequences that do not match (report False), then on sequences that match (report True; its
-- nodes are 0..3, not labels of the hypergraph of the first call), started in a state with a stale report
example : runSession true ⟨some false⟩
    [⟨.hyg [10, 20, 30, 40, 50] [[10, 20, 30], [30, 40], [20, 50]],
        ⟨[], [⟨0, 1, [1, 3], true⟩], [[⟨2, 1, [0, 4], true⟩]], [[1, 2, 2]]⟩, ⟨[], [], []⟩⟩,
     ⟨.seqs [4, 1, 1] [(2, 3)], ⟨[[0], [2], [], [0], [1], [], [], [0], [], [1]], [], [[]], [[1, 2, 3]]⟩, ⟨[], [], []⟩⟩,
     ⟨.seqs [2, 2, 1, 1] [(3, 2)], ⟨[[0, 1], [3], [], [2, 0, 1]], [], [[]], [[1, 2]]⟩, ⟨[], [], []⟩⟩,
     ⟨.model, ⟨[[2, 0, 1]], [], [[]], [[2, 1]]⟩, ⟨[1, 1, 1, 0], [(3, 1)], [[0, 3]]⟩⟩] =
    [some ⟨none, [[([20, 30, 40], 1), ([20, 30], 2), ([10, 50], 2)]]⟩,
     some ⟨some false, [[([0, 2], 1), ([0, 1], 5)]]⟩,
     some ⟨some true, [[([0, 1, 3], 1), ([0, 1, 2], 2)]]⟩,
     some ⟨some true, [[([0, 1, 2], 2), ([0, 3], 1)]]⟩] := by decide

-- C16_hyg_any_labels / C16_sample_hyg_any_labels: the generic code on labels that are no naturals.  Integer labels
-- -1, 0, 1, 3: sorted they end at N-1 = 3 without being the ids 0..3; no step before the first sample (it is the initial
-- hypergraph, the zero quantile gives weight 1), one accepted proposal before the second - no internal id (2) shows up
example : sampleFromHygG ([-1, 0, 1, 3] : List Int) [[3, -1], [0, 1, 3], [1, -1]]
    ⟨[], [], [[], [⟨0, 1, [2], true⟩]], [[1, 0, 3], [2, 1, 1]]⟩ =
    some [[([-1, 3], 1), ([0, 1, 3], 1), ([-1, 1], 3)], [([1, 3], 2), ([-1, 0, 3], 1), ([-1, 1], 1)]] := by decide
-- string labels; the same draws as in the example of C16_sample_hyg (labels 10..50): the image under 10 ↦ "a", ...
example : sampleFromHygG ["a", "b", "c", "d", "e"] [["a", "b", "c"], ["c", "d"], ["b", "e"]]
    ⟨[], [⟨0, 1, [1, 3], true⟩], [[⟨2, 1, [0, 4], true⟩], []], [[1, 2, 2], [1, 0, 3]]⟩ =
    some [[(["b", "c", "d"], 1), (["b", "c"], 2), (["a", "e"], 2)], [(["b", "c", "d"], 1), (["b", "c"], 1), (["a", "e"], 3)]] := by
  decide

/-! ## extension round: all four flag pairs of `_match_sequences`, its error path, `sample(deg_seq=...)`,
`sample(dim_seq=...)`, raising calls inside sessions (`Model/C16Ext.lean`) -/

/-- `matchFull` (the run of `_match_sequences` with its exceptions kept) refines `matchSequences` on the three flag pairs
the latter models: it returns exactly when and what `matchSequences` returns, and it raises exactly when `matchSequences`
answers `none` - so every theorem about `matchSequences` / `sampleFromSeqs` is a theorem about the returning runs of
`matchFull`, and what a raising run leaves on the sampler is additional information. -/
theorem C16_match_full_refines (degSeq : List Nat) (dimSeq : List (Nat × Nat)) (fd fm : Bool) (picks : List (List Nat))
    (hp : (fd && !fm) = false) :
    (∀ st, matchFull degSeq dimSeq fd fm picks = .done st ↔ matchSequences degSeq dimSeq fd fm picks = some st) ∧
    ((∃ ok, matchFull degSeq dimSeq fd fm picks = .raised ok) ↔ matchSequences degSeq dimSeq fd fm picks = none) := by
  have h := matchFull_toOption degSeq dimSeq fd fm picks hp
  cases hr : matchFull degSeq dimSeq fd fm picks with
  | done st0 =>
    rw [hr] at h
    simp only [MRes.toOption] at h
    rw [← h]
    exact ⟨fun st => by simp, by simp⟩
  | raised ok =>
    rw [hr] at h
    simp only [MRes.toOption] at h
    rw [← h]
    exact ⟨fun st => by simp, by simp⟩

/-- `force_dim_seq` (alone - `sample(dim_seq=m)`, the degree sequence `degSeq` is whatever the inner model drew - or together
with `force_deg_seq`, or neither flag): whenever `_match_sequences` returns, for every draw list, the hyperedges are sets
of `>= 2` nodes `< N` and the size sequence is matched EXACTLY - the list of sizes is the requested one in order, every
size `>= 2` has exactly its count - whether or not the sequences match. -/
theorem C16_force_dim (degSeq : List Nat) (dimSeq : List (Nat × Nat)) (fd fm : Bool) (picks : List (List Nat))
    (st : MState) (hp : (fd && !fm) = false) (h : matchFull degSeq dimSeq fd fm picks = .done st) :
    (∀ e ∈ st.cfg, e.Nodup ∧ 2 ≤ e.length ∧ ∀ x ∈ e, x < degSeq.length) ∧
    st.cfg.map List.length = sizesOfSeq dimSeq ∧
    (∀ s, 2 ≤ s → sizeCount s st.cfg = dimCount dimSeq s) := by
  have hm := ((C16_match_full_refines degSeq dimSeq fd fm picks hp).1 st).mp h
  obtain ⟨m1, m2, m3, _⟩ := C16_initial_matching degSeq dimSeq fd fm picks st hm
  exact ⟨m1, m2, m3⟩

/-- `force_deg_seq` alone (`sample(deg_seq=d)`, the size sequence is whatever the inner model drew): whenever
`_match_sequences` returns, for every draw list and WHATEVER the report says, the hyperedges are sets of `>= 2` nodes `< N`;
no node is used more often than its degree - hyperedges built plus residual degree never exceed `deg(n)`: the construction
shrinks hyperedges instead of adding nodes of degree 0 -; at most ONE node keeps residual degree (the exit condition of the
second phase; with two or more the code as it stands raises `AttributeError`, `phase2`); and a report `True` (sizes `>= 2`)
means every node is used exactly `deg(n)` times. -/
theorem C16_force_deg (degSeq : List Nat) (dimSeq : List (Nat × Nat)) (picks : List (List Nat)) (st : MState)
    (h : matchFull degSeq dimSeq true false picks = .done st) :
    (∀ e ∈ st.cfg, e.Nodup ∧ 2 ≤ e.length ∧ ∀ x ∈ e, x < degSeq.length) ∧
    (∀ n (hn : n < degSeq.length), degOf n st.cfg + rd st.resid n ≤ degSeq[n]) ∧
    (∀ a b, 0 < rd st.resid a → 0 < rd st.resid b → a = b) ∧
    (st.flag = true → (∀ p ∈ dimSeq, 2 ≤ p.1) → ∀ n (hn : n < degSeq.length), degOf n st.cfg = degSeq[n]) := by
  obtain ⟨st1, hl, h2⟩ := matchFull_forceDeg degSeq dimSeq picks st h
  obtain ⟨e1, e2, e3, e4, e5⟩ := phase2_done h2
  have hb0 : MBasic degSeq.length (matchInit degSeq picks) := ⟨rfl, by simp [matchInit]⟩
  have hu0 : MUse degSeq (matchInit degSeq picks) := by
    intro _; simp [matchInit, degOf]
  have hc0 : MCap degSeq (matchInit degSeq picks) := by
    intro n; simp [matchInit, degOf]
  obtain ⟨b1, _, b3⟩ := matchLoop_spec (degSeq := degSeq) hb0 hl
  have hcap := matchLoop_cap hc0 hl
  have hcov : MCover st1.keys st1.resid := matchLoop_cover (cover_init degSeq) hl
  have hrd : ∀ n (hn : n < degSeq.length), rd degSeq n = degSeq[n] := by
    intro n hn; simp [rd, List.getElem?_eq_getElem hn]
  refine ⟨?_, ?_, ?_, ?_⟩
  · rw [e1]; exact b1.edges
  · intro n hn
    have := hcap n
    rw [hrd n hn] at this
    rw [e1, e2]; exact this
  · intro a b ha hb
    rw [e2] at ha hb
    rw [e2, e3] at e4
    exact available_le_one hcov e4 ha hb
  · intro hf hall n hn
    obtain ⟨f1, f2⟩ := e5 hf
    obtain ⟨u1, _⟩ := b3 hall hu0 f1
    have hz : rd st1.resid n = 0 := by
      unfold rd
      cases hr : st1.resid[n]? with
      | none => rfl
      | some d => simpa using f2 d (hcov n d hr)
    have := u1 n
    rw [hrd n hn, hz] at this
    rw [e1]; omega

/-- The dead second phase of `force_deg_seq` alone, for every input: when the size sequence is exhausted (the loops returned
`st1`) and two different nodes still have residual degree, `_match_sequences` - hence `sample(deg_seq=d)` - raises
(`self.model`: `AttributeError`) and leaves `matching_sequences = False`.  Together with `C16_force_deg` (a returning run
leaves at most one such node): the call returns only if at most one node keeps residual degree.  A defect of the unchanged
tree outside the property's quantifier (noted, modelled as the code stands). -/
theorem C16_force_deg_attribute_error (degSeq : List Nat) (dimSeq : List (Nat × Nat)) (picks : List (List Nat))
    (st1 : MState) (h : matchLoop true false dimSeq (matchInit degSeq picks) = some st1)
    (a b : Nat) (hne : a ≠ b) (ha : 0 < rd st1.resid a) (hb : 0 < rd st1.resid b) :
    matchFull degSeq dimSeq true false picks = .raised false ∧
    flagOfRes (matchFull degSeq dimSeq true false picks) = some false := by
  have hcov : MCover st1.keys st1.resid := matchLoop_cover (cover_init degSeq) h
  obtain ⟨g1, g2⟩ := available_ge_two hcov hne ha hb
  rw [matchFull_of_loop h]
  unfold phase2
  simp [g1, g2, flagOfRes]

/-- `sample(deg_seq=d)` (the size sequence `dimSeq` and all draws arbitrary): for **every** `k`, the `k`-th yielded hypergraph is
well-formed, its nodes are `< N`, its hyperedges have size `>= 2`, and NO NODE EXCEEDS ITS CONDITIONED DEGREE - whatever
`matching_sequences` reports, for every quantile list; when the report is `True` (sizes `>= 2`) and no two hyperedges of the
chain state coincide, every node has exactly its conditioned degree. -/
theorem C16_sample_degonly (degSeq : List Nat) (dimSeq : List (Nat × Nat)) (t : OwnTape) (flag : Bool)
    (outs : List (List (Hye × Nat))) (h : sampleFromDeg degSeq dimSeq t = some (flag, outs)) :
    outs.length = t.thins.length ∧ ∀ k (hk : k < outs.length),
      ValidOut outs[k] ∧
      (∀ p ∈ outs[k], (∀ x ∈ p.1, x < degSeq.length) ∧ 2 ≤ p.1.length) ∧
      (∀ n (hn : n < degSeq.length), degOf n (outs[k].map (·.1)) ≤ degSeq[n]) ∧
      ∃ y q, t.quantiles[k]? = some q ∧ outputStage y (truncWeights q) none = some outs[k] ∧
        ((y.map canon).Nodup → flag = true → (∀ q ∈ dimSeq, 2 ≤ q.1) →
          ∀ n (hn : n < degSeq.length), degOf n (outs[k].map (·.1)) = degSeq[n]) := by
  unfold sampleFromDeg at h
  cases hm : matchFull degSeq dimSeq true false t.picks with
  | raised ok => simp [hm] at h
  | done st =>
    simp only [hm] at h
    cases hs : sampleFromConfig st.cfg [] none t with
    | none => simp [hs] at h
    | some os =>
      simp only [hs, Option.map_some, Option.some.injEq, Prod.mk.injEq] at h
      obtain ⟨hflag, rfl⟩ := h
      obtain ⟨m1, m2, _, m4⟩ := C16_force_deg degSeq dimSeq t.picks st hm
      have hn0 : AllNodup st.cfg := fun e he => (m1 e he).1
      obtain ⟨ys, hy, hlen, hout⟩ := sampleFromConfig_spec hs
      obtain ⟨c1, c2⟩ := C16_chain_preserves st.cfg [] t.burn t.thins ys hn0 hy
      refine ⟨by omega, ?_⟩
      intro k hk
      have hk' : k < ys.length := by omega
      obtain ⟨w, hw, ho⟩ := hout k hk' hk
      obtain ⟨d1, d2, d3, d4⟩ := c2 ys[k] (List.getElem_mem hk')
      simp only [List.append_nil] at d1 d2 d3
      have hny : AllNodup ys[k] := d4 (fun e he => by cases he)
      obtain ⟨v1, v2, v3, v4, v5⟩ := C16_output_valid ys[k] (truncWeights w) none os[k] hny (by simp) ho
      obtain ⟨b1, _, b3⟩ := C16_output_bounds ys[k] (truncWeights w) os[k] ho
      refine ⟨⟨v1, fun p hp => ⟨v2 p hp, v3 p hp⟩⟩, ?_, ?_, ys[k], w, hw, ho, ?_⟩
      · intro p hp
        refine ⟨?_, ?_⟩
        · intro x hx
          obtain ⟨e, he, hxe⟩ := v5 p hp x hx
          have hpos : 0 < degOf x ys[k] := (degOf_pos_iff x _).mpr ⟨e, he, hxe⟩
          rw [d1 x] at hpos
          obtain ⟨e0, he0, hx0⟩ := (degOf_pos_iff x _).mp hpos
          exact (m1 e0 he0).2.2 x hx0
        · obtain ⟨e, he, hpe⟩ := v4 p hp
          have hmem : e.length ∈ st.cfg.map List.length := by
            rw [← d3]; exact List.mem_map_of_mem he
          obtain ⟨e0, he0, hl0⟩ := List.mem_map.mp hmem
          have := (m1 e0 he0).2.1
          omega
      · intro n hn
        have h1 := b1 n
        rw [d1 n] at h1
        have h2 := m2 n hn
        omega
      · intro hnd hf hall n hn
        obtain ⟨e1, _⟩ := b3 (truncWeights_pos w) hnd
        have hf' : st.flag = true := by rw [hflag]; exact hf
        rw [e1 n, d1 n]
        exact m4 hf' hall n hn

/-- `sample(dim_seq=m)` (`force_dim_seq` alone; the degree sequence `degSeq` is whatever the inner model drew, all draws
arbitrary): for **every** `k`, the `k`-th yielded hypergraph is well-formed, its nodes are `< N`, its hyperedges have size
`>= 2`, no size `>= 2` exceeds its conditioned count - whatever `matching_sequences` reports - and whenever no two hyperedges
of the chain state coincide every size has EXACTLY its conditioned count. -/
theorem C16_sample_dimonly (degSeq : List Nat) (dimSeq : List (Nat × Nat)) (t : OwnTape) (flag : Bool)
    (outs : List (List (Hye × Nat))) (h : sampleFromSeqs degSeq dimSeq false true [] t = some (flag, outs)) :
    outs.length = t.thins.length ∧ ∀ k (hk : k < outs.length),
      ValidOut outs[k] ∧
      (∀ p ∈ outs[k], (∀ x ∈ p.1, x < degSeq.length) ∧ 2 ≤ p.1.length) ∧
      (∀ s, 2 ≤ s → sizeCount s (outs[k].map (·.1)) ≤ dimCount dimSeq s) ∧
      ∃ y q, t.quantiles[k]? = some q ∧ outputStage y (truncWeights q) none = some outs[k] ∧
        ((y.map canon).Nodup → ∀ s, 2 ≤ s → sizeCount s (outs[k].map (·.1)) = dimCount dimSeq s) := by
  obtain ⟨h1, h2⟩ := C16_sample_seqs degSeq dimSeq false true [] t flag outs (by simp) h
  refine ⟨h1, fun k hk => ?_⟩
  obtain ⟨a1, a2, a3⟩ := h2 k hk
  obtain ⟨b1, _, y, q, hq, ho, b3⟩ := a3 rfl
  exact ⟨a1, fun p hp => ⟨(a2 p hp).1, (a2 p hp).2.1⟩, b1, y, q, hq, ho, fun hnd => (b3 hnd).1⟩

/-- The error path of `_match_sequences` on the sampler object (after the repair of D48 the attribute is `None` at its
start): a call that raises inside `_match_sequences` delivers nothing and leaves `matching_sequences = None` or `False` -
NEVER a stale `True`, for every flag pair and draw list; and `False` exactly when the run had left the sequences
(`ok = false`) before the exception. -/
theorem C16_raise_state (degSeq : List Nat) (dimSeq : List (Nat × Nat)) (fd fm : Bool) (fixed : Config) (t : OwnTape)
    (ok : Bool) (h : matchFull degSeq dimSeq fd fm t.picks = .raised ok) :
    (seqCallX degSeq dimSeq fd fm fixed t).2 = none ∧
    (seqCallX degSeq dimSeq fd fm fixed t).1.flag ≠ some true ∧
    ((seqCallX degSeq dimSeq fd fm fixed t).1.flag = some false ↔ ok = false) := by
  unfold seqCallX
  simp only [h, flagOfRes]
  cases ok <;> simp

/-- What a call of each of the FIVE kinds delivers on a used sampler in any state `s`: `sample(initial_hyg=...)`,
`sample(deg_seq, dim_seq)`, `sample()` as before; `sample(dim_seq=m)` is `sampleFromSeqs` with `force_dim_seq` alone on
the degree sequence the inner model drew (so `C16_sample_seqs` applies: size counts respected, exact without duplicates);
`sample(deg_seq=d)` is `sampleFromDeg` (`C16_sample_degonly`). -/
theorem C16_callX_result (s : Sampler) (c : CallX) :
    (callStepX s c).2 =
      match c.args with
      | .hyg labels edges => (sampleFromHyg labels edges c.own).map (fun o => ⟨none, o⟩)
      | .seqs d m => (sampleFromSeqs d m true true [] c.own).map (fun p => ⟨some p.1, p.2⟩)
      | .model =>
        (sampleFromSeqs c.inner.degSeq c.inner.dimSeq false false c.inner.dyads c.own).map (fun p => ⟨some p.1, p.2⟩)
      | .degOnly d => (sampleFromDeg d c.inner.dimSeq c.own).map (fun p => ⟨some p.1, p.2⟩)
      | .dimOnly m => (sampleFromSeqs c.inner.degSeq m false true [] c.own).map (fun p => ⟨some p.1, p.2⟩) := by
  unfold callStepX
  cases c.args with
  | hyg labels edges => rfl
  | seqs d m =>
    simp only
    rw [(seqCallX_of_old [] c.own s rfl).1, seqCall_snd]
  | model =>
    simp only
    rw [(seqCallX_of_old c.inner.dyads c.own s rfl).1, seqCall_snd]
  | dimOnly m =>
    simp only
    rw [(seqCallX_of_old [] c.own s rfl).1, seqCall_snd]
  | degOnly d =>
    simp only
    unfold seqCallX sampleFromDeg
    cases matchFull d c.inner.dimSeq true false c.own.picks with
    | raised ok => simp
    | done st => simp only [Option.map_map]; rfl

/-- Several calls of all five kinds on ONE sampler, RAISING CALLS INCLUDED (an exception inside `_match_sequences`, in the
chain, in the output stage): the `k`-th call delivers exactly what the same call delivers on a sampler that has just been
built; and the attribute after a call through `_sampling_from_sequences` is a function of that call alone (two samplers in
arbitrary states end in the same state), while `sample(initial_hyg=...)` leaves it alone - nothing leaks between calls. -/
theorem C16_sessionX_local (s s' : Sampler) (cs : List CallX) (c : CallX) :
    (runSessionX s cs).map (·.1) = cs.map freshCallX ∧
    (callStepX s c).2 = (callStepX s' c).2 ∧
    ((∀ l e, c.args ≠ .hyg l e) → (callStepX s c).1 = (callStepX s' c).1) ∧
    (∀ l e, c.args = .hyg l e → (callStepX s c).1 = s) := by
  refine ⟨runSessionX_outs s cs, callStepX_snd_local s s' c, ?_, ?_⟩
  · intro hne
    unfold callStepX
    cases hc : c.args with
    | hyg l e => exact absurd hc (hne l e)
    | seqs d m => rfl
    | model => rfl
    | degOnly d => rfl
    | dimOnly m => rfl
  · intro l e hc
    unfold callStepX
    rw [hc]

/-- The five-kind session model extends the three-kind one of the second strengthening round: on `sample(initial_hyg)`,
`sample(deg_seq, dim_seq)`, `sample()` it delivers the same, and leaves the same attribute whenever the call returns
(the old model did not say what a raising call leaves). -/
theorem C16_callX_extends (s : Sampler) (c : Call) :
    (callStepX s c.toX).2 = (callStep true s c).2 ∧
    ((callStep true s c).2 ≠ none → (callStepX s c.toX).1 = (callStep true s c).1) := by
  unfold callStepX callStep Call.toX
  cases hc : c.args with
  | hyg l e => simp [CallArgs.toX]
  | seqs d m => simpa [CallArgs.toX] using seqCallX_of_old [] c.own s rfl
  | model => simpa [CallArgs.toX] using seqCallX_of_old c.inner.dyads c.own s rfl

/-! ### non-vacuity of the extension round (kernel-evaluated) -/

-- C16_force_deg: force_deg_seq alone, degrees 2,1,1, two hyperedges of size 2 requested: both built, nobody above its degree,
-- nothing left; the report is False all the same (the stale keys 2 and 1 are "degrees != 0" for the second phase)
example : (match matchFull [2, 1, 1] [(2, 2)] true false [[0], [1], [], [0, 2]] with
    | .done st => some (st.cfg, st.flag, st.keys, st.resid) | .raised _ => none) =
    some ([[0, 1], [0, 2]], false, [2, 1, 0], [0, 0, 0]) := by decide
-- a hyperedge shrinks (size 3 requested, two nodes with degree left), one node keeps residual degree: returned
example : (match matchFull [3, 1, 0] [(2, 1), (3, 1)] true false [[0], [1], [], [0], []] with
    | .done st => some (st.cfg, st.flag, st.resid) | .raised _ => none) = some ([[0, 1]], false, [2, 0, 0]) := by decide
-- two nodes keep residual degree: the second phase enters its loop, `self.model` -> AttributeError, the attribute is False
example : (match matchFull [2, 2, 2] [(2, 1)] true false [[0, 1]] with
    | .done _ => none | .raised ok => some ok) = some false := by decide
-- C16_force_deg_attribute_error: the loops return with the nodes 1 and 2 holding residual degree
example : (matchLoop true false [(2, 1)] (matchInit [2, 2, 2] [[0, 1]])).map (fun st => st.resid) = some [1, 1, 2] := by decide
-- all degrees 0: `set.union()` of nothing (TypeError) after the report was set to False
example : (match matchFull [0, 0] [(2, 1)] true false [] with | .done _ => none | .raised ok => some ok) = some false := by decide
-- a size < 1 before anything ran out: ValueError, the attribute stays None; after an exhausted extraction: False
example : (match matchFull [1, 1] [(0, 1)] true true [] with | .done _ => none | .raised ok => some ok) = some true := by decide
example : (match matchFull [1, 0, 0] [(3, 1), (0, 1)] true true [[0], [1, 2]] with
    | .done _ => none | .raised ok => some ok) = some false := by decide
-- C16_force_dim with force_dim_seq alone: degrees 1,0,0 drawn by the inner model, one hyperedge of size 3 requested and built
example : (match matchFull [1, 0, 0] [(3, 1)] false true [[0], [1, 2]] with
    | .done st => some (st.cfg, st.flag) | .raised _ => none) = some ([[0, 1, 2]], false) := by decide
-- C16_sample_dimonly: the inner model drew the degrees 1,0,0; sizes 3 and 2 requested, both delivered
example : sampleFromSeqs [1, 0, 0] [(3, 1), (2, 1)] false true [] ⟨[[0], [1, 2], [], [0, 1]], [], [[]], [[2, 2]]⟩ =
    some (false, [[([0, 1, 2], 2), ([0, 1], 2)]]) := by decide
-- C16_sample_degonly
example : sampleFromDeg [2, 1, 1] [(2, 2)] ⟨[[0], [1], [], [0, 2]], [], [[], [⟨0, 1, [2], true⟩]], [[3, 0], [1, 1]]⟩ =
    some (false, [[([0, 1], 3), ([0, 2], 1)], [([0, 2], 1), ([0, 1], 1)]]) := by decide
-- C16_sessionX_local / C16_raise_state / C16_callX_result: ONE sampler started with a stale report, six calls: a sequence call
-- that raises after leaving the sequences (attribute False), sample(deg_seq) that returns, a call that raises at once
-- (attribute None), sample(dim_seq), sample(deg_seq) that runs into `self.model` (attribute False), matching sequences (True)
example : runSessionX ⟨some true⟩
    [⟨.seqs [1, 0, 0] [(3, 1), (0, 1)], ⟨[[0], [1, 2]], [], [[]], [[1]]⟩, ⟨[], [], []⟩⟩,
     ⟨.degOnly [2, 1, 1], ⟨[[0], [1], [], [0, 2]], [], [[]], [[3, 0]]⟩, ⟨[], [(2, 2)], []⟩⟩,
     ⟨.seqs [1, 1] [(0, 1)], ⟨[], [], [[]], [[1]]⟩, ⟨[], [], []⟩⟩,
     ⟨.dimOnly [(3, 1), (2, 1)], ⟨[[0], [1, 2], [], [0, 1]], [], [[]], [[2, 2]]⟩, ⟨[1, 0, 0], [], []⟩⟩,
     ⟨.degOnly [2, 2, 2], ⟨[[0, 1]], [], [[]], [[1]]⟩, ⟨[], [(2, 1)], []⟩⟩,
     ⟨.seqs [2, 2, 1, 1] [(3, 2)], ⟨[[0, 1], [3], [], [2, 0, 1]], [], [[]], [[1, 2]]⟩, ⟨[], [], []⟩⟩] =
    [(none, some false),
     (some ⟨some false, [[([0, 1], 3), ([0, 2], 1)]]⟩, some false),
     (none, none),
     (some ⟨some false, [[([0, 1, 2], 2), ([0, 1], 2)]]⟩, some false),
     (none, some false),
     (some ⟨some true, [[([0, 1, 3], 1), ([0, 1, 2], 2)]]⟩, some true)] := by decide

/-! ## round f: degenerate hyperedges (fewer than two nodes) in the chain state

`Model/C16Deg.lean`: a hyperedge with fewer than two nodes has a nan Poisson mean, hence a non-positive weight
(`degenWeights`), whatever the quantile tape holds.  No hypothesis on the sizes of the configuration below. -/

/-- the sample made from a chain state with degenerate hyperedges is the sample made from its hyperedges of
size >= 2 alone (every theorem about `outputStage` applies to the right-hand side) -/
theorem C16_degenerate_refines (cfg : Config) (ws : List Nat) (labels : Option (List Nat)) (h : ws.length = cfg.length) :
    outputStage cfg (degenWeights cfg ws) labels = outputStage (properCfg cfg ws) (properWs cfg ws) labels := by
  unfold outputStage
  rw [if_pos (degenWeights_length cfg ws h), if_pos (proper_lengths cfg ws), dropZeros_degen]

/-- "only hyperedges of size at least two" for EVERY configuration (initial hypergraphs / size sequences with one-node
or empty hyperedges included): every hyperedge of the yielded hypergraph has at least two nodes and is (the relabelled
canonical form of) a hyperedge of size >= 2 of the chain state; no repeated hyperedge, positive weights -/
theorem C16_degenerate_sizes (cfg : Config) (ws : List Nat) (labels : Option (List Nat)) (out : List (Hye × Nat))
    (hn : AllNodup cfg) (hl : ∀ ls, labels = some ls → ls.Pairwise (· < ·)) (hlen : ws.length = cfg.length)
    (h : outputStage cfg (degenWeights cfg ws) labels = some out) :
    (∀ p ∈ out, 2 ≤ p.1.length) ∧ (out.map (·.1)).Nodup ∧ (∀ p ∈ out, 0 < p.2) ∧
    (∀ p ∈ out, ∃ e ∈ cfg, 2 ≤ e.length ∧ p.1.length = e.length) := by
  rw [C16_degenerate_refines cfg ws labels hlen] at h
  have hn' : AllNodup (properCfg cfg ws) := fun e he => hn e (properCfg_mem he).1
  obtain ⟨v1, v2, _, v4, _⟩ := C16_output_valid _ _ labels out hn' hl h
  have key : ∀ p ∈ out, ∃ e ∈ cfg, 2 ≤ e.length ∧ p.1.length = e.length := by
    intro p hp
    obtain ⟨e, he, hpe⟩ := v4 p hp
    exact ⟨e, (properCfg_mem he).1, (properCfg_mem he).2, hpe⟩
  refine ⟨?_, v1, v2, key⟩
  intro p hp
  obtain ⟨e, _, h2, hpe⟩ := key p hp
  omega

/-- conditioning with degenerate hyperedges in the chain state (nodes are indices): no node / size of the yielded
hypergraph exceeds its count among the hyperedges of size >= 2 of the chain state, and whenever no two of THESE
coincide the yielded hypergraph has exactly their degrees and size counts - whatever quantiles scipy delivers -/
theorem C16_degenerate_exact (cfg : Config) (qs : List Nat) (out : List (Hye × Nat)) (hlen : qs.length = cfg.length)
    (h : outputStageD cfg qs none = some out) :
    (∀ n, degOf n (out.map (·.1)) ≤ degOf n (properCfg cfg (truncWeights qs))) ∧
    (∀ s, sizeCount s (out.map (·.1)) ≤ sizeCount s (properCfg cfg (truncWeights qs))) ∧
    (((properCfg cfg (truncWeights qs)).map canon).Nodup →
      (∀ n, degOf n (out.map (·.1)) = degOf n (properCfg cfg (truncWeights qs))) ∧
      (∀ s, sizeCount s (out.map (·.1)) = sizeCount s (properCfg cfg (truncWeights qs)))) := by
  have hl : (truncWeights qs).length = cfg.length := by simp [truncWeights, hlen]
  unfold outputStageD at h
  rw [C16_degenerate_refines cfg _ none hl] at h
  obtain ⟨b1, b2, b3⟩ := C16_output_bounds _ _ out h
  refine ⟨b1, b2, fun hnd => b3 ?_ hnd⟩
  intro w hw
  simp only [properWs, properPairs, List.mem_map, List.mem_filter] at hw
  obtain ⟨p, ⟨hp, _⟩, rfl⟩ := hw
  exact truncWeights_pos qs p.2 (List.of_mem_zip hp).2

/-- on the configurations of the older theorems (every hyperedge has at least two nodes) nothing changes -/
theorem C16_degenerate_agrees (cfg : Config) (qs : List Nat) (labels : Option (List Nat)) (hlen : qs.length = cfg.length)
    (h2 : ∀ e ∈ cfg, 2 ≤ e.length) :
    outputStageD cfg qs labels = outputStage cfg (truncWeights qs) labels := by
  unfold outputStageD
  rw [degenWeights_all cfg _ (by simp [truncWeights, hlen]) h2]

/- non-vacuity: a one-node hyperedge (quantile 5) and the empty hyperedge are dropped, a quantile 0 is clamped to 1 -/
example : outputStageD [[0, 1], [2], [3, 1, 2], []] [3, 5, 0, 2] none = some [([0, 1], 3), ([1, 2, 3], 1)] := by decide
example : outputStageD [[0, 1], [1], [1, 0]] [3, 5, 2] (some [4, 9]) = some [([4, 9], 5)] := by decide
example : properCfg [[0, 1], [2], [3, 1, 2], []] (truncWeights [3, 5, 0, 2]) = [[0, 1], [3, 1, 2]] := by decide


/-! ## second extension round: whole runs without the hypothesis "every hyperedge has at least two nodes"

`Model/C16Run.lean`: `sampleFromHygD` = transform, chain, and per yield the output stage with the nan mean of a degenerate
hyperedge (`outputStageD`; the quantile tape of a yield has one entry per hyperedge of the chain state).  A run from an
initial hypergraph with one-node / empty hyperedges is ONE model run; the theorems below have no hypothesis on sizes. -/

/-- on the inputs of the older whole-run theorems (every hyperedge a set of at least two nodes) the new run function is
the old one - for every tape, also where either refuses (a tape of the wrong length) -/
theorem C16_run_agrees (labels : List Nat) (edges : Config) (t : OwnTape) (he : AllNodup edges)
    (h2 : ∀ e ∈ edges, 2 ≤ e.length) : sampleFromHygD labels edges t = sampleFromHyg labels edges t := by
  unfold sampleFromHygD sampleFromHyg
  cases ht : edges.mapM (transform labels) with
  | none => rfl
  | some cfg =>
    simp only [Option.bind_some]
    obtain ⟨t1, t2⟩ := transformAll_spec ht
    have hn0 : AllNodup cfg := by
      intro e hec
      have : e.map (lab labels) ∈ edges := by rw [t1]; exact List.mem_map_of_mem hec
      exact nodup_of_map_nodup (he _ this)
    have hc2 : ∀ e ∈ cfg, 2 ≤ e.length := by
      intro e hec
      have hm : e.map (lab labels) ∈ edges := by rw [t1]; exact List.mem_map_of_mem hec
      have := h2 _ hm
      simpa using this
    unfold sampleFromConfigD sampleFromConfig
    cases hm : mcmcRoutine cfg [] t.burn t.thins with
    | none => rfl
    | some ys =>
      simp only [Option.bind_some]
      obtain ⟨_, c2⟩ := C16_chain_preserves cfg [] t.burn t.thins ys hn0 hm
      apply outputsOfD_agrees
      intro y hy e hey
      obtain ⟨_, _, d3, _⟩ := c2 y hy
      simp only [List.append_nil] at d3
      have hmem : e.length ∈ cfg.map List.length := by rw [← d3]; exact List.mem_map_of_mem hey
      obtain ⟨e0, he0, hl0⟩ := List.mem_map.mp hmem
      have := hc2 e0 he0
      omega

/-- `sample(initial_hyg=h)` for EVERY hypergraph `h` of sets (one-node and empty hyperedges included), every `k`, every
step and quantile tape: the `k`-th yielded hypergraph is well-formed; every hyperedge has at least two nodes, nodes of
`h`, and the size of a hyperedge of size >= 2 of `h`; no node exceeds its degree in `h` and no size its count in `h`
(the degenerate hyperedges count in the conditioning); and whenever no two hyperedges of size >= 2 of the chain state
`y` coincide, every size >= 2 has exactly its count in `h`, no hyperedge of size < 2 is delivered, and the degree of every
node is its degree among the hyperedges of size >= 2 of `y` - where `y` has node by node the degrees of `h`
(the difference is the one-node hyperedges the node sits in at that moment). -/
theorem C16_sample_hyg_all_sizes (labels : List Nat) (edges : Config) (t : OwnTape)
    (outs : List (List (Hye × Nat))) (hl : labels.Pairwise (· < ·)) (he : AllNodup edges)
    (h : sampleFromHygD labels edges t = some outs) :
    outs.length = t.thins.length ∧ ∀ k (hk : k < outs.length),
      ValidOut outs[k] ∧
      (∀ p ∈ outs[k], 2 ≤ p.1.length ∧ (∀ x ∈ p.1, x ∈ labels) ∧
        ∃ e ∈ edges, 2 ≤ e.length ∧ p.1.length = e.length) ∧
      (∀ x ∈ labels, degOf x (outs[k].map (·.1)) ≤ degOf x edges) ∧
      (∀ s, sizeCount s (outs[k].map (·.1)) ≤ sizeCount s edges) ∧
      ∃ y q, t.quantiles[k]? = some q ∧ outputStageD y q (some labels) = some outs[k] ∧
        (∀ i (hi : i < labels.length), degOf i y = degOf labels[i] edges) ∧
        (((properCfg y (truncWeights q)).map canon).Nodup →
          (∀ s, sizeCount s (outs[k].map (·.1)) = if 2 ≤ s then sizeCount s edges else 0) ∧
          (∀ i (hi : i < labels.length),
            degOf labels[i] (outs[k].map (·.1)) = degOf i (properCfg y (truncWeights q)))) := by
  unfold sampleFromHygD at h
  cases ht : edges.mapM (transform labels) with
  | none => simp [ht] at h
  | some cfg =>
    simp only [ht, Option.bind_some] at h
    obtain ⟨t1, t2⟩ := transformAll_spec ht
    have hnd : labels.Nodup := hl.imp (fun hab => Nat.ne_of_lt hab)
    have hn0 : AllNodup cfg := by
      intro e hec
      have : e.map (lab labels) ∈ edges := by rw [t1]; exact List.mem_map_of_mem hec
      exact nodup_of_map_nodup (he _ this)
    obtain ⟨ys, hy, hlen, hout⟩ := sampleFromConfigD_spec h
    obtain ⟨c1, c2⟩ := C16_chain_preserves cfg [] t.burn t.thins ys hn0 hy
    refine ⟨by omega, ?_⟩
    intro k hk
    have hk' : k < ys.length := by omega
    obtain ⟨q, hq, hql, ho⟩ := hout k hk' hk
    obtain ⟨d1, d2, d3, d4⟩ := c2 ys[k] (List.getElem_mem hk')
    simp only [List.append_nil] at d1 d2 d3
    have hny : AllNodup ys[k] := d4 (by intro e he; simp at he)
    have hwl : (truncWeights q).length = ys[k].length := by simp [truncWeights, hql]
    have ho' := ho
    unfold outputStageD at ho'
    rw [C16_degenerate_refines _ _ _ hwl] at ho'
    have hnp : AllNodup (properCfg ys[k] (truncWeights q)) := fun e he => hny e (properCfg_mem he).1
    obtain ⟨v1, v2, v3, v4, v5⟩ :=
      C16_output_valid _ _ (some labels) outs[k] hnp (by intro ls hls; cases hls; exact hl) ho'
    obtain ⟨b1, b2, b3⟩ := C16_output_bounds_labels _ _ labels outs[k] hnd ho'
    have hpos : ∀ w ∈ properWs ys[k] (truncWeights q), 0 < w := by
      intro w hw
      simp only [properWs, properPairs, List.mem_map, List.mem_filter] at hw
      obtain ⟨p, ⟨hp, _⟩, rfl⟩ := hw
      exact truncWeights_pos q p.2 (List.of_mem_zip hp).2
    have hdeg : ∀ i (hi : i < labels.length), degOf labels[i] edges = degOf i cfg := by
      intro i hi
      have e1 : labels[i] = lab labels i := by simp [lab, List.getElem?_eq_getElem hi]
      rw [e1, t1]
      exact degOf_map_lab hnd t2 hi
    have hsz : ∀ s, sizeCount s edges = sizeCount s cfg := by
      intro s; rw [t1]; exact sizeCount_map_lab labels cfg s
    refine ⟨⟨v1, fun p hp => ⟨v2 p hp, v3 p hp⟩⟩, ?_, ?_, ?_, ys[k], q, hq, ho, ?_, ?_⟩
    · intro p hp
      obtain ⟨e, hey, hpe⟩ := v4 p hp
      obtain ⟨hey', he2⟩ := properCfg_mem hey
      have hmem : e.length ∈ cfg.map List.length := by rw [← d3]; exact List.mem_map_of_mem hey'
      obtain ⟨e0, he0, hl0⟩ := List.mem_map.mp hmem
      refine ⟨by omega, fun x hx => v5 p hp x hx, e0.map (lab labels),
        by rw [t1]; exact List.mem_map_of_mem he0, ?_, ?_⟩
      · rw [List.length_map]; omega
      · rw [List.length_map]; omega
    · intro x hx
      obtain ⟨i, hi, hxi⟩ := List.getElem_of_mem hx
      subst hxi
      rw [hdeg i hi, ← d1 i]
      exact Nat.le_trans (b1 i hi) (degOf_proper_le i _ _)
    · intro s
      rw [hsz s, ← d2 s]
      have := b2 s
      rw [sizeCount_proper s _ _ hwl] at this
      split at this <;> omega
    · intro i hi
      rw [hdeg i hi, d1 i]
    · intro hndy
      obtain ⟨e1, e2⟩ := b3 hpos hndy
      refine ⟨?_, e1⟩
      intro s
      rw [e2 s, sizeCount_proper s _ _ hwl, hsz s, d2 s]

-- non-vacuity: a one-node hyperedge that the chain moves around (step 0: hyperedges 0 and 1 exchange nodes), the empty
-- hyperedge; the degenerate hyperedges are dropped whatever their quantiles, a quantile 0 is clamped to 1
example : sampleFromHygD [4, 9, 11] [[4, 9], [9], [11, 4], []] ⟨[], [], [[]], [[3, 5, 0, 2]]⟩ =
    some [[([4, 9], 3), ([4, 11], 1)]] := by decide
example : sampleFromHygD [4, 9, 11] [[4, 9], [9], [11, 4]] ⟨[], [], [[]], [[3, 5]]⟩ = none := by decide
example : sampleFromHygD [10, 20, 30, 40, 50] [[10, 20, 30], [30, 40], [20, 50]]
    ⟨[], [⟨0, 1, [1, 3], true⟩], [[⟨2, 1, [0, 4], true⟩], []], [[1, 2, 2], [1, 0, 3]]⟩ =
    sampleFromHyg [10, 20, 30, 40, 50] [[10, 20, 30], [30, 40], [20, 50]]
    ⟨[], [⟨0, 1, [1, 3], true⟩], [[⟨2, 1, [0, 4], true⟩], []], [[1, 2, 2], [1, 0, 3]]⟩ := by decide

/-! ## second extension round: the argument checks before `_match_sequences` (`Model/C16Guard.lean`) -/

/-- characterisation of the error path: a call through `_sampling_from_sequences` gets past the two `assert`s iff the
degree sequence has one entry per node of the model and no size of the size sequence exceeds the number of nodes;
otherwise the FIRST failing check in the order of the code is the one that raises -/
theorem C16_guard_accepts_iff (N : Nat) (degSeq : List Nat) (dimSeq : List (Nat × Nat)) :
    (argGuard N degSeq dimSeq = .ok ↔ degSeq.length = N ∧ ∀ p ∈ dimSeq, p.1 ≤ N) ∧
    (argGuard N degSeq dimSeq = .badShape ↔ degSeq.length ≠ N) ∧
    (argGuard N degSeq dimSeq = .badDim ↔ degSeq.length = N ∧ ∃ p ∈ dimSeq, N < p.1) := by
  unfold argGuard
  by_cases hl : degSeq.length = N
  · by_cases hd : dimSeq.all (fun p => decide (p.1 ≤ N)) = true
    · rw [if_pos hl, if_pos hd]
      have hall : ∀ p ∈ dimSeq, p.1 ≤ N := by
        intro p hp
        have := List.all_eq_true.mp hd p hp
        simpa using this
      refine ⟨⟨fun _ => ⟨hl, hall⟩, fun _ => rfl⟩, ⟨(fun h => by cases h), fun h => absurd hl h⟩, ?_⟩
      constructor
      · intro h; cases h
      · rintro ⟨_, p, hp, hlt⟩
        have := hall p hp
        omega
    · rw [if_pos hl, if_neg hd]
      have hex : ∃ p ∈ dimSeq, N < p.1 := by
        apply Decidable.byContradiction
        intro hne
        apply hd
        apply List.all_eq_true.mpr
        intro p hp
        apply decide_eq_true
        apply Decidable.byContradiction
        intro hn
        exact hne ⟨p, hp, by omega⟩
      refine ⟨⟨(fun h => by cases h), ?_⟩, ⟨(fun h => by cases h), fun h => absurd hl h⟩, ⟨fun _ => ⟨hl, hex⟩, fun _ => rfl⟩⟩
      rintro ⟨_, hall⟩
      obtain ⟨p, hp, hlt⟩ := hex
      have := hall p hp
      omega
  · rw [if_neg hl]
    refine ⟨⟨(fun h => by cases h), fun h => absurd h.1 hl⟩, ⟨fun _ => hl, fun _ => rfl⟩, ⟨(fun h => by cases h), fun h => absurd h.1 hl⟩⟩

/-- a call refused by the argument checks delivers nothing and leaves `matching_sequences` exactly as it was - a stale
`True` of an earlier call included (contrast `C16_raise_state`: an exception INSIDE `_match_sequences` never leaves
`True`); a call that passes them is the call of the older model, to which every older theorem applies; and
`sample(initial_hyg=...)` is never refused here -/
theorem C16_guard_call (N : Nat) (s : Sampler) (c : CallX) :
    (accepted N c = false → callStepG N s c = (s, none)) ∧
    (accepted N c = true → callStepG N s c = callStepX s c) ∧
    (∀ l e, c.args = .hyg l e → accepted N c = true) ∧
    (∀ d m, c.args = .seqs d m → (accepted N c = true ↔ d.length = N ∧ ∀ p ∈ m, p.1 ≤ N)) := by
  refine ⟨?_, ?_, ?_, ?_⟩
  · intro h; unfold callStepG; rw [h]; rfl
  · intro h; unfold callStepG; rw [h]; rfl
  · intro l e h; unfold accepted seqsOf; rw [h]
  · intro d m h
    unfold accepted seqsOf
    rw [h]
    simp only [decide_eq_true_eq]
    exact (C16_guard_accepts_iff N d m).1

/-- sessions with refused calls anywhere: a refused call is invisible to the rest of the session (the session continues
as if the call had not been made), an accepted call acts as in the session model without the checks -/
theorem C16_guard_session (N : Nat) (s : Sampler) (c : CallX) (cs : List CallX) :
    (accepted N c = false → runSessionG N s (c :: cs) = (none, s.flag) :: runSessionG N s cs) ∧
    (accepted N c = true →
      runSessionG N s (c :: cs) = ((callStepX s c).2, (callStepX s c).1.flag) :: runSessionG N (callStepX s c).1 cs) ∧
    ((∀ c' ∈ c :: cs, accepted N c' = true) → runSessionG N s (c :: cs) = runSessionX s (c :: cs)) := by
  refine ⟨?_, ?_, ?_⟩
  · intro h
    have := (C16_guard_call N s c).1 h
    simp only [runSessionG, this]
  · intro h
    have := (C16_guard_call N s c).2.1 h
    simp only [runSessionG, this]
  · intro hall
    generalize c :: cs = l at hall
    induction l generalizing s with
    | nil => rfl
    | cons a l ih =>
      have ha := (C16_guard_call N s a).2.1 (hall a List.mem_cons_self)
      simp only [runSessionG, runSessionX, ha]
      rw [ih _ (fun c' hc' => hall c' (List.mem_cons_of_mem _ hc'))]

/-- accepted `sample(deg_seq=d, dim_seq=m)` on a model with `N >= 2` nodes: every node of every delivered hyperedge is a
node of the model and no hyperedge has more than `N` nodes (the accepted size sequence has no larger size) -/
theorem C16_guard_accepted_sizes (N : Nat) (hN : 2 ≤ N) (s : Sampler) (c : CallX) (d : List Nat) (m : List (Nat × Nat))
    (hc : c.args = .seqs d m) (ha : accepted N c = true) (r : CallOut) (hr : (callStepG N s c).2 = some r) :
    ∀ k (hk : k < r.outs.length), ∀ p ∈ r.outs[k], (∀ x ∈ p.1, x < N) ∧ 2 ≤ p.1.length ∧ p.1.length ≤ N := by
  obtain ⟨hlen, hdim⟩ := ((C16_guard_call N s c).2.2.2 d m hc).mp ha
  rw [(C16_guard_call N s c).2.1 ha, C16_callX_result, hc] at hr
  simp only at hr
  cases hs : sampleFromSeqs d m true true [] c.own with
  | none => simp [hs] at hr
  | some fo =>
    obtain ⟨flag, outs⟩ := fo
    simp only [hs, Option.map_some, Option.some.injEq] at hr
    subst hr
    obtain ⟨_, hall⟩ := C16_sample_seqs d m true true [] c.own flag outs (by intro e he; simp at he) hs
    intro k hk p hp
    obtain ⟨_, h2, _⟩ := hall k hk
    obtain ⟨a1, a2, a3⟩ := h2 p hp
    refine ⟨fun x hx => by have := a1 x hx; omega, a2, a3 N hN hdim⟩

-- non-vacuity: the three verdicts; a refused call between two calls of a session started with a stale `True`
example : argGuard 3 [1, 1, 2] [(2, 2), (3, 0)] = .ok ∧ argGuard 3 [1, 1] [(2, 1)] = .badShape ∧
    argGuard 3 [1, 1, 2] [(2, 1), (4, 1)] = .badDim ∧ argGuard 3 [1, 1, 2, 0] [(4, 1)] = .badShape := by decide
example : (runSessionG 3 ⟨some true⟩ [⟨.seqs [1, 1, 2] [(4, 1)], ⟨[], [], [], []⟩, ⟨[], [], []⟩⟩,
    ⟨.seqs [1, 1] [(2, 1)], ⟨[], [], [], []⟩, ⟨[], [], []⟩⟩]).map (·.2) = [some true, some true] := by decide

/-! ## second extension round: the contract of `sample_truncated_poisson` at model level (`Model/C16Trunc.lean`)

`Y = X | X > 0` by the inverse-cdf scheme `p = u + (1 - u) exp(-lambd)`, `max(ppf(p), 1)`, over every linearly ordered field;
`e` = `exp(-lambd)` (any number in `(0, 1)` for a positive rate), `cdf` = the Poisson cdf as a parameter. -/

/-- the contract: every delivered draw is at least 1 - for EVERY uniform, every `e`, every cdf table, clipped or not -/
theorem C16_trunc_contract {α : Type} [Field α] [LinearOrder α] [IsStrictOrderedRing α]
    (cdf : Nat → α) (u e pmax : α) (fuel k : Nat) (h : truncDraw cdf u e pmax fuel = some k) : 1 ≤ k := by
  unfold truncDraw at h
  cases hq : ppfFrom cdf (truncP u e pmax) fuel 0 with
  | none => simp [hq] at h
  | some q =>
    simp only [hq, Option.map_some, Option.some.injEq] at h
    omega

/-- where the clamp `np.maximum(., 1)` is needed in exact arithmetic: for a positive rate (`e < 1`) and a uniform in
`[0, 1)` the quantile of `p = u + (1 - u) e` is 0 exactly when `u = 0` (then `p = P(X = 0)`: without the clamp the
draw would be 0 - defect D44 of the unclamped code); for every `u > 0` the quantile itself is already >= 1;
and `p < 1` always (the quantile is finite) -/
theorem C16_trunc_clamp_only_at_zero {α : Type} [Field α] [LinearOrder α] [IsStrictOrderedRing α]
    (cdf : Nat → α) (u e : α) (fuel q : Nat) (hu0 : 0 ≤ u) (hu1 : u < 1) (he1 : e < 1) (h0 : cdf 0 = e)
    (h : ppfFrom cdf (u + (1 - u) * e) fuel 0 = some q) :
    (q = 0 ↔ u = 0) ∧ u + (1 - u) * e < 1 := by
  obtain ⟨_, _, hle, hleast⟩ := ppfFrom_spec cdf _ fuel 0 q h
  have h1 : 0 < 1 - e := by linarith
  refine ⟨⟨?_, ?_⟩, by nlinarith⟩
  · intro hq
    rw [hq, h0] at hle
    have : u * (1 - e) ≤ 0 := by nlinarith
    have : u ≤ 0 := by
      rcases le_or_gt u 0 with h' | h'
      · exact h'
      · have := mul_pos h' h1; linarith
    exact le_antisymm this hu0
  · intro hu
    apply Decidable.byContradiction
    intro hq
    apply hleast 0 (Nat.le_refl 0) (by omega)
    rw [h0, hu]
    simp

/-- the law of the draw (when the clip `np.minimum(p, nextafter(1, 0))` is not active): for a monotone cdf with
`cdf 0 = e < 1`, the draw is `k >= 1` exactly for the uniforms in
`((cdf (k-1) - e) / (1 - e), (cdf k - e) / (1 - e)]` (from 0 for `k = 1`) - an interval of length
`(cdf k - cdf (k-1)) / (1 - cdf 0) = P(X = k | X > 0)`: the truncated Poisson law, nothing else -/
theorem C16_trunc_law {α : Type} [Field α] [LinearOrder α] [IsStrictOrderedRing α]
    (cdf : Nat → α) (hmono : ∀ i j, i ≤ j → cdf i ≤ cdf j) (u e pmax : α) (fuel k : Nat)
    (he1 : e < 1) (hp : u + (1 - u) * e ≤ pmax) (hk : 1 ≤ k) (hf : k < fuel) :
    truncDraw cdf u e pmax fuel = some k ↔
      (u ≤ (cdf k - e) / (1 - e) ∧ (2 ≤ k → (cdf (k - 1) - e) / (1 - e) < u)) := by
  have hP : truncP u e pmax = u + (1 - u) * e := by unfold truncP; rw [if_pos hp]
  unfold truncDraw
  rw [hP]
  constructor
  · intro h
    cases hq : ppfFrom cdf (u + (1 - u) * e) fuel 0 with
    | none => simp [hq] at h
    | some q =>
      simp only [hq, Option.map_some, Option.some.injEq] at h
      obtain ⟨_, _, hle, hleast⟩ := ppfFrom_spec cdf _ fuel 0 q hq
      have hqk : q ≤ k := by omega
      refine ⟨(truncP_le_iff u e _ he1).mp (le_trans hle (hmono q k hqk)), ?_⟩
      intro h2
      have hq' : q = k := by omega
      have := hleast (k - 1) (Nat.zero_le _) (by omega)
      rw [truncP_le_iff u e _ he1] at this
      exact lt_of_not_ge this
  · rintro ⟨hle, hgt⟩
    have hle' := (truncP_le_iff u e _ he1).mpr hle
    obtain ⟨q, hq⟩ := ppfFrom_complete cdf _ fuel 0 k (Nat.zero_le _) (by omega) hle'
    obtain ⟨_, _, hqle, hleast⟩ := ppfFrom_spec cdf _ fuel 0 q hq
    rw [hq]
    simp only [Option.map_some, Option.some.injEq]
    have hqk : q ≤ k := by
      apply Decidable.byContradiction
      intro hn
      exact hleast k (Nat.zero_le _) (by omega) hle'
    by_cases h2 : 2 ≤ k
    · have hlt := hgt h2
      have : ¬ (u + (1 - u) * e ≤ cdf (k - 1)) := by
        rw [truncP_le_iff u e _ he1]; exact not_le_of_gt hlt
      have : q = k := by
        apply Decidable.byContradiction
        intro hne
        exact this (le_trans hqle (hmono q (k - 1) (by omega)))
      omega
    · omega

-- non-vacuity (a table with cdf 0 = e = 1/4): u = 1/2 gives p = 5/8, quantile 2; u = 0 gives quantile 0, draw 1;
-- a clipped p; a quantile beyond the table
example : truncDrawTab [1/4, 1/2, 3/4, 1] (1/2) (1/4) (99/100) = some 2 := by decide +kernel
example : truncDrawTab [1/4, 1/2, 3/4, 1] 0 (1/4) (99/100) = some 1 := by decide +kernel
example : ppfFrom (fun k => [(1/4 : Rat), 1/2, 3/4, 1].getD k 0) (1/4) 4 0 = some 0 := by decide +kernel
example : truncDrawTab [1/4, 1/2, 3/4] (9/10) (1/4) (99/100) = none := by decide +kernel
