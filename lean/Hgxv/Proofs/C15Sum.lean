import Hgxv.Model.C15
import Mathlib.Algebra.Order.Field.Rat
import Mathlib.Algebra.BigOperators.Field
import Mathlib.Algebra.BigOperators.Ring.Finset
import Mathlib.Algebra.Order.BigOperators.Ring.Finset
import Mathlib.Data.Finset.Prod
import Mathlib.Tactic.Ring
import Mathlib.Tactic.Linarith
import Mathlib.Tactic.FieldSimp
/-! # C15 — the model's index sums as `Finset` sums; bilinearity; pair sums -/
open Finset
namespace C15

theorem sumTo_eq (n : ℕ) (f : ℕ → ℚ) : sumTo n f = ∑ i ∈ range n, f i := by
  induction n with
  | zero => simp [sumTo]
  | succ n ih => simp [sumTo, ih, Finset.sum_range_succ]

theorem sumL_eq (ds : List ℕ) (f : ℕ → ℚ) : sumL ds f = (ds.map f).sum := by
  induction ds with
  | nil => simp [sumL]
  | cons d ds ih => simp [sumL] at ih ⊢; rw [ih]

theorem sumL_cons (d : ℕ) (ds : List ℕ) (f : ℕ → ℚ) : sumL (d :: ds) f = f d + sumL ds f := rfl
theorem sumL_nil (f : ℕ → ℚ) : sumL [] f = 0 := rfl

theorem sumL_congr (ds : List ℕ) (f g : ℕ → ℚ) (h : ∀ d ∈ ds, f d = g d) : sumL ds f = sumL ds g := by
  induction ds with
  | nil => rfl
  | cons d ds ih =>
    rw [sumL_cons, sumL_cons, h d (by simp), ih (fun x hx => h x (by simp [hx]))]

theorem sumL_mul (ds : List ℕ) (f : ℕ → ℚ) (c : ℚ) : sumL ds f * c = sumL ds fun d => f d * c := by
  induction ds with
  | nil => simp [sumL_nil]
  | cons d ds ih => rw [sumL_cons, sumL_cons, add_mul, ih]

theorem mul_sumL (ds : List ℕ) (f : ℕ → ℚ) (c : ℚ) : c * sumL ds f = sumL ds fun d => c * f d := by
  induction ds with
  | nil => simp [sumL_nil]
  | cons d ds ih => rw [sumL_cons, sumL_cons, mul_add, ih]

theorem sumL_add (ds : List ℕ) (f g : ℕ → ℚ) : sumL ds f + sumL ds g = sumL ds fun d => f d + g d := by
  induction ds with
  | nil => simp [sumL_nil]
  | cons d ds ih => rw [sumL_cons, sumL_cons, sumL_cons, ← ih]; ring

/-- the nodes of the hyperedge `e` among `0..N-1` -/
def nodesOf (N : ℕ) (e : List ℕ) : Finset ℕ := (range N).filter (· ∈ e)

/-- `u_iᵀ w u_j` -/
def aij (K : ℕ) (u w : Mat) (i j : ℕ) : ℚ := bf K (u i) (u j) w

/-- sum over the unordered node pairs `i < j` of `s` of `u_iᵀ w u_j` -/
def pairSum (K : ℕ) (u w : Mat) (s : Finset ℕ) : ℚ :=
  ∑ p ∈ s.offDiag with p.1 < p.2, aij K u w p.1 p.2

/-! ## bilinearity of `bf` -/

theorem bf_eq (K : ℕ) (x y : Vec) (w : Mat) :
    bf K x y w = ∑ b ∈ range K, ∑ a ∈ range K, x a * w a b * y b := by
  simp only [bf, vecMat, sumTo_eq, Finset.sum_mul]

theorem qf_eq_bf (K : ℕ) (x : Vec) (w : Mat) : qf K x w = bf K x x w := rfl

theorem bf_sum_left {ι : Type} (K : ℕ) (s : Finset ι) (f : ι → Vec) (y : Vec) (w : Mat) :
    bf K (fun a => ∑ i ∈ s, f i a) y w = ∑ i ∈ s, bf K (f i) y w := by
  simp only [bf_eq, Finset.sum_mul]
  have h : ∀ b ∈ range K, ∑ a ∈ range K, ∑ i ∈ s, f i a * w a b * y b
      = ∑ i ∈ s, ∑ a ∈ range K, f i a * w a b * y b := fun b _ => Finset.sum_comm
  rw [Finset.sum_congr rfl h, Finset.sum_comm]

theorem bf_sum_right {ι : Type} (K : ℕ) (s : Finset ι) (x : Vec) (f : ι → Vec) (w : Mat) :
    bf K x (fun a => ∑ i ∈ s, f i a) w = ∑ i ∈ s, bf K x (f i) w := by
  simp only [bf_eq, Finset.mul_sum]
  have h : ∀ b ∈ range K, ∑ a ∈ range K, ∑ i ∈ s, x a * w a b * f i b
      = ∑ i ∈ s, ∑ a ∈ range K, x a * w a b * f i b := fun b _ => Finset.sum_comm
  rw [Finset.sum_congr rfl h, Finset.sum_comm]

theorem bf_sub_left (K : ℕ) (x x' y : Vec) (w : Mat) :
    bf K (fun a => x a - x' a) y w = bf K x y w - bf K x' y w := by
  simp only [bf_eq, sub_mul, Finset.sum_sub_distrib]

theorem bf_sub_right (K : ℕ) (x y y' : Vec) (w : Mat) :
    bf K x (fun a => y a - y' a) w = bf K x y w - bf K x y' w := by
  simp only [bf_eq, mul_sub, Finset.sum_sub_distrib]

theorem bf_symm (K : ℕ) (x y : Vec) (w : Mat) (hw : ∀ a < K, ∀ b < K, w a b = w b a) :
    bf K x y w = bf K y x w := by
  simp only [bf_eq]
  rw [Finset.sum_comm]
  apply Finset.sum_congr rfl; intro a ha
  apply Finset.sum_congr rfl; intro b hb
  rw [hw a (mem_range.mp ha) b (mem_range.mp hb)]; ring

theorem aij_symm (K : ℕ) (u w : Mat) (hw : ∀ a < K, ∀ b < K, w a b = w b a) (i j : ℕ) :
    aij K u w i j = aij K u w j i := bf_symm K _ _ w hw

/-! ## diagonal / off-diagonal bookkeeping -/

theorem sum_sum_sub_diag (S : Finset ℕ) (g : ℕ → ℕ → ℚ) :
    ∑ i ∈ S, ∑ j ∈ S, g i j - ∑ i ∈ S, g i i = ∑ p ∈ S.offDiag, g p.1 p.2 := by
  rw [← Finset.sum_product' S S g, ← Finset.diag_union_offDiag,
    Finset.sum_union (Finset.disjoint_diag_offDiag S), Finset.sum_diag]
  ring

theorem sum_offDiag_symm (S : Finset ℕ) (g : ℕ → ℕ → ℚ) (hg : ∀ i j, g i j = g j i) :
    ∑ p ∈ S.offDiag, g p.1 p.2 = 2 * ∑ p ∈ S.offDiag with p.1 < p.2, g p.1 p.2 := by
  rw [← Finset.sum_filter_add_sum_filter_not S.offDiag (fun p => p.1 < p.2)]
  have : ∑ p ∈ S.offDiag with ¬ p.1 < p.2, g p.1 p.2 = ∑ p ∈ S.offDiag with p.1 < p.2, g p.1 p.2 := by
    apply Finset.sum_nbij' Prod.swap Prod.swap
    · intro p hp
      simp only [mem_filter, mem_offDiag, Prod.fst_swap, Prod.snd_swap] at hp ⊢
      obtain ⟨⟨h1, h2, h3⟩, h4⟩ := hp
      exact ⟨⟨h2, h1, fun h => h3 h.symm⟩, by omega⟩
    · intro p hp
      simp only [mem_filter, mem_offDiag, Prod.fst_swap, Prod.snd_swap] at hp ⊢
      obtain ⟨⟨h1, h2, h3⟩, h4⟩ := hp
      exact ⟨⟨h2, h1, fun h => h3 h.symm⟩, by omega⟩
    · intro p _; simp
    · intro p _; simp
    · intro p _; simp [hg p.1 p.2]
  rw [this]; ring

/-! ## the model's quantities as sums of `aij` -/

theorem edgeSum_eq (N : ℕ) (u : Mat) (e : List ℕ) :
    edgeSum N u e = fun a => ∑ i ∈ nodesOf N e, u i a := by
  funext a
  simp only [edgeSum, sumTo_eq, inc, nodesOf, Finset.sum_filter]
  apply Finset.sum_congr rfl; intro i _
  split <;> simp

theorem colSum_eq (N : ℕ) (u : Mat) : colSum N u = fun a => ∑ i ∈ range N, u i a := by
  funext a; simp only [colSum, sumTo_eq]

theorem qf_sum (K : ℕ) (S : Finset ℕ) (u w : Mat) :
    qf K (fun a => ∑ i ∈ S, u i a) w = ∑ i ∈ S, ∑ j ∈ S, aij K u w i j := by
  rw [qf_eq_bf, bf_sum_left]
  apply Finset.sum_congr rfl; intro i _
  rw [bf_sum_right]; rfl

theorem inc_sum (N : ℕ) (e : List ℕ) (f : ℕ → ℚ) :
    (sumTo N fun i => inc e i * f i) = ∑ i ∈ nodesOf N e, f i := by
  simp only [sumTo_eq, inc, nodesOf, Finset.sum_filter]
  apply Finset.sum_congr rfl; intro i _
  split <;> simp

theorem poisson_eq_offDiag (N K : ℕ) (u w : Mat) (e : List ℕ) :
    poisson N K u w e = half * ∑ p ∈ (nodesOf N e).offDiag, aij K u w p.1 p.2 := by
  unfold poisson
  rw [edgeSum_eq, qf_sum, inc_sum, ← sum_sum_sub_diag]
  rfl

theorem bfSum_eq_offDiag (N K : ℕ) (u w : Mat) :
    bfSum N K u w = half * ∑ p ∈ (range N).offDiag, aij K u w p.1 p.2 := by
  unfold bfSum qfSum
  rw [colSum_eq, qf_sum, sumTo_eq, ← sum_sum_sub_diag]
  rfl

theorem half_two (x : ℚ) : half * (2 * x) = x := by unfold half; ring

theorem poisson_eq_pairSum (N K : ℕ) (u w : Mat) (e : List ℕ)
    (hw : ∀ a < K, ∀ b < K, w a b = w b a) :
    poisson N K u w e = pairSum K u w (nodesOf N e) := by
  rw [poisson_eq_offDiag, sum_offDiag_symm _ _ (aij_symm K u w hw), half_two]; rfl

theorem bfSum_eq_pairSum (N K : ℕ) (u w : Mat) (hw : ∀ a < K, ∀ b < K, w a b = w b a) :
    bfSum N K u w = pairSum K u w (range N) := by
  rw [bfSum_eq_offDiag, sum_offDiag_symm _ _ (aij_symm K u w hw), half_two]; rfl

end C15
