import Hgxv.Proofs.C04Query
/-! C04 - aggregation and overlap. Core Lean only. -/
namespace C04
open AL

/-! ## the aggregate's hyperedge table as a fold over the abstract records -/

/-- what `Hypergraph.add_edge(e, w, md)` does to the table `edge ↦ (weight, metadata)` -/
def tblStep (wtd : Bool) (tbl : List (Edge × (Int × Meta))) (e : Edge) (w : Int) (md : Meta) : List (Edge × (Int × Meta)) :=
  AL.set tbl e (match get? tbl e with
    | none => (if wtd then w else one, md)
    | some (w0, _) => (if wtd then w0 + w else w0, md))

def aggTable (wtd : Bool) (es : List (Key × (Int × Meta))) (tbl : List (Edge × (Int × Meta))) : List (Edge × (Int × Meta)) :=
  es.foldl (fun tbl r => tblStep wtd tbl r.1.1 r.2.1 r.2.2) tbl

theorem HSpec.addNode_present (h : HSpec) (n : Node) (hn : (get? h.nodes n).isSome) : h.addNode n [] = h := by
  unfold HSpec.addNode
  cases hg : get? h.nodes n with
  | none => simp [hg] at hn
  | some md =>
    cases md with
    | nil => simp only []; rw [set_same _ _ _ hg]
    | cons a t => rfl

theorem HSpec.foldl_addNode_present (h : HSpec) (e : List Node) (he : ∀ n ∈ e, (get? h.nodes n).isSome) :
    e.foldl (fun h n => h.addNode n []) h = h := by
  induction e with
  | nil => rfl
  | cons n ns ih =>
    simp only [List.foldl_cons]
    rw [HSpec.addNode_present h n (he n List.mem_cons_self)]
    exact ih (fun m hm => he m (List.mem_cons_of_mem _ hm))

theorem HSpec.addEdge_eq (h : HSpec) (e : Edge) (w : Int) (md : Meta) (he : ∀ n ∈ e, (get? h.nodes n).isSome)
    (hw : h.weighted = false → w = one) :
    h.addEdge e w md = some { h with edges := tblStep h.weighted h.edges e w md } := by
  unfold HSpec.addEdge
  have hc : ¬ ((!h.weighted && w != one) = true) := by
    cases hwt : h.weighted
    · simp [hw hwt]
    · simp
  rw [if_neg hc]
  unfold tblStep
  cases hg : get? h.edges e with
  | none =>
    simp only []
    congr 1
    exact HSpec.foldl_addNode_present _ e (fun n hn => he n hn)
  | some p => obtain ⟨w0, md0⟩ := p; rfl

theorem aggEdges_eq (s : Store) (es : List (Key × (Int × Meta))) (h : HSpec)
    (hes : ∀ r ∈ es, getWeight s r.1.1 r.1.2 = some r.2.1 ∧ getEdgeMeta s r.1.1 r.1.2 = some r.2.2 ∧
      (∀ n ∈ r.1.1, (get? h.nodes n).isSome) ∧ (h.weighted = false → r.2.1 = one)) :
    aggEdges s (es.map (·.1)) h = some { h with edges := aggTable h.weighted es h.edges } := by
  induction es generalizing h with
  | nil => rfl
  | cons r es ih =>
    obtain ⟨⟨e, l⟩, w, md⟩ := r
    obtain ⟨h1, h2, h3, h4⟩ := hes _ List.mem_cons_self
    simp only [List.map_cons, aggEdges]
    simp only at h1 h2 h3 h4
    rw [h1, h2]
    simp only []
    rw [HSpec.addEdge_eq h e w md h3 h4]
    simp only []
    rw [ih]
    · rfl
    · intro r hr
      exact hes r (List.mem_cons_of_mem _ hr)

theorem foldl_addNode_nodes (l : List (Node × Meta)) (h : HSpec) (hnd : (keys (h.nodes ++ l)).Nodup) :
    (l.foldl (fun h (p : Node × Meta) => h.addNode p.1 p.2) h).nodes = h.nodes ++ l ∧
    (l.foldl (fun h (p : Node × Meta) => h.addNode p.1 p.2) h).edges = h.edges ∧
    (l.foldl (fun h (p : Node × Meta) => h.addNode p.1 p.2) h).weighted = h.weighted ∧
    (l.foldl (fun h (p : Node × Meta) => h.addNode p.1 p.2) h).hmeta = h.hmeta := by
  induction l generalizing h with
  | nil => simp
  | cons p l ih =>
    obtain ⟨n, md⟩ := p
    simp only [List.foldl_cons]
    have hnone : get? h.nodes n = none := by
      rw [get?_eq_none_iff]
      simp only [keys, List.map_append, List.map_cons] at hnd
      have := (List.nodup_append.mp hnd).2.2
      intro hm
      exact this n hm n List.mem_cons_self rfl
    have hstep : (h.addNode n md) = { h with nodes := h.nodes ++ [(n, md)] } := by
      unfold HSpec.addNode; simp only [hnone]; rw [set_eq_append _ _ _ hnone]
    rw [hstep]
    have := ih { h with nodes := h.nodes ++ [(n, md)] } (by simpa using hnd)
    simpa using this

/-- the closed form of `aggregated_hypergraph()` -/
theorem aggregated_eq (s : Store) (h : Inv s) :
    aggregated s = some { weighted := s.weighted
                          hmeta := AL.set (AL.set s.hmeta hkWeighted (tokBool s.weighted)) hkType tokHypergraph
                          nodes := s.nmeta
                          edges := aggTable s.weighted (abs s).edges [] } := by
  unfold aggregated
  simp only []
  obtain ⟨f1, f2, f3, f4⟩ := foldl_addNode_nodes s.nmeta
    { weighted := s.weighted, hmeta := AL.set (AL.set s.hmeta hkWeighted (tokBool s.weighted)) hkType tokHypergraph }
    (by simpa using h.nm.nm_nodup)
  have hk : records s = (abs s).edges.map (·.1) := by rw [records_abs]; rfl
  rw [hk, aggEdges_eq]
  · simp only [f1, f2, f3, f4, List.nil_append]
  · intro r hr
    have hknd : (keys (abs s).edges).Nodup := by rw [abs_edges, keys_mapVal]; exact h.id.el_nodup
    have hget := get?_of_mem _ _ _ hknd hr
    obtain ⟨p, hp, rfl⟩ := List.mem_map.mp (by rw [abs_edges] at hr; exact hr)
    have hpe := get?_of_mem _ _ _ h.id.el_nodup hp
    have hrev := h.id.rev_of_edge _ _ hpe
    have hc : canon p.1.1 = p.1.1 := (h.id.key_sorted _ _ hrev).canon
    refine ⟨?_, ?_, ?_, ?_⟩
    · rw [getWeight_abs s _ _ h]; unfold Spec.getWeight; simp only [hc]; rw [hget]; rfl
    · rw [getEdgeMeta_abs s _ _ h]; unfold Spec.getEdgeMeta; simp only [hc]; rw [hget]; rfl
    · intro n hn
      rw [f1]; simp only [List.nil_append]
      exact (h.nm.adj_nm n).mp (h.adj.nodes_in _ _ hrev n hn)
    · rw [f3]
      intro hw
      have : (get? s.weights p.2).isSome := (h.id.w_some p.2).mpr (by simp [hrev])
      obtain ⟨w, hw'⟩ := Option.isSome_iff_exists.mp this
      simp only [entryOf, hw', Option.getD_some]
      exact h.id.unw hw _ _ hw'

/-! ## what the folded table contains -/

def sumFor (es : List (Key × (Int × Meta))) (e : Edge) : Int := ((es.filter (fun r => r.1.1 = e)).map (·.2.1)).sum

theorem sumFor_cons (r : Key × (Int × Meta)) (es : List (Key × (Int × Meta))) (e : Edge) :
    sumFor (r :: es) e = (if r.1.1 = e then r.2.1 else 0) + sumFor es e := by
  unfold sumFor
  by_cases h : r.1.1 = e <;> simp [List.filter_cons, h]

theorem tblStep_keys_nodup (wtd : Bool) (tbl : List (Edge × (Int × Meta))) (e : Edge) (w : Int) (md : Meta)
    (h : (keys tbl).Nodup) : (keys (tblStep wtd tbl e w md)).Nodup := keys_nodup_set _ _ _ h

theorem aggTable_keys_nodup (wtd : Bool) (es : List (Key × (Int × Meta))) (tbl : List (Edge × (Int × Meta)))
    (h : (keys tbl).Nodup) : (keys (aggTable wtd es tbl)).Nodup := by
  induction es generalizing tbl with
  | nil => exact h
  | cons r es ih => exact ih _ (tblStep_keys_nodup wtd tbl _ _ _ h)

theorem aggTable_mem (wtd : Bool) (es : List (Key × (Int × Meta))) (tbl : List (Edge × (Int × Meta))) (e : Edge) :
    e ∈ keys (aggTable wtd es tbl) ↔ e ∈ keys tbl ∨ ∃ r ∈ es, r.1.1 = e := by
  induction es generalizing tbl with
  | nil => simp [aggTable]
  | cons r es ih =>
    simp only [aggTable, List.foldl_cons] at ih ⊢
    rw [ih, tblStep, mem_keys_set]
    simp only [List.mem_cons, exists_eq_or_imp]
    constructor
    · rintro ((h | h) | h)
      · exact Or.inr (Or.inl h.symm)
      · exact Or.inl h
      · exact Or.inr (Or.inr h)
    · rintro (h | h | h)
      · exact Or.inl (Or.inr h)
      · exact Or.inl (Or.inl h.symm)
      · exact Or.inr h

/-- weight of `e` in a table, `d` if absent -/
def wIn (tbl : List (Edge × (Int × Meta))) (e : Edge) (d : Int) : Int := ((get? tbl e).map (·.1)).getD d

theorem wIn_tblStep_weighted (tbl : List (Edge × (Int × Meta))) (e e' : Edge) (w : Int) (md : Meta) :
    wIn (tblStep true tbl e w md) e' 0 = wIn tbl e' 0 + (if e = e' then w else 0) := by
  unfold wIn tblStep
  rw [get?_set]
  by_cases h : e = e'
  · subst h
    cases hg : get? tbl e with
    | none => simp
    | some p => obtain ⟨w0, md0⟩ := p; simp
  · simp [h]

theorem aggTable_weight_weighted (es : List (Key × (Int × Meta))) (tbl : List (Edge × (Int × Meta))) (e : Edge) :
    wIn (aggTable true es tbl) e 0 = wIn tbl e 0 + sumFor es e := by
  induction es generalizing tbl with
  | nil => simp [aggTable, sumFor]
  | cons r es ih =>
    simp only [aggTable, List.foldl_cons] at ih ⊢
    rw [ih, wIn_tblStep_weighted, sumFor_cons]
    omega

theorem wIn_tblStep_unweighted (tbl : List (Edge × (Int × Meta))) (e e' : Edge) (w : Int) (md : Meta) :
    wIn (tblStep false tbl e w md) e' one = wIn tbl e' one := by
  unfold wIn tblStep
  rw [get?_set]
  by_cases h : e = e'
  · subst h
    cases hg : get? tbl e with
    | none => simp
    | some p => obtain ⟨w0, md0⟩ := p; simp
  · simp [h]

theorem aggTable_weight_unweighted (es : List (Key × (Int × Meta))) (tbl : List (Edge × (Int × Meta))) (e : Edge) :
    wIn (aggTable false es tbl) e one = wIn tbl e one := by
  induction es generalizing tbl with
  | nil => rfl
  | cons r es ih =>
    simp only [aggTable, List.foldl_cons] at ih ⊢
    rw [ih, wIn_tblStep_unweighted]

/-! ## overlap -/

theorem sum_update (L : List Layer) (hL : L.Nodup) (l0 : Layer) (hl : l0 ∈ L) (g : Layer → Int) (a : Int) (hg : g l0 = 0) :
    (L.map (fun l => if l = l0 then a else g l)).sum = a + (L.map g).sum := by
  induction L with
  | nil => simp at hl
  | cons x xs ih =>
    have hnd := List.nodup_cons.mp hL
    simp only [List.map_cons, List.sum_cons]
    by_cases hx : x = l0
    · subst hx
      have : xs.map (fun l => if l = x then a else g l) = xs.map g := by
        apply List.map_congr_left
        intro l hl'
        have : l ≠ x := by intro he; subst he; exact hnd.1 hl'
        simp [this]
      rw [this]; simp [hg]
    · have hl' : l0 ∈ xs := by
        rcases List.mem_cons.mp hl with h | h
        · exact absurd h.symm hx
        · exact h
      rw [ih hnd.2 hl']; simp [hx]; omega

theorem overlap_sum (E : List (Key × (Int × Meta))) (L : List Layer) (e : Edge) (hE : (keys E).Nodup) (hL : L.Nodup)
    (hreg : ∀ r ∈ E, r.1.1 = e → r.1.2 ∈ L) :
    (L.map (fun l => ((get? E (e, l)).map (·.1)).getD 0)).sum = sumFor E e := by
  induction E with
  | nil =>
    simp only [sumFor, get?, Option.map_none, Option.getD_none, List.filter_nil, List.map_nil, List.sum_nil]
    clear hL hreg
    induction L with
    | nil => rfl
    | cons x xs ih => simp [ih]
  | cons r E ih =>
    obtain ⟨⟨e0, l0⟩, w0, md0⟩ := r
    simp only [keys, List.map_cons, List.nodup_cons, List.mem_map] at hE
    have ih' := ih (by simpa [keys] using hE.2) (fun r hr => hreg r (List.mem_cons_of_mem _ hr))
    rw [sumFor_cons]
    by_cases he : e0 = e
    · subst he
      have hl0 : l0 ∈ L := hreg _ List.mem_cons_self rfl
      have hnone : get? E (e0, l0) = none := by
        rw [get?_eq_none_iff]; intro hm
        obtain ⟨p, hp, hpk⟩ := List.mem_map.mp hm
        exact hE.1 ⟨p, hp, hpk⟩
      have : (fun l => ((get? (((e0, l0), w0, md0) :: E) (e0, l)).map (·.1)).getD 0) =
          (fun l => if l = l0 then w0 else ((get? E (e0, l)).map (·.1)).getD 0) := by
        funext l
        simp only [get?]
        by_cases hl : l = l0
        · subst hl; simp
        · have : ¬ ((e0, l0) = (e0, l)) := by intro h; exact hl (Prod.mk.inj h).2.symm
          simp [this, hl]
      rw [this, sum_update L hL l0 hl0 _ w0 (by simp [hnone]), ih']
      simp
    · have : (fun l => ((get? (((e0, l0), w0, md0) :: E) (e, l)).map (·.1)).getD 0) =
          (fun l => ((get? E (e, l)).map (·.1)).getD 0) := by
        funext l
        have : ¬ ((e0, l0) = (e, l)) := by intro h; exact he (Prod.mk.inj h).1
        simp [get?, this]
      rw [this, ih']
      simp [he]

theorem overlap_eq (s : Store) (raw : List Node) (h : Inv s) : overlap s raw = sumFor (abs s).edges (canon raw) := by
  unfold overlap
  have : (fun l => (getWeight s raw l).getD 0) = (fun l => ((get? (abs s).edges (canon raw, l)).map (·.1)).getD 0) := by
    funext l; rw [getWeight_abs s raw l h]; rfl
  rw [this]
  apply overlap_sum
  · rw [abs_edges, keys_mapVal]; exact h.id.el_nodup
  · exact h.id.layers_nodup
  · intro r hr _
    obtain ⟨p, hp, rfl⟩ := List.mem_map.mp (by rw [abs_edges] at hr; exact hr)
    exact h.id.reg _ _ (h.id.rev_of_edge _ _ (get?_of_mem _ _ _ h.id.el_nodup hp))

/-- the per-layer weights, read through `get_weight` on the concrete store -/
theorem sumFor_concrete (s : Store) (e : Edge) (h : Inv s) :
    sumFor (abs s).edges e = ((( records s).filter (fun k => k.1 = e)).map (fun k => (getWeight s k.1 k.2).getD 0)).sum := by
  have hknd : (keys (abs s).edges).Nodup := by rw [abs_edges, keys_mapVal]; exact h.id.el_nodup
  have hw : ∀ r ∈ (abs s).edges, (getWeight s r.1.1 r.1.2).getD 0 = r.2.1 := by
    intro r hr
    have hget := get?_of_mem _ _ _ hknd hr
    obtain ⟨p, hp, rfl⟩ := List.mem_map.mp (by rw [abs_edges] at hr; exact hr)
    have hrev := h.id.rev_of_edge _ _ (get?_of_mem _ _ _ h.id.el_nodup hp)
    have hc : canon p.1.1 = p.1.1 := (h.id.key_sorted _ _ hrev).canon
    rw [getWeight_abs s _ _ h]; unfold Spec.getWeight; simp only [hc]; rw [hget]; rfl
  rw [records_abs]
  unfold sumFor Spec.records keys
  rw [List.filter_map, List.map_map]
  congr 1
  apply List.map_congr_left
  intro r hr
  exact (hw r (List.mem_filter.mp hr).1).symm

/-! ## registry -/

theorem registry_covers (s : Store) (h : Inv s) : ∀ k ∈ records s, k.2 ∈ s.layers := by
  intro k hk
  obtain ⟨p, hp, rfl⟩ := List.mem_map.mp hk
  exact h.id.reg _ _ (h.id.rev_of_edge _ _ (get?_of_mem _ _ _ h.id.el_nodup hp))

end C04
