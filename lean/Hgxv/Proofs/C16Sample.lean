import Hgxv.Proofs.C16Chain
import Hgxv.Proofs.C16Match
import Hgxv.Proofs.C16Output
/-! Helper lemmas for C16, part 4: whole runs of `sample`.  Core Lean only. -/
namespace C16

theorem degOf_pos_iff (n : Nat) (cfg : Config) : 0 < degOf n cfg ↔ ∃ e ∈ cfg, n ∈ e := by
  unfold degOf
  induction cfg with
  | nil => simp
  | cons e es ih =>
    simp only [List.map_cons, List.sum_cons, List.mem_cons, exists_eq_or_imp]
    rw [← ih, ← List.count_pos_iff]
    omega

theorem mem_sizesOfSeq {dimSeq : List (Nat × Nat)} {s : Nat} (h : s ∈ sizesOfSeq dimSeq) :
    2 ≤ s ∧ ∃ q ∈ dimSeq, q.1 = s := by
  unfold sizesOfSeq at h
  obtain ⟨q, hq, hs⟩ := List.mem_flatMap.mp h
  unfold sizesOf at hs
  split at hs
  · have := (List.mem_replicate.mp hs).2
    exact ⟨by omega, q, hq, this.symm⟩
  · simp at hs

/-! ## outputs, one per yield -/

theorem outputsOf_spec {ys : List Config} {ws : List (List Nat)} {labels : Option (List Nat)}
    {outs : List (List (Hye × Nat))} (h : outputsOf ys ws labels = some outs) :
    outs.length = ys.length ∧ ∀ k (h1 : k < ys.length) (h2 : k < outs.length),
      ∃ w, ws[k]? = some w ∧ outputStage ys[k] w labels = some outs[k] := by
  induction ys generalizing ws outs with
  | nil => simp only [outputsOf, Option.some.injEq] at h; subst h; simp
  | cons y ys ih =>
    cases ws with
    | nil => simp [outputsOf] at h
    | cons w ws =>
      simp only [outputsOf] at h
      cases ho : outputStage y w labels with
      | none => simp [ho] at h
      | some o =>
        simp only [ho, Option.bind_some] at h
        cases hr : outputsOf ys ws labels with
        | none => simp [hr] at h
        | some r =>
          simp only [hr, Option.map_some, Option.some.injEq] at h
          subst h
          obtain ⟨i1, i2⟩ := ih hr
          refine ⟨by simp [i1], ?_⟩
          intro k h1 h2
          cases k with
          | zero => exact ⟨w, by simp, by simpa using ho⟩
          | succ k =>
            obtain ⟨w', e1, e2⟩ := i2 k (by simpa using h1) (by simpa using h2)
            exact ⟨w', by simpa using e1, by simpa using e2⟩

theorem sampleFromConfig_spec {cfg fixed : Config} {labels : Option (List Nat)} {t : OwnTape}
    {outs : List (List (Hye × Nat))} (h : sampleFromConfig cfg fixed labels t = some outs) :
    ∃ ys, mcmcRoutine cfg fixed t.burn t.thins = some ys ∧ outs.length = ys.length ∧
      ∀ k (h1 : k < ys.length) (h2 : k < outs.length),
        ∃ q, t.quantiles[k]? = some q ∧ outputStage ys[k] (truncWeights q) labels = some outs[k] := by
  unfold sampleFromConfig at h
  cases hm : mcmcRoutine cfg fixed t.burn t.thins with
  | none => simp [hm] at h
  | some ys =>
    simp only [hm, Option.bind_some] at h
    obtain ⟨a, b⟩ := outputsOf_spec h
    refine ⟨ys, rfl, a, ?_⟩
    intro k h1 h2
    obtain ⟨w, hw, ho⟩ := b k h1 h2
    rw [List.getElem?_map] at hw
    cases hq : t.quantiles[k]? with
    | none => simp [hq] at hw
    | some q =>
      simp only [hq, Option.map_some, Option.some.injEq] at hw
      exact ⟨q, rfl, hw ▸ ho⟩

/-- a truncated-Poisson weight is positive whatever quantile scipy delivers -/
theorem truncWeight_pos (q : Nat) : 0 < truncWeight q := by unfold truncWeight; omega

theorem truncWeights_pos (qs : List Nat) : ∀ w ∈ truncWeights qs, 0 < w := by
  intro w hw
  obtain ⟨q, _, rfl⟩ := List.mem_map.mp hw
  exact truncWeight_pos q

/-! ## `mapping.transform` -/

theorem transform_spec {ls : List Nat} {e e' : Hye} (h : transform ls e = some e') :
    e = e'.map (lab ls) ∧ ∀ i ∈ e', i < ls.length := by
  unfold transform at h
  induction e generalizing e' with
  | nil => simp at h; subst h; simp
  | cons x xs ih =>
    rw [List.mapM_cons] at h
    by_cases hx : ls.idxOf x < ls.length
    · cases hr : xs.mapM (fun x => let i := ls.idxOf x; if i < ls.length then some i else none) with
      | none => simp [hx, hr] at h
      | some r =>
        simp [hx, hr] at h
        obtain ⟨i1, i2⟩ := ih hr
        subst h
        refine ⟨?_, ?_⟩
        · simp only [List.map_cons, ← i1, List.cons.injEq, and_true]
          simp [lab, List.getElem?_eq_getElem hx, List.getElem_idxOf hx]
        · intro i hi
          rcases List.mem_cons.mp hi with hi | hi
          · subst hi; exact hx
          · exact i2 i hi
    · simp [hx] at h

theorem transformAll_spec {ls : List Nat} {edges cfg : Config} (h : edges.mapM (transform ls) = some cfg) :
    edges = cfg.map (List.map (lab ls)) ∧ ∀ e ∈ cfg, ∀ i ∈ e, i < ls.length := by
  induction edges generalizing cfg with
  | nil => simp at h; subst h; simp
  | cons x xs ih =>
    rw [List.mapM_cons] at h
    cases hx : transform ls x with
    | none => simp [hx] at h
    | some x' =>
      cases hr : xs.mapM (transform ls) with
      | none => simp [hx, hr] at h
      | some r =>
        simp [hx, hr] at h
        obtain ⟨i1, i2⟩ := ih hr
        obtain ⟨j1, j2⟩ := transform_spec hx
        subst h
        refine ⟨by simp [← i1, ← j1], ?_⟩
        intro e he
        rcases List.mem_cons.mp he with he | he
        · subst he; exact j2
        · exact i2 e he

theorem nodup_of_map_nodup {f : Nat → Nat} {l : List Nat} (h : (l.map f).Nodup) : l.Nodup := by
  rw [List.Nodup, List.pairwise_map] at h
  exact h.imp (fun hab e => hab (by rw [e]))

/-- degrees and sizes of the label-coded hyperedges are those of the index-coded configuration -/
theorem degOf_map_lab {ls : List Nat} (hn : ls.Nodup) {cfg : Config}
    (hr : ∀ e ∈ cfg, ∀ i ∈ e, i < ls.length) {i : Nat} (hi : i < ls.length) :
    degOf (lab ls i) (cfg.map (List.map (lab ls))) = degOf i cfg := by
  unfold degOf
  rw [List.map_map]
  congr 1
  apply List.map_congr_left
  intro e he
  exact count_map_lab hn (hr e he) hi

theorem sizeCount_map_lab (ls : List Nat) (cfg : Config) (s : Nat) :
    sizeCount s (cfg.map (List.map (lab ls))) = sizeCount s cfg := by
  unfold sizeCount
  rw [List.map_map]
  congr 1
  apply List.map_congr_left
  intro e _
  simp

end C16

namespace C16

/-! ## the generated sequence is a stream: asking for fewer samples gives a prefix -/

theorem yieldsFrom_take {cfg : Config} {thins : List (List StepDraw)} {ys : List Config} (k : Nat)
    (h : yieldsFrom cfg thins = some ys) : yieldsFrom cfg (thins.take k) = some (ys.take k) := by
  induction thins generalizing cfg ys k with
  | nil => simp only [yieldsFrom, Option.some.injEq] at h; subst h; simp [yieldsFrom]
  | cons ds rest ih =>
    cases k with
    | zero => simp [yieldsFrom]
    | succ k =>
      simp only [yieldsFrom] at h
      cases hs : mcmcSteps cfg ds with
      | none => simp [hs] at h
      | some c =>
        simp only [hs, Option.bind_some] at h
        cases hr : yieldsFrom c rest with
        | none => simp [hr] at h
        | some r =>
          simp only [hr, Option.map_some, Option.some.injEq] at h
          subst h
          simp [yieldsFrom, hs, ih k hr]

theorem mcmcRoutine_take {cfg fixed : Config} {burn : List StepDraw} {thins : List (List StepDraw)}
    {ys : List Config} (k : Nat) (h : mcmcRoutine cfg fixed burn thins = some ys) :
    mcmcRoutine cfg fixed burn (thins.take k) = some (ys.take k) := by
  unfold mcmcRoutine at h ⊢
  cases hb : mcmcSteps cfg burn with
  | none => simp [hb] at h
  | some c0 =>
    simp only [hb, Option.bind_some] at h ⊢
    cases hy : yieldsFrom c0 thins with
    | none => simp [hy] at h
    | some zs =>
      simp only [hy, Option.map_some, Option.some.injEq] at h
      subst h
      simp [yieldsFrom_take k hy, List.map_take]

theorem outputsOf_take {ys : List Config} {ws : List (List Nat)} {labels : Option (List Nat)}
    {outs : List (List (Hye × Nat))} (k : Nat) (h : outputsOf ys ws labels = some outs) :
    outputsOf (ys.take k) ws labels = some (outs.take k) := by
  induction ys generalizing ws outs k with
  | nil => simp only [outputsOf, Option.some.injEq] at h; subst h; simp [outputsOf]
  | cons y ys ih =>
    cases k with
    | zero => simp [outputsOf]
    | succ k =>
      cases ws with
      | nil => simp [outputsOf] at h
      | cons w ws =>
        simp only [outputsOf] at h
        cases ho : outputStage y w labels with
        | none => simp [ho] at h
        | some o =>
          simp only [ho, Option.bind_some] at h
          cases hr : outputsOf ys ws labels with
          | none => simp [hr] at h
          | some r =>
            simp only [hr, Option.map_some, Option.some.injEq] at h
            subst h
            simp [outputsOf, ho, ih k hr]

/-! ## several calls on one sampler -/

theorem flagAfter_reset (old : Option Bool) (ok : Bool) : flagAfter true old ok = some ok := by
  cases ok <;> rfl

/-- after the repair of D48 a call through `_sampling_from_sequences` delivers what `sampleFromSeqs` delivers and
reports that call's own flag, whatever the sampler's state was -/
theorem seqCall_snd (s : Sampler) (degSeq : List Nat) (dimSeq : List (Nat × Nat)) (fd fm : Bool) (fixed : Config)
    (t : OwnTape) :
    (seqCall true s degSeq dimSeq fd fm fixed t).2 =
      (sampleFromSeqs degSeq dimSeq fd fm fixed t).map (fun p => ⟨some p.1, p.2⟩) := by
  unfold seqCall sampleFromSeqs
  cases hm : matchSequences degSeq dimSeq fd fm t.picks with
  | none => simp
  | some st =>
    simp only [Option.bind_some, flagAfter_reset]
    cases sampleFromConfig st.cfg fixed none t <;> simp

theorem callStep_snd (s : Sampler) (c : Call) :
    (callStep true s c).2 =
      match c.args with
      | .hyg labels edges => (sampleFromHyg labels edges c.own).map (fun o => ⟨none, o⟩)
      | .seqs d m => (sampleFromSeqs d m true true [] c.own).map (fun p => ⟨some p.1, p.2⟩)
      | .model =>
        (sampleFromSeqs c.inner.degSeq c.inner.dimSeq false false c.inner.dyads c.own).map
          (fun p => ⟨some p.1, p.2⟩) := by
  unfold callStep
  cases c.args with
  | hyg labels edges => rfl
  | seqs d m => exact seqCall_snd s d m true true [] c.own
  | model => exact seqCall_snd s _ _ false false _ c.own

theorem callStep_local (s s' : Sampler) (c : Call) : (callStep true s c).2 = (callStep true s' c).2 := by
  rw [callStep_snd, callStep_snd]

theorem runSession_eq_map (s : Sampler) (cs : List Call) : runSession true s cs = cs.map freshCall := by
  induction cs generalizing s with
  | nil => rfl
  | cons c cs ih =>
    simp only [runSession, List.map_cons, ih]
    congr 1
    exact callStep_local s ⟨none⟩ c

end C16
