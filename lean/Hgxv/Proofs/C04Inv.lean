import Hgxv.Proofs.C04Store
/-! C04 - the representation invariant of the concrete store and its preservation by every operation.
Three independent parts: `IdInv` (tables indexed by record id), `NM` (`_adj` and `_node_metadata` have the same
keys), `AdjInv` (adjacency lists against the reverse table). Core Lean only. -/
namespace C04
open AL

structure IdInv (s : Store) : Prop where
  el_nodup : (keys s.edgeList).Nodup
  rev_of_edge : ∀ k id, get? s.edgeList k = some id → get? s.rev id = some k
  edge_of_rev : ∀ k id, get? s.rev id = some k → get? s.edgeList k = some id
  id_lt : ∀ id k, get? s.rev id = some k → id < s.nextId
  w_some : ∀ id, (get? s.weights id).isSome ↔ (get? s.rev id).isSome
  em_some : ∀ id, (get? s.emeta id).isSome ↔ (get? s.rev id).isSome
  em_nodup : (keys s.emeta).Nodup
  key_sorted : ∀ id k, get? s.rev id = some k → SSorted k.1
  unw : s.weighted = false → ∀ id w, get? s.weights id = some w → w = one
  reg : ∀ id k, get? s.rev id = some k → k.2 ∈ s.layers
  layers_nodup : s.layers.Nodup
  el_sorted : (s.edgeList.map (·.2)).Pairwise (· < ·)

structure NM (s : Store) : Prop where
  adj_nm : ∀ n, (get? s.adj n).isSome ↔ (get? s.nmeta n).isSome
  nm_nodup : (keys s.nmeta).Nodup

structure AdjInv (s : Store) : Prop where
  adj_sorted : ∀ n ids, get? s.adj n = some ids → ids.Pairwise (· < ·)
  adj_iff : ∀ n ids, get? s.adj n = some ids → ∀ id, id ∈ ids ↔ ∃ k, get? s.rev id = some k ∧ n ∈ k.1
  nodes_in : ∀ id k, get? s.rev id = some k → ∀ n ∈ k.1, (get? s.adj n).isSome

structure Inv (s : Store) : Prop where
  id : IdInv s
  nm : NM s
  adj : AdjInv s

theorem IdInv.of_eq {s s' : Store} (h : IdInv s) (h1 : s'.edgeList = s.edgeList) (h2 : s'.rev = s.rev)
    (h3 : s'.weights = s.weights) (h4 : s'.emeta = s.emeta) (h5 : s'.nextId = s.nextId)
    (h6 : s'.weighted = s.weighted) (h7 : s'.layers = s.layers) : IdInv s' := by
  obtain ⟨a1, a2, a3, a4, a5, a6, a7, a8, a9, a10, a11, a12⟩ := h
  constructor <;> simp only [h1, h2, h3, h4, h5, h6, h7] <;> assumption

theorem AdjInv.of_eq {s s' : Store} (h : AdjInv s) (h1 : s'.rev = s.rev) (h2 : ∀ n, get? s'.adj n = get? s.adj n) :
    AdjInv s' := by
  obtain ⟨a1, a2, a3⟩ := h
  constructor <;> simp only [h1, h2] <;> assumption

theorem NM.of_eq {s s' : Store} (h : NM s) (h1 : ∀ n, (get? s'.adj n).isSome = (get? s.adj n).isSome) (h2 : s'.nmeta = s.nmeta) :
    NM s' := by
  obtain ⟨a1, a2⟩ := h
  constructor <;> simp only [h1, h2] <;> assumption

theorem inv_init (w : Bool) (hm : HMeta) : Inv (init w hm) := by
  refine ⟨?_, ?_, ?_⟩ <;> constructor <;> simp [init, keys]

/-! ## nodes -/

theorem addNode_NM (s : Store) (n : Node) (md : Option Meta) (h : NM s) : NM (addNode s n md) := by
  constructor
  · intro m
    rw [addNode_nmeta_some s n md m (h.adj_nm n), addNode_adj]
    have := h.adj_nm m
    grind
  · rw [addNode_nmeta s n md (h.adj_nm n)]
    have := h.nm_nodup
    split
    · exact keys_nodup_set _ _ _ this
    · exact keys_nodup_set _ _ _ this
    · exact this

theorem addNode_AdjInv (s : Store) (n : Node) (md : Option Meta) (h : AdjInv s) : AdjInv (addNode s n md) := by
  have hr := (addNode_fields s n md).2.1
  constructor
  · intro m ids
    rw [addNode_adj]
    split
    · rename_i hm; subst hm
      cases hg : get? s.adj m with
      | none => intro h1; simp at h1; subst h1; simp
      | some ids0 => intro h1; simp at h1; subst h1; exact h.adj_sorted m _ hg
    · exact h.adj_sorted m ids
  · intro m ids
    rw [addNode_adj, hr]
    split
    · rename_i hm; subst hm
      cases hg : get? s.adj m with
      | none =>
        intro h1; simp at h1; subst h1
        intro id; simp
        intro e l hk hmem
        have := h.nodes_in id (e, l) hk m hmem
        simp [hg] at this
      | some ids0 => intro h1; simp at h1; subst h1; exact h.adj_iff m _ hg
    · exact h.adj_iff m ids
  · intro id k
    rw [hr]
    intro hk m hm
    rw [addNode_adj]
    have := h.nodes_in id k hk m hm
    grind

theorem addNode_inv (s : Store) (n : Node) (md : Option Meta) (h : Inv s) : Inv (addNode s n md) := by
  obtain ⟨f1, f2, f3, f4, f5, f6, _, f8⟩ := addNode_fields s n md
  exact ⟨h.id.of_eq f1 f2 f3 f4 f5 f6 f8, addNode_NM s n md h.nm, addNode_AdjInv s n md h.adj⟩

theorem foldl_inv {α : Type} (f : Store → α → Store) (hf : ∀ s a, Inv s → Inv (f s a)) (l : List α) (s : Store)
    (h : Inv s) : Inv (l.foldl f s) := by
  induction l generalizing s with
  | nil => exact h
  | cons a l ih => exact ih _ (hf s a h)

theorem addNodes_inv (s : Store) (ns : List Node) (mds : Option (List (Node × Meta))) (h : Inv s) :
    Inv (addNodes s ns mds).1 := by
  unfold addNodes
  split
  · exact foldl_inv _ (fun s n hs => addNode_inv s n none hs) ns s h
  · split
    · exact foldl_inv _ (fun s n hs => addNode_inv s n _ hs) ns s h
    · exact h

theorem touchNodes_inv (s : Store) (ns : List Node) (h : Inv s) : Inv (touchNodes s ns) := by
  induction ns generalizing s with
  | nil => exact h
  | cons n ns ih => exact ih _ (addNode_inv s n none h)

theorem touchNodes_NM (s : Store) (ns : List Node) (h : NM s) : NM (touchNodes s ns) := by
  induction ns generalizing s with
  | nil => exact h
  | cons n ns ih => exact ih _ (addNode_NM s n none h)

/-! ## insertion -/

theorem withLayer_inv (s : Store) (l : Layer) (h : Inv s) : Inv { s with layers := addLayer s.layers l } := by
  refine ⟨?_, h.nm.of_eq (fun _ => rfl) rfl, h.adj.of_eq rfl (fun _ => rfl)⟩
  obtain ⟨a1, a2, a3, a4, a5, a6, a7, a8, a9, a10, a11, a12⟩ := h.id
  refine ⟨a1, a2, a3, a4, a5, a6, a7, a8, a9, ?_, addLayer_nodup _ _ a11, a12⟩
  intro id k hk
  exact (mem_addLayer _ _ _).mpr (Or.inr (a10 id k hk))

theorem bumpRecord_inv (s : Store) (id : Nat) (w : Int) (md : Meta) (h : Inv s) (hid : (get? s.rev id).isSome) :
    Inv (bumpRecord s id w md) := by
  refine ⟨?_, h.nm.of_eq (fun _ => rfl) rfl, h.adj.of_eq rfl (fun _ => rfl)⟩
  obtain ⟨a1, a2, a3, a4, a5, a6, a7, a8, a9, a10, a11, a12⟩ := h.id
  refine ⟨a1, a2, a3, a4, ?_, ?_, ?_, a8, ?_, a10, a11, a12⟩
  · intro id'
    simp only [bumpRecord]
    split
    · rw [get?_set]; split
      · rename_i hh; subst hh; simp [hid]
      · exact a5 id'
    · exact a5 id'
  · intro id'
    simp only [bumpRecord]
    rw [get?_set]; split
    · rename_i hh; subst hh; simp [hid]
    · exact a6 id'
  · exact keys_nodup_set _ _ _ a7
  · intro hw
    simp only [bumpRecord] at hw ⊢
    simp only [hw]
    exact a9 hw

/-- facts about the fresh id -/
theorem IdInv.fresh {s : Store} (h : IdInv s) : get? s.rev s.nextId = none := by
  cases hr : get? s.rev s.nextId with
  | none => rfl
  | some k => exact absurd (h.id_lt _ _ hr) (Nat.lt_irrefl _)

theorem IdInv.el_lt {s : Store} (h : IdInv s) (p : Key × Nat) (hp : p ∈ s.edgeList) : p.2 < s.nextId := by
  have := get?_of_mem s.edgeList p.1 p.2 h.el_nodup hp
  exact h.id_lt _ _ (h.rev_of_edge _ _ this)

theorem allocRecord_IdInv (s : Store) (k : Key) (w : Int) (md : Meta) (h : IdInv s)
    (hk : get? s.edgeList k = none) (hs : SSorted k.1) (hl : k.2 ∈ s.layers) (hw : s.weighted = false → w = one) :
    IdInv (allocRecord s k w md) := by
  have hfresh := h.fresh
  obtain ⟨a1, a2, a3, a4, a5, a6, a7, a8, a9, a10, a11, a12⟩ := h
  constructor
  · exact keys_nodup_set _ _ _ a1
  · intro k' id'
    simp only [allocRecord, get?_set]
    intro hh
    by_cases he : k = k'
    · subst he; simp at hh; subst hh; simp
    · simp [he] at hh
      have hr := a2 k' id' hh
      have hlt := a4 _ _ hr
      have : s.nextId ≠ id' := by omega
      simp [this]; exact hr
  · intro k' id'
    simp only [allocRecord, get?_set]
    intro hh
    by_cases hid : s.nextId = id'
    · subst hid; simp at hh; subst hh; simp
    · simp [hid] at hh
      have h2 := a3 k' id' hh
      have : k ≠ k' := by intro heq; rw [heq] at hk; rw [hk] at h2; cases h2
      simp [this, h2]
  · intro id' k'
    simp only [allocRecord, get?_set]
    intro hh
    by_cases hid : s.nextId = id'
    · omega
    · simp [hid] at hh; have := a4 _ _ hh; omega
  · intro id'
    simp only [allocRecord, get?_set]
    split
    · simp
    · exact a5 id'
  · intro id'
    simp only [allocRecord, get?_set]
    split
    · simp
    · exact a6 id'
  · exact keys_nodup_set _ _ _ a7
  · intro id' k'
    simp only [allocRecord, get?_set]
    split
    · intro hh; cases hh; exact hs
    · exact a8 id' k'
  · intro hwt id' w'
    simp only [allocRecord, get?_set]
    split
    · intro hh; cases hh; exact hw hwt
    · exact a9 hwt id' w'
  · intro id' k'
    simp only [allocRecord, get?_set]
    split
    · intro hh; cases hh; exact hl
    · exact a10 id' k'
  · exact a11
  · simp only [allocRecord]
    rw [set_eq_append _ _ _ hk]
    simp only [List.map_append, List.map_cons, List.map_nil]
    refine List.pairwise_append.mpr ⟨a12, by simp, ?_⟩
    intro a ha b hb
    simp at hb; subst hb
    obtain ⟨p, hp, rfl⟩ := List.mem_map.mp ha
    have := get?_of_mem s.edgeList p.1 p.2 a1 hp
    exact a4 _ _ (a2 _ _ this)

theorem addEdgeNew_adj (s : Store) (k : Key) (w : Int) (md : Meta) (hs : k.1.Nodup) (m : Node) :
    get? (addEdgeNew s k w md).adj m =
      if m ∈ k.1 then some (((get? s.adj m).getD []) ++ [s.nextId]) else get? s.adj m := by
  simp only [addEdgeNew, linkAll]
  rw [linkNodes_adj _ _ _ hs, touchNodes_adj]
  simp only [allocRecord]
  grind

theorem addEdgeNew_fields (s : Store) (k : Key) (w : Int) (md : Meta) :
    (addEdgeNew s k w md).edgeList = (allocRecord s k w md).edgeList ∧
    (addEdgeNew s k w md).rev = (allocRecord s k w md).rev ∧
    (addEdgeNew s k w md).weights = (allocRecord s k w md).weights ∧
    (addEdgeNew s k w md).emeta = (allocRecord s k w md).emeta ∧
    (addEdgeNew s k w md).nextId = (allocRecord s k w md).nextId ∧
    (addEdgeNew s k w md).weighted = (allocRecord s k w md).weighted ∧
    (addEdgeNew s k w md).hmeta = (allocRecord s k w md).hmeta ∧
    (addEdgeNew s k w md).layers = (allocRecord s k w md).layers ∧
    (addEdgeNew s k w md).nmeta = (touchNodes (allocRecord s k w md) k.1).nmeta := by
  simp only [addEdgeNew, linkAll]
  have := touchNodes_fields (allocRecord s k w md) k.1
  grind

theorem addEdgeNew_inv (s : Store) (k : Key) (w : Int) (md : Meta) (h : Inv s)
    (hk : get? s.edgeList k = none) (hs : SSorted k.1) (hl : k.2 ∈ s.layers) (hw : s.weighted = false → w = one) :
    Inv (addEdgeNew s k w md) := by
  have hfresh := h.id.fresh
  obtain ⟨f1, f2, f3, f4, f5, f6, f7, f8, f9⟩ := addEdgeNew_fields s k w md
  have hadj := addEdgeNew_adj s k w md hs.nodup
  have hrev : (addEdgeNew s k w md).rev = AL.set s.rev s.nextId k := f2
  refine ⟨(allocRecord_IdInv s k w md h.id hk hs hl hw).of_eq f1 f2 f3 f4 f5 f6 f8, ?_, ?_⟩
  · have hnm : NM (touchNodes (allocRecord s k w md) k.1) :=
      touchNodes_NM _ _ (h.nm.of_eq (fun _ => rfl) rfl)
    constructor
    · intro m
      rw [f9, ← hnm.adj_nm m, hadj, touchNodes_adj]
      simp only [allocRecord]
      grind
    · rw [f9]; exact hnm.nm_nodup
  · constructor
    · intro n ids
      rw [hadj]
      split
      · intro hh; injection hh with hh; subst hh
        cases ha : get? s.adj n with
        | none => simp
        | some ids0 =>
          simp only [Option.getD_some]
          refine List.pairwise_append.mpr ⟨h.adj.adj_sorted _ _ ha, by simp, ?_⟩
          intro a ha1 b hb; simp at hb; subst hb
          obtain ⟨k', hk', _⟩ := (h.adj.adj_iff n ids0 ha a).mp ha1
          exact h.id.id_lt _ _ hk'
      · exact h.adj.adj_sorted n ids
    · intro n ids
      rw [hadj, hrev]
      simp only [get?_set]
      split
      · rename_i hmem
        intro hh; injection hh with hh; subst hh
        intro id'
        by_cases hid : s.nextId = id'
        · subst hid; simp [hmem]
        · simp only [hid, if_false]
          cases ha : get? s.adj n with
          | none =>
            simp [Ne.symm hid]
            intro e l he hne
            have := h.adj.nodes_in _ _ he n hne
            simp [ha] at this
          | some ids0 => simp [Ne.symm hid]; simpa using h.adj.adj_iff n ids0 ha id'
      · rename_i hmem
        intro hh id'
        by_cases hid : s.nextId = id'
        · subst hid; simp [hmem]
          intro hin
          obtain ⟨k', hk', _⟩ := (h.adj.adj_iff n ids hh _).mp hin
          rw [hfresh] at hk'; cases hk'
        · simp only [hid, if_false]; exact h.adj.adj_iff n ids hh id'
    · intro id' k'
      rw [hrev]
      simp only [get?_set]
      intro hh n hn
      rw [hadj]
      by_cases hid : s.nextId = id'
      · subst hid; simp at hh; subst hh; simp [hn]
      · simp [hid] at hh
        split
        · simp
        · exact h.adj.nodes_in _ _ hh n hn

theorem addEdgeOld_inv (s : Store) (k : Key) (id : Nat) (w : Int) (md : Meta) (h : Inv s)
    (hid : (get? s.rev id).isSome) : Inv (addEdgeOld s k id w md) := by
  simp only [addEdgeOld]
  exact touchNodes_inv _ _ (bumpRecord_inv s id w md h hid)

theorem addEdgeCore_inv (s : Store) (raw : List Node) (l : Layer) (w : Int) (md : Meta) (h : Inv s)
    (hraw : raw.Nodup) (hw : s.weighted = false → w = one) : Inv (addEdgeCore s raw l w md) := by
  have h0 := withLayer_inv s l h
  unfold addEdgeCore
  split
  · rename_i hk
    exact addEdgeNew_inv _ _ w md h0 hk (canon_ssorted hraw) ((mem_addLayer _ _ _).mpr (Or.inl rfl)) hw
  · rename_i id hk
    refine addEdgeOld_inv _ _ id w md h0 ?_
    have := h.id.rev_of_edge _ _ hk
    simp [this]

theorem addEdge_inv (s : Store) (raw : List Node) (l : Layer) (w : Option Int) (md : Option Meta) (h : Inv s)
    (hraw : raw.Nodup) : Inv (addEdge s raw l w md).1 := by
  unfold addEdge
  split
  · exact h
  · rename_i hc
    refine addEdgeCore_inv s raw l _ _ h hraw ?_
    intro hwt
    simp [hwt] at hc
    exact hc

theorem weighted_true_inv (s : Store) (h : Inv s) : Inv { s with weighted := true } := by
  refine ⟨?_, h.nm.of_eq (fun _ => rfl) rfl, h.adj.of_eq rfl (fun _ => rfl)⟩
  obtain ⟨a1, a2, a3, a4, a5, a6, a7, a8, a9, a10, a11, a12⟩ := h.id
  exact ⟨a1, a2, a3, a4, a5, a6, a7, a8, by intro hw; simp at hw, a10, a11, a12⟩

theorem addEdgesLoop_inv (s : Store) (es : List (List Node × Layer)) (ws : List (Option Int)) (mds : List (Option Meta))
    (h : Inv s) (hes : ∀ p ∈ es, p.1.Nodup) : Inv (addEdgesLoop s es ws mds) := by
  induction es generalizing s ws mds with
  | nil => unfold addEdgesLoop; exact h
  | cons p es ih =>
    obtain ⟨raw, l⟩ := p
    cases ws with
    | nil => unfold addEdgesLoop; exact h
    | cons w ws =>
      cases mds with
      | nil => unfold addEdgesLoop; exact h
      | cons md mds =>
        unfold addEdgesLoop
        exact ih _ _ _ (addEdge_inv s raw l w md h (hes (raw, l) List.mem_cons_self))
          (fun p hp => hes p (List.mem_cons_of_mem _ hp))

theorem zip_fst_nodup (raws : List (List Node)) (ls : List Layer) (h : ∀ r ∈ raws, r.Nodup) :
    ∀ p ∈ raws.zip ls, p.1.Nodup := by
  intro p hp
  exact h p.1 (List.of_mem_zip hp).1

theorem addEdges_inv (s : Store) (raws : List (List Node)) (ls : List Layer) (ws : Option (List Int))
    (mds : Option (List Meta)) (h : Inv s) (hr : ∀ r ∈ raws, r.Nodup) : Inv (addEdges s raws ls ws mds).1 := by
  unfold addEdges
  simp only []
  split
  · exact h
  · split
    · exact h
    · split
      · split
        · exact h
        · split
          · exact h
          · exact addEdgesLoop_inv _ _ _ _ (weighted_true_inv s h) (zip_fst_nodup raws ls hr)
      · exact addEdgesLoop_inv _ _ _ _ h (zip_fst_nodup raws ls hr)

/-! ## removal -/

theorem removeKey_inv (s : Store) (k : Key) (id : Nat) (h : Inv s) (hk : get? s.edgeList k = some id) :
    Inv (removeKey s k id) := by
  have hrev := h.id.rev_of_edge _ _ hk
  have hnd : k.1.Nodup := (h.id.key_sorted _ _ hrev).nodup
  have hadj := unlinkNodes_adj s.adj id k.1 hnd
  refine ⟨?_, ?_, ?_⟩
  · obtain ⟨a1, a2, a3, a4, a5, a6, a7, a8, a9, a10, a11, a12⟩ := h.id
    constructor
    · exact keys_nodup_del _ _ a1
    · intro k' id'
      simp only [removeKey, get?_del]
      split
      · intro hh; cases hh
      · rename_i hne
        intro hh
        have hr := a2 k' id' hh
        have : id' ≠ id := by
          intro he; subst he; rw [hrev] at hr; cases hr; exact hne rfl
        simp [this, hr]
    · intro k' id'
      simp only [removeKey, get?_del]
      split
      · intro hh; cases hh
      · rename_i hne
        intro hh
        have he := a3 k' id' hh
        have : k' ≠ k := by
          intro heq; subst heq; rw [hk] at he; cases he; exact hne rfl
        simp [this, he]
    · intro id' k'
      simp only [removeKey, get?_del]
      split
      · intro hh; cases hh
      · exact a4 id' k'
    · intro id'
      simp only [removeKey, get?_del]
      split
      · simp
      · exact a5 id'
    · intro id'
      simp only [removeKey, get?_del]
      split
      · simp
      · exact a6 id'
    · exact keys_nodup_del _ _ a7
    · intro id' k'
      simp only [removeKey, get?_del]
      split
      · intro hh; cases hh
      · exact a8 id' k'
    · intro hw id' w'
      simp only [removeKey, get?_del]
      split
      · intro hh; cases hh
      · exact a9 hw id' w'
    · intro id' k'
      simp only [removeKey, get?_del]
      split
      · intro hh; cases hh
      · exact a10 id' k'
    · exact a11
    · simp only [removeKey, del]
      exact a12.sublist ((List.filter_sublist).map _)
  · constructor
    · intro m
      simp only [removeKey]
      rw [hadj, ← h.nm.adj_nm m]
      split <;> simp
    · exact h.nm.nm_nodup
  · constructor
    · intro m ids
      simp only [removeKey]
      rw [hadj]
      split
      · cases hg : get? s.adj m with
        | none => simp
        | some ids0 =>
          simp only [Option.map_some]
          intro hh; injection hh with hh; subst hh
          exact (h.adj.adj_sorted _ _ hg).sublist List.erase_sublist
      · exact h.adj.adj_sorted m ids
    · intro m ids
      simp only [removeKey]
      rw [hadj]
      split
      · rename_i hm
        cases hg : get? s.adj m with
        | none => simp
        | some ids0 =>
          simp only [Option.map_some]
          intro hh; injection hh with hh; subst hh
          intro id'
          have hnd0 : ids0.Nodup := (h.adj.adj_sorted _ _ hg).imp (fun hab => Nat.ne_of_lt hab)
          rw [hnd0.mem_erase_iff, h.adj.adj_iff m ids0 hg id']
          simp only [get?_del]
          grind
      · rename_i hm
        intro hg id'
        rw [h.adj.adj_iff m ids hg id']
        simp only [get?_del]
        constructor
        · rintro ⟨k', hk', hmem⟩
          refine ⟨k', ?_, hmem⟩
          have : id' ≠ id := by
            intro he; subst he; rw [hrev] at hk'; cases hk'; exact hm hmem
          simp [this, hk']
        · rintro ⟨k', hk', hmem⟩
          refine ⟨k', ?_, hmem⟩
          split at hk'
          · cases hk'
          · exact hk'
    · intro id' k'
      simp only [removeKey, get?_del]
      split
      · intro hh; cases hh
      · intro hh n hn
        rw [hadj]
        have := h.adj.nodes_in _ _ hh n hn
        split
        · cases hg : get? s.adj n with
          | none => simp [hg] at this
          | some x => simp
        · exact this

theorem removeEdge_inv (s : Store) (raw : List Node) (l : Layer) (h : Inv s) : Inv (removeEdge s raw l).1 := by
  unfold removeEdge
  split
  · exact h
  · rename_i id hk; exact removeKey_inv s _ id h hk

theorem dropRecord_inv (s : Store) (id : Nat) (h : Inv s) : Inv (dropRecord s id) := by
  unfold dropRecord
  split
  · exact h
  · exact removeEdge_inv s _ _ h

theorem shrinkRecord_inv (s : Store) (n : Node) (id : Nat) (h : Inv s) : Inv (shrinkRecord s n id) := by
  unfold shrinkRecord
  split
  · exact h
  · rename_i e l hr
    simp only []
    have hs := h.id.key_sorted _ _ hr
    split
    · exact removeEdge_inv s _ _ h
    · exact addEdge_inv _ _ _ _ _ (removeEdge_inv s _ _ h) (hs.filter _).nodup

/-! ## weights and metadata -/

theorem setWeight_inv (s : Store) (raw : List Node) (l : Layer) (w : Int) (h : Inv s) : Inv (setWeight s raw l w).1 := by
  unfold setWeight
  split
  · exact h
  · rename_i hc
    split
    · exact h
    · rename_i id hk
      have hrev := h.id.rev_of_edge _ _ hk
      refine ⟨?_, h.nm.of_eq (fun _ => rfl) rfl, h.adj.of_eq rfl (fun _ => rfl)⟩
      obtain ⟨a1, a2, a3, a4, a5, a6, a7, a8, a9, a10, a11, a12⟩ := h.id
      refine ⟨a1, a2, a3, a4, ?_, a6, a7, a8, ?_, a10, a11, a12⟩
      · intro id'
        simp only [get?_set]
        split
        · rename_i hh; subst hh; simp [hrev]
        · exact a5 id'
      · intro hw id' w'
        simp only [get?_set]
        split
        · intro hh; cases hh
          simp at hc; exact hc hw
        · exact a9 hw id' w'

theorem emeta_set_inv (s : Store) (id : Nat) (md : Meta) (h : Inv s) (hid : (get? s.rev id).isSome) :
    Inv { s with emeta := AL.set s.emeta id md } := by
  refine ⟨?_, h.nm.of_eq (fun _ => rfl) rfl, h.adj.of_eq rfl (fun _ => rfl)⟩
  obtain ⟨a1, a2, a3, a4, a5, a6, a7, a8, a9, a10, a11, a12⟩ := h.id
  refine ⟨a1, a2, a3, a4, a5, ?_, keys_nodup_set _ _ _ a7, a8, a9, a10, a11, a12⟩
  intro id'
  simp only [get?_set]
  split
  · rename_i hh; subst hh; simp [hid]
  · exact a6 id'

theorem setAttrEdge_inv (s : Store) (raw : List Node) (l : Layer) (k v : Nat) (h : Inv s) :
    Inv (setAttrEdge s raw l k v).1 := by
  unfold setAttrEdge
  split
  · exact h
  · rename_i id hk
    split
    · exact h
    · exact emeta_set_inv s id _ h (by simp [h.id.rev_of_edge _ _ hk])

theorem delAttrEdge_inv (s : Store) (raw : List Node) (l : Layer) (k : Nat) (h : Inv s) :
    Inv (delAttrEdge s raw l k).1 := by
  unfold delAttrEdge
  split
  · exact h
  · rename_i id hk
    split
    · exact h
    · split
      · exact emeta_set_inv s id _ h (by simp [h.id.rev_of_edge _ _ hk])
      · exact h

theorem nmeta_set_inv (s : Store) (n : Node) (md : Meta) (h : Inv s) (hn : (get? s.nmeta n).isSome) :
    Inv { s with nmeta := AL.set s.nmeta n md } := by
  refine ⟨h.id.of_eq rfl rfl rfl rfl rfl rfl rfl, ?_, h.adj.of_eq rfl (fun _ => rfl)⟩
  constructor
  · intro m
    simp only [get?_set]
    have := h.nm.adj_nm m
    split
    · rename_i hh; subst hh; simp [hn] at this ⊢; exact this
    · exact this
  · exact keys_nodup_set _ _ _ h.nm.nm_nodup

theorem setAttrNode_inv (s : Store) (n : Node) (k v : Nat) (h : Inv s) : Inv (setAttrNode s n k v).1 := by
  unfold setAttrNode
  split
  · exact h
  · rename_i md hg; exact nmeta_set_inv s n _ h (by simp [hg])

theorem delAttrNode_inv (s : Store) (n : Node) (k : Nat) (h : Inv s) : Inv (delAttrNode s n k).1 := by
  unfold delAttrNode
  split
  · exact h
  · rename_i md hg
    split
    · exact nmeta_set_inv s n _ h (by simp [hg])
    · exact h

theorem hmeta_inv (s : Store) (hm : HMeta) (h : Inv s) : Inv { s with hmeta := hm } :=
  ⟨h.id.of_eq rfl rfl rfl rfl rfl rfl rfl, h.nm.of_eq (fun _ => rfl) rfl, h.adj.of_eq rfl (fun _ => rfl)⟩

/-! ## remove_node -/

theorem removeEdge_rev (s : Store) (raw : List Node) (l : Layer) (id : Nat)
    (hk : get? s.edgeList (canon raw, l) = some id) : (removeEdge s raw l).1.rev = del s.rev id := by
  unfold removeEdge; simp only [hk, removeKey]

theorem addEdge_rev_cases (s : Store) (raw : List Node) (l : Layer) (w : Option Int) (md : Option Meta) (id : Nat) (k : Key)
    (hg : get? (addEdge s raw l w md).1.rev id = some k) : get? s.rev id = some k ∨ k = (canon raw, l) := by
  unfold addEdge at hg
  split at hg
  · exact Or.inl hg
  · unfold addEdgeCore at hg
    split at hg
    · rw [(addEdgeNew_fields _ _ _ _).2.1] at hg
      simp only [allocRecord, get?_set] at hg
      split at hg
      · cases hg; exact Or.inr rfl
      · exact Or.inl hg
    · simp only [addEdgeOld] at hg
      rw [(touchNodes_fields _ _).2.1] at hg
      exact Or.inl hg

/-- every record that still contains `n` has its id in `rest` -/
def NoN (n : Node) (s : Store) (rest : List Nat) : Prop := ∀ id k, get? s.rev id = some k → n ∈ k.1 → id ∈ rest

theorem removeStored_rev (s : Store) (e : Edge) (l : Layer) (id : Nat) (h : Inv s) (hr : get? s.rev id = some (e, l)) :
    (removeEdge s e l).1.rev = del s.rev id := by
  have hc : canon e = e := (h.id.key_sorted _ _ hr).canon
  apply removeEdge_rev
  rw [hc]; exact h.id.edge_of_rev _ _ hr

theorem dropRecord_noN (s : Store) (n : Node) (id : Nat) (rest : List Nat) (h : Inv s) (hP : NoN n s (id :: rest)) :
    NoN n (dropRecord s id) rest := by
  unfold dropRecord
  split
  · rename_i hr
    intro id' k hk hn
    rcases List.mem_cons.mp (hP id' k hk hn) with he | he
    · subst he; rw [hr] at hk; cases hk
    · exact he
  · rename_i e l hr
    intro id' k hk hn
    rw [removeStored_rev s e l id h hr, get?_del] at hk
    split at hk
    · cases hk
    · rename_i hne
      rcases List.mem_cons.mp (hP id' k hk hn) with he | he
      · exact absurd he hne
      · exact he

theorem shrinkRecord_noN (s : Store) (n : Node) (id : Nat) (rest : List Nat) (h : Inv s) (hP : NoN n s (id :: rest)) :
    NoN n (shrinkRecord s n id) rest := by
  have hdrop := dropRecord_noN s n id rest h hP
  unfold dropRecord at hdrop
  unfold shrinkRecord
  split
  · rename_i hr; simp only [hr] at hdrop; exact hdrop
  · rename_i e l hr
    simp only [hr] at hdrop
    simp only []
    split
    · exact hdrop
    · intro id' k hk hn
      rcases addEdge_rev_cases _ _ _ _ _ _ _ hk with h1 | h1
      · exact hdrop id' k h1 hn
      · subst h1
        simp only [mem_canon, List.mem_filter] at hn
        simp at hn

theorem removeLoop_inv (s : Store) (n : Node) (keep : Bool) (ids : List Nat) (h : Inv s) (hP : NoN n s ids) :
    Inv (ids.foldl (fun s id => if keep then shrinkRecord s n id else dropRecord s id) s) ∧
    NoN n (ids.foldl (fun s id => if keep then shrinkRecord s n id else dropRecord s id) s) [] := by
  induction ids generalizing s with
  | nil => exact ⟨h, hP⟩
  | cons id rest ih =>
    simp only [List.foldl_cons]
    cases keep with
    | true => exact ih _ (shrinkRecord_inv s n id h) (shrinkRecord_noN s n id rest h hP)
    | false => exact ih _ (dropRecord_inv s id h) (dropRecord_noN s n id rest h hP)

theorem dropNode_inv (s : Store) (n : Node) (h : Inv s) (hP : NoN n s []) :
    Inv { s with adj := del s.adj n, nmeta := del s.nmeta n } := by
  refine ⟨h.id.of_eq rfl rfl rfl rfl rfl rfl rfl, ?_, ?_⟩
  · constructor
    · intro m
      simp only [get?_del]
      split
      · simp
      · exact h.nm.adj_nm m
    · exact keys_nodup_del _ _ h.nm.nm_nodup
  · constructor
    · intro m ids
      simp only [get?_del]
      split
      · intro hh; cases hh
      · exact h.adj.adj_sorted m ids
    · intro m ids
      simp only [get?_del]
      split
      · intro hh; cases hh
      · exact h.adj.adj_iff m ids
    · intro id k hk m hm
      simp only [get?_del]
      have : m ≠ n := by
        intro he; subst he
        have := hP id k hk hm
        simp at this
      simp only [this, if_false]
      exact h.adj.nodes_in id k hk m hm

theorem removeNode_inv (s : Store) (n : Node) (keep : Bool) (h : Inv s) : Inv (removeNode s n keep).1 := by
  unfold removeNode
  split
  · exact h
  · rename_i ids hg
    have hP : NoN n s ids := by
      intro id k hk hn
      exact (h.adj.adj_iff n ids hg id).mpr ⟨k, hk, hn⟩
    obtain ⟨h1, h2⟩ := removeLoop_inv s n keep ids h hP
    exact dropNode_inv _ n h1 h2

/-! ## every operation, every history -/

/-- the property's quantifier: hyperedges are node *sets* (duplicate-free node tuples) -/
def Op.WF : Op → Prop
  | .addEdge raw _ _ _ => raw.Nodup
  | .addEdges raws _ _ _ => ∀ r ∈ raws, r.Nodup
  | _ => True

theorem step_inv (s : Store) (op : Op) (h : Inv s) (hw : op.WF) : Inv (step s op).1 := by
  cases op with
  | addNode n md => exact addNode_inv s n md h
  | addNodes ns mds => exact addNodes_inv s ns mds h
  | addEdge raw l w md => exact addEdge_inv s raw l w md h hw
  | addEdges raws ls ws mds => exact addEdges_inv s raws ls ws mds h hw
  | removeEdge raw l => exact removeEdge_inv s raw l h
  | removeNode n keep => exact removeNode_inv s n keep h
  | setWeight raw l w => exact setWeight_inv s raw l w h
  | setHMeta hm => exact hmeta_inv s hm h
  | setAttrH k v => exact hmeta_inv s _ h
  | setLayerMeta l v => exact hmeta_inv s _ h
  | setDatasetMeta v => exact hmeta_inv s _ h
  | setAttrNode n k v => exact setAttrNode_inv s n k v h
  | delAttrNode n k => exact delAttrNode_inv s n k h
  | setAttrEdge raw l k v => exact setAttrEdge_inv s raw l k v h
  | delAttrEdge raw l k => exact delAttrEdge_inv s raw l k h

theorem run_inv (s : Store) (ops : List Op) (h : Inv s) (hw : ∀ op ∈ ops, op.WF) : Inv (run s ops) := by
  induction ops generalizing s with
  | nil => exact h
  | cons op ops ih =>
    simp only [run, List.foldl_cons]
    exact ih _ (step_inv s op h (hw op List.mem_cons_self)) (fun o ho => hw o (List.mem_cons_of_mem _ ho))

end C04
