import Hgxv.Proofs.C16Sample
/-! Helper lemmas for C16, part 5: node labels of any type.  The run of `sample(initial_hyg=...)` on labels of a type
`α` is the image, under any injective naming `f` of the labels, of the run on the named labels: the sampler sees a
label only through equality with other labels.  Core Lean only. -/
namespace C16

section
variable {α β : Type} [DecidableEq α] [DecidableEq β]

theorem idxOf_map_inj (f : α → β) (hf : ∀ a b, f a = f b → a = b) (ls : List α) (x : α) :
    (ls.map f).idxOf (f x) = ls.idxOf x := by
  induction ls with
  | nil => rfl
  | cons a t ih =>
    simp only [List.map_cons, List.idxOf_cons, ih]
    by_cases h : a = x
    · subst h; simp
    · have h' : ¬ f a = f x := fun e => h (hf _ _ e)
      have b1 : (a == x) = false := by simpa using h
      have b2 : (f a == f x) = false := by simpa using h'
      rw [b1, b2]

theorem transformG_map (f : α → β) (hf : ∀ a b, f a = f b → a = b) (ls : List α) (e : List α) :
    transformG (ls.map f) (e.map f) = transformG ls e := by
  unfold transformG
  rw [List.mapM_map]
  congr 1
  funext x
  simp [idxOf_map_inj f hf]

theorem transformAllG_map (f : α → β) (hf : ∀ a b, f a = f b → a = b) (ls : List α) (edges : List (List α)) :
    (edges.map (List.map f)).mapM (transformG (ls.map f)) = edges.mapM (transformG ls) := by
  rw [List.mapM_map]
  congr 1
  funext e
  exact transformG_map f hf ls e

omit [DecidableEq α] [DecidableEq β] in
theorem relabelG_map (f : α → β) (ls : List α) (e : Hye) :
    relabelG (ls.map f) e = (relabelG ls e).map (List.map f) := by
  unfold relabelG
  induction e with
  | nil => simp
  | cons i t ih =>
    rw [List.mapM_cons, List.mapM_cons, ih, List.getElem?_map]
    cases ls[i]? with
    | none => simp
    | some v =>
      cases List.mapM (fun i => ls[i]?) t with
      | none => simp
      | some r => simp

omit [DecidableEq α] [DecidableEq β] in
theorem relabelAllG_map (f : α → β) (ls : List α) (l : List (Hye × Nat)) :
    relabelAllG (ls.map f) l = (relabelAllG ls l).map (mapOut f) := by
  unfold relabelAllG
  induction l with
  | nil => simp [mapOut]
  | cons p t ih =>
    rw [List.mapM_cons, List.mapM_cons, ih, relabelG_map]
    cases relabelG ls p.1 with
    | none => simp
    | some v =>
      cases List.mapM (fun p => Option.map (fun e => (e, p.2)) (relabelG ls p.1)) t with
      | none => simp
      | some r => simp [mapOut]

theorem get?_mapOut (f : α → β) (hf : ∀ a b, f a = f b → a = b) (d : List (List α × Nat)) (k : List α) :
    AL.get? (mapOut f d) (k.map f) = AL.get? d k := by
  induction d with
  | nil => rfl
  | cons p t ih =>
    obtain ⟨k', v⟩ := p
    simp only [mapOut, List.map_cons, AL.get?] at ih ⊢
    by_cases h : k' = k
    · subst h; simp
    · have h' : ¬ k'.map f = k.map f := fun e => h ((List.map_inj_right hf).mp e)
      simp only [h, h', if_false]
      exact ih

theorem set_mapOut (f : α → β) (hf : ∀ a b, f a = f b → a = b) (d : List (List α × Nat)) (k : List α) (v : Nat) :
    AL.set (mapOut f d) (k.map f) v = mapOut f (AL.set d k v) := by
  induction d with
  | nil => rfl
  | cons p t ih =>
    obtain ⟨k', v'⟩ := p
    simp only [mapOut, List.map_cons, AL.set] at ih ⊢
    by_cases h : k' = k
    · subst h; simp
    · have h' : ¬ k'.map f = k.map f := fun e => h ((List.map_inj_right hf).mp e)
      simp only [h, h', if_false, List.map_cons]
      rw [ih]

theorem foldl_merge_mapOut (f : α → β) (hf : ∀ a b, f a = f b → a = b) (l d : List (List α × Nat)) :
    (mapOut f l).foldl (fun d (p : List β × Nat) => AL.set d p.1 ((AL.get? d p.1).getD 0 + p.2)) (mapOut f d)
      = mapOut f (l.foldl (fun d (p : List α × Nat) => AL.set d p.1 ((AL.get? d p.1).getD 0 + p.2)) d) := by
  induction l generalizing d with
  | nil => rfl
  | cons p t ih =>
    have e : mapOut f (p :: t) = (p.1.map f, p.2) :: mapOut f t := rfl
    rw [e, List.foldl_cons, List.foldl_cons, get?_mapOut f hf, set_mapOut f hf]
    exact ih _

theorem mergeDupG_map (f : α → β) (hf : ∀ a b, f a = f b → a = b) (l : List (List α × Nat)) :
    mergeDupG (mapOut f l) = mapOut f (mergeDupG l) :=
  foldl_merge_mapOut f hf l []

theorem outputStageG_map (f : α → β) (hf : ∀ a b, f a = f b → a = b) (cfg : Config) (ws : List Nat) (ls : List α) :
    outputStageG cfg ws (ls.map f) = (outputStageG cfg ws ls).map (mapOut f) := by
  unfold outputStageG
  split
  · rw [relabelAllG_map]
    cases relabelAllG ls (dropZeros (cfg.map canon) ws) with
    | none => rfl
    | some r => simp [mergeDupG_map f hf]
  · rfl

theorem outputsOfG_map (f : α → β) (hf : ∀ a b, f a = f b → a = b) (ys : List Config) (ws : List (List Nat)) (ls : List α) :
    outputsOfG ys ws (ls.map f) = (outputsOfG ys ws ls).map (List.map (mapOut f)) := by
  induction ys generalizing ws with
  | nil => simp [outputsOfG]
  | cons c cs ih =>
    cases ws with
    | nil => simp [outputsOfG]
    | cons w ws =>
      simp only [outputsOfG]
      rw [outputStageG_map f hf, ih]
      cases outputStageG c w ls with
      | none => rfl
      | some o =>
        cases outputsOfG cs ws ls with
        | none => rfl
        | some r => simp

/-- the run on the named labels is the image of the run on the labels -/
theorem sampleFromHygG_map (f : α → β) (hf : ∀ a b, f a = f b → a = b) (ls : List α) (edges : List (List α)) (t : OwnTape) :
    sampleFromHygG (ls.map f) (edges.map (List.map f)) t
      = (sampleFromHygG ls edges t).map (List.map (mapOut f)) := by
  unfold sampleFromHygG
  rw [transformAllG_map f hf]
  cases List.mapM (transformG ls) edges with
  | none => rfl
  | some cfg =>
    simp only [Option.bind_some]
    cases mcmcRoutine cfg [] t.burn t.thins with
    | none => rfl
    | some ys =>
      simp only [Option.bind_some]
      exact outputsOfG_map f hf ys _ ls

theorem count_map_inj (f : α → β) (hf : ∀ a b, f a = f b → a = b) (e : List α) (x : α) :
    (e.map f).count (f x) = e.count x := by
  induction e with
  | nil => rfl
  | cons a t ih =>
    simp only [List.map_cons, List.count_cons, ih]
    by_cases h : a = x
    · subst h; simp
    · have h' : ¬ f a = f x := fun e => h (hf _ _ e)
      simp [h, h']

theorem degOfG_map (f : α → β) (hf : ∀ a b, f a = f b → a = b) (edges : List (List α)) (x : α) :
    degOfG (f x) (edges.map (List.map f)) = degOfG x edges := by
  unfold degOfG
  rw [List.map_map]
  congr 1
  apply List.map_congr_left
  intro e _
  exact count_map_inj f hf e x

omit [DecidableEq α] [DecidableEq β] in
theorem sizeCountG_map (f : α → β) (edges : List (List α)) (s : Nat) :
    sizeCountG s (edges.map (List.map f)) = sizeCountG s edges := by
  unfold sizeCountG
  rw [List.map_map]
  congr 1
  apply List.map_congr_left
  intro e _
  simp

omit [DecidableEq α] [DecidableEq β] in
theorem keys_mapOut (f : α → β) (o : List (List α × Nat)) :
    (mapOut f o).map (·.1) = (o.map (·.1)).map (List.map f) := by
  simp [mapOut, List.map_map, Function.comp_def]

omit [DecidableEq α] [DecidableEq β] in
theorem nodup_map_inj {γ δ : Type} (g : γ → δ) (hg : ∀ a b, g a = g b → a = b) {l : List γ} (h : l.Nodup) :
    (l.map g).Nodup := by
  rw [List.Nodup, List.pairwise_map]
  exact h.imp (fun hab e => hab (hg _ _ e))

end

/-! the model over the naturals is the instance `α = Nat` of the generic code -/

theorem outputsOfG_nat (ys : List Config) (ws : List (List Nat)) (ls : List Nat) :
    outputsOfG ys ws ls = outputsOf ys ws (some ls) := by
  induction ys generalizing ws with
  | nil => rfl
  | cons c cs ih =>
    cases ws with
    | nil => rfl
    | cons w ws =>
      simp only [outputsOfG, outputsOf]
      rw [ih]
      rfl

theorem sampleFromHygG_nat (ls : List Nat) (edges : Config) (t : OwnTape) :
    sampleFromHygG ls edges t = sampleFromHyg ls edges t := by
  unfold sampleFromHygG sampleFromHyg sampleFromConfig
  have : ∀ cfg, (mcmcRoutine cfg [] t.burn t.thins).bind (fun ys => outputsOfG ys (t.quantiles.map truncWeights) ls)
      = (mcmcRoutine cfg [] t.burn t.thins).bind (fun ys => outputsOf ys (t.quantiles.map truncWeights) (some ls)) := by
    intro cfg
    congr 1
    funext ys
    exact outputsOfG_nat ys _ ls
  simp only [this]
  rfl

theorem degOfG_nat (x : Nat) (edges : Config) : degOfG x edges = degOf x edges := rfl
theorem sizeCountG_nat (s : Nat) (edges : Config) : sizeCountG s edges = sizeCount s edges := rfl

theorem outputStageG_nat (cfg : Config) (ws : List Nat) (ls : List Nat) :
    outputStageG cfg ws ls = outputStage cfg ws (some ls) := rfl

end C16
