import Hgxv.Model.C03Spec
import Hgxv.Proofs.C03Cor
/-! Refinement: the abstraction `abs : Store → Spec` commutes with every operation (core Lean only). -/
namespace AL
variable {α β γ : Type} [DecidableEq α]

/-- map the values of an association list -/
def mapVals (f : β → γ) (l : List (α × β)) : List (α × γ) := l.map (fun p => (p.1, f p.2))

theorem get?_mapVals (f : β → γ) (l : List (α × β)) (k : α) : get? (mapVals f l) k = (get? l k).map f := by
  induction l with
  | nil => rfl
  | cons hd t ih => grind [mapVals, get?]

theorem keys_mapVals (f : β → γ) (l : List (α × β)) : keys (mapVals f l) = keys l := by
  simp [mapVals, keys]

theorem mapVals_set (f : β → γ) (l : List (α × β)) (k : α) (v : β) :
    mapVals f (set l k v) = set (mapVals f l) k (f v) := by
  induction l with
  | nil => rfl
  | cons hd t ih => grind [mapVals, set]

theorem mapVals_erase (f : β → γ) (l : List (α × β)) (k : α) : mapVals f (erase l k) = erase (mapVals f l) k := by
  induction l with
  | nil => rfl
  | cons hd t ih => grind [mapVals, erase]

theorem mapVals_congr (f g : β → γ) (l : List (α × β)) (h : ∀ p ∈ l, f p.2 = g p.2) : mapVals f l = mapVals g l := by
  unfold mapVals
  apply List.map_congr_left
  intro p hp; rw [h p hp]

/-- changing the value function at one value that occurs under exactly one key = dictionary assignment at that key -/
theorem mapVals_update (f g : β → γ) (l : List (α × β)) (k : α) (b : β) (hnd : (keys l).Nodup)
    (hget : get? l k = some b) (hinj : ∀ p ∈ l, p.2 = b → p.1 = k) (hfg : ∀ p ∈ l, p.2 ≠ b → g p.2 = f p.2) :
    mapVals g l = set (mapVals f l) k (g b) := by
  induction l with
  | nil => simp at hget
  | cons hd t ih =>
    obtain ⟨k', b'⟩ := hd
    simp only [keys, List.map_cons, List.nodup_cons] at hnd
    by_cases hk : k' = k
    · subst hk
      simp only [get?, if_true] at hget; cases hget
      simp only [mapVals, List.map_cons, set, if_true]
      congr 1
      apply List.map_congr_left
      intro p hp
      have hne : p.2 ≠ b := by
        intro hc
        have h1 := hinj p (by simp [hp]) hc
        exact hnd.1 (List.mem_map.mpr ⟨p, hp, h1⟩)
      rw [hfg p (by simp [hp]) hne]
    · simp only [get?, hk, if_false] at hget
      have hb : b' ≠ b := by
        intro hc; exact hk (hinj (k', b') (by simp) hc)
      have h1 := hfg (k', b') (by simp) hb
      simp only [mapVals, List.map_cons, set, hk, if_false]
      simp only at h1
      rw [h1]
      congr 1
      exact ih (by simpa [keys] using hnd.2) hget (fun p hp => hinj p (by simp [hp])) (fun p hp => hfg p (by simp [hp]))

end AL

namespace C03
open AL

/-- the value stored for an edge id -/
def valOf (s : Store) (id : Nat) : Int × Meta := ((get? s.weights id).getD one, (get? s.emeta id).getD [])

theorem records_eq (s : Store) : records s = mapVals (valOf s) s.edgeList := rfl

theorem get?_records (s : Store) (k : Key) : get? (records s) k = (get? s.edgeList k).map (valOf s) := by
  rw [records_eq, get?_mapVals]

theorem keys_records (s : Store) : keys (records s) = edgeKeys s := by
  rw [records_eq, keys_mapVals]; rfl

theorem abs_eq_iff (s : Store) (sp : Spec) :
    abs s = sp ↔ s.weighted = sp.weighted ∧ s.nmeta = sp.nodes ∧ records s = sp.recs ∧ s.hmeta = sp.hmeta := by
  cases sp; simp [abs]

theorem touchNode_nmeta_eq (s : Store) (n : Node) : (touchNode s n).nmeta = touchTable s.nmeta n := by
  unfold touchNode touchTable; split <;> simp_all

theorem touchNodes_nmeta_eq (s : Store) (ns : List Node) : (touchNodes s ns).nmeta = ns.foldl touchTable s.nmeta := by
  induction ns generalizing s with
  | nil => rfl
  | cons n ns ih => simp only [touchNodes, List.foldl_cons] at *; rw [ih, touchNode_nmeta_eq]

theorem fillMeta_fields (s : Store) (n : Node) (md : Meta) :
    (fillMeta s n md).nmeta = fillTable s.nmeta n md ∧ (fillMeta s n md).edgeList = s.edgeList ∧
    (fillMeta s n md).weights = s.weights ∧ (fillMeta s n md).emeta = s.emeta ∧
    (fillMeta s n md).weighted = s.weighted ∧ (fillMeta s n md).hmeta = s.hmeta := by
  unfold fillMeta fillTable; split <;> simp_all

theorem records_congr (s1 s2 : Store) (h1 : s1.edgeList = s2.edgeList) (h2 : s1.weights = s2.weights)
    (h3 : s1.emeta = s2.emeta) : records s1 = records s2 := by
  simp [records, h1, h2, h3]

theorem addNode_abs (s : Store) (n : Node) (md : Option Meta) : abs (addNode s n md) = Spec.addNode (abs s) n md := by
  have hf := fillMeta_fields (touchNode s n) n (md.getD [])
  have ht := touchNode_fields s n
  rw [abs_eq_iff]
  refine ⟨?_, ?_, ?_, ?_⟩
  · simp only [addNode, Spec.addNode, abs]; rw [hf.2.2.2.2.1, ht.2.2.2.2.2.1]
  · simp only [addNode, Spec.addNode, abs]; rw [hf.1, touchNode_nmeta_eq]
  · simp only [addNode, Spec.addNode, abs]
    exact records_congr _ _ (by rw [hf.2.1, ht.1]) (by rw [hf.2.2.1, ht.2.2.1]) (by rw [hf.2.2.2.1, ht.2.2.2.1])
  · simp only [addNode, Spec.addNode, abs]; rw [hf.2.2.2.2.2, ht.2.2.2.2.2.2]

theorem foldl_abs {α} (f : Store → α → Store) (g : Spec → α → Spec) (P : α → Prop)
    (hinv : ∀ s a, Inv s → P a → Inv (f s a))
    (hfg : ∀ s a, Inv s → P a → abs (f s a) = g (abs s) a) (l : List α) (hl : ∀ a ∈ l, P a) (s : Store) (h : Inv s) :
    abs (l.foldl f s) = l.foldl g (abs s) := by
  induction l generalizing s with
  | nil => rfl
  | cons a l ih =>
    simp only [List.foldl_cons]
    rw [ih (fun b hb => hl b (by simp [hb])) _ (hinv s a h (hl a (by simp))), hfg s a h (hl a (by simp))]

theorem addNodes_abs (s : Store) (h : Inv s) (ns : List Node) (mds : Option (List (Node × Meta))) :
    abs (addNodes s ns mds).1 = (Spec.addNodes (abs s) ns mds).1 ∧ (addNodes s ns mds).2 = (Spec.addNodes (abs s) ns mds).2 := by
  unfold addNodes Spec.addNodes
  cases mds with
  | none =>
    exact ⟨foldl_abs _ _ (fun _ => True) (fun s n hs _ => addNode_inv s hs n none) (fun s n _ _ => addNode_abs s n none)
      ns (fun _ _ => trivial) s h, rfl⟩
  | some d =>
    simp only []
    split
    · exact ⟨foldl_abs _ _ (fun _ => True) (fun s n hs _ => addNode_inv s hs n _) (fun s n _ _ => addNode_abs s n _)
        ns (fun _ _ => trivial) s h, rfl⟩
    · exact ⟨rfl, rfl⟩

/-! ### insertion -/
theorem addEdgeNew_abs (s : Store) (k : Key) (wt : Int) (md : Meta) (h : Inv s) (hnd : k.2.Nodup)
    (hget : get? s.edgeList k = none) : abs (addEdgeNew s k wt md) = Spec.addKey (abs s) k wt md := by
  obtain ⟨p1, p2, p3, p4, p5, p6, p7, _, _, _⟩ := addEdgeNew_parts s k wt md h hnd
  have hfresh := fresh_rev s h
  have hnm : (addEdgeNew s k wt md).nmeta = k.2.foldl touchTable s.nmeta := by
    simp only [addEdgeNew]; rw [touchNodes_nmeta_eq]
  rw [abs_eq_iff]
  refine ⟨p6, ?_, ?_, p7⟩
  · simp only [Spec.addKey, abs]; exact hnm
  · simp only [Spec.addKey, abs]
    have hk : get? (records s) k = none := by rw [get?_records, hget]; rfl
    rw [hk]
    simp only [Spec.recVal]
    rw [records_eq, p1, mapVals_set]
    have hval : valOf (addEdgeNew s k wt md) s.nextId = (wt, md) := by simp [valOf, p3, p4]
    rw [hval]
    congr 1
    rw [records_eq]
    apply mapVals_congr
    intro p hp
    obtain ⟨k', id'⟩ := p
    have hr := h.rev_of_edge k' id' (get?_of_mem _ _ _ h.keysNodup hp)
    have hlt := h.id_lt _ _ hr
    have hne : s.nextId ≠ id' := by omega
    simp [valOf, p3, p4, get?_set, hne]

theorem addEdgeOld_abs (s : Store) (id : Nat) (k : Key) (wt : Int) (md : Meta) (h : Inv s)
    (hget : get? s.edgeList k = some id) : abs (addEdgeOld s id k wt md) = Spec.addKey (abs s) k wt md := by
  have hrev := h.rev_of_edge k id hget
  obtain ⟨w0, hw0⟩ := Option.isSome_iff_exists.mp ((h.wKeys id).mpr (by simp [hrev]))
  let s0 : Store := { s with weights := if s.weighted then AL.set s.weights id (((AL.get? s.weights id).getD 0) + wt) else s.weights,
                             emeta := AL.set s.emeta id md }
  have hf := touchNodes_fields s0 k.2
  have hs : addEdgeOld s id k wt md = touchNodes s0 k.2 := rfl
  -- touching the nodes of an existing record changes nothing in the node table
  have hnm : (touchNodes s0 k.2).nmeta = k.2.foldl touchTable s.nmeta := by rw [touchNodes_nmeta_eq]
  rw [abs_eq_iff, hs]
  refine ⟨hf.2.2.2.2.2.1, ?_, ?_, hf.2.2.2.2.2.2⟩
  · simp only [Spec.addKey, abs]; exact hnm
  · simp only [Spec.addKey, abs]
    have hk : get? (records s) k = some (valOf s id) := by rw [get?_records, hget]; rfl
    rw [hk]
    have hrec : records (touchNodes s0 k.2) = mapVals (valOf s0) s.edgeList := by
      rw [records_eq]
      have : valOf (touchNodes s0 k.2) = valOf s0 := by
        funext i; simp only [valOf]; rw [hf.2.2.1, hf.2.2.2.1]
      rw [this, hf.1]
    rw [hrec]
    have hinj : ∀ p ∈ s.edgeList, p.2 = id → p.1 = k := by
      intro p hp hpid
      have := edgeList_inj s h p hp (k, id) (mem_of_get? _ _ _ hget) hpid
      rw [this]
    rw [mapVals_update (valOf s) (valOf s0) s.edgeList k id h.keysNodup hget hinj, ← records_eq]
    · congr 1
      simp only [valOf, Spec.recVal, s0, hw0, get?_set, if_true, Option.getD_some]
      cases s.weighted <;> simp [hw0]
    · intro p hp hne
      simp only [valOf, s0]
      have : id ≠ p.2 := fun hc => hne hc.symm
      cases s.weighted <;> simp [get?_set, this]

theorem addEdgeKey_abs (s : Store) (k : Key) (wt : Int) (md : Meta) (h : Inv s) (hnd : k.2.Nodup) :
    abs (addEdgeKey s k wt md) = Spec.addKey (abs s) k wt md := by
  unfold addEdgeKey
  cases hg : get? s.edgeList k with
  | none => exact addEdgeNew_abs s k wt md h hnd hg
  | some id => exact addEdgeOld_abs s id k wt md h hg

theorem addEdge_abs (s : Store) (h : Inv s) (raw : List Nat) (hraw : raw.Nodup) (t : TimeArg) (w : Option Int)
    (md : Option Meta) :
    abs (addEdge s raw t w md).1 = (Spec.addEdge (abs s) raw t w md).1 ∧
    (addEdge s raw t w md).2 = (Spec.addEdge (abs s) raw t w md).2 := by
  unfold addEdge Spec.addEdge
  cases t with
  | bad => exact ⟨rfl, rfl⟩
  | int i =>
    simp only []
    have hw : (abs s).weighted = s.weighted := rfl
    rw [hw]
    split
    · exact ⟨rfl, rfl⟩
    · split
      · exact ⟨rfl, rfl⟩
      · exact ⟨addEdgeKey_abs s _ _ _ h (canon_nodup hraw), rfl⟩

end C03

namespace C03
open AL

theorem addEdgesLoop_abs (ws : Option (List Int)) (mds : Option (List Meta)) (l : List (List Nat × TimeArg))
    (hl : ∀ p ∈ l, p.1.Nodup) (i : Nat) (s : Store) (h : Inv s) :
    abs (addEdgesLoop s ws mds i l) = Spec.addEdgesLoop (abs s) ws mds i l := by
  induction l generalizing s i with
  | nil => rfl
  | cons p l ih =>
    obtain ⟨raw, t⟩ := p
    have hraw := hl (raw, t) (by simp)
    simp only [addEdgesLoop, Spec.addEdgesLoop]
    rw [ih (fun p hp => hl p (by simp [hp])) _ _ (addEdge_inv s h raw hraw t _ _), (addEdge_abs s h raw hraw t _ _).1]

theorem addEdges_abs (s : Store) (h : Inv s) (raws : List (List Nat)) (hraws : ∀ r ∈ raws, r.Nodup)
    (ts : List TimeArg) (ws : Option (List Int)) (mds : Option (List Meta)) :
    abs (addEdges s raws ts ws mds).1 = (Spec.addEdges (abs s) raws ts ws mds).1 ∧
    (addEdges s raws ts ws mds).2 = (Spec.addEdges (abs s) raws ts ws mds).2 := by
  unfold addEdges Spec.addEdges
  have hl : ∀ p ∈ raws.zip ts, p.1.Nodup := fun p hp => hraws p.1 (List.of_mem_zip hp).1
  split
  · refine ⟨?_, rfl⟩
    simp only []
    cases hws : ws.isSome with
    | true => simp only [if_true]; exact addEdgesLoop_abs ws mds _ hl 0 _ (inv_setWeighted s h)
    | false => simp only [Bool.false_eq_true, if_false]; exact addEdgesLoop_abs ws mds _ hl 0 s h
  · exact ⟨rfl, rfl⟩

/-! ### removal -/
theorem removeKeyId_abs (s : Store) (k : Key) (id : Nat) (h : Inv s) (hget : get? s.edgeList k = some id) :
    abs (removeKeyId s k id) = { abs s with recs := AL.erase (abs s).recs k } := by
  rw [abs_eq_iff]
  refine ⟨rfl, rfl, ?_, rfl⟩
  simp only [abs]
  rw [records_eq, records_eq, ← mapVals_erase]
  have : (removeKeyId s k id).edgeList = AL.erase s.edgeList k := rfl
  rw [this]
  apply mapVals_congr
  intro p hp
  have hp' := mem_of_mem_erase _ _ _ hp
  have hne : id ≠ p.2 := by
    intro hc
    have := edgeList_inj s h p hp' (k, id) (mem_of_get? _ _ _ hget) hc.symm
    subst this
    have hk := (get?_eq_none_iff (AL.erase s.edgeList k) k).mp (get?_erase_self _ _ h.keysNodup)
    exact hk (List.mem_map.mpr ⟨(k, id), hp, rfl⟩)
  simp only [valOf, removeKeyId]
  rw [get?_erase_ne _ _ _ hne, get?_erase_ne _ _ _ hne]

theorem removeKey_abs (s : Store) (h : Inv s) (k : Key) :
    abs (removeKey s k).1 = (Spec.removeKey (abs s) k).1 ∧ (removeKey s k).2 = (Spec.removeKey (abs s) k).2 := by
  unfold removeKey Spec.removeKey
  have hk : get? (abs s).recs k = (get? s.edgeList k).map (valOf s) := get?_records s k
  cases hg : get? s.edgeList k with
  | none => simp [hk, hg]
  | some id => simp only [hk, hg, Option.map_some, Option.isSome_some, if_true]; exact ⟨removeKeyId_abs s k id h hg, trivial⟩

theorem removeEdge_abs (s : Store) (h : Inv s) (raw : List Nat) (t : TimeArg) :
    abs (removeEdge s raw t).1 = (Spec.removeEdge (abs s) raw t).1 ∧
    (removeEdge s raw t).2 = (Spec.removeEdge (abs s) raw t).2 := by
  unfold removeEdge Spec.removeEdge
  cases mkKey raw t with
  | none => exact ⟨rfl, rfl⟩
  | some k => exact removeKey_abs s h k

theorem isSome_recs (s : Store) (k : Key) : (get? (abs s).recs k).isSome = (get? s.edgeList k).isSome := by
  have hk : get? (abs s).recs k = (get? s.edgeList k).map (valOf s) := get?_records s k
  rw [hk]; cases get? s.edgeList k <;> rfl

theorem removeEdges_abs (s : Store) (h : Inv s) (recs : List (TimeArg × List Nat)) :
    abs (removeEdges s recs).1 = (Spec.removeEdges (abs s) recs).1 ∧
    (removeEdges s recs).2 = (Spec.removeEdges (abs s) recs).2 := by
  unfold removeEdges Spec.removeEdges
  cases List.mapM (fun r => mkKey r.2 r.1) recs with
  | none => exact ⟨rfl, rfl⟩
  | some ks =>
    simp only []
    have : (ks.all fun k => (get? (abs s).recs k).isSome) = (ks.all fun k => (get? s.edgeList k).isSome) := by
      congr 1; funext k; exact isSome_recs s k
    rw [this]
    split
    · exact ⟨foldl_abs _ _ (fun _ => True) (fun s k hs _ => removeKey_inv s hs k) (fun s k hs _ => (removeKey_abs s hs k).1)
        ks (fun _ _ => trivial) s h, rfl⟩
    · exact ⟨rfl, rfl⟩

end C03

namespace C03
open AL

theorem filter_erase_pairs (l : List (Key × Nat)) (k : Key) (id : Nat) (p : Key × Nat → Bool)
    (hnd : (keys l).Nodup) (hget : get? l k = some id) :
    (AL.erase l k).filter p = if p (k, id) then (l.filter p).erase (k, id) else l.filter p := by
  induction l with
  | nil => simp at hget
  | cons hd t ih =>
    obtain ⟨k', id'⟩ := hd
    simp only [keys, List.map_cons, List.nodup_cons] at hnd
    by_cases hk : k' = k
    · subst hk
      simp only [get?, if_true] at hget
      cases hget
      simp only [AL.erase, if_true, List.filter_cons]
      split
      · simp
      · rfl
    · simp only [get?, hk, if_false] at hget
      have ih' := ih (by simpa [keys] using hnd.2) hget
      simp only [AL.erase, hk, if_false, List.filter_cons]
      by_cases hp : p (k', id') = true
      · simp only [hp, if_true, ih']
        split
        · rw [List.erase_cons_tail]
          simp; intro h; exact absurd h hk
        · rfl
      · have hp' : p (k', id') = false := by simpa using hp
        simp only [hp', Bool.false_eq_true, if_false, ih']

/-- inserting a node set that does not contain `n` does not change which records contain `n` -/
theorem addEdge_filter (s : Store) (h : Inv s) (upd : List Nat) (hupd : upd.Nodup) (n : Node) (hn : n ∉ upd)
    (t : TimeArg) (w : Option Int) (md : Option Meta) :
    (addEdge s upd t w md).1.edgeList.filter (hasNode n) = s.edgeList.filter (hasNode n) := by
  unfold addEdge
  cases t with
  | bad => rfl
  | int i =>
    simp only []
    split
    · rfl
    · split
      · rfl
      · unfold addEdgeKey
        cases hg : get? s.edgeList (i.toNat, canon upd) with
        | none =>
          have p1 := (addEdgeNew_parts s (i.toNat, canon upd) (w.getD one) (md.getD []) h (canon_nodup hupd)).1
          simp only [] at p1 ⊢
          rw [p1, set_of_not_mem _ _ _ hg, List.filter_append]
          have : n ∉ canon upd := fun hc => hn (mem_canon.mp hc)
          simp [hasNode, this]
        | some id =>
          simp only [addEdgeOld]
          rw [(touchNodes_fields _ _).1]

theorem dropIncident_abs (s : Store) (h : Inv s) (n : Node) (keep : Bool) (k : Key) (id : Nat) (rest : List (Key × Nat))
    (hL : s.edgeList.filter (hasNode n) = (k, id) :: rest) :
    Inv (dropIncident s n keep id) ∧ abs (dropIncident s n keep id) = Spec.dropKey (abs s) n keep k ∧
    (dropIncident s n keep id).edgeList.filter (hasNode n) = rest := by
  have hmem : (k, id) ∈ s.edgeList.filter (hasNode n) := by rw [hL]; simp
  obtain ⟨hp1, hp2⟩ := List.mem_filter.mp hmem
  have hnk : n ∈ k.2 := by simpa [hasNode] using hp2
  have hget := get?_of_mem _ _ _ h.keysNodup hp1
  have hrev := h.rev_of_edge k id hget
  have hcan := h.keyCanon k id hget
  obtain ⟨ids, hids⟩ := Option.isSome_iff_exists.mp (h.nodes_in k id hget n hnk)
  have hadj : get? s.adj n = some (id :: rest.map (·.2)) := by
    rw [hids, h.adj_char n ids hids, hL]; rfl
  have hinv := (dropIncident_spec s h n keep id _ hadj).1
  refine ⟨hinv, ?_, ?_⟩
  · -- abstraction
    have hk : get? (abs s).recs k = some (valOf s id) := by
      have : get? (abs s).recs k = (get? s.edgeList k).map (valOf s) := get?_records s k
      rw [this, hget]; rfl
    have hrk : removeKey s k = (removeKeyId s k id, Out.ok) := by simp [removeKey, hget]
    have hinv1 := removeKeyId_inv s k id h hget
    have habs1 := removeKeyId_abs s k id h hget
    simp only [dropIncident, hrev, hrk, Spec.dropKey, hk, valOf]
    split
    · have hupd : (k.2.filter (· != n)).Nodup := hcan.2.filter _
      rw [(addEdge_abs _ hinv1 _ hupd _ _ _).1, habs1]
    · exact habs1
  · -- the remaining records containing n
    have hrk : removeKey s k = (removeKeyId s k id, Out.ok) := by simp [removeKey, hget]
    have hinv1 := removeKeyId_inv s k id h hget
    have h1 : (removeKeyId s k id).edgeList.filter (hasNode n) = rest := by
      have : (removeKeyId s k id).edgeList = AL.erase s.edgeList k := rfl
      rw [this, filter_erase_pairs _ _ _ _ h.keysNodup hget, hp2, hL]; simp
    simp only [dropIncident, hrev, hrk]
    split
    · rw [addEdge_filter _ hinv1 _ (hcan.2.filter _) n (by simp)]; exact h1
    · exact h1

theorem dropLoop_abs (n : Node) (keep : Bool) (L : List (Key × Nat)) (s : Store) (h : Inv s)
    (hL : s.edgeList.filter (hasNode n) = L) :
    abs ((L.map (·.2)).foldl (fun s id => dropIncident s n keep id) s) =
      (L.map (·.1)).foldl (fun sp k => Spec.dropKey sp n keep k) (abs s) := by
  induction L generalizing s with
  | nil => rfl
  | cons p rest ih =>
    obtain ⟨k, id⟩ := p
    obtain ⟨h1, h2, h3⟩ := dropIncident_abs s h n keep k id rest hL
    simp only [List.map_cons, List.foldl_cons]
    rw [ih _ h1 h3, h2]

theorem filter_mapVals_keys {γ : Type} (f : Nat → γ) (l : List (Key × Nat)) (q : Key → Bool) :
    ((mapVals f l).filter (fun p => q p.1)).map (·.1) = (l.filter (fun p => q p.1)).map (·.1) := by
  induction l with
  | nil => rfl
  | cons hd t ih =>
    simp only [mapVals, List.map_cons, List.filter_cons] at *
    split <;> simp [ih]

theorem removeNode_abs (s : Store) (h : Inv s) (n : Node) (keep : Bool) :
    abs (removeNode s n keep).1 = (Spec.removeNode (abs s) n keep).1 ∧
    (removeNode s n keep).2 = (Spec.removeNode (abs s) n keep).2 := by
  unfold removeNode Spec.removeNode
  have hsame : (get? (abs s).nodes n).isSome = (get? s.adj n).isSome := by
    have := h.nt.same n
    simp only [abs]
    cases h1 : (get? s.adj n).isSome <;> cases h2 : (get? s.nmeta n).isSome <;> simp_all
  cases hadj : get? s.adj n with
  | none => simp [hsame, hadj]
  | some ids =>
    simp only [hsame, hadj, Option.isSome_some, if_true]
    refine ⟨?_, trivial⟩
    have hids := h.adj_char n ids hadj
    have hks : ((abs s).recs.filter (fun p => p.1.2.contains n)).map (·.1) =
        (s.edgeList.filter (hasNode n)).map (·.1) := by
      simp only [abs, records_eq]
      exact filter_mapVals_keys (valOf s) s.edgeList (fun k => k.2.contains n)
    rw [hks, hids]
    have hloop := dropLoop_abs n keep (s.edgeList.filter (hasNode n)) s h rfl
    generalize ((s.edgeList.filter (hasNode n)).map (·.2)).foldl (fun s id => dropIncident s n keep id) s = s1 at hloop
    rw [← hloop, abs_eq_iff]
    exact ⟨rfl, rfl, rfl, rfl⟩

theorem removeNodes_abs (s : Store) (h : Inv s) (ns : List Node) (keep : Bool) :
    abs (removeNodes s ns keep).1 = (Spec.removeNodes (abs s) ns keep).1 ∧
    (removeNodes s ns keep).2 = (Spec.removeNodes (abs s) ns keep).2 := by
  unfold removeNodes Spec.removeNodes
  have : (ns.all fun n => (get? (abs s).nodes n).isSome) = (ns.all fun n => (get? s.adj n).isSome) := by
    congr 1; funext n
    have := h.nt.same n
    simp only [abs]
    cases h1 : (get? s.adj n).isSome <;> cases h2 : (get? s.nmeta n).isSome <;> simp_all
  rw [this]
  split
  · exact ⟨foldl_abs _ _ (fun _ => True) (fun s n hs _ => removeNode_inv s hs n keep)
      (fun s n hs _ => (removeNode_abs s hs n keep).1) ns (fun _ _ => trivial) s h, rfl⟩
  · exact ⟨rfl, rfl⟩

end C03

namespace C03
open AL

/-- changing the stored value of one edge id = dictionary assignment at its key -/
theorem records_update (s s' : Store) (k : Key) (id : Nat) (h : Inv s) (hget : get? s.edgeList k = some id)
    (hel : s'.edgeList = s.edgeList) (hother : ∀ i, i ≠ id → valOf s' i = valOf s i) :
    records s' = AL.set (records s) k (valOf s' id) := by
  have hinj : ∀ p ∈ s.edgeList, p.2 = id → p.1 = k := by
    intro p hp hpid
    have := edgeList_inj s h p hp (k, id) (mem_of_get? _ _ _ hget) hpid
    rw [this]
  rw [records_eq, hel, mapVals_update (valOf s) (valOf s') s.edgeList k id h.keysNodup hget hinj
    (fun p _ hne => hother p.2 hne), ← records_eq]

theorem recOf_abs (s : Store) (raw : List Nat) (t : TimeArg) :
    Spec.recOf (abs s) raw t = (mkKey raw t).bind (fun k => (get? s.edgeList k).map (fun id => (k, valOf s id))) := by
  unfold Spec.recOf
  cases mkKey raw t with
  | none => rfl
  | some k =>
    simp only [Option.bind_some]
    have : get? (abs s).recs k = (get? s.edgeList k).map (valOf s) := get?_records s k
    rw [this]; cases get? s.edgeList k <;> rfl

/-- shape shared by the four per-record setters -/
theorem setter_abs (s : Store) (h : Inv s) (raw : List Nat) (t : TimeArg)
    (f : Nat → Store) (g : Key → Int × Meta → Spec)
    (hfg : ∀ k id, get? s.edgeList k = some id → abs (f id) = g k (valOf s id)) :
    abs (match idOf s raw t with | none => (s, Out.rej) | some id => (f id, Out.ok)).1 =
      (match Spec.recOf (abs s) raw t with | none => (abs s, Out.rej) | some (k, v) => (g k v, Out.ok)).1 ∧
    (match idOf s raw t with | none => (s, Out.rej) | some id => (f id, Out.ok)).2 =
      (match Spec.recOf (abs s) raw t with | none => (abs s, Out.rej) | some (k, v) => (g k v, Out.ok)).2 := by
  rw [recOf_abs]
  unfold idOf
  cases mkKey raw t with
  | none => exact ⟨rfl, rfl⟩
  | some k =>
    simp only [Option.bind_some]
    cases hg : get? s.edgeList k with
    | none => exact ⟨rfl, rfl⟩
    | some id => simp only [Option.map_some]; exact ⟨hfg k id hg, trivial⟩

theorem setWeight_abs (s : Store) (h : Inv s) (raw : List Nat) (t : TimeArg) (w : Int) :
    abs (setWeight s raw t w).1 = (Spec.setWeight (abs s) raw t w).1 ∧
    (setWeight s raw t w).2 = (Spec.setWeight (abs s) raw t w).2 := by
  unfold setWeight Spec.setWeight
  have hw : (abs s).weighted = s.weighted := rfl
  rw [hw]
  split
  · exact ⟨rfl, rfl⟩
  · apply setter_abs s h raw t (fun id => { s with weights := AL.set s.weights id w })
      (fun k v => { abs s with recs := AL.set (abs s).recs k (w, v.2) })
    intro k id hg
    rw [abs_eq_iff]
    refine ⟨rfl, rfl, ?_, rfl⟩
    simp only [abs]
    rw [records_update s { s with weights := AL.set s.weights id w } k id h hg rfl
      (by intro i hi; simp [valOf, get?_set, Ne.symm hi])]
    simp [valOf]

theorem setEdgeMeta_abs (s : Store) (h : Inv s) (raw : List Nat) (t : TimeArg) (md : Meta) :
    abs (setEdgeMeta s raw t md).1 = (Spec.setEdgeMeta (abs s) raw t md).1 ∧
    (setEdgeMeta s raw t md).2 = (Spec.setEdgeMeta (abs s) raw t md).2 := by
  unfold setEdgeMeta Spec.setEdgeMeta
  apply setter_abs s h raw t (fun id => { s with emeta := AL.set s.emeta id md })
    (fun k v => { abs s with recs := AL.set (abs s).recs k (v.1, md) })
  intro k id hg
  rw [abs_eq_iff]
  refine ⟨rfl, rfl, ?_, rfl⟩
  simp only [abs]
  rw [records_update s { s with emeta := AL.set s.emeta id md } k id h hg rfl
    (by intro i hi; simp [valOf, get?_set, Ne.symm hi])]
  simp [valOf]

theorem attrEdge_abs (s : Store) (h : Inv s) (raw : List Nat) (t : TimeArg) (a v : Nat) :
    abs (attrEdge s raw t a v).1 = (Spec.attrEdge (abs s) raw t a v).1 ∧
    (attrEdge s raw t a v).2 = (Spec.attrEdge (abs s) raw t a v).2 := by
  unfold attrEdge Spec.attrEdge
  apply setter_abs s h raw t (fun id => { s with emeta := AL.set s.emeta id (AL.set ((AL.get? s.emeta id).getD []) a v) })
    (fun k val => { abs s with recs := AL.set (abs s).recs k (val.1, AL.set val.2 a v) })
  intro k id hg
  rw [abs_eq_iff]
  refine ⟨rfl, rfl, ?_, rfl⟩
  simp only [abs]
  rw [records_update s { s with emeta := AL.set s.emeta id (AL.set ((AL.get? s.emeta id).getD []) a v) } k id h hg rfl
    (by intro i hi; simp [valOf, get?_set, Ne.symm hi])]
  simp [valOf]

theorem delAttrEdge_abs (s : Store) (h : Inv s) (raw : List Nat) (t : TimeArg) (a : Nat) :
    abs (delAttrEdge s raw t a).1 = (Spec.delAttrEdge (abs s) raw t a).1 ∧
    (delAttrEdge s raw t a).2 = (Spec.delAttrEdge (abs s) raw t a).2 := by
  unfold delAttrEdge Spec.delAttrEdge
  rw [recOf_abs]
  unfold idOf
  cases mkKey raw t with
  | none => exact ⟨rfl, rfl⟩
  | some k =>
    simp only [Option.bind_some]
    cases hg : get? s.edgeList k with
    | none => exact ⟨rfl, rfl⟩
    | some id =>
      simp only [Option.map_some, valOf]
      split
      · refine ⟨?_, rfl⟩
        rw [abs_eq_iff]
        refine ⟨rfl, rfl, ?_, rfl⟩
        simp only [abs]
        rw [records_update s { s with emeta := AL.set s.emeta id (AL.erase ((AL.get? s.emeta id).getD []) a) } k id h hg rfl
          (by intro i hi; simp [valOf, get?_set, Ne.symm hi])]
        simp [valOf]
      · exact ⟨rfl, rfl⟩

theorem applyOp_abs (s : Store) (h : Inv s) (o : SOp) (hwf : o.WF) :
    abs (applyOp s o).1 = (Spec.applyOp (abs s) o).1 ∧ (applyOp s o).2 = (Spec.applyOp (abs s) o).2 := by
  cases o with
  | addNode n md => exact ⟨addNode_abs s n md, rfl⟩
  | addNodes ns mds => exact addNodes_abs s h ns mds
  | addEdge raw t w md => exact addEdge_abs s h raw hwf t w md
  | addEdges raws ts ws mds => exact addEdges_abs s h raws hwf ts ws mds
  | removeEdge raw t => exact removeEdge_abs s h raw t
  | removeEdges recs => exact removeEdges_abs s h recs
  | removeNode n keep => exact removeNode_abs s h n keep
  | removeNodes ns keep => exact removeNodes_abs s h ns keep
  | setWeight raw t w => exact setWeight_abs s h raw t w
  | setNodeMeta n md =>
    simp only [applyOp, Spec.applyOp, setNodeMeta, Spec.setNodeMeta]
    have : (abs s).nodes = s.nmeta := rfl
    rw [this]; split <;> exact ⟨rfl, rfl⟩
  | setEdgeMeta raw t md => exact setEdgeMeta_abs s h raw t md
  | setHMeta md => exact ⟨rfl, rfl⟩
  | attrH k v => exact ⟨rfl, rfl⟩
  | attrNode n k v =>
    simp only [applyOp, Spec.applyOp, attrNode, Spec.attrNode]
    have : (abs s).nodes = s.nmeta := rfl
    rw [this]; cases get? s.nmeta n <;> exact ⟨rfl, rfl⟩
  | attrEdge raw t k v => exact attrEdge_abs s h raw t k v
  | delAttrNode n k =>
    simp only [applyOp, Spec.applyOp, delAttrNode, Spec.delAttrNode]
    have : (abs s).nodes = s.nmeta := rfl
    rw [this]
    cases get? s.nmeta n with
    | none => exact ⟨rfl, rfl⟩
    | some md => simp only []; split <;> exact ⟨rfl, rfl⟩
  | delAttrEdge raw t k => exact delAttrEdge_abs s h raw t k
  | clear => exact ⟨rfl, rfl⟩

/-! ### histories -/

/-- abstraction of the whole state, slot by slot -/
def absState (st : State) : SpecState := mapVals abs st

theorem abs_new (w : Bool) : abs (Store.new w) = Spec.new w := rfl

theorem step_abs (st : State) (hst : StateInv st) (op : Op) (hwf : op.WF) :
    absState (step st op).1 = specStep (absState st) op := by
  cases op with
  | new i w => simp only [step, specStep, absState, mapVals_set, abs_new]
  | on i o =>
    simp only [step, specStep, absState, get?_mapVals]
    cases hg : get? st i with
    | none => rfl
    | some s =>
      simp only [Option.map_some, mapVals_set]
      rw [(applyOp_abs s (hst (i, s) (mem_of_get? _ _ _ hg)) o hwf).1]
  | copy i j =>
    simp only [step, specStep, absState, get?_mapVals]
    cases hg : get? st i with
    | none => rfl
    | some s => simp only [Option.map_some, mapVals_set]
  | query i q =>
    simp only [step, specStep]
    cases get? st i <;> rfl

theorem run_abs (ops : List Op) (hwf : ∀ op ∈ ops, op.WF) (st : State) (hst : StateInv st) :
    absState (run st ops) = specRun (absState st) ops := by
  induction ops generalizing st with
  | nil => rfl
  | cons op ops ih =>
    simp only [run, specRun, List.foldl_cons]
    have h1 := step_abs st hst op (hwf op (by simp))
    have := ih (fun o ho => hwf o (by simp [ho])) _ (step_inv st hst op (hwf op (by simp)))
    simp only [run, specRun] at this
    rw [this, h1]

/-- the outcome (accepted / rejected) of every mutating call is the outcome on the map -/
theorem step_out_abs (st : State) (hst : StateInv st) (i : Nat) (o : SOp) (hwf : o.WF) :
    (step st (.on i o)).2 = match get? (absState st) i with
      | none => .out .rej
      | some sp => .out (Spec.applyOp sp o).2 := by
  simp only [step, absState, get?_mapVals]
  cases hg : get? st i with
  | none => rfl
  | some s =>
    simp only [Option.map_some]
    rw [(applyOp_abs s (hst (i, s) (mem_of_get? _ _ _ hg)) o hwf).2]

end C03

namespace C03
open AL

/-! ### queries: the view of a store is the view of its abstraction -/

theorem weightOfKey_abs (s : Store) (h : Inv s) (k : Key) : weightOfKey s k = (get? (abs s).recs k).map (·.1) := by
  have hk : get? (abs s).recs k = (get? s.edgeList k).map (valOf s) := get?_records s k
  rw [hk]
  unfold weightOfKey
  cases hg : get? s.edgeList k with
  | none => rfl
  | some id =>
    obtain ⟨w, hw⟩ := Option.isSome_iff_exists.mp ((h.wKeys id).mpr (by simp [h.rev_of_edge k id hg]))
    simp [valOf, hw]

theorem metaOfKey_abs (s : Store) (h : Inv s) (k : Key) : metaOfKey s k = (get? (abs s).recs k).map (·.2) := by
  have hk : get? (abs s).recs k = (get? s.edgeList k).map (valOf s) := get?_records s k
  rw [hk]
  unfold metaOfKey
  cases hg : get? s.edgeList k with
  | none => rfl
  | some id =>
    obtain ⟨w, hw⟩ := Option.isSome_iff_exists.mp ((h.mKeys id).mpr (by simp [h.rev_of_edge k id hg]))
    simp [valOf, hw]

theorem inc_abs (s : Store) (h : Inv s) (n : Node) :
    (get? s.adj n).map (fun ids => ids.filterMap (get? s.rev)) =
      if (get? (abs s).nodes n).isSome then some ((keys (abs s).recs).filter (fun k => k.2.contains n)) else none := by
  have hsame := h.nt.same n
  have hkeys : keys (abs s).recs = edgeKeys s := keys_records s
  cases hadj : get? s.adj n with
  | none =>
    have : (get? (abs s).nodes n).isSome = false := by
      simp only [abs]
      cases h2 : (get? s.nmeta n).isSome
      · rfl
      · have := hsame.mpr h2; simp [hadj] at this
    simp [this]
  | some ids =>
    have : (get? (abs s).nodes n).isSome = true := by
      simp only [abs]; exact hsame.mp (by simp [hadj])
    simp only [this, if_true, Option.map_some, hkeys]
    congr 1
    rw [h.adj_char n ids hadj, filterMap_rev_ids s h _ (fun p hp => (List.mem_filter.mp hp).1)]
    simp only [edgeKeys, keys]
    rw [List.filter_map]
    rfl

theorem view_abs (s : Store) (h : Inv s) :
    view s = { Spec.view (abs s) with idMeta := s.emeta, items := s.edgeList } := by
  simp only [view, Spec.view]
  congr 1
  · exact (keys_records s).symm
  · funext k; exact weightOfKey_abs s h k
  · funext k; exact metaOfKey_abs s h k
  · funext k; exact (isSome_recs s k).symm
  · funext n; exact inc_abs s h n

/-- a query that does not expose ids does not read the id fields of the view -/
theorem answer_ignores_ids (v : View) (im : List (Nat × Meta)) (it : List (Key × Nat)) (q : Query)
    (hq : q.exposesIds = false) : V.answer { v with idMeta := im, items := it } q = V.answer v q := by
  cases q <;> first | rfl | (rename_i b; cases b <;> rfl) | (simp [Query.exposesIds] at hq)

/-- every query (except the two id listings) is answered by the store exactly as by the map of its history -/
theorem answer_abs (s : Store) (h : Inv s) (q : Query) (hq : q.exposesIds = false) :
    answer s q = Spec.answer (abs s) q := by
  unfold answer Spec.answer
  rw [view_abs s h]
  exact answer_ignores_ids _ _ _ q hq

end C03
