import Hgxv.Proofs.C01X
import Hgxv.Proofs.C01Shrink
/-! C01, extension round: what `subhypergraph(nodes)` builds, in declarative terms (lookups on the abstract hypergraph).
`Spec.subhypergraph` is written as the code runs (`add_nodes`, one `set_node_metadata(get_node_metadata)` per listed node,
one `add_edge(get_weight, get_edge_metadata)` per hyperedge inside the node list); here its outcome and result are
characterised.  Core Lean only. -/
namespace C01
open AL

/-! ### `add_nodes(nodes)` on a fresh object -/

theorem spec_addNode_none_get (h : Spec) (n m : Node) :
    get? (Spec.addNode h n none).nodes m = if m = n then some ((get? h.nodes n).getD []) else get? h.nodes m := by
  unfold Spec.addNode Spec.touchNode
  cases hg : get? h.nodes n with
  | none =>
    simp only [Option.isSome_none, Bool.false_eq_true, if_false, get?_set_self, Option.getD_none]
    rw [get?_set, get?_set]
    by_cases hmn : m = n
    · subst hmn; simp
    · have : ¬ n = m := fun e => hmn e.symm
      simp [hmn, this]
  | some md =>
    simp only [Option.isSome_some, if_true, hg, Option.getD_some]
    cases md with
    | nil =>
      simp only [Option.getD_none]
      rw [get?_set]
      by_cases hmn : m = n
      · subst hmn; simp
      · have : ¬ n = m := fun e => hmn e.symm
        simp [hmn, this]
    | cons p t =>
      by_cases hmn : m = n
      · subst hmn; simp [hg]
      · simp [hmn]

theorem spec_addNode_none_fields (h : Spec) (n : Node) :
    (Spec.addNode h n none).edges = h.edges ∧ (Spec.addNode h n none).weighted = h.weighted ∧
      (Spec.addNode h n none).hmeta = h.hmeta := by
  unfold Spec.addNode Spec.touchNode
  split <;> (simp only []; split <;> exact ⟨rfl, rfl, rfl⟩)

theorem spec_addNodes_none : ∀ (ns : List Node) (h : Spec),
    (ns.foldl (fun a n => Spec.addNode a n none) h).edges = h.edges ∧
    (ns.foldl (fun a n => Spec.addNode a n none) h).weighted = h.weighted ∧
    (ns.foldl (fun a n => Spec.addNode a n none) h).hmeta = h.hmeta ∧
      ∀ m, get? (ns.foldl (fun a n => Spec.addNode a n none) h).nodes m = if (get? h.nodes m).isSome then get? h.nodes m else if m ∈ ns then some [] else none := by
  intro ns
  induction ns with
  | nil =>
    intro h
    refine ⟨rfl, rfl, rfl, ?_⟩
    intro m
    cases hg : get? h.nodes m <;> simp [hg]
  | cons n ns ih =>
    intro h
    simp only [List.foldl_cons]
    obtain ⟨e1, e2, e3, e4⟩ := ih (Spec.addNode h n none)
    obtain ⟨f1, f2, f3⟩ := spec_addNode_none_fields h n
    refine ⟨e1.trans f1, e2.trans f2, e3.trans f3, ?_⟩
    intro m
    rw [e4 m, spec_addNode_none_get]
    by_cases hmn : m = n
    · subst hmn
      cases hg : get? h.nodes m <;> simp
    · cases hg : get? h.nodes m <;> simp [hmn]

/-! ### the metadata loop -/

theorem spec_copyNodeMeta_step (a h : Spec) (n : Node) (md : Meta) (ha : get? a.nodes n = some md)
    (hh : (get? h.nodes n).isSome) :
    Spec.copyNodeMeta a h n = ({ h with nodes := AL.set h.nodes n md }, .ok) := by
  unfold Spec.copyNodeMeta Spec.setNodeMeta
  simp [ha, hh]

theorem spec_copyNodeMeta_rej (a h : Spec) (n : Node) (ha : get? a.nodes n = none) :
    Spec.copyNodeMeta a h n = (h, .rej) := by
  unfold Spec.copyNodeMeta
  simp [ha]

theorem spec_copyNodeMetas (a : Spec) : ∀ (ns : List Node) (h : Spec), (∀ n ∈ ns, (get? h.nodes n).isSome) →
    ((seqOps (Spec.copyNodeMeta a) h ns).2 = .ok ↔ ∀ n ∈ ns, (get? a.nodes n).isSome) ∧
    ((∀ n ∈ ns, (get? a.nodes n).isSome) →
      (seqOps (Spec.copyNodeMeta a) h ns).1.edges = h.edges ∧
      (seqOps (Spec.copyNodeMeta a) h ns).1.weighted = h.weighted ∧
      (seqOps (Spec.copyNodeMeta a) h ns).1.hmeta = h.hmeta ∧
      ∀ m, get? (seqOps (Spec.copyNodeMeta a) h ns).1.nodes m = if m ∈ ns then get? a.nodes m else get? h.nodes m) := by
  intro ns
  induction ns with
  | nil =>
    intro h _
    refine ⟨⟨fun _ _ hn => (by cases hn), fun _ => rfl⟩, fun _ => ⟨rfl, rfl, rfl, fun m => (by simp [seqOps])⟩⟩
  | cons n ns ih =>
    intro h hh
    cases hg : get? a.nodes n with
    | none =>
      simp only [seqOps, spec_copyNodeMeta_rej a h n hg]
      refine ⟨⟨fun hc => (by cases hc), fun hall => ?_⟩, fun hall => ?_⟩ <;>
      · have := hall n List.mem_cons_self
        rw [hg] at this; cases this
    | some md =>
      have hstep := spec_copyNodeMeta_step a h n md hg (hh n List.mem_cons_self)
      simp only [seqOps, hstep]
      have hh' : ∀ x ∈ ns, (get? (AL.set h.nodes n md) x).isSome := by
        intro x hx
        rw [isSome_set]
        simp [hh x (List.mem_cons_of_mem _ hx)]
      obtain ⟨i1, i2⟩ := ih { h with nodes := AL.set h.nodes n md } hh'
      refine ⟨⟨fun hc x hx => ?_, fun hall => ?_⟩, fun hall => ?_⟩
      · rcases List.mem_cons.mp hx with hx | hx
        · subst hx; rw [hg]; rfl
        · exact i1.mp hc x hx
      · exact i1.mpr (fun x hx => hall x (List.mem_cons_of_mem _ hx))
      · obtain ⟨j1, j2, j3, j4⟩ := i2 (fun x hx => hall x (List.mem_cons_of_mem _ hx))
        refine ⟨j1, j2, j3, ?_⟩
        intro m
        rw [j4 m]
        by_cases hm : m ∈ ns
        · simp [hm]
        · simp only [hm, if_false, List.mem_cons, or_false]
          rw [get?_set]
          by_cases hmn : m = n
          · subst hmn; simp [hg]
          · have : ¬ n = m := fun e => hmn e.symm
            simp [hmn, this]

/-! ### the hyperedge loop -/

/-- `add_edge` of a canonical key that is not there yet and whose nodes are nodes already: one new map entry -/
theorem spec_addEdge_fresh (h : Spec) (e : Edge) (w : Option Int) (md : Meta) (hc : canon e = e)
    (hacc : h.weighted = true ∨ w = none) (hg : get? h.edges e = none) (hn : ∀ m ∈ e, (get? h.nodes m).isSome) :
    Spec.addEdge h e w (some md) =
      ({ h with edges := h.edges ++ [(e, (if h.weighted then w.getD one else one, md))] }, .ok) := by
  have hrej : (!h.weighted && w.isSome && (w != some one)) = false := by
    rcases hacc with hw | hw
    · simp [hw]
    · subst hw; simp
  unfold Spec.addEdge
  rw [if_neg (by rw [hrej]; simp)]
  simp only [hc, hg, Option.getD_some]
  rw [foldl_touch_present]
  · rw [set_of_not_mem _ _ _ hg]
  · intro m hm; exact hn m hm

theorem spec_copyEdges (a : Spec) (ha : SWF a) : ∀ (es : List Edge) (h : Spec), es.Nodup →
    (∀ e ∈ es, (get? a.edges e).isSome) → (∀ e ∈ es, get? h.edges e = none) →
    (∀ e ∈ es, ∀ m ∈ e, (get? h.nodes m).isSome) → h.weighted = a.weighted →
    (seqOps (Spec.copyEdge a) h es).2 = .ok ∧
    (seqOps (Spec.copyEdge a) h es).1.nodes = h.nodes ∧
    (seqOps (Spec.copyEdge a) h es).1.weighted = h.weighted ∧
    (seqOps (Spec.copyEdge a) h es).1.hmeta = h.hmeta ∧
    keys (seqOps (Spec.copyEdge a) h es).1.edges = keys h.edges ++ es ∧
    ∀ x, get? (seqOps (Spec.copyEdge a) h es).1.edges x = if x ∈ es then get? a.edges x else get? h.edges x := by
  intro es
  induction es with
  | nil =>
    intro h _ _ _ _ _
    refine ⟨rfl, rfl, rfl, rfl, by simp [seqOps], fun x => by simp [seqOps]⟩
  | cons e es ih =>
    intro h hnd hpres hfree hnodes hw
    obtain ⟨v, hv⟩ := Option.isSome_iff_exists.mp (hpres e List.mem_cons_self)
    obtain ⟨w0, md0⟩ := v
    obtain ⟨_, hcan, _⟩ := ha.key e (hpres e List.mem_cons_self)
    have hval : (if h.weighted then (if a.weighted then some (Spec.weightOf a e) else none).getD one else one,
        Spec.emetaOf a e) = (w0, md0) := by
      obtain ⟨q1, q2⟩ := spec_weightOf_get a e w0 md0 hv
      rw [hw, q1, q2]
      cases hwt : a.weighted with
      | true => simp
      | false => simp [ha.unw hwt e w0 md0 hv]
    have hstep : Spec.copyEdge a h e = ({ h with edges := h.edges ++ [(e, (w0, md0))] }, .ok) := by
      unfold Spec.copyEdge
      rw [spec_addEdge_fresh h e _ _ hcan ?_ (hfree e List.mem_cons_self) (hnodes e List.mem_cons_self), hval]
      rw [hw]
      cases a.weighted <;> simp
    simp only [seqOps, hstep]
    have hne : ∀ x ∈ es, x ≠ e := fun x hx hxe => (List.nodup_cons.mp hnd).1 (hxe ▸ hx)
    have happ : h.edges ++ [(e, (w0, md0))] = AL.set h.edges e (w0, md0) :=
      (set_of_not_mem _ _ _ (hfree e List.mem_cons_self)).symm
    obtain ⟨r1, r2, r3, r4, r5, r6⟩ := ih { h with edges := h.edges ++ [(e, (w0, md0))] } (List.nodup_cons.mp hnd).2
      (fun x hx => hpres x (List.mem_cons_of_mem _ hx))
      (fun x hx => by
        show get? (h.edges ++ [(e, (w0, md0))]) x = none
        rw [happ, get?_set_ne _ _ _ _ (fun h' => hne x hx h'.symm)]
        exact hfree x (List.mem_cons_of_mem _ hx))
      (fun x hx => hnodes x (List.mem_cons_of_mem _ hx)) hw
    refine ⟨r1, r2, r3, r4, ?_, ?_⟩
    · rw [r5]
      show keys (h.edges ++ [(e, (w0, md0))]) ++ es = keys h.edges ++ e :: es
      simp [keys]
    · intro x
      rw [r6 x]
      show (if x ∈ es then get? a.edges x else get? (h.edges ++ [(e, (w0, md0))]) x) = _
      rw [happ, get?_set]
      by_cases hxe : x = e
      · subst hxe
        have : x ∉ es := (List.nodup_cons.mp hnd).1
        simp [this, hv]
      · have : ¬ e = x := fun h' => hxe h'.symm
        simp [hxe, this]

/-! ### `subhypergraph(nodes)` -/

theorem mem_of_insideOf {ns : List Node} {e : Edge} (h : insideOf ns e = true) : ∀ m ∈ e, m ∈ ns := by
  intro m hm
  unfold insideOf at h
  have := List.all_eq_true.mp h m hm
  simpa using this

/-- outcome and result of `subhypergraph(nodes)` on an abstract hypergraph of a history -/
theorem spec_subhypergraph (a : Spec) (ha : SWF a) (ns : List Node) :
    ((Spec.subhypergraph a ns).2 = .ok ↔ ∀ n ∈ ns, (get? a.nodes n).isSome) ∧
    ((∀ n ∈ ns, (get? a.nodes n).isSome) →
      (Spec.subhypergraph a ns).1.weighted = a.weighted ∧
      (Spec.subhypergraph a ns).1.hmeta = initHMeta a.weighted [] ∧
      (∀ m, get? (Spec.subhypergraph a ns).1.nodes m = if m ∈ ns then get? a.nodes m else none) ∧
      keys (Spec.subhypergraph a ns).1.edges = (keys a.edges).filter (insideOf ns) ∧
      ∀ x, get? (Spec.subhypergraph a ns).1.edges x = if insideOf ns x then get? a.edges x else none) := by
  obtain ⟨a1, a2, a3, a4⟩ := spec_addNodes_none ns (Spec.new a.weighted [])
  generalize hh1 : ns.foldl (fun a n => Spec.addNode a n none) (Spec.new a.weighted []) = h1 at a1 a2 a3 a4
  have hadd : Spec.addNodes (Spec.new a.weighted []) ns none = (h1, .ok) := by
    unfold Spec.addNodes; rw [hh1]
  have hnew : ∀ m, get? (Spec.new a.weighted []).nodes m = none := fun m => rfl
  have h1nodes : ∀ m, get? h1.nodes m = if m ∈ ns then some [] else none := by
    intro m; rw [a4 m, hnew m]; simp
  have h1pres : ∀ n ∈ ns, (get? h1.nodes n).isSome := by
    intro n hn; rw [h1nodes n]; simp [hn]
  obtain ⟨b1, b2⟩ := spec_copyNodeMetas a ns h1 h1pres
  unfold Spec.subhypergraph
  rw [hadd]
  simp only [andThen]
  generalize hh2 : seqOps (Spec.copyNodeMeta a) h1 ns = r2 at b1 b2
  obtain ⟨h2, o2⟩ := r2
  simp only at b1 b2
  cases o2 with
  | rej =>
    simp only []
    refine ⟨⟨fun hc => (by cases hc), fun hall => ?_⟩, fun hall => ?_⟩ <;>
    · have := b1.mpr hall; cases this
  | ok =>
    simp only []
    have hall : ∀ n ∈ ns, (get? a.nodes n).isSome := b1.mp rfl
    obtain ⟨c1, c2, c3, c4⟩ := b2 hall
    have hes_mem : ∀ e, e ∈ (keys a.edges).filter (insideOf ns) ↔ e ∈ keys a.edges ∧ insideOf ns e = true := by
      intro e; exact List.mem_filter
    obtain ⟨d1, d2, d3, d4, d5, d6⟩ := spec_copyEdges a ha ((keys a.edges).filter (insideOf ns)) h2
      ((List.filter_sublist).nodup ha.knd)
      (fun e he => (mem_keys_iff _ _).mp ((hes_mem e).mp he).1)
      (fun e _ => by rw [c1, a1]; rfl)
      (fun e he m hm => by
        rw [c4 m]
        have := mem_of_insideOf ((hes_mem e).mp he).2 m hm
        simp only [this, if_true]
        exact hall m this)
      (by rw [c2, a2]; rfl)
    refine ⟨⟨fun _ => hall, fun _ => d1⟩, fun _ => ⟨?_, ?_, ?_, ?_, ?_⟩⟩
    · rw [d3, c2, a2]; rfl
    · rw [d4, c3, a3]; rfl
    · intro m
      rw [d2, c4 m, h1nodes m]
      by_cases hm : m ∈ ns <;> simp [hm]
    · rw [d5, c1, a1]; rfl
    · intro x
      rw [d6 x, c1, a1]
      by_cases hin : insideOf ns x = true
      · by_cases hk : x ∈ keys a.edges
        · have : x ∈ (keys a.edges).filter (insideOf ns) := (hes_mem x).mpr ⟨hk, hin⟩
          simp [this, hin]
        · have hnone : get? a.edges x = none := (get?_eq_none_iff _ _).mpr hk
          have : x ∉ (keys a.edges).filter (insideOf ns) := fun h' => hk ((hes_mem x).mp h').1
          simp only [this, if_false, hin, if_true, hnone]
          rfl
      · have : x ∉ (keys a.edges).filter (insideOf ns) := fun h' => hin ((hes_mem x).mp h').2
        simp only [this, if_false, hin]
        rfl

end C01
