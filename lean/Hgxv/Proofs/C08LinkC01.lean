import Hgxv.Proofs.C08Bfs
import Hgxv.Proofs.C08Nbrs
import Hgxv.Proofs.C01Query
/-! # C08 ↔ C01: the routines of C08 on what a `Hypergraph` object of the full container model lists (core Lean only)

The C08 model (`Hgxv/Model/C08.lean`) takes listings: a node list and a list of hyperedges.  The full model of the
class (`Hgxv/Model/C01.lean`) has a concrete id-indexed `Store`, `answer : Store → Query → Ans` for every getter and
the invariant `C01.Inv`, which holds after every history (`C01.run_inv`).  This file composes the two:

* `nodesOf s` / `edgesOf s` are what `get_nodes()` / `get_edges()` of the object list (`answer_nodes`, `answer_edges`);
  under `Inv` they satisfy every hypothesis the C08 theorems use (`listing_wf`) and they are the key lists of the
  abstract content `C01.abs s` (`listing_abs`);
* a C08 filter `f` is the keyword pair `toFilter f` of the getters; the getters of the object answer exactly what the C08
  functions compute from the two listings: `get_incident_edges` = `incident`, `get_neighbors` = `neighbors` (same
  listing order: `set.update` per hyperedge is `eraseDups` of the concatenation), `degree` = `degree?`,
  `degree_sequence` = `degreeSeq`, `degree_distribution` = `degreeDist` (same dict order), `isolated_nodes`,
  `is_isolated`;
* `bfsObj` / `componentsObj` run the code of `_bfs` / `connected_components` against the GETTERS of the object
  (`check_node`, `get_neighbors`, `get_nodes`) - no listing of hyperedges is handed over; under `Inv` they are `bfsH` /
  `components` of the two listings (`bfsObj_eq`, `componentsObj_eq`). -/
namespace C08
namespace Link
open AL

/-! ## filters -/

/-- the `order=` / `size=` keywords of the C01 getters for a C08 filter -/
def toFilter : Filt → C01.Filter
  | .none => {}
  | .size s => { size := some s }
  | .order o => { order := some o }

/-- the order the getters compare `len(edge) - 1` with -/
def ord : Filt → Option Int
  | .none => none
  | .size s => some (s - 1)
  | .order o => some o

theorem resolve_toFilter (f : Filt) : (toFilter f).resolve = some (ord f) := by
  cases f <;> rfl

theorem keepEdge_ord (f : Filt) (e : List Nat) : C01.keepEdge (ord f) false e = passes f e.length := by
  cases f <;> rfl

/-! ## what the object lists -/

/-- `get_nodes()` -/
def nodesOf (s : C01.Store) : List Nat := keys s.adj
/-- `get_edges()` (no filter) -/
def edgesOf (s : C01.Store) : List Edge := keys s.edgeList

theorem answer_nodes (s : C01.Store) : C01.answer s .nodes = .nats (nodesOf s) := rfl

theorem answer_edges (s : C01.Store) : C01.answer s (.edges {}) = .edges (edgesOf s) := by
  simp [C01.answer, C01.edgesF, C01.Filter.resolve, C01.ofOpt, C01.keepEdge, edgesOf]

theorem mem_nodesOf (s : C01.Store) (n : Nat) : n ∈ nodesOf s ↔ (get? s.adj n).isSome = true :=
  C01.mem_keys_iff _ _

/-- the listings are the key lists of the abstract content -/
theorem listing_abs {s : C01.Store} (h : C01.Inv s) :
    nodesOf s = keys (C01.abs s).nodes ∧ edgesOf s = keys (C01.abs s).edges :=
  ⟨(C01.nodes_keys h).symm, (C01.abs_keys s).symm⟩

/-- every hypothesis of the C08 theorems, for the listings of an object satisfying the class invariant -/
theorem listing_wf {s : C01.Store} (h : C01.Inv s) :
    (nodesOf s).Nodup ∧ (edgesOf s).Nodup ∧ WF (nodesOf s) (edgesOf s) ∧
    (∀ e ∈ edgesOf s, e.Nodup) ∧ (∀ e ∈ edgesOf s, e.Pairwise (· ≤ ·)) := by
  have hid : ∀ e ∈ edgesOf s, ∃ id, get? s.edgeList e = some id := fun e he =>
    Option.isSome_iff_exists.mp ((C01.mem_keys_iff _ _).mp he)
  refine ⟨h.adj_nodup, h.el_nodup, ?_, ?_, ?_⟩
  · intro e he x hx
    obtain ⟨id, hid⟩ := hid e he
    exact (mem_nodesOf s x).mpr (h.nodes_in id e (h.rev_of_edge _ _ hid) x hx)
  · intro e he
    obtain ⟨id, hid⟩ := hid e he
    exact (h.key_canon e id hid).1
  · intro e he
    obtain ⟨id, hid⟩ := hid e he
    rw [← (h.key_canon e id hid).2]
    exact C01.canon_sorted e

/-! ## `set.update` per hyperedge = first occurrences of the concatenation -/

theorem foldl_addNew_eq (xs : List Nat) : ∀ acc : List Nat,
    xs.foldl addNew acc = acc ++ (xs.filter (fun x => decide (x ∉ acc))).eraseDups := by
  induction xs with
  | nil => intro acc; simp
  | cons a t ih =>
    intro acc
    simp only [List.foldl_cons, List.filter_cons]
    by_cases ha : a ∈ acc
    · simp only [addNew, ha, if_true, not_true_eq_false, decide_false, Bool.false_eq_true, if_false]
      exact ih acc
    · simp only [addNew, ha, if_false, not_false_eq_true, decide_true, if_true]
      rw [ih, List.eraseDups_cons, List.append_assoc, List.filter_filter]
      simp only [List.singleton_append]
      congr 3
      apply List.filter_congr
      intro x _
      by_cases hxa : x = a
      · subst hxa; simp
      · simp [hxa]

theorem foldl_addAll_eq (l : List Edge) : l.foldl addAll [] = l.flatten.eraseDups := by
  have h : ∀ (l : List Edge) (acc : List Nat), l.foldl addAll acc = l.flatten.foldl addNew acc := by
    intro l
    induction l with
    | nil => intro acc; rfl
    | cons e t ih => intro acc; simp only [List.foldl_cons, List.flatten_cons, List.foldl_append, ih]; rfl
  rw [h, foldl_addNew_eq, List.nil_append]
  congr 1
  apply List.filter_eq_self.mpr
  intro a _
  simp

/-- C01's `get_neighbors` body on a list of hyperedges is C08's -/
theorem unionWithout_eq (n : Nat) (l : List Edge) :
    C01.unionWithout n l = (l.foldl addAll []).filter (fun x => x != n) := by
  unfold C01.unionWithout
  rw [foldl_addAll_eq]
  apply List.filter_congr
  intro x _
  by_cases hx : x = n <;> simp [hx]

/-! ## the getters of the object answer what the C08 functions compute from the two listings -/

theorem incidentKeys_eq {s : C01.Store} (h : C01.Inv s) (n : Nat) (hn : n ∈ nodesOf s) (f : Filt) :
    (C01.incidentKeys s n).filter (C01.keepEdge (ord f) false) = incident (edgesOf s) n f := by
  rw [h.incidentKeys_eq n ((mem_nodesOf s n).mp hn), List.filter_filter]
  unfold incident incidentG edgesOf
  apply List.filter_congr
  intro e _
  rw [keepEdge_ord, Bool.and_comm]
  rfl

/-- `get_incident_edges(n, order|size)` -/
theorem answer_incident {s : C01.Store} (h : C01.Inv s) (n : Nat) (f : Filt) :
    C01.answer s (.incident n (toFilter f)) =
      if n ∈ nodesOf s then .edges (incident (edgesOf s) n f) else .rej := by
  by_cases hn : n ∈ nodesOf s
  · have hn' := (mem_nodesOf s n).mp hn
    simp only [C01.answer, C01.incidentF, hn', resolve_toFilter, C01.ofOpt, hn, if_true, Bool.not_true,
      Bool.false_eq_true, if_false, Option.map_some, incidentKeys_eq h n hn f]
  · have hn' : (get? s.adj n).isSome = false := by
      cases hg : (get? s.adj n).isSome with
      | false => rfl
      | true => exact absurd ((mem_nodesOf s n).mpr hg) hn
    simp only [C01.answer, C01.incidentF, hn', C01.ofOpt, hn, if_false, Bool.not_false, if_true]

/-- `get_neighbors(n, order|size)`: the same listing, in the same order -/
theorem answer_neighbors {s : C01.Store} (h : C01.Inv s) (n : Nat) (f : Filt) :
    C01.answer s (.neighbors n (toFilter f)) =
      if n ∈ nodesOf s then .nats (neighbors (edgesOf s) f n) else .rej := by
  by_cases hn : n ∈ nodesOf s
  · have hn' := (mem_nodesOf s n).mp hn
    simp only [C01.answer, C01.neighborsF, C01.incidentF, hn', resolve_toFilter, C01.ofOpt, hn, if_true, Bool.not_true,
      Bool.false_eq_true, if_false, Option.map_some, incidentKeys_eq h n hn f, unionWithout_eq]
    rfl
  · have hn' : (get? s.adj n).isSome = false := by
      cases hg : (get? s.adj n).isSome with
      | false => rfl
      | true => exact absurd ((mem_nodesOf s n).mpr hg) hn
    simp only [C01.answer, C01.neighborsF, C01.incidentF, hn', C01.ofOpt, hn, if_false, Bool.not_false, if_true,
      Option.map_none]

/-- `degree(hg, n, order|size)` -/
theorem answer_degree {s : C01.Store} (h : C01.Inv s) (n : Nat) (f : Filt) :
    C01.answer s (.degree n (toFilter f)) =
      match degree? (nodesOf s) (edgesOf s) n f with
      | some d => .int d
      | none => .rej := by
  by_cases hn : n ∈ nodesOf s
  · have hn' := (mem_nodesOf s n).mp hn
    simp only [C01.answer, C01.incidentF, hn', resolve_toFilter, C01.ofOpt, Bool.not_true,
      Bool.false_eq_true, if_false, Option.map_some, incidentKeys_eq h n hn f, degree?, degreeG?, hn, if_true]
    rfl
  · have hn' : (get? s.adj n).isSome = false := by
      cases hg : (get? s.adj n).isSome with
      | false => rfl
      | true => exact absurd ((mem_nodesOf s n).mpr hg) hn
    simp only [C01.answer, C01.incidentF, hn', C01.ofOpt, Bool.not_false, if_true, degree?, degreeG?, hn, if_false]

theorem degreeSeqF_eq {s : C01.Store} (h : C01.Inv s) (f : Filt) :
    C01.degreeSeqF s (toFilter f) = some (degreeSeq (nodesOf s) (edgesOf s) f) := by
  simp only [C01.degreeSeqF, resolve_toFilter, Option.map_some, degreeSeq, degreeSeqG, degG_toOrder]
  congr 1
  apply List.map_congr_left
  intro n hn
  rw [incidentKeys_eq h n hn f]
  rfl

/-- `degree_sequence(hg, order|size)`: per node, in `get_nodes()` order -/
theorem answer_degreeSeq {s : C01.Store} (h : C01.Inv s) (f : Filt) :
    C01.answer s (.degreeSeq (toFilter f)) =
      .pairs ((degreeSeq (nodesOf s) (edgesOf s) f).map fun p => ((p.1 : Int), p.2)) := by
  simp only [C01.answer, degreeSeqF_eq h f, C01.ofOpt]

/-- one step of `Counter` on integer keys is one step of the `degree_dist[deg] += 1` loop -/
theorem set_bump (d : Nat) (acc : List (Nat × Nat)) :
    AL.set (acc.map fun p => ((p.1 : Int), p.2)) (d : Int)
        (((get? (acc.map fun p => ((p.1 : Int), p.2)) (d : Int)).getD 0) + 1)
      = (bump d acc).map fun p => ((p.1 : Int), p.2) := by
  induction acc with
  | nil => simp [AL.set, bump]
  | cons hd t ih =>
    obtain ⟨k, c⟩ := hd
    by_cases hk : k = d
    · subst hk; simp [AL.set, bump, get?]
    · have hk' : ¬ ((k : Int) = (d : Int)) := by omega
      simp only [List.map_cons, AL.set, get?, hk', if_false, bump, hk, ih]

theorem counter_hist (ds : List Nat) : ∀ acc : List (Nat × Nat),
    (ds.map fun (d : Nat) => (d : Int)).foldl (fun a x => AL.set a x (((get? a x).getD 0) + 1))
        (acc.map fun p => ((p.1 : Int), p.2))
      = (ds.foldl (fun a x => bump x a) acc).map fun p => ((p.1 : Int), p.2) := by
  induction ds with
  | nil => intro acc; rfl
  | cons d t ih => intro acc; simp only [List.map_cons, List.foldl_cons, set_bump, ih]

/-- `degree_distribution(hg, order|size)`: the same dict, in the same order -/
theorem answer_degreeDist {s : C01.Store} (h : C01.Inv s) (f : Filt) :
    C01.answer s (.degreeDist (toFilter f)) =
      .pairs ((degreeDist (nodesOf s) (edgesOf s) f).map fun p => ((p.1 : Int), p.2)) := by
  simp only [C01.answer, degreeSeqF_eq h f, C01.ofOpt, C01.counter]
  congr 1
  have := counter_hist ((degreeSeq (nodesOf s) (edgesOf s) f).map (·.2)) []
  simp only [List.map_nil, List.map_map] at this
  rw [show degreeDist (nodesOf s) (edgesOf s) f
      = ((degreeSeq (nodesOf s) (edgesOf s) f).map (·.2)).foldl (fun a x => bump x a) [] by
    simp only [degreeDist, degreeDistG, degreeSeq, degreeSeqG, toOrder_toOrder, List.foldl_map]]
  rw [← this]
  rfl

/-- `isolated_nodes(order|size)` -/
theorem answer_isolated {s : C01.Store} (h : C01.Inv s) (f : Filt) :
    C01.answer s (.isolated (toFilter f)) = .nats (isolatedNodes (nodesOf s) (edgesOf s) f) := by
  simp only [C01.answer, resolve_toFilter, Option.map_some, C01.ofOpt, isolatedNodes]
  congr 1
  apply List.filter_congr
  intro n hn
  rw [incidentKeys_eq h n hn f, unionWithout_eq]
  rfl

/-- `is_isolated(n, order|size)` -/
theorem answer_isIsolated {s : C01.Store} (h : C01.Inv s) (n : Nat) (f : Filt) :
    C01.answer s (.isIsolated n (toFilter f)) =
      match isIsolated? (nodesOf s) (edgesOf s) f n with
      | some b => .bool b
      | none => .rej := by
  have hnb := answer_neighbors h n f
  simp only [C01.answer, resolve_toFilter] at hnb ⊢
  by_cases hn : n ∈ nodesOf s
  · simp only [hn, if_true] at hnb
    cases hq : C01.neighborsF s n (toFilter f) with
    | none => rw [hq] at hnb; simp [C01.ofOpt] at hnb
    | some l =>
      rw [hq] at hnb
      simp only [C01.ofOpt, C01.Ans.nats.injEq] at hnb
      simp [C01.ofOpt, isIsolated?, hn, hnb]
  · simp only [hn, if_false] at hnb
    cases hq : C01.neighborsF s n (toFilter f) with
    | none => simp [C01.ofOpt, isIsolated?, hn]
    | some l => rw [hq] at hnb; simp [C01.ofOpt] at hnb

/-! ## `_bfs` and `connected_components` run against the getters of the object -/

/-- what `hg.get_neighbors(node, order=, size=)` hands to `_bfs` (`[]` where the call raises: `_bfs` only asks for nodes
of the hypergraph - the start node is checked, every later node is a neighbour of one) -/
def nbrsOf (s : C01.Store) (f : Filt) (n : Nat) : List Nat :=
  match C01.answer s (.neighbors n (toFilter f)) with
  | .nats l => l
  | _ => []

/-- `get_neighbors` raises for everything that is not a node of the object - whatever the tables hold -/
theorem nbrsOf_nil (s : C01.Store) (f : Filt) (x : Nat) (hx : x ∉ nodesOf s) : nbrsOf s f x = [] := by
  have hn' : (get? s.adj x).isSome = false := by
    cases hg : (get? s.adj x).isSome with
    | false => rfl
    | true => exact absurd ((mem_nodesOf s x).mpr hg) hx
  simp [nbrsOf, C01.answer, C01.neighborsF, C01.incidentF, hn', C01.ofOpt]

theorem nbrsOf_eq {s : C01.Store} (h : C01.Inv s) (f : Filt) : nbrsOf s f = neighbors (edgesOf s) f := by
  funext n
  unfold nbrsOf
  rw [answer_neighbors h n f]
  by_cases hn : n ∈ nodesOf s
  · simp [hn]
  · simp only [hn, if_false]
    symm
    apply neighbors_nil_of_not_mem
    intro hx
    obtain ⟨e, he, hne⟩ := List.mem_flatten.mp hx
    exact hn ((listing_wf h).2.2.1 e he n hne)

/-- the visited set of `_bfs(hg, start, order|size)`: queue / visited loop over `hg.get_neighbors` -/
def bfsObj (s : C01.Store) (f : Filt) (start : Nat) : List Nat :=
  bfs (nodesOf s) (nbrsOf s f) (nbrsOf_nil s f) [start] []

/-- `_bfs` with its `check_node` guard -/
def bfsFromObj (s : C01.Store) (f : Filt) (start : Nat) : Option (List Nat) :=
  if C01.answer s (.checkNode start) = .bool true then some (bfsObj s f start) else none

/-- `connected_components(hg, order|size)`: the loop over `hg.get_nodes()` calling `_bfs` -/
def componentsObj (s : C01.Store) (f : Filt) : List (List Nat) :=
  compLoop (bfsObj s f) (nodesOf s) [] []

/-- the termination universe of `bfs` (and the proof that comes with it) does not influence the result -/
theorem bfs_univ (univ univ' : List Nat) (nbrs : Nat → List Nat) (h : ∀ x, x ∉ univ → nbrs x = [])
    (h' : ∀ x, x ∉ univ' → nbrs x = []) :
    ∀ (queue visited : List Nat), bfs univ nbrs h queue visited = bfs univ' nbrs h' queue visited := by
  intro queue visited
  induction queue, visited using bfs.induct univ nbrs h with
  | case1 visited => rw [bfs, bfs]
  | case2 x q visited hx ih => rw [bfs, bfs.eq_def univ']; simp only [hx, if_true]; exact ih
  | case3 x q visited hx ih => rw [bfs, bfs.eq_def univ']; simp only [hx, if_false]; exact ih

theorem bfsObj_eq {s : C01.Store} (h : C01.Inv s) (f : Filt) (start : Nat) :
    bfsObj s f start = bfsH (edgesOf s) f start := by
  unfold bfsObj bfsH
  have hn := nbrsOf_eq h f
  have : ∀ (nb : Nat → List Nat) (hnb : ∀ x, x ∉ nodesOf s → nb x = []) (e : nb = neighbors (edgesOf s) f),
      bfs (nodesOf s) nb hnb [start] [] =
        bfs (edgesOf s).flatten (neighbors (edgesOf s) f) (neighbors_nil_of_not_mem (edgesOf s) f) [start] [] := by
    intro nb hnb e
    subst e
    exact bfs_univ _ _ _ _ _ _ _
  exact this _ _ hn

theorem bfsFromObj_eq {s : C01.Store} (h : C01.Inv s) (f : Filt) (start : Nat) :
    bfsFromObj s f start = bfsFrom (nodesOf s) (edgesOf s) f start := by
  unfold bfsFromObj bfsFrom
  rw [bfsObj_eq h]
  by_cases hn : start ∈ nodesOf s
  · have hn' := (mem_nodesOf s start).mp hn
    simp [C01.answer, hn, hn']
  · have hn' : (get? s.adj start).isSome = false := by
      cases hg : (get? s.adj start).isSome with
      | false => rfl
      | true => exact absurd ((mem_nodesOf s start).mpr hg) hn
    simp [C01.answer, hn, hn']

theorem componentsObj_eq {s : C01.Store} (h : C01.Inv s) (f : Filt) :
    componentsObj s f = components (nodesOf s) (edgesOf s) f := by
  unfold componentsObj components
  have : bfsObj s f = bfsH (edgesOf s) f := funext (bfsObj_eq h f)
  rw [this]

/-! ## histories -/

/-- the class invariant of `Hypergraph` after any history of well-formed public calls -/
theorem inv_of_history (k : Nat) (cs : List C01.Cmd) (hwf : ∀ c ∈ cs, c.WF) (i : Nat) (s : C01.Store)
    (hs : (C01.run (C01.init k) cs)[i]? = some s) : C01.Inv s :=
  C01.run_inv cs (C01.init k) hwf (C01.init_inv k) s (List.mem_of_getElem? hs)

/-- a duplicate-free sorted tuple is strictly increasing -/
theorem sorted_strict (e : List Nat) (h1 : e.Nodup) (h2 : e.Pairwise (· ≤ ·)) : e.Pairwise (· < ·) := by
  induction e with
  | nil => exact List.Pairwise.nil
  | cons a t ih =>
    rw [List.pairwise_cons] at h2 ⊢
    rw [List.nodup_cons] at h1
    refine ⟨fun b hb => ?_, ih h1.2 h2.2⟩
    have := h2.1 b hb
    have hne : a ≠ b := fun hab => h1.1 (hab ▸ hb)
    omega

end Link
end C08
