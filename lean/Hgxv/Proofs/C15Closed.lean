import Hgxv.Proofs.C15Count
/-! # C15 — closed forms of the expected statistics -/
open Finset
namespace C15

theorem pairSum_eq_ite (K : ℕ) (u w : Mat) (s : Finset ℕ) :
    pairSum K u w s = ∑ p ∈ s.offDiag, (fun i j => if i < j then aij K u w i j else 0) p.1 p.2 := by
  unfold pairSum; rw [Finset.sum_filter]

/-- `C15_count`: summing the pair sums of all `d`-subsets counts every pair `C(|V|-2, d-2)` times -/
theorem sum_pairSum_powerset (K : ℕ) (u w : Mat) (V : Finset ℕ) (d : ℕ) (hd : 2 ≤ d) :
    ∑ e ∈ V.powersetCard d, pairSum K u w e = (Nat.choose (V.card - 2) (d - 2) : ℚ) * pairSum K u w V := by
  simp only [pairSum_eq_ite]
  exact count_pairs V d hd (fun i j => if i < j then aij K u w i j else 0)

theorem kappa_eq (N d : ℕ) : kappa N d = (Nat.choose (N - 2) (d - 2) : ℚ) * d * ((d : ℚ) - 1) / 2 := by
  unfold kappa; rw [choose_eq]

theorem choose_pos' (N d : ℕ) (hd : 2 ≤ d) (hN : d ≤ N) : (0 : ℚ) < (Nat.choose (N - 2) (d - 2) : ℚ) := by
  have : 0 < Nat.choose (N - 2) (d - 2) := Nat.choose_pos (by omega)
  exact_mod_cast this

theorem d_pos (d : ℕ) (hd : 2 ≤ d) : (0 : ℚ) < (d : ℚ) ∧ (0 : ℚ) < (d : ℚ) - 1 := by
  have h : (2 : ℚ) ≤ (d : ℚ) := by exact_mod_cast hd
  constructor <;> linarith

theorem kappa_pos (N d : ℕ) (hd : 2 ≤ d) (hN : d ≤ N) : 0 < kappa N d := by
  rw [kappa_eq]
  have h1 := choose_pos' N d hd hN
  obtain ⟨h2, h3⟩ := d_pos d hd
  exact div_pos (mul_pos (mul_pos h1 h2) h3) (by norm_num)

/-- expected number of hyperedges of size `d`:
`Σ_{|e| = d} λ_e / κ_d = 2 / (d (d-1)) · Σ_{i<j} u_iᵀ w u_j` -/
theorem dim_closed (N K : ℕ) (u w : Mat) (d : ℕ) (hd : 2 ≤ d) (hN : d ≤ N) :
    ∑ e ∈ (range N).powersetCard d, pairSum K u w e / kappa N d = Cterm d * pairSum K u w (range N) := by
  rw [← Finset.sum_div, sum_pairSum_powerset K u w (range N) d hd, card_range, kappa_eq]
  have h1 := (choose_pos' N d hd hN).ne'
  obtain ⟨h2, h3⟩ := d_pos d hd
  unfold Cterm
  field_simp

/-- every hyperedge of size `d` is counted once for each of its `d` nodes -/
theorem sum_nodes_powerset (N d : ℕ) (g : Finset ℕ → ℚ) :
    ∑ i ∈ range N, ∑ e ∈ (range N).powersetCard d with i ∈ e, g e
      = (d : ℚ) * ∑ e ∈ (range N).powersetCard d, g e := by
  simp only [Finset.sum_filter]
  rw [Finset.sum_comm, Finset.mul_sum]
  apply Finset.sum_congr rfl
  intro e he
  obtain ⟨hsub, hcard⟩ := mem_powersetCard.mp he
  rw [← Finset.sum_filter, Finset.sum_const, nsmul_eq_mul]
  have : (range N).filter (fun i => i ∈ e) = e := by
    ext i; simp only [mem_filter, and_iff_right_iff_imp]; exact fun h => hsub h
  rw [this, hcard]

theorem sum_sumL (S : Finset ℕ) (ds : List ℕ) (f : ℕ → ℕ → ℚ) :
    ∑ i ∈ S, sumL ds (f i) = sumL ds fun d => ∑ i ∈ S, f i d := by
  induction ds with
  | nil => simp [sumL_nil]
  | cons d ds ih => simp only [sumL_cons, Finset.sum_add_distrib, ih]

end C15
