import Hgxv.Proofs.C01Ops
/-! C01, part 4: lemmas behind the named corollaries (rejected calls change nothing, node order of a
hyperedge is irrelevant, re-insertion). -/
namespace C01
open AL

/-! ### rejected ⇒ unchanged -/

theorem addEdge_weighted (s : Store) (raw : List Nat) (w : Option Int) (md : Option Meta) :
    (addEdge s raw w md).1.weighted = s.weighted := by
  unfold addEdge
  split
  · rfl
  · split
    · simp only [addEdgeNew, (linkNodes_fields _ _ _).2.2.2.2.2.1]
    · rfl

theorem addEdge_rej (s : Store) (raw : List Nat) (w : Option Int) (md : Option Meta)
    (h : (addEdge s raw w md).2 = .rej) : (addEdge s raw w md).1 = s := by
  unfold addEdge at h ⊢
  by_cases hc : (!s.weighted && w.isSome && w != some one) = true
  · rw [if_pos hc]
  · rw [if_neg hc] at h
    cases hg : get? s.edgeList (canon raw) <;> simp [hg] at h

/-- the loop of `add_edges` never rejects: with weights the hypergraph is weighted, without none is passed -/
theorem addEdgesLoop_ok (useW : Bool) : ∀ (xs : List (List Nat × Option Int × Option Meta)) (s : Store),
    (useW = true → s.weighted = true) → (addEdgesLoop useW s xs).2 = .ok := by
  intro xs s h
  unfold addEdgesLoop
  apply seqOps_ok_of_all _ (fun s _ => useW = true → s.weighted = true) _ xs s h
  intro s a as hP
  refine ⟨?_, ?_⟩
  · unfold addEdge
    cases hu : useW with
    | true => simp [hP hu]; split <;> rfl
    | false => simp; split <;> rfl
  · intro hu; rw [addEdge_weighted]; exact hP hu

theorem addEdges_rej (s : Store) (raws : List (List Nat)) (ws : Option (List Int)) (mds : Option (List Meta))
    (h : (addEdges s raws ws mds).2 = .rej) : (addEdges s raws ws mds).1 = s := by
  unfold addEdges at h ⊢
  split
  · rename_i hv
    rw [if_pos hv] at h
    have := addEdgesLoop_ok ws.isSome (zipArgs raws ws mds) { s with weighted := s.weighted || ws.isSome }
      (by intro hu; simp [hu])
    rw [this] at h; cases h
  · rfl

theorem removeEdges_rej (s : Store) (raws : List (List Nat)) (h : (removeEdges s raws).2 = .rej) :
    (removeEdges s raws).1 = s := by
  unfold removeEdges at h ⊢
  split
  · rename_i hv
    rw [if_pos hv] at h
    simp only [Bool.and_eq_true, List.all_eq_true, decide_eq_true_eq] at hv
    rw [removeEdges_loop_ok raws s hv.1 hv.2] at h; cases h
  · rfl

theorem removeNode_rej (s : Store) (n : Node) (keep : Bool) (hi : Inv s) (h : (removeNode s n keep).2 = .rej) :
    (removeNode s n keep).1 = s := by
  by_cases hn : (get? s.adj n).isSome
  · obtain ⟨s1, s2, _, _, h3, _⟩ := removeNode_spec s n keep hi hn
    rw [h3] at h; cases h
  · have : removeNode s n keep = (s, .rej) := by
      simp only [Bool.not_eq_true] at hn
      simp [removeNode, hn]
    rw [this]

theorem removeNodes_loop_ok (keep : Bool) : ∀ (ns : List Node) (s : Store),
    Inv s → (∀ n ∈ ns, (get? s.adj n).isSome) → ns.Nodup →
    (seqOps (fun s n => removeNode s n keep) s ns).2 = .ok := by
  intro ns s hi h1 h2
  apply seqOps_ok_of_all (fun s n => removeNode s n keep)
    (fun s as => Inv s ∧ (∀ n ∈ as, (get? s.adj n).isSome) ∧ as.Nodup) _ ns s ⟨hi, h1, h2⟩
  intro s a as ⟨hi, hp, hn⟩
  have ha := hp a List.mem_cons_self
  obtain ⟨s1, s2, _, _, h3, _, hi2, hfree, hmono⟩ := removeNode_spec s a keep hi ha
  rw [h3]
  refine ⟨rfl, dropNode_inv s2 a hfree hi2, ?_, (List.nodup_cons.mp hn).2⟩
  intro m hm
  have hne : a ≠ m := by intro heq; subst heq; exact (List.nodup_cons.mp hn).1 hm
  simp only [dropNode, get?_del, hne, if_false]
  exact hmono m (hp m (List.mem_cons_of_mem _ hm))

theorem removeNodes_rej (s : Store) (ns : List Node) (keep : Bool) (hi : Inv s)
    (h : (removeNodes s ns keep).2 = .rej) : (removeNodes s ns keep).1 = s := by
  unfold removeNodes at h ⊢
  split
  · rename_i hv
    rw [if_pos hv] at h
    simp only [Bool.and_eq_true, List.all_eq_true, decide_eq_true_eq] at hv
    rw [removeNodes_loop_ok keep ns s hi hv.1 hv.2] at h; cases h
  · rfl

theorem apply_rej (s : Store) (op : Op) (hi : Inv s) (h : (apply s op).2 = .rej) : (apply s op).1 = s := by
  cases op with
  | addNode n md => simp [apply] at h
  | addNodes ns mds =>
    simp only [apply, addNodes] at h ⊢
    split
    · cases h
    · split
      · rename_i hv; simp [hv] at h
      · rfl
  | addEdge raw w md => exact addEdge_rej s raw w md h
  | addEdges raws ws mds => exact addEdges_rej s raws ws mds h
  | removeEdge raw =>
    simp only [apply, removeEdge] at h ⊢
    split
    · rfl
    · rename_i id hid; simp [hid] at h
  | removeEdges raws => exact removeEdges_rej s raws h
  | removeNode n keep => exact removeNode_rej s n keep hi h
  | removeNodes ns keep => exact removeNodes_rej s ns keep hi h
  | setWeight raw w =>
    simp only [apply, setWeight] at h ⊢
    split
    · rfl
    · rename_i hc; simp only [hc] at h
      split
      · rfl
      · rename_i id hid; simp [hid] at h
  | setNodeMeta n md =>
    simp only [apply, setNodeMeta] at h ⊢
    split
    · rename_i hc; simp [hc] at h
    · rfl
  | setEdgeMeta raw md =>
    simp only [apply, setEdgeMeta] at h ⊢
    split
    · rfl
    · rename_i id hid; simp [hid] at h
  | setHMeta md => simp [apply, setHMeta] at h
  | setAttrH k v => simp [apply, setAttrH] at h
  | setAttrNode n k v =>
    simp only [apply, setAttrNode] at h ⊢
    split
    · rfl
    · rename_i md hg; simp [hg] at h
  | setAttrEdge raw k v =>
    simp only [apply, setAttrEdge] at h ⊢
    split
    · rfl
    · rename_i id hid; simp [hid] at h
  | delAttrNode n k =>
    simp only [apply, delAttrNode] at h ⊢
    split
    · rfl
    · rename_i md hg
      simp only [hg] at h
      split
      · rename_i hc; simp [hc] at h
      · rfl
  | delAttrEdge raw k =>
    simp only [apply, delAttrEdge] at h ⊢
    split
    · rfl
    · rename_i id hid
      simp only [hid] at h
      split
      · rename_i hc; simp [hc] at h
      · rfl
  | clear => simp [apply, clear] at h

theorem set_getElem?_self {α : Type} (l : List α) (i : Nat) (a : α) (h : l[i]? = some a) : l.set i a = l := by
  apply List.ext_getElem?
  intro j
  rw [List.getElem?_set]
  by_cases hij : i = j
  · subst hij
    obtain ⟨hlt, heq⟩ := List.getElem?_eq_some_iff.mp h
    simp [hlt, heq]
  · simp [hij]

theorem step_rej (st : State) (c : Cmd) (hi : ∀ s ∈ st, Inv s) (h : (step st c).2 = .rej) : (step st c).1 = st := by
  cases c with
  | new i w hm =>
    simp only [step] at h ⊢
    split
    · rename_i hc; simp [hc] at h
    · rfl
  | copy i j =>
    simp only [step] at h ⊢
    split
    · rename_i s0 hs0
      simp only [hs0] at h
      split
      · rename_i hc; simp [hc] at h
      · rfl
    · rfl
  | on i op =>
    simp only [step] at h ⊢
    split
    · rename_i s0 hs0
      simp only [hs0] at h
      simp only []
      rw [apply_rej s0 op (hi _ (List.mem_of_getElem? hs0)) h]
      exact set_getElem?_self st i s0 hs0
    · rfl

/-! ### node order of a hyperedge -/

theorem seqOps_congr_pairs {α σ : Type} (f : σ → α → σ × Out) :
    ∀ (ps : List (α × α)), (∀ p ∈ ps, ∀ s, f s p.1 = f s p.2) →
      ∀ s, seqOps f s (ps.map (·.1)) = seqOps f s (ps.map (·.2)) := by
  intro ps
  induction ps with
  | nil => intro _ s; rfl
  | cons p ps ih =>
    intro h s
    simp only [List.map_cons, seqOps, h p List.mem_cons_self s]
    split
    · exact ih (fun q hq => h q (List.mem_cons_of_mem _ hq)) _
    · rfl

theorem removeEdge_congr (s : Store) {r1 r2 : List Nat} (h : canon r1 = canon r2) : removeEdge s r1 = removeEdge s r2 := by
  unfold removeEdge; rw [h]

theorem pairs_map_canon (ps : List (List Nat × List Nat)) (h : ∀ p ∈ ps, p.1.Perm p.2) :
    (ps.map (·.1)).map canon = (ps.map (·.2)).map canon := by
  induction ps with
  | nil => rfl
  | cons p ps ih =>
    simp only [List.map_cons, canon_eq_of_perm (h p List.mem_cons_self), ih (fun q hq => h q (List.mem_cons_of_mem _ hq))]

/-- `remove_edges` of a batch whose members are re-listed in other node orders -/
theorem removeEdges_congr (s : Store) (ps : List (List Nat × List Nat)) (h : ∀ p ∈ ps, p.1.Perm p.2) :
    removeEdges s (ps.map (·.1)) = removeEdges s (ps.map (·.2)) := by
  have hm := pairs_map_canon ps h
  have hall : ∀ (l : List (List Nat)),
      l.all (fun r => (get? s.edgeList (canon r)).isSome) = (l.map canon).all (fun e => (get? s.edgeList e).isSome) := by
    intro l; induction l with
    | nil => rfl
    | cons a t ih => simp only [List.all_cons, List.map_cons, ih]
  unfold removeEdges
  rw [hall, hall, hm]
  have : seqOps removeEdge s (ps.map (·.1)) = seqOps removeEdge s (ps.map (·.2)) :=
    seqOps_congr_pairs removeEdge ps (fun p hp t => removeEdge_congr t (canon_eq_of_perm (h p hp))) s
  rw [this]

/-- the loop of `add_edges` on a batch whose members are re-listed in other node orders -/
theorem addEdgesLoop_congr (useW : Bool) : ∀ (ps : List (List Nat × List Nat)), (∀ p ∈ ps, p.1.Perm p.2) →
    ∀ (ws : Option (List Int)) (mds : Option (List Meta)) (s : Store),
      addEdgesLoop useW s (zipArgs (ps.map (·.1)) ws mds) = addEdgesLoop useW s (zipArgs (ps.map (·.2)) ws mds) := by
  intro ps
  induction ps with
  | nil => intro _ ws mds s; rfl
  | cons p ps ih =>
    intro h ws mds s
    have hc := canon_eq_of_perm (h p List.mem_cons_self)
    have hf : ∀ w md, addEdge s p.1 w md = addEdge s p.2 w md := by
      intro w md; simp only [addEdge, hc]
    have ih' := ih (fun q hq => h q (List.mem_cons_of_mem _ hq))
    unfold addEdgesLoop at ih' ⊢
    simp only [List.map_cons, zipArgs, seqOps, hf]
    split
    · exact ih' _ _ _
    · rfl

theorem addEdges_congr (s : Store) (ps : List (List Nat × List Nat)) (h : ∀ p ∈ ps, p.1.Perm p.2)
    (ws : Option (List Int)) (mds : Option (List Meta))
    (hnd : ws.isSome = true → ((ps.map (·.1)).Nodup ↔ (ps.map (·.2)).Nodup)) :
    addEdges s (ps.map (·.1)) ws mds = addEdges s (ps.map (·.2)) ws mds := by
  have hv : addEdgesValid (ps.map (·.1)) ws mds = addEdgesValid (ps.map (·.2)) ws mds := by
    unfold addEdgesValid
    cases ws with
    | none => simp only [List.length_map]
    | some l =>
      have := hnd rfl
      simp only [List.length_map, this]
  unfold addEdges
  rw [hv, addEdgesLoop_congr ws.isSome ps h]

/-! ### re-insertion -/

theorem addEdge_present (s : Store) (raw : List Nat) (w : Option Int) (md : Option Meta) (id : Nat)
    (hp : get? s.edgeList (canon raw) = some id) (hacc : (addEdge s raw w md).2 = .ok) :
    (addEdge s raw w md).1 = addEdgeOld s id (w.getD one) (md.getD []) := by
  unfold addEdge at hacc ⊢
  split
  · rename_i hc; simp [hc] at hacc
  · simp [hp]

end C01
