import Hgxv.Model.C18
import Mathlib.Algebra.BigOperators.Group.Finset.Basic
import Mathlib.Algebra.BigOperators.Ring.Finset
import Mathlib.Algebra.BigOperators.Field
import Mathlib.Algebra.Order.BigOperators.Group.Finset
import Mathlib.Algebra.Order.Field.Rat
import Mathlib.Algebra.Order.Field.Basic
import Mathlib.Tactic.Ring
import Mathlib.Tactic.FieldSimp
import Mathlib.Tactic.Linarith
import Mathlib.Tactic.Positivity
/-! Helper lemmas for C18, random-walk part: the accumulated matrix `T`, its row sums, connectivity. -/
namespace C18

theorem sumTo_eq (N : Nat) (f : Nat → Rat) : sumTo N f = ∑ i ∈ Finset.range N, f i := by
  unfold sumTo
  induction N with
  | zero => simp
  | succ n ih => rw [List.range_succ, List.map_append, List.sum_append, ih, Finset.sum_range_succ]; simp

theorem natSum_eq (N : Nat) (f : Nat → Nat) : ((List.range N).map f).sum = ∑ i ∈ Finset.range N, f i := by
  induction N with
  | zero => simp
  | succ n ih => rw [List.range_succ, List.map_append, List.sum_append, ih, Finset.sum_range_succ]; simp

theorem count_map_pair (a i j : Nat) (r : List Nat) :
    (r.map (fun b => (a, b))).count (i, j) = if i = a then r.count j else 0 := by
  induction r with
  | nil => simp
  | cons b r ih =>
    simp only [List.map_cons, List.count_cons, ih]
    by_cases h : i = a
    · subst h; by_cases h2 : b = j <;> simp [h2]
    · have : ¬ a = i := fun e => h e.symm
      simp [h, this]

theorem count_pairs_not_mem_left (l : List Nat) (i j : Nat) (h : i ∉ l) : (pairs l).count (i, j) = 0 := by
  induction l with
  | nil => simp [pairs]
  | cons a r ih =>
    simp only [pairs, List.count_append, count_map_pair]
    have : i ≠ a := by intro e; apply h; simp [e]
    simp [this, ih (by intro m; apply h; simp [m])]

theorem count_pairs_not_mem_right (l : List Nat) (i j : Nat) (h : j ∉ l) : (pairs l).count (i, j) = 0 := by
  induction l with
  | nil => simp [pairs]
  | cons a r ih =>
    simp only [pairs, List.count_append, count_map_pair]
    have hj : j ∉ r := by intro m; apply h; simp [m]
    simp [ih hj, List.count_eq_zero_of_not_mem hj]

theorem pairs_count (l : List Nat) (hl : l.Nodup) (i j : Nat) :
    (pairs l).count (i, j) + (pairs l).count (j, i) = if i ≠ j ∧ i ∈ l ∧ j ∈ l then 1 else 0 := by
  induction l with
  | nil => simp [pairs]
  | cons a r ih =>
    have hr := (List.nodup_cons.mp hl).2
    have ha := (List.nodup_cons.mp hl).1
    simp only [pairs, List.count_append, count_map_pair]
    have e1 : ∀ x, r.count x = if x ∈ r then 1 else 0 := by
      intro x; by_cases hx : x ∈ r
      · simp [hx, List.count_eq_one_of_mem hr hx]
      · simp [hx, List.count_eq_zero_of_not_mem hx]
    have := ih hr
    by_cases hia : i = a <;> by_cases hja : j = a
    · subst hia; subst hja; simp [count_pairs_not_mem_left _ _ _ ha, e1, ha]
    · subst hia
      simp [count_pairs_not_mem_left _ _ _ ha, count_pairs_not_mem_right _ _ _ ha, e1, hja, Ne.symm hja, ha]
    · subst hja
      simp [count_pairs_not_mem_left _ _ _ ha, count_pairs_not_mem_right _ _ _ ha, e1, hia, ha]
    · simp [hia, hja] at this ⊢; grind

theorem contrib_eq (l : List Nat) (hl : l.Nodup) (i j : Nat) :
    contrib l i j = if i ≠ j ∧ i ∈ l ∧ j ∈ l then l.length - 1 else 0 := by
  unfold contrib
  rw [pairs_count l hl]
  split <;> simp

theorem contrib_symm (l : List Nat) (i j : Nat) : contrib l i j = contrib l j i := by
  unfold contrib; rw [Nat.add_comm]

theorem tEntry_symm (es : List Edge) (i j : Nat) : tEntry es i j = tEntry es j i := by
  unfold tEntry; congr 1; apply List.map_congr_left; intro l _; exact contrib_symm l i j

theorem tEntry_diag (es : List Edge) (N : Nat) (hv : Valid es N) (i : Nat) : tEntry es i i = 0 := by
  unfold tEntry
  apply List.sum_eq_zero
  intro x hx
  obtain ⟨l, hl, rfl⟩ := List.mem_map.mp hx
  rw [contrib_eq l (hv l hl).1]; simp

theorem tEntry_eq_shared (es : List Edge) (N : Nat) (hv : Valid es N) (i j : Nat) (hij : i ≠ j) :
    tEntry es i j = shared es i j := by
  unfold tEntry shared
  induction es with
  | nil => simp
  | cons l es ih =>
    have hv' : Valid es N := fun e he => hv e (List.mem_cons_of_mem _ he)
    rw [List.map_cons, List.sum_cons, ih hv', contrib_eq l (hv l List.mem_cons_self).1, List.filter_cons]
    by_cases h : i ∈ l ∧ j ∈ l
    · simp [h.1, h.2, hij]
    · have : ¬ (i ≠ j ∧ i ∈ l ∧ j ∈ l) := fun c => h c.2
      simp [this, h]

theorem list_sum_finset_comm {α} (es : List α) (N : Nat) (g : α → Nat → Nat) :
    ∑ j ∈ Finset.range N, (es.map (fun e => g e j)).sum = (es.map (fun e => ∑ j ∈ Finset.range N, g e j)).sum := by
  induction es with
  | nil => simp
  | cons e es ih => simp only [List.map_cons, List.sum_cons, Finset.sum_add_distrib, ih]

theorem card_others (l : List Nat) (hl : l.Nodup) (N : Nat) (hN : ∀ v ∈ l, v < N) (i : Nat) (hi : i ∈ l) :
    ((Finset.range N).filter (fun j => i ≠ j ∧ i ∈ l ∧ j ∈ l)).card = l.length - 1 := by
  have : (Finset.range N).filter (fun j => i ≠ j ∧ i ∈ l ∧ j ∈ l) = l.toFinset.erase i := by
    ext j
    simp only [Finset.mem_filter, Finset.mem_range, Finset.mem_erase, List.mem_toFinset]
    constructor
    · rintro ⟨_, h1, _, h3⟩; exact ⟨fun e => h1 e.symm, h3⟩
    · rintro ⟨h1, h3⟩; exact ⟨hN j h3, fun e => h1 e.symm, hi, h3⟩
  rw [this, Finset.card_erase_of_mem (List.mem_toFinset.mpr hi), List.toFinset_card_of_nodup hl]

theorem contrib_rowsum (l : List Nat) (hl : l.Nodup) (N : Nat) (hN : ∀ v ∈ l, v < N) (i : Nat) :
    ∑ j ∈ Finset.range N, contrib l i j = if i ∈ l then (l.length - 1) * (l.length - 1) else 0 := by
  simp only [contrib_eq l hl]
  rw [Finset.sum_ite]
  simp only [Finset.sum_const, Finset.sum_const_zero, nsmul_eq_mul, Nat.cast_id, add_zero]
  by_cases hi : i ∈ l
  · rw [card_others l hl N hN i hi]; simp [hi]
  · simp [hi]

theorem rowSum_eq_deg2 (es : List Edge) (N : Nat) (hv : Valid es N) (i : Nat) : rowSum es N i = deg2 es i := by
  unfold rowSum
  rw [natSum_eq]
  unfold tEntry
  rw [list_sum_finset_comm]
  unfold deg2
  induction es with
  | nil => simp
  | cons l es ih =>
    have hv' : Valid es N := fun e he => hv e (List.mem_cons_of_mem _ he)
    rw [List.map_cons, List.sum_cons, ih hv', contrib_rowsum l (hv l List.mem_cons_self).1 N (hv l List.mem_cons_self).2,
      List.filter_cons]
    by_cases hi : i ∈ l <;> simp [hi]

theorem share_iff (es : List Edge) (i j : Nat) : share es i j = true ↔ ∃ e ∈ es, i ∈ e ∧ j ∈ e := by
  simp [share]

theorem share_symm (es : List Edge) (i j : Nat) : share es i j = share es j i := by
  rw [Bool.eq_iff_iff, share_iff, share_iff]
  constructor <;> (rintro ⟨e, he, h1, h2⟩; exact ⟨e, he, h2, h1⟩)

theorem two_le_length (l : List Nat) (i j : Nat) (hij : i ≠ j) (hi : i ∈ l) (hj : j ∈ l) : 2 ≤ l.length := by
  have hnd : [i, j].Nodup := by simp [hij]
  have := List.Nodup.length_le_of_subset hnd (l₂ := l) (by intro x hx; simp at hx; rcases hx with rfl | rfl <;> assumption)
  simpa using this

theorem tEntry_pos_iff (es : List Edge) (N : Nat) (hv : Valid es N) (i j : Nat) (hij : i ≠ j) :
    0 < tEntry es i j ↔ share es i j = true := by
  rw [share_iff]
  unfold tEntry
  induction es with
  | nil => simp
  | cons l es ih =>
    have hv' : Valid es N := fun e he => hv e (List.mem_cons_of_mem _ he)
    rw [List.map_cons, List.sum_cons, contrib_eq l (hv l List.mem_cons_self).1]
    have ih' := ih hv'
    by_cases h : i ∈ l ∧ j ∈ l
    · have := two_le_length l i j hij h.1 h.2
      simp only [hij, ne_eq, not_false_eq_true, h.1, h.2, and_self, if_true]
      constructor
      · intro _; exact ⟨l, List.mem_cons_self, h.1, h.2⟩
      · intro _; omega
    · have hn : ¬ (i ≠ j ∧ i ∈ l ∧ j ∈ l) := fun c => h c.2
      simp only [hn, if_false, Nat.zero_add, ih', List.mem_cons]
      constructor
      · rintro ⟨e, he, h1, h2⟩; exact ⟨e, Or.inr he, h1, h2⟩
      · rintro ⟨e, he | he, h1, h2⟩
        · subst he; exact absurd ⟨h1, h2⟩ h
        · exact ⟨e, he, h1, h2⟩

theorem mem_grow (es : List Edge) (N : Nat) (S : List Nat) (j : Nat) :
    j ∈ grow es N S ↔ j < N ∧ (j ∈ S ∨ ∃ i ∈ S, share es i j = true) := by
  simp [grow]

theorem growN_inv (es : List Edge) (N : Nat) (P : Nat → Prop)
    (hstep : ∀ a b, a < N → b < N → P a → share es a b = true → P b) :
    ∀ (k : Nat) (S : List Nat), (∀ v ∈ S, v < N ∧ P v) → ∀ v ∈ growN es N k S, v < N ∧ P v := by
  intro k
  induction k with
  | zero => intro S hS v hv; exact hS v hv
  | succ k ih =>
    intro S hS v hv
    apply ih (grow es N S) _ v hv
    intro w hw
    rw [mem_grow] at hw
    obtain ⟨hwN, hw | ⟨a, ha, hs⟩⟩ := hw
    · exact ⟨hwN, (hS w hw).2⟩
    · exact ⟨hwN, hstep a w (hS a ha).1 hwN (hS a ha).2 hs⟩

/-- induction principle given by the executable connectivity test -/
theorem connected_induct (es : List Edge) (N : Nat) (hc : connectedB es N = true) (hN : 0 < N) (P : Nat → Prop)
    (h0 : P 0) (hstep : ∀ a b, a < N → b < N → P a → share es a b = true → P b) :
    ∀ v, v < N → P v := by
  intro v hv
  unfold connectedB at hc
  rw [List.all_eq_true] at hc
  have := hc v (List.mem_range.mpr hv)
  rw [List.contains_iff_mem] at this
  exact (growN_inv es N P hstep N [0] (by intro w hw; simp at hw; subst hw; exact ⟨hN, h0⟩) v this).2

theorem exists_partner (es : List Edge) (N : Nat) (hc : connectedB es N = true) (hN : 2 ≤ N) (i : Nat) (hi : i < N) :
    ∃ j, j < N ∧ i ≠ j ∧ share es i j = true := by
  apply Classical.byContradiction
  intro hcon
  have hno : ∀ j, j < N → i ≠ j → share es i j = false := by
    intro j hj hij
    cases h : share es i j with
    | false => rfl
    | true => exact absurd ⟨j, hj, hij, h⟩ hcon
  by_cases h0 : i = 0
  · subst h0
    have := connected_induct es N hc (by omega) (fun v => v = 0) rfl (by
      intro a b _ hb ha hs
      subst ha
      apply Classical.byContradiction
      intro hb0
      have := hno b hb (fun e => hb0 e.symm)
      rw [this] at hs; exact Bool.false_ne_true hs) 1 (by omega)
    omega
  · have := connected_induct es N hc (by omega) (fun v => v ≠ i) (fun e => h0 e.symm) (by
      intro a b ha _ hai hs hbi
      subst hbi
      have := hno a ha (fun e => hai e.symm)
      rw [share_symm, hs] at this; exact Bool.false_ne_true this.symm) i hi
    exact this rfl

theorem rowSum_pos (es : List Edge) (N : Nat) (hv : Valid es N) (hc : connectedB es N = true) (hN : 2 ≤ N)
    (i : Nat) (hi : i < N) : 0 < rowSum es N i := by
  obtain ⟨j, hj, hij, hs⟩ := exists_partner es N hc hN i hi
  have hpos := (tEntry_pos_iff es N hv i j hij).mpr hs
  unfold rowSum
  rw [natSum_eq]
  calc 0 < tEntry es i j := hpos
    _ ≤ ∑ j ∈ Finset.range N, tEntry es i j :=
      Finset.single_le_sum (f := fun j => tEntry es i j) (fun _ _ => Nat.zero_le _) (Finset.mem_range.mpr hj)

open Finset

theorem rowSum_cast (es : List Edge) (N i : Nat) :
    (rowSum es N i : ℚ) = ∑ j ∈ range N, (tEntry es i j : ℚ) := by
  unfold rowSum; rw [natSum_eq]; push_cast; rfl

theorem kEntry_nonneg (es : List Edge) (N i j : Nat) : 0 ≤ kEntry es N i j := by
  unfold kEntry; positivity

theorem kRow_sum (es : List Edge) (N i : Nat) (hr : 0 < rowSum es N i) :
    ∑ j ∈ range N, kEntry es N i j = 1 := by
  unfold kEntry
  rw [← Finset.sum_div, ← rowSum_cast]
  have : (rowSum es N i : ℚ) ≠ 0 := by positivity
  exact div_self this

theorem totalDeg_pos (es : List Edge) (N : Nat) (hN : 0 < N) (hr : ∀ i, i < N → 0 < rowSum es N i) :
    0 < ∑ k ∈ range N, (rowSum es N k : ℚ) := by
  apply Finset.sum_pos
  · intro i hi; exact_mod_cast hr i (mem_range.mp hi)
  · exact ⟨0, mem_range.mpr hN⟩

theorem pi_fixed (es : List Edge) (N : Nat) (hr : ∀ i, i < N → 0 < rowSum es N i) (j : Nat) :
    ∑ i ∈ range N, piEntry es N i * kEntry es N i j = piEntry es N j := by
  unfold piEntry kEntry
  rw [sumTo_eq]
  set S := ∑ k ∈ range N, (rowSum es N k : ℚ)
  have h1 : ∀ i ∈ range N, (rowSum es N i : ℚ) / S * ((tEntry es i j : ℚ) / (rowSum es N i : ℚ)) = (tEntry es j i : ℚ) / S := by
    intro i hi
    have : (rowSum es N i : ℚ) ≠ 0 := by have := hr i (mem_range.mp hi); positivity
    rw [tEntry_symm es i j]
    field_simp
  rw [Finset.sum_congr rfl h1, ← Finset.sum_div, ← rowSum_cast]

theorem pi_sum (es : List Edge) (N : Nat) (hN : 0 < N) (hr : ∀ i, i < N → 0 < rowSum es N i) :
    ∑ i ∈ range N, piEntry es N i = 1 := by
  unfold piEntry
  rw [sumTo_eq, ← Finset.sum_div]
  exact div_self (ne_of_gt (totalDeg_pos es N hN hr))

theorem pi_nonneg (es : List Edge) (N i : Nat) : 0 ≤ piEntry es N i := by
  unfold piEntry
  rw [sumTo_eq]
  apply div_nonneg (by positivity)
  apply Finset.sum_nonneg; intro k _; positivity

theorem density_mass (es : List Edge) (N : Nat) (hr : ∀ i, i < N → 0 < rowSum es N i) (s : Nat → ℚ) :
    ∑ j ∈ range N, densityStep es N s j = ∑ i ∈ range N, s i := by
  unfold densityStep
  simp only [sumTo_eq]
  rw [Finset.sum_comm]
  apply Finset.sum_congr rfl
  intro i hi
  rw [← Finset.mul_sum, kRow_sum es N i (hr i (mem_range.mp hi)), mul_one]

/-- the system of the unrepaired routine has no solution, for any row-stochastic `K` -/
theorem original_inconsistent (K : Nat → Nat → ℚ) (N : Nat) (hN : 0 < N)
    (hK : ∀ i, i < N → ∑ j ∈ range N, K i j = 1) (x : Nat → ℚ)
    (hx : ∀ i, i < N → x i - ∑ j ∈ range N, K j i * x j = 1) : False := by
  have h1 : ∑ i ∈ range N, (x i - ∑ j ∈ range N, K j i * x j) = ∑ i ∈ range N, (1 : ℚ) :=
    Finset.sum_congr rfl (fun i hi => hx i (mem_range.mp hi))
  rw [Finset.sum_sub_distrib, Finset.sum_comm] at h1
  have h2 : ∑ j ∈ range N, ∑ i ∈ range N, K j i * x j = ∑ j ∈ range N, x j := by
    apply Finset.sum_congr rfl
    intro j hj
    rw [← Finset.sum_mul, hK j (mem_range.mp hj), one_mul]
  rw [h2, sub_self] at h1
  simp at h1
  have : (N : ℚ) ≠ 0 := by positivity
  exact this h1.symm

/-- column sums of `I − Kᵀ` vanish: the equations of `(I − Kᵀ) x = 0` add up to `0 = 0` -/
theorem residual_sum (K : Nat → Nat → ℚ) (N : Nat) (hK : ∀ i, i < N → ∑ j ∈ range N, K i j = 1) (x : Nat → ℚ) :
    ∑ i ∈ range N, (x i - ∑ j ∈ range N, K j i * x j) = 0 := by
  rw [Finset.sum_sub_distrib, Finset.sum_comm]
  have h2 : ∑ j ∈ range N, ∑ i ∈ range N, K j i * x j = ∑ j ∈ range N, x j := by
    apply Finset.sum_congr rfl
    intro j hj
    rw [← Finset.sum_mul, hK j (mem_range.mp hj), one_mul]
  rw [h2, sub_self]

/-- the dropped equation follows from the others -/
theorem last_equation (K : Nat → Nat → ℚ) (N : Nat) (hK : ∀ i, i < N → ∑ j ∈ range N, K i j = 1) (x : Nat → ℚ)
    (hx : ∀ i, i + 1 < N → x i - ∑ j ∈ range N, K j i * x j = 0) :
    ∀ i, i < N → x i - ∑ j ∈ range N, K j i * x j = 0 := by
  intro i hi
  by_cases h : i + 1 < N
  · exact hx i h
  · obtain ⟨M, rfl⟩ : ∃ M, N = M + 1 := ⟨N - 1, by omega⟩
    have hiM : i = M := by omega
    subst hiM
    have := residual_sum K (i + 1) hK x
    rw [Finset.sum_range_succ] at this
    have h0 : ∑ k ∈ range i, (x k - ∑ j ∈ range (i + 1), K j k * x j) = 0 :=
      Finset.sum_eq_zero (fun k hk => hx k (by have := mem_range.mp hk; omega))
    rw [h0, zero_add] at this
    exact this

theorem harmonic (es : List Edge) (N : Nat) (hr : ∀ i, i < N → 0 < rowSum es N i) (x : Nat → ℚ)
    (hx : ∀ i, i < N → x i - ∑ j ∈ range N, kEntry es N j i * x j = 0) (a : Nat) (ha : a < N) :
    ∑ i ∈ range N, (tEntry es a i : ℚ) * (x a / rowSum es N a - x i / rowSum es N i) = 0 := by
  have hra : (rowSum es N a : ℚ) ≠ 0 := by have := hr a ha; positivity
  have h1 : ∑ i ∈ range N, (tEntry es a i : ℚ) * (x a / rowSum es N a) = x a := by
    rw [← Finset.sum_mul, ← rowSum_cast]; field_simp
  have h2 : ∑ i ∈ range N, (tEntry es a i : ℚ) * (x i / rowSum es N i) = x a := by
    have := hx a ha
    rw [sub_eq_zero] at this
    rw [this]
    apply Finset.sum_congr rfl
    intro i _
    unfold kEntry
    rw [tEntry_symm es a i]; ring
  simp only [mul_sub]
  rw [Finset.sum_sub_distrib, h1, h2, sub_self]

theorem solution_unique (es : List Edge) (N : Nat) (hv : Valid es N) (hc : connectedB es N = true) (hN : 2 ≤ N)
    (x : Nat → ℚ)
    (hx : ∀ i, i + 1 < N → x i - ∑ j ∈ range N, kEntry es N j i * x j = 0)
    (hs : ∑ i ∈ range N, x i = 1) : ∀ i, i < N → x i = piEntry es N i := by
  have hr : ∀ i, i < N → 0 < rowSum es N i := fun i hi => rowSum_pos es N hv hc hN i hi
  have hx' := last_equation (kEntry es N) N (fun i hi => kRow_sum es N i (hr i hi)) x hx
  set y : Nat → ℚ := fun i => x i / rowSum es N i with hy
  obtain ⟨m, hm, hmax⟩ := Finset.exists_max_image (range N) y ⟨0, mem_range.mpr (by omega)⟩
  have hmN := mem_range.mp hm
  -- the set of maximisers is closed under sharing a hyperedge
  have hclosed : ∀ a b, a < N → b < N → y a = y m → share es a b = true → y b = y m := by
    intro a b ha hb hya hsh
    by_cases hab : a = b
    · subst hab; exact hya
    · have hT : 0 < tEntry es a b := (tEntry_pos_iff es N hv a b hab).mpr hsh
      have hsum := harmonic es N hr x hx' a ha
      have hnn : ∀ i ∈ range N, 0 ≤ (tEntry es a i : ℚ) * (x a / rowSum es N a - x i / rowSum es N i) := by
        intro i hi
        apply mul_nonneg (by positivity)
        have h1 : y i ≤ y m := hmax i hi
        have h2 : y a = y m := hya
        simp only [hy] at h1 h2
        linarith
      have hz := (Finset.sum_eq_zero_iff_of_nonneg hnn).mp hsum b (mem_range.mpr hb)
      have hTq : (tEntry es a b : ℚ) ≠ 0 := by positivity
      have := (mul_eq_zero.mp hz).resolve_left hTq
      have h2 : y a = y m := hya
      simp only [hy] at h2 ⊢
      linarith
  have hall : ∀ v, v < N → y v = y m := by
    by_cases h0 : y 0 = y m
    · exact connected_induct es N hc (by omega) (fun v => y v = y m) h0 hclosed
    · exfalso
      have := connected_induct es N hc (by omega) (fun v => y v ≠ y m) h0 (by
        intro a b ha hb hya hsh hyb
        exact hya (hclosed b a hb ha hyb (by rw [share_symm]; exact hsh))) m hmN
      exact this rfl
  -- x = c · d, and the normalisation fixes c
  have hxi : ∀ i, i < N → x i = y m * rowSum es N i := by
    intro i hi
    have hri : (rowSum es N i : ℚ) ≠ 0 := by have := hr i hi; positivity
    have := hall i hi
    rw [← this]
    simp only [hy]; field_simp
  have hS := totalDeg_pos es N (by omega) hr
  have hc1 : y m * ∑ k ∈ range N, (rowSum es N k : ℚ) = 1 := by
    rw [Finset.mul_sum, ← hs]
    exact (Finset.sum_congr rfl (fun i hi => hxi i (mem_range.mp hi))).symm
  intro i hi
  rw [hxi i hi]
  unfold piEntry
  rw [sumTo_eq]
  have : y m = 1 / ∑ k ∈ range N, (rowSum es N k : ℚ) := by
    field_simp; linarith
  rw [this]; ring

theorem list_sum_eq_sumTo (v : List Rat) : v.sum = sumTo v.length (vecOf v) := by
  unfold sumTo vecOf
  congr 1
  apply List.ext_getElem
  · simp
  · intro i h1 h2; simp at h1 h2 ⊢; simp [h2]

end C18
