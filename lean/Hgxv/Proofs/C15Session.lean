import Hgxv.Proofs.C15Stop
/-! # C15 — several calls of `fit` on ONE model object (`Obj`, `fitObj`, `runSession`)

What an earlier call leaves behind and what a later call reads: a parameter array that is set (supplied at
construction or left by an earlier call - returned or raised) is never changed again, whatever the data of the
later calls; the result of a call depends on the object only through `u`, `w`, `max_hye_size`. -/
namespace C15

/-- the three cases of `fitObj`, as equations -/
theorem fitObj_reject (o : Obj) (d : Data) (u0 w0 : List (List Rat)) (ru rw : Mat) (sqrtC : Rat) (stop : Option Stop)
    (n : Nat) (h : fitMaxSize d o.D = none) :
    fitObj o d u0 w0 ru rw sqrtC stop n
      = ({ o with u := some (o.u.getD u0), w := some (o.w.getD w0), tolerance := stop.map (·.tol), reached := false }, false) := by
  unfold fitObj
  simp only [h]

theorem fitObj_return (o : Obj) (d : Data) (u0 w0 : List (List Rat)) (ru rw : Mat) (sqrtC : Rat) (stop : Option Stop)
    (n D : Nat) (h : fitMaxSize d o.D = some D) (hs : stopOk stop = true) :
    fitObj o d u0 w0 ru rw sqrtC stop n
      = ({ u := some (finish d o.u.isSome o.w.isSome (C (dims 2 D)) sqrtC (fitRun d o.u o.w u0 w0 ru rw stop n).p).u,
           w := some (finish d o.u.isSome o.w.isSome (C (dims 2 D)) sqrtC (fitRun d o.u o.w u0 w0 ru rw stop n).p).w,
           D := some D, tolerance := stop.map (·.tol), trained := true,
           it := some (fitRun d o.u o.w u0 w0 ru rw stop n).it,
           reached := (fitRun d o.u o.w u0 w0 ru rw stop n).reached }, true) := by
  unfold fitObj
  simp only [h, hs, if_true]

theorem fitObj_zerodiv (o : Obj) (d : Data) (u0 w0 : List (List Rat)) (ru rw : Mat) (sqrtC : Rat) (stop : Option Stop)
    (n D : Nat) (h : fitMaxSize d o.D = some D) (hs : stopOk stop = false) :
    fitObj o d u0 w0 ru rw sqrtC stop n
      = ({ o with u := some (emStep d o.u.isSome o.w.isSome ru rw { u := o.u.getD u0, w := o.w.getD w0 }).u,
                  w := some (emStep d o.u.isSome o.w.isSome ru rw { u := o.u.getD u0, w := o.w.getD w0 }).w,
                  D := some D, tolerance := stop.map (·.tol), reached := false }, false) := by
  unfold fitObj
  simp only [h, hs, Bool.false_eq_true, if_false]

theorem finish_u_fixed (d : Data) (fw : Bool) (c sqrtC : Rat) (p : Params) : (finish d true fw c sqrtC p).u = p.u := by
  cases fw <;> simp [finish]

theorem finish_w_fixed (d : Data) (fu : Bool) (c sqrtC : Rat) (p : Params) : (finish d fu true c sqrtC p).w = p.w := by
  cases fu <;> simp [finish]

theorem emStep_u_fixed (d : Data) (fw : Bool) (ru rw : Mat) (p : Params) : (emStep d true fw ru rw p).u = p.u := by
  simp [emStep]

theorem emStep_w_fixed (d : Data) (fu : Bool) (ru rw : Mat) (p : Params) : (emStep d fu true ru rw p).w = p.w := by
  simp [emStep]

/-- a membership array that is set stays, whichever way the call ends -/
theorem fitObj_u_stays (o : Obj) (d : Data) (u0 w0 : List (List Rat)) (ru rw : Mat) (sqrtC : Rat) (stop : Option Stop)
    (n : Nat) (us : List (List Rat)) (hu : o.u = some us) : (fitObj o d u0 w0 ru rw sqrtC stop n).1.u = some us := by
  cases hD : fitMaxSize d o.D with
  | none => rw [fitObj_reject o d u0 w0 ru rw sqrtC stop n hD, hu]; rfl
  | some D =>
    cases hs : stopOk stop with
    | true =>
      rw [fitObj_return o d u0 w0 ru rw sqrtC stop n D hD hs, hu]
      show some (finish d true o.w.isSome (C (dims 2 D)) sqrtC (fitRun d (some us) o.w u0 w0 ru rw stop n).p).u = some us
      rw [finish_u_fixed, fitRun_u_fixed]
    | false =>
      rw [fitObj_zerodiv o d u0 w0 ru rw sqrtC stop n D hD hs, hu]
      show some (emStep d true o.w.isSome ru rw { u := us, w := o.w.getD w0 }).u = some us
      rw [emStep_u_fixed]

theorem fitObj_w_stays (o : Obj) (d : Data) (u0 w0 : List (List Rat)) (ru rw : Mat) (sqrtC : Rat) (stop : Option Stop)
    (n : Nat) (ws : List (List Rat)) (hw : o.w = some ws) : (fitObj o d u0 w0 ru rw sqrtC stop n).1.w = some ws := by
  cases hD : fitMaxSize d o.D with
  | none => rw [fitObj_reject o d u0 w0 ru rw sqrtC stop n hD, hw]; rfl
  | some D =>
    cases hs : stopOk stop with
    | true =>
      rw [fitObj_return o d u0 w0 ru rw sqrtC stop n D hD hs, hw]
      show some (finish d o.u.isSome true (C (dims 2 D)) sqrtC (fitRun d o.u (some ws) u0 w0 ru rw stop n).p).w = some ws
      rw [finish_w_fixed, fitRun_w_fixed]
    | false =>
      rw [fitObj_zerodiv o d u0 w0 ru rw sqrtC stop n D hD hs, hw]
      show some (emStep d o.u.isSome true ru rw { u := o.u.getD u0, w := ws }).w = some ws
      rw [emStep_w_fixed]

theorem fitMaxSize_some (d : Data) (D0 D : Nat) (h : fitMaxSize d (some D0) = some D) : D = D0 := by
  have hm : fitMaxSize d (some D0) = if D0 < maxSize d then none else some D0 := rfl
  rw [hm] at h
  by_cases hlt : D0 < maxSize d
  · simp [hlt] at h
  · simp only [hlt, if_false, Option.some.injEq] at h
    exact h.symm

/-- a `max_hye_size` that is set (supplied or inferred by an earlier call) stays -/
theorem fitObj_D_stays (o : Obj) (d : Data) (u0 w0 : List (List Rat)) (ru rw : Mat) (sqrtC : Rat) (stop : Option Stop)
    (n D0 : Nat) (hD0 : o.D = some D0) : (fitObj o d u0 w0 ru rw sqrtC stop n).1.D = some D0 := by
  cases hD : fitMaxSize d o.D with
  | none => rw [fitObj_reject o d u0 w0 ru rw sqrtC stop n hD]; exact hD0
  | some D =>
    have hDD : D = D0 := by rw [hD0] at hD; exact fitMaxSize_some d D0 D hD
    cases hs : stopOk stop with
    | true => rw [fitObj_return o d u0 w0 ru rw sqrtC stop n D hD hs, hDD]
    | false => rw [fitObj_zerodiv o d u0 w0 ru rw sqrtC stop n D hD hs, hDD]

/-- after a call of `fit` - returned or raised - both parameter arrays are set -/
theorem fitObj_both_set (o : Obj) (d : Data) (u0 w0 : List (List Rat)) (ru rw : Mat) (sqrtC : Rat) (stop : Option Stop)
    (n : Nat) : (fitObj o d u0 w0 ru rw sqrtC stop n).1.u.isSome = true ∧ (fitObj o d u0 w0 ru rw sqrtC stop n).1.w.isSome = true := by
  cases hD : fitMaxSize d o.D with
  | none => rw [fitObj_reject o d u0 w0 ru rw sqrtC stop n hD]; exact ⟨rfl, rfl⟩
  | some D =>
    cases hs : stopOk stop with
    | true => rw [fitObj_return o d u0 w0 ru rw sqrtC stop n D hD hs]; exact ⟨rfl, rfl⟩
    | false => rw [fitObj_zerodiv o d u0 w0 ru rw sqrtC stop n D hD hs]; exact ⟨rfl, rfl⟩

theorem runSession_cons (o : Obj) (c : FitCall) (cs : List FitCall) :
    runSession o (c :: cs) = runSession (callFit o c) cs := rfl

theorem runSession_u_stays (cs : List FitCall) : ∀ (o : Obj) (us : List (List Rat)), o.u = some us →
    (runSession o cs).u = some us := by
  induction cs with
  | nil => intro o us h; exact h
  | cons c cs ih =>
    intro o us h
    rw [runSession_cons]
    exact ih _ us (fitObj_u_stays o c.d c.u0 c.w0 c.ru c.rw c.sqrtC c.stop c.n us h)

theorem runSession_w_stays (cs : List FitCall) : ∀ (o : Obj) (ws : List (List Rat)), o.w = some ws →
    (runSession o cs).w = some ws := by
  induction cs with
  | nil => intro o ws h; exact h
  | cons c cs ih =>
    intro o ws h
    rw [runSession_cons]
    exact ih _ ws (fitObj_w_stays o c.d c.u0 c.w0 c.ru c.rw c.sqrtC c.stop c.n ws h)

theorem runSession_D_stays (cs : List FitCall) : ∀ (o : Obj) (D0 : Nat), o.D = some D0 →
    (runSession o cs).D = some D0 := by
  induction cs with
  | nil => intro o D0 h; exact h
  | cons c cs ih =>
    intro o D0 h
    rw [runSession_cons]
    exact ih _ D0 (fitObj_D_stays o c.d c.u0 c.w0 c.ru c.rw c.sqrtC c.stop c.n D0 h)

/-- the result of a call depends on the object only through `u`, `w`, `max_hye_size` (the training attributes left by
earlier calls are overwritten before they are read; `trained` / `training_iter` survive a call that raises) -/
theorem fitObj_ignores_history (o o' : Obj) (d : Data) (u0 w0 : List (List Rat)) (ru rw : Mat) (sqrtC : Rat)
    (stop : Option Stop) (n : Nat) (hu : o.u = o'.u) (hw : o.w = o'.w) (hD : o.D = o'.D) :
    (fitObj o d u0 w0 ru rw sqrtC stop n).2 = (fitObj o' d u0 w0 ru rw sqrtC stop n).2 ∧
    (fitObj o d u0 w0 ru rw sqrtC stop n).1.u = (fitObj o' d u0 w0 ru rw sqrtC stop n).1.u ∧
    (fitObj o d u0 w0 ru rw sqrtC stop n).1.w = (fitObj o' d u0 w0 ru rw sqrtC stop n).1.w ∧
    (fitObj o d u0 w0 ru rw sqrtC stop n).1.D = (fitObj o' d u0 w0 ru rw sqrtC stop n).1.D ∧
    (fitObj o d u0 w0 ru rw sqrtC stop n).1.tolerance = (fitObj o' d u0 w0 ru rw sqrtC stop n).1.tolerance ∧
    (fitObj o d u0 w0 ru rw sqrtC stop n).1.reached = (fitObj o' d u0 w0 ru rw sqrtC stop n).1.reached ∧
    ((fitObj o d u0 w0 ru rw sqrtC stop n).2 = true →
      fitObj o d u0 w0 ru rw sqrtC stop n = fitObj o' d u0 w0 ru rw sqrtC stop n) := by
  cases hm : fitMaxSize d o.D with
  | none =>
    have hm' : fitMaxSize d o'.D = none := by rw [← hD]; exact hm
    rw [fitObj_reject o d u0 w0 ru rw sqrtC stop n hm, fitObj_reject o' d u0 w0 ru rw sqrtC stop n hm']
    refine ⟨rfl, ?_, ?_, hD, rfl, rfl, fun h => by simp at h⟩
    · show some (o.u.getD u0) = some (o'.u.getD u0); rw [hu]
    · show some (o.w.getD w0) = some (o'.w.getD w0); rw [hw]
  | some D =>
    have hm' : fitMaxSize d o'.D = some D := by rw [← hD]; exact hm
    cases hs : stopOk stop with
    | true =>
      rw [fitObj_return o d u0 w0 ru rw sqrtC stop n D hm hs, fitObj_return o' d u0 w0 ru rw sqrtC stop n D hm' hs,
        hu, hw]
      exact ⟨rfl, rfl, rfl, rfl, rfl, rfl, fun _ => rfl⟩
    | false =>
      rw [fitObj_zerodiv o d u0 w0 ru rw sqrtC stop n D hm hs, fitObj_zerodiv o' d u0 w0 ru rw sqrtC stop n D hm' hs,
        hu, hw]
      exact ⟨rfl, rfl, rfl, rfl, rfl, rfl, fun h => by simp at h⟩

/-- `fitObj` returns exactly when the function `fit` of the first-call model has a value, and then stores that value -/
theorem fitObj_eq_fit (o : Obj) (d : Data) (u0 w0 : List (List Rat)) (ru rw : Mat) (sqrtC : Rat) (stop : Option Stop)
    (n : Nat) :
    match fit d o.u o.w o.D u0 w0 ru rw sqrtC stop n with
    | some (D, p) =>
        fitObj o d u0 w0 ru rw sqrtC stop n
          = ({ u := some p.u, w := some p.w, D := some D, tolerance := stop.map (·.tol), trained := true,
               it := some (fitRun d o.u o.w u0 w0 ru rw stop n).it,
               reached := (fitRun d o.u o.w u0 w0 ru rw stop n).reached }, true)
    | none => (fitObj o d u0 w0 ru rw sqrtC stop n).2 = false := by
  cases hm : fitMaxSize d o.D with
  | none =>
    have : fit d o.u o.w o.D u0 w0 ru rw sqrtC stop n = none := by unfold fit; simp only [hm]
    rw [this, fitObj_reject o d u0 w0 ru rw sqrtC stop n hm]
  | some D =>
    cases hs : stopOk stop with
    | true =>
      have : fit d o.u o.w o.D u0 w0 ru rw sqrtC stop n
          = some (D, finish d o.u.isSome o.w.isSome (C (dims 2 D)) sqrtC (fitRun d o.u o.w u0 w0 ru rw stop n).p) := by
        unfold fit; simp only [hm, hs, if_true]
      rw [this]
      exact fitObj_return o d u0 w0 ru rw sqrtC stop n D hm hs
    | false =>
      have : fit d o.u o.w o.D u0 w0 ru rw sqrtC stop n = none := by
        unfold fit; simp only [hm, hs, Bool.false_eq_true, if_false]
      rw [this, fitObj_zerodiv o d u0 w0 ru rw sqrtC stop n D hm hs]

end C15
