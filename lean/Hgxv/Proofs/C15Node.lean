import Hgxv.Proofs.C15Closed
/-! # C15 — expected degree of one node: closed form = sum over all hyperedges through the node -/
open Finset
namespace C15

theorem sum_delta (V : Finset ℕ) (i : ℕ) (hi : i ∈ V) (F : ℕ → ℚ) :
    ∑ j ∈ V, (if i = j then (1 : ℚ) else 0) * F j = F i := by
  have : ∀ j ∈ V, (if i = j then (1 : ℚ) else 0) * F j = if i = j then F j else 0 := by
    intro j _; split <;> simp
  rw [Finset.sum_congr rfl this, Finset.sum_ite_eq V i F, if_pos hi]

theorem dsum_lin (V : Finset ℕ) (f1 f2 f3 f4 : ℕ → ℕ → ℚ) (c3 c : ℚ) :
    ∑ j ∈ V, ∑ k ∈ V, (c3 * f1 j k + c * (f2 j k + f3 j k - f4 j k))
      = c3 * ∑ j ∈ V, ∑ k ∈ V, f1 j k
        + c * (∑ j ∈ V, ∑ k ∈ V, f2 j k + ∑ j ∈ V, ∑ k ∈ V, f3 j k - ∑ j ∈ V, ∑ k ∈ V, f4 j k) := by
  simp only [Finset.sum_add_distrib, Finset.sum_sub_distrib, Finset.mul_sum, mul_add, mul_sub]

theorem dsum_ite (V : Finset ℕ) (i : ℕ) (hi : i ∈ V) (a : ℕ → ℕ → ℚ) (c2 c3 : ℚ) :
    ∑ j ∈ V, ∑ k ∈ V, a j k * (if i = j ∨ i = k then c2 else c3)
      = c3 * ∑ j ∈ V, ∑ k ∈ V, a j k + (c2 - c3) * (∑ k ∈ V, a i k + ∑ j ∈ V, a j i - a i i) := by
  let δ : ℕ → ℚ := fun j => if i = j then 1 else 0
  have key : ∀ j k, a j k * (if i = j ∨ i = k then c2 else c3)
      = c3 * a j k + (c2 - c3) * (δ j * a j k + δ k * a j k - δ j * (δ k * a j k)) := by
    intro j k
    by_cases h1 : i = j <;> by_cases h2 : i = k <;> simp [δ, h1, h2] <;> ring
  have e1 : ∑ j ∈ V, ∑ k ∈ V, δ j * a j k = ∑ k ∈ V, a i k := by
    have : ∀ j ∈ V, ∑ k ∈ V, δ j * a j k = δ j * ∑ k ∈ V, a j k := fun j _ => (Finset.mul_sum _ _ _).symm
    rw [Finset.sum_congr rfl this]
    exact sum_delta V i hi (fun j => ∑ k ∈ V, a j k)
  have e2 : ∑ j ∈ V, ∑ k ∈ V, δ k * a j k = ∑ j ∈ V, a j i := by
    apply Finset.sum_congr rfl; intro j _
    exact sum_delta V i hi (fun k => a j k)
  have e3 : ∑ j ∈ V, ∑ k ∈ V, δ j * (δ k * a j k) = a i i := by
    have : ∀ j ∈ V, ∑ k ∈ V, δ j * (δ k * a j k) = δ j * a j i := by
      intro j _
      rw [← Finset.mul_sum, sum_delta V i hi (fun k => a j k)]
    rw [Finset.sum_congr rfl this]
    exact sum_delta V i hi (fun j => a j i)
  calc ∑ j ∈ V, ∑ k ∈ V, a j k * (if i = j ∨ i = k then c2 else c3)
      = ∑ j ∈ V, ∑ k ∈ V, (c3 * a j k + (c2 - c3) * (δ j * a j k + δ k * a j k - δ j * (δ k * a j k))) :=
        Finset.sum_congr rfl fun j _ => Finset.sum_congr rfl fun k _ => key j k
    _ = c3 * ∑ j ∈ V, ∑ k ∈ V, a j k + (c2 - c3) * (∑ j ∈ V, ∑ k ∈ V, δ j * a j k
          + ∑ j ∈ V, ∑ k ∈ V, δ k * a j k - ∑ j ∈ V, ∑ k ∈ V, δ j * (δ k * a j k)) :=
        dsum_lin V a (fun j k => δ j * a j k) (fun j k => δ k * a j k) (fun j k => δ j * (δ k * a j k)) c3 (c2 - c3)
    _ = _ := by rw [e1, e2, e3]

theorem diag_ite (V : Finset ℕ) (i : ℕ) (hi : i ∈ V) (a : ℕ → ℕ → ℚ) (c2 c3 : ℚ) :
    ∑ j ∈ V, a j j * (if i = j ∨ i = j then c2 else c3) = c3 * ∑ j ∈ V, a j j + (c2 - c3) * a i i := by
  have key : ∀ j ∈ V, a j j * (if i = j ∨ i = j then c2 else c3)
      = c3 * a j j + (c2 - c3) * ((if i = j then (1 : ℚ) else 0) * a j j) := by
    intro j _
    by_cases h1 : i = j <;> simp [h1] <;> ring
  rw [Finset.sum_congr rfl key, Finset.sum_add_distrib, ← Finset.mul_sum, ← Finset.mul_sum,
    sum_delta V i hi (fun j => a j j)]

/-- weighted sum over the ordered pairs, pairs through `i` weighted `c2`, the others `c3` -/
theorem node_sum (V : Finset ℕ) (i : ℕ) (hi : i ∈ V) (a : ℕ → ℕ → ℚ) (c2 c3 : ℚ) :
    ∑ p ∈ V.offDiag, a p.1 p.2 * (if i = p.1 ∨ i = p.2 then c2 else c3)
      = c3 * (∑ j ∈ V, ∑ k ∈ V, a j k - ∑ j ∈ V, a j j)
        + (c2 - c3) * (∑ k ∈ V, a i k + ∑ j ∈ V, a j i - 2 * a i i) := by
  rw [← sum_sum_sub_diag V (fun j k => a j k * (if i = j ∨ i = k then c2 else c3)),
    dsum_ite V i hi, diag_ite V i hi]
  ring

theorem cnt3_mul (N d : ℕ) (hN : 3 ≤ N) (hd : 2 ≤ d) :
    (cnt3 N d : ℚ) * ((N : ℚ) - 2) = (Nat.choose (N - 2) (d - 2) : ℚ) * ((d : ℚ) - 2) := by
  unfold cnt3
  by_cases h3 : 3 ≤ d
  · rw [if_pos h3]
    have h := Nat.add_one_mul_choose_eq (N - 3) (d - 3)
    have e1 : N - 3 + 1 = N - 2 := by omega
    have e2 : d - 3 + 1 = d - 2 := by omega
    rw [e1, e2] at h
    have hq : ((N - 2 : ℕ) : ℚ) * (Nat.choose (N - 3) (d - 3) : ℚ)
        = (Nat.choose (N - 2) (d - 2) : ℚ) * ((d - 2 : ℕ) : ℚ) := by exact_mod_cast h
    rw [Nat.cast_sub (by omega), Nat.cast_sub (by omega)] at hq
    push_cast at hq
    linarith
  · rw [if_neg h3]
    have : d = 2 := by omega
    subst this
    norm_num

/-- the model's two addends of `expected_degree(per_node=True)` as sums of `u_jᵀ w u_k` -/
theorem expDeg_first (N K : ℕ) (u w : Mat) (i : ℕ) :
    bf K (u i) (colSum N u) w - qf K (u i) w = ∑ k ∈ range N, aij K u w i k - aij K u w i i := by
  rw [colSum_eq, bf_sum_right, qf_eq_bf]; rfl

theorem expDeg_second (N K : ℕ) (u w : Mat) (i : ℕ) :
    qf K (fun a => colSum N u a - u i a) w - qfSum N K u w + qf K (u i) w
      = (∑ j ∈ range N, ∑ k ∈ range N, aij K u w j k - ∑ j ∈ range N, aij K u w j j)
        - (∑ k ∈ range N, aij K u w i k + ∑ j ∈ range N, aij K u w j i - 2 * aij K u w i i) := by
  have hq : qf K (fun a => colSum N u a - u i a) w
      = ∑ j ∈ range N, ∑ k ∈ range N, aij K u w j k - ∑ j ∈ range N, aij K u w j i
        - (∑ k ∈ range N, aij K u w i k - aij K u w i i) := by
    rw [qf_eq_bf, bf_sub_left, bf_sub_right, bf_sub_right]
    have h1 : bf K (colSum N u) (colSum N u) w = ∑ j ∈ range N, ∑ k ∈ range N, aij K u w j k := by
      rw [← qf_eq_bf, colSum_eq, qf_sum]
    have h2 : bf K (colSum N u) (u i) w = ∑ j ∈ range N, aij K u w j i := by
      rw [colSum_eq, bf_sum_left]; rfl
    have h3 : bf K (u i) (colSum N u) w = ∑ k ∈ range N, aij K u w i k := by
      rw [colSum_eq, bf_sum_right]; rfl
    rw [h1, h2, h3]; rfl
  have hs : qfSum N K u w = ∑ j ∈ range N, aij K u w j j := by
    unfold qfSum; rw [sumTo_eq]; rfl
  rw [hq, hs, qf_eq_bf]
  show _ - _ + aij K u w i i = _
  ring

theorem pairSum_half (K : ℕ) (u w : Mat) (hw : ∀ a < K, ∀ b < K, w a b = w b a) (s : Finset ℕ) :
    pairSum K u w s = ∑ p ∈ s.offDiag, aij K u w p.1 p.2 * half := by
  rw [← Finset.sum_mul, sum_offDiag_symm _ _ (aij_symm K u w hw)]
  unfold pairSum half; ring

/-- sum of the Poisson parameters of all hyperedges of size `d` through node `i` -/
theorem node_total (N K : ℕ) (u w : Mat) (hw : ∀ a < K, ∀ b < K, w a b = w b a) (d : ℕ) (hd : 2 ≤ d)
    (i : ℕ) (hi : i < N) :
    ∑ e ∈ (range N).powersetCard d with i ∈ e, pairSum K u w e
      = (Nat.choose (N - 2) (d - 2) : ℚ) * (bf K (u i) (colSum N u) w - qf K (u i) w)
        + (cnt3 N d : ℚ) * (half * (qf K (fun a => colSum N u a - u i a) w - qfSum N K u w + qf K (u i) w)) := by
  have h1 : ∀ e ∈ ((range N).powersetCard d).filter (i ∈ ·), pairSum K u w e
      = ∑ p ∈ e.offDiag, (fun j k => aij K u w j k * half) p.1 p.2 := fun e _ => pairSum_half K u w hw e
  rw [Finset.sum_congr rfl h1,
    count_pairs_node (range N) d hd i (mem_range.mpr hi) (fun j k => aij K u w j k * half), card_range,
    node_sum (range N) i (mem_range.mpr hi) (fun j k => aij K u w j k * half), expDeg_first, expDeg_second]
  simp only [← Finset.sum_mul]
  have hsym : ∑ j ∈ range N, aij K u w j i = ∑ k ∈ range N, aij K u w i k :=
    Finset.sum_congr rfl fun j _ => aij_symm K u w hw j i
  rw [hsym]
  unfold half; ring

theorem node_closed (N K : ℕ) (u w : Mat) (hN : 3 ≤ N)
    (d : ℕ) (hd : 2 ≤ d) (hdN : d ≤ N) (i : ℕ) (first second : ℚ)
    (h : ∑ e ∈ (range N).powersetCard d with i ∈ e, pairSum K u w e
      = (Nat.choose (N - 2) (d - 2) : ℚ) * first + (cnt3 N d : ℚ) * second) :
    ∑ e ∈ (range N).powersetCard d with i ∈ e, pairSum K u w e / kappa N d
      = Cterm d * first + 2 / ((N : ℚ) - 2) * (((d : ℚ) - 2) / ((d : ℚ) * ((d : ℚ) - 1))) * second := by
  rw [← Finset.sum_div, h, kappa_eq]
  have h1 := (choose_pos' N d hd hdN).ne'
  obtain ⟨h2, h3⟩ := d_pos d hd
  have hN2 : (0 : ℚ) < (N : ℚ) - 2 := by
    have : (3 : ℚ) ≤ (N : ℚ) := by exact_mod_cast hN
    linarith
  have hc3 : (cnt3 N d : ℚ) = (Nat.choose (N - 2) (d - 2) : ℚ) * ((d : ℚ) - 2) / ((N : ℚ) - 2) := by
    rw [eq_div_iff hN2.ne']; exact cnt3_mul N d hN hd
  rw [hc3]
  unfold Cterm
  field_simp

/-- `expected_degree(per_node=True, d=ds)[i]` is the sum over all hyperedges through `i` with a size in `ds`
of `λ_e / κ_|e|` -/
theorem expDegNode_closed (N K : ℕ) (u w : Mat) (hw : ∀ a < K, ∀ b < K, w a b = w b a) (hN : 3 ≤ N)
    (i : ℕ) (hi : i < N) (ds : List ℕ) (hds : ∀ d ∈ ds, 2 ≤ d ∧ d ≤ N) :
    expDegNode N K u w ds i
      = sumL ds fun d => ∑ e ∈ (range N).powersetCard d with i ∈ e, pairSum K u w e / kappa N d := by
  unfold expDegNode C Cprime
  simp only []
  rw [sumL_mul, mul_sumL, sumL_mul, sumL_add]
  apply sumL_congr
  intro d hd
  obtain ⟨h2, hdN⟩ := hds d hd
  rw [node_closed N K u w hN d h2 hdN i _ _ (node_total N K u w hw d h2 i hi)]

end C15
