import Hgxv.Model.C04Raw
import Hgxv.Proofs.C04AggSpec
import Hgxv.Proofs.C04Dump
import Hgxv.Proofs.C04Ext
/-! C04, second extension round - raw setters, mixed histories, `expose ∘ populate`, the registry handed in from
outside, layer metadata (replace semantics), the hashing view with unorderable layer names. Core Lean only. -/
namespace C04
open AL

/-! ## mixed histories -/

theorem store_ext (s s' : Store) (h1 : s'.weighted = s.weighted) (h2 : s'.edgeList = s.edgeList) (h3 : s'.rev = s.rev)
    (h4 : s'.weights = s.weights) (h5 : s'.emeta = s.emeta) (h6 : s'.adj = s.adj) (h7 : s'.nmeta = s.nmeta)
    (h8 : s'.nextId = s.nextId) (h9 : s'.hmeta = s.hmeta) (h10 : s'.layers = s.layers) : s' = s := by
  cases s; cases s'; simp_all

theorem rawStep_echo (s : Store) (op : RawOp) (h : op.echo s = true) :
    rawStep s op = match op with | .pub o => (step s o).1 | _ => s := by
  cases op with
  | pub o => rfl
  | setEdgeList t =>
    simp only [RawOp.echo, decide_eq_true_eq] at h
    subst h; rfl
  | setAdjDict t =>
    simp only [RawOp.echo, decide_eq_true_eq] at h
    subst h; rfl
  | setExistingLayers ls =>
    simp only [RawOp.echo, decide_eq_true_eq] at h
    subst h; rfl
  | populate d =>
    simp only [RawOp.echo] at h
    simp only [rawStep]
    have hl : loadDump d = some (populate d) ∨ loadDump d = none := by
      unfold loadDump
      split
      · exact Or.inl rfl
      · exact Or.inr rfl
    rcases hl with hl | hl
    · rw [hl] at h
      simp only [decide_eq_true_eq] at h
      obtain ⟨h1, h2, h3, h4, h5, h6, h7, h8, h9, h10⟩ := h
      exact store_ext _ _ h1 h2 h3 h4 h5 h6 h7 h8 h9 h10
    · rw [hl] at h; exact absurd h (by simp)

theorem rawRun_echo (s : Store) (ops : List RawOp) (h : echoes s ops = true) : rawRun s ops = run s (pubOps ops) := by
  induction ops generalizing s with
  | nil => rfl
  | cons op ops ih =>
    simp only [echoes, Bool.and_eq_true] at h
    have e := rawStep_echo s op h.1
    have ih' := ih (rawStep s op) h.2
    unfold rawRun at ih' ⊢
    rw [List.foldl_cons, ih']
    cases op with
    | pub o => rw [e]; simp only [pubOps, run, List.foldl_cons]
    | setEdgeList t => rw [e]; simp only [pubOps]
    | setAdjDict t => rw [e]; simp only [pubOps]
    | setExistingLayers ls => rw [e]; simp only [pubOps]
    | populate d => rw [e]; simp only [pubOps]

/-! ## `expose ∘ populate` on a well-typed dictionary -/

theorem expose_populate (d : Dump) (h : Dump.WF d) : ∀ name ∈ tableNames, lookup (expose (populate d)) name = lookup d name := by
  obtain ⟨⟨a1, h1⟩, ⟨a2, h2⟩, ⟨a3, h3⟩, ⟨a4, h4⟩, ⟨a5, h5⟩, ⟨a6, h6⟩, ⟨a7, h7⟩, ⟨a8, h8⟩, ⟨a9, h9⟩, ⟨a10, h10⟩⟩ := h
  intro name hn
  simp only [tableNames, List.mem_cons, List.not_mem_nil, or_false] at hn
  rcases hn with rfl | rfl | rfl | rfl | rfl | rfl | rfl | rfl | rfl | rfl <;>
    simp [expose, populate, lookup, h1, h2, h3, h4, h5, h6, h7, h8, h9, h10]

/-! ## a registry handed in from outside -/

theorem overlap_setLayers (s : Store) (h : Inv s) (ls : List Layer) (hnd : ls.Nodup) (hsup : ∀ k ∈ records s, k.2 ∈ ls)
    (raw : List Node) : overlap (setExistingLayers s ls) raw = Spec.overlap (abs s) raw := by
  have e : overlap (setExistingLayers s ls) raw = overlapIn s ls raw := rfl
  rw [e]
  unfold overlapIn
  have : (fun l => (getWeight s raw l).getD 0) = (fun l => ((get? (abs s).edges (canon raw, l)).map (·.1)).getD 0) := by
    funext l; rw [getWeight_abs s raw l h]; rfl
  rw [this]
  show _ = sumFor (abs s).edges (canon raw)
  apply overlap_sum
  · rw [abs_edges, keys_mapVal]; exact h.id.el_nodup
  · exact hnd
  · intro r hr _
    obtain ⟨p, hp, rfl⟩ := List.mem_map.mp (by rw [abs_edges] at hr; exact hr)
    exact hsup p.1 (List.mem_map.mpr ⟨p, hp, rfl⟩)

/-! ## layer metadata: replace semantics -/

theorem layerMeta_set (s : Store) (l l' : Layer) (v : Nat) :
    layerMeta (setLayerMeta s l v) l' = if l' = l then some v else layerMeta s l' := by
  unfold layerMeta setLayerMeta setAttrH hkLayer
  simp only [get?_set]
  by_cases hl : l' = l
  · subst hl; simp
  · have : ¬ (10 + l = 10 + l') := fun he => hl (Nat.add_left_cancel he).symm
    simp only [this, if_false, hl]

theorem datasetMeta_setLayer (s : Store) (l : Layer) (v : Nat) : datasetMeta (setLayerMeta s l v) = datasetMeta s := by
  unfold datasetMeta setLayerMeta setAttrH hkLayer hkDataset
  rw [get?_set_ne]; show ¬ ((10 : Nat) + (l : Nat) = 2); omega

theorem layerMeta_setDataset (s : Store) (l : Layer) (v : Nat) : layerMeta (setDatasetMeta s v) l = layerMeta s l := by
  unfold layerMeta setDatasetMeta setAttrH hkLayer hkDataset
  rw [get?_set_ne]; show ¬ ((2 : Nat) = 10 + (l : Nat)); omega

/-! ## hashing view, unorderable names -/

theorem layerClash_iff (ty : Layer → Nat) (ks : List Key) :
    layerClash ty ks = true ↔ ∃ e l l', (e, l) ∈ ks ∧ (e, l') ∈ ks ∧ ty l ≠ ty l' := by
  unfold layerClash
  simp only [List.any_eq_true, Bool.and_eq_true, decide_eq_true_eq]
  constructor
  · rintro ⟨⟨e, l⟩, hk, ⟨e', l'⟩, hk', he, ht⟩
    simp only at he ht
    subst he
    exact ⟨e, l, l', hk, hk', ht⟩
  · rintro ⟨e, l, l', hk, hk', ht⟩
    exact ⟨(e, l), hk, (e, l'), hk', rfl, ht⟩

theorem hashViewT_of_noClash (ty : Layer → Nat) (s : Store) (h : layerClash ty (records s) = false) :
    hashViewT ty s = hashView s := by
  unfold hashViewT; simp [h]

theorem hashViewT_of_clash (ty : Layer → Nat) (s : Store) (h : layerClash ty (records s) = true) :
    hashViewT ty s = none := by
  unfold hashViewT; simp [h]

end C04
