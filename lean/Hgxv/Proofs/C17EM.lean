import Hgxv.Proofs.C17Sum
import Hgxv.Proofs.C17Init
import Mathlib.Analysis.SpecialFunctions.Log.Basic
set_option linter.unusedSectionVars false
set_option linter.unusedVariables false
/-! EM ascent for the Hypergraph-MT model over `ℝ`: free energy, posterior, block M-steps. -/
namespace C17
open Finset Real

/-! ### three scalar facts (all from `log t ≤ t - 1`) -/

/-- the M-step of one parameter: `a log x - b x` is maximal at `x = a / b` -/
theorem mstep_scalar (a b x : ℝ) (ha : 0 < a) (hb : 0 < b) (hx : 0 < x) :
    0 ≤ a * (log (a / b) - log x) - b * (a / b - x) := by
  have hx' : 0 < a / b := div_pos ha hb
  have h := Real.log_le_sub_one_of_pos (div_pos hx hx')
  rw [Real.log_div hx.ne' hx'.ne'] at h
  have h2 : a * (log x - log (a / b)) ≤ a * (x / (a / b) - 1) := mul_le_mul_of_nonneg_left h ha.le
  have h3 : a * (x / (a / b) - 1) = b * x - a := by field_simp
  have h4 : b * (a / b - x) = a - b * x := by field_simp
  rw [h3] at h2; rw [h4]; linarith

/-- `Σ_k ρ_k log(c_k / ρ_k) ≤ log Σ_k c_k` for a probability vector `ρ` (non-negativity of the KL divergence) -/
theorem kl_edge (K : ℕ) (cv rv : ℕ → ℝ) (hr0 : ∀ k, k < K → 0 ≤ rv k) (hsum : ∑ k ∈ range K, rv k = 1)
    (hc : ∀ k, k < K → 0 < cv k) :
    ∑ k ∈ range K, rv k * (log (cv k) - log (rv k)) ≤ log (∑ k ∈ range K, cv k) := by
  have hK : 0 < K := by
    rcases Nat.eq_zero_or_pos K with h | h
    · subst h; simp at hsum
    · exact h
  set lam := ∑ k ∈ range K, cv k with hlam
  have hlpos : 0 < lam := Finset.sum_pos (fun k hk => hc k (mem_range.mp hk)) ⟨0, mem_range.mpr hK⟩
  have hterm : ∀ k ∈ range K, rv k * (log (cv k) - log (rv k)) ≤ rv k * log lam + cv k / lam - rv k := by
    intro k hk
    have hk' := mem_range.mp hk
    rcases (hr0 k hk').eq_or_lt with h0 | hpos
    · rw [← h0]; simp; exact (div_pos (hc k hk') hlpos).le
    · have ht : 0 < cv k / (rv k * lam) := div_pos (hc k hk') (mul_pos hpos hlpos)
      have h := Real.log_le_sub_one_of_pos ht
      rw [Real.log_div (hc k hk').ne' (mul_pos hpos hlpos).ne', Real.log_mul hpos.ne' hlpos.ne'] at h
      have h2 := mul_le_mul_of_nonneg_left h hpos.le
      have h3 : rv k * (cv k / (rv k * lam) - 1) = cv k / lam - rv k := by field_simp
      rw [h3] at h2; linarith
  have := Finset.sum_le_sum hterm
  rw [Finset.sum_sub_distrib, Finset.sum_add_distrib, ← Finset.sum_mul, ← Finset.sum_div, hsum,
    div_self hlpos.ne'] at this
  linarith

/-- with the posterior `ρ_k = c_k / Σ c` the bound is attained -/
theorem post_edge (K : ℕ) (cv : ℕ → ℝ) (hc : ∀ k, k < K → 0 < cv k) (hK : 0 < K) :
    ∑ k ∈ range K, (cv k / ∑ j ∈ range K, cv j) * (log (cv k) - log (cv k / ∑ j ∈ range K, cv j))
      = log (∑ k ∈ range K, cv k) := by
  set lam := ∑ k ∈ range K, cv k with hlam
  have hlpos : 0 < lam := Finset.sum_pos (fun k hk => hc k (mem_range.mp hk)) ⟨0, mem_range.mpr hK⟩
  have hterm : ∀ k ∈ range K, (cv k / lam) * (log (cv k) - log (cv k / lam)) = (cv k / lam) * log lam := by
    intro k hk
    rw [Real.log_div (hc k (mem_range.mp hk)).ne' hlpos.ne']; ring
  rw [Finset.sum_congr rfl hterm, ← Finset.sum_mul, ← Finset.sum_div, div_self hlpos.ne', one_mul]

/-! ### hypotheses -/

/-- the configuration of the ascent theorem: no clamps (`min_value_par = 0`, no upper clamp), `EPS = 0`,
`normalizeU = False`; hyperedges are increasing lists of node indices `< N` of size `2..D` with positive weight -/
structure Setup (c : Cfg ℝ) : Prop where
  eps0 : c.eps = 0
  minv0 : c.minv = 0
  maxvN : c.maxv = none
  normF : c.normU = false
  Kpos : 0 < c.K
  Apos : ∀ e, e < c.E → 0 < c.wt e
  esorted : ∀ e, e < c.E → (c.edge e).Pairwise (· < ·)
  enodes : ∀ e, e < c.E → ∀ i ∈ c.edge e, i < c.N
  esize : ∀ e, e < c.E → 2 ≤ (c.edge e).length ∧ (c.edge e).length ≤ c.D

theorem Setup.cfgOk {c : Cfg ℝ} (h : Setup c) : CfgOk c :=
  ⟨by rw [h.minv0], by intro t v hm; rw [h.maxvN] at hm; cases hm⟩

/-- strict positivity where the model has a parameter: memberships of the nodes of every hyperedge and affinities
of the occurring sizes (true with probability one after the random initialisation, preserved by the sweeps);
all affinities non-negative -/
structure Pos (c : Cfg ℝ) (u w : Mat ℝ) : Prop where
  upos : ∀ e, e < c.E → ∀ i ∈ c.edge e, ∀ k, k < c.K → 0 < at2 u i k
  wpos : ∀ e, e < c.E → ∀ k, k < c.K → 0 < at2 w ((c.edge e).length - 2) k
  wnn : ∀ d k, 0 ≤ at2 w d k

/-- rows of isolated nodes are zero -/
def IsoZero (c : Cfg ℝ) (u : Mat ℝ) : Prop := ∀ i, i < c.N → c.isIso i = true → ∀ k, at2 u i k = 0

/-- a matrix of responsibilities: positive entries, rows summing to one -/
structure RhoOk (c : Cfg ℝ) (rho : Mat ℝ) : Prop where
  pos : ∀ e, e < c.E → ∀ k, k < c.K → 0 < at2 rho e k
  sum : ∀ e, e < c.E → ∑ k ∈ range c.K, at2 rho e k = 1

/-! ### likelihood and free energy -/

/-- the log-likelihood from its definition -/
noncomputable def LL (c : Cfg ℝ) (u w : Mat ℝ) : ℝ :=
  ∑ e ∈ range c.E, c.wt e * log (lamE c u w e) - penDef c u w

/-- the variational free energy for responsibilities `rho` -/
noncomputable def FQ (c : Cfg ℝ) (u w rho : Mat ℝ) : ℝ :=
  ∑ e ∈ range c.E, c.wt e * ∑ k ∈ range c.K, at2 rho e k * (log (cEK c u w e k) - log (at2 rho e k))
    - penDef c u w

section basics
variable {c : Cfg ℝ} (hS : Setup c)
include hS

theorem edgeProd_eq (u : Mat ℝ) (e : List Nat) (k : Nat) :
    edgeProd c u e k = prodL (e.map (fun i => at2 u i k)) := by
  unfold edgeProd; rw [hS.eps0]; simp

theorem cEK_pos {u w : Mat ℝ} (hP : Pos c u w) (e k : Nat) (he : e < c.E) (hk : k < c.K) : 0 < cEK c u w e k := by
  unfold cEK
  apply mul_pos (hP.wpos e he k hk)
  rw [edgeProd_eq hS]
  apply prodL_pos
  intro x hx
  simp only [List.mem_map] at hx
  obtain ⟨i, hi, rfl⟩ := hx
  exact hP.upos e he i hi k hk

theorem lamE_eq (u w : Mat ℝ) (e : Nat) : lamE c u w e = ∑ k ∈ range c.K, cEK c u w e k := by
  unfold lamE; rw [sumR_eq]

theorem lamE_pos {u w : Mat ℝ} (hP : Pos c u w) (e : Nat) (he : e < c.E) : 0 < lamE c u w e := by
  rw [lamE_eq hS]
  exact Finset.sum_pos (fun k hk => cEK_pos hS hP e k he (mem_range.mp hk)) ⟨0, mem_range.mpr hS.Kpos⟩

theorem rhoUpdate_at {u w : Mat ℝ} (hP : Pos c u w) (e k : Nat) (he : e < c.E) (hk : k < c.K) :
    at2 (rhoUpdate c u w) e k = cEK c u w e k / lamE c u w e := by
  unfold rhoUpdate
  rw [at2_tab2 _ _ _ _ _ he hk, if_pos (lamE_pos hS hP e he)]

theorem rhoUpdate_ok {u w : Mat ℝ} (hP : Pos c u w) : RhoOk c (rhoUpdate c u w) := by
  refine ⟨?_, ?_⟩
  · intro e he k hk
    rw [rhoUpdate_at hS hP e k he hk]
    exact div_pos (cEK_pos hS hP e k he hk) (lamE_pos hS hP e he)
  · intro e he
    rw [Finset.sum_congr rfl (fun k hk => rhoUpdate_at hS hP e k he (mem_range.mp hk)), ← Finset.sum_div,
      ← lamE_eq hS, div_self (lamE_pos hS hP e he).ne']

/-- **free energy ≤ log-likelihood** for any responsibilities -/
theorem FQ_le_LL {u w rho : Mat ℝ} (hP : Pos c u w) (hR : RhoOk c rho) : FQ c u w rho ≤ LL c u w := by
  unfold FQ LL
  apply sub_le_sub_right
  apply Finset.sum_le_sum
  intro e he
  have he' := mem_range.mp he
  apply mul_le_mul_of_nonneg_left _ (hS.Apos e he').le
  rw [lamE_eq hS]
  exact kl_edge c.K _ _ (fun k hk => (hR.pos e he' k hk).le) (hR.sum e he') (fun k hk => cEK_pos hS hP e k he' hk)

/-- **equality at the posterior** (what `_update_rho` computes) -/
theorem FQ_eq_LL {u w : Mat ℝ} (hP : Pos c u w) : FQ c u w (rhoUpdate c u w) = LL c u w := by
  unfold FQ LL
  congr 1
  apply Finset.sum_congr rfl
  intro e he
  have he' := mem_range.mp he
  congr 1
  rw [Finset.sum_congr rfl (fun k hk => by rw [rhoUpdate_at hS hP e k he' (mem_range.mp hk), lamE_eq hS])]
  exact post_edge c.K _ (fun k hk => cEK_pos hS hP e k he' hk) hS.Kpos

end basics

/-! ### the `w` step -/

section wstep
variable {c : Cfg ℝ} (hS : Setup c)
include hS

theorem penDef_eq (u w : Mat ℝ) :
    penDef c u w = ∑ d ∈ range (c.D - 1), ∑ k ∈ range c.K, at2 w d k * esymm (d + 2) (col c.N u k) := by
  unfold penDef; rw [sumR_eq]; apply Finset.sum_congr rfl; intro d _; rw [sumR_eq]

theorem wNum_eq (rho : Mat ℝ) (d k : Nat) :
    wNum c rho d k = ∑ e ∈ range c.E, if (c.edge e).length = d + 2 then c.wt e * at2 rho e k else 0 := by
  unfold wNum; rw [sumR_eq]

theorem wNum_nonneg {rho : Mat ℝ} (hR : RhoOk c rho) (d k : Nat) (hk : k < c.K) : 0 ≤ wNum c rho d k := by
  rw [wNum_eq hS]
  apply Finset.sum_nonneg; intro e he
  split
  · exact (mul_pos (hS.Apos e (mem_range.mp he)) (hR.pos e (mem_range.mp he) k hk)).le
  · exact le_refl 0

theorem wNum_pos {rho : Mat ℝ} (hR : RhoOk c rho) (e k : Nat) (he : e < c.E) (hk : k < c.K) :
    0 < wNum c rho ((c.edge e).length - 2) k := by
  rw [wNum_eq hS]
  apply Finset.sum_pos'
  · intro e' he'
    split
    · exact (mul_pos (hS.Apos e' (mem_range.mp he')) (hR.pos e' (mem_range.mp he') k hk)).le
    · exact le_refl 0
  · refine ⟨e, mem_range.mpr he, ?_⟩
    have := (hS.esize e he).1
    rw [if_pos (by omega)]
    exact mul_pos (hS.Apos e he) (hR.pos e he k hk)

/-- `e_{|e|}(u[:,k])` is at least the product over the hyperedge `e`, hence positive -/
theorem esymm_edge_pos {u w : Mat ℝ} (hP : Pos c u w) (hu : ∀ i k, 0 ≤ at2 u i k) (e k : Nat) (he : e < c.E)
    (hk : k < c.K) : 0 < esymm (c.edge e).length (col c.N u k) := by
  have hsub : ((c.edge e).map (fun i => at2 u i k)).Sublist (col c.N u k) := by
    unfold col tab
    exact (sublist_range _ _ (hS.esorted e he) (hS.enodes e he)).map _
  have h1 := prodL_le_esymm hsub (tab_nonneg _ _ (fun j => hu j k))
  rw [List.length_map] at h1
  refine lt_of_lt_of_le (prodL_pos _ ?_) h1
  intro x hx
  simp only [List.mem_map] at hx
  obtain ⟨i, hi, rfl⟩ := hx
  exact hP.upos e he i hi k hk

theorem wUpdate_at {rho psi : Mat ℝ} (d k : Nat) (hd : d < c.D - 1) (hk : k < c.K) :
    at2 (wUpdate c rho psi) d k
      = if 0 < at2 psi (d + 1) k then wNum c rho d k / at2 psi (d + 1) k else wNum c rho d k := by
  unfold wUpdate; rw [at2_tab2 _ _ _ _ _ hd hk]

/-- regrouping a sum over hyperedges by size -/
theorem regroup (rho : Mat ℝ) (G : Nat → Nat → ℝ) :
    ∑ e ∈ range c.E, c.wt e * ∑ k ∈ range c.K, at2 rho e k * G ((c.edge e).length - 2) k
      = ∑ d ∈ range (c.D - 1), ∑ k ∈ range c.K, wNum c rho d k * G d k := by
  have hR : ∀ d ∈ range (c.D - 1), ∑ k ∈ range c.K, wNum c rho d k * G d k
      = ∑ e ∈ range c.E, ∑ k ∈ range c.K,
          if (c.edge e).length = d + 2 then c.wt e * at2 rho e k * G d k else 0 := by
    intro d _
    rw [Finset.sum_comm]
    apply Finset.sum_congr rfl; intro k _
    rw [wNum_eq hS, Finset.sum_mul]
    apply Finset.sum_congr rfl; intro e _
    split <;> simp
  rw [Finset.sum_congr rfl hR, Finset.sum_comm]
  apply Finset.sum_congr rfl; intro e he
  have hsz := hS.esize e (mem_range.mp he)
  rw [Finset.mul_sum, Finset.sum_comm]
  apply Finset.sum_congr rfl; intro k _
  rw [Finset.sum_eq_single_of_mem ((c.edge e).length - 2) (mem_range.mpr (by omega))]
  · rw [if_pos (by omega)]; ring
  · intro d _ hne
    rw [if_neg (by omega)]

/-- **the `w` update does not decrease the free energy** and keeps positivity -/
theorem wstep {u w rho psi : Mat ℝ} (hP : Pos c u w) (hu : ∀ i k, 0 ≤ at2 u i k) (hR : RhoOk c rho)
    (hpsi : ∀ d k, d < c.D → k < c.K → at2 psi d k = esymm (d + 1) (col c.N u k)) :
    Pos c u (wUpdate c rho psi) ∧ FQ c u w rho ≤ FQ c u (wUpdate c rho psi) rho := by
  have hpsipos : ∀ e k, e < c.E → k < c.K → 0 < at2 psi ((c.edge e).length - 2 + 1) k := by
    intro e k he hk
    have hsz := hS.esize e he
    rw [hpsi _ k (by omega) hk]
    have := esymm_edge_pos hS hP hu e k he hk
    rwa [show (c.edge e).length - 2 + 1 + 1 = (c.edge e).length by omega]
  have hw'pos : ∀ e k, e < c.E → k < c.K → 0 < at2 (wUpdate c rho psi) ((c.edge e).length - 2) k := by
    intro e k he hk
    have hsz := hS.esize e he
    rw [wUpdate_at hS _ k (by omega) hk, if_pos (hpsipos e k he hk)]
    exact div_pos (wNum_pos hS hR e k he hk) (hpsipos e k he hk)
  have hP' : Pos c u (wUpdate c rho psi) := by
    refine ⟨hP.upos, fun e he k hk => hw'pos e k he hk, ?_⟩
    intro d k
    unfold wUpdate
    apply at2_tab2_nonneg
    intro d k hd hk
    split
    · exact div_nonneg (wNum_nonneg hS hR d k hk) (le_of_lt ‹_›)
    · exact wNum_nonneg hS hR d k hk
  refine ⟨hP', ?_⟩
  -- the difference of the data terms
  have hdata : ∀ e ∈ range c.E,
      c.wt e * ∑ k ∈ range c.K, at2 rho e k * (log (cEK c u (wUpdate c rho psi) e k) - log (at2 rho e k))
      = c.wt e * ∑ k ∈ range c.K, at2 rho e k * (log (cEK c u w e k) - log (at2 rho e k))
        + c.wt e * ∑ k ∈ range c.K, at2 rho e k *
            (log (at2 (wUpdate c rho psi) ((c.edge e).length - 2) k) - log (at2 w ((c.edge e).length - 2) k)) := by
    intro e he
    have he' := mem_range.mp he
    rw [← mul_add, ← Finset.sum_add_distrib]
    congr 1
    apply Finset.sum_congr rfl; intro k hk
    have hk' := mem_range.mp hk
    have hprod : 0 < edgeProd c u (c.edge e) k := by
      rw [edgeProd_eq hS]; apply prodL_pos; intro x hx
      simp only [List.mem_map] at hx
      obtain ⟨i, hi, rfl⟩ := hx
      exact hP.upos e he' i hi k hk'
    unfold cEK
    rw [Real.log_mul (hw'pos e k he' hk').ne' hprod.ne', Real.log_mul (hP.wpos e he' k hk').ne' hprod.ne']
    ring
  unfold FQ
  rw [Finset.sum_congr rfl hdata, Finset.sum_add_distrib,
    regroup hS rho (fun d k => log (at2 (wUpdate c rho psi) d k) - log (at2 w d k)),
    penDef_eq hS, penDef_eq hS]
  -- per (d, k) inequality
  have hterm : ∀ d ∈ range (c.D - 1), ∀ k ∈ range c.K,
      0 ≤ wNum c rho d k * (log (at2 (wUpdate c rho psi) d k) - log (at2 w d k))
          - (at2 (wUpdate c rho psi) d k - at2 w d k) * esymm (d + 2) (col c.N u k) := by
    intro d hd k hk
    have hd' := mem_range.mp hd
    have hk' := mem_range.mp hk
    have hE : at2 psi (d + 1) k = esymm (d + 2) (col c.N u k) := hpsi (d + 1) k (by omega) hk'
    have hEnn : 0 ≤ esymm (d + 2) (col c.N u k) := esymm_nonneg _ _ (tab_nonneg _ _ (fun j => hu j k))
    rcases (wNum_nonneg hS hR d k hk').eq_or_lt with h0 | hpos
    · have hw' : at2 (wUpdate c rho psi) d k = 0 := by
        rw [wUpdate_at hS d k hd' hk', ← h0]; simp
      rw [hw', ← h0]
      have := mul_nonneg (hP.wnn d k) hEnn
      simp; linarith
    · -- some hyperedge has size d + 2
      have hex : ∃ e, e < c.E ∧ (c.edge e).length = d + 2 := by
        by_contra hne
        push Not at hne
        have : wNum c rho d k = 0 := by
          rw [wNum_eq hS]; apply Finset.sum_eq_zero; intro e he
          rw [if_neg (hne e (mem_range.mp he))]
        linarith
      obtain ⟨e, he, hlen⟩ := hex
      have hd2 : (c.edge e).length - 2 = d := by omega
      have hpp := hpsipos e k he hk'
      rw [hd2] at hpp
      have hwp := hP.wpos e he k hk'
      rw [hd2] at hwp
      rw [wUpdate_at hS d k hd' hk', if_pos hpp, hE]
      rw [hE] at hpp
      have := mstep_scalar (wNum c rho d k) (esymm (d + 2) (col c.N u k)) (at2 w d k) hpos hpp hwp
      linarith
  have hsum : 0 ≤ ∑ d ∈ range (c.D - 1), ∑ k ∈ range c.K,
      (wNum c rho d k * (log (at2 (wUpdate c rho psi) d k) - log (at2 w d k))
          - (at2 (wUpdate c rho psi) d k - at2 w d k) * esymm (d + 2) (col c.N u k)) :=
    Finset.sum_nonneg (fun d hd => Finset.sum_nonneg (fun k hk => hterm d hd k hk))
  simp only [Finset.sum_sub_distrib, sub_mul] at hsum
  linarith

end wstep

/-! ### the `u` step of one node -/

section ustep
variable {c : Cfg ℝ} (hS : Setup c)
include hS

theorem isIso_false {i : Nat} (h : ¬ c.isIso i = true) : ∃ e, e < c.E ∧ i ∈ c.edge e := by
  unfold Cfg.isIso at h
  simp only [Bool.not_eq_true', Bool.not_eq_false, List.any_eq_true, List.contains_iff_mem] at h
  obtain ⟨l, hl, hi⟩ := h
  obtain ⟨n, hn, rfl⟩ := List.getElem_of_mem hl
  refine ⟨n, hn, ?_⟩
  unfold Cfg.edge
  simpa [List.getD, hn] using hi

theorem isIso_true {i e : Nat} (he : e < c.E) (hi : i ∈ c.edge e) : ¬ c.isIso i = true := by
  unfold Cfg.isIso
  simp only [Bool.not_eq_true', Bool.not_eq_false, List.any_eq_true, List.contains_iff_mem]
  refine ⟨c.edge e, ?_, hi⟩
  unfold Cfg.edge Cfg.E at *
  simp [List.getD, he]

theorem uNum_eq (rho : Mat ℝ) (i k : Nat) :
    uNum c rho i k = ∑ e ∈ range c.E, if i ∈ c.edge e then c.wt e * at2 rho e k else 0 := by
  unfold uNum; rw [sumR_eq]; apply Finset.sum_congr rfl; intro e _
  by_cases h : i ∈ c.edge e <;> simp [h]

theorem uDen_eq (w bar : Mat ℝ) (k : Nat) :
    uDen c w bar k = ∑ d ∈ range (c.D - 1), at2 w d k * at2 bar d k := by
  unfold uDen; rw [sumR_eq]

variable (s : St ℝ) (hI : Inv c s) (hP : Pos c s.u s.w) (hR : RhoOk c s.rho) (i e0 : Nat) (hi : i < c.N)
  (he0 : e0 < c.E) (hie0 : i ∈ c.edge e0)
include hI hP hR hi he0 hie0

theorem uNum_pos (k : Nat) (hk : k < c.K) : 0 < uNum c s.rho i k := by
  rw [uNum_eq hS]
  apply Finset.sum_pos'
  · intro e he
    split
    · exact (mul_pos (hS.Apos e (mem_range.mp he)) (hR.pos e (mem_range.mp he) k hk)).le
    · exact le_refl 0
  · exact ⟨e0, mem_range.mpr he0, by rw [if_pos hie0]; exact mul_pos (hS.Apos e0 he0) (hR.pos e0 he0 k hk)⟩

theorem actK_true (k : Nat) (hk : k < c.K) : actK c s i k = true := by
  unfold actK; rw [hS.minv0]; simpa using hP.upos e0 he0 i hie0 k hk

theorem barNew_at (d k : Nat) (hd : d < c.D) (hk : k < c.K) :
    at2 (barNew c s i) d k = esymm (d + 1) (restL c.N (fun j => at2 s.u j k) i) := by
  rw [barNew_eq c hS.cfgOk s hI.toInv0 i hi, barUpd_spec c hS.cfgOk s hI.toInv0 i hi _ d k hd hk,
    actK_true hS s hI hP hR i e0 hi he0 hie0 k hk]; rfl

theorem uDen_pos (k : Nat) (hk : k < c.K) : 0 < uDen c s.w (barNew c s i) k := by
  rw [uDen_eq hS]
  have hsz := hS.esize e0 he0
  have hterm : ∀ d ∈ range (c.D - 1), 0 ≤ at2 s.w d k * at2 (barNew c s i) d k := by
    intro d hd
    exact mul_nonneg (hP.wnn d k) (barNew_nonneg c hS.cfgOk s hI.toInv0 i hi d k)
  apply Finset.sum_pos' hterm
  refine ⟨(c.edge e0).length - 2, mem_range.mpr (by omega), ?_⟩
  apply mul_pos (hP.wpos e0 he0 k hk)
  rw [barNew_at hS s hI hP hR i e0 hi he0 hie0 _ k (by omega) hk]
  -- the product over the other nodes of e0 is a lower bound
  have hnd := (hS.esorted e0 he0).nodup
  have hsub : (((c.edge e0).erase i).map (fun j => at2 s.u j k)).Sublist
      (restL c.N (fun j => at2 s.u j k) i) := by
    unfold restL
    rw [← List.map_append]
    apply List.Sublist.map
    apply sublist_rest
    · exact (hS.esorted e0 he0).sublist List.erase_sublist
    · intro j hj; exact hS.enodes e0 he0 j (List.mem_of_mem_erase hj)
    · intro h; exact ((List.Nodup.mem_erase_iff hnd).mp h).1 rfl
  have h1 := prodL_le_esymm hsub (restL_nonneg _ _ _ (fun j => hI.unn j k))
  rw [List.length_map, List.length_erase_of_mem hie0] at h1
  rw [show (c.edge e0).length - 2 + 1 = (c.edge e0).length - 1 by omega]
  refine lt_of_lt_of_le (prodL_pos _ ?_) h1
  intro x hx
  simp only [List.mem_map] at hx
  obtain ⟨j, hj, rfl⟩ := hx
  exact hP.upos e0 he0 j (List.mem_of_mem_erase hj) k hk

theorem rawNew_eq (k : Nat) (hk : k < c.K) : rawNew c s i k = uNum c s.rho i k / uDen c s.w (barNew c s i) k := by
  unfold rawNew uRaw; rw [hS.normF]
  simp only [Bool.false_eq_true, if_false]
  rw [if_pos (uDen_pos hS s hI hP hR i e0 hi he0 hie0 k hk)]

theorem rawNew_pos (k : Nat) (hk : k < c.K) : 0 < rawNew c s i k := by
  rw [rawNew_eq hS s hI hP hR i e0 hi he0 hie0 k hk]
  exact div_pos (uNum_pos hS s hI hP hR i e0 hi he0 hie0 k hk) (uDen_pos hS s hI hP hR i e0 hi he0 hie0 k hk)

theorem negNew_false : negNew c s i = false := by
  unfold negNew anyK
  rw [List.any_eq_false]
  intro k hk
  have hk' : k < c.K := by simpa using hk
  have := rawNew_pos hS s hI hP hR i e0 hi he0 hie0 k hk'
  simp [not_lt.mpr this.le]

/-- without clamps the new entry is the EM ratio -/
theorem vNew_eq (k : Nat) (hk : k < c.K) :
    vNew c s i k = uNum c s.rho i k / uDen c s.w (barNew c s i) k := by
  unfold vNew
  rw [actK_true hS s hI hP hR i e0 hi he0 hie0 k hk, negNew_false hS s hI hP hR i e0 hi he0 hie0]
  simp only [if_true, Bool.false_eq_true, if_false]
  have hpos := rawNew_pos hS s hI hP hR i e0 hi he0 hie0 k hk
  unfold clampHigh clampLow
  rw [hS.maxvN, hS.minv0, if_neg (not_lt.mpr hpos.le)]
  exact rawNew_eq hS s hI hP hR i e0 hi he0 hie0 k hk

theorem uNode_eq : uNode c s i =
    { s with u := setRow c s.u i (vNew c s i),
             bar := barNew c s i,
             psi := psiRepairLast c (psiUpd c (actK c s i) (fun k => vNew c s i k - at2 s.u i k) s.psi (barNew c s i)),
             lams := if c.normU then s.lams.tail else s.lams } := by
  unfold uNode
  have h1 : anyK c (actK c s i) = true := by
    unfold anyK
    rw [List.any_eq_true]
    exact ⟨0, by simpa using hS.Kpos, actK_true hS s hI hP hR i e0 hi he0 hie0 0 hS.Kpos⟩
  rw [h1, barOk_barNew c hS.cfgOk s hI.toInv0 i hi]
  simp

/-- **the update of one node does not decrease the free energy** (responsibilities and affinities fixed) and
keeps positivity -/
theorem ustep :
    Pos c (setRow c s.u i (vNew c s i)) s.w ∧
    FQ c s.u s.w s.rho ≤ FQ c (setRow c s.u i (vNew c s i)) s.w s.rho := by
  set v := vNew c s i with hv
  set u' := setRow c s.u i v with hu'
  have hvk : ∀ k, k < c.K → v k = uNum c s.rho i k / uDen c s.w (barNew c s i) k :=
    fun k hk => vNew_eq hS s hI hP hR i e0 hi he0 hie0 k hk
  have hvpos : ∀ k, k < c.K → 0 < v k := by
    intro k hk; rw [hvk k hk]
    exact div_pos (uNum_pos hS s hI hP hR i e0 hi he0 hie0 k hk) (uDen_pos hS s hI hP hR i e0 hi he0 hie0 k hk)
  have hu'at : ∀ j k, j < c.N → k < c.K → at2 u' j k = if j = i then v k else at2 s.u j k :=
    fun j k hj hk => at2_tab2 _ _ _ _ _ hj hk
  have hP' : Pos c u' s.w := by
    refine ⟨?_, hP.wpos, hP.wnn⟩
    intro e he j hj k hk
    rw [hu'at j k (hS.enodes e he j hj) hk]
    split
    · exact hvpos k hk
    · exact hP.upos e he j hj k hk
  refine ⟨hP', ?_⟩
  have huik : ∀ k, k < c.K → 0 < at2 s.u i k := fun k hk => hP.upos e0 he0 i hie0 k hk
  -- data terms
  have hdata : ∀ e ∈ range c.E,
      c.wt e * ∑ k ∈ range c.K, at2 s.rho e k * (log (cEK c u' s.w e k) - log (at2 s.rho e k))
      = c.wt e * ∑ k ∈ range c.K, at2 s.rho e k * (log (cEK c s.u s.w e k) - log (at2 s.rho e k))
        + ∑ k ∈ range c.K, (if i ∈ c.edge e then c.wt e * at2 s.rho e k else 0) * (log (v k) - log (at2 s.u i k)) := by
    intro e he
    have he' := mem_range.mp he
    rw [Finset.mul_sum, Finset.mul_sum, ← Finset.sum_add_distrib]
    apply Finset.sum_congr rfl; intro k hk
    have hk' := mem_range.mp hk
    have hprod : 0 < prodL ((c.edge e).map (fun j => at2 s.u j k)) := by
      apply prodL_pos; intro x hx
      simp only [List.mem_map] at hx
      obtain ⟨j, hj, rfl⟩ := hx
      exact hP.upos e he' j hj k hk'
    have hupd := prodL_update (fun j => at2 s.u j k) (fun j => at2 u' j k) i (huik k hk').ne' (c.edge e)
      (fun j hj hne => by rw [hu'at j k (hS.enodes e he' j hj) hk', if_neg hne]) (hS.esorted e he').nodup
    unfold cEK
    rw [edgeProd_eq hS, edgeProd_eq hS, hupd]
    by_cases hie : i ∈ c.edge e
    · simp only [hie, if_true]
      rw [hu'at i k hi hk', if_pos rfl]
      have hw := hP.wpos e he' k hk'
      rw [Real.log_mul hw.ne' (mul_pos hprod (div_pos (hvpos k hk') (huik k hk'))).ne',
        Real.log_mul hprod.ne' (div_pos (hvpos k hk') (huik k hk')).ne',
        Real.log_div (hvpos k hk').ne' (huik k hk').ne', Real.log_mul hw.ne' hprod.ne']
      ring
    · simp only [hie, if_false]; ring
  -- penalty terms
  have hpen : penDef c u' s.w = penDef c s.u s.w
      + ∑ k ∈ range c.K, uDen c s.w (barNew c s i) k * (v k - at2 s.u i k) := by
    rw [penDef_eq hS, penDef_eq hS]
    have hR2 : ∑ k ∈ range c.K, uDen c s.w (barNew c s i) k * (v k - at2 s.u i k)
        = ∑ d ∈ range (c.D - 1), ∑ k ∈ range c.K, at2 s.w d k * at2 (barNew c s i) d k * (v k - at2 s.u i k) := by
      rw [Finset.sum_comm]
      apply Finset.sum_congr rfl; intro k _
      rw [uDen_eq hS, Finset.sum_mul]
    rw [hR2, ← Finset.sum_add_distrib]
    apply Finset.sum_congr rfl; intro d hd
    have hd' := mem_range.mp hd
    rw [← Finset.sum_add_distrib]
    apply Finset.sum_congr rfl; intro k hk
    have hk' := mem_range.mp hk
    rw [barNew_at hS s hI hP hR i e0 hi he0 hie0 d k (by omega) hk']
    rw [col_setRow c hS.cfgOk s hI.toInv0 i hi v k hk']
    have hcol : col c.N s.u k = tab c.N (fun j => at2 s.u j k) := rfl
    have hrest : restL c.N (fun j => if j = i then v k else at2 s.u j k) i = restL c.N (fun j => at2 s.u j k) i :=
      restL_congr _ _ _ _ (fun j hj => by simp [hj])
    rw [hcol, esymm_tab c.N _ i hi (d + 1), esymm_tab c.N (fun j => at2 s.u j k) i hi (d + 1), hrest]
    simp only [if_true]; ring
  unfold FQ
  rw [Finset.sum_congr rfl hdata, Finset.sum_add_distrib, hpen, Finset.sum_comm]
  have hnum : ∀ k ∈ range c.K,
      ∑ e ∈ range c.E, (if i ∈ c.edge e then c.wt e * at2 s.rho e k else 0) * (log (v k) - log (at2 s.u i k))
        = uNum c s.rho i k * (log (v k) - log (at2 s.u i k)) := by
    intro k _; rw [uNum_eq hS, Finset.sum_mul]
  rw [Finset.sum_congr rfl hnum]
  have hterm : ∀ k ∈ range c.K,
      0 ≤ uNum c s.rho i k * (log (v k) - log (at2 s.u i k))
          - uDen c s.w (barNew c s i) k * (v k - at2 s.u i k) := by
    intro k hk
    have hk' := mem_range.mp hk
    rw [hvk k hk']
    exact mstep_scalar _ _ _ (uNum_pos hS s hI hP hR i e0 hi he0 hie0 k hk')
      (uDen_pos hS s hI hP hR i e0 hi he0 hie0 k hk') (huik k hk')
  have hsum := Finset.sum_nonneg hterm
  rw [Finset.sum_sub_distrib] at hsum
  linarith

end ustep

/-! ### a whole sweep -/

section sweep
variable {c : Cfg ℝ} (hS : Setup c)
include hS

theorem uNode_of_zero_row (s : St ℝ) (i : Nat) (h : ∀ k, at2 s.u i k = 0) : uNode c s i = s := by
  unfold uNode
  have : anyK c (actK c s i) = false := by
    unfold anyK
    rw [List.any_eq_false]
    intro k _
    simp [actK, h k, hS.minv0]
  rw [this]; simp

/-- one pass of the loop body of `_update_u`: invariant, positivity and zero rows are kept, `w` and `rho` are
untouched, the free energy does not decrease -/
theorem uNode_good (s : St ℝ) (hI : Inv c s) (hP : Pos c s.u s.w) (hZ : IsoZero c s.u) (hR : RhoOk c s.rho)
    (i : Nat) (hi : i < c.N) :
    Inv c (uNode c s i) ∧ Pos c (uNode c s i).u (uNode c s i).w ∧ IsoZero c (uNode c s i).u ∧
    (uNode c s i).w = s.w ∧ (uNode c s i).rho = s.rho ∧
    FQ c s.u s.w s.rho ≤ FQ c (uNode c s i).u (uNode c s i).w (uNode c s i).rho := by
  have hI' := uNode_inv c hS.cfgOk s hI i hi
  have hZ' : IsoZero c (uNode c s i).u := fun j hjN hj k => zero_row_stays c hS.cfgOk s j (hZ j hjN hj) i k
  by_cases hiso : c.isIso i = true
  · have := uNode_of_zero_row hS s i (hZ i hi hiso)
    rw [this] at hI' hZ' ⊢
    exact ⟨hI, hP, hZ, rfl, rfl, le_refl _⟩
  · obtain ⟨e0, he0, hie0⟩ := isIso_false hS hiso
    obtain ⟨hP', hF⟩ := ustep hS s hI hP hR i e0 hi he0 hie0
    have heq := uNode_eq hS s hI hP hR i e0 hi he0 hie0
    refine ⟨hI', ?_, hZ', ?_, ?_, ?_⟩
    · rw [heq]; exact hP'
    · rw [heq]
    · rw [heq]
    · rw [heq]; exact hF

theorem uSweep_good (perm : List Nat) (hp : ∀ i ∈ perm, i < c.N) :
    ∀ (s : St ℝ), Inv c s → Pos c s.u s.w → IsoZero c s.u → RhoOk c s.rho →
      Inv c (uSweep c s perm) ∧ Pos c (uSweep c s perm).u (uSweep c s perm).w ∧ IsoZero c (uSweep c s perm).u ∧
      (uSweep c s perm).w = s.w ∧ (uSweep c s perm).rho = s.rho ∧
      FQ c s.u s.w s.rho ≤ FQ c (uSweep c s perm).u (uSweep c s perm).w (uSweep c s perm).rho := by
  induction perm with
  | nil => intro s hI hP hZ hR; exact ⟨hI, hP, hZ, rfl, rfl, le_refl _⟩
  | cons i perm ih =>
    intro s hI hP hZ hR
    obtain ⟨hI1, hP1, hZ1, hw1, hr1, hF1⟩ := uNode_good hS s hI hP hZ hR i (hp i (by simp))
    have hR1 : RhoOk c (uNode c s i).rho := by rw [hr1]; exact hR
    obtain ⟨hI2, hP2, hZ2, hw2, hr2, hF2⟩ := ih (fun j hj => hp j (by simp [hj])) (uNode c s i) hI1 hP1 hZ1 hR1
    have hfold : uSweep c s (i :: perm) = uSweep c (uNode c s i) perm := by
      unfold uSweep; simp
    rw [hfold]
    exact ⟨hI2, hP2, hZ2, hw2.trans hw1, hr2.trans hr1, le_trans hF1 hF2⟩

/-- **one `_update_em` sweep does not decrease the log-likelihood**, and re-establishes its own hypotheses -/
theorem em_ascent (s : St ℝ) (hI : Inv c s) (hP : Pos c s.u s.w) (hZ : IsoZero c s.u)
    (hrho : s.rho = rhoUpdate c s.u s.w) (perm : List Nat) (hp : ∀ i ∈ perm, i < c.N) :
    LL c s.u s.w ≤ LL c (emSweep c s perm).u (emSweep c s perm).w ∧
    Inv c (emSweep c s perm) ∧ Pos c (emSweep c s perm).u (emSweep c s perm).w ∧ IsoZero c (emSweep c s perm).u ∧
    (emSweep c s perm).rho = rhoUpdate c (emSweep c s perm).u (emSweep c s perm).w := by
  have hR : RhoOk c s.rho := by rw [hrho]; exact rhoUpdate_ok hS hP
  obtain ⟨hPw, hFw⟩ := wstep hS hP hI.unn hR hI.psi
  set w' := wUpdate c s.rho s.psi with hw'
  set s1 : St ℝ := { s with w := w', rho := rhoUpdate c s.u w' } with hs1
  have hI1 : Inv c s1 := ⟨⟨hI.psi, hI.unn, hI.bar⟩, hI.thr⟩
  have hR1 : RhoOk c s1.rho := rhoUpdate_ok hS hPw
  obtain ⟨hI2, hP2, hZ2, hw2, hr2, hF2⟩ := uSweep_good hS perm hp s1 hI1 hPw hZ hR1
  have hem : emSweep c s perm = { uSweep c s1 perm with rho := rhoUpdate c (uSweep c s1 perm).u (uSweep c s1 perm).w } := rfl
  rw [hem]
  refine ⟨?_, ⟨⟨hI2.psi, hI2.unn, hI2.bar⟩, hI2.thr⟩, hP2, hZ2, rfl⟩
  -- the chain L = F(post) ≤ F(w') ≤ L(w') = F(post') ≤ F(sweep) ≤ L(sweep)
  have c1 : LL c s.u s.w = FQ c s.u s.w s.rho := by rw [hrho]; exact (FQ_eq_LL hS hP).symm
  have c2 : FQ c s.u w' s.rho ≤ LL c s.u w' := FQ_le_LL hS hPw hR
  have c3 : LL c s.u w' = FQ c s1.u s1.w s1.rho := (FQ_eq_LL hS hPw).symm
  have hR2 : RhoOk c (uSweep c s1 perm).rho := by rw [hr2]; exact hR1
  have c4 := FQ_le_LL hS hP2 hR2
  simp only at c4 ⊢
  linarith

end sweep

/-! ### the initial state -/

section init
variable {c : Cfg ℝ} (hS : Setup c)
include hS

theorem initFold_w (r0 : Bool) (u0 : Mat ℝ) (l : List Nat) : ∀ (s : St ℝ),
    (l.foldl (initNode c r0 u0) s).w = s.w ∧ (l.foldl (initNode c r0 u0) s).lams = s.lams := by
  induction l with
  | nil => intro s; exact ⟨rfl, rfl⟩
  | cons i l ih => intro s; simp only [List.foldl_cons]; rw [(ih _).1, (ih _).2]; exact ⟨rfl, rfl⟩

theorem initState_w (r0 : Bool) (uk : List ℝ) (u0 w0 : Mat ℝ) (lams : List ℝ) :
    (initState c r0 uk u0 w0 lams).w = w0 := by
  unfold initState; simp only; rw [(initFold_w hS r0 u0 _ _).1]

theorem initState_rho (r0 : Bool) (uk : List ℝ) (u0 w0 : Mat ℝ) (lams : List ℝ) :
    (initState c r0 uk u0 w0 lams).rho
      = rhoUpdate c (initState c r0 uk u0 w0 lams).u (initState c r0 uk u0 w0 lams).w := rfl

/-- positivity of the first real `u`, `w` when the random initial values are positive where the model has a
parameter (probability one for `random_sample`) -/
theorem initState_pos (r0 : Bool) (uk : List ℝ) (u0 w0 : Mat ℝ) (lams : List ℝ)
    (hu0 : ∀ i k, i < c.N → k < c.K → c.isIso i = false → 0 < at2 u0 i k)
    (hw0 : ∀ e, e < c.E → ∀ k, k < c.K → 0 < at2 w0 ((c.edge e).length - 2) k)
    (hw0n : ∀ d k, 0 ≤ at2 w0 d k) :
    Pos c (initState c r0 uk u0 w0 lams).u (initState c r0 uk u0 w0 lams).w ∧
    IsoZero c (initState c r0 uk u0 w0 lams).u := by
  rw [initState_w hS]
  refine ⟨⟨?_, hw0, hw0n⟩, ?_⟩
  · intro e he i hi k hk
    have hiN := hS.enodes e he i hi
    rw [initState_u c r0 uk u0 w0 lams i k hiN, if_pos hk]
    have hiso : c.isIso i = false := by
      have := isIso_true hS he hi; simpa using this
    unfold initRow clampLow
    rw [hiso, hS.minv0]
    simp only [Bool.false_eq_true, if_false]
    have hsum : 0 < sumR c.K (fun k' => at2 u0 i k') := by
      rw [sumR_eq]
      exact Finset.sum_pos (fun k' hk' => hu0 i k' hiN (mem_range.mp hk') hiso) ⟨0, mem_range.mpr hS.Kpos⟩
    have hq := div_pos (hu0 i k hiN hk hiso) hsum
    rw [if_neg (not_lt.mpr hq.le)]
    exact hq
  · intro i hiN hiso k
    rw [initState_u c r0 uk u0 w0 lams i k hiN]
    split
    · simp [initRow, hiso]
    · rfl

end init
end C17
