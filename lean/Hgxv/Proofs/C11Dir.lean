import Hgxv.Proofs.C11DirOrder
import Hgxv.Proofs.C11Passes
/-! # C11 - directed census: the reported pattern is the least relabelling of its class (core Lean only) -/
namespace C11

/-- `q ∘ p` on positions `0..n-1` -/
def compPerm (q p : List Nat) : List Nat := p.map (q[·]!)

/-- relabel one directed hyperedge over ranks `1..n` by the permutation `p` of `0..n-1` -/
def relabelEdge (p : List Nat) (e : DEdge) : DEdge :=
  (isort (e.1.map fun j => p[j-1]! + 1), isort (e.2.map fun j => p[j-1]! + 1))

theorem drelabel_eq (p : List Nat) (pat : List DEdge) : drelabel p pat = sortD (pat.map (relabelEdge p)) := rfl

/-- all nodes of the pattern are ranks `1..n` -/
def WFPat (n : Nat) (pat : List DEdge) : Prop :=
  ∀ e ∈ pat, (∀ j ∈ e.1, 1 ≤ j ∧ j ≤ n) ∧ (∀ j ∈ e.2, 1 ≤ j ∧ j ≤ n)

theorem getElem!_map_lt (f : Nat → Nat) (l : List Nat) {i : Nat} (h : i < l.length) :
    (l.map f)[i]! = f (l[i]!) := by
  simp [List.getElem!_eq_getElem?_getD, List.getElem?_map, List.getElem?_eq_getElem h]

theorem side_comp {n : Nat} (q p : List Nat) (hp : p.length = n) (s : List Nat)
    (hs : ∀ j ∈ s, 1 ≤ j ∧ j ≤ n) :
    isort ((isort (s.map fun j => p[j-1]! + 1)).map fun j => q[j-1]! + 1)
      = isort (s.map fun j => (compPerm q p)[j-1]! + 1) := by
  rw [isort_congr ((isort_perm_self (s.map fun j => p[j-1]! + 1)).map (fun j => q[j-1]! + 1)), List.map_map]
  congr 1
  apply List.map_congr_left
  intro j hj
  have := hs j hj
  simp only [Function.comp, compPerm]
  rw [getElem!_map_lt _ _ (by omega)]
  simp

theorem relabelEdge_comp {n : Nat} (q p : List Nat) (hp : p.length = n) (e : DEdge)
    (h1 : ∀ j ∈ e.1, 1 ≤ j ∧ j ≤ n) (h2 : ∀ j ∈ e.2, 1 ≤ j ∧ j ≤ n) :
    relabelEdge q (relabelEdge p e) = relabelEdge (compPerm q p) e := by
  unfold relabelEdge
  simp only
  rw [side_comp q p hp e.1 h1, side_comp q p hp e.2 h2]

theorem drelabel_comp {n : Nat} (q p : List Nat) (hp : p.length = n) (pat : List DEdge) (hw : WFPat n pat) :
    drelabel q (drelabel p pat) = drelabel (compPerm q p) pat := by
  rw [drelabel_eq, drelabel_eq, drelabel_eq]
  rw [sortD_congr ((sortD_perm_self (pat.map (relabelEdge p))).map (relabelEdge q)), List.map_map]
  congr 1
  apply List.map_congr_left
  intro e he
  exact relabelEdge_comp q p hp e (hw e he).1 (hw e he).2

/-! ## the node permutations of order 3 and 4 form a group (decided) -/

def permsOk (n : Nat) : Bool :=
  let P := perms (List.range n)
  !P.isEmpty && P.all (fun p => p.length == n) &&
  P.all (fun p => P.all fun q => P.contains (compPerm q p)) &&
  P.all (fun p => P.all fun p0 => P.any fun q => compPerm q p == p0)

theorem permsOk3 : permsOk 3 = true := by decide
set_option maxRecDepth 100000 in
theorem permsOk4 : permsOk 4 = true := by decide +kernel

theorem perms_facts {n : Nat} (hn : n = 3 ∨ n = 4) :
    perms (List.range n) ≠ [] ∧ (∀ p ∈ perms (List.range n), p.length = n) ∧
    (∀ p ∈ perms (List.range n), ∀ q ∈ perms (List.range n), compPerm q p ∈ perms (List.range n)) ∧
    (∀ p ∈ perms (List.range n), ∀ p0 ∈ perms (List.range n), ∃ q ∈ perms (List.range n), compPerm q p = p0) := by
  have h : permsOk n = true := by
    rcases hn with h | h
    · subst h; exact permsOk3
    · subst h; exact permsOk4
  simp only [permsOk, Bool.and_eq_true, Bool.not_eq_true', List.all_eq_true, List.any_eq_true,
    List.contains_iff_mem, beq_iff_eq, List.isEmpty_eq_false_iff] at h
  obtain ⟨⟨⟨h1, h2⟩, h3⟩, h4⟩ := h
  exact ⟨h1, h2, h3, h4⟩

/-! ## the canonical form -/

theorem dcanon_spec {n : Nat} (hn : n = 3 ∨ n = 4) (pat : List DEdge) :
    (∃ p0 ∈ perms (List.range n), dcanon n pat = drelabel p0 pat) ∧
    ∀ p ∈ perms (List.range n), dpatLe (dcanon n pat) (drelabel p pat) = true := by
  obtain ⟨hne, _, _, _⟩ := perms_facts hn
  unfold dcanon
  cases hP : perms (List.range n) with
  | nil => exact absurd hP hne
  | cons p0 ps =>
    simp only [List.map_cons]
    obtain ⟨hm, hle⟩ := minPat_spec (ps.map (drelabel · pat)) (drelabel p0 pat)
    constructor
    · rcases List.mem_cons.mp hm with h | h
      · exact ⟨p0, by simp, h⟩
      · obtain ⟨p, hp, hp'⟩ := List.mem_map.mp h
        exact ⟨p, by simp [hp], hp'.symm⟩
    · intro p hp
      apply hle
      rcases List.mem_cons.mp hp with h | h
      · rw [h]; simp
      · exact List.mem_cons_of_mem _ (List.mem_map.mpr ⟨p, h, rfl⟩)

/-- the canonical form is not larger than any of its own relabellings -/
theorem dcanon_min {n : Nat} (hn : n = 3 ∨ n = 4) (pat : List DEdge) (hw : WFPat n pat) :
    ∀ q ∈ perms (List.range n), dpatLe (dcanon n pat) (drelabel q (dcanon n pat)) = true := by
  obtain ⟨_, hlen, hclosed, _⟩ := perms_facts hn
  obtain ⟨⟨p0, hp0, hk⟩, hle⟩ := dcanon_spec hn pat
  intro q hq
  rw [hk, drelabel_comp q p0 (hlen p0 hp0) pat hw, ← hk]
  exact hle _ (hclosed p0 hp0 q hq)

/-- the canonical form only depends on the isomorphism type of the labelled pattern -/
theorem dcanon_relabel {n : Nat} (hn : n = 3 ∨ n = 4) (pat : List DEdge) (hw : WFPat n pat)
    (p : List Nat) (hp : p ∈ perms (List.range n)) : dcanon n (drelabel p pat) = dcanon n pat := by
  obtain ⟨_, hlen, hclosed, hdiv⟩ := perms_facts hn
  obtain ⟨⟨p0, hp0, hk⟩, hle⟩ := dcanon_spec hn pat
  obtain ⟨⟨q0, hq0, hk'⟩, hle'⟩ := dcanon_spec hn (drelabel p pat)
  apply dpatLe_antisymm
  · -- canon' ≤ canon: canon is a relabelling of `drelabel p pat`
    obtain ⟨q, hq, hqp⟩ := hdiv p hp p0 hp0
    have := hle' q hq
    rw [drelabel_comp q p (hlen p hp) pat hw, hqp, ← hk] at this
    exact this
  · rw [hk', drelabel_comp q0 p (hlen p hp) pat hw]
    exact hle _ (hclosed p hp q0 hq0)

/-! ## the patterns handed to `dcanon` are over ranks `1..n` -/

theorem mem_allDirected {S : List Nat} {e : DEdge} (h : e ∈ allDirected S) :
    (∀ x ∈ e.1, x ∈ S) ∧ (∀ x ∈ e.2, x ∈ S) := by
  unfold allDirected at h
  rw [mem_dedup] at h
  simp only [List.mem_flatMap, List.mem_range] at h
  obtain ⟨a, _, src, hsrc, h⟩ := h
  by_cases ha : (a == 0) = true
  · simp [ha] at h
  · simp only [ha, Bool.false_eq_true, if_false, List.mem_flatMap, List.mem_range] at h
    obtain ⟨b, _, h⟩ := h
    by_cases hb : (b == 0) = true
    · simp [hb] at h
    · simp only [hb, Bool.false_eq_true, if_false, List.mem_map] at h
      obtain ⟨tgt, htgt, rfl⟩ := h
      constructor
      · intro x hx; exact (mem_subsetsOfSize.mp hsrc).1.subset hx
      · intro x hx
        have := (mem_subsetsOfSize.mp htgt).1.subset hx
        exact (List.mem_filter.mp this).1

theorem dpattern_wf (T : DHG) {S : List Nat} {n : Nat} (hS : S.length = n) : WFPat n (dpattern T S) := by
  intro e' he'
  unfold dpattern at he'
  rw [mem_sortD] at he'
  obtain ⟨e, he, rfl⟩ := List.mem_map.mp he'
  have hin := mem_allDirected (List.mem_filter.mp he).1
  constructor
  · intro j hj
    simp only [mem_isort, List.mem_map] at hj
    obtain ⟨x, hx, rfl⟩ := hj
    have := List.idxOf_lt_length_of_mem (hin.1 x hx)
    omega
  · intro j hj
    simp only [mem_isort, List.mem_map] at hj
    obtain ⟨x, hx, rfl⟩ := hj
    have := List.idxOf_lt_length_of_mem (hin.2 x hx)
    omega

/-! ## keys of the census -/

theorem mem_bump {k : List DEdge} {l : List (List DEdge × Nat)} {kc : List DEdge × Nat}
    (h : kc ∈ bump k l) : kc.1 = k ∨ ∃ kc' ∈ l, kc'.1 = kc.1 := by
  induction l with
  | nil => simp [bump] at h; left; rw [h]
  | cons a l ih =>
    obtain ⟨k', c⟩ := a
    unfold bump at h
    by_cases hk : (k' == k) = true
    · rw [if_pos hk] at h
      rcases List.mem_cons.mp h with e | e
      · right; exact ⟨(k', c), by simp, by rw [e]⟩
      · right; exact ⟨kc, by simp [e], rfl⟩
    · rw [if_neg hk] at h
      rcases List.mem_cons.mp h with e | e
      · right; exact ⟨(k', c), by simp, by rw [e]⟩
      · rcases ih e with h' | ⟨kc', hm, he⟩
        · exact Or.inl h'
        · exact Or.inr ⟨kc', by simp [hm], he⟩

theorem mem_dtally_aux (keys : List (List DEdge)) : ∀ (acc : List (List DEdge × Nat)) (kc : List DEdge × Nat),
    kc ∈ keys.foldl (fun acc k => bump k acc) acc → kc.1 ∈ keys ∨ ∃ kc' ∈ acc, kc'.1 = kc.1 := by
  induction keys with
  | nil => intro acc kc h; exact Or.inr ⟨kc, h, rfl⟩
  | cons k keys ih =>
    intro acc kc h
    simp only [List.foldl_cons] at h
    rcases ih _ _ h with h' | ⟨kc', hm, he⟩
    · exact Or.inl (List.mem_cons_of_mem _ h')
    · rcases mem_bump hm with h'' | ⟨kc'', hm', he'⟩
      · left; rw [← he, h'']; simp
      · exact Or.inr ⟨kc'', hm', he'.trans he⟩

theorem mem_dtally {keys : List (List DEdge)} {kc : List DEdge × Nat} (h : kc ∈ dtally keys) :
    kc.1 ∈ keys := by
  rcases mem_dtally_aux keys [] kc h with h' | ⟨_, hm, _⟩
  · exact h'
  · simp at hm

theorem bump_keys (k : List DEdge) (l : List (List DEdge × Nat)) :
    (bump k l).map (·.1) = if (l.map (·.1)).contains k then l.map (·.1) else l.map (·.1) ++ [k] := by
  induction l with
  | nil => simp [bump]
  | cons a l ih =>
    obtain ⟨k', c⟩ := a
    unfold bump
    by_cases hk : k' = k
    · subst hk; simp
    · have hb : (k' == k) = false := by simpa using hk
      have hb' : (k == k') = false := by simpa using fun h => hk h.symm
      simp only [hb, Bool.false_eq_true, if_false, List.map_cons, ih, List.contains_cons, hb', Bool.false_or]
      split <;> simp

theorem dtally_keys_nodup_aux (keys : List (List DEdge)) : ∀ (acc : List (List DEdge × Nat)),
    (acc.map (·.1)).Nodup → ((keys.foldl (fun acc k => bump k acc) acc).map (·.1)).Nodup := by
  induction keys with
  | nil => intro acc h; exact h
  | cons k keys ih =>
    intro acc h
    simp only [List.foldl_cons]
    apply ih
    rw [bump_keys]
    split
    · exact h
    · rename_i hc
      have hn : k ∉ acc.map (·.1) := by simpa using hc
      refine List.nodup_append.mpr ⟨h, by simp, ?_⟩
      intro a ha b hb hab
      simp at hb; subst hb; subst hab; exact hn ha

theorem dtally_keys_nodup (keys : List (List DEdge)) : ((dtally keys).map (·.1)).Nodup :=
  dtally_keys_nodup_aux keys [] (by simp)

/-- every canonical pattern is reported at most once -/
theorem dirCensus_keys_nodup (n : Nat) (E : DHG) : ((dirCensus n E).map (·.1)).Nodup := by
  unfold dirCensus
  simp only
  split
  · rw [List.map_append]
    refine List.nodup_append.mpr ⟨?_, dtally_keys_nodup _, ?_⟩
    · exact List.Nodup.sublist (List.Sublist.map _ List.filter_sublist) (dtally_keys_nodup _)
    · intro a ha b hb hab
      subst hab
      obtain ⟨p, hp, rfl⟩ := List.mem_map.mp ha
      obtain ⟨q, hq, hqp⟩ := List.mem_map.mp hb
      have := (List.mem_filter.mp hp).2
      simp only [Bool.not_eq_true', List.any_eq_false, beq_iff_eq] at this
      exact this q hq hqp
  · exact dtally_keys_nodup _

/-- every reported key is the canonical form of the pattern of some `n`-node set -/
theorem dirCensus_key {n : Nat} {E : DHG} {kc : List DEdge × Nat} (h : kc ∈ dirCensus n E) :
    ∃ S : List Nat, S.length = n ∧ kc.1 = dcanon n (dpattern (dUpTo n E) S) := by
  unfold dirCensus at h
  simp only at h
  have key1 : ∀ kc, kc ∈ dtally ((dFullSets n (dUpTo n E)).map fun S => dcanon n (dpattern (dUpTo n E) S)) →
      ∃ S : List Nat, S.length = n ∧ kc.1 = dcanon n (dpattern (dUpTo n E) S) := by
    intro kc hk
    obtain ⟨S, hS, hSk⟩ := List.mem_map.mp (mem_dtally hk)
    exact ⟨S, (mem_visitNew.mp hS).2.1, hSk.symm⟩
  have key2 : ∀ kc, kc ∈ dtally ((dNotFullSets n (dUpTo n E) (dFullSets n (dUpTo n E))).map
        fun S => dcanon n (dpattern (dUpTo n E) S)) →
      ∃ S : List Nat, S.length = n ∧ kc.1 = dcanon n (dpattern (dUpTo n E) S) := by
    intro kc hk
    obtain ⟨S, hS, hSk⟩ := List.mem_map.mp (mem_dtally hk)
    exact ⟨S, (mem_visitNew.mp hS).2.1, hSk.symm⟩
  by_cases h4 : (n == 4) = true
  · rw [if_pos h4] at h
    rcases List.mem_append.mp h with h' | h'
    · exact key1 kc (List.mem_filter.mp h').1
    · exact key2 kc h'
  · rw [if_neg h4] at h
    exact key1 kc h

end C11
