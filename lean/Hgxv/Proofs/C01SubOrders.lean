import Hgxv.Proofs.C01Sub
/-! C01, extension round: what `subhypergraph_by_orders(orders | sizes, keep_nodes=True)` builds (the default
`keep_nodes`), in declarative terms.  Core Lean only. -/
namespace C01
open AL

/-! ### `dict.fromkeys(sizes)` lists every size once -/

theorem nodup_eraseDups_loop : ∀ (l acc : List Int), acc.Nodup →
    (List.eraseDupsBy.loop (· == ·) l acc).Nodup := by
  intro l
  induction l with
  | nil =>
    intro acc h
    simp only [List.eraseDupsBy.loop]
    exact List.pairwise_reverse.mpr (h.imp fun hab => Ne.symm hab)
  | cons x xs ih =>
    intro acc h
    unfold List.eraseDupsBy.loop
    split
    · exact ih acc h
    · rename_i hany
      apply ih
      refine List.nodup_cons.mpr ⟨?_, h⟩
      intro hx
      have : acc.any (fun b => x == b) = true := List.any_eq_true.mpr ⟨x, hx, by simp⟩
      rw [this] at hany; cases hany

theorem nodup_eraseDups (l : List Int) : l.eraseDups.Nodup := by
  unfold List.eraseDups List.eraseDupsBy
  exact nodup_eraseDups_loop l [] List.nodup_nil

theorem keepEdge_size (k : Int) (e : Edge) : keepEdge (some (k - 1)) false e = true ↔ (e.length : Int) = k := by
  simp only [keepEdge, Bool.false_eq_true, if_false, beq_iff_eq]
  omega

theorem mem_edgesOfSizes_iff (ks : List Int) (es : List Edge) (e : Edge) :
    e ∈ edgesOfSizes ks es ↔ e ∈ es ∧ (e.length : Int) ∈ ks := by
  unfold edgesOfSizes
  rw [List.mem_flatMap]
  constructor
  · rintro ⟨k, hk, he⟩
    obtain ⟨h1, h2⟩ := List.mem_filter.mp he
    rw [keepEdge_size] at h2
    exact ⟨h1, h2 ▸ List.mem_eraseDups.mp hk⟩
  · rintro ⟨h1, h2⟩
    exact ⟨(e.length : Int), List.mem_eraseDups.mpr h2, List.mem_filter.mpr ⟨h1, (keepEdge_size _ _).mpr rfl⟩⟩

theorem nodup_edgesOfSizes (ks : List Int) (es : List Edge) (h : es.Nodup) : (edgesOfSizes ks es).Nodup := by
  unfold edgesOfSizes
  apply List.pairwise_flatMap.mpr
  refine ⟨fun k _ => h.filter _, ?_⟩
  refine (nodup_eraseDups ks).imp ?_
  intro k1 k2 hne x hx y hy hxy
  have h1 := (keepEdge_size k1 x).mp (List.mem_filter.mp hx).2
  have h2 := (keepEdge_size k2 y).mp (List.mem_filter.mp hy).2
  rw [hxy] at h1
  exact hne (h1.symm.trans h2)

/-- outcome and result of `subhypergraph_by_orders(orders, sizes)` (`keep_nodes=True`) on an abstract hypergraph of a
history; `sz` = the sizes asked for -/
theorem spec_subOrders_keep (a : Spec) (ha : SWF a) (os ks : Option (List Int)) :
    (sizesArg os ks = none → ∀ keep, (Spec.subOrders a os ks keep).2 = .rej) ∧
    (∀ sz, sizesArg os ks = some sz →
      (Spec.subOrders a os ks true).2 = .ok ∧
      (Spec.subOrders a os ks true).1.weighted = a.weighted ∧
      (Spec.subOrders a os ks true).1.hmeta = initHMeta a.weighted [] ∧
      (∀ m, get? (Spec.subOrders a os ks true).1.nodes m = get? a.nodes m) ∧
      keys (Spec.subOrders a os ks true).1.edges = edgesOfSizes sz (keys a.edges) ∧
      ∀ x, get? (Spec.subOrders a os ks true).1.edges x = if (x.length : Int) ∈ sz then get? a.edges x else none) := by
  refine ⟨?_, ?_⟩
  · intro h keep
    unfold Spec.subOrders
    rw [h]
  · intro sz hsz
    obtain ⟨a1, a2, a3, a4⟩ := spec_addNodes_none (keys a.nodes) (Spec.new a.weighted [])
    generalize hh1 : (keys a.nodes).foldl (fun a n => Spec.addNode a n none) (Spec.new a.weighted []) = h1 at a1 a2 a3 a4
    have hadd : Spec.addNodes (Spec.new a.weighted []) (keys a.nodes) none = (h1, .ok) := by
      unfold Spec.addNodes; rw [hh1]
    have hnew : ∀ m, get? (Spec.new a.weighted []).nodes m = none := fun m => rfl
    have h1nodes : ∀ m, get? h1.nodes m = if m ∈ keys a.nodes then some [] else none := by
      intro m; rw [a4 m, hnew m]; simp
    have h1pres : ∀ n ∈ keys a.nodes, (get? h1.nodes n).isSome := by
      intro n hn; rw [h1nodes n]; simp [hn]
    have hall : ∀ n ∈ keys a.nodes, (get? a.nodes n).isSome := fun n hn => (mem_keys_iff _ _).mp hn
    obtain ⟨b1, b2⟩ := spec_copyNodeMetas a (keys a.nodes) h1 h1pres
    have b1' := b1.mpr hall
    obtain ⟨c1, c2, c3, c4⟩ := b2 hall
    unfold Spec.subOrders
    rw [hsz]
    simp only [if_true, hadd, andThen]
    generalize hh2 : seqOps (Spec.copyNodeMeta a) h1 (keys a.nodes) = r2 at b1' c1 c2 c3 c4
    obtain ⟨h2, o2⟩ := r2
    simp only at b1' c1 c2 c3 c4
    subst b1'
    simp only []
    have h2nodes : ∀ m, get? h2.nodes m = get? a.nodes m := by
      intro m
      rw [c4 m, h1nodes m]
      by_cases hm : m ∈ keys a.nodes
      · simp [hm]
      · simp only [hm, if_false]
        exact ((get?_eq_none_iff _ _).mpr hm).symm
    obtain ⟨d1, d2, d3, d4, d5, d6⟩ := spec_copyEdges a ha (edgesOfSizes sz (keys a.edges)) h2
      (nodup_edgesOfSizes _ _ ha.knd)
      (fun e he => (mem_keys_iff _ _).mp ((mem_edgesOfSizes_iff _ _ _).mp he).1)
      (fun e _ => by rw [c1, a1]; rfl)
      (fun e he m hm => by
        rw [h2nodes m]
        exact (ha.key e ((mem_keys_iff _ _).mp ((mem_edgesOfSizes_iff _ _ _).mp he).1)).2.2 m hm)
      (by rw [c2, a2]; rfl)
    generalize hh3 : seqOps (Spec.copyEdge a) h2 (edgesOfSizes sz (keys a.edges)) = r3 at d1 d2 d3 d4 d5 d6
    obtain ⟨h3, o3⟩ := r3
    simp only at d1 d2 d3 d4 d5 d6
    subst d1
    simp only []
    refine ⟨trivial, ?_, ?_, ?_, ?_, ?_⟩
    · rw [d3, c2, a2]; rfl
    · rw [d4, c3, a3]; rfl
    · intro m; rw [d2]; exact h2nodes m
    · rw [d5, c1, a1]; rfl
    · intro x
      rw [d6 x, c1, a1]
      by_cases hsize : (x.length : Int) ∈ sz
      · by_cases hk : x ∈ keys a.edges
        · have : x ∈ edgesOfSizes sz (keys a.edges) := (mem_edgesOfSizes_iff _ _ _).mpr ⟨hk, hsize⟩
          simp [this, hsize]
        · have hnone : get? a.edges x = none := (get?_eq_none_iff _ _).mpr hk
          have : x ∉ edgesOfSizes sz (keys a.edges) := fun h' => hk ((mem_edgesOfSizes_iff _ _ _).mp h').1
          simp only [this, if_false, hsize, if_true, hnone]
          rfl
      · have : x ∉ edgesOfSizes sz (keys a.edges) := fun h' => hsize ((mem_edgesOfSizes_iff _ _ _).mp h').2
        simp only [this, if_false, hsize]
        rfl

end C01
