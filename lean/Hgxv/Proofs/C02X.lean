import Hgxv.Model.C02X
import Hgxv.Proofs.C02Total
/-! # C02, extension round - lemmas: `get_edges(subhypergraph=True)` commutes with the abstraction -/
namespace C02
open AL

theorem collect_congr {α β : Type} (f g : α → Option β) (l : List α) (h : ∀ a ∈ l, f a = g a) :
    collect f l = collect g l := by
  induction l with
  | nil => rfl
  | cons a l ih =>
    simp only [collect]
    rw [h a List.mem_cons_self, ih (fun b hb => h b (List.mem_cons_of_mem _ hb))]

theorem collect_mem {α β : Type} (f : α → Option β) (l : List α) (r : List β) (h : collect f l = some r) :
    ∀ y ∈ r, ∃ x ∈ l, f x = some y := by
  induction l generalizing r with
  | nil =>
    simp only [collect] at h
    injection h with h; subst h
    intro y hy; cases hy
  | cons a l ih =>
    simp only [collect] at h
    cases hfa : f a with
    | none => rw [hfa] at h; simp at h
    | some b =>
      cases hc : collect f l with
      | none => rw [hfa, hc] at h; simp at h
      | some r' =>
        rw [hfa, hc] at h
        injection h with h; subst h
        intro y hy
        cases hy with
        | head => exact ⟨a, List.mem_cons_self, hfa⟩
        | tail _ hy' =>
          obtain ⟨x, hx, hfx⟩ := ih r' hc y hy'
          exact ⟨x, List.mem_cons_of_mem _ hx, hfx⟩

theorem rawWF_ofKey (k : Key) (hk : KeyWF k) : RawWF (RawEdge.ofKey k) :=
  ⟨hk.nodupS, hk.nodupT, hk.disj, hk.neS, hk.neT⟩

/-- the calls of the routine satisfy the quantifier when the selected hyperedges are well-formed keys -/
theorem subOps1G_WF (w : Bool) (nl : List Node) (wo : RawEdge → Option Int) (ks : List Key) (keep : Bool)
    (o1 : List Op) (hks : ∀ k ∈ ks, KeyWF k) (h : subOps1G w nl wo ks keep = some o1) : ∀ o ∈ o1, o.WF := by
  have hes : ∀ e ∈ ks.map RawEdge.ofKey, RawWF e := by
    intro e he
    obtain ⟨k, hk, rfl⟩ := List.mem_map.mp he
    exact rawWF_ofKey k (hks k hk)
  unfold subOps1G at h
  simp only [] at h
  intro o ho
  cases w with
  | true =>
    simp only [if_true] at h
    cases hc : collect (fun k => wo (RawEdge.ofKey k)) ks with
    | none => rw [hc] at h; simp at h
    | some ws =>
      rw [hc] at h
      simp only [Option.map_some] at h
      injection h with h; subst h
      rcases List.mem_append.mp ho with h1 | h1
      · cases keep <;> simp at h1
        subst h1; trivial
      · simp at h1; subst h1; exact hes
  | false =>
    simp only [Bool.false_eq_true, if_false] at h
    injection h with h; subst h
    rcases List.mem_append.mp ho with h1 | h1
    · cases keep <;> simp at h1
      subst h1; trivial
    · simp at h1; subst h1; exact hes

theorem subOps2G_WF (f : Node → Option Meta) (ns : List Node) (o2 : List Op) (h : subOps2G f ns = some o2) :
    ∀ o ∈ o2, o.WF := by
  intro o ho
  obtain ⟨n, _, hn⟩ := collect_mem _ _ _ h o ho
  cases hf : f n with
  | none => rw [hf] at hn; simp at hn
  | some md => rw [hf] at hn; simp at hn; subst hn; trivial

theorem subOps3G_WF (f : RawEdge → Option Meta) (ks : List Key) (o3 : List Op) (h : subOps3G f ks = some o3) :
    ∀ o ∈ o3, o.WF := by
  intro o ho
  obtain ⟨k, _, hk⟩ := collect_mem _ _ _ h o ho
  cases hf : f (RawEdge.ofKey k) with
  | none => rw [hf] at hk; simp at hk
  | some md => rw [hf] at hk; simp at hk; subst hk; trivial

theorem abs_fresh (w : Bool) : abs (fresh w) = Spec.fresh w := rfl

/-- the hyperedges `get_edges` selects are keys of the edge table, hence well-formed -/
theorem edges_keyWF (s : Store) (h : Inv s) (f : Filt) (up : Bool) (ks : List Key) (hk : edges s f up = some ks) :
    ∀ k ∈ ks, KeyWF k := by
  unfold edges at hk
  cases ht : f.target with
  | none => rw [ht] at hk; simp at hk
  | some t =>
    rw [ht] at hk
    simp only [Option.map_some] at hk
    injection hk with hk; subst hk
    intro k hk
    obtain ⟨id, hid⟩ := (h.mem_keys_iff k).mp (List.mem_filter.mp hk).1
    exact h.key_wf id k hid

/-- the program of calls is the same whether the routine reads the tables or the abstract object, and it satisfies
    the quantifier -/
theorem subProgram_abs (s : Store) (h : Inv s) (f : Filt) (up keep : Bool) :
    subProgram s f up keep = Spec.subProgram (abs s) f up keep ∧
    ∀ ops, subProgram s f up keep = some ops → ∀ o ∈ ops, o.WF := by
  unfold subProgram Spec.subProgram
  have e1 : getWeight s = (abs s).getWeight := funext fun e => (q_edge s h e).2.1
  have e2 : nodeMeta s = (abs s).nodeMeta := funext fun n => q_nodeMeta s h n
  have e3 : edgeMeta s = (abs s).edgeMeta := funext fun e => (q_edge s h e).2.2
  have e4 : (abs s).weighted = s.weighted := rfl
  rw [← q_edges s f up, ← q_nodes s, ← e1, ← e2, ← e3, e4]
  cases hk : edges s f up with
  | none => exact ⟨rfl, fun ops ho => by simp [subProgramG] at ho⟩
  | some ks =>
    have hks := edges_keyWF s h f up ks hk
    unfold subProgramG
    simp only []
    cases h1 : subOps1G s.weighted (nodes s) (getWeight s) ks keep with
    | none => exact ⟨rfl, fun ops ho => by simp at ho⟩
    | some o1 =>
      have w1 := subOps1G_WF _ _ _ ks keep o1 hks h1
      have r := abs_run (fresh s.weighted) o1 w1 (inv_init _ _) (ord_init _ _)
      have en : nodes (run (fresh s.weighted) o1) = (Spec.run (Spec.fresh s.weighted) o1).nodeList := by
        rw [q_nodes, r.1, abs_fresh]
      simp only []
      rw [en]
      refine ⟨rfl, ?_⟩
      intro ops ho
      cases h2 : subOps2G (nodeMeta s) (Spec.run (Spec.fresh s.weighted) o1).nodeList with
      | none => rw [h2] at ho; simp at ho
      | some o2 =>
        cases h3 : subOps3G (edgeMeta s) ks with
        | none => rw [h2, h3] at ho; simp at ho
        | some o3 =>
          rw [h2, h3] at ho
          simp only [] at ho
          injection ho with ho; subst ho
          intro o hm
          rcases List.mem_append.mp hm with hm | hm
          · rcases List.mem_append.mp hm with hm | hm
            · exact w1 o hm
            · exact subOps2G_WF _ _ _ h2 o hm
          · exact subOps3G_WF _ _ _ h3 o hm

/-- running accepted calls commutes with the abstraction; rejected alike -/
theorem runOk_abs (s : Store) (ops : List Op) (hops : ∀ o ∈ ops, o.WF) (h : Inv s) (o : Ord s) :
    (runOk s ops).map abs = Spec.runOk (abs s) ops ∧
    ∀ t, runOk s ops = some t → t = run s ops ∧ Inv t ∧ Ord t := by
  induction ops generalizing s with
  | nil =>
    refine ⟨rfl, ?_⟩
    intro t ht
    simp only [runOk] at ht
    injection ht with ht; subst ht
    exact ⟨rfl, h, o⟩
  | cons op os ih =>
    have hw := hops op List.mem_cons_self
    obtain ⟨h1, h2⟩ := abs_applyOp s op hw h o
    simp only [runOk, Spec.runOk, run]
    rw [← h2]
    cases hr : (applyOp s op).2 with
    | rej => exact ⟨rfl, fun t ht => by simp at ht⟩
    | ok =>
      simp only []
      rw [← h1]
      exact ih _ (fun o' ho' => hops o' (List.mem_cons_of_mem _ ho')) (applyOp_inv s op hw h) (applyOp_ord s op hw h o)

/-- **extraction commutes with the abstraction** -/
theorem subHG_abs (s : Store) (h : Inv s) (f : Filt) (up keep : Bool) :
    (subHG s f up keep).map abs = Spec.subHG (abs s) f up keep ∧
    ∀ t, subHG s f up keep = some t →
      ∃ ops, (∀ o ∈ ops, o.WF) ∧ t = run (fresh s.weighted) ops ∧ Inv t ∧ Ord t := by
  unfold subHG Spec.subHG
  obtain ⟨p1, p2⟩ := subProgram_abs s h f up keep
  rw [← p1]
  cases hp : subProgram s f up keep with
  | none => exact ⟨rfl, fun t ht => by simp at ht⟩
  | some ops =>
    have hw := p2 ops hp
    have r := runOk_abs (fresh s.weighted) ops hw (inv_init _ _) (ord_init _ _)
    simp only [Option.bind_some]
    have e4 : (abs s).weighted = s.weighted := rfl
    rw [e4, ← abs_fresh]
    refine ⟨r.1, ?_⟩
    intro t ht
    exact ⟨ops, hw, r.2 t ht⟩

/-- a fresh object followed by calls on it is a history -/
theorem runCmds_ops (st : State) (s : Store) (ops : List Op) (hs : get? st 0 = some s) :
    get? (runCmds st (ops.map (fun o => Cmd.op 0 o))) 0 = some (run s ops) := by
  induction ops generalizing st s with
  | nil => exact hs
  | cons o os ih =>
    simp only [List.map_cons, runCmds, run]
    apply ih
    simp only [step, hs, get?_set]
    simp

theorem fresh_history (w : Bool) (ops : List Op) (hops : ∀ o ∈ ops, o.WF) :
    (∀ c ∈ (Cmd.new 0 w none none none none none :: ops.map (fun o => Cmd.op 0 o)), c.WF) ∧
    get? (runCmds [] (Cmd.new 0 w none none none none none :: ops.map (fun o => Cmd.op 0 o))) 0 =
      some (run (fresh w) ops) := by
  constructor
  · intro c hc
    cases hc with
    | head => intro e he; simp at he
    | tail _ hc' =>
      obtain ⟨o, ho, rfl⟩ := List.mem_map.mp hc'
      exact hops o ho
  · simp only [runCmds]
    apply runCmds_ops
    cases w <;> rfl

end C02

namespace C02
open AL

/-! ### the whole object: incidence metadata -/

def FOp.WF : FOp → Prop
  | .base o => o.WF
  | .setInc _ _ _ => True

theorem has_abs_edges (s : Store) : (fun k => has s.edgeList k) = (fun k => has (abs s).edges k) := by
  funext k
  rw [Bool.eq_iff_iff]
  unfold has
  rw [isSome_get?_iff, isSome_get?_iff, abs_edges_keys]

theorem fabs_apply (x : Full) (o : FOp) (ho : o.WF) (h : Inv x.base) (ord : Ord x.base) :
    fabs (Full.apply x o).1 = (FSpec.apply (fabs x) o).1 ∧ (Full.apply x o).2 = (FSpec.apply (fabs x) o).2 ∧
    Inv (Full.apply x o).1.base ∧ Ord (Full.apply x o).1.base := by
  cases o with
  | base op =>
    obtain ⟨h1, h2⟩ := abs_applyOp x.base op ho h ord
    refine ⟨?_, h2, applyOp_inv x.base op ho h, applyOp_ord x.base op ho h ord⟩
    simp only [Full.apply, FSpec.apply, fabs]
    rw [h1]
  | setInc e n md =>
    refine ⟨?_, ?_, h, ord⟩
    · simp only [Full.apply, FSpec.apply, fabs]
      rw [has_abs_edges]
    · simp only [Full.apply, FSpec.apply, fabs]
      rw [has_abs_edges]

theorem fabs_run (x : Full) (ops : List FOp) (hops : ∀ o ∈ ops, o.WF) (h : Inv x.base) (ord : Ord x.base) :
    fabs (Full.run x ops) = FSpec.run (fabs x) ops ∧ Inv (Full.run x ops).base := by
  induction ops generalizing x with
  | nil => exact ⟨rfl, h⟩
  | cons o os ih =>
    obtain ⟨h1, _, h3, h4⟩ := fabs_apply x o (hops o List.mem_cons_self) h ord
    simp only [Full.run, FSpec.run]
    rw [← h1]
    exact ih _ (fun o' ho' => hops o' (List.mem_cons_of_mem _ ho')) h3 h4

theorem getInc_fabs (x : Full) (e : RawEdge) (n : Node) : Full.getInc x e n = FSpec.getInc (fabs x) e n := by
  unfold Full.getInc FSpec.getInc fabs
  simp only []
  rw [has_abs_edges]

end C02
