import Hgxv.Proofs.C10Line
import Mathlib.Data.Finset.Card
import Mathlib.Data.List.Nodup
/-! Helper lemmas for C10: the list-level similarity functions are the set-level definitions. -/
namespace C10

theorem interSize_eq_card (a b : List Nat) (ha : a.Nodup) :
    interSize a b = (a.toFinset ∩ b.toFinset).card := by
  unfold interSize
  rw [← List.toFinset_card_of_nodup (ha.filter _)]
  congr 1; ext x; simp

theorem unionSize_eq_card (a b : List Nat) (ha : a.Nodup) (hb : b.Nodup) :
    unionSize a b = (a.toFinset ∪ b.toFinset).card := by
  unfold unionSize
  have hnd : (a ++ b.filter (fun x => !a.contains x)).Nodup := by
    apply List.Nodup.append ha (hb.filter _)
    intro x hx hx2
    simp [List.mem_filter] at hx2
    exact hx2.2 hx
  rw [← List.length_append, ← List.toFinset_card_of_nodup hnd]
  congr 1; ext x; simp
  by_cases h : x ∈ a <;> simp [h]

end C10
