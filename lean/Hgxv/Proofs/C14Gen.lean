import Hgxv.Proofs.C14Store
/-! The per-size sampling loop of `random_hypergraph` / `scale_free_hypergraph`: contracts and the loop invariant. -/
namespace C14

/-- contract of `random.sample(pop, k)` and of `np.random.choice(pop, k, replace=False)`:
    `k` distinct members of `pop` (trusted base) -/
def IsSample (pop : List Nat) (k : Nat) (d : List Nat) : Prop := d.Nodup ∧ d.length = k ∧ ∀ x ∈ d, x ∈ pop

/-- one group of draws per requested size, each group satisfying `P size count group` -/
def GroupsOK (P : Nat → Nat → List (List Nat) → Prop) : List (Nat × Nat) → List (List (List Nat)) → Prop
  | [], _ => True
  | sc :: req, g :: gs => P sc.1 sc.2 g ∧ GroupsOK P req gs
  | _ :: _, [] => False

/-- what the loop needs from the hyperedges `E count group` of one size -/
structure EdgesOK (pop : List Nat) (s c : Nat) (es : List Edge) : Prop where
  nodup : es.Nodup
  each : ∀ e ∈ es, e.length = s ∧ e.Nodup ∧ (∀ x ∈ e, x ∈ pop) ∧ sortE e = e ∧ 0 < c

/-- what the loop guarantees -/
structure LoopOut (pop : List Nat) (B : Nat → Nat → Prop) (h : HG) (req : List (Nat × Nat)) (r : HG) : Prop where
  nodes : r.nodes = h.nodes
  weighted : r.weighted = h.weighted
  nodup : (keys r).Nodup
  mem : ∀ k ∈ keys r, k ∈ keys h ∨
    ((∃ sc ∈ req, k.length = sc.1 ∧ 0 < sc.2) ∧ k.Nodup ∧ (∀ x ∈ k, x ∈ pop) ∧ sortE k = k)
  old : ∀ k ∈ keys h, k ∈ keys r
  count : ∀ sc ∈ req, B sc.2 (countSize r sc.1)
  other : ∀ s, s ∉ req.map (·.1) → countSize r s = countSize h s

theorem keys_addEdges_sorted (h : HG) (es : List Edge) (hs : ∀ e ∈ es, sortE e = e) :
    keys (addEdges h es) = insAll (keys h) es := by
  unfold addEdges
  rw [keys_addMany, List.map_map]
  congr 1
  conv => rhs; rw [← List.map_id es]
  apply List.map_congr_left
  intro e he; simpa using hs e he

theorem countSize_append_keys (ks es : List Edge) (s : Nat) :
    ((ks ++ es).filter (fun e => e.length == s)).length =
      (ks.filter (fun e => e.length == s)).length + (es.filter (fun e => e.length == s)).length := by
  simp [List.filter_append]

theorem countSize_zero_iff (h : HG) (s : Nat) : countSize h s = 0 ↔ ∀ k ∈ keys h, k.length ≠ s := by
  unfold countSize
  rw [List.length_eq_zero_iff, List.filter_eq_nil_iff]
  simp

theorem genLoop_spec (E : Nat → List (List Nat) → List Edge) (pop : List Nat) (B : Nat → Nat → Prop)
    (Q : Nat → Nat → List (List Nat) → Prop)
    (hE : ∀ s c g, Q s c g → EdgesOK pop s c (E c g))
    (hB : ∀ s c g, Q s c g → B c (E c g).length) :
    ∀ (req : List (Nat × Nat)) (gs : List (List (List Nat))) (h : HG),
      GroupsOK Q req gs → (req.map (·.1)).Nodup → (keys h).Nodup →
      (∀ sc ∈ req, countSize h sc.1 = 0) → (∀ x ∈ pop, x ∈ h.nodes) →
      LoopOut pop B h req (genLoop E h req gs) := by
  intro req
  induction req with
  | nil =>
    intro gs h _ _ hnd _ _
    simp only [genLoop]
    exact ⟨rfl, rfl, hnd, fun k hk => Or.inl hk, fun k hk => hk, by simp, fun s _ => rfl⟩
  | cons sc req ih =>
    intro gs h hok hsz hnd hzero hpop
    obtain ⟨s, c⟩ := sc
    cases gs with
    | nil => exact absurd hok (by simp [GroupsOK])
    | cons g gs =>
      simp only [GroupsOK] at hok
      obtain ⟨hq, hok'⟩ := hok
      have hEs := hE s c g hq
      simp only [List.map_cons, List.nodup_cons] at hsz
      -- the hypergraph after this size
      have hsorted : ∀ e ∈ E c g, sortE e = e := fun e he => (hEs.each e he).2.2.2.1
      have hfresh : ∀ e ∈ E c g, e ∉ keys h := by
        intro e he hk
        exact (countSize_zero_iff h s).mp (hzero (s, c) (by simp)) e hk (hEs.each e he).1
      have hkeys : keys (addEdges h (E c g)) = keys h ++ E c g := by
        rw [keys_addEdges_sorted h _ hsorted, insAll_fresh hEs.nodup hfresh]
      have hnodes : (addEdges h (E c g)).nodes = h.nodes := by
        unfold addEdges
        apply nodes_addMany_of_subset
        intro t ht x hx
        simp only [List.mem_map] at ht
        obtain ⟨e, he, rfl⟩ := ht
        exact hpop x ((hEs.each e he).2.2.1 x hx)
      have hw : (addEdges h (E c g)).weighted = h.weighted := by unfold addEdges; simp
      have hcount1 : ∀ s', countSize (addEdges h (E c g)) s' =
          countSize h s' + ((E c g).filter (fun e => e.length == s')).length := by
        intro s'; unfold countSize; rw [hkeys]; exact countSize_append_keys _ _ _
      have hnd1 : (keys (addEdges h (E c g))).Nodup := by
        rw [keys_addEdges_sorted h _ hsorted]; exact nodup_insAll hnd
      have hzero1 : ∀ sc ∈ req, countSize (addEdges h (E c g)) sc.1 = 0 := by
        intro sc' hsc'
        rw [hcount1, hzero sc' (by simp [hsc'])]
        simp only [Nat.zero_add, List.length_eq_zero_iff, List.filter_eq_nil_iff]
        intro e he
        have : e.length = s := (hEs.each e he).1
        have hne : s ≠ sc'.1 := fun heq => hsz.1 (heq ▸ List.mem_map_of_mem (f := (·.1)) hsc')
        simp [this, hne]
      have hI := ih gs (addEdges h (E c g)) hok' hsz.2 hnd1 hzero1 (by rw [hnodes]; exact hpop)
      simp only [genLoop]
      refine ⟨by rw [hI.nodes, hnodes], by rw [hI.weighted, hw], hI.nodup, ?_, ?_, ?_, ?_⟩
      · intro k hk
        rcases hI.mem k hk with h1 | ⟨⟨sc', hsc', hl⟩, hrest⟩
        · rw [hkeys, List.mem_append] at h1
          rcases h1 with h1 | h1
          · exact Or.inl h1
          · have he := hEs.each k h1
            exact Or.inr ⟨⟨(s, c), by simp, he.1, he.2.2.2.2⟩, he.2.1, he.2.2.1, he.2.2.2.1⟩
        · exact Or.inr ⟨⟨sc', by simp [hsc'], hl⟩, hrest⟩
      · intro k hk; apply hI.old; rw [hkeys]; simp [hk]
      · intro sc' hsc'
        rcases List.mem_cons.mp hsc' with rfl | hsc'
        · simp only
          rw [hI.other s hsz.1, hcount1, hzero (s, c) (by simp), Nat.zero_add]
          have : (E c g).filter (fun e => e.length == s) = E c g := by
            rw [List.filter_eq_self]; intro e he; simp [(hEs.each e he).1]
          rw [this]; exact hB s c g hq
        · exact hI.count sc' hsc'
      · intro s' hs'
        simp only [List.map_cons, List.mem_cons, not_or] at hs'
        rw [hI.other s' hs'.2, hcount1]
        have : (E c g).filter (fun e => e.length == s') = [] := by
          rw [List.filter_eq_nil_iff]; intro e he
          have : e.length = s := (hEs.each e he).1
          simp [this, Ne.symm hs'.1]
        simp [this]

/-! ### the two instances of `E` -/

theorem sizeEdges_ok (pop : List Nat) (s c : Nat) (g : List (List Nat))
    (hs : ∀ d ∈ g.take c, IsSample pop s d) : EdgesOK pop s c (sizeEdges c g) := by
  refine ⟨nodup_dedup _, ?_⟩
  intro e he
  simp only [sizeEdges, mem_dedup, List.mem_map] at he
  obtain ⟨d, hd, rfl⟩ := he
  obtain ⟨h1, h2, h3⟩ := hs d hd
  refine ⟨by simp [h2], by simpa using h1, fun x hx => h3 x (by simpa using hx), by simp, ?_⟩
  cases c with
  | zero => simp at hd
  | succ c => omega

theorem sizeEdges_bound (c : Nat) (g : List (List Nat)) (hc : c ≤ g.length) :
    (sizeEdges c g).length ≤ c ∧ (1 ≤ c → 1 ≤ (sizeEdges c g).length) := by
  constructor
  · have := length_dedup_le ((g.take c).map sortE)
    simp only [List.length_map, List.length_take] at this
    unfold sizeEdges; omega
  · intro h1
    apply length_dedup_pos
    intro hnil
    have : ((g.take c).map sortE).length = 0 := by rw [hnil]; rfl
    simp only [List.length_map, List.length_take] at this
    omega

theorem collect_spec (pop : List Nat) (s k : Nat) : ∀ (ds : List (List Nat)) (acc : List Edge),
    (∀ d ∈ ds, IsSample pop s d) → acc.Nodup →
    (∀ e ∈ acc, e.length = s ∧ e.Nodup ∧ (∀ x ∈ e, x ∈ pop) ∧ sortE e = e ∧ 0 < k) →
    (collect k acc ds).Nodup ∧
      ∀ e ∈ collect k acc ds, e.length = s ∧ e.Nodup ∧ (∀ x ∈ e, x ∈ pop) ∧ sortE e = e ∧ 0 < k := by
  intro ds
  induction ds with
  | nil => intro acc _ hnd hacc; exact ⟨hnd, hacc⟩
  | cons d ds ih =>
    intro acc hds hnd hacc
    simp only [collect]
    split
    · rename_i hlt
      apply ih _ (fun d' hd' => hds d' (by simp [hd'])) (nodup_insNew hnd)
      intro e he
      rcases mem_insNew.mp he with he | rfl
      · exact hacc e he
      · obtain ⟨h1, h2, h3⟩ := hds d (by simp)
        exact ⟨by simp [h2], by simpa using h1, fun x hx => h3 x (by simpa using hx), by simp, by omega⟩
    · exact ⟨hnd, hacc⟩

theorem collect_length (k : Nat) : ∀ (ds : List (List Nat)) (acc : List Edge),
    consumedExactly k acc ds = true → acc.length ≤ k → (collect k acc ds).length = k := by
  intro ds
  induction ds with
  | nil => intro acc h hle; simp [consumedExactly] at h; simp [collect]; omega
  | cons d ds ih =>
    intro acc h hle
    simp only [consumedExactly, Bool.and_eq_true, decide_eq_true_eq] at h
    simp only [collect, h.1, if_true]
    apply ih _ h.2
    have := length_insNew_le acc (sortE d); omega

theorem collect_length_le (k : Nat) : ∀ (ds : List (List Nat)) (acc : List Edge),
    acc.length ≤ k → (collect k acc ds).length ≤ k := by
  intro ds
  induction ds with
  | nil => intro acc hle; simpa [collect] using hle
  | cons d ds ih =>
    intro acc hle
    simp only [collect]; split
    · apply ih; have := length_insNew_le acc (sortE d); omega
    · exact hle

end C14

namespace C14

/-- the recorded draws of `random_hypergraph`: per size at least `count` samples of that size from `range n` -/
def RandomDrawsOK (n : Nat) : List (Nat × Nat) → List (List (List Nat)) → Prop :=
  GroupsOK (fun s c g => c ≤ g.length ∧ ∀ d ∈ g.take c, IsSample (List.range n) s d)

/-- the recorded draws of a returning `scale_free_hypergraph` run: per size, samples of that size from `range n`,
    and the loop `while len(edges) < count` stops exactly at the end of the group -/
def SfDrawsOK (n : Nat) : List (Nat × Nat) → List (List (List Nat)) → Prop :=
  GroupsOK (fun s c g => (∀ d ∈ g, IsSample (List.range n) s d) ∧ consumedExactly c [] g = true)

theorem sample_size_le {n s : Nat} {d : List Nat} (h : IsSample (List.range n) s d) : s ≤ n := by
  obtain ⟨h1, h2, h3⟩ := h
  have := List.Nodup.length_le_of_subset h1 (fun x hx => h3 x hx)
  simpa [h2] using this

theorem admissible_of_groups (n : Nat) (Q : Nat → Nat → List (List Nat) → Prop)
    (hQ : ∀ s c g, Q s c g → c ≠ 0 → s ≤ n) :
    ∀ (req : List (Nat × Nat)) (gs : List (List (List Nat))), GroupsOK Q req gs → admissible n req = true := by
  intro req
  induction req with
  | nil => intro _ _; rfl
  | cons sc req ih =>
    intro gs hok
    cases gs with
    | nil => exact absurd hok (by simp [GroupsOK])
    | cons g gs =>
      simp only [GroupsOK] at hok
      have := ih gs hok.2
      simp only [admissible, List.all_cons, Bool.and_eq_true, Bool.or_eq_true, beq_iff_eq, decide_eq_true_eq] at *
      refine ⟨?_, this⟩
      by_cases hc : sc.2 = 0
      · exact Or.inl hc
      · exact Or.inr (hQ _ _ _ hok.1 hc)

theorem base_nodes (n : Nat) : (addNodes {} (List.range n)).nodes = List.range n := by
  simp only [addNodes]
  rw [insAll_fresh List.nodup_range (by simp)]; simp

theorem consumedExactly_pos {c : Nat} {g : List (List Nat)} (h : consumedExactly c [] g = true) (hc : c ≠ 0) :
    g ≠ [] := by
  intro hg; subst hg; simp [consumedExactly] at h; omega

end C14
