import Hgxv.Proofs.C11RelabelAux
import Hgxv.Proofs.C11Bits
import Hgxv.Proofs.C11Census
/-! # C11 - the census does not depend on the node labels (core Lean only)

For an injective renaming `π`, the sorted image of a node set has a labelled pattern that is a
relabelling (`applyPerm t`, `t ∈ tbls n`) of the original pattern; connectivity is preserved; sorted
images give a bijection between the `n`-subsets of the two node sets. -/
namespace C11

/-- sorted image of a node list -/
def relabelSet (π : Nat → Nat) (S : List Nat) : List Nat := isort (S.map π)

section
variable {π : Nat → Nat} (hπ : ∀ a b, π a = π b → a = b)
include hπ

theorem map_nodup {l : List Nat} (h : l.Nodup) : (l.map π).Nodup := by
  refine List.Pairwise.map _ ?_ h
  intro a b hab heq; exact hab (hπ a b heq)

theorem mem_relabelSet {S : List Nat} {y : Nat} : y ∈ relabelSet π S ↔ ∃ x ∈ S, π x = y := by
  unfold relabelSet; rw [mem_isort, List.mem_map]

theorem relabelSet_sorted {S : List Nat} (h : S.Nodup) : SSorted (relabelSet π S) :=
  isort_sorted (map_nodup hπ h)

omit hπ in
theorem relabelSet_length (S : List Nat) : (relabelSet π S).length = S.length := by
  unfold relabelSet; rw [isort_length, List.length_map]

theorem relabelSet_inj {S T : List Nat} (hS : SSorted S) (hT : SSorted T)
    (h : relabelSet π S = relabelSet π T) : S = T := by
  apply eq_of_sorted_of_mem_iff hS hT
  intro x
  constructor
  · intro hx
    have : π x ∈ relabelSet π T := by rw [← h]; exact (mem_relabelSet hπ).mpr ⟨x, hx, rfl⟩
    obtain ⟨x', hx', he⟩ := (mem_relabelSet hπ).mp this
    exact hπ x' x he ▸ hx'
  · intro hx
    have : π x ∈ relabelSet π S := by rw [h]; exact (mem_relabelSet hπ).mpr ⟨x, hx, rfl⟩
    obtain ⟨x', hx', he⟩ := (mem_relabelSet hπ).mp this
    exact hπ x' x he ▸ hx'

theorem relabelHG_wf {E : HG} (hE : WF E) : WF (relabelHG π E) := by
  constructor
  · unfold relabelHG
    rw [List.nodup_iff_pairwise_ne, List.pairwise_map]
    refine List.Pairwise.imp_of_mem ?_ hE.nodup
    intro a b ha hb hab heq
    exact hab (relabelSet_inj hπ (hE.sorted a ha) (hE.sorted b hb) heq)
  · intro e' he'
    obtain ⟨e, he, rfl⟩ := List.mem_map.mp he'
    exact relabelSet_sorted hπ (hE.sorted e he).nodup

/-- is the sorted image of a sorted list in the relabelled hypergraph? -/
theorem contains_relabel {E : HG} (hE : WF E) {A B : List Nat} (hA : SSorted A) (hB : SSorted B)
    (hAB : ∀ y, y ∈ B ↔ ∃ x ∈ A, π x = y) : (relabelHG π E).contains B = E.contains A := by
  rw [Bool.eq_iff_iff, List.contains_iff_mem, List.contains_iff_mem]
  constructor
  · intro h
    obtain ⟨e, he, heq⟩ := List.mem_map.mp h
    have hes := hE.sorted e he
    have : e = A := by
      apply eq_of_sorted_of_mem_iff hes hA
      intro x
      constructor
      · intro hx
        have : π x ∈ B := by rw [← heq]; exact (mem_relabelSet hπ).mpr ⟨x, hx, rfl⟩
        obtain ⟨x', hx', he'⟩ := (hAB _).mp this
        exact hπ x' x he' ▸ hx'
      · intro hx
        have : π x ∈ isort (e.map π) := by rw [heq]; exact (hAB _).mpr ⟨x, hx, rfl⟩
        obtain ⟨x', hx', he'⟩ := (mem_relabelSet hπ).mp this
        exact hπ x' x he' ▸ hx'
    exact this ▸ he
  · intro h
    refine List.mem_map.mpr ⟨A, h, ?_⟩
    exact isort_eq_of_mem_iff (map_nodup hπ hA.nodup) hB (fun y => by rw [List.mem_map]; exact (hAB y).symm)

/-! ## the pattern of the relabelled set is a relabelling of the pattern -/

theorem pattern_relabel {n : Nat} (hn : n = 3 ∨ n = 4) {E : HG} (hE : WF E) {S : List Nat}
    (hS : SSorted S) (hlen : S.length = n) :
    ∃ t ∈ tbls n, applyPerm t (pattern n (relabelHG π E) (relabelSet π S)) = pattern n E S := by
  -- notation
  have hS' : SSorted (relabelSet π S) := relabelSet_sorted hπ hS.nodup
  have hlen' : (relabelSet π S).length = n := by rw [relabelSet_length, hlen]
  have hσlen : (S.map π).length = n := by simp [hlen]
  -- q[j] = position in S of the node whose image is S'[j]
  let q : List Nat := (relabelSet π S).map fun y => (S.map π).idxOf y
  have hqlen : q.length = n := by simp [q, hlen']
  have hQ : ∀ j, j < n → q.getD j 0 < n ∧ π (S.getD (q.getD j 0) 0) = (relabelSet π S).getD j 0 := by
    intro j hj
    have hy : (relabelSet π S).getD j 0 ∈ relabelSet π S := getD_mem _ _ (by omega)
    have hyσ : (relabelSet π S).getD j 0 ∈ S.map π := by
      obtain ⟨x, hx, he⟩ := (mem_relabelSet hπ).mp hy
      exact List.mem_map.mpr ⟨x, hx, he⟩
    have hidx : (S.map π).idxOf ((relabelSet π S).getD j 0) < (S.map π).length :=
      List.idxOf_lt_length_of_mem hyσ
    have hq : q.getD j 0 = (S.map π).idxOf ((relabelSet π S).getD j 0) := by
      show (List.map _ _).getD j 0 = _
      rw [getD_map_lt _ _ 0 0 (by omega)]
    rw [hq]
    refine ⟨by omega, ?_⟩
    have h1 := List.getElem_idxOf hidx
    rw [List.getElem_map] at h1
    rw [getD_eq_getElem_lt _ _ (by simpa using hidx)]
    exact h1
  have hqinj : ∀ i j, i < n → j < n → q.getD i 0 = q.getD j 0 → i = j := by
    intro i j hi hj h
    have h1 := (hQ i hi).2
    have h2 := (hQ j hj).2
    rw [h] at h1
    have heq : (relabelSet π S).getD i 0 = (relabelSet π S).getD j 0 := h1.symm.trans h2
    rw [getD_eq_getElem_lt _ _ (by omega), getD_eq_getElem_lt _ _ (by omega)] at heq
    have hnd := hS'.nodup
    apply Classical.byContradiction
    intro hne
    rcases Nat.lt_or_gt_of_ne hne with hlt | hlt
    · exact (List.pairwise_iff_getElem.mp hnd) i j (by omega) (by omega) hlt heq
    · exact (List.pairwise_iff_getElem.mp hnd) j i (by omega) (by omega) hlt heq.symm
  have hqnd : q.Nodup := by
    rw [List.nodup_iff_pairwise_ne, List.pairwise_iff_getElem]
    intro i j hi hj hij heq
    have := hqinj i j (by omega) (by omega) (by
      rw [getD_eq_getElem_lt _ _ hi, getD_eq_getElem_lt _ _ hj]; exact heq)
    omega
  have hqlt : ∀ x ∈ q, x < n := by
    intro x hx
    obtain ⟨i, hi, rfl⟩ := List.mem_iff_getElem.mp hx
    have := (hQ i (by omega)).1
    rwa [getD_eq_getElem_lt _ _ hi] at this
  have hq : q ∈ perms (List.range n) := mem_perms_range hqnd hqlen hqlt
  obtain ⟨htlen, htfacts, htsurj⟩ := edgePerm_facts hn hq
  refine ⟨edgePerm (hyperedges n) q, List.mem_map.mpr ⟨q, hq, rfl⟩, ?_⟩
  -- bits
  have hb : (patBits n E S).length = (hyperedges n).length := by
    unfold patBits; rw [List.length_map, length_hyperedgesOf hlen]
  have hb' : (patBits n (relabelHG π E) (relabelSet π S)).length = (hyperedges n).length := by
    unfold patBits; rw [List.length_map, length_hyperedgesOf hlen']
  unfold pattern
  apply applyPerm_toMask _ _ _ (hyperedges n).length hb htlen htsurj ?_ hb'
  intro p hp
  obtain ⟨htp, hes⟩ := htfacts p hp
  -- the p-th sub-hyperedge of S' and the t[p]-th of S
  unfold patBits
  rw [hyperedgesOf_eq hlen', hyperedgesOf_eq hlen, List.map_map, List.map_map]
  rw [getD_map_lt _ _ [] false hp, getD_map_lt _ _ [] false htp]
  simp only [Function.comp]
  rw [hes]
  have hhe := mem_hyperedges (getD_mem (hyperedges n) [] hp)
  obtain ⟨hhes, hhelt, _, _⟩ := hhe
  -- X = positions in S
  have hXnd : (((hyperedges n).getD p []).map fun v => q.getD v 0).Nodup := by
    rw [List.nodup_iff_pairwise_ne, List.pairwise_map]
    refine List.Pairwise.imp_of_mem ?_ hhes.nodup
    intro a b ha hb hab heq
    exact hab (hqinj a b (hhelt a ha) (hhelt b hb) heq)
  have hXlt : ∀ x ∈ isort (((hyperedges n).getD p []).map fun v => q.getD v 0), x < S.length := by
    intro x hx
    rw [mem_isort] at hx
    obtain ⟨v, hv, rfl⟩ := List.mem_map.mp hx
    have := (hQ v (hhelt v hv)).1
    omega
  apply contains_relabel hπ hE
  · exact map_getD_sorted hS (isort_sorted hXnd) hXlt
  · exact map_getD_sorted hS' hhes (fun x hx => by have := hhelt x hx; omega)
  · intro y
    simp only [List.mem_map, mem_isort]
    constructor
    · rintro ⟨j, hj, rfl⟩
      exact ⟨S.getD (q.getD j 0) 0, ⟨q.getD j 0, ⟨j, hj, rfl⟩, rfl⟩, (hQ j (hhelt j hj)).2⟩
    · rintro ⟨x, ⟨x0, ⟨j, hj, rfl⟩, rfl⟩, rfl⟩
      exact ⟨j, hj, ((hQ j (hhelt j hj)).2).symm⟩

/-! ## connectivity is preserved -/

theorem reach_relabel {E : HG} {S S' : List Nat} (hSS' : ∀ y, y ∈ S' ↔ ∃ x ∈ S, π x = y) {y x : Nat}
    (h : Reach E S y x) : Reach (relabelHG π E) S' (π y) (π x) := by
  induction h with
  | refl => exact Reach.refl _
  | step _ hadj ih =>
    obtain ⟨e, he, hs, hz, hx⟩ := hadj
    refine Reach.step ih ⟨isort (e.map π), List.mem_map.mpr ⟨e, he, rfl⟩, ?_, ?_, ?_⟩
    · intro z' hz'
      obtain ⟨a, ha, rfl⟩ := (mem_relabelSet hπ).mp hz'
      exact (hSS' _).mpr ⟨a, hs a ha, rfl⟩
    · exact (mem_relabelSet hπ).mpr ⟨_, hz, rfl⟩
    · exact (mem_relabelSet hπ).mpr ⟨_, hx, rfl⟩

theorem reach_relabel_inv {E : HG} {S S' : List Nat} (hSS' : ∀ y, y ∈ S' ↔ ∃ x ∈ S, π x = y) {y' x' : Nat}
    (h : Reach (relabelHG π E) S' y' x') : ∀ y, π y = y' → ∃ x, π x = x' ∧ Reach E S y x := by
  induction h with
  | refl => intro y hy; exact ⟨y, hy, Reach.refl _⟩
  | step _ hadj ih =>
    intro y hy
    obtain ⟨z, hz, hr⟩ := ih y hy
    obtain ⟨e', he', hs', hz', hx'⟩ := hadj
    obtain ⟨e, he, rfl⟩ := List.mem_map.mp he'
    have hsub : ∀ a ∈ e, a ∈ S := by
      intro a ha
      have : π a ∈ S' := hs' _ ((mem_relabelSet hπ).mpr ⟨a, ha, rfl⟩)
      obtain ⟨s, hs, hse⟩ := (hSS' _).mp this
      exact hπ s a hse ▸ hs
    obtain ⟨a, ha, hae⟩ := (mem_relabelSet hπ).mp hz'
    obtain ⟨x, hx, hxe⟩ := (mem_relabelSet hπ).mp hx'
    have haz : a = z := hπ a z (hae.trans hz.symm)
    exact ⟨x, hxe, Reach.step hr ⟨e, he, hsub, haz ▸ ha, hx⟩⟩

theorem conn_relabel {E : HG} {S : List Nat} :
    Conn (relabelHG π E) (relabelSet π S) ↔ Conn E S := by
  have hSS' : ∀ y, y ∈ relabelSet π S ↔ ∃ x ∈ S, π x = y := fun y => mem_relabelSet hπ
  constructor
  · intro h y hy x hx
    have := h (π y) ((hSS' _).mpr ⟨y, hy, rfl⟩) (π x) ((hSS' _).mpr ⟨x, hx, rfl⟩)
    obtain ⟨x0, hx0, hr⟩ := reach_relabel_inv hπ hSS' this y rfl
    exact hπ x0 x hx0 ▸ hr
  · intro h y' hy' x' hx'
    obtain ⟨y, hy, rfl⟩ := (hSS' _).mp hy'
    obtain ⟨x, hx, rfl⟩ := (hSS' _).mp hx'
    exact reach_relabel hπ hSS' (h y hy x hx)

/-! ## the bijection between the `n`-subsets -/

theorem mem_nodesOf_relabel {E : HG} {y : Nat} : y ∈ nodesOf (relabelHG π E) ↔ ∃ x ∈ nodesOf E, π x = y := by
  rw [mem_nodesOf]
  constructor
  · rintro ⟨e', he', hy⟩
    obtain ⟨e, he, rfl⟩ := List.mem_map.mp he'
    obtain ⟨x, hx, hxy⟩ := (mem_relabelSet hπ).mp hy
    exact ⟨x, mem_nodesOf.mpr ⟨e, he, hx⟩, hxy⟩
  · rintro ⟨x, hx, rfl⟩
    obtain ⟨e, he, hxe⟩ := mem_nodesOf.mp hx
    exact ⟨isort (e.map π), List.mem_map.mpr ⟨e, he, rfl⟩, (mem_relabelSet hπ).mpr ⟨x, hxe, rfl⟩⟩

open Classical in
theorem specCount_relabel {n : Nat} (hn : n = 3 ∨ n = 4) {E : HG} (hE : WF E) {c : Nat} (hc : c ∈ classes n) :
    specCount n (relabelHG π E) c = specCount n E c := by
  have C := certFor hn
  -- the predicate is preserved
  have hP : ∀ S, SSorted S → S.length = n →
      ((Conn (relabelHG π E) (relabelSet π S) ∧ ∃ t ∈ tbls n, applyPerm t c = pattern n (relabelHG π E) (relabelSet π S))
        ↔ (Conn E S ∧ ∃ t ∈ tbls n, applyPerm t c = pattern n E S)) := by
    intro S hS hlen
    have hlen' : (relabelSet π S).length = n := by rw [relabelSet_length, hlen]
    obtain ⟨t, ht, hpat⟩ := pattern_relabel hπ hn hE hS hlen
    have hcid : cidFor n (pattern n E S) = cidFor n (pattern n (relabelHG π E) (relabelSet π S)) := by
      rw [← hpat]; exact (C.inv _ (pattern_lt _ hlen') t ht).2
    rw [conn_relabel hπ, isRelabel_iff hn hc (pattern_lt _ hlen'), isRelabel_iff hn hc (pattern_lt _ hlen), hcid]
  unfold specCount
  have hVs := nodesOf_sorted E
  have hVs' := nodesOf_sorted (relabelHG π E)
  -- the two filtered lists correspond under `relabelSet π`
  have hperm : ((subsetsOfSize n (nodesOf (relabelHG π E))).filter fun S =>
        decide (Conn (relabelHG π E) S ∧ ∃ t ∈ tbls n, applyPerm t c = pattern n (relabelHG π E) S)).Perm
      (((subsetsOfSize n (nodesOf E)).filter fun S =>
        decide (Conn E S ∧ ∃ t ∈ tbls n, applyPerm t c = pattern n E S)).map (relabelSet π)) := by
    apply (List.perm_ext_iff_of_nodup (List.Pairwise.filter _ (nodup_subsetsOfSize hVs'.nodup)) ?_).mpr
    · intro S'
      simp only [List.mem_filter, List.mem_map, decide_eq_true_eq, mem_subsetsOfSize_sorted hVs',
        mem_subsetsOfSize_sorted hVs]
      constructor
      · rintro ⟨⟨hS's, hS'V, hS'len⟩, hP'⟩
        -- preimage
        let S := (nodesOf E).filter fun x => S'.contains (π x)
        have hSs : SSorted S := List.Pairwise.sublist List.filter_sublist hVs
        have hSm : ∀ x, x ∈ S ↔ x ∈ nodesOf E ∧ π x ∈ S' := by
          intro x; simp [S, List.mem_filter]
        have himg : relabelSet π S = S' := by
          apply isort_eq_of_mem_iff (map_nodup hπ hSs.nodup) hS's
          intro y
          rw [List.mem_map]
          constructor
          · rintro ⟨x, hx, rfl⟩; exact ((hSm x).mp hx).2
          · intro hy
            obtain ⟨x, hx, hxy⟩ := (mem_nodesOf_relabel hπ).mp (hS'V y hy)
            exact ⟨x, (hSm x).mpr ⟨hx, hxy ▸ hy⟩, hxy⟩
        have hSlen : S.length = n := by rw [← relabelSet_length (π := π), himg, hS'len]
        refine ⟨S, ⟨⟨hSs, fun x hx => ((hSm x).mp hx).1, hSlen⟩, ?_⟩, himg⟩
        rw [← himg] at hP'
        exact (hP S hSs hSlen).mp hP'
      · rintro ⟨S, ⟨⟨hSs, hSV, hSlen⟩, hPS⟩, rfl⟩
        refine ⟨⟨relabelSet_sorted hπ hSs.nodup, ?_, by rw [relabelSet_length, hSlen]⟩,
          (hP S hSs hSlen).mpr hPS⟩
        intro y hy
        obtain ⟨x, hx, rfl⟩ := (mem_relabelSet hπ).mp hy
        exact (mem_nodesOf_relabel hπ).mpr ⟨x, hSV x hx, rfl⟩
    · rw [List.nodup_iff_pairwise_ne, List.pairwise_map]
      refine List.Pairwise.imp_of_mem ?_ (List.Pairwise.filter _ (nodup_subsetsOfSize hVs.nodup))
      intro a b ha hb hab heq
      have hsa := List.Pairwise.sublist (mem_subsetsOfSize.mp (List.mem_filter.mp ha).1).1 hVs
      have hsb := List.Pairwise.sublist (mem_subsetsOfSize.mp (List.mem_filter.mp hb).1).1 hVs
      exact hab (relabelSet_inj hπ hsa hsb heq)
  rw [hperm.length_eq, List.length_map]

/-- the census of the renamed hypergraph is the census of the original -/
theorem census_relabel {n : Nat} (hn : n = 3 ∨ n = 4) {E : HG} (hE : WF E) :
    census n (relabelHG π E) = census n E := by
  rw [census_spec hn hE, census_spec hn (relabelHG_wf hπ hE)]
  apply List.map_congr_left
  intro c hc
  rw [specCount_relabel hπ hn hE hc]

end
end C11
