import Hgxv.Proofs.C02Step
/-! C02 helper lemmas, part 9: setters, batched insertion, clear commute with the abstraction. -/
namespace C02
open AL

theorem abs_setEmeta (s : Store) (h : Inv s) (k : Key) (id : Nat) (hk : get? s.edgeList k = some id) (md' : Meta) :
    abs { s with emeta := AL.set s.emeta id md' } =
      { abs s with edges := AL.set (abs s).edges k ((get? s.weights id).getD 0, md') } := by
  apply Spec.ext'
  · rfl
  · rfl
  · show absEdges s.edgeList s.weights (AL.set s.emeta id md') = _
    rw [absEdges_update s h k id hk s.weights (AL.set s.emeta id md') (fun _ _ => rfl)
      (fun id' hne => get?_set_ne _ _ _ _ (Ne.symm hne))]
    simp
  · rfl

theorem abs_setWeights (s : Store) (h : Inv s) (k : Key) (id : Nat) (hk : get? s.edgeList k = some id) (w : Int) :
    abs { s with weights := AL.set s.weights id w } =
      { abs s with edges := AL.set (abs s).edges k (w, (get? s.emeta id).getD []) } := by
  apply Spec.ext'
  · rfl
  · rfl
  · show absEdges s.edgeList (AL.set s.weights id w) s.emeta = _
    rw [absEdges_update s h k id hk (AL.set s.weights id w) s.emeta
      (fun id' hne => get?_set_ne _ _ _ _ (Ne.symm hne)) (fun _ _ => rfl)]
    simp
  · rfl

theorem abs_setNmeta (s : Store) (h : Inv s) (n : Node) (hn : (get? s.adjS n).isSome) (md' : Meta) :
    abs { s with nmeta := AL.set s.nmeta n md' } = { abs s with nodes := AL.set (abs s).nodes n md' } := by
  apply Spec.ext'
  · rfl
  · show absNodes s.adjS (AL.set s.nmeta n md') = AL.set (absNodes s.adjS s.nmeta) n md'
    unfold absNodes
    have := set_keymap (keys s.adjS) (fun m => (get? s.nmeta m).getD [])
        (fun m => (get? (AL.set s.nmeta n md') m).getD []) n ((isSome_get?_iff _ _).mp hn) h.nd_adjS
        (fun a ha => by simp [get?_set, Ne.symm ha])
    rw [← this]; simp
  · rfl
  · rfl

theorem abs_setWeight (s : Store) (e : RawEdge) (w : Int) (h : Inv s) :
    abs (setWeight s e w).1 = (Spec.setWeight (abs s) e w).1 ∧ (setWeight s e w).2 = (Spec.setWeight (abs s) e w).2 := by
  unfold setWeight Spec.setWeight
  have hw : (abs s).weighted = s.weighted := rfl
  rw [hw]
  split
  · exact ⟨rfl, rfl⟩
  · cases canonStrict e with
    | none => exact ⟨rfl, rfl⟩
    | some k =>
      simp only [abs_get_edge]
      cases hk : get? s.edgeList k with
      | none => exact ⟨rfl, rfl⟩
      | some id => exact ⟨abs_setWeights s h k id hk w, rfl⟩

theorem abs_setEdgeMeta (s : Store) (e : RawEdge) (md : Meta) (h : Inv s) :
    abs (setEdgeMeta s e md).1 = (Spec.updEdgeMeta (abs s) e (fun _ => some md)).1 ∧
    (setEdgeMeta s e md).2 = (Spec.updEdgeMeta (abs s) e (fun _ => some md)).2 := by
  unfold setEdgeMeta Spec.updEdgeMeta
  cases canonStrict e with
  | none => exact ⟨rfl, rfl⟩
  | some k =>
    simp only [abs_get_edge]
    cases hk : get? s.edgeList k with
    | none => exact ⟨rfl, rfl⟩
    | some id => exact ⟨abs_setEmeta s h k id hk md, rfl⟩

theorem abs_setAttrEdge (s : Store) (e : RawEdge) (a v : Nat) (h : Inv s) :
    abs (setAttrEdge s e a v).1 = (Spec.updEdgeMeta (abs s) e (setAttr a v)).1 ∧
    (setAttrEdge s e a v).2 = (Spec.updEdgeMeta (abs s) e (setAttr a v)).2 := by
  unfold setAttrEdge Spec.updEdgeMeta setAttr
  cases canonStrict e with
  | none => exact ⟨rfl, rfl⟩
  | some k =>
    simp only [abs_get_edge]
    cases hk : get? s.edgeList k with
    | none => exact ⟨rfl, rfl⟩
    | some id =>
      obtain ⟨m, hm⟩ := Option.isSome_iff_exists.mp (h.emeta_of_edge k id hk)
      simp only [Option.map_some, hm, Option.getD_some]
      by_cases ha : isVal m = true
      · simp only [ha, if_true]; exact ⟨by first | trivial | rfl, by first | trivial | rfl⟩
      · simp only [ha, Bool.false_eq_true, if_false]; exact ⟨abs_setEmeta s h k id hk _, by first | trivial | rfl⟩

theorem abs_delAttrEdge (s : Store) (e : RawEdge) (a : Nat) (h : Inv s) :
    abs (delAttrEdge s e a).1 = (Spec.updEdgeMeta (abs s) e (Spec.delAttr a)).1 ∧
    (delAttrEdge s e a).2 = (Spec.updEdgeMeta (abs s) e (Spec.delAttr a)).2 := by
  unfold delAttrEdge Spec.updEdgeMeta Spec.delAttr
  cases canonStrict e with
  | none => exact ⟨rfl, rfl⟩
  | some k =>
    simp only [abs_get_edge]
    cases hk : get? s.edgeList k with
    | none => exact ⟨rfl, rfl⟩
    | some id =>
      obtain ⟨m, hm⟩ := Option.isSome_iff_exists.mp (h.emeta_of_edge k id hk)
      simp only [Option.map_some, hm, Option.getD_some]
      by_cases ha : has m a = true
      · simp only [ha, if_true]; exact ⟨abs_setEmeta s h k id hk _, trivial⟩
      · simp only [ha]; exact ⟨rfl, rfl⟩

theorem abs_setNodeMeta (s : Store) (n : Node) (md : Meta) (h : Inv s) :
    abs (setNodeMeta s n md).1 = (Spec.setNodeMeta (abs s) n md).1 ∧
    (setNodeMeta s n md).2 = (Spec.setNodeMeta (abs s) n md).2 := by
  unfold setNodeMeta Spec.setNodeMeta
  rw [abs_has_node]
  by_cases hn : has s.adjS n = true
  · simp only [hn, if_true]; exact ⟨abs_setNmeta s h n hn md, trivial⟩
  · simp only [hn]; exact ⟨rfl, rfl⟩

theorem Inv.nmeta_abs {s : Store} (h : Inv s) (n : Node) :
    get? (abs s).nodes n = get? s.nmeta n := by
  rw [abs_get_node]
  by_cases hn : n ∈ keys s.adjS
  · have : (get? s.nmeta n).isSome := by rw [h.nmeta_same]; exact (isSome_get?_iff _ _).mpr hn
    obtain ⟨m, hm⟩ := Option.isSome_iff_exists.mp this
    simp [hn, hm]
  · have : get? s.adjS n = none := (get?_eq_none_iff _ _).mpr hn
    have h2 := h.nmeta_same n; rw [this] at h2
    cases hq : get? s.nmeta n with
    | none => simp [hn]
    | some x => rw [hq] at h2; cases h2

theorem abs_setAttrNode (s : Store) (n : Node) (a v : Nat) (h : Inv s) :
    abs (setAttrNode s n a v).1 = (Spec.updNodeMeta (abs s) n (setAttr a v)).1 ∧
    (setAttrNode s n a v).2 = (Spec.updNodeMeta (abs s) n (setAttr a v)).2 := by
  unfold setAttrNode Spec.updNodeMeta setAttr
  rw [h.nmeta_abs]
  cases hm : get? s.nmeta n with
  | none => exact ⟨rfl, rfl⟩
  | some m =>
    have hn : (get? s.adjS n).isSome := by rw [← h.nmeta_same, hm]; rfl
    by_cases ha : isVal m = true
    · simp only [ha, if_true]; exact ⟨by first | trivial | rfl, by first | trivial | rfl⟩
    · simp only [ha, Bool.false_eq_true, if_false]; exact ⟨abs_setNmeta s h n hn _, by first | trivial | rfl⟩

theorem abs_delAttrNode (s : Store) (n : Node) (a : Nat) (h : Inv s) :
    abs (delAttrNode s n a).1 = (Spec.updNodeMeta (abs s) n (Spec.delAttr a)).1 ∧
    (delAttrNode s n a).2 = (Spec.updNodeMeta (abs s) n (Spec.delAttr a)).2 := by
  unfold delAttrNode Spec.updNodeMeta Spec.delAttr
  rw [h.nmeta_abs]
  cases hm : get? s.nmeta n with
  | none => exact ⟨rfl, rfl⟩
  | some m =>
    have hn : (get? s.adjS n).isSome := by rw [← h.nmeta_same, hm]; rfl
    by_cases ha : has m a = true
    · simp only [ha, if_true]; exact ⟨abs_setNmeta s h n hn _, trivial⟩
    · simp only [ha]; exact ⟨rfl, rfl⟩

theorem abs_addEdgesLoop (s : Store) (es : List RawEdge) (ws : Option (List Int)) (mds : Option (List Meta))
    (hes : ∀ e ∈ es, RawWF e) (h : Inv s) :
    abs (addEdgesLoop s es ws mds).1 = (Spec.addEdgesLoop (abs s) es ws mds).1 ∧
    (addEdgesLoop s es ws mds).2 = (Spec.addEdgesLoop (abs s) es ws mds).2 := by
  induction es generalizing s ws mds with
  | nil => exact ⟨rfl, rfl⟩
  | cons e es ih =>
    have hes' : ∀ e' ∈ es, RawWF e' := fun e' he' => hes e' (List.mem_cons_of_mem _ he')
    unfold addEdgesLoop Spec.addEdgesLoop
    split
    · exact ⟨rfl, rfl⟩
    · split
      · exact ⟨rfl, rfl⟩
      · simp only []
        obtain ⟨h1, h2⟩ := abs_addEdge s e (ws.bind List.head?) (mds.bind List.head?) h
        have hi := addEdge_inv s e (ws.bind List.head?) (mds.bind List.head?) (hes e List.mem_cons_self) h
        cases ho : (addEdge s e (ws.bind List.head?) (mds.bind List.head?)).2 with
        | rej =>
          have ho' := h2 ▸ ho
          simp only [ho']; exact ⟨h1, ho⟩
        | ok =>
          have ho' := h2 ▸ ho
          simp only [ho']; rw [← h1]; exact ih _ _ _ hes' hi

theorem abs_addEdges (s : Store) (es : List RawEdge) (ws : Option (List Int)) (mds : Option (List Meta))
    (hes : ∀ e ∈ es, RawWF e) (h : Inv s) :
    abs (addEdges s es ws mds).1 = (Spec.addEdges (abs s) es ws mds).1 ∧
    (addEdges s es ws mds).2 = (Spec.addEdges (abs s) es ws mds).2 := by
  unfold addEdges Spec.addEdges
  simp only []
  have hw : (abs s).weighted = s.weighted := rfl
  rw [hw]
  have e0 : abs (if (ws.isSome && !s.weighted) = true then { s with weighted := true } else s) =
      (if (ws.isSome && !s.weighted) = true then { abs s with weighted := true } else abs s) := by
    split <;> rfl
  have h0 : Inv (if (ws.isSome && !s.weighted) = true then { s with weighted := true } else s) := by
    split
    · exact h.set_weighted true
    · exact h
  rw [← e0]
  split
  · split
    · exact ⟨rfl, rfl⟩
    · exact abs_addEdgesLoop _ es _ _ hes h0
  · exact abs_addEdgesLoop _ es _ _ hes h0

theorem abs_clear (s : Store) : abs (clear s) = { abs s with nodes := [], edges := [] } := by
  apply Spec.ext' <;> simp [abs, clear, keys]

end C02
