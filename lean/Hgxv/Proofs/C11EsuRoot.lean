import Hgxv.Proofs.C11Esu
import Hgxv.Proofs.C11Cert
/-! # C11 - the ESU pass summed over its roots (core Lean only)

`esuSets n E` (the node sets handed to `count_motif` by `_motifs_standard`) contains every
`n`-subset that is connected in the dyadic skeleton exactly once - rooted at its minimum - and
nothing else. -/
namespace C11

/-- every node set produced by `extend` is duplicate-free and has exactly `N` nodes -/
theorem extend_out {N : Nat} {g : Nat → List Nat} {v : Nat} (hgnd : ∀ w, (g w).Nodup) :
    ∀ (sub ext nsub : List Nat), Inv N g v sub ext nsub →
      ∀ o ∈ extend N g v sub ext nsub, o.Nodup ∧ o.length = N := by
  intro sub ext nsub
  induction sub, ext, nsub using extend.induct N g v with
  | case1 sub ext nsub hge =>
    intro hinv o ho
    rw [extend.eq_def] at ho; simp only [hge, if_true, List.mem_singleton] at ho
    subst ho
    exact ⟨hinv.sub_nodup, by have := hinv.sub_len; omega⟩
  | case2 sub nsub hlt =>
    intro hinv o ho
    rw [extend] at ho; simp [hlt] at ho
  | case3 sub nsub hlt w rest ihA ihB =>
    intro hinv o ho
    rw [extend] at ho; simp only [hlt, if_false, List.mem_append] at ho
    rcases ho with h | h
    · exact ihA (inv_A hgnd hinv (by omega)) o h
    · exact ihB (inv_B hinv) o h

/-- `S` is connected in the graph `g`, all its nodes other than `v` are larger than `v`, and `v ∈ S` -/
structure RootValid (g : Nat → List Nat) (v : Nat) (S : List Nat) : Prop where
  root_in : v ∈ S
  above : ∀ x ∈ S, x ≠ v → v < x
  reach : ∀ x ∈ S, ReachIn g S [v] x

theorem root_inv {N : Nat} {g : Nat → List Nat} (v : Nat) (hN : 1 ≤ N) (hgnd : ∀ w, (g w).Nodup) :
    Inv N g v [v] ((g v).filter (v < ·)) (g v) := by
  refine ⟨by simp, by simpa using hN, ?_, (hgnd v).filter _, ?_⟩
  · intro x; simp
  · intro x hx
    simp only [List.mem_filter, decide_eq_true_eq] at hx
    refine ⟨hx.1, ?_, hx.2⟩
    simp only [List.mem_singleton]; omega

theorem root_valid_iff {g : Nat → List Nat} {v : Nat} {S : List Nat} :
    Valid g v [v] ((g v).filter (v < ·)) (g v) S ↔ RootValid g v S := by
  constructor
  · intro h
    exact ⟨h.sub_in v (by simp), fun x hx hne => h.above x hx (by simpa using hne), h.reach⟩
  · intro h
    refine ⟨?_, ?_, ?_, h.reach⟩
    · intro x hx; simp at hx; subst hx; exact h.root_in
    · intro x hx hns; exact h.above x hx (by simpa using hns)
    · intro x hx hns hf
      have hlt := h.above x hx (by simpa using hns)
      apply hf.2.2
      simp only [List.mem_filter, decide_eq_true_eq]
      exact ⟨hf.1, hlt⟩

/-- two roots cannot both be valid for the same set -/
theorem rootValid_unique {g : Nat → List Nat} {v v' : Nat} {S : List Nat}
    (h : RootValid g v S) (h' : RootValid g v' S) : v = v' := by
  apply Decidable.byContradiction
  intro hne
  have h1 := h.above v' h'.root_in (fun e => hne e.symm)
  have h2 := h'.above v h.root_in hne
  omega

theorem sum_map_zero' {α} (L : List α) (f : α → Nat) (h : ∀ x ∈ L, f x = 0) : (L.map f).sum = 0 := by
  induction L with
  | nil => rfl
  | cons a L ih =>
    simp only [List.map_cons, List.sum_cons]
    rw [h a (by simp), ih (fun x hx => h x (by simp [hx]))]

theorem sum_map_single {α} (L : List α) (hL : L.Nodup) (f : α → Nat) (a : α) (ha : a ∈ L)
    (h : ∀ x ∈ L, x ≠ a → f x = 0) : (L.map f).sum = f a := by
  induction L with
  | nil => cases ha
  | cons b L ih =>
    have hnd := List.nodup_cons.mp hL
    simp only [List.map_cons, List.sum_cons]
    by_cases hba : b = a
    · subst hba
      rw [sum_map_zero' L f (fun x hx => h x (by simp [hx]) (fun e => hnd.1 (e ▸ hx)))]
      omega
    · have ha' : a ∈ L := by
        rcases List.mem_cons.mp ha with e | e
        · exact absurd e.symm hba
        · exact e
      rw [h b (by simp) hba, ih hnd.2 ha' (fun x hx => h x (by simp [hx]))]
      omega

section roots
variable (n : Nat) (E : HG)

theorem nbrs_nodup (w : Nat) : (nbrs E w).Nodup := nodup_dedup _
theorem roots_nodup : (roots E).Nodup := nodup_dedup _

/-- the ESU pass, root `v` -/
def esuFrom (v : Nat) : List (List Nat) :=
  extend n (nbrs E) v [v] ((nbrs E v).filter (v < ·)) (nbrs E v)

theorem esuSets_eq : esuSets n E = (roots E).flatMap (esuFrom n E) := rfl

theorem esu_out (hn : 1 ≤ n) : ∀ o ∈ esuSets n E, o.Nodup ∧ o.length = n ∧
    ∃ v ∈ roots E, RootValid (nbrs E) v o := by
  intro o ho
  rw [esuSets_eq, List.mem_flatMap] at ho
  obtain ⟨v, hv, hov⟩ := ho
  have hinv := root_inv (N := n) (g := nbrs E) v hn (nbrs_nodup E)
  obtain ⟨hnd, hlen⟩ := extend_out (nbrs_nodup E) _ _ _ hinv o hov
  refine ⟨hnd, hlen, v, hv, ?_⟩
  have spec := extend_spec (nbrs_nodup E) _ _ _ hinv o hnd hlen
  apply Classical.byContradiction
  intro hnv
  have h0 := spec.2 (fun hval => hnv (root_valid_iff.mp hval))
  have hpos : 0 < (esuFrom n E v).countP (sameSet o) :=
    List.countP_pos_iff.mpr ⟨o, hov, (sameSet_iff o o).mpr (fun _ => Iff.rfl)⟩
  unfold esuFrom at hpos
  omega

theorem esu_count_root (hn : 1 ≤ n) (v : Nat) (S : List Nat) (hS : S.Nodup) (hlen : S.length = n) :
    (RootValid (nbrs E) v S → (esuFrom n E v).countP (sameSet S) = 1) ∧
    (¬ RootValid (nbrs E) v S → (esuFrom n E v).countP (sameSet S) = 0) := by
  have hinv := root_inv (N := n) (g := nbrs E) v hn (nbrs_nodup E)
  have spec := extend_spec (nbrs_nodup E) _ _ _ hinv S hS hlen
  exact ⟨fun h => spec.1 (root_valid_iff.mpr h), fun h => spec.2 (fun hv => h (root_valid_iff.mp hv))⟩

/-- every valid set is counted exactly once over all roots, every other set never -/
theorem esu_count (hn : 1 ≤ n) (S : List Nat) (hS : S.Nodup) (hlen : S.length = n) :
    ((∃ v ∈ roots E, RootValid (nbrs E) v S) → (esuSets n E).countP (sameSet S) = 1) ∧
    ((¬ ∃ v ∈ roots E, RootValid (nbrs E) v S) → (esuSets n E).countP (sameSet S) = 0) := by
  rw [esuSets_eq, List.countP_flatMap]
  constructor
  · rintro ⟨v, hv, hval⟩
    have := sum_map_single (roots E) (roots_nodup E) (List.countP (sameSet S) ∘ esuFrom n E) v hv (by
      intro x _ hne
      exact (esu_count_root n E hn x S hS hlen).2 (fun hx => hne (rootValid_unique hx hval)))
    rw [this]
    exact (esu_count_root n E hn v S hS hlen).1 hval
  · intro hno
    apply sum_map_zero'
    intro x hx
    exact (esu_count_root n E hn x S hS hlen).2 (fun h => hno ⟨x, hx, h⟩)

end roots
end C11
