import Hgxv.Proofs.C03Win
/-! Snapshots (`subhypergraph`) and `aggregate` of C03 (core Lean only). -/
namespace C03
open AL

/-- value of a node's metadata after `add_node(node, md)` -/
def fillVal (o : Option Meta) (md : Meta) : Meta :=
  match o with
  | none => md
  | some [] => md
  | some (x :: xs) => x :: xs

theorem HSpec.addNode_fields (h : HSpec) (n : Node) (md : Meta) :
    (h.addNode n md).edges = h.edges ∧ (h.addNode n md).weighted = h.weighted := by
  unfold HSpec.addNode
  simp only []
  split <;> split <;> simp

theorem HSpec.addNode_nodes (h : HSpec) (n : Node) (md : Meta) (m : Node) :
    get? (h.addNode n md).nodes m = if m = n then some (fillVal (get? h.nodes n) md) else get? h.nodes m := by
  unfold HSpec.addNode
  simp only []
  cases hg : get? h.nodes n with
  | none =>
    simp [get?_set, fillVal]
    by_cases hm : m = n
    · subst hm; simp
    · simp [hm, Ne.symm hm, get?_set]
  | some v =>
    cases v with
    | nil =>
      simp [hg, fillVal, get?_set]
      by_cases hm : m = n
      · subst hm; simp
      · simp [hm, Ne.symm hm]
    | cons x xs =>
      simp [hg, fillVal]
      by_cases hm : m = n
      · subst hm; simp [hg]
      · simp [hm]

theorem HSpec.touchNodes_fields (h : HSpec) (ns : List Node) :
    (h.touchNodes ns).edges = h.edges ∧ (h.touchNodes ns).weighted = h.weighted := by
  induction ns generalizing h with
  | nil => simp [HSpec.touchNodes]
  | cons n ns ih =>
    have := ih (h.addNode n [])
    have h2 := HSpec.addNode_fields h n []
    simp only [HSpec.touchNodes, List.foldl_cons] at *
    rw [this.1, this.2, h2.1, h2.2]; exact ⟨rfl, rfl⟩

theorem fillVal_idem (o : Option Meta) : fillVal (some (fillVal o [])) [] = fillVal o [] := by
  cases o with
  | none => rfl
  | some v => cases v <;> rfl

theorem HSpec.touchNodes_nodes (h : HSpec) (ns : List Node) (m : Node) :
    get? (h.touchNodes ns).nodes m = if m ∈ ns then some (fillVal (get? h.nodes m) []) else get? h.nodes m := by
  induction ns generalizing h with
  | nil => simp [HSpec.touchNodes]
  | cons n ns ih =>
    have := ih (h.addNode n [])
    simp only [HSpec.touchNodes, List.foldl_cons] at *
    rw [this, HSpec.addNode_nodes]
    by_cases hm : m = n
    · subst hm; simp [fillVal_idem]
    · simp [hm]

/-- the value `Hypergraph.add_edge` leaves at the canonical key -/
def edgeVal (weighted : Bool) (old : Option (Int × Meta)) (w : Int) (md : Meta) : Int × Meta :=
  match old with
  | none => (if weighted then w else one, md)
  | some (w0, _) => (if weighted then w0 + w else w0, md)

theorem HSpec.addEdge_spec (h : HSpec) (e : Edge) (w : Int) (md : Meta) (hok : h.weighted = true ∨ w = one) :
    ∃ h', h.addEdge e w md = some h' ∧ h'.weighted = h.weighted ∧
      (∀ e', get? h'.edges e' = if canon e = e' then some (edgeVal h.weighted (get? h.edges (canon e)) w md) else get? h.edges e') ∧
      (∀ m, get? h'.nodes m = if m ∈ canon e ∧ get? h.edges (canon e) = none then some (fillVal (get? h.nodes m) []) else get? h.nodes m) := by
  unfold HSpec.addEdge
  have hrej : (!h.weighted && w != one) = false := by
    rcases hok with hok | hok
    · simp [hok]
    · simp [hok]
  simp only [hrej]
  cases hg : get? h.edges (canon e) with
  | none =>
    refine ⟨_, rfl, ?_, ?_, ?_⟩
    · rw [(HSpec.touchNodes_fields _ _).2]
    · intro e'; rw [(HSpec.touchNodes_fields _ _).1]; simp [get?_set, edgeVal]
    · intro m; rw [HSpec.touchNodes_nodes]; simp
  | some v =>
    obtain ⟨w0, md0⟩ := v
    refine ⟨_, rfl, rfl, ?_, ?_⟩
    · intro e'; simp [get?_set, edgeVal]
    · intro m; simp

end C03

namespace C03
open AL

/-- what the derivations need from the store (all consequences of the invariant `Inv`, see `C03Inv`) -/
structure KeysOK (s : Store) : Prop where
  nodup : (edgeKeys s).Nodup
  canon : ∀ k ∈ edgeKeys s, C03.canon k.2 = k.2
  hasW : ∀ k ∈ edgeKeys s, (weightOfKey s k).isSome
  hasM : ∀ k ∈ edgeKeys s, (metaOfKey s k).isSome
  unw : s.weighted = false → ∀ k ∈ edgeKeys s, weightOfKey s k = some one

/-- loop invariant of `subhypergraph`: `done` = records already visited -/
structure SnapInv (s : Store) (a b : Option Int) (done : List Key) (res : List (Nat × HSpec)) : Prop where
  times : ∀ t, (get? res t).isSome ↔ (insideOpt a b t = true ∧ ∃ k ∈ done, k.1 = t)
  content : ∀ t h, get? res t = some h → h.weighted = s.weighted ∧
    (∀ e, (get? h.edges e).isSome ↔ (t, e) ∈ done) ∧
    (∀ e, (t, e) ∈ done → (get? h.edges e).map (·.1) = weightOfKey s (t, e))

theorem snapStep_spec (s : Store) (ok : KeysOK s) (a b : Option Int) (done : List Key) (res : List (Nat × HSpec))
    (k : Key) (hinv : SnapInv s a b done res) (hk : k ∈ edgeKeys s) (hnew : k ∉ done) :
    ∃ r, snapStep s.weighted (weightOfKey s) a b res k = some r ∧ SnapInv s a b (done ++ [k]) r := by
  obtain ⟨t, e⟩ := k
  unfold snapStep
  by_cases hin : insideOpt a b t = true
  · simp only [hin, if_true]
    obtain ⟨w, hw⟩ := Option.isSome_iff_exists.mp (ok.hasW _ hk)
    simp only [hw]
    -- the hypergraph of time t so far
    have h0w : ((get? res t).getD { weighted := s.weighted }).weighted = s.weighted := by
      cases hr : get? res t with
      | none => rfl
      | some h => simp; exact (hinv.content t h hr).1
    have h0e : ∀ e', (get? ((get? res t).getD { weighted := s.weighted }).edges e').isSome ↔ (t, e') ∈ done := by
      intro e'
      cases hr : get? res t with
      | none =>
        simp
        intro hd
        have := (hinv.times t).mpr ⟨hin, (t, e'), hd, rfl⟩
        simp [hr] at this
      | some h => simp; exact (hinv.content t h hr).2.1 e'
    have h0v : ∀ e', (t, e') ∈ done →
        (get? ((get? res t).getD { weighted := s.weighted }).edges e').map (·.1) = weightOfKey s (t, e') := by
      intro e' hd
      cases hr : get? res t with
      | none =>
        have := (hinv.times t).mpr ⟨hin, (t, e'), hd, rfl⟩
        simp [hr] at this
      | some h => simp; exact (hinv.content t h hr).2.2 e' hd
    generalize ((get? res t).getD { weighted := s.weighted }) = h0 at h0w h0e h0v
    have hok : h0.weighted = true ∨ w = one := by
      cases hsw : s.weighted with
      | true => left; rw [h0w, hsw]
      | false => right; have := ok.unw hsw _ hk; rw [hw] at this; exact Option.some.inj this
    obtain ⟨h', hadd, hw', hedges, _⟩ := HSpec.addEdge_spec h0 e w [] hok
    have hce : C03.canon e = e := ok.canon _ hk
    rw [hce] at hedges
    have hnone : get? h0.edges e = none := by
      cases hg : get? h0.edges e with
      | none => rfl
      | some v => exact absurd ((h0e e).mp (by simp [hg])) hnew
    refine ⟨_, by rw [hadd]; rfl, ?_, ?_⟩
    · intro t'
      rw [get?_set]
      by_cases ht : t = t'
      · subst ht; simp [hin]
      · simp only [ht, if_false]
        rw [hinv.times t']
        constructor
        · rintro ⟨h1, k', hk', hk2⟩; exact ⟨h1, k', by simp [hk'], hk2⟩
        · rintro ⟨h1, k', hk', hk2⟩
          refine ⟨h1, k', ?_, hk2⟩
          rcases List.mem_append.mp hk' with hk' | hk'
          · exact hk'
          · simp at hk'; subst hk'; exact absurd hk2 ht
    · intro t' hh
      rw [get?_set]
      by_cases ht : t = t'
      · subst ht
        simp only [if_true]
        intro heq; cases heq
        refine ⟨by rw [hw', h0w], ?_, ?_⟩
        · intro e'
          rw [hedges]
          by_cases he : e = e'
          · subst he; simp
          · simp only [he, if_false]; rw [h0e]; simp [he]
            intro h; exact absurd h.symm he
        · intro e' hd
          rw [hedges]
          by_cases he : e = e'
          · subst he
            simp [hnone, edgeVal, hw]
            cases hsw : s.weighted with
            | true => rw [h0w, hsw]; simp
            | false =>
              rw [h0w, hsw]; simp
              have := ok.unw hsw _ hk; rw [hw] at this; exact (Option.some.inj this).symm
          · simp only [he, if_false]
            apply h0v
            rcases List.mem_append.mp hd with hd | hd
            · exact hd
            · simp at hd; exact absurd hd.symm he
      · simp only [ht, if_false]
        intro hr
        obtain ⟨c1, c2, c3⟩ := hinv.content t' hh hr
        refine ⟨c1, ?_, ?_⟩
        · intro e'; rw [c2]; simp; intro h; exact absurd h.symm ht
        · intro e' hd; apply c3
          rcases List.mem_append.mp hd with hd | hd
          · exact hd
          · simp at hd; exact absurd hd.1.symm ht
  · simp only [hin]
    refine ⟨res, rfl, ?_, ?_⟩
    · intro t'
      rw [hinv.times t']
      constructor
      · rintro ⟨h1, k', hk', hk2⟩; exact ⟨h1, k', by simp [hk'], hk2⟩
      · rintro ⟨h1, k', hk', hk2⟩
        refine ⟨h1, k', ?_, hk2⟩
        rcases List.mem_append.mp hk' with hk' | hk'
        · exact hk'
        · simp at hk'; subst hk'; simp at hk2; subst hk2; exact absurd h1 hin
    · intro t' hh hr
      have hin' : insideOpt a b t' = true := ((hinv.times t').mp (by simp [hr])).1
      have htt : t ≠ t' := by intro h; subst h; exact hin hin'
      obtain ⟨c1, c2, c3⟩ := hinv.content t' hh hr
      refine ⟨c1, ?_, ?_⟩
      · intro e'; rw [c2]; simp; intro h; exact absurd h.symm htt
      · intro e' hd; apply c3
        rcases List.mem_append.mp hd with hd | hd
        · exact hd
        · simp at hd; exact absurd hd.1.symm htt

theorem snapLoop_spec (s : Store) (ok : KeysOK s) (a b : Option Int) (ks done : List Key) (res : List (Nat × HSpec))
    (hinv : SnapInv s a b done res) (hnd : (done ++ ks).Nodup) (hsub : ∀ k ∈ ks, k ∈ edgeKeys s) :
    ∃ r, snapLoop s.weighted (weightOfKey s) a b res ks = some r ∧ SnapInv s a b (done ++ ks) r := by
  induction ks generalizing done res with
  | nil => exact ⟨res, rfl, by simpa using hinv⟩
  | cons k ks ih =>
    have hnew : k ∉ done := by
      intro h
      have := List.nodup_append.mp hnd
      exact this.2.2 k h k (by simp) rfl
    obtain ⟨r1, hr1, hinv1⟩ := snapStep_spec s ok a b done res k hinv (hsub k (by simp)) hnew
    have hnd' : ((done ++ [k]) ++ ks).Nodup := by simpa using hnd
    obtain ⟨r, hr, hinv2⟩ := ih (done ++ [k]) r1 hinv1 hnd' (fun k' hk' => hsub k' (by simp [hk']))
    refine ⟨r, ?_, by simpa using hinv2⟩
    simp only [snapLoop, hr1, Option.bind_some]; exact hr

/-- `subhypergraph(window)`: one hypergraph per time that has a record in the window; it has the weightedness of the
temporal hypergraph, exactly the node sets recorded at that time, each with the record's weight. -/
theorem snapshots_spec (s : Store) (ok : KeysOK s) (a b : Option Int) :
    ∃ r, snapLoop s.weighted (weightOfKey s) a b [] (edgeKeys s) = some r ∧
      (∀ t, (get? r t).isSome ↔ (insideOpt a b t = true ∧ ∃ k ∈ edgeKeys s, k.1 = t)) ∧
      (∀ t h, get? r t = some h → h.weighted = s.weighted ∧
        (∀ e, (get? h.edges e).isSome ↔ (t, e) ∈ edgeKeys s) ∧
        (∀ e, (t, e) ∈ edgeKeys s → (get? h.edges e).map (·.1) = weightOfKey s (t, e))) := by
  have h0 : SnapInv s a b [] [] := ⟨by simp, by simp⟩
  obtain ⟨r, hr, hinv⟩ := snapLoop_spec s ok a b (edgeKeys s) [] [] h0 (by simpa using ok.nodup) (fun k hk => hk)
  exact ⟨r, hr, by simpa using hinv.times, by simpa using hinv.content⟩

end C03

namespace C03
open AL

/-! ### the inner loop of `aggregate` on a time-sorted list -/
theorem takeWindow_spec (tS tE : Nat) (l : List Key) (hs : TimeSorted l) (hge : ∀ k ∈ l, tS ≤ k.1) :
    (takeWindow tS tE l).1 = l.filter (fun k => decide (k.1 < tE)) ∧
    (takeWindow tS tE l).2 = l.filter (fun k => decide (tE ≤ k.1)) := by
  induction l with
  | nil => simp [takeWindow]
  | cons k rest ih =>
    unfold TimeSorted at hs
    have hs' := List.pairwise_cons.mp hs
    have ih' := ih hs'.2 (fun k' hk' => hge k' (by simp [hk']))
    have hk := hge k (by simp)
    simp only [takeWindow]
    by_cases h : k.1 < tE
    · simp only [hk, h, and_self, if_true, List.filter_cons, decide_true]
      have : ¬ tE ≤ k.1 := by omega
      simp [this, ih'.1, ih'.2]
    · have h2 : ¬ (tS ≤ k.1 ∧ k.1 < tE) := fun hh => h hh.2
      simp only [h2, if_false]
      have hall : ∀ k' ∈ rest, tE ≤ k'.1 := fun k' hk' => by have := hs'.1 k' hk'; omega
      have hle : tE ≤ k.1 := by omega
      constructor
      · symm; apply List.filter_eq_nil_iff.mpr
        intro a ha; rcases List.mem_cons.mp ha with ha | ha
        · subst ha; simpa using h
        · have := hall a ha; simp; omega
      · symm; apply List.filter_eq_self.mpr
        intro a ha; rcases List.mem_cons.mp ha with ha | ha
        · subst ha; simpa using hle
        · simpa using hall a ha

/-! ### weights accumulated by `Hypergraph.add_edge` over a window -/
def accStep (weighted : Bool) (o : Option Int) (w : Int) : Option Int :=
  some (match o with | none => if weighted then w else one | some w0 => if weighted then w0 + w else w0)
def accW (weighted : Bool) (o : Option Int) (l : List Int) : Option Int := l.foldl (accStep weighted) o

theorem accW_some_true (x : Int) (l : List Int) : accW true (some x) l = some (x + l.sum) := by
  induction l generalizing x with
  | nil => simp [accW]
  | cons a t ih =>
    simp only [accW, List.foldl_cons, accStep] at *
    rw [ih]; simp [List.sum_cons]; omega
theorem accW_some_false (x : Int) (l : List Int) : accW false (some x) l = some x := by
  induction l generalizing x with
  | nil => simp [accW]
  | cons a t ih => simp only [accW, List.foldl_cons, accStep] at *; exact ih x

/-- starting from an empty hypergraph: no record - no hyperedge; otherwise the sum of the weights (weighted) or 1 -/
theorem accW_none (weighted : Bool) (l : List Int) :
    accW weighted none l = if l = [] then none else some (if weighted then l.sum else one) := by
  cases l with
  | nil => simp [accW]
  | cons a t =>
    cases weighted with
    | true =>
      have := accW_some_true a t
      simp only [accW, List.foldl_cons, accStep] at *
      simp [this, List.sum_cons]
    | false =>
      have := accW_some_false one t
      simp only [accW, List.foldl_cons, accStep] at *
      simp [this]

/-- weights of the records of `ks` whose node set is `e`, in list order -/
def recWeights (s : Store) (ks : List Key) (e : Edge) : List Int :=
  (ks.filter (fun k => k.2 == e)).filterMap (weightOfKey s)

theorem addWindowEdges_spec (s : Store) (ok : KeysOK s) (ks : List Key) (h : HSpec)
    (hw : h.weighted = s.weighted) (hsub : ∀ k ∈ ks, k ∈ edgeKeys s)
    (hempty : ∀ m md, get? h.nodes m = some md → md = []) :
    ∃ h', addWindowEdges (weightOfKey s) (metaOfKey s) h ks = some h' ∧ h'.weighted = s.weighted ∧
      (∀ e, (get? h'.edges e).map (·.1) = accW s.weighted ((get? h.edges e).map (·.1)) (recWeights s ks e)) ∧
      (∀ m md, get? h'.nodes m = some md → md = []) ∧
      (∀ m, (get? h'.nodes m).isSome → (get? h.nodes m).isSome ∨ ∃ k ∈ ks, m ∈ k.2) := by
  induction ks generalizing h with
  | nil => exact ⟨h, rfl, hw, by simp [recWeights, accW], hempty, fun m hm => Or.inl hm⟩
  | cons k ks ih =>
    have hk := hsub k (by simp)
    obtain ⟨w, hwk⟩ := Option.isSome_iff_exists.mp (ok.hasW _ hk)
    obtain ⟨md, hmk⟩ := Option.isSome_iff_exists.mp (ok.hasM _ hk)
    have hok : h.weighted = true ∨ w = one := by
      cases hsw : s.weighted with
      | true => left; rw [hw, hsw]
      | false => right; have := ok.unw hsw _ hk; rw [hwk] at this; exact Option.some.inj this
    obtain ⟨h1, hadd, hw1, hedges, hnodes⟩ := HSpec.addEdge_spec h k.2 w md hok
    have hce : C03.canon k.2 = k.2 := ok.canon _ hk
    rw [hce] at hedges hnodes
    have hempty1 : ∀ m md, get? h1.nodes m = some md → md = [] := by
      intro m md' hm
      rw [hnodes] at hm
      split at hm
      · have : fillVal (get? h.nodes m) [] = [] := by
          cases hg : get? h.nodes m with
          | none => rfl
          | some v => rw [hempty m v hg]; rfl
        rw [this] at hm; exact (Option.some.inj hm).symm
      · exact hempty m md' hm
    obtain ⟨h', hrec, hw', hedges', hempty', hnodes'⟩ :=
      ih h1 (by rw [hw1, hw]) (fun k' hk' => hsub k' (by simp [hk'])) hempty1
    refine ⟨h', ?_, hw', ?_, hempty', ?_⟩
    · simp only [addWindowEdges, hmk, hwk, hadd, Option.bind_some]; exact hrec
    · intro e
      rw [hedges' e, hedges e]
      by_cases he : k.2 = e
      · subst he
        simp only [if_true, Option.map_some]
        have : recWeights s (k :: ks) k.2 = w :: recWeights s ks k.2 := by
          simp [recWeights, List.filter_cons, hwk]
        rw [this]
        simp only [accW, List.foldl_cons]
        congr 1
        simp only [accStep, edgeVal, hw]
        cases hg : get? h.edges k.2 with
        | none => simp
        | some v => obtain ⟨w0, m0⟩ := v; simp
      · simp only [he, if_false]
        have : recWeights s (k :: ks) e = recWeights s ks e := by
          simp [recWeights, List.filter_cons, he]
        rw [this]
    · intro m hm
      rcases hnodes' m hm with h1s | ⟨k', hk', hmk'⟩
      · rw [hnodes] at h1s
        split at h1s
        · rename_i hc; exact Or.inr ⟨k, by simp, hc.1⟩
        · exact Or.inl h1s
      · exact Or.inr ⟨k', by simp [hk'], hmk'⟩

/-- `for node in node_list: Hypergraph_t.add_node(node, metadata=self._node_metadata[node])` -/
theorem addAllNodes_spec (l : List (Node × Meta)) (h : HSpec) (hnd : (keys l).Nodup)
    (hempty : ∀ m ∈ keys l, ∀ md, get? h.nodes m = some md → md = []) :
    (l.foldl (fun h p => h.addNode p.1 p.2) h).edges = h.edges ∧
    (l.foldl (fun h p => h.addNode p.1 p.2) h).weighted = h.weighted ∧
    ∀ m, get? (l.foldl (fun h p => h.addNode p.1 p.2) h).nodes m =
      (match get? l m with | some md => some md | none => get? h.nodes m) := by
  induction l generalizing h with
  | nil => simp
  | cons p l ih =>
    obtain ⟨n, md⟩ := p
    simp only [keys, List.map_cons, List.nodup_cons] at hnd
    have hn : n ∉ keys l := hnd.1
    have hempty1 : ∀ m ∈ keys l, ∀ md', get? (h.addNode n md).nodes m = some md' → md' = [] := by
      intro m hm md' hg
      rw [HSpec.addNode_nodes] at hg
      have : m ≠ n := fun hh => hn (hh ▸ hm)
      simp only [this, if_false] at hg
      exact hempty m (by simp [keys]; exact Or.inr (by simpa [keys] using hm)) md' hg
    obtain ⟨i1, i2, i3⟩ := ih (h.addNode n md) hnd.2 hempty1
    simp only [List.foldl_cons]
    refine ⟨by rw [i1, (HSpec.addNode_fields h n md).1], by rw [i2, (HSpec.addNode_fields h n md).2], ?_⟩
    intro m
    rw [i3 m]
    by_cases hm : n = m
    · subst hm
      have : get? l n = none := (get?_eq_none_iff l n).mpr hn
      simp only [this, get?, if_true]
      rw [HSpec.addNode_nodes]; simp only [if_true]
      have : fillVal (get? h.nodes n) md = md := by
        cases hg : get? h.nodes n with
        | none => rfl
        | some v => rw [hempty n (by simp [keys]) v hg]; rfl
      rw [this]
    · simp only [get?, hm, if_false]
      cases get? l m with
      | some v => rfl
      | none => simp only []; rw [HSpec.addNode_nodes]; simp [Ne.symm hm]

/-- nodes of the store: keys of `_node_metadata` are distinct and contain every node of every record -/
structure NodesOK (s : Store) : Prop where
  nodup : (keys s.nmeta).Nodup
  nodesIn : ∀ k ∈ edgeKeys s, ∀ n ∈ k.2, (get? s.nmeta n).isSome

/-- the hypergraph built for one window of `aggregate` -/
theorem buildWindow_spec (s : Store) (ok : KeysOK s) (nk : NodesOK s) (ks : List Key) (hsub : ∀ k ∈ ks, k ∈ edgeKeys s) :
    ∃ h, buildWindow s.weighted (weightOfKey s) (metaOfKey s) s.nmeta ks = some h ∧ h.weighted = s.weighted ∧
      (∀ m, get? h.nodes m = get? s.nmeta m) ∧
      (∀ e, (get? h.edges e).map (·.1) =
        if recWeights s ks e = [] then none else some (if s.weighted then (recWeights s ks e).sum else one)) := by
  obtain ⟨h1, hadd, hw1, hedges, hempty, hnodes⟩ :=
    addWindowEdges_spec s ok ks { weighted := s.weighted } rfl hsub (by simp)
  have hn := addAllNodes_spec s.nmeta h1 nk.nodup (fun m _ md hg => hempty m md hg)
  refine ⟨s.nmeta.foldl (fun h p => h.addNode p.1 p.2) h1, by simp only [buildWindow, hadd, Option.map_some], by rw [hn.2.1, hw1], ?_, ?_⟩
  · intro m
    rw [hn.2.2 m]
    cases hg : get? s.nmeta m with
    | some v => rfl
    | none =>
      simp only []
      cases hg1 : get? h1.nodes m with
      | none => rfl
      | some v =>
        rcases hnodes m (by simp [hg1]) with hh | ⟨k, hk, hmk⟩
        · simp at hh
        · have := nk.nodesIn k (hsub k hk) m hmk
          simp [hg] at this
  · intro e
    rw [hn.1, hedges e]
    simp only [get?_nil, Option.map_none]
    exact accW_none s.weighted _

end C03

namespace C03
open AL

/-- records of window `j` of width `w`: `j*w ≤ t < (j+1)*w` -/
def inWindow (w j : Nat) (k : Key) : Bool := decide (j * w ≤ k.1) && decide (k.1 < (j + 1) * w)

/-- the records falling into window `j`, in creation order -/
def windowRecs (s : Store) (w j : Nat) : List Key := (edgeKeys s).filter (inWindow w j)

theorem timeSorted_filter (l : List Key) (p : Key → Bool) (h : TimeSorted l) : TimeSorted (l.filter p) := by
  unfold TimeSorted at *; exact h.filter p

theorem aggLoop_spec (s : Store) (ok : KeysOK s) (nk : NodesOK s) (w : Nat) (hw : 0 < w) (maxT : Nat)
    (sorted : List Key) (hsorted : TimeSorted sorted) (hsub : ∀ k ∈ sorted, k ∈ edgeKeys s) :
    ∀ n tS idx, maxT + 1 - tS ≤ n → tS = idx * w →
      ∃ res, aggLoop s.weighted (weightOfKey s) (metaOfKey s) s.nmeta w hw maxT tS idx (sorted.filter (fun k => decide (tS ≤ k.1))) = some res ∧
        res.map (·.1) = List.range' idx (if tS ≤ maxT then (maxT - tS) / w + 1 else 0) ∧
        ∀ j h, (j, h) ∈ res → buildWindow s.weighted (weightOfKey s) (metaOfKey s) s.nmeta (sorted.filter (inWindow w j)) = some h := by
  intro n
  induction n with
  | zero =>
    intro tS idx hn _
    have : ¬ tS ≤ maxT := by omega
    refine ⟨[], ?_, by simp [this], by simp⟩
    rw [aggLoop]; simp [this]
  | succ n ih =>
    intro tS idx hn hidx
    by_cases hle : tS ≤ maxT
    · rw [aggLoop]
      simp only [hle, dite_true, if_true]
      have hrest : TimeSorted (sorted.filter (fun k => decide (tS ≤ k.1))) := timeSorted_filter _ _ hsorted
      have hge : ∀ k ∈ sorted.filter (fun k => decide (tS ≤ k.1)), tS ≤ k.1 := by
        intro k hk; simpa using (List.mem_filter.mp hk).2
      obtain ⟨t1, t2⟩ := takeWindow_spec tS (tS + w) _ hrest hge
      have e1 : (takeWindow tS (tS + w) (sorted.filter (fun k => decide (tS ≤ k.1)))).1 = sorted.filter (inWindow w idx) := by
        rw [t1, List.filter_filter]
        apply List.filter_congr
        intro k _
        have : (idx + 1) * w = tS + w := by rw [Nat.add_mul, hidx]; simp
        simp only [inWindow, this, hidx]
        rw [Bool.and_comm]
      have e2 : (takeWindow tS (tS + w) (sorted.filter (fun k => decide (tS ≤ k.1)))).2 =
          sorted.filter (fun k => decide (tS + w ≤ k.1)) := by
        rw [t2, List.filter_filter]
        apply List.filter_congr
        intro k _
        by_cases hk : tS + w ≤ k.1
        · have : tS ≤ k.1 := by omega
          simp [hk, this]
        · simp [hk]
      rw [e1, e2]
      obtain ⟨hg, hb, _⟩ := buildWindow_spec s ok nk (sorted.filter (inWindow w idx))
        (fun k hk => hsub k (List.mem_filter.mp hk).1)
      simp only [hb]
      obtain ⟨res', hr', hmap', hall'⟩ := ih (tS + w) (idx + 1) (by omega) (by rw [Nat.add_mul, hidx]; simp)
      refine ⟨(idx, hg) :: res', by rw [hr']; rfl, ?_, ?_⟩
      · simp only [List.map_cons, hmap']
        by_cases h2 : tS + w ≤ maxT
        · simp only [h2, if_true]
          have : (maxT - tS) / w = (maxT - (tS + w)) / w + 1 := by
            rw [Nat.div_eq_sub_div hw (by omega)]; congr 2; omega
          rw [this]; rfl
        · simp only [h2, if_false]
          have : (maxT - tS) / w = 0 := Nat.div_eq_of_lt (by omega)
          rw [this]; rfl
      · intro j h hm
        rcases List.mem_cons.mp hm with hm | hm
        · cases hm; exact hb
        · exact hall' j h hm
    · refine ⟨[], ?_, by simp [hle], by simp⟩
      rw [aggLoop]; simp [hle]

theorem maxNat_spec (l : List Nat) :
    (maxNat l = none ↔ l = []) ∧ ∀ m, maxNat l = some m → m ∈ l ∧ ∀ x ∈ l, x ≤ m := by
  cases l with
  | nil => simp [maxNat]
  | cons a t =>
    refine ⟨by simp [maxNat], ?_⟩
    have key : ∀ (t : List Nat) (a : Nat), (t.foldl max a = a ∨ t.foldl max a ∈ t) ∧ a ≤ t.foldl max a ∧ ∀ x ∈ t, x ≤ t.foldl max a := by
      intro t
      induction t with
      | nil => intro a; simp
      | cons b t ih =>
        intro a
        obtain ⟨h1, h2, h3⟩ := ih (max a b)
        simp only [List.foldl_cons]
        refine ⟨?_, by omega, ?_⟩
        · rcases h1 with h1 | h1
          · rw [h1]
            by_cases hab : a ≤ b
            · right; simp [Nat.max_eq_right hab]
            · left; exact Nat.max_eq_left (by omega)
          · right; simp [h1]
        · intro x hx; rcases List.mem_cons.mp hx with hx | hx
          · subst hx; omega
          · exact h3 x hx
    intro m hm
    simp only [maxNat] at hm
    cases hm
    obtain ⟨h1, h2, h3⟩ := key t a
    refine ⟨?_, ?_⟩
    · rcases h1 with h1 | h1
      · rw [h1]; simp
      · simp [h1]
    · intro x hx; rcases List.mem_cons.mp hx with hx | hx
      · subst hx; exact h2
      · exact h3 x hx

theorem perm_sum_int {l1 l2 : List Int} (h : l1.Perm l2) : l1.sum = l2.sum := by
  induction h with
  | nil => rfl
  | cons a _ ih => simp [List.sum_cons, ih]
  | swap a b l => simp [List.sum_cons]; omega
  | trans _ _ ih1 ih2 => rw [ih1, ih2]

theorem recWeights_perm (s : Store) (l1 l2 : List Key) (e : Edge) (h : l1.Perm l2) :
    (recWeights s l1 e).Perm (recWeights s l2 e) := by
  unfold recWeights; exact (h.filter _).filterMap _

theorem recWeights_eq_nil (s : Store) (ok : KeysOK s) (ks : List Key) (hsub : ∀ k ∈ ks, k ∈ edgeKeys s) (e : Edge) :
    recWeights s ks e = [] ↔ ¬ ∃ k ∈ ks, k.2 = e := by
  unfold recWeights
  rw [List.filterMap_eq_nil_iff]
  constructor
  · intro h ⟨k, hk, he⟩
    have := h k (List.mem_filter.mpr ⟨hk, by simp [he]⟩)
    have h2 := ok.hasW k (hsub k hk)
    rw [this] at h2; cases h2
  · intro h k hk
    exact absurd ⟨k, (List.mem_filter.mp hk).1, by simpa using (List.mem_filter.mp hk).2⟩ h

/-- what the property says about one window of `aggregate(w)` -/
structure WindowOK (s : Store) (w j : Nat) (h : HSpec) : Prop where
  weighted : h.weighted = s.weighted
  nodes : ∀ m, get? h.nodes m = get? s.nmeta m
  edges : ∀ e, (get? h.edges e).isSome ↔ ∃ t, (t, e) ∈ edgeKeys s ∧ j * w ≤ t ∧ t < (j + 1) * w
  weights : ∀ e v, get? h.edges e = some v →
    v.1 = if s.weighted then (recWeights s (windowRecs s w j) e).sum else one

theorem aggregate_spec (s : Store) (ok : KeysOK s) (nk : NodesOK s) (i : Int) (hi : 0 < i) :
    (edgeKeys s = [] → aggregate s (.int i) = some []) ∧
    (∀ M, maxTime s = some M → ∃ res, aggregate s (.int i) = some res ∧
      res.map (·.1) = List.range (M / i.toNat + 1) ∧ ∀ j h, (j, h) ∈ res → WindowOK s i.toNat j h) := by
  have hpos : 0 < i.toNat := by omega
  constructor
  · intro he
    simp [aggregate, V.aggregate, view, aggregateOf, hi, he, sortKeys, maxNat]
  · intro M hM
    have hms := (maxTime_spec s).2 M hM
    have hsorted := sortKeys_timeSorted (edgeKeys s)
    have hsub : ∀ k ∈ sortKeys (edgeKeys s), k ∈ edgeKeys s := fun k hk => mem_sortKeys.mp hk
    -- the maximum computed by `aggregate` is the maximal time
    have hmax : maxNat ((sortKeys (edgeKeys s)).map (·.1)) = some M := by
      cases hmn : maxNat ((sortKeys (edgeKeys s)).map (·.1)) with
      | none =>
        have := (maxNat_spec _).1.mp hmn
        obtain ⟨k, hk, _⟩ := hms.1
        have hk' : k ∈ sortKeys (edgeKeys s) := mem_sortKeys.mpr hk
        simp at this; rw [this] at hk'; cases hk'
      | some m =>
        obtain ⟨h1, h2⟩ := (maxNat_spec _).2 m hmn
        obtain ⟨k, hk, hkm⟩ := List.mem_map.mp h1
        obtain ⟨k2, hk2, hk2m⟩ := hms.1
        have a1 : m ≤ M := by rw [← hkm]; exact hms.2 k (mem_sortKeys.mp hk)
        have a2 : M ≤ m := by rw [← hk2m]; exact h2 k2.1 (List.mem_map.mpr ⟨k2, mem_sortKeys.mpr hk2, rfl⟩)
        congr 1; omega
    obtain ⟨res, hr, hmap, hall⟩ := aggLoop_spec s ok nk i.toNat hpos M (sortKeys (edgeKeys s)) hsorted hsub
      (M + 1) 0 0 (by omega) (by simp)
    have hfull : (sortKeys (edgeKeys s)).filter (fun k => decide (0 ≤ k.1)) = sortKeys (edgeKeys s) := by
      apply List.filter_eq_self.mpr; intro a _; simp
    rw [hfull] at hr
    refine ⟨res, ?_, ?_, ?_⟩
    · simp only [aggregate, V.aggregate, view, aggregateOf, hi, dite_true, hmax]; exact hr
    · rw [hmap, List.range_eq_range']; simp
    · intro j h hm
      have hb := hall j h hm
      have hsubw : ∀ k ∈ (sortKeys (edgeKeys s)).filter (inWindow i.toNat j), k ∈ edgeKeys s :=
        fun k hk => hsub k (List.mem_filter.mp hk).1
      obtain ⟨h', hb', hw', hn', he'⟩ := buildWindow_spec s ok nk _ hsubw
      rw [hb] at hb'; cases hb'
      have hperm : ((sortKeys (edgeKeys s)).filter (inWindow i.toNat j)).Perm (windowRecs s i.toNat j) :=
        (sortKeys_perm _).filter _
      refine ⟨hw', hn', ?_, ?_⟩
      · intro e
        have := he' e
        have hnil := recWeights_eq_nil s ok _ hsubw e
        constructor
        · intro hsome
          have hne : ¬ recWeights s ((sortKeys (edgeKeys s)).filter (inWindow i.toNat j)) e = [] := by
            intro hc; rw [hc] at this; simp at this; rw [this] at hsome; cases hsome
          have := Decidable.not_not.mp (mt hnil.mpr hne)
          obtain ⟨k, hk, hke⟩ := this
          obtain ⟨hk1, hk2⟩ := List.mem_filter.mp hk
          simp only [inWindow, Bool.and_eq_true, decide_eq_true_eq] at hk2
          exact ⟨k.1, by rw [← hke]; exact hsub k hk1, hk2.1, hk2.2⟩
        · rintro ⟨t, ht, h1, h2⟩
          have hne : ¬ recWeights s ((sortKeys (edgeKeys s)).filter (inWindow i.toNat j)) e = [] := by
            intro hc
            apply hnil.mp hc
            exact ⟨(t, e), List.mem_filter.mpr ⟨mem_sortKeys.mpr ht, by simp [inWindow, h1, h2]⟩, rfl⟩
          simp only [hne, if_false] at this
          cases hg : get? h.edges e with
          | none => rw [hg] at this; cases this
          | some v => rfl
      · intro e v hv
        have := he' e
        rw [hv] at this
        simp only [Option.map_some] at this
        split at this
        · cases this
        · have hs := Option.some.inj this
          rw [hs]
          cases hsw : s.weighted with
          | false => rfl
          | true => simp only [if_true]; exact perm_sum_int (recWeights_perm s _ _ e hperm)

end C03
