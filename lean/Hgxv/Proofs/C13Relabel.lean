import Hgxv.Model.C13
/-! # C13 — the model sees the node labels only through their order (core Lean only)

The harness hands the model the RANK of every label in sorted order (labels of the real run are ints of any
magnitude, floats, strings, tuples).  This file proves that this loses nothing: every function of the model
commutes with every strictly increasing relabelling `f : Nat → Nat`, for every draw list, including the error
outcomes.  So the run on ranks `0..n-1` is the run on any other order-isomorphic set of labels. -/
namespace C13

/-- a strictly increasing relabelling -/
def Incr (f : Nat → Nat) : Prop := ∀ a b, a < b → f a < f b

theorem Incr.le_iff {f : Nat → Nat} (h : Incr f) (a b : Nat) : f a ≤ f b ↔ a ≤ b := by
  constructor
  · intro hab
    apply Decidable.byContradiction
    intro hn
    have h1 : b < a := by omega
    have h2 := h b a h1
    omega
  · intro hab
    rcases Nat.lt_or_eq_of_le hab with hlt | heq
    · exact Nat.le_of_lt (h a b hlt)
    · subst heq; exact Nat.le_refl _

theorem Incr.inj {f : Nat → Nat} (h : Incr f) (a b : Nat) (hab : f a = f b) : a = b := by
  rcases Nat.lt_trichotomy a b with hl | he | hg
  · have := h a b hl; omega
  · exact he
  · have := h b a hg; omega

/-- the same outcome kind; a returned value is mapped -/
def exMap {α β} (g : α → β) : Except Err α → Except Err β
  | .ok a => .ok (g a)
  | .error e => .error e

/-- relabelled hyperedge / hyperedge list / directed hyperedge -/
abbrev rl (f : Nat → Nat) (e : Edge) : Edge := e.map f
abbrev rlE (f : Nat → Nat) (es : List Edge) : List Edge := es.map (rl f)
def rlD (f : Nat → Nat) (e : DEdge) : DEdge := (e.1.map f, e.2.map f)
abbrev rlDE (f : Nat → Nat) (es : List DEdge) : List DEdge := es.map (rlD f)

/-! ## generic facts about injective maps -/

theorem map_inj_list {f : Nat → Nat} (hf : ∀ a b, f a = f b → a = b) :
    ∀ e1 e2 : List Nat, e1.map f = e2.map f → e1 = e2
  | [], [], _ => rfl
  | [], _ :: _, h => by simp at h
  | _ :: _, [], h => by simp at h
  | a :: t, b :: u, h => by
    simp only [List.map_cons, List.cons.injEq] at h
    rw [hf a b h.1, map_inj_list hf t u h.2]

theorem rlD_inj {f : Nat → Nat} (hf : ∀ a b, f a = f b → a = b) (e1 e2 : DEdge) (h : rlD f e1 = rlD f e2) :
    e1 = e2 := by
  obtain ⟨a, b⟩ := e1
  obtain ⟨c, d⟩ := e2
  simp only [rlD, Prod.mk.injEq] at h
  rw [map_inj_list hf a c h.1, map_inj_list hf b d h.2]

theorem contains_map_inj {α β} [BEq α] [LawfulBEq α] [BEq β] [LawfulBEq β] (g : α → β)
    (hg : ∀ a b, g a = g b → a = b) (l : List α) (x : α) : (l.map g).contains (g x) = l.contains x := by
  induction l with
  | nil => rfl
  | cons b t ih =>
    simp only [List.map_cons, List.contains_cons, ih]
    by_cases hxb : x = b
    · subst hxb; simp
    · have e1 : (g x == g b) = false := beq_false_of_ne (fun h' => hxb (hg _ _ h'))
      have e2 : (x == b) = false := beq_false_of_ne hxb
      rw [e1, e2]

theorem erase_map_inj {f : Nat → Nat} (hf : ∀ a b, f a = f b → a = b) (l : List Nat) (v : Nat) :
    (l.map f).erase (f v) = (l.erase v).map f := by
  induction l with
  | nil => rfl
  | cons b t ih =>
    by_cases hvb : b = v
    · subst hvb; simp
    · have : f b ≠ f v := fun h' => hvb (hf _ _ h')
      simp [hvb, this, ih]

theorem idxOf_map_inj {f : Nat → Nat} (hf : ∀ a b, f a = f b → a = b) (l : List Nat) (v : Nat) :
    (l.map f).idxOf (f v) = l.idxOf v := by
  induction l with
  | nil => rfl
  | cons b t ih =>
    by_cases hvb : b = v
    · subst hvb; simp
    · have e1 : (f b == f v) = false := beq_false_of_ne (fun h' => hvb (hf _ _ h'))
      have e2 : (b == v) = false := beq_false_of_ne hvb
      simp only [List.map_cons, List.idxOf_cons, e1, e2, ih]

theorem dedup_map_inj {α β} [BEq α] [LawfulBEq α] [BEq β] [LawfulBEq β] (g : α → β)
    (hg : ∀ a b, g a = g b → a = b) (l : List α) : dedup (l.map g) = (dedup l).map g := by
  induction l with
  | nil => rfl
  | cons b t ih =>
    simp only [List.map_cons, dedup, contains_map_inj g hg]
    split <;> simp [ih]

/-! ## `sorted`, `__pairwise_reshuffle` -/

theorem insertSorted_map {f : Nat → Nat} (h : Incr f) (a : Nat) (l : List Nat) :
    insertSorted (f a) (l.map f) = (insertSorted a l).map f := by
  induction l with
  | nil => rfl
  | cons b bs ih =>
    simp only [List.map_cons, insertSorted]
    by_cases hab : a ≤ b
    · have : f a ≤ f b := (h.le_iff a b).mpr hab
      simp [hab, this]
    · have : ¬ f a ≤ f b := fun h' => hab ((h.le_iff a b).mp h')
      simp [hab, this, ih]

theorem sortNodes_map {f : Nat → Nat} (h : Incr f) (e : Edge) : sortNodes (e.map f) = (sortNodes e).map f := by
  induction e with
  | nil => rfl
  | cons a t ih =>
    unfold sortNodes at ih ⊢
    simp only [List.map_cons, List.foldr_cons]
    rw [ih]
    exact insertSorted_map h a _

theorem strip_map {f : Nat → Nat} (h : Incr f) (l ix : List Nat) :
    strip (l.map f) (ix.map f) = (strip l ix).map f := by
  induction ix generalizing l with
  | nil => rfl
  | cons v t ih =>
    simp only [List.map_cons, strip, erase_map_inj h.inj]
    exact ih _

theorem inter_map {f : Nat → Nat} (h : Incr f) (f1 f2 : Edge) :
    inter (f1.map f) (f2.map f) = (inter f1 f2).map f := by
  unfold inter
  rw [List.filter_map]
  congr 1
  apply List.filter_congr
  intro x _
  simp only [Function.comp]
  exact contains_map_inj f h.inj f2 x

theorem deal_map (f : Nat → Nat) (fl g1 g2 : List Nat) (n1 n2 : Nat) (ds : List Draw) :
    deal (fl.map f) (g1.map f) (g2.map f) n1 n2 ds
      = exMap (fun r => (r.1.map f, r.2.1.map f, r.2.2)) (deal fl g1 g2 n1 n2 ds) := by
  induction fl generalizing g1 g2 ds with
  | nil => simp [deal, exMap]
  | cons v t ih =>
    have e1 : ∀ g : List Nat, g.map f ++ [f v] = (g ++ [v]).map f := by intro g; simp
    by_cases h1 : g1.length < n1 <;> by_cases h2 : g2.length < n2
    · cases ds with
      | nil => simp [deal, h1, h2, exMap]
      | cons d ds' =>
        cases d with
        | idx i j => simp [deal, h1, h2, exMap]
        | coin b =>
          cases b
          · simp only [List.map_cons, deal, List.length_map, h1, h2, and_self, ↓reduceIte, e1]
            exact ih _ _ _
          · simp only [List.map_cons, deal, List.length_map, h1, h2, and_self, ↓reduceIte, e1]
            exact ih _ _ _
    · simp only [List.map_cons, deal, List.length_map, h1, h2, and_false, ↓reduceIte, e1]
      exact ih _ _ _
    · simp only [List.map_cons, deal, List.length_map, h1, h2, false_and, ↓reduceIte, e1]
      exact ih _ _ _
    · simp only [List.map_cons, deal, List.length_map, h1, h2, and_self, ↓reduceIte]
      exact ih _ _ _

theorem reshuffle_map {f : Nat → Nat} (h : Incr f) (f1 f2 : Edge) (ds : List Draw) :
    reshuffle (f1.map f) (f2.map f) ds
      = exMap (fun r => (r.1.map f, r.2.1.map f, r.2.2)) (reshuffle f1 f2 ds) := by
  unfold reshuffle
  rw [← List.map_append, inter_map h, strip_map h, deal_map, List.length_map, List.length_map]
  cases deal (strip (f1 ++ f2) (inter f1 f2)) (inter f1 f2) (inter f1 f2) f1.length f2.length ds with
  | error e => rfl
  | ok r =>
    obtain ⟨g1, g2, ds'⟩ := r
    simp [exMap, sortNodes_map h]

/-! ## proposal, step, chain -/

theorem pick_idx (detailed : Bool) (es : List Edge) (i j : Nat) (ds : List Draw) :
    pick detailed es (.idx i j :: ds) =
      match es[i]?, es[j]? with
      | some f1, some f2 => if admissible detailed f1 f2 then .ok (i, j, f1, f2, ds) else pick detailed es ds
      | _, _ => .error .badDraw := by
  cases h1 : es[i]? <;> cases h2 : es[j]? <;> simp [pick, h1, h2]

theorem pick_map (f : Nat → Nat) (detailed : Bool) (es : List Edge) (ds : List Draw) :
    pick detailed (rlE f es) ds
      = exMap (fun r => (r.1, r.2.1, r.2.2.1.map f, r.2.2.2.1.map f, r.2.2.2.2)) (pick detailed es ds) := by
  induction ds with
  | nil => rfl
  | cons d ds ih =>
    cases d with
    | coin b => rfl
    | idx i j =>
      rw [pick_idx, pick_idx]
      simp only [rlE, List.getElem?_map]
      cases hi : es[i]? with
      | none => simp [exMap]
      | some a =>
        cases hj : es[j]? with
        | none => simp [exMap]
        | some b =>
          have hadm : admissible detailed (rl f a) (rl f b) = admissible detailed a b := by
            simp [admissible, rl]
          simp only [Option.map_some, hadm]
          by_cases hA : admissible detailed a b = true
          · simp only [hA, ↓reduceIte, exMap]
          · simp only [hA]
            exact ih

theorem proposal_map (f : Nat → Nat) (detailed : Bool) (es : List Edge) (ds : List Draw) :
    proposal detailed (rlE f es) ds
      = exMap (fun r => (r.1, r.2.1, r.2.2.1.map f, r.2.2.2.1.map f, r.2.2.2.2)) (proposal detailed es ds) := by
  unfold proposal
  cases es with
  | nil => rfl
  | cons e t => simpa using pick_map f detailed (e :: t) ds

theorem mhStep_map {f : Nat → Nat} (h : Incr f) (detailed : Bool) (es : List Edge) (ds : List Draw) :
    mhStep detailed (rlE f es) ds = exMap (fun r => (rlE f r.1, r.2)) (mhStep detailed es ds) := by
  unfold mhStep
  rw [proposal_map]
  cases proposal detailed es ds with
  | error e => rfl
  | ok r =>
    obtain ⟨i, j, f1, f2, ds1⟩ := r
    simp only [exMap]
    rw [reshuffle_map h]
    cases reshuffle f1 f2 ds1 with
    | error e => rfl
    | ok r2 =>
      obtain ⟨g1, g2, ds2⟩ := r2
      simp only [exMap, rlE, rl, List.map_set, sortNodes_map h]

theorem chain_map {f : Nat → Nat} (h : Incr f) (detailed : Bool) (n : Nat) (es : List Edge) (ds : List Draw) :
    chain detailed n (rlE f es) ds = exMap (fun r => (rlE f r.1, r.2)) (chain detailed n es ds) := by
  induction n generalizing es ds with
  | zero => rfl
  | succ n ih =>
    simp only [chain]
    rw [mhStep_map h]
    cases mhStep detailed es ds with
    | error e => rfl
    | ok r =>
      obtain ⟨es', ds'⟩ := r
      simp only [exMap]
      exact ih es' ds'

/-! ## the returned hypergraph -/

theorem map_sort_rl {f : Nat → Nat} (h : Incr f) (es : List Edge) :
    (rlE f es).map sortNodes = rlE f (es.map sortNodes) := by
  simp only [rlE, List.map_map]
  apply List.map_congr_left
  intro e _
  exact sortNodes_map h e

theorem stubEdgeMH_map {f : Nat → Nat} (h : Incr f) (detailed : Bool) (n : Nat) (es : List Edge) (ds : List Draw) :
    stubEdgeMH detailed n (rlE f es) ds = exMap (rlE f) (stubEdgeMH detailed n es ds) := by
  unfold stubEdgeMH
  rw [chain_map h]
  cases chain detailed n es ds with
  | error e => rfl
  | ok r =>
    obtain ⟨es', ds'⟩ := r
    simp only [exMap]
    rw [map_sort_rl h, dedup_map_inj (rl f) (map_inj_list h.inj)]

theorem cmMCMC_map {f : Nat → Nat} (h : Incr f) (label : Label) (detailed : Bool) (n : Nat) (es : List Edge)
    (ds : List Draw) : cmMCMC label detailed n (rlE f es) ds = exMap (rlE f) (cmMCMC label detailed n es ds) := by
  cases label <;> exact stubEdgeMH_map h detailed n es ds

theorem addEdge_map {f : Nat → Nat} (h : Incr f) (out : List Edge) (e : Edge) :
    addEdge (rlE f out) (rl f e) = rlE f (addEdge out e) := by
  unfold addEdge
  rw [contains_map_inj (rl f) (map_inj_list h.inj)]
  split <;> simp [rlE]

theorem foldl_addEdge_map {f : Nat → Nat} (h : Incr f) (rest out : List Edge) :
    (rlE f rest).foldl addEdge (rlE f out) = rlE f (rest.foldl addEdge out) := by
  induction rest generalizing out with
  | nil => rfl
  | cons e t ih =>
    simp only [rlE, List.map_cons, List.foldl_cons] at ih ⊢
    rw [addEdge_map h]
    exact ih _

theorem filter_size_map (f : Nat → Nat) (p : Nat → Bool) (es : List Edge) :
    (rlE f es).filter (fun e => p e.length) = rlE f (es.filter (fun e => p e.length)) := by
  simp only [rlE, List.filter_map]
  congr 1
  apply List.filter_congr
  intro e _
  simp [Function.comp]

theorem configurationModel_map {f : Nat → Nat} (h : Incr f) (label : Label) (detailed : Bool) (size : Option Nat)
    (n : Nat) (es : List Edge) (ds : List Draw) :
    configurationModel label detailed size n (rlE f es) ds
      = exMap (rlE f) (configurationModel label detailed size n es ds) := by
  cases size with
  | none => exact cmMCMC_map h label detailed n es ds
  | some s =>
    simp only [configurationModel]
    rw [filter_size_map f (fun k => k == s), filter_size_map f (fun k => k != s), cmMCMC_map h]
    cases cmMCMC label detailed n (es.filter fun e => e.length == s) ds with
    | error e => rfl
    | ok out =>
      simp only [exMap]
      rw [foldl_addEdge_map h]

/-! ## directed configuration model -/

theorem side_rlD (f : Nat → Nat) (tgt : Bool) (e : DEdge) : side tgt (rlD f e) = (side tgt e).map f := by
  cases tgt <;> rfl

theorem setSide_rlD (f : Nat → Nat) (tgt : Bool) (e : DEdge) (l : List Nat) :
    setSide tgt (rlD f e) (l.map f) = rlD f (setSide tgt e l) := by
  cases tgt <;> rfl

theorem replaceFirst_map {f : Nat → Nat} (h : Incr f) (s : List Nat) (a b : Nat) :
    replaceFirst (s.map f) (f a) (f b) = (replaceFirst s a b).map f := by
  unfold replaceFirst
  rw [idxOf_map_inj h.inj, List.map_set]

theorem swapNodes_map {f : Nat → Nat} (h : Incr f) (tgt : Bool) (es : List DEdge) (id1 id2 : Nat) (e1 e2 : DEdge)
    (n1 n2 : Nat) :
    swapNodes tgt (rlDE f es) id1 id2 (rlD f e1) (rlD f e2) (f n1) (f n2)
      = rlDE f (swapNodes tgt es id1 id2 e1 e2 n1 n2) := by
  unfold swapNodes
  rw [side_rlD, side_rlD, contains_map_inj f h.inj, contains_map_inj f h.inj]
  split
  · rfl
  · simp only [rlDE, List.map_set, replaceFirst_map h, setSide_rlD]

theorem swapStep_map {f : Nat → Nat} (h : Incr f) (tgt : Bool) (es : List DEdge) (ds : List Nat) :
    swapStep tgt (rlDE f es) ds = exMap (fun r => (rlDE f r.1, r.2)) (swapStep tgt es ds) := by
  match ds with
  | [] => rfl
  | [_] => rfl
  | id1 :: id2 :: ds =>
    simp only [swapStep, rlDE, List.getElem?_map]
    cases h1 : es[id1]? with
    | none => simp [exMap]
    | some e1 =>
      cases h2 : es[id2]? with
      | none => simp [exMap]
      | some e2 =>
        simp only [Option.map_some, side_rlD, List.isEmpty_map]
        by_cases hid : id1 = id2
        · simp [hid, exMap]
        · simp only [hid, if_false]
          by_cases he1 : (side tgt e1).isEmpty
          · simp [he1, exMap]
          · simp only [he1]
            cases ds with
            | nil => simp [exMap]
            | cons c1 ds1 =>
              simp only [List.getElem?_map]
              cases hc1 : (side tgt e1)[c1]? with
              | none => simp [exMap]
              | some n1 =>
                simp only [Option.map_some]
                by_cases he2 : (side tgt e2).isEmpty
                · simp [he2, exMap]
                · simp only [he2]
                  cases ds1 with
                  | nil => simp [exMap]
                  | cons c2 ds2 =>
                    simp only [List.getElem?_map]
                    cases hc2 : (side tgt e2)[c2]? with
                    | none => simp [exMap]
                    | some n2 =>
                      simp only [Option.map_some, exMap, Bool.false_eq_true, if_false]
                      have := swapNodes_map h tgt es id1 id2 e1 e2 n1 n2
                      simp only [rlDE] at this
                      rw [this]

theorem swapLoop_map {f : Nat → Nat} (h : Incr f) (tgt : Bool) (n : Nat) (es : List DEdge) (ds : List Nat) :
    swapLoop tgt n (rlDE f es) ds = exMap (fun r => (rlDE f r.1, r.2)) (swapLoop tgt n es ds) := by
  induction n generalizing es ds with
  | zero => rfl
  | succ n ih =>
    simp only [swapLoop]
    rw [swapStep_map h]
    cases swapStep tgt es ds with
    | error e => rfl
    | ok r =>
      obtain ⟨es', ds'⟩ := r
      simp only [exMap]
      exact ih es' ds'

theorem sortSides_rlD {f : Nat → Nat} (h : Incr f) (e : DEdge) : sortSides (rlD f e) = rlD f (sortSides e) := by
  simp only [sortSides, rlD, sortNodes_map h]

theorem directedCM_map {f : Nat → Nat} (h : Incr f) (es : List DEdge) (ds : List Nat) :
    directedCM (rlDE f es) ds = exMap (rlDE f) (directedCM es ds) := by
  unfold directedCM
  rw [List.length_map, swapLoop_map h]
  cases swapLoop false (es.length * 10) es ds with
  | error e => rfl
  | ok r =>
    obtain ⟨es1, ds1⟩ := r
    simp only [exMap]
    have hl : (rlDE f es1).length = es1.length := List.length_map _
    rw [swapLoop_map h]
    cases swapLoop true (es.length * 10) es1 ds1 with
    | error e => rfl
    | ok r2 =>
      obtain ⟨es2, ds2⟩ := r2
      simp only [exMap]
      have : (rlDE f es2).map sortSides = rlDE f (es2.map sortSides) := by
        simp only [rlDE, List.map_map]
        apply List.map_congr_left
        intro e _
        exact sortSides_rlD h e
      rw [this, dedup_map_inj (rlD f) (rlD_inj h.inj)]

end C13
