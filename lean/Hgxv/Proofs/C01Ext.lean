import Hgxv.Model.C01Ext
import Hgxv.Proofs.C01Ref
import Hgxv.Proofs.C03Ext
/-! Lemmas for the second extension of C01 (constructor, hashing view, mapping, raw tables).  Core Lean. -/
namespace C01
open AL

/-! ## constructor -/

theorem ctorNodes_inv (nm : List (Node × Meta)) (s : Store) (h : Inv s) : Inv (ctorNodes s nm) := by
  induction nm generalizing s with
  | nil => exact h
  | cons p t ih => exact ih _ (addNode_inv s p.1 (some p.2) h)

theorem abs_ctorNodes (nm : List (Node × Meta)) (s : Store) (h : Inv s) :
    abs (ctorNodes s nm) = Spec.ctorNodes (abs s) nm := by
  induction nm generalizing s with
  | nil => rfl
  | cons p t ih =>
    show abs (ctorNodes (addNode s p.1 (some p.2)) t) = Spec.ctorNodes (Spec.addNode (abs s) p.1 (some p.2)) t
    rw [ih _ (addNode_inv s p.1 (some p.2) h), abs_addNode s p.1 (some p.2) h]

theorem abs_new (w : Bool) (hm : Meta) : abs (Store.new w hm) = Spec.new w hm := rfl

/-- refinement and invariant for one constructor call -/
theorem construct_sim (a : CtorArgs) (ha : a.WF) :
    (construct a).map abs = Spec.construct a ∧ ∀ s, construct a = some s → Inv s := by
  have h0 : Inv (ctorNodes (Store.new a.weighted a.hm) a.nodeMeta) := ctorNodes_inv _ _ (inv_new _ _)
  have habs := abs_ctorNodes a.nodeMeta _ (inv_new a.weighted a.hm)
  rw [abs_new] at habs
  have hsim := sim_addEdges _ a.edges a.weights a.emetas h0 ha
  unfold construct Spec.construct
  simp only []
  by_cases he : a.edges.isEmpty = true
  · simp only [he, if_true, Option.map_some, habs, Option.some.injEq, true_and]
    intro s hs; exact hs ▸ h0
  · simp only [he, Bool.false_eq_true, if_false]
    by_cases hb : ctorLenBad a = true
    · simp [hb]
    · simp only [hb, Bool.false_eq_true, if_false]
      rw [← habs]
      obtain ⟨h1, h2, h3⟩ := hsim
      generalize addEdges (ctorNodes (Store.new a.weighted a.hm) a.nodeMeta) a.edges a.weights a.emetas = r at h1 h2 h3
      generalize Spec.addEdges (abs (ctorNodes (Store.new a.weighted a.hm) a.nodeMeta)) a.edges a.weights a.emetas = r' at h1 h2
      obtain ⟨s', o⟩ := r
      obtain ⟨sp', o'⟩ := r'
      simp only at h1 h2 h3
      subst h2
      cases o with
      | ok => simp only [Option.map_some, h1, Option.some.injEq, true_and]; intro s hs; exact hs ▸ h3
      | rej => simp

/-! ### the constructor is a history of public calls -/

theorem run_append (st : State) (a b : List Cmd) : run st (a ++ b) = run (run st a) b := by
  simp [run, List.foldl_append]

theorem run_nodes1 (nm : List (Node × Meta)) (s : Store) :
    run [s] (nm.map (fun p => Cmd.on 0 (.addNode p.1 (some p.2)))) = [ctorNodes s nm] := by
  induction nm generalizing s with
  | nil => rfl
  | cons p t ih =>
    show run (step [s] (Cmd.on 0 (.addNode p.1 (some p.2)))).1 _ = _
    have : (step [s] (Cmd.on 0 (.addNode p.1 (some p.2)))).1 = [addNode s p.1 (some p.2)] := rfl
    rw [this, ih]; rfl

/-- an accepted constructor call IS the run of `ctorCmds` on one fresh slot -/
theorem construct_run (a : CtorArgs) (s : Store) (h : construct a = some s) :
    run (init 1) (ctorCmds 0 a) = [s] := by
  unfold ctorCmds
  show run (step (init 1) (Cmd.new 0 a.weighted a.hm)).1 _ = _
  have h1 : (step (init 1) (Cmd.new 0 a.weighted a.hm)).1 = [Store.new a.weighted a.hm] := rfl
  rw [h1, run_append, run_nodes1]
  unfold construct at h
  simp only [] at h
  by_cases he : a.edges.isEmpty = true
  · simp only [he, if_true, Option.some.injEq] at h
    simp only [he, if_true]; rw [← h]; rfl
  · simp only [he, Bool.false_eq_true, if_false] at h ⊢
    by_cases hb : ctorLenBad a = true
    · simp [hb] at h
    · simp only [hb, Bool.false_eq_true, if_false] at h
      show [(apply (ctorNodes (Store.new a.weighted a.hm) a.nodeMeta) (.addEdges a.edges a.weights a.emetas)).1] = [s]
      show [(addEdges (ctorNodes (Store.new a.weighted a.hm) a.nodeMeta) a.edges a.weights a.emetas).1] = [s]
      generalize addEdges (ctorNodes (Store.new a.weighted a.hm) a.nodeMeta) a.edges a.weights a.emetas = r at h
      obtain ⟨s', o⟩ := r
      cases o <;> simp_all

theorem ctorCmds_wf (a : CtorArgs) (ha : a.WF) : ∀ c ∈ ctorCmds 0 a, c.WF := by
  intro c hc
  unfold ctorCmds at hc
  simp only [List.mem_cons, List.mem_append, List.mem_map] at hc
  rcases hc with rfl | ⟨p, _, rfl⟩ | hc
  · trivial
  · trivial
  · by_cases he : a.edges.isEmpty = true
    · simp [he] at hc
    · simp only [he, Bool.false_eq_true, if_false, List.mem_singleton] at hc
      subst hc; exact ha

/-! ## sorting helpers -/

theorem st_ltList : C03.StrictTotal C03.ltList :=
  ⟨C03.ltList_irrefl, C03.ltList_trans, C03.ltList_tri⟩

section
variable {α β κ : Type} (lt : κ → κ → Bool)

theorem insBy_mapg (key : α → κ) (key' : β → κ) (g : α → β) (hk : ∀ x, key' (g x) = key x) (x : α) (l : List α) :
    (C03.insBy key lt x l).map g = C03.insBy key' lt (g x) (l.map g) := by
  induction l with
  | nil => rfl
  | cons y ys ih =>
    simp only [C03.insBy, List.map_cons, hk]
    split
    · rfl
    · simp [ih]

theorem sortBy_mapg (key : α → κ) (key' : β → κ) (g : α → β) (hk : ∀ x, key' (g x) = key x) (l : List α) :
    (C03.sortBy key lt l).map g = C03.sortBy key' lt (l.map g) := by
  induction l with
  | nil => rfl
  | cons x xs ih =>
    show (C03.insBy key lt x (C03.sortBy key lt xs)).map g = C03.insBy key' lt (g x) (C03.sortBy key' lt (xs.map g))
    rw [insBy_mapg lt key key' g hk, ih]
end

theorem lookupAll_map (t : List (Node × Meta)) (L : List (Node × Meta)) (h : ∀ p ∈ L, get? t p.1 = some p.2) :
    lookupAll t (L.map (·.1)) = some L := by
  induction L with
  | nil => rfl
  | cons p r ih =>
    simp only [List.map_cons, lookupAll, h p List.mem_cons_self,
      ih (fun q hq => h q (List.mem_cons_of_mem _ hq)), Option.map_some]

/-! ## hashing view -/

theorem hashEdge_eq (s : Store) (h : Inv s) (p : Edge × Nat) (hp : p ∈ s.edgeList) :
    hashEdge s p = (p.1, wm s p.2) := by
  have hid := h.id_of_mem hp
  have hc := (h.key_canon _ _ hid).2
  have hr := h.rev_of_edge _ _ hid
  have hw := h.w_dom p.2
  rw [hr] at hw
  obtain ⟨w, hw'⟩ := Option.isSome_iff_exists.mp hw
  simp [hashEdge, wm, hc, hw']

theorem hashView_abs (s : Store) (h : Inv s) : hashView s = some (Spec.hashView (abs s)) := by
  have hnk : (keys s.nmeta).Nodup := h.nm_keys ▸ h.adj_nodup
  have hnodes : lookupAll s.nmeta (C03.sortBy id C03.ltNat (keys s.adj))
      = some (C03.sortBy (fun (p : Node × Meta) => p.1) C03.ltNat s.nmeta) := by
    rw [← h.nm_keys]
    have : C03.sortBy id C03.ltNat (keys s.nmeta)
        = (C03.sortBy (fun (p : Node × Meta) => p.1) C03.ltNat s.nmeta).map (·.1) :=
      (sortBy_mapg C03.ltNat (fun (p : Node × Meta) => p.1) id (·.1) (fun _ => rfl) s.nmeta).symm
    rw [this]
    apply lookupAll_map
    intro p hp
    have hm : p ∈ s.nmeta := (C03.sortBy_perm _ _ s.nmeta).mem_iff.mp hp
    exact get?_of_mem hnk (show (p.1, p.2) ∈ s.nmeta from hm)
  have hedges : (C03.sortBy (fun (p : Edge × Nat) => p.1) C03.ltList s.edgeList).map (hashEdge s)
      = C03.sortBy (fun (r : Edge × (Int × Meta)) => r.1) C03.ltList (abs s).edges := by
    rw [abs_edges, ← sortBy_mapg C03.ltList (fun (p : Edge × Nat) => p.1) (fun (r : Edge × (Int × Meta)) => r.1)
      (fun p => (p.1, wm s p.2)) (fun _ => rfl)]
    apply List.map_congr_left
    intro p hp
    exact hashEdge_eq s h p ((C03.sortBy_perm _ _ s.edgeList).mem_iff.mp hp)
  unfold hashView
  rw [hnodes]
  simp only [Spec.hashView, hedges]
  rfl

end C01
