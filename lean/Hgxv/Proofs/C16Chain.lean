import Hgxv.Model.C16
/-! Helper lemmas for C16, part 1: list-sets, `_pairwise_reshuffle`, `_mcmc_step`, the chain.  Core Lean only. -/
namespace C16

/-! ## list-sets -/

theorem mem_inter {a b : Hye} {v : Nat} : v ∈ inter a b ↔ v ∈ a ∧ v ∈ b := by
  simp [inter]

theorem mem_diff {a b : Hye} {v : Nat} : v ∈ diff a b ↔ v ∈ a ∧ v ∉ b := by
  simp [diff]

theorem nodup_inter {a b : Hye} (h : a.Nodup) : (inter a b).Nodup := h.filter _
theorem nodup_diff {a b : Hye} (h : a.Nodup) : (diff a b).Nodup := h.filter _

theorem mem_union {a b : Hye} {v : Nat} : v ∈ union a b ↔ v ∈ a ∨ v ∈ b := by
  simp only [union, List.mem_append, mem_diff]
  constructor
  · rintro (h | h)
    · exact Or.inl h
    · exact Or.inr h.1
  · rintro (h | h)
    · exact Or.inl h
    · by_cases hv : v ∈ a
      · exact Or.inl hv
      · exact Or.inr ⟨h, hv⟩

theorem nodup_union {a b : Hye} (ha : a.Nodup) (hb : b.Nodup) : (union a b).Nodup := by
  unfold union
  rw [List.nodup_append]
  refine ⟨ha, nodup_diff hb, ?_⟩
  intro x hx y hy hxy
  subst hxy
  exact (mem_diff.mp hy).2 hx

theorem length_inter_add_diff (a b : Hye) : (inter a b).length + (diff a b).length = a.length := by
  unfold inter diff
  induction a with
  | nil => simp
  | cons x xs ih =>
    by_cases hx : x ∈ b
    · simp [hx] at ih ⊢; omega
    · simp [hx] at ih ⊢; omega

theorem union_length_of_disjoint {a b : Hye} (h : ∀ v ∈ b, v ∉ a) :
    (union a b).length = a.length + b.length := by
  unfold union diff
  rw [List.length_append, List.filter_eq_self.mpr]
  intro v hv
  simpa using h v hv

theorem validPick_spec {pop : List Nat} {k : Nat} {p : List Nat} (h : validPick pop k p = true) :
    p.length = k ∧ (∀ v ∈ p, v ∈ pop) ∧ p.Nodup := by
  simp only [validPick, Bool.and_eq_true, beq_iff_eq, List.all_eq_true, List.contains_iff_mem,
    decide_eq_true_eq] at h
  exact ⟨h.1.1, h.1.2, h.2⟩

theorem mem_disjUnion {h1 h2 : Hye} {v : Nat} :
    v ∈ disjUnion h1 h2 ↔ (v ∈ h1 ∧ v ∉ h2) ∨ (v ∈ h2 ∧ v ∉ h1) := by
  simp [disjUnion, mem_diff]

theorem nodup_disjUnion {h1 h2 : Hye} (n1 : h1.Nodup) (n2 : h2.Nodup) : (disjUnion h1 h2).Nodup := by
  unfold disjUnion
  rw [List.nodup_append]
  refine ⟨nodup_diff n1, nodup_diff n2, ?_⟩
  intro x hx y hy hxy
  subst hxy
  exact (mem_diff.mp hy).2 (mem_diff.mp hx).1

/-! ## `_pairwise_reshuffle` -/

theorem count01 {l : List Nat} (h : l.Nodup) (n : Nat) : l.count n = if n ∈ l then 1 else 0 := h.count

/-- all facts about one reshuffle, for every pick that satisfies numpy's contract -/
theorem pairReshuffle_spec {h1 h2 pick a b : Hye} (n1 : h1.Nodup) (n2 : h2.Nodup)
    (h : pairReshuffle h1 h2 pick = some (a, b)) :
    a.Nodup ∧ b.Nodup ∧ a.length = h1.length ∧
      (∀ n, a.count n + b.count n = h1.count n + h2.count n) := by
  unfold pairReshuffle at h
  split at h
  · rename_i hv
    obtain ⟨hlen, hsub, hnd⟩ := validPick_spec hv
    simp only [Option.some.injEq, Prod.mk.injEq] at h
    obtain ⟨ha, hb⟩ := h
    have hpick_not_ix : ∀ v ∈ inter h1 h2, v ∉ pick := by
      intro v hv hp
      have := mem_disjUnion.mp (hsub v hp)
      have := mem_inter.mp hv
      grind
    have hdu := nodup_disjUnion n1 n2
    have hA : a.Nodup := by rw [← ha]; exact nodup_union hnd (nodup_inter n1)
    have hB : b.Nodup := by rw [← hb]; exact nodup_union (nodup_diff hdu) (nodup_inter n1)
    refine ⟨hA, hB, ?_, ?_⟩
    · rw [← ha, union_length_of_disjoint hpick_not_ix, hlen]
      have := length_inter_add_diff h1 h2
      omega
    · intro n
      rw [count01 hA, count01 hB, count01 n1, count01 n2, ← ha, ← hb]
      simp only [mem_union, mem_diff, mem_inter, mem_disjUnion]
      have hs := hsub n
      simp only [mem_disjUnion] at hs
      by_cases c1 : n ∈ h1 <;> by_cases c2 : n ∈ h2 <;> by_cases c3 : n ∈ pick <;> simp_all
  · exact absurd h (by simp)

/-! ## sums over `set` -/

theorem sum_set (L : List Nat) (i : Nat) (x : Nat) (h : i < L.length) :
    (L.set i x).sum + L[i] = L.sum + x := by
  induction L generalizing i with
  | nil => simp at h
  | cons y ys ih =>
    cases i with
    | zero => simp [List.set]; omega
    | succ i =>
      simp only [List.set, List.sum_cons, List.getElem_cons_succ]
      have := ih i (by simpa using h)
      omega

/-! ## `_mcmc_step` -/

theorem degOf_append (n : Nat) (c d : Config) : degOf n (c ++ d) = degOf n c + degOf n d := by
  simp [degOf]

theorem sizeCount_append (s : Nat) (c d : Config) : sizeCount s (c ++ d) = sizeCount s c + sizeCount s d := by
  simp [sizeCount]

theorem acceptStep_spec {cfg : Config} {i j : Nat} {a b : Hye} (hi : i < cfg.length) (hj : j < cfg.length)
    (hij : i ≠ j) (hla : a.length = cfg[i].length) (hlb : b.length = cfg[j].length)
    (hc : ∀ n, a.count n + b.count n = cfg[i].count n + cfg[j].count n) :
    (acceptStep cfg i j a b).map List.length = cfg.map List.length ∧
      ∀ n, degOf n (acceptStep cfg i j a b) = degOf n cfg := by
  unfold acceptStep
  constructor
  · rw [List.map_set, List.map_set, hla, hlb]
    have e1 : ((cfg.map List.length).set i cfg[i].length) = cfg.map List.length := by
      have := List.set_getElem_self (as := cfg.map List.length) (i := i) (by simpa using hi)
      simpa using this
    rw [e1]
    have := List.set_getElem_self (as := cfg.map List.length) (i := j) (by simpa using hj)
    simpa using this
  · intro n
    unfold degOf
    rw [List.map_set, List.map_set]
    have hi' : i < (cfg.map (fun e => List.count n e)).length := by simpa using hi
    have hj' : j < ((cfg.map (fun e => List.count n e)).set i (a.count n)).length := by simpa using hj
    have s1 := sum_set (cfg.map (fun e => List.count n e)) i (a.count n) hi'
    have s2 := sum_set ((cfg.map (fun e => List.count n e)).set i (a.count n)) j (b.count n) hj'
    rw [List.getElem_set_ne hij] at s2
    simp only [List.getElem_map] at s1 s2
    have := hc n
    generalize (((List.map (fun e => List.count n e) cfg).set i (List.count n a)).set j (List.count n b)).sum = S2 at s2 ⊢
    generalize ((List.map (fun e => List.count n e) cfg).set i (List.count n a)).sum = S1 at s1 s2
    generalize (List.map (fun e => List.count n e) cfg).sum = S0 at s1 ⊢
    omega

/-- one step keeps the positions' sizes, every node's degree, and set-ness — for every draw -/
theorem mcmcStep_spec {cfg cfg' : Config} {d : StepDraw} (hn : AllNodup cfg)
    (h : mcmcStep cfg d = some cfg') :
    cfg'.map List.length = cfg.map List.length ∧ (∀ n, degOf n cfg' = degOf n cfg) ∧ AllNodup cfg' := by
  unfold mcmcStep at h
  split at h
  · rename_i hg
    obtain ⟨hi, hj, hij⟩ := hg
    split at h
    · rename_i a b hr
      have n1 := hn _ (List.getElem_mem hi)
      have n2 := hn _ (List.getElem_mem hj)
      obtain ⟨hA, hB, hla, hc⟩ := pairReshuffle_spec n1 n2 hr
      have hlb : b.length = cfg[d.j].length := by
        have e := List.Perm.length_eq (List.perm_iff_count.mpr (fun n => by
          show List.count n (a ++ b) = List.count n (cfg[d.i] ++ cfg[d.j])
          rw [List.count_append, List.count_append]; exact hc n))
        simp only [List.length_append] at e
        omega
      simp only [Option.some.injEq] at h
      by_cases hacc : d.accept = true
      · simp only [hacc, if_true] at h
        subst h
        obtain ⟨e1, e2⟩ := acceptStep_spec hi hj hij hla hlb hc
        refine ⟨e1, e2, ?_⟩
        intro e he
        unfold acceptStep at he
        rcases List.mem_or_eq_of_mem_set he with he | he
        · rcases List.mem_or_eq_of_mem_set he with he | he
          · exact hn e he
          · exact he ▸ hA
        · exact he ▸ hB
      · simp only [hacc] at h
        subst h
        exact ⟨rfl, fun _ => rfl, hn⟩
    · exact absurd h (by simp)
  · exact absurd h (by simp)

theorem mcmcSteps_spec {cfg cfg' : Config} {ds : List StepDraw} (hn : AllNodup cfg)
    (h : mcmcSteps cfg ds = some cfg') :
    cfg'.map List.length = cfg.map List.length ∧ (∀ n, degOf n cfg' = degOf n cfg) ∧ AllNodup cfg' := by
  induction ds generalizing cfg with
  | nil => simp only [mcmcSteps, Option.some.injEq] at h; subst h; exact ⟨rfl, fun _ => rfl, hn⟩
  | cons d ds ih =>
    simp only [mcmcSteps] at h
    cases hs : mcmcStep cfg d with
    | none => simp [hs] at h
    | some c =>
      simp only [hs, Option.bind_some] at h
      obtain ⟨a1, a2, a3⟩ := mcmcStep_spec hn hs
      obtain ⟨b1, b2, b3⟩ := ih a3 h
      exact ⟨b1.trans a1, fun n => (b2 n).trans (a2 n), b3⟩

theorem yieldsFrom_spec {cfg : Config} {thins : List (List StepDraw)} {ys : List Config} (hn : AllNodup cfg)
    (h : yieldsFrom cfg thins = some ys) :
    ys.length = thins.length ∧ ∀ y ∈ ys, y.map List.length = cfg.map List.length ∧
      (∀ n, degOf n y = degOf n cfg) ∧ AllNodup y := by
  induction thins generalizing cfg ys with
  | nil => simp only [yieldsFrom, Option.some.injEq] at h; subst h; simp
  | cons ds rest ih =>
    simp only [yieldsFrom] at h
    cases hs : mcmcSteps cfg ds with
    | none => simp [hs] at h
    | some c =>
      simp only [hs, Option.bind_some] at h
      cases hr : yieldsFrom c rest with
      | none => simp [hr] at h
      | some r =>
        simp only [hr, Option.map_some, Option.some.injEq] at h
        subst h
        obtain ⟨a1, a2, a3⟩ := mcmcSteps_spec hn hs
        obtain ⟨hl, hall⟩ := ih a3 hr
        refine ⟨by simp [hl], ?_⟩
        intro y hy
        rcases List.mem_cons.mp hy with hy | hy
        · subst hy; exact ⟨a1, a2, a3⟩
        · obtain ⟨b1, b2, b3⟩ := hall y hy
          exact ⟨b1.trans a1, fun n => (b2 n).trans (a2 n), b3⟩

end C16
