import Hgxv.Proofs.C01Ops
/-! C01, part 5: the abstraction `abs : Store → Spec` - lookup lemmas, how the primitive updates act on it,
and the equality of the two incident listings (ids through `_adj` vs filter over the keys). -/
namespace C01
open AL

section maps
variable {α β γ : Type} [DecidableEq α]

theorem get?_map_snd (l : List (α × β)) (g : β → γ) (k : α) :
    get? (l.map fun p => (p.1, g p.2)) k = (get? l k).map g := by
  induction l with
  | nil => rfl
  | cons hd t ih =>
    obtain ⟨k', v⟩ := hd
    by_cases h : k' = k <;> simp [get?, h, ih]

theorem keys_map_snd (l : List (α × β)) (g : β → γ) : keys (l.map fun p => (p.1, g p.2)) = keys l := by
  simp [keys, Function.comp_def]

/-- values looked up through a changed function: only the entry of `k` changes -/
theorem map_update (l : List (α × β)) (g g' : β → γ) (k : α) (i : β)
    (hnd : (keys l).Nodup) (hinj : ∀ p ∈ l, ∀ q ∈ l, p.2 = q.2 → p.1 = q.1)
    (hk : get? l k = some i) (hg : ∀ j, j ≠ i → g' j = g j) :
    (l.map fun p => (p.1, g' p.2)) = AL.set (l.map fun p => (p.1, g p.2)) k (g' i) := by
  induction l with
  | nil => simp [get?] at hk
  | cons hd t ih =>
    obtain ⟨k', v⟩ := hd
    simp only [keys, List.map_cons, List.nodup_cons] at hnd
    by_cases h : k' = k
    · subst h
      simp [get?] at hk; subst hk
      simp only [List.map_cons, AL.set, if_true]
      congr 1
      apply List.map_congr_left
      intro q hq
      have : q.2 ≠ v := by
        intro heq
        have := hinj q (List.mem_cons_of_mem _ hq) (k', v) List.mem_cons_self heq
        exact hnd.1 (List.mem_map.mpr ⟨q, hq, this⟩)
      rw [hg _ this]
    · simp [get?, h] at hk
      have hv : v ≠ i := by
        intro heq; subst heq
        have := hinj (k, v) (List.mem_cons_of_mem _ (mem_of_get? hk)) (k', v) List.mem_cons_self rfl
        exact h this.symm
      simp only [List.map_cons, AL.set, h, if_false, hg v hv]
      congr 1
      exact ih (by simpa [keys] using hnd.2)
        (fun p hp q hq => hinj p (List.mem_cons_of_mem _ hp) q (List.mem_cons_of_mem _ hq)) hk

theorem del_map_snd (l : List (α × β)) (g g' : β → γ) (k : α)
    (hg : ∀ p ∈ l, p.1 ≠ k → g' p.2 = g p.2) :
    ((del l k).map fun p => (p.1, g' p.2)) = del (l.map fun p => (p.1, g p.2)) k := by
  induction l with
  | nil => rfl
  | cons hd t ih =>
    obtain ⟨k', v⟩ := hd
    have iht := ih (fun p hp => hg p (List.mem_cons_of_mem _ hp))
    simp only [del] at iht ⊢
    by_cases h : k' = k
    · simp [List.filter_cons, h]; simpa using iht
    · have := hg (k', v) List.mem_cons_self h
      simp only [] at this
      simp [List.filter_cons, h, this]; simpa using iht

theorem keys_map_get (l : List (α × β)) (d : β) (hnd : (keys l).Nodup) :
    (keys l).map (fun k => (k, (get? l k).getD d)) = l := by
  induction l with
  | nil => rfl
  | cons hd t ih =>
    obtain ⟨k', v⟩ := hd
    have hnd' : k' ∉ keys t ∧ (keys t).Nodup := by simpa [keys] using hnd
    have iht := ih hnd'.2
    simp only [keys, List.map_cons, List.map_map] at iht ⊢
    simp only [get?, if_true, Option.getD_some]
    congr 1
    conv => rhs; rw [← iht]
    apply List.map_congr_left
    intro q hq
    have : k' ≠ q.1 := by
      intro heq; exact hnd'.1 (heq ▸ List.mem_map.mpr ⟨q, hq, rfl⟩)
    simp [Function.comp, get?, this]

end maps

/-! ### the abstraction -/

/-- weight and metadata stored under an id -/
def wm (s : Store) (id : Nat) : Int × Meta := ((get? s.weights id).getD 0, (get? s.emeta id).getD [])

theorem abs_edges (s : Store) : (abs s).edges = s.edgeList.map (fun p => (p.1, wm s p.2)) := rfl

theorem abs_get (s : Store) (e : Edge) : get? (abs s).edges e = (get? s.edgeList e).map (wm s) := by
  rw [abs_edges]; exact get?_map_snd s.edgeList (wm s) e

theorem abs_keys (s : Store) : keys (abs s).edges = keys s.edgeList := by
  rw [abs_edges]; exact keys_map_snd s.edgeList (wm s)

theorem abs_isSome (s : Store) (e : Edge) : (get? (abs s).edges e).isSome = (get? s.edgeList e).isSome := by
  rw [abs_get]; simp

theorem Inv.node_agree {s : Store} (h : Inv s) (n : Node) : (get? s.nmeta n).isSome = (get? s.adj n).isSome := by
  have a := mem_keys_iff s.nmeta n
  have b := mem_keys_iff s.adj n
  rw [h.nm_keys] at a
  cases h1 : (get? s.nmeta n).isSome <;> cases h2 : (get? s.adj n).isSome <;> simp_all

theorem Inv.el_inj {s : Store} (h : Inv s) : ∀ p ∈ s.edgeList, ∀ q ∈ s.edgeList, p.2 = q.2 → p.1 = q.1 := by
  intro p hp q hq heq
  have a := h.id_of_mem hp
  have b := h.id_of_mem hq
  rw [heq] at a
  exact h.id_inj a b

theorem abs_weightOf (s : Store) (e : Edge) : Spec.weightOf (abs s) e = weightOf s e := by
  simp only [Spec.weightOf, weightOf, abs_get]
  cases get? s.edgeList e <;> simp [wm]

theorem abs_emetaOf (s : Store) (e : Edge) : Spec.emetaOf (abs s) e = emetaOf s e := by
  simp only [Spec.emetaOf, emetaOf, abs_get]
  cases get? s.edgeList e <;> simp [wm]

/-! ### nodes -/

/-- `add_node` bookkeeping on the metadata table alone -/
def touchMeta (nm : List (Node × Meta)) (n : Node) : List (Node × Meta) :=
  if (get? nm n).isSome then nm else AL.set nm n []

theorem touchNode_nmeta_eq (s : Store) (n : Node) (hag : (get? s.nmeta n).isSome = (get? s.adj n).isSome) :
    (touchNode s n).nmeta = touchMeta s.nmeta n := by
  unfold touchNode touchMeta
  rw [hag]
  split <;> rfl

theorem abs_touchNode (s : Store) (n : Node) (h : Inv s) : abs (touchNode s n) = Spec.touchNode (abs s) n := by
  have hag := h.node_agree n
  unfold touchNode Spec.touchNode
  have : (get? (abs s).nodes n).isSome = (get? s.adj n).isSome := hag
  rw [this]
  split <;> rfl

theorem abs_addNode (s : Store) (n : Node) (md : Option Meta) (h : Inv s) :
    abs (addNode s n md) = Spec.addNode (abs s) n md := by
  simp only [addNode, Spec.addNode, ← abs_touchNode s n h]
  generalize touchNode s n = t
  unfold fillNodeMeta
  have : (abs t).nodes = t.nmeta := rfl
  rw [this]
  split <;> rfl

theorem linkNodes_nmeta (s : Store) (id : Nat) (ns : List Node) (hk : keys s.nmeta = keys s.adj) :
    (linkNodes s id ns).nmeta = ns.foldl touchMeta s.nmeta := by
  induction ns generalizing s with
  | nil => rfl
  | cons m ns ih =>
    simp only [linkNodes, List.foldl_cons]
    have hag : (get? s.nmeta m).isSome = (get? s.adj m).isSome := by
      have a := mem_keys_iff s.nmeta m
      have b := mem_keys_iff s.adj m
      rw [hk] at a
      cases h1 : (get? s.nmeta m).isSome <;> cases h2 : (get? s.adj m).isSome <;> simp_all
    have ht := touchNode_keys s m hk
    have hset : (get? (touchNode s m).adj m).isSome := by rw [touchNode_adj]; simp
    rw [ih]
    · simp only [touchNode_nmeta_eq s m hag]
    · simp only [keys_set_of_mem _ _ _ hset]; exact ht.1

theorem spec_touch_fold (ns : List Node) (a : Spec) :
    ns.foldl Spec.touchNode a = { a with nodes := ns.foldl touchMeta a.nodes } := by
  induction ns generalizing a with
  | nil => rfl
  | cons m ns ih =>
    simp only [List.foldl_cons]
    rw [ih]
    unfold Spec.touchNode touchMeta
    split <;> rfl

/-! ### hyperedges -/

/-- an update of the values stored under one id is a map update at its key -/
theorem abs_tables (s s' : Store) (e : Edge) (id : Nat) (h : Inv s) (hid : get? s.edgeList e = some id)
    (h1 : s'.edgeList = s.edgeList) (hw : s'.weighted = s.weighted) (hn : s'.nmeta = s.nmeta)
    (hh : s'.hmeta = s.hmeta) (hg : ∀ j, j ≠ id → wm s' j = wm s j) :
    abs s' = { abs s with edges := AL.set (abs s).edges e (wm s' id) } := by
  have : (abs s').edges = AL.set (abs s).edges e (wm s' id) := by
    rw [abs_edges, abs_edges, h1]
    exact map_update s.edgeList (wm s) (wm s') e id h.el_nodup h.el_inj hid hg
  simp only [abs] at this ⊢
  simp only [this, hw, hn, hh]

theorem abs_addEdgeOld (s : Store) (e : Edge) (id : Nat) (wt : Int) (md : Meta) (h : Inv s)
    (hid : get? s.edgeList e = some id) :
    abs (addEdgeOld s id wt md) =
      { abs s with edges := AL.set (abs s).edges e (if s.weighted then (wm s id).1 + wt else (wm s id).1, md) } := by
  rw [abs_tables s (addEdgeOld s id wt md) e id h hid rfl rfl rfl rfl]
  · congr 2
    cases hwt : s.weighted <;> simp [wm, addEdgeOld, hwt]
  · intro j hj
    cases hwt : s.weighted <;> simp [wm, addEdgeOld, hwt, get?_set_ne _ _ _ _ (Ne.symm hj)]

theorem abs_addEdgeNew (s : Store) (raw : List Nat) (wt : Int) (md : Meta) (h : Inv s)
    (hget : get? s.edgeList (canon raw) = none) :
    abs (addEdgeNew s (canon raw) wt md) =
      (canon raw).foldl Spec.touchNode
        { abs s with edges := AL.set (abs s).edges (canon raw) (if s.weighted then wt else one, md) } := by
  rw [spec_touch_fold]
  unfold addEdgeNew
  simp only []
  obtain ⟨f1, f2, f3, f4, f5, f6, f7⟩ := linkNodes_fields
    ({ s with edgeList := AL.set s.edgeList (canon raw) s.nextId, rev := AL.set s.rev s.nextId (canon raw),
              weights := AL.set s.weights s.nextId (if s.weighted then wt else one),
              emeta := AL.set s.emeta s.nextId md, nextId := s.nextId + 1 } : Store) s.nextId (canon raw)
  have hnm := linkNodes_nmeta
    ({ s with edgeList := AL.set s.edgeList (canon raw) s.nextId, rev := AL.set s.rev s.nextId (canon raw),
              weights := AL.set s.weights s.nextId (if s.weighted then wt else one),
              emeta := AL.set s.emeta s.nextId md, nextId := s.nextId + 1 } : Store) s.nextId (canon raw) h.nm_keys
  have hedges : ∀ (t : Store), t.edgeList = AL.set s.edgeList (canon raw) s.nextId →
      t.weights = AL.set s.weights s.nextId (if s.weighted then wt else one) →
      t.emeta = AL.set s.emeta s.nextId md →
      (abs t).edges = AL.set (abs s).edges (canon raw) (if s.weighted then wt else one, md) := by
    intro t t1 t2 t3
    have hnone : get? (abs s).edges (canon raw) = none := by rw [abs_get, hget]; rfl
    rw [set_of_not_mem _ _ _ hnone, abs_edges, abs_edges, t1, set_of_not_mem _ _ _ hget]
    simp only [List.map_append, List.map_cons, List.map_nil]
    congr 1
    · apply List.map_congr_left
      intro p hp
      have hlt := h.mem_lt hp
      have hne : s.nextId ≠ p.2 := by omega
      simp [wm, t2, t3, get?_set_ne _ _ _ _ hne]
    · simp [wm, t2, t3]
  have he := hedges _ f1 f3 f4
  simp only [abs] at he ⊢
  simp only [he, f6, f7, hnm]

theorem abs_removeEdgeId (s : Store) (e : Edge) (id : Nat) (h : Inv s) (hid : get? s.edgeList e = some id) :
    abs (removeEdgeId s e id) = { abs s with edges := del (abs s).edges e } := by
  have : (abs (removeEdgeId s e id)).edges = del (abs s).edges e := by
    rw [abs_edges, abs_edges]
    simp only [removeEdgeId]
    apply del_map_snd
    intro p hp hne
    have : p.2 ≠ id := by
      intro heq
      have a := h.id_of_mem hp
      rw [heq] at a
      exact hne (h.id_inj a hid)
    simp [wm, removeEdgeId, get?_del, Ne.symm this]
  simp only [abs, removeEdgeId] at this ⊢
  rw [this]

/-! ### the two incident listings are the same list -/

theorem filterMap_rev_ids (s : Store) (h : Inv s) (l : List (Edge × Nat)) (hl : ∀ p ∈ l, p ∈ s.edgeList) :
    (l.map (·.2)).filterMap (get? s.rev) = l.map (·.1) := by
  induction l with
  | nil => rfl
  | cons p t ih =>
    have hp := h.rev_of_edge _ _ (h.id_of_mem (hl p List.mem_cons_self))
    simp only [List.map_cons, List.filterMap_cons, hp]
    rw [ih (fun q hq => hl q (List.mem_cons_of_mem _ hq))]

/-- `[rev[id] for id in adj[n]]` is the key list filtered by `n ∈ key` - as lists, because ids are
allocated increasingly and both tables are append-only -/
theorem Inv.incidentKeys_eq {s : Store} (h : Inv s) (n : Node) (hn : (get? s.adj n).isSome) :
    incidentKeys s n = (keys s.edgeList).filter (fun e => decide (n ∈ e)) := by
  obtain ⟨ids, hids⟩ := Option.isSome_iff_exists.mp hn
  let sel := s.edgeList.filter (fun p => decide (n ∈ p.1))
  have hsel_sub : sel.Sublist s.edgeList := List.filter_sublist
  have hsorted2 : (sel.map (·.2)).Pairwise (· < ·) := List.Pairwise.sublist (hsel_sub.map _) h.el_sorted
  have hsorted1 := h.adj_sorted n ids hids
  have hmem : ∀ id, id ∈ ids ↔ id ∈ sel.map (·.2) := by
    intro id
    rw [h.adj_iff n ids hids id]
    constructor
    · rintro ⟨e, he, hne⟩
      have := mem_of_get? (h.edge_of_rev e id he)
      exact List.mem_map.mpr ⟨(e, id), List.mem_filter.mpr ⟨this, by simpa using hne⟩, rfl⟩
    · intro hm
      obtain ⟨p, hp, rfl⟩ := List.mem_map.mp hm
      obtain ⟨hp1, hp2⟩ := List.mem_filter.mp hp
      exact ⟨p.1, h.rev_of_edge _ _ (h.id_of_mem hp1), by simpa using hp2⟩
  have hnd1 : ids.Nodup := h.adj_ids_nodup hids
  have hnd2 : (sel.map (·.2)).Nodup := List.Pairwise.imp (fun hab => by omega) hsorted2
  have hperm : ids.Perm (sel.map (·.2)) := (List.perm_ext_iff_of_nodup hnd1 hnd2).mpr hmem
  have heq : ids = sel.map (·.2) :=
    List.Perm.eq_of_pairwise (le := (· < ·)) (fun a b _ _ h1 h2 => by omega) hsorted1 hsorted2 hperm
  simp only [incidentKeys, hids, Option.getD_some]
  rw [heq, filterMap_rev_ids s h sel (fun p hp => (List.mem_filter.mp hp).1)]
  simp only [sel, keys, List.filter_map]
  rfl

end C01
