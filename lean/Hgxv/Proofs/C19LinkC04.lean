import Hgxv.Proofs.C04Ref
import Hgxv.Proofs.C19LinkC03
/-! # C19 ↔ C04: `MultiplexHypergraph`

`ofSpec04 : C04.Spec → Content Key Int` (a record key `(sorted nodes, layer)` becomes `(sorted nodes, [layer])`; the layer
registry and the hypergraph metadata are not part of the content the filter reads).  Under `Dyn opsT C04.one CanonT`
(given by `C04.Inv`): `C04.Spec.removeNode` is `C19.removeNode opsT`, `C04.Spec.removeEdge` is `C19.removeEdge`, with
the same verdicts.  Core Lean only. -/
namespace C19
open AL
set_option linter.unusedSectionVars false
set_option linter.unusedSimpArgs false
set_option linter.unusedVariables false

def keyM (k : C04.Key) : Key := (k.1, [k.2])
theorem keyM_inj (a b : C04.Key) (h : keyM a = keyM b) : a = b := by
  obtain ⟨a1, a2⟩ := a
  obtain ⟨b1, b2⟩ := b
  simp only [keyM, Prod.mk.injEq, List.cons.injEq, and_true] at h
  rw [h.1, h.2]

/-- the content of an abstract `MultiplexHypergraph` -/
def ofSpec04 (a : C04.Spec) : Content Key Int :=
  { weighted := a.weighted, nodes := mapKV (fun n => n) mdOf a.nodes, edges := mapKV keyM recOf a.edges }

abbrev Dyn04 (c : Content Key Int) : Prop := Dyn opsT C04.one CanonT c

theorem nodes04_get (a : C04.Spec) (n : Node) : get? (ofSpec04 a).nodes n = (get? a.nodes n).map mdOf :=
  get?_mapKV (fun n => n) mdOf (fun _ _ h => h) a.nodes n

theorem edges04_get (a : C04.Spec) (k : C04.Key) : get? (ofSpec04 a).edges (keyM k) = (get? a.edges k).map recOf :=
  get?_mapKV keyM recOf keyM_inj a.edges k

theorem del04 {α β : Type} [DecidableEq α] (l : List (α × β)) (k : α) (hnd : (keys l).Nodup) :
    C04.del l k = erase l k := al_filter_ne_eq_erase l k hnd

/-- `add_node(node)` without metadata, as called from `add_edge` -/
theorem touch04 (a : C04.Spec) (n : Node) :
    ofSpec04 (C04.Spec.addNode a n none) = { ofSpec04 a with nodes := touchNode (ofSpec04 a).nodes n } := by
  unfold C04.Spec.addNode touchNode
  rw [nodes04_get]
  cases hg : get? a.nodes n with
  | none =>
    simp only [Option.map_none, Option.isSome_none, Bool.false_eq_true, if_false, Option.getD_none]
    simp only [ofSpec04, al_set_of_none _ _ _ hg, mapKV_append]
    rfl
  | some v =>
    cases v with
    | nil =>
      simp only [Option.map_some, Option.isSome_some, if_true, Option.getD_none]
      rw [al_set_same _ _ _ hg]
    | cons x xs => simp

theorem touchFold04 (ns : List Node) (a : C04.Spec) :
    ofSpec04 (C04.Spec.touchNodes a ns) = { ofSpec04 a with nodes := touchNodes (ofSpec04 a).nodes ns } := by
  unfold C04.Spec.touchNodes
  induction ns generalizing a with
  | nil => rfl
  | cons n ns ih =>
    simp only [List.foldl_cons, touchNodes] at ih ⊢
    rw [ih, touch04]

/-- the map update of an accepted insertion -/
theorem addEdgeCore04 (a : C04.Spec) (raw : List Node) (l : C04.Layer) (w : Int) (md : C04.Meta)
    (h : Dyn04 (ofSpec04 a)) :
    ofSpec04 (C04.Spec.addEdgeCore a raw l w md) =
      addEdge opsT (ofSpec04 a) (keyM (C04.canon raw, l)) w (mdOf md) := by
  unfold C04.Spec.addEdgeCore addEdge
  rw [touchFold04, edges04_get]
  cases hg : get? a.edges (C04.canon raw, l) with
  | none =>
    simp only [Option.map_none, addEdgeNew, ofSpec04, C04.Spec.mergeEntry, al_set_of_none _ _ _ hg, mapKV_append]
    rfl
  | some v =>
    obtain ⟨w0, md0⟩ := v
    have hmem : (keyM (C04.canon raw, l), recOf (w0, md0)) ∈ (ofSpec04 a).edges :=
      al_mem_of_get? (by rw [edges04_get, hg]; rfl)
    have hnoop : touchNodes (ofSpec04 a).nodes (C04.canon raw) = (ofSpec04 a).nodes :=
      touchNodes_noop _ _ (fun m hm => h.wf.closed _ hmem m hm)
    simp only [Option.map_some, addEdgeOld, ofSpec04, C04.Spec.mergeEntry]
    have h2 : touchNodes (mapKV (fun n => n) mdOf a.nodes) (C04.canon raw) = mapKV (fun n => n) mdOf a.nodes := hnoop
    rw [h2]
    congr 1
    exact (set_mapKV keyM recOf keyM_inj a.edges (C04.canon raw, l) _).symm

theorem removeEdge04 (a : C04.Spec) (raw : List Node) (l : C04.Layer) (hnd : (keys a.edges).Nodup) :
    ((get? (ofSpec04 a).edges (keyM (C04.canon raw, l))).isSome = true →
      (C04.Spec.removeEdge a raw l).2 = .ok ∧
      ofSpec04 (C04.Spec.removeEdge a raw l).1 = removeEdge (ofSpec04 a) (keyM (C04.canon raw, l))) ∧
    ((get? (ofSpec04 a).edges (keyM (C04.canon raw, l))).isSome = false →
      C04.Spec.removeEdge a raw l = (a, .rej)) := by
  rw [edges04_get, Option.isSome_map]
  unfold C04.Spec.removeEdge
  constructor
  · intro hp
    rw [if_pos hp]
    refine ⟨rfl, ?_⟩
    simp only [removeEdge, ofSpec04, del04 _ _ hnd]
    congr 1
    exact (erase_mapKV keyM recOf keyM_inj a.edges (C04.canon raw, l)).symm
  · intro hp
    rw [if_neg (by simp [hp])]

/-- one iteration of the `keep_edges=True` loop of `remove_node` -/
theorem shrinkKey04 (a : C04.Spec) (n : Node) (k : C04.Key) (h : Dyn04 (ofSpec04 a)) :
    ofSpec04 (C04.Spec.shrinkKey a n k) = shrinkOneK opsT n (ofSpec04 a) (keyM k) := by
  unfold C04.Spec.shrinkKey shrinkOneK
  rw [edges04_get]
  have hndE : (keys a.edges).Nodup := keys_nodup_of_mapKV keyM recOf a.edges h.wf.keysNodup
  cases hg : get? a.edges k with
  | none => rfl
  | some v =>
    obtain ⟨w0, md0⟩ := v
    have hc : get? (ofSpec04 a).edges (keyM k) = some (recOf (w0, md0)) := by rw [edges04_get, hg]; rfl
    have hmem : (keyM k, recOf (w0, md0)) ∈ (ofSpec04 a).edges := al_mem_of_get? hc
    have hrm : ofSpec04 (C04.Spec.dropKey a k) = removeEdge (ofSpec04 a) (keyM k) := by
      simp only [C04.Spec.dropKey, removeEdge, ofSpec04, del04 _ _ hndE]
      congr 1
      exact (erase_mapKV keyM recOf keyM_inj a.edges k).symm
    simp only [Option.map_some]
    unfold shrinkOne
    simp only [opsT, keyM]
    have hwo : k.1.filter (· ≠ n) = without k.1 n := rfl
    rw [hwo]
    by_cases hemp : without k.1 n = []
    · simp only [hemp, List.isEmpty_nil, if_true]
      exact hrm
    · have hne : (without k.1 n).isEmpty = false := by
        cases hx : without k.1 n with
        | nil => exact absurd hx hemp
        | cons _ _ => rfl
      simp only [hemp, hne, Bool.false_eq_true, if_false]
      have hd1 : Dyn04 (ofSpec04 (C04.Spec.dropKey a k)) := by
        rw [hrm]; exact removeEdge_dyn opsT C04.one CanonT _ _ h
      have hw : a.weighted = false → w0 = C04.one := fun hwt => h.unitw hwt _ hmem
      have hsorted : SortedL (without k.1 n) := sortedL_without (h.canon _ hmem).1 n
      have hcan : C04.canon (without k.1 n) = without k.1 n := C04.canon_of_sorted _ hsorted
      have hcond : (!(C04.Spec.dropKey a k).weighted && (w0 != C04.one)) = false := by
        show (!a.weighted && (w0 != C04.one)) = false
        cases hwt : a.weighted with
        | true => rfl
        | false => simp [hw hwt]
      unfold C04.Spec.addEdge
      simp only [hcond, Bool.false_eq_true, if_false, Option.getD_some]
      rw [addEdgeCore04 _ _ _ _ _ hd1, hrm, hcan]
      rfl

theorem incident04 (a : C04.Spec) (n : Node) :
    (incident opsT (ofSpec04 a) n).map (·.1) =
      ((keys a.edges).filter (fun k => decide (n ∈ k.1))).map keyM := by
  have h2 : (ofSpec04 a).edges.filter
      (fun e => !(opsT.first e.1).contains n && (opsT.nodesOf e.1).contains n) = [] := by
    apply List.filter_eq_nil_iff.mpr
    intro e _
    simp [opsT]
  unfold incident
  rw [h2, List.append_nil]
  simp only [ofSpec04, mapKV, keys, List.filter_map, List.map_map]
  congr 1
  apply List.filter_congr
  intro p _
  simp [opsT, keyM, Function.comp_def]

theorem mapKV_filter {α α' β β' : Type} (kf : α → α') (vf : β → β') (l : List (α × β)) (p : α × β → Bool)
    (q : α' × β' → Bool) (h : ∀ x ∈ l, p x = q (kf x.1, vf x.2)) :
    mapKV kf vf (l.filter p) = (mapKV kf vf l).filter q := by
  induction l with
  | nil => rfl
  | cons x t ih =>
    have hx := h x List.mem_cons_self
    have ih' := ih (fun y hy => h y (List.mem_cons_of_mem _ hy))
    simp only [mapKV, List.map_cons, List.filter_cons] at ih' ⊢
    rw [← hx]
    split
    · simp [ih']
    · exact ih'

/-- `remove_node(node, keep_edges)` of the abstract `MultiplexHypergraph` is C19's `removeNode opsT` -/
theorem removeNode04 (a : C04.Spec) (h : Dyn04 (ofSpec04 a)) (n : Node) (keep : Bool) :
    ((get? a.nodes n).isSome = true →
      (C04.Spec.removeNode a n keep).2 = .ok ∧
      ofSpec04 (C04.Spec.removeNode a n keep).1 = removeNode opsT keep (ofSpec04 a) n) ∧
    ((get? a.nodes n).isSome = false → C04.Spec.removeNode a n keep = (a, .rej)) := by
  refine ⟨fun hn => ?_, fun hn => by unfold C04.Spec.removeNode; simp [hn]⟩
  unfold C04.Spec.removeNode
  simp only [hn, if_true]
  refine ⟨trivial, ?_⟩
  cases keep with
  | false =>
    simp only [Bool.false_eq_true, if_false]
    rw [removeNode_drop opsT (ofSpec04 a) n h.wf.nodesNodup h.wf.keysNodup]
    simp only [C04.Spec.dropNode, ofSpec04, C04.del]
    congr 1
    · apply mapKV_filter
      intro x _
      simp
    · apply mapKV_filter
      intro x _
      simp [opsT, keyM]
  | true =>
    simp only [if_true]
    have hkeys := incident04 a n
    have hrec := incident_rec opsT (ofSpec04 a) n h.wf.keysNodup
    have hinc_n : ∀ e ∈ incident opsT (ofSpec04 a) n, n ∈ opsT.nodesOf e.1 :=
      fun e he => ((mem_incident opsT _ n e).mp he).2
    have hdist := incident_keys_nodup opsT (ofSpec04 a) n h.wf.keysNodup
    obtain ⟨f1, f2⟩ := foldl_sim ofSpec04 (fun a k => C04.Spec.shrinkKey a n k)
      (fun c k => shrinkOneK opsT n c (keyM k)) Dyn04
      (fun a' k hi => shrinkKey04 a' n k hi)
      (fun c k hi => shrinkOneK_dyn opsT lawful_T C04.one CanonT canonShrink_T n c (keyM k) hi)
      ((keys a.edges).filter (fun k => decide (n ∈ k.1))) a h
    have hnodes : ∀ (sp1 : C04.Spec), (keys sp1.nodes).Nodup →
        ofSpec04 (C04.Spec.dropNode sp1 n) = dropNode (ofSpec04 sp1) n := by
      intro sp1 hnd
      simp only [C04.Spec.dropNode, ofSpec04, dropNode, del04 _ _ hnd]
      congr 1
      exact (erase_mapKV (fun n => n) mdOf (fun _ _ h => h) sp1.nodes n).symm
    rw [hnodes _ (keys_nodup_of_mapKV (fun n => n) mdOf _ f2.wf.nodesNodup), f1]
    unfold removeNode keepLoop
    simp only [if_true, show opsT.batch = false from rfl, Bool.false_eq_true, if_false]
    rw [← List.foldl_map (f := keyM) (g := shrinkOneK opsT n), ← hkeys]
    rw [foldl_shrinkOneK opsT lawful_T n _ _ hinc_n h.wf.keysNodup hdist hrec]

/-! ### the concrete store -/

theorem dyn04_of_inv (s : C04.Store) (h : C04.Inv s) : Dyn04 (ofSpec04 (C04.abs s)) := by
  have hmem : ∀ e ∈ (ofSpec04 (C04.abs s)).edges, ∃ k id, get? s.edgeList k = some id ∧
      e = (keyM k, recOf (C04.entryOf s id)) := by
    intro e he
    simp only [ofSpec04, mapKV, C04.abs, List.map_map, List.mem_map] at he
    obtain ⟨p, hp, rfl⟩ := he
    exact ⟨p.1, p.2, al_get?_of_mem h.id.el_nodup hp, rfl⟩
  refine ⟨⟨?_, ?_, ?_⟩, ?_, ?_⟩
  · apply keys_mapKV_nodup (fun n => n) mdOf (fun _ _ e => e)
    exact h.nm.nm_nodup
  · apply keys_mapKV_nodup keyM recOf keyM_inj
    have : keys (C04.abs s).edges = keys s.edgeList := by
      simp [C04.abs, keys, List.map_map, Function.comp_def]
    rw [this]; exact h.id.el_nodup
  · intro e he m hm
    obtain ⟨k, id, hid, rfl⟩ := hmem e he
    have h1 := h.adj.nodes_in id k (h.id.rev_of_edge _ _ hid) m hm
    rw [h.nm.adj_nm] at h1
    simp only [ofSpec04, keys_mapKV, List.map_id']
    exact (al_isSome_iff_mem _ _).mp h1
  · intro hw e he
    obtain ⟨k, id, hid, rfl⟩ := hmem e he
    have hw1 : (get? s.weights id).isSome := by rw [h.id.w_some]; simp [h.id.rev_of_edge _ _ hid]
    obtain ⟨w0, hw0⟩ := Option.isSome_iff_exists.mp hw1
    simp only [recOf, C04.entryOf, hw0, Option.getD_some]
    exact h.id.unw hw id w0 hw0
  · intro e he
    obtain ⟨k, id, hid, rfl⟩ := hmem e he
    exact ⟨(h.id.key_sorted id k (h.id.rev_of_edge _ _ hid)).le, k.2, rfl⟩

/-- `get_nodes(metadata=True)` / `get_edges(metadata=True)` of a `MultiplexHypergraph` object -/
def view04 (s : C04.Store) : Content Key Int := ofSpec04 (C04.abs s)

def rmNode04 (keep : Bool) (s : C04.Store) (n : Node) : C04.Store × Bool :=
  ((C04.step s (.removeNode n keep)).1, decide ((C04.step s (.removeNode n keep)).2 = .ok))

/-- `remove_edge(nodes, layer)` for a key `(nodes, [layer])` as `get_edges` lists it -/
def rmEdge04 (s : C04.Store) (k : Key) : C04.Store × Bool :=
  match k.2 with
  | [l] => ((C04.step s (.removeEdge k.1 l)).1, decide ((C04.step s (.removeEdge k.1 l)).2 = .ok))
  | _ => (s, false)

theorem rmNode04_link (keep : Bool) (s : C04.Store) (n : Node) (h : C04.Inv s) :
    ((rmNode04 keep s n).2 = true ↔ (removeNode? opsT keep (view04 s) n).isSome) ∧
    ((rmNode04 keep s n).2 = true → C04.Inv (rmNode04 keep s n).1 ∧
      view04 (rmNode04 keep s n).1 = removeNode opsT keep (view04 s) n) := by
  obtain ⟨s1, s2⟩ := C04.abs_step s (.removeNode n keep) h trivial
  have s3 := C04.step_inv s (.removeNode n keep) h trivial
  obtain ⟨l1, l2⟩ := removeNode04 (C04.abs s) (dyn04_of_inv s h) n keep
  have hpres : (get? (view04 s).nodes n).isSome = (get? (C04.abs s).nodes n).isSome := by
    simp only [view04, nodes04_get, Option.isSome_map]
  simp only [rmNode04, view04, removeNode?, decide_eq_true_eq]
  rw [s1, s2]
  simp only [C04.Spec.step]
  by_cases hn : (get? (C04.abs s).nodes n).isSome = true
  · have hn' : (get? (ofSpec04 (C04.abs s)).nodes n).isSome = true := by rw [← hn]; exact hpres
    obtain ⟨a1, a2⟩ := l1 hn
    simp only [hn', if_true, Option.isSome_some, a1, true_iff, forall_const]
    exact ⟨trivial, s3, a2⟩
  · have hnf : (get? (C04.abs s).nodes n).isSome = false := by simpa using hn
    have hn' : (get? (ofSpec04 (C04.abs s)).nodes n).isSome = false := by rw [← hnf]; exact hpres
    rw [l2 hnf]
    simp [hn']

theorem rmEdge04_link (s : C04.Store) (k : Key) (h : C04.Inv s) (hk : CanonT k) :
    ((rmEdge04 s k).2 = true ↔ (removeEdge? (view04 s) k).isSome) ∧
    ((rmEdge04 s k).2 = true → C04.Inv (rmEdge04 s k).1 ∧ view04 (rmEdge04 s k).1 = removeEdge (view04 s) k) := by
  obtain ⟨k1, k2⟩ := k
  obtain ⟨hsorted, t, ht⟩ := hk
  simp only at hsorted ht
  subst ht
  obtain ⟨s1, s2⟩ := C04.abs_step s (.removeEdge k1 t) h trivial
  have s3 := C04.step_inv s (.removeEdge k1 t) h trivial
  have hd := dyn04_of_inv s h
  obtain ⟨l1, l2⟩ := removeEdge04 (C04.abs s) k1 t (keys_nodup_of_mapKV keyM recOf _ hd.wf.keysNodup)
  have hkk : keyM (C04.canon k1, t) = (k1, [t]) := by rw [C04.canon_of_sorted _ hsorted]; rfl
  rw [hkk] at l1 l2
  simp only [rmEdge04, view04, removeEdge?, decide_eq_true_eq]
  rw [s1, s2]
  simp only [C04.Spec.step]
  by_cases hp : (get? (ofSpec04 (C04.abs s)).edges (k1, [t])).isSome = true
  · obtain ⟨a1, a2⟩ := l1 hp
    simp only [hp, if_true, Option.isSome_some, a1, true_iff, forall_const]
    exact ⟨trivial, s3, a2⟩
  · have hp' : (get? (ofSpec04 (C04.abs s)).edges (k1, [t])).isSome = false := by simpa using hp
    rw [l2 hp']
    simp [hp']

/-- **`filter_hypergraph` on a `MultiplexHypergraph` object** (same statement as `filter01`). -/
theorem filter04 (s : C04.Store) (h : C04.Inv s) (nc ec : Option Crit) (mode : Mode) (keep : Bool) :
    let r := filterVia view04 (rmNode04 keep) rmEdge04 s nc ec mode
    r.2 = true ∧ C04.Inv r.1 ∧ view04 r.1 = filterHg opsT (view04 s) nc ec mode keep :=
  filterVia_eq opsT lawful_T keep view04 (rmNode04 keep) rmEdge04 C04.Inv CanonT
    (fun s hs => (dyn04_of_inv s hs).wf) (fun s hs => (dyn04_of_inv s hs).canon)
    (fun s n hs => rmNode04_link keep s n hs) (fun s k hs hk => rmEdge04_link s k hs hk) s h nc ec mode

end C19
