import Hgxv.Model.C19
import Batteries.Data.List.Perm
/-! Helper lemmas for C19 part B (statistically validated hypergraph). -/
namespace C19
set_option linter.unusedSectionVars false
set_option linter.unusedSimpArgs false

section dedup
variable {α : Type} [DecidableEq α]

theorem dedup_fold_spec (l acc : List α) (hacc : acc.Nodup) :
    (l.foldl (fun acc a => if a ∈ acc then acc else acc ++ [a]) acc).Nodup ∧
    ∀ x, x ∈ l.foldl (fun acc a => if a ∈ acc then acc else acc ++ [a]) acc ↔ x ∈ acc ∨ x ∈ l := by
  induction l generalizing acc with
  | nil => simp [hacc]
  | cons a l ih =>
    simp only [List.foldl_cons]
    by_cases h : a ∈ acc
    · simp only [h, if_true]
      refine ⟨(ih acc hacc).1, fun x => ?_⟩
      rw [(ih acc hacc).2 x]
      simp only [List.mem_cons]
      constructor
      · rintro (h1 | h1); exact Or.inl h1; exact Or.inr (Or.inr h1)
      · rintro (h1 | rfl | h1); exact Or.inl h1; exact Or.inl h; exact Or.inr h1
    · simp only [h, if_false]
      have hn : (acc ++ [a]).Nodup := by
        rw [List.nodup_append]
        refine ⟨hacc, by simp, ?_⟩
        intro x hx y hy
        simp only [List.mem_singleton] at hy
        subst hy; intro hxy; subst hxy; exact h hx
      refine ⟨(ih _ hn).1, fun x => ?_⟩
      rw [(ih _ hn).2 x]
      simp only [List.mem_append, List.mem_cons, List.not_mem_nil, or_false]
      constructor
      · rintro ((h1 | h1) | h1); exact Or.inl h1; exact Or.inr (Or.inl h1); exact Or.inr (Or.inr h1)
      · rintro (h1 | h1 | h1); exact Or.inl (Or.inl h1); exact Or.inl (Or.inr h1); exact Or.inr h1

theorem dedup_nodup (l : List α) : (dedup l).Nodup := (dedup_fold_spec l [] List.nodup_nil).1

theorem mem_dedup (l : List α) (x : α) : x ∈ dedup l ↔ x ∈ l := by
  unfold dedup
  rw [(dedup_fold_spec l [] List.nodup_nil).2 x]; simp

end dedup

theorem mem_expand (edges : List (List Nat × Nat)) (b : List Nat) :
    b ∈ expand edges ↔ ∃ w, (b, w) ∈ edges ∧ 0 < w := by
  simp only [expand, List.mem_flatMap, List.mem_replicate]
  constructor
  · rintro ⟨⟨e, w⟩, he, hw, rfl⟩; exact ⟨w, he, Nat.pos_of_ne_zero hw⟩
  · rintro ⟨w, he, hw⟩; exact ⟨(b, w), he, Nat.pos_iff_ne_zero.mp hw, rfl⟩

/-- counting occurrences = summing weights -/
theorem length_filter_expand (edges : List (List Nat × Nat)) (P : List Nat → Bool) :
    ((expand edges).filter P).length = ((edges.filter (fun e => P e.1)).map (·.2)).sum := by
  induction edges with
  | nil => simp [expand]
  | cons e es ih =>
    have hexp : expand (e :: es) = List.replicate e.2 e.1 ++ expand es := by simp [expand]
    rw [hexp, List.filter_append, List.length_append, ih]
    by_cases h : P e.1
    · simp [List.filter_replicate, h, List.filter_cons]
    · simp [List.filter_replicate, h, List.filter_cons]

theorem sum_weights_unique (edges : List (List Nat × Nat)) (hnd : (edges.map (·.1)).Nodup) (Q : List Nat → Bool)
    (e : List Nat) (w : Nat) (he : (e, w) ∈ edges) (hQ : ∀ f ∈ edges, Q f.1 = true ↔ f.1 = e) :
    ((edges.filter (fun f => Q f.1)).map (·.2)).sum = w := by
  induction edges with
  | nil => simp at he
  | cons f fs ih =>
    simp only [List.map_cons, List.nodup_cons] at hnd
    rcases List.mem_cons.mp he with rfl | he'
    · have h1 : Q e = true := (hQ (e, w) List.mem_cons_self).mpr rfl
      have h2 : fs.filter (fun f => Q f.1) = [] := by
        rw [List.filter_eq_nil_iff]
        intro g hg hQg
        have := (hQ g (List.mem_cons_of_mem _ hg)).mp hQg
        exact hnd.1 (List.mem_map.mpr ⟨g, hg, this⟩)
      simp [List.filter_cons, h1, h2]
    · have hf : ¬ Q f.1 = true := by
        intro hq
        have := (hQ f List.mem_cons_self).mp hq
        exact hnd.1 (List.mem_map.mpr ⟨(e, w), he', this.symm⟩)
      simp only [List.filter_cons, hf, if_false]
      exact ih hnd.2 he' (fun g hg => hQ g (List.mem_cons_of_mem _ hg))

/-- two strictly increasing tuples of the same length, one containing the other, are equal -/
theorem sorted_eq_of_subset {e f : List Nat} (he : e.Pairwise (· < ·)) (hf : f.Pairwise (· < ·))
    (hlen : f.length = e.length) (hsub : ∀ i ∈ e, i ∈ f) : f = e := by
  have hne : e.Nodup := he.imp (fun h => Nat.ne_of_lt h)
  have hp : e.Perm f := (List.subperm_of_subset hne hsub).perm_of_length_le (by omega)
  have := List.Perm.eq_of_pairwise (le := (· < ·)) (l₁ := e) (l₂ := f)
    (fun a b _ _ h1 h2 => absurd h1 (Nat.lt_asymm h2)) he hf hp
  exact this.symm

/-! ### parameters of the null model -/

theorem subOcc_length (edges : List (List Nat × Nat)) (n : Nat) :
    (subOcc (expand edges) n).length = ((edges.filter (fun f => decide (f.1.length = n))).map (·.2)).sum := by
  unfold subOcc
  rw [length_filter_expand]

theorem degK_eq (edges : List (List Nat × Nat)) (n i : Nat) :
    degK (subOcc (expand edges) n) i =
      ((edges.filter (fun f => f.1.contains i && decide (f.1.length = n))).map (·.2)).sum := by
  unfold degK subOcc
  rw [List.filter_filter, length_filter_expand]

theorem n12_eq_weight (edges : List (List Nat × Nat)) (hnd : (edges.map (·.1)).Nodup)
    (hsorted : ∀ f ∈ edges, f.1.Pairwise (· < ·)) (e : List Nat) (w : Nat) (he : (e, w) ∈ edges) :
    n12 (subOcc (expand edges) e.length) e = w := by
  unfold n12 subOcc
  rw [List.filter_filter, length_filter_expand]
  apply sum_weights_unique edges hnd
    (fun f => (e.all fun i => f.contains i) && decide (f.length = e.length)) e w he
  intro f hf
  simp only [Bool.and_eq_true, List.all_eq_true, List.contains_iff_mem, decide_eq_true_eq]
  constructor
  · rintro ⟨hsub, hlen⟩
    exact sorted_eq_of_subset (hsorted _ he) (hsorted f hf) hlen hsub
  · intro h; rw [h]; exact ⟨fun i hi => hi, rfl⟩

/-! ### every hyperedge once, under its size -/

theorem sizesOf_nodup (occ : List (List Nat)) (b : Nat) : (sizesOf occ b).Nodup := by
  unfold sizesOf
  exact (List.mergeSort_perm _ _).nodup_iff.mpr (dedup_nodup _)

theorem mem_sizesOf (occ : List (List Nat)) (b n : Nat) :
    n ∈ sizesOf occ b ↔ (2 ≤ n ∧ n ≤ b) ∧ ∃ o ∈ occ, o.length = n := by
  unfold sizesOf
  rw [(List.mergeSort_perm _ _).mem_iff, mem_dedup]
  simp only [List.mem_filter, List.mem_map, decide_eq_true_eq]
  constructor
  · rintro ⟨⟨o, ho, rfl⟩, h⟩; exact ⟨h, o, ho, rfl⟩
  · rintro ⟨h, o, ho, rfl⟩; exact ⟨⟨o, ho, rfl⟩, h⟩

theorem tuplesOf_nodup (occ : List (List Nat)) (n : Nat) : (tuplesOf occ n).Nodup := dedup_nodup _

theorem mem_tuplesOf (occ : List (List Nat)) (n : Nat) (e : List Nat) :
    e ∈ tuplesOf occ n ↔ e ∈ occ ∧ e.length = n := by
  unfold tuplesOf subOcc
  rw [mem_dedup]; simp

/-! ### the step-up threshold -/

theorem stepUp_spec (bonf : Rat) (l : List Rat) (i : Nat) (best : Rat) :
    ((∀ j (h : j < l.length), ¬ l[j] < ((i + j : Nat) : Rat) * bonf) → stepUp bonf l i best = best) ∧
    (∀ j (h : j < l.length), l[j] < ((i + j : Nat) : Rat) * bonf →
      (∀ j' (h' : j' < l.length), j < j' → ¬ l[j'] < ((i + j' : Nat) : Rat) * bonf) →
      stepUp bonf l i best = ((i + j : Nat) : Rat) * bonf) := by
  induction l generalizing i best with
  | nil =>
    refine ⟨fun _ => rfl, fun j h => ?_⟩
    simp at h
  | cons p ps ih =>
    have shift : ∀ j, i + 1 + j = i + (j + 1) := fun j => by omega
    constructor
    · intro hno
      have h0 : ¬ p < ((i : Nat) : Rat) * bonf := by
        have := hno 0 (by simp); simpa using this
      simp only [stepUp, h0, if_false]
      apply (ih (i + 1) best).1
      intro j hj
      have := hno (j + 1) (by simp; omega)
      simpa [shift] using this
    · intro j hj hhit hlast
      cases j with
      | zero =>
        have h0 : p < ((i : Nat) : Rat) * bonf := by simpa using hhit
        simp only [stepUp, h0, if_true]
        have := (ih (i + 1) (((i : Nat) : Rat) * bonf)).1 (by
          intro j hj'
          have := hlast (j + 1) (by simp; omega) (by omega)
          simpa [shift] using this)
        simpa using this
      | succ j0 =>
        simp only [stepUp]
        have := (ih (i + 1) (if p < ((i : Nat) : Rat) * bonf then ((i : Nat) : Rat) * bonf else best)).2 j0
          (by simp at hj; omega) (by simpa [shift] using hhit) (by
            intro j' hj' hlt
            have := hlast (j' + 1) (by simp; omega) (by omega)
            simpa [shift] using this)
        simpa [shift] using this

end C19
