import Hgxv.Proofs.C07WF
/-! # C07 helper lemmas: the table-level operations preserve `WF` (core Lean only) -/
namespace C07
open AL

/-! ## node tables -/

theorem nodeWF_set_both {adj : List (Nat × List Nat)} {nm : List (Nat × JTree)} (h : NodeWF adj nm)
    (n : Nat) (x : List Nat) (y : JTree) : NodeWF (set adj n x) (set nm n y) where
  adjNodup := keys_set_nodup h.adjNodup n x
  nmNodup := keys_set_nodup h.nmNodup n y
  same m := by rw [mem_keys_set, mem_keys_set, h.same m]

theorem nodeWF_set_adj {adj : List (Nat × List Nat)} {nm : List (Nat × JTree)} (h : NodeWF adj nm)
    {n : Nat} (hn : n ∈ keys adj) (x : List Nat) : NodeWF (set adj n x) nm := by
  have : keys (set adj n x) = keys adj := keys_set_of_mem adj n x (isSome_get?_iff.mpr hn)
  exact ⟨this ▸ h.adjNodup, h.nmNodup, fun m => by rw [this]; exact h.same m⟩

theorem nodeWF_set_nm {adj : List (Nat × List Nat)} {nm : List (Nat × JTree)} (h : NodeWF adj nm)
    {n : Nat} (hn : n ∈ keys nm) (y : JTree) : NodeWF adj (set nm n y) := by
  have : keys (set nm n y) = keys nm := keys_set_of_mem nm n y (isSome_get?_iff.mpr hn)
  exact ⟨h.adjNodup, this ▸ h.nmNodup, fun m => by rw [this]; exact h.same m⟩

theorem nodeWF_erase_both {adj : List (Nat × List Nat)} {nm : List (Nat × JTree)} (h : NodeWF adj nm)
    (n : Nat) : NodeWF (erase adj n) (erase nm n) where
  adjNodup := keys_erase_nodup h.adjNodup n
  nmNodup := keys_erase_nodup h.nmNodup n
  same m := by rw [mem_keys_erase h.adjNodup, mem_keys_erase h.nmNodup, h.same m]

variable {κ : Type} [Kind κ]

/-- `t'` differs from `t` only in the node tables (`adj`, `adjT`, `nodeMeta`), and these stay well-formed -/
structure NodeOnly (t t' : Tables κ) : Prop where
  el : t'.edgeList = t.edgeList
  ws : t'.weights = t.weights
  em : t'.edgeMeta = t.edgeMeta
  nid : t'.nextId = t.nextId
  node : NodeWF t.adj t.nodeMeta → NodeWF t'.adj t'.nodeMeta

theorem NodeOnly.refl (t : Tables κ) : NodeOnly t t := ⟨rfl, rfl, rfl, rfl, id⟩

theorem NodeOnly.trans {a b c : Tables κ} (h : NodeOnly a b) (g : NodeOnly b c) : NodeOnly a c :=
  ⟨g.el.trans h.el, g.ws.trans h.ws, g.em.trans h.em, g.nid.trans h.nid, fun w => g.node (h.node w)⟩

theorem NodeOnly.foldl {α : Type} (f : Tables κ → α → Tables κ) (hf : ∀ s x, NodeOnly s (f s x))
    (l : List α) (t : Tables κ) : NodeOnly t (l.foldl f t) := by
  induction l generalizing t with
  | nil => exact NodeOnly.refl t
  | cons a r ih => exact (hf t a).trans (ih (f t a))

theorem NodeOnly.wf {t t' : Tables κ} (h : NodeOnly t t') (w : WF t) : WF t' := by
  refine ⟨h.node w.node, ?_⟩
  rw [h.el, h.ws, h.em, h.nid]; exact w.edge

theorem nodeKnown_iff {t : Tables κ} (w : NodeWF t.adj t.nodeMeta) (n : Nat) :
    nodeKnown t n = true ↔ n ∈ keys t.adj := by
  unfold nodeKnown
  split
  · rw [has_iff, w.same n]
  · rw [has_iff]

theorem touchNode_nodeOnly (t : Tables κ) (n : Nat) : NodeOnly t (touchNode t n) := by
  unfold touchNode
  split
  · exact NodeOnly.refl t
  · exact ⟨rfl, rfl, rfl, rfl, fun w => nodeWF_set_both w n [] emptyObj⟩

theorem touchNode_mem {t : Tables κ} (w : NodeWF t.adj t.nodeMeta) (n : Nat) : n ∈ keys (touchNode t n).adj := by
  unfold touchNode
  split
  · rename_i h; exact (nodeKnown_iff w n).mp h
  · exact mem_keys_set.mpr (Or.inl rfl)

theorem fillNodeMeta_nodeOnly (t : Tables κ) (n : Nat) (md : JTree) : NodeOnly t (fillNodeMeta t n md) := by
  unfold fillNodeMeta
  split
  · rename_i cur hcur
    split
    · exact ⟨rfl, rfl, rfl, rfl, fun w => nodeWF_set_nm w (mem_keys_of_get? hcur) md⟩
    · exact NodeOnly.refl t
  · exact NodeOnly.refl t

theorem fillNodeMeta_adj (t : Tables κ) (n : Nat) (md : JTree) : (fillNodeMeta t n md).adj = t.adj := by
  unfold fillNodeMeta
  split
  · split <;> rfl
  · rfl

theorem addNode_nodeOnly (t : Tables κ) (n : Nat) (md : Option JTree) : NodeOnly t (addNode t n md) :=
  (touchNode_nodeOnly t n).trans (fillNodeMeta_nodeOnly _ n _)

theorem addNode_mem {t : Tables κ} (w : NodeWF t.adj t.nodeMeta) (n : Nat) (md : Option JTree) :
    n ∈ keys (addNode t n md).adj := by
  unfold addNode
  rw [fillNodeMeta_adj]
  exact touchNode_mem w n

theorem linkNode_nodeOnly (id : Nat) (t : Tables κ) (n : Nat) : NodeOnly t (linkNode id t n) := by
  have h := addNode_nodeOnly t n none
  refine ⟨h.el, h.ws, h.em, h.nid, fun w => ?_⟩
  exact nodeWF_set_adj (h.node w) (addNode_mem w n none) _

theorem linkTarget_nodeOnly (id : Nat) (t : Tables κ) (n : Nat) : NodeOnly t (linkTarget id t n) := by
  have h := addNode_nodeOnly t n none
  exact ⟨h.el, h.ws, h.em, h.nid, fun w => h.node w⟩

theorem unlinkNode_nodeOnly (id : Nat) (t : Tables κ) (n : Nat) : NodeOnly t (unlinkNode id t n) := by
  unfold unlinkNode
  split
  · rename_i ids hids
    exact ⟨rfl, rfl, rfl, rfl, fun w => nodeWF_set_adj w (mem_keys_of_get? hids) _⟩
  · exact NodeOnly.refl t

theorem unlinkTarget_nodeOnly (id : Nat) (t : Tables κ) (n : Nat) : NodeOnly t (unlinkTarget id t n) := by
  unfold unlinkTarget
  split
  · exact ⟨rfl, rfl, rfl, rfl, fun w => w⟩
  · exact NodeOnly.refl t

/-! ## hyperedge tables -/

theorem edgeWF_new {el : List (κ × Nat)} {ws : List (Nat × Num)} {em : List (Nat × JTree)} {nid : Nat}
    (h : EdgeWF el ws em nid) {k : κ} (hk : get? el k = none) (hc : Kind.canonK k = k) (w : Num) (md : JTree) :
    EdgeWF (set el k nid) (set ws nid w) (set em nid md) (nid + 1) where
  elNodup := keys_set_nodup h.elNodup k nid
  hasW k' id hg := by
    rw [get?_set] at hg
    rw [get?_set]
    split at hg
    · cases hg; simp
    · have := h.idsLt k' id hg
      have hne : ¬ nid = id := by omega
      simp only [hne, if_false]; exact h.hasW k' id hg
  hasM k' id hg := by
    rw [get?_set] at hg
    rw [get?_set]
    split at hg
    · cases hg; simp
    · have := h.idsLt k' id hg
      have hne : ¬ nid = id := by omega
      simp only [hne, if_false]; exact h.hasM k' id hg
  canonKeys k' hk' := by
    rcases mem_keys_set.mp hk' with rfl | h'
    · exact hc
    · exact h.canonKeys k' h'
  idsLt k' id hg := by
    rw [get?_set] at hg
    split at hg
    · cases hg; omega
    · have := h.idsLt k' id hg; omega
  idsInj k₁ k₂ id h1 h2 := by
    rw [get?_set] at h1 h2
    split at h1 <;> split at h2
    · rename_i e1 e2; exact e1.symm.trans e2
    · cases h1; have := h.idsLt k₂ _ h2; omega
    · cases h2; have := h.idsLt k₁ _ h1; omega
    · exact h.idsInj k₁ k₂ id h1 h2

theorem edgeWF_setW {el : List (κ × Nat)} {ws : List (Nat × Num)} {em : List (Nat × JTree)} {nid : Nat}
    (h : EdgeWF el ws em nid) (id : Nat) (w : Num) : EdgeWF el (set ws id w) em nid := by
  refine ⟨h.elNodup, ?_, h.hasM, h.canonKeys, h.idsLt, h.idsInj⟩
  intro k id' hg
  rw [get?_set]; split
  · rfl
  · exact h.hasW k id' hg

theorem edgeWF_setM {el : List (κ × Nat)} {ws : List (Nat × Num)} {em : List (Nat × JTree)} {nid : Nat}
    (h : EdgeWF el ws em nid) (id : Nat) (md : JTree) : EdgeWF el ws (set em id md) nid := by
  refine ⟨h.elNodup, h.hasW, ?_, h.canonKeys, h.idsLt, h.idsInj⟩
  intro k id' hg
  rw [get?_set]; split
  · rfl
  · exact h.hasM k id' hg

theorem edgeWF_erase {el : List (κ × Nat)} {ws : List (Nat × Num)} {em : List (Nat × JTree)} {nid : Nat}
    (h : EdgeWF el ws em nid) {k : κ} {id : Nat} (hg : get? el k = some id) :
    EdgeWF (erase el k) (erase ws id) (erase em id) nid := by
  have key : ∀ k' id', get? (erase el k) k' = some id' → k ≠ k' ∧ get? el k' = some id' ∧ id ≠ id' := by
    intro k' id' hg'
    rw [get?_erase h.elNodup] at hg'
    split at hg'
    · cases hg'
    · rename_i hne
      refine ⟨hne, hg', fun e => ?_⟩
      subst e
      exact hne (h.idsInj k k' id hg hg')
  exact {
    elNodup := keys_erase_nodup h.elNodup k
    hasW := fun k' id' hg' => by
      obtain ⟨_, h2, h3⟩ := key k' id' hg'
      rw [get?_erase_ne ws id id' h3]; exact h.hasW k' id' h2
    hasM := fun k' id' hg' => by
      obtain ⟨_, h2, h3⟩ := key k' id' hg'
      rw [get?_erase_ne em id id' h3]; exact h.hasM k' id' h2
    canonKeys := fun k' hk' => h.canonKeys k' ((mem_keys_erase h.elNodup).mp hk').2
    idsLt := fun k' id' hg' => h.idsLt k' id' (key k' id' hg').2.1
    idsInj := fun k₁ k₂ id' h1 h2 => h.idsInj k₁ k₂ id' (key k₁ id' h1).2.1 (key k₂ id' h2).2.1 }

/-! ## the operations -/

theorem addEdgeNew_wf [LawfulKind κ] {t : Tables κ} (w : WF t) {k : κ} (hk : get? t.edgeList k = none)
    (hc : Kind.canonK k = k) (wv : Num) (md : JTree) : WF (addEdgeNew t k wv md) := by
  unfold addEdgeNew
  apply ((NodeOnly.foldl _ (linkNode_nodeOnly t.nextId) _ _).trans
    (NodeOnly.foldl _ (linkTarget_nodeOnly t.nextId) _ _)).wf
  exact ⟨w.node, edgeWF_new w.edge hk hc _ md⟩

theorem bumpWeight_wf {t : Tables κ} (w : WF t) (id : Nat) (wv : Num) : WF (bumpWeight t id wv) := by
  unfold bumpWeight
  split
  · exact ⟨w.node, edgeWF_setW w.edge _ _⟩
  · exact w

theorem putEdgeMeta_wf {t : Tables κ} (w : WF t) (id : Nat) (md : JTree) : WF (putEdgeMeta t id md) :=
  ⟨w.node, edgeWF_setM w.edge _ _⟩

theorem retouchNodes_wf {t : Tables κ} (w : WF t) (k : κ) : WF (retouchNodes t k) := by
  unfold retouchNodes
  split
  · exact (NodeOnly.foldl _ (fun s n => addNode_nodeOnly s n none) _ _).wf w
  · exact w

theorem addEdgeOld_wf {t : Tables κ} (w : WF t) (k : κ) (id : Nat) (wv : Num) (md : JTree) :
    WF (addEdgeOld t k id wv md) :=
  retouchNodes_wf (putEdgeMeta_wf (bumpWeight_wf w id wv) id md) k

theorem addEdge_wf [LawfulKind κ] {t : Tables κ} (w : WF t) (raw : κ) (wv : Option Num) (md : Option JTree) :
    WF (addEdge t raw wv md).1 := by
  unfold addEdge
  dsimp only
  split
  · exact w
  · split
    · rename_i hnone
      exact addEdgeNew_wf w hnone (LawfulKind.canonK_idem raw) _ _
    · exact addEdgeOld_wf w _ _ _ _

theorem removeEdgeAt_wf {t : Tables κ} (w : WF t) {k : κ} {id : Nat} (hg : get? t.edgeList k = some id) :
    WF (removeEdgeAt t k id) := by
  unfold removeEdgeAt
  have h := (NodeOnly.foldl _ (unlinkNode_nodeOnly (κ := κ) id) (Kind.members k) t).trans
    (NodeOnly.foldl _ (unlinkTarget_nodeOnly (κ := κ) id) (Kind.targets k) _)
  have w1 := h.wf w
  refine ⟨w1.node, ?_⟩
  have hg' : get? ((Kind.targets k).foldl (unlinkTarget id) ((Kind.members k).foldl (unlinkNode id) t)).edgeList k
      = some id := by rw [h.el]; exact hg
  exact edgeWF_erase w1.edge hg'

theorem removeEdge_wf {t : Tables κ} (w : WF t) (raw : κ) : WF (removeEdge t raw).1 := by
  unfold removeEdge
  dsimp only
  split
  · exact w
  · rename_i id hg; exact removeEdgeAt_wf w hg

theorem dropIncident_wf {t : Tables κ} (w : WF t) (id : Nat) : WF (dropIncident t id) := by
  unfold dropIncident
  split
  · exact removeEdge_wf w _
  · exact w

theorem shrinkIncident_wf [LawfulKind κ] (n : Nat) {t : Tables κ} (w : WF t) (id : Nat) :
    WF (shrinkIncident n t id) := by
  unfold shrinkIncident
  split
  · split
    · exact addEdge_wf (removeEdge_wf w _) _ _ _
    · exact removeEdge_wf w _
  · exact w

theorem foldl_wf {α : Type} (f : Tables κ → α → Tables κ) (hf : ∀ s x, WF s → WF (f s x))
    (l : List α) {t : Tables κ} (w : WF t) : WF (l.foldl f t) := by
  induction l generalizing t with
  | nil => exact w
  | cons a r ih => exact ih (hf t a w)

theorem removeNode_wf [LawfulKind κ] {t : Tables κ} (w : WF t) (n : Nat) (keep : Bool) :
    WF (removeNode t n keep).1 := by
  unfold removeNode
  split
  · exact w
  · rename_i ids _
    have w1 : WF (if keep then (ids ++ (get? t.adjT n).getD []).foldl (shrinkIncident n) t
        else (ids ++ (get? t.adjT n).getD []).foldl dropIncident t) := by
      split
      · exact foldl_wf _ (fun s x ws => shrinkIncident_wf n ws x) _ w
      · exact foldl_wf _ (fun s x ws => dropIncident_wf ws x) _ w
    exact ⟨nodeWF_erase_both w1.node n, w1.edge⟩

theorem setNodeMeta_wf {t : Tables κ} (w : WF t) (n : Nat) (md : JTree) : WF (setNodeMeta t n md).1 := by
  unfold setNodeMeta
  split
  · rename_i h
    have : n ∈ keys t.nodeMeta := (w.node.same n).mp ((nodeKnown_iff w.node n).mp h)
    exact ⟨nodeWF_set_nm w.node this md, w.edge⟩
  · exact w

theorem setEdgeMeta_wf {t : Tables κ} (w : WF t) (raw : κ) (md : JTree) : WF (setEdgeMeta t raw md).1 := by
  unfold setEdgeMeta
  split
  · exact ⟨w.node, edgeWF_setM w.edge _ _⟩
  · exact w

theorem setWeight_wf {t : Tables κ} (w : WF t) (raw : κ) (wv : Num) : WF (setWeight t raw wv).1 := by
  unfold setWeight
  split
  · exact w
  · split
    · exact ⟨w.node, edgeWF_setW w.edge _ _⟩
    · exact w

theorem clear_wf (t : Tables κ) : WF (clear t) := by
  refine ⟨⟨List.nodup_nil, List.nodup_nil, fun n => Iff.rfl⟩, ⟨List.nodup_nil, ?_, ?_, ?_, ?_, ?_⟩⟩ <;>
    intros <;> simp_all [clear, keys]

theorem init_wf (κ : Type) [Kind κ] (weighted : Bool) (hm : List (String × JTree)) : WF (init κ weighted hm) := by
  refine ⟨⟨List.nodup_nil, List.nodup_nil, fun n => Iff.rfl⟩, ⟨List.nodup_nil, ?_, ?_, ?_, ?_, ?_⟩⟩ <;>
    intros <;> simp_all [init, keys]

theorem editNodeMeta_wf {t : Tables κ} (w : WF t) (n : Nat) (edit : JTree → Option JTree) :
    WF (editNodeMeta t n edit).1 := by
  unfold editNodeMeta
  split
  · rename_i md hmd
    split
    · exact ⟨nodeWF_set_nm w.node (mem_keys_of_get? hmd) _, w.edge⟩
    · exact w
  · exact w

theorem editEdgeMeta_wf {t : Tables κ} (w : WF t) (raw : κ) (edit : JTree → Option JTree) :
    WF (editEdgeMeta t raw edit).1 := by
  unfold editEdgeMeta
  split
  · split
    · split
      · exact ⟨w.node, edgeWF_setM w.edge _ _⟩
      · exact w
    · exact w
  · exact w

theorem setHAttr_wf {t : Tables κ} (w : WF t) (f : String) (v : JTree) : WF (setHAttr t f v).1 := by
  unfold setHAttr
  split
  · exact ⟨w.node, w.edge⟩
  · exact w

theorem addNodes_wf {t : Tables κ} (w : WF t) (items : List (Nat × Option JTree)) : WF (addNodes t items) := by
  unfold addNodes
  exact foldl_wf _ (fun s p ws => (addNode_nodeOnly s p.1 p.2).wf ws) items w

theorem addEdges_wf [LawfulKind κ] {t : Tables κ} (w : WF t) (withW : Bool)
    (items : List (κ × Option Num × Option JTree)) : WF (addEdges t withW items) := by
  unfold addEdges
  apply foldl_wf _ (fun s it ws => addEdge_wf ws _ _ _) items
  split
  · exact ⟨w.node, w.edge⟩
  · exact w

theorem build_wf (κ : Type) [Kind κ] [LawfulKind κ] (weighted : Bool) (hm : List (String × JTree))
    (nodes : List (Nat × JTree)) (withW : Bool) (items : List (κ × Option Num × Option JTree)) :
    WF (build κ weighted hm nodes withW items) :=
  addEdges_wf (addNodes_wf (init_wf κ weighted hm) _) withW items

theorem step_wf [LawfulKind κ] {t : Tables κ} (w : WF t) (op : Op κ) : WF (step t op).1 := by
  cases op with
  | addNodes items => exact addNodes_wf w items
  | addEdges withW items => exact addEdges_wf w withW items
  | setNodeAttr n f v => exact editNodeMeta_wf w n _
  | delNodeAttr n f => exact editNodeMeta_wf w n _
  | setEdgeAttr k f v => exact editEdgeMeta_wf w k _
  | delEdgeAttr k f => exact editEdgeMeta_wf w k _
  | setHAttr f v => exact setHAttr_wf w f v
  | addNode n md => exact (addNode_nodeOnly t n md).wf w
  | addEdge k wv md => exact addEdge_wf w k wv md
  | removeEdge k => exact removeEdge_wf w k
  | removeNode n keep => exact removeNode_wf w n keep
  | setNodeMeta n md => exact setNodeMeta_wf w n md
  | setEdgeMeta k md => exact setEdgeMeta_wf w k md
  | setHMeta md => exact ⟨w.node, w.edge⟩
  | setWeight k wv => exact setWeight_wf w k wv
  | clear => exact clear_wf t

theorem run_wf [LawfulKind κ] {t : Tables κ} (w : WF t) (ops : List (Op κ)) : WF (run t ops) := by
  unfold run
  exact foldl_wf _ (fun s o ws => step_wf ws o) ops w

/-! ## batched calls are the sequence of their single calls; attribute edits are whole-entry replacements -/

theorem step_addNodes (t : Tables κ) (items : List (Nat × Option JTree)) :
    step t (.addNodes items) = (run t (items.map (fun p => Op.addNode p.1 p.2)), true) := by
  simp only [step, addNodes, run, List.foldl_map]

theorem step_addEdges_noW (t : Tables κ) (items : List (κ × Option Num × Option JTree)) :
    step t (.addEdges false items) = (run t (items.map (fun it => Op.addEdge it.1 none it.2.2)), true) := by
  simp only [step, addEdges, run, List.foldl_map, Bool.false_eq_true, if_false]

theorem step_addEdges_withW (t : Tables κ) (hw : t.weighted = true) (items : List (κ × Option Num × Option JTree)) :
    step t (.addEdges true items) = (run t (items.map (fun it => Op.addEdge it.1 it.2.1 it.2.2)), true) := by
  have e : ({ t with weighted := true } : Tables κ) = t := by cases t; simp_all
  simp only [step, addEdges, run, List.foldl_map, if_true, e]

theorem build_eq_run (κ : Type) [Kind κ] (weighted : Bool) (hm : List (String × JTree))
    (nodes : List (Nat × JTree)) (items : List (κ × Option Num × Option JTree)) :
    build κ weighted hm nodes false items =
      run (init κ weighted hm) (nodes.map (fun p => Op.addNode p.1 (some p.2)) ++
        items.map (fun it => Op.addEdge it.1 none it.2.2)) := by
  simp only [build, addEdges, addNodes, run, List.foldl_map, List.foldl_append, Bool.false_eq_true, if_false]
  rfl

/-- an accepted attribute edit of a node is `set_node_metadata` with the edited dictionary -/
theorem editNodeMeta_eq_set {t : Tables κ} (w : WF t) {n : Nat} {edit : JTree → Option JTree} {md md' : JTree}
    (hmd : get? t.nodeMeta n = some md) (he : edit md = some md') :
    editNodeMeta t n edit = setNodeMeta t n md' := by
  have hk : nodeKnown t n = true :=
    (nodeKnown_iff w.node n).mpr ((w.node.same n).mpr (mem_keys_of_get? hmd))
  unfold editNodeMeta setNodeMeta
  rw [hmd]
  simp only [he, hk, if_true]

/-- a rejected attribute edit of a node changes nothing -/
theorem editNodeMeta_rejected (t : Tables κ) (n : Nat) (edit : JTree → Option JTree)
    (h : (editNodeMeta t n edit).2 = false) : (editNodeMeta t n edit).1 = t := by
  unfold editNodeMeta at h ⊢
  split
  · split
    · simp_all
    · rfl
  · rfl

/-- an attribute edit of node `n` leaves every other node's entry, and all other tables, as they are -/
theorem editNodeMeta_local (t : Tables κ) (n : Nat) (edit : JTree → Option JTree) :
    (∀ m, m ≠ n → get? (editNodeMeta t n edit).1.nodeMeta m = get? t.nodeMeta m) ∧
    (editNodeMeta t n edit).1.adj = t.adj ∧ (editNodeMeta t n edit).1.edgeList = t.edgeList ∧
    (editNodeMeta t n edit).1.weights = t.weights ∧ (editNodeMeta t n edit).1.edgeMeta = t.edgeMeta ∧
    (editNodeMeta t n edit).1.hmeta = t.hmeta ∧ (editNodeMeta t n edit).1.weighted = t.weighted := by
  unfold editNodeMeta
  split
  · split
    · exact ⟨fun m hm => get?_set_ne _ _ _ _ (fun e => hm e.symm), rfl, rfl, rfl, rfl, rfl, rfl⟩
    · exact ⟨fun _ _ => rfl, rfl, rfl, rfl, rfl, rfl, rfl⟩
  · exact ⟨fun _ _ => rfl, rfl, rfl, rfl, rfl, rfl, rfl⟩

/-- an accepted attribute edit of a hyperedge is `set_edge_metadata` with the edited dictionary -/
theorem editEdgeMeta_eq_set {t : Tables κ} {raw : κ} {edit : JTree → Option JTree} {id : Nat} {md md' : JTree}
    (hid : get? t.edgeList (Kind.canonK raw) = some id) (hmd : get? t.edgeMeta id = some md)
    (he : edit md = some md') : editEdgeMeta t raw edit = setEdgeMeta t raw md' := by
  unfold editEdgeMeta setEdgeMeta
  rw [hid]
  simp only [hmd, he]

/-- an attribute edit of a hyperedge leaves the entry of every other id, and all other tables, as they are -/
theorem editEdgeMeta_local (t : Tables κ) (raw : κ) (edit : JTree → Option JTree) :
    (∀ id, get? t.edgeList (Kind.canonK raw) ≠ some id →
        get? (editEdgeMeta t raw edit).1.edgeMeta id = get? t.edgeMeta id) ∧
    (editEdgeMeta t raw edit).1.adj = t.adj ∧ (editEdgeMeta t raw edit).1.edgeList = t.edgeList ∧
    (editEdgeMeta t raw edit).1.weights = t.weights ∧ (editEdgeMeta t raw edit).1.nodeMeta = t.nodeMeta ∧
    (editEdgeMeta t raw edit).1.hmeta = t.hmeta ∧ (editEdgeMeta t raw edit).1.weighted = t.weighted := by
  unfold editEdgeMeta
  split
  · rename_i id0 hid0
    split
    · split
      · refine ⟨fun id hne => get?_set_ne _ _ _ _ (fun e => hne (e ▸ hid0)), rfl, rfl, rfl, rfl, rfl, rfl⟩
      · exact ⟨fun _ _ => rfl, rfl, rfl, rfl, rfl, rfl, rfl⟩
    · exact ⟨fun _ _ => rfl, rfl, rfl, rfl, rfl, rfl, rfl⟩
  · exact ⟨fun _ _ => rfl, rfl, rfl, rfl, rfl, rfl, rfl⟩

/-- `WF` from the facts that the container invariants of C01–C04 state about the same tables
(`C01.Inv`: `adj_nodup`, `nm_keys`, `el_nodup`, `rev_of_edge`, `edge_of_rev`, `id_lt`, `w_dom`, `m_dom`, `key_canon`;
`C02.Inv`: `nd_adjS`, `nd_nm`, `nmeta_same`, `nd_edge`, `rev_of_edge`, `edge_of_rev`, `id_lt`, `weights_same`, `emeta_same`, `key_wf`) -/
theorem wf_of_store_invariant (t : Tables κ)
    (adj_nodup : (keys t.adj).Nodup) (nm_nodup : (keys t.nodeMeta).Nodup)
    (nm_same : ∀ n, (get? t.nodeMeta n).isSome = (get? t.adj n).isSome)
    (el_nodup : (keys t.edgeList).Nodup)
    (rev_of_edge : ∀ k id, get? t.edgeList k = some id → get? t.rev id = some k)
    (id_lt : ∀ id k, get? t.rev id = some k → id < t.nextId)
    (w_dom : ∀ id, (get? t.weights id).isSome = (get? t.rev id).isSome)
    (m_dom : ∀ id, (get? t.edgeMeta id).isSome = (get? t.rev id).isSome)
    (key_canon : ∀ k id, get? t.edgeList k = some id → Kind.canonK k = k) : WF t := by
  refine ⟨⟨adj_nodup, nm_nodup, fun n => ?_⟩, ⟨el_nodup, ?_, ?_, ?_, ?_, ?_⟩⟩
  · rw [← isSome_get?_iff, ← isSome_get?_iff, nm_same n]
  · intro k id h; rw [w_dom, rev_of_edge k id h]; rfl
  · intro k id h; rw [m_dom, rev_of_edge k id h]; rfl
  · intro k hk
    obtain ⟨id, hid⟩ := Option.isSome_iff_exists.mp (isSome_get?_iff.mpr hk)
    exact key_canon k id hid
  · intro k id h; exact id_lt id k (rev_of_edge k id h)
  · intro k₁ k₂ id h1 h2
    have a := rev_of_edge k₁ id h1
    have b := rev_of_edge k₂ id h2
    rw [a] at b; exact Option.some.inj b

end C07
