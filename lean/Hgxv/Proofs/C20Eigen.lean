import Hgxv.Model.C20
import Mathlib.Analysis.Normed.Algebra.MatrixExponential
import Mathlib.Analysis.SpecialFunctions.Exponential
import Mathlib.Data.List.Nodup
/-! Algebra behind the eigenvector centralities and the sub-hypergraph centrality (C20); Mathlib is used for
`ring`/`field_simp`/`positivity` over `ℚ` and for the matrix exponential over `ℝ`. -/
namespace C20

/-! ### CEC: `power_method` -/

theorem cec_fixed (W : List (List Rat)) (c : Rat) (x : List Rat) (hc : c ≠ 0) (h : cecStep W c x = x) :
    matVec W x = x.map (c * ·) := by
  have h2 : x.map (c * ·) = ((matVec W x).map (· / c)).map (c * ·) := by
    conv => lhs; rw [← h]
    rfl
  rw [h2, List.map_map]
  conv => lhs; rw [← List.map_id (matVec W x)]
  apply List.map_congr_left
  intro a _
  simp only [Function.comp, id]
  field_simp

theorem sq2_residual (c : Rat) (hc : c ≠ 0) (y x : List Rat) :
    sq2 (vsub y (x.map (c * ·))) = c * c * sq2 (vsub x (y.map (· / c))) := by
  induction y generalizing x with
  | nil => cases x <;> simp [vsub, sq2]
  | cons a t ih =>
    cases x with
    | nil => simp [vsub, sq2]
    | cons b u =>
      have := ih u
      simp only [vsub, sq2, List.map_cons, List.zipWith_cons_cons, List.sum_cons] at this ⊢
      rw [this]
      field_simp
      ring

/-! ### HEC -/

theorem absR_nonneg (a : Rat) : 0 ≤ absR a := by
  unfold absR; split <;> linarith

theorem l1_nonneg (r : List Rat) : 0 ≤ l1 r := by
  induction r with
  | nil => simp [l1]
  | cons a t ih =>
    simp only [l1, List.map_cons, List.sum_cons] at ih ⊢
    have := absR_nonneg a
    linarith

theorem l1_pos (r : List Rat) (h : 0 < r.getD 0 0) : 0 < l1 r := by
  cases r with
  | nil => simp at h
  | cons a t =>
    simp only [List.getD_cons_zero] at h
    have h1 : absR a = a := by unfold absR; rw [if_neg (by linarith)]
    have := l1_nonneg t
    simp only [l1, List.map_cons, List.sum_cons] at this ⊢
    linarith

theorem hecNormalize_getD (r : List Rat) (h : 0 < r.getD 0 0) (i : Nat) :
    (hecNormalize r).getD i 0 = r.getD i 0 / l1 r := by
  have hs : sgn (r.getD 0 0) = 1 := by
    unfold sgn; rw [if_neg (by linarith), if_neg (by linarith)]
  simp only [hecNormalize, hs, one_mul]
  by_cases hi : i < r.length
  · simp [List.getD_eq_getElem?_getD, List.getElem?_map, List.getElem?_eq_getElem hi]
  · simp [List.getD_eq_getElem?_getD, List.getElem?_map, List.getElem?_eq_none (Nat.le_of_not_lt hi)]

/-- what one HEC step produces from `y = apply x` and its root vector `r` (`r_i ^ m = y_i`) -/
theorem hec_step_identity (y r : List Rat) (m : Nat) (h0 : 0 < r.getD 0 0)
    (hroot : ∀ i, (r.getD i 0) ^ m = y.getD i 0) (i : Nat) :
    y.getD i 0 = (l1 r) ^ m * ((hecNormalize r).getD i 0) ^ m := by
  have hS := l1_pos r h0
  rw [hecNormalize_getD r h0, div_pow, ← hroot i]
  field_simp

theorem pow_sub_pow_le (a b : Rat) (ha0 : 0 ≤ a) (ha1 : a ≤ 1) (hb0 : 0 ≤ b) (hb1 : b ≤ 1) (m : Nat) :
    |a ^ m - b ^ m| ≤ m * |a - b| := by
  induction m with
  | zero => simp
  | succ k ih =>
    have e : a ^ (k + 1) - b ^ (k + 1) = a * (a ^ k - b ^ k) + (a - b) * b ^ k := by ring
    have hbk : b ^ k ≤ 1 := pow_le_one₀ hb0 hb1
    have hbk0 : 0 ≤ b ^ k := pow_nonneg hb0 k
    calc |a ^ (k + 1) - b ^ (k + 1)| = |a * (a ^ k - b ^ k) + (a - b) * b ^ k| := by rw [e]
      _ ≤ |a * (a ^ k - b ^ k)| + |(a - b) * b ^ k| := abs_add_le _ _
      _ = a * |a ^ k - b ^ k| + |a - b| * b ^ k := by rw [abs_mul, abs_mul, abs_of_nonneg ha0, abs_of_nonneg hbk0]
      _ ≤ 1 * |a ^ k - b ^ k| + |a - b| * 1 := by
          apply add_le_add
          · exact mul_le_mul_of_nonneg_right ha1 (abs_nonneg _)
          · exact mul_le_mul_of_nonneg_left hbk (abs_nonneg _)
      _ ≤ (↑(k + 1) : Rat) * |a - b| := by push_cast; nlinarith [abs_nonneg (a - b)]

/-- `|a^m - b^m| ≤ m M^(m-1) |a - b|` for `a, b ∈ [0, M]` (the sharp form of `pow_sub_pow_le`) -/
theorem pow_sub_pow_le_of_le (a b M : Rat) (ha0 : 0 ≤ a) (haM : a ≤ M) (hb0 : 0 ≤ b) (hbM : b ≤ M) (m : Nat) :
    |a ^ m - b ^ m| ≤ m * M ^ (m - 1) * |a - b| := by
  have hM0 : 0 ≤ M := le_trans ha0 haM
  induction m with
  | zero => simp
  | succ k ih =>
    have e : a ^ (k + 1) - b ^ (k + 1) = a * (a ^ k - b ^ k) + (a - b) * b ^ k := by ring
    have hbk : b ^ k ≤ M ^ k := pow_le_pow_left₀ hb0 hbM k
    have hbk0 : 0 ≤ b ^ k := pow_nonneg hb0 k
    have hab : 0 ≤ |a - b| := abs_nonneg _
    have hstep : M * (↑k * M ^ (k - 1)) ≤ ↑k * M ^ k := by
      cases k with
      | zero => simp
      | succ j => simp only [Nat.add_sub_cancel]; rw [pow_succ]; apply le_of_eq; ring
    calc |a ^ (k + 1) - b ^ (k + 1)| = |a * (a ^ k - b ^ k) + (a - b) * b ^ k| := by rw [e]
      _ ≤ |a * (a ^ k - b ^ k)| + |(a - b) * b ^ k| := abs_add_le _ _
      _ = a * |a ^ k - b ^ k| + |a - b| * b ^ k := by rw [abs_mul, abs_mul, abs_of_nonneg ha0, abs_of_nonneg hbk0]
      _ ≤ M * (↑k * M ^ (k - 1) * |a - b|) + |a - b| * M ^ k := by
          apply add_le_add
          · exact mul_le_mul haM ih (abs_nonneg _) hM0
          · exact mul_le_mul_of_nonneg_left hbk hab
      _ = (M * (↑k * M ^ (k - 1))) * |a - b| + |a - b| * M ^ k := by ring
      _ ≤ (↑k * M ^ k) * |a - b| + |a - b| * M ^ k := by
          have := mul_le_mul_of_nonneg_right hstep hab
          linarith
      _ = (↑(k + 1) : Rat) * M ^ (k + 1 - 1) * |a - b| := by
          simp only [Nat.add_sub_cancel]; push_cast; ring

/-! ### linearity of `np.dot(W, ·)` and the residual of the vector `power_method` RETURNS -/

theorem dot_vsub (row a b : List Rat) (h : a.length = b.length) : dot row (vsub a b) = dot row a - dot row b := by
  induction row generalizing a b with
  | nil => simp [dot]
  | cons r t ih =>
    cases a with
    | nil => cases b with
      | nil => simp [dot, vsub]
      | cons _ _ => simp at h
    | cons x xs =>
      cases b with
      | nil => simp at h
      | cons y ys =>
        have := ih xs ys (by simpa using h)
        simp only [dot, vsub, List.zipWith_cons_cons, List.zip_cons_cons, List.map_cons, List.sum_cons] at this ⊢
        rw [this]; ring

theorem matVec_vsub (W : List (List Rat)) (a b : List Rat) (h : a.length = b.length) :
    matVec W (vsub a b) = vsub (matVec W a) (matVec W b) := by
  induction W with
  | nil => simp [matVec, vsub]
  | cons row t ih =>
    have hd := dot_vsub row a b h
    simp only [matVec, vsub, List.map_cons, List.zipWith_cons_cons] at ih hd ⊢
    rw [hd, ih]

theorem scale_cecStep (W : List (List Rat)) (c : Rat) (x : List Rat) (hc : c ≠ 0) :
    (cecStep W c x).map (c * ·) = matVec W x := by
  rw [cecStep, List.map_map]
  conv => rhs; rw [← List.map_id (matVec W x)]
  apply List.map_congr_left
  intro a _
  simp only [Function.comp, id]
  field_simp

/-! ### the two loops: a larger budget does not change a run that was left by its test -/

theorem pmLoop_stable {X : Type} (body : X → X × Rat) (tol : Rat) (K : Nat) (res : Option Rat) (x : X)
    (h : (pmLoop body tol K res x).2 < K) (K' : Nat) (hK : K ≤ K') :
    pmLoop body tol K' res x = pmLoop body tol K res x := by
  induction K generalizing res x K' with
  | zero => simp at h
  | succ k ih =>
    obtain ⟨k', rfl⟩ : ∃ k', K' = k' + 1 := ⟨K' - 1, by omega⟩
    unfold pmLoop at h ⊢
    by_cases hg : pmGoOn res tol = true
    · simp only [hg, if_true] at h ⊢
      have h' : (pmLoop body tol k (some (body x).2) (body x).1).2 < k := by omega
      rw [ih _ _ h' k' (by omega)]
    · simp only [hg] at h ⊢
      simp

/-- a run left by its test: either no pass was made (the test failed at once) or the result is the image of an
iterate `xp` whose pass produced a residual that fails `res > tol` -/
theorem pmLoop_left {X : Type} (body : X → X × Rat) (tol : Rat) (K : Nat) (res : Option Rat) (x : X)
    (h : (pmLoop body tol K res x).2 < K) :
    (pmGoOn res tol = false ∧ pmLoop body tol K res x = (x, 0)) ∨
    ∃ xp, (body xp).1 = (pmLoop body tol K res x).1 ∧ pmGoOn (some (body xp).2) tol = false := by
  induction K generalizing res x with
  | zero => simp at h
  | succ k ih =>
    unfold pmLoop at h ⊢
    by_cases hg : pmGoOn res tol = true
    · simp only [hg, if_true] at h ⊢
      have h' : (pmLoop body tol k (some (body x).2) (body x).1).2 < k := by omega
      right
      rcases ih _ _ h' with ⟨hstop, heq⟩ | ⟨xp, h1, h2⟩
      · exact ⟨x, by rw [heq], hstop⟩
      · exact ⟨xp, h1, h2⟩
    · left
      simp only [Bool.not_eq_true] at hg
      exact ⟨hg, by simp [hg]⟩

theorem hecLoop_stable {X : Type} (step : X → X) (dist : X → X → Rat) (tol : Rat) (K : Nat) (x : X)
    (h : (hecLoop step dist tol K x).2.2 = true) (K' : Nat) (hK : K ≤ K') :
    hecLoop step dist tol K' x = hecLoop step dist tol K x := by
  induction K generalizing x K' with
  | zero => simp [hecLoop] at h
  | succ k ih =>
    obtain ⟨k', rfl⟩ : ∃ k', K' = k' + 1 := ⟨K' - 1, by omega⟩
    unfold hecLoop at h ⊢
    by_cases hd : dist x (step x) ≤ tol
    · simp only [hd, if_true]
    · simp only [hd, if_false] at h ⊢
      rw [ih _ h k' (by omega)]

/-- a run left by the `break`: the returned iterate passes the stopping test -/
theorem hecLoop_left {X : Type} (step : X → X) (dist : X → X → Rat) (tol : Rat) (K : Nat) (x : X)
    (h : (hecLoop step dist tol K x).2.2 = true) :
    dist (hecLoop step dist tol K x).1 (step (hecLoop step dist tol K x).1) ≤ tol := by
  induction K generalizing x with
  | zero => simp [hecLoop] at h
  | succ k ih =>
    unfold hecLoop at h ⊢
    by_cases hd : dist x (step x) ≤ tol
    · simp only [hd, if_true]
    · simp only [hd, if_false] at h ⊢
      exact ih _ h

theorem hecLoop_passes_le {X : Type} (step : X → X) (dist : X → X → Rat) (tol : Rat) (K : Nat) (x : X) :
    (hecLoop step dist tol K x).2.1 ≤ K := by
  induction K generalizing x with
  | zero => simp [hecLoop]
  | succ k ih =>
    unfold hecLoop
    by_cases hd : dist x (step x) ≤ tol
    · simp only [hd, if_true]; omega
    · simp only [hd, if_false]
      have := ih (step x)
      omega

/-! ### `apply` is the sum over the hyperedges of a node of the product of the other members -/

theorem length_addAt (v : List Rat) (i : Nat) (d : Rat) : (addAt v i d).length = v.length := by
  simp [addAt]

theorem getD_addAt (v : List Rat) (i j : Nat) (d : Rat) (hj : j < v.length) :
    (addAt v i d).getD j 0 = v.getD j 0 + (if i = j then d else 0) := by
  simp only [addAt, List.getD_eq_getElem?_getD, List.getElem?_modify, List.getElem?_eq_getElem hj]
  by_cases h : i = j <;> simp [h]

theorem foldl_addAt {γ : Type} (ks : List γ) (idx : γ → Nat) (val : γ → Rat) (acc : List Rat) (j : Nat)
    (hj : j < acc.length) :
    (ks.foldl (fun a k => addAt a (idx k) (val k)) acc).length = acc.length ∧
    (ks.foldl (fun a k => addAt a (idx k) (val k)) acc).getD j 0
      = acc.getD j 0 + (ks.map fun k => if idx k = j then val k else 0).sum := by
  induction ks generalizing acc with
  | nil => simp
  | cons k t ih =>
    simp only [List.foldl_cons, List.map_cons, List.sum_cons]
    have := ih (addAt acc (idx k) (val k)) (by rw [length_addAt]; exact hj)
    rw [this.1, this.2, length_addAt, getD_addAt _ _ _ _ hj]
    exact ⟨rfl, by ring⟩

theorem sum_single (e : List Nat) (F : Nat → Rat) (j : Nat) (h : e.Nodup) :
    ((List.range e.length).map fun k => if e.getD k 0 = j then F k else 0).sum
      = if j ∈ e then F (e.idxOf j) else 0 := by
  induction e generalizing F with
  | nil => simp
  | cons a t ih =>
    have hnd := List.nodup_cons.mp h
    simp only [List.length_cons, List.range_succ_eq_map, List.map_cons, List.sum_cons, List.map_map,
      List.getD_cons_zero]
    have h2 : (List.map ((fun k => if (a :: t).getD k 0 = j then F k else 0) ∘ Nat.succ) (List.range t.length))
        = (List.range t.length).map fun k => if t.getD k 0 = j then (F ∘ Nat.succ) k else 0 := by
      apply List.map_congr_left; intro k _; simp [Function.comp]
    rw [h2, ih (F ∘ Nat.succ) hnd.2]
    by_cases haj : a = j
    · subst haj
      simp [hnd.1]
    · have hja : ¬ j = a := fun e => haj e.symm
      have hb : (a == j) = false := by simpa using haj
      simp [haj, hja, List.idxOf_cons, hb]

theorem prodAt_eq_prod (x : List Rat) (l : List Nat) : prodAt x l = (l.map (getR x)).prod := by
  simp [prodAt, List.prod_eq_foldl]

theorem prodAt_perm (x : List Rat) {l l' : List Nat} (h : l.Perm l') : prodAt x l = prodAt x l' := by
  rw [prodAt_eq_prod, prodAt_eq_prod]; exact (h.map _).prod_eq

theorem rot_perm_erase (e : List Nat) (j : Nat) (hj : j ∈ e) : (rot e (e.idxOf j)).Perm (e.erase j) := by
  rw [List.erase_eq_eraseIdx_of_idxOf (by rfl), List.eraseIdx_eq_take_drop_succ]
  exact List.perm_append_comm

/-- contribution of one hyperedge to `apply(...)[j]`: the product over the other members if `j` is a member -/
def contrib (x : List Rat) (e : List Nat) (j : Nat) : Rat := if j ∈ e then prodAt x (e.erase j) else 0

theorem applyEdge_spec (x acc : List Rat) (e : List Nat) (j : Nat) (hj : j < acc.length) (h : e.Nodup) :
    (applyEdge x acc e).length = acc.length ∧
    (applyEdge x acc e).getD j 0 = acc.getD j 0 + contrib x e j := by
  have := foldl_addAt (List.range e.length) (fun k => e.getD k 0) (fun k => prodAt x (rot e k)) acc j hj
  refine ⟨this.1, ?_⟩
  rw [applyEdge, this.2, sum_single e (fun k => prodAt x (rot e k)) j h, contrib]
  by_cases hm : j ∈ e
  · simp only [hm, if_true]; rw [prodAt_perm x (rot_perm_erase e j hm)]
  · simp [hm]

theorem foldl_applyEdge_spec (x : List Rat) (edges : List (List Nat)) (acc : List Rat) (j : Nat)
    (hj : j < acc.length) (h : ∀ e ∈ edges, e.Nodup) :
    (edges.foldl (applyEdge x) acc).getD j 0 = acc.getD j 0 + (edges.map fun e => contrib x e j).sum := by
  induction edges generalizing acc with
  | nil => simp
  | cons e t ih =>
    have he := applyEdge_spec x acc e j hj (h e (by simp))
    simp only [List.foldl_cons, List.map_cons, List.sum_cons]
    rw [ih (applyEdge x acc e) (by rw [he.1]; exact hj) (fun e' he' => h e' (by simp [he'])), he.2]
    ring

/-- `apply(HG, x, g)[j] = Σ_{e ∋ j} Π_{i ∈ e, i ≠ j} x_i` -/
theorem apply_spec (n : Nat) (edges : List (List Nat)) (x : List Rat) (j : Nat) (hj : j < n)
    (h : ∀ e ∈ edges, e.Nodup) :
    (apply n edges x).getD j 0 = (edges.map fun e => contrib x e j).sum := by
  rw [apply, foldl_applyEdge_spec x edges _ j (by simpa using hj) h]
  simp [List.getD_eq_getElem?_getD, hj]

/-! ### the matrix `W` of `CEC_centrality` counts common hyperedges -/

/-- `W[a, b]` -/
def getD2 (W : List (List Rat)) (a b : Nat) : Rat := (W.getD a []).getD b 0

def square (n : Nat) (W : List (List Rat)) : Prop := W.length = n ∧ ∀ row ∈ W, row.length = n

theorem bump_square (n : Nat) (W : List (List Rat)) (a b : Nat) (h : square n W) : square n (bump W a b) := by
  refine ⟨by simp [bump, h.1], ?_⟩
  intro row hrow
  simp only [bump] at hrow
  obtain ⟨i, hi, rfl⟩ := List.mem_iff_getElem.mp hrow
  simp only [List.getElem_modify]
  split
  · simp only [addAt, List.length_modify]; exact h.2 _ (List.getElem_mem _)
  · exact h.2 _ (List.getElem_mem _)

theorem bump_get (n : Nat) (W : List (List Rat)) (a b a' b' : Nat) (h : square n W) (ha : a' < n) (hb : b' < n) :
    getD2 (bump W a b) a' b' = getD2 W a' b' + (if a = a' ∧ b = b' then 1 else 0) := by
  have hlen : a' < W.length := by rw [h.1]; exact ha
  have hrow : (W[a']).length = n := h.2 _ (List.getElem_mem _)
  simp only [getD2, bump, List.getD_eq_getElem?_getD, List.getElem?_modify, List.getElem?_eq_getElem hlen,
    Option.map_some, Option.getD_some]
  by_cases haa : a = a'
  · simp only [haa, if_true, true_and]
    have : b' < (W[a']).length := by rw [hrow]; exact hb
    simp only [addAt, List.getElem?_modify, List.getElem?_eq_getElem this, Option.map_some, Option.getD_some]
    by_cases hbb : b = b' <;> simp [hbb, List.getElem?_eq_getElem this]
  · simp [haa]

theorem foldl_bump (n : Nat) (ps : List (Nat × Nat)) (W : List (List Rat)) (a b : Nat) (h : square n W)
    (ha : a < n) (hb : b < n) :
    square n (ps.foldl (fun W p => bump (bump W p.1 p.2) p.2 p.1) W) ∧
    getD2 (ps.foldl (fun W p => bump (bump W p.1 p.2) p.2 p.1) W) a b
      = getD2 W a b + (ps.map fun p => (if p.1 = a ∧ p.2 = b then (1 : Rat) else 0) + (if p.2 = a ∧ p.1 = b then 1 else 0)).sum := by
  induction ps generalizing W with
  | nil => simp [h]
  | cons p t ih =>
    have h1 := bump_square n W p.1 p.2 h
    have h2 := bump_square n _ p.2 p.1 h1
    have := ih _ h2
    simp only [List.foldl_cons, List.map_cons, List.sum_cons]
    refine ⟨this.1, ?_⟩
    rw [this.2, bump_get n _ p.2 p.1 a b h1 ha hb, bump_get n W p.1 p.2 a b h ha hb]
    ring

theorem sum_indicator (t : List Nat) (b : Nat) (ht : t.Nodup) :
    (t.map fun y => if y = b then (1 : Rat) else 0).sum = if b ∈ t then 1 else 0 := by
  induction t with
  | nil => simp
  | cons y u ih =>
    have hn := List.nodup_cons.mp ht
    simp only [List.map_cons, List.sum_cons, ih hn.2, List.mem_cons]
    by_cases h3 : y = b
    · subst h3; simp [hn.1]
    · have : ¬ b = y := fun e => h3 e.symm
      simp [h3, this]

theorem sum_map_pair (c a b : Nat) (t : List Nat) (ht : t.Nodup) :
    (t.map fun y => (if c = a ∧ y = b then (1 : Rat) else 0) + (if y = a ∧ c = b then 1 else 0)).sum
      = (if c = a ∧ b ∈ t then 1 else 0) + (if c = b ∧ a ∈ t then 1 else 0) := by
  have e1 : (t.map fun y => (if c = a ∧ y = b then (1 : Rat) else 0)).sum = if c = a ∧ b ∈ t then 1 else 0 := by
    by_cases h : c = a
    · simp only [h, true_and]; exact sum_indicator t b ht
    · simp [h]
  have e2 : (t.map fun y => (if y = a ∧ c = b then (1 : Rat) else 0)).sum = if c = b ∧ a ∈ t then 1 else 0 := by
    by_cases h : c = b
    · simp only [h, and_true, true_and]; exact sum_indicator t a ht
    · simp [h]
  rw [← e1, ← e2, ← List.sum_map_add]

/-- the position pairs of one duplicate-free hyperedge hit `(a, b)` (in either order) once iff both are members -/
theorem pairs_count (e : List Nat) (a b : Nat) (h : e.Nodup) :
    ((pairsOf e).map fun p => (if p.1 = a ∧ p.2 = b then (1 : Rat) else 0) + (if p.2 = a ∧ p.1 = b then 1 else 0)).sum
      = if a ∈ e ∧ b ∈ e ∧ a ≠ b then 1 else 0 := by
  induction e with
  | nil => simp [pairsOf]
  | cons c t ih =>
    have hn := List.nodup_cons.mp h
    simp only [pairsOf, List.map_append, List.sum_append, List.map_map, ih hn.2]
    have e : (List.map ((fun p : Nat × Nat => (if p.1 = a ∧ p.2 = b then (1 : Rat) else 0) + if p.2 = a ∧ p.1 = b then 1 else 0) ∘ fun y => (c, y)) t)
        = t.map fun y => (if c = a ∧ y = b then (1 : Rat) else 0) + (if y = a ∧ c = b then 1 else 0) := by
      apply List.map_congr_left; intro y _; rfl
    rw [e, sum_map_pair c a b t hn.2]
    clear e ih
    simp only [List.mem_cons]
    have hc := hn.1
    by_cases h1 : c = a <;> by_cases h2 : c = b <;> by_cases h5 : b ∈ t <;> by_cases h6 : a ∈ t <;>
      by_cases h7 : a = b <;> simp_all <;> omega

theorem square_zero (n : Nat) : square n (List.replicate n (List.replicate n (0 : Rat))) := by
  refine ⟨by simp, ?_⟩
  intro row hrow
  rw [(List.mem_replicate.mp hrow).2]; simp

/-- `W[a, b]` = number of hyperedges containing both `a` and `b` (`a ≠ b`), 0 on the diagonal -/
theorem cecW_spec (n : Nat) (edges : List (List Nat)) (a b : Nat) (ha : a < n) (hb : b < n)
    (h : ∀ e ∈ edges, e.Nodup) :
    getD2 (cecW n edges) a b = (edges.map fun e => if a ∈ e ∧ b ∈ e ∧ a ≠ b then (1 : Rat) else 0).sum := by
  rw [cecW, (foldl_bump n _ _ a b (square_zero n) ha hb).2]
  have h0 : getD2 (List.replicate n (List.replicate n (0 : Rat))) a b = 0 := by
    simp [getD2, List.getD_eq_getElem?_getD, ha, hb]
  rw [h0, zero_add]
  induction edges with
  | nil => simp
  | cons e t ih =>
    simp only [List.flatMap_cons, List.map_append, List.sum_append, List.map_cons, List.sum_cons]
    rw [pairs_count e a b (h e (by simp)), ih (fun e' he' => h e' (by simp [he']))]

/-! ### relabelling the nodes `0..n-1` -/

theorem prodAt_map (x x' : List Rat) (σ : Nat → Nat) (l : List Nat) (h : ∀ i ∈ l, getR x' (σ i) = getR x i) :
    prodAt x' (l.map σ) = prodAt x l := by
  rw [prodAt_eq_prod, prodAt_eq_prod, List.map_map]
  congr 1
  apply List.map_congr_left
  intro i hi
  exact h i hi

theorem contrib_map (x x' : List Rat) (σ : Nat → Nat) (hσ : Function.Injective σ) (e : List Nat) (j : Nat)
    (h : ∀ i ∈ e, getR x' (σ i) = getR x i) : contrib x' (e.map σ) (σ j) = contrib x e j := by
  simp only [contrib, List.mem_map, hσ.eq_iff, exists_eq_right]
  by_cases hj : j ∈ e
  · simp only [hj, if_true]
    rw [← List.map_erase hσ, prodAt_map x x' σ _ (fun i hi => h i (List.mem_of_mem_erase hi))]
  · simp [hj]

/-- `apply` commutes with a relabelling `σ` of the nodes (the vector carried along) -/
theorem apply_relabel (n : Nat) (edges : List (List Nat)) (x x' : List Rat) (σ : Nat → Nat) (hσ : Function.Injective σ)
    (hnd : ∀ e ∈ edges, e.Nodup) (hx : ∀ e ∈ edges, ∀ i ∈ e, getR x' (σ i) = getR x i)
    (j : Nat) (hj : j < n) (hσj : σ j < n) :
    (apply n (edges.map (List.map σ)) x').getD (σ j) 0 = (apply n edges x).getD j 0 := by
  rw [apply_spec n edges x j hj hnd, apply_spec n _ x' (σ j) hσj (by
    intro e he
    obtain ⟨e0, he0, rfl⟩ := List.mem_map.mp he
    exact (hnd e0 he0).map hσ), List.map_map]
  congr 1
  apply List.map_congr_left
  intro e he
  exact contrib_map x x' σ hσ e j (hx e he)

/-- the matrix `W` is carried along by a relabelling of the nodes -/
theorem cecW_relabel (n : Nat) (edges : List (List Nat)) (σ : Nat → Nat) (hσ : Function.Injective σ)
    (hnd : ∀ e ∈ edges, e.Nodup) (a b : Nat) (ha : a < n) (hb : b < n) (hσa : σ a < n) (hσb : σ b < n) :
    getD2 (cecW n (edges.map (List.map σ))) (σ a) (σ b) = getD2 (cecW n edges) a b := by
  rw [cecW_spec n edges a b ha hb hnd, cecW_spec n _ (σ a) (σ b) hσa hσb (by
    intro e he
    obtain ⟨e0, he0, rfl⟩ := List.mem_map.mp he
    exact (hnd e0 he0).map hσ), List.map_map]
  congr 1
  apply List.map_congr_left
  intro e _
  simp only [Function.comp, List.mem_map, hσ.eq_iff, exists_eq_right, ne_eq]

/-! ### sub-hypergraph centrality -/
open Matrix in
theorem subhg_exp_diag {n : ℕ} (A U : Matrix (Fin n) (Fin n) ℝ) (ev : Fin n → ℝ)
    (hU : Uᵀ * U = 1) (hA : A = U * Matrix.diagonal ev * Uᵀ) (i : Fin n) :
    (NormedSpace.exp A) i i = ∑ j, (U i j) ^ 2 * Real.exp (ev j) := by
  have hU' : U * Uᵀ = 1 := mul_eq_one_comm.mp hU
  have hinv : U⁻¹ = Uᵀ := inv_eq_right_inv hU'
  have hunit : IsUnit U := ⟨⟨U, Uᵀ, hU', hU⟩, rfl⟩
  have h1 : NormedSpace.exp A = U * Matrix.diagonal (fun j => Real.exp (ev j)) * Uᵀ := by
    rw [hA, ← hinv, Matrix.exp_conj U _ hunit, Matrix.exp_diagonal]
    have : NormedSpace.exp ev = fun j => Real.exp (ev j) := by
      funext j; rw [Pi.coe_exp, Real.exp_eq_exp_ℝ]
    rw [this]
  rw [h1]
  simp [Matrix.mul_apply, Matrix.diagonal_apply, pow_two]
  apply Finset.sum_congr rfl
  intro j _
  ring

open Matrix in
theorem subhg_decomp_of_eigen {n : ℕ} (A U : Matrix (Fin n) (Fin n) ℝ) (ev : Fin n → ℝ)
    (hU : Uᵀ * U = 1) (hE : A * U = U * Matrix.diagonal ev) : A = U * Matrix.diagonal ev * Uᵀ := by
  have hU' : U * Uᵀ = 1 := mul_eq_one_comm.mp hU
  calc A = A * (U * Uᵀ) := by rw [hU', mul_one]
    _ = (A * U) * Uᵀ := by rw [Matrix.mul_assoc]
    _ = U * Matrix.diagonal ev * Uᵀ := by rw [hE]

end C20
