import Hgxv.Proofs.C08
import Hgxv.Proofs.C08LinkC01
import Hgxv.Proofs.C02Abs
import Hgxv.Proofs.C03Ref
import Hgxv.Proofs.C04Query
import Hgxv.Proofs.C04Rej
/-! # C08 ↔ C02 / C03 / C04: degrees on what the other three containers list (core Lean only)

`measures/degree.py` is `len(hg.get_incident_edges(node, order|size))` for every container class.  The C08 model states
it once, generic over the record type (`degG members keys n f`; `dirDeg` for `DirectedHypergraph`).  Here: for a store of
each full container model satisfying its class invariant (every reachable store does), the model's own `degree` /
`degree_sequence` answers ARE the C08 functions applied to the listings `get_nodes()` / `get_edges()` of that store, and
the listings satisfy the hypotheses of `C08_degree` / `C08_handshake` / `C08_degree_directed`.

Filters: C02 and C04 write the keyword pair as `Filt` with natural numbers (`ofFilt02`, `ofFilt04` read it as a C08
filter; `both` - order and size together - is rejected by every getter and has no C08 counterpart); C03 takes the two
optional integers (`os03 f` are the two keywords of a C08 filter). -/
namespace C08
namespace Link
open AL

theorem isSome_iff_mem_keys {α β : Type} [DecidableEq α] (l : List (α × β)) (k : α) :
    (get? l k).isSome = true ↔ k ∈ keys l := by
  have := get?_eq_none_iff l k
  cases hg : get? l k with
  | none => rw [hg] at this; simp [this.mp rfl]
  | some v =>
    rw [hg] at this
    simp only [Option.isSome_some, true_iff]
    apply Decidable.byContradiction
    intro hc
    exact absurd (this.mpr hc) (by simp)

theorem length_filter_perm {α : Type} {l1 l2 : List α} (h : l1.Perm l2) : l1.length = l2.length := h.length_eq

/-- `dirDegreeSeq` / `dirDegreeDist` as per-node view and histogram (the statement of `C08_seq_dist_directed`) -/
theorem C08_seq_dist_directed' (nodes : List Nat) (keys : List (List Nat × List Nat)) (f : Filt) :
    dirDegreeSeq nodes keys f = nodes.map (fun n => (n, dirDeg keys n f)) ∧
    (∀ d, lookup d (dirDegreeDist nodes keys f)
        = (if (nodes.map (fun n => dirDeg keys n f)).count d = 0 then none
           else some ((nodes.map (fun n => dirDeg keys n f)).count d))) := by
  have hd : ∀ g n, dirDeg keys n (toOrder g) = dirDeg keys n g := by
    intro g n; simp only [dirDeg, passes_toOrder]
  have hfold : dirDegreeDist nodes keys f = (nodes.map (fun n => dirDeg keys n f)).foldl (fun a x => bump x a) [] := by
    simp only [dirDegreeDist, dirDegreeSeq, hd, List.foldl_map]
  refine ⟨by simp only [dirDegreeSeq, hd], ?_⟩
  intro d
  rw [hfold, lookup_hist]
  simp [lookup]

/-! ## C02 `DirectedHypergraph` -/

/-- the keyword pair of C02 as a C08 filter (`both` is rejected by every getter) -/
def ofFilt02 : C02.Filt → Option Filt
  | .all => some .none
  | .size k => some (.size k)
  | .order k => some (.order k)
  | .both => none

theorem target02 (f : C02.Filt) (g : Filt) (hg : ofFilt02 f = some g) :
    ∃ t, f.target = some t ∧ ∀ k : C02.Key, C02.passes t false k = passes g (k.1.length + k.2.length) := by
  cases f with
  | all =>
    simp only [ofFilt02, Option.some.injEq] at hg; subst hg
    exact ⟨none, rfl, fun _ => rfl⟩
  | size m =>
    simp only [ofFilt02, Option.some.injEq] at hg; subst hg
    refine ⟨some m, rfl, fun k => ?_⟩
    simp only [C02.passes, C02.esize, passes, Bool.false_eq_true, if_false]
    rw [Bool.eq_iff_iff]
    simp only [beq_iff_eq]
    omega
  | order m =>
    simp only [ofFilt02, Option.some.injEq] at hg; subst hg
    refine ⟨some (m + 1), rfl, fun k => ?_⟩
    simp only [C02.passes, C02.esize, passes, Bool.false_eq_true, if_false]
    rw [Bool.eq_iff_iff]
    simp only [beq_iff_eq]
    omega
  | both => simp [ofFilt02] at hg

/-- `get_nodes()` / `get_edges()` of a `DirectedHypergraph` object -/
def nodes02 (s : C02.Store) : List Nat := C02.nodes s
def keys02 (s : C02.Store) : List (List Nat × List Nat) := keys s.edgeList

/-- the hypotheses of `C08_degree_directed`, `C08_handshake_directed`, `C08_degree` for a store with the invariant -/
theorem listing02 {s : C02.Store} (h : C02.Inv s) :
    (nodes02 s).Nodup ∧ (keys02 s).Nodup ∧
    (∀ k ∈ keys02 s, (k.1 ++ k.2).Nodup ∧ ∀ x ∈ k.1 ++ k.2, x ∈ nodes02 s) ∧
    (∀ k ∈ keys02 s, ∀ x ∈ k.1, x ∉ k.2) := by
  have hkey : ∀ k ∈ keys02 s, ∃ id, get? s.rev id = some k := fun k hk => (h.mem_keys_iff k).mp hk
  refine ⟨h.nd_adjS, h.nd_edge, ?_, ?_⟩
  · intro k hk
    obtain ⟨id, hid⟩ := hkey k hk
    have hw := h.key_wf id k hid
    refine ⟨List.nodup_append.mpr ⟨hw.nodupS, hw.nodupT, fun a ha b hb hab => hw.disj a ha (hab ▸ hb)⟩, ?_⟩
    intro x hx
    exact (isSome_iff_mem_keys _ _).mp (h.nodes_in id k hid x (List.mem_append.mp hx))
  · intro k hk x hx
    obtain ⟨id, hid⟩ := hkey k hk
    exact (h.key_wf id k hid).disj x hx

/-- `degree(hg, n, order|size)` of the object is `dirDeg` of its key listing -/
theorem degree02 {s : C02.Store} (h : C02.Inv s) (n : Nat) (f : C02.Filt) (g : Filt) (hg : ofFilt02 f = some g) :
    C02.degree s n f = if n ∈ nodes02 s then some (dirDeg (keys02 s) n g) else none := by
  obtain ⟨t, ht, hp⟩ := target02 f g hg
  by_cases hn : n ∈ nodes02 s
  · have hS : (get? s.adjS n).isSome := (isSome_iff_mem_keys _ _).mpr hn
    have hT : (get? s.adjT n).isSome := by rw [h.adj_same]; exact hS
    obtain ⟨idsS, hS⟩ := Option.isSome_iff_exists.mp hS
    obtain ⟨idsT, hT⟩ := Option.isSome_iff_exists.mp hT
    have e1 := h.sourceEdges_eq n idsS hS f t ht
    have e2 := h.targetEdges_eq n idsT hT f t ht
    have p1 := (h.sourceEdges_perm n idsS hS t).length_eq
    have p2 := (h.targetEdges_perm n idsT hT t).length_eq
    simp only [C02.degree, C02.incident, e1, e2, Option.map_some, hn, if_true, List.length_append, p1, p2, dirDeg,
      keys02]
    congr 2
    · congr 1
      apply List.filter_congr
      intro k _
      rw [hp k]; simp
    · congr 1
      apply List.filter_congr
      intro k _
      rw [hp k]; simp
  · have hS : get? s.adjS n = none := by
      cases hg : get? s.adjS n with
      | none => rfl
      | some v => exact absurd ((isSome_iff_mem_keys _ _).mp (by rw [hg]; rfl)) hn
    simp [C02.degree, C02.incident, C02.sourceEdges, hS, hn]

/-- `degree_sequence(hg, order|size)` of the object -/
theorem degreeSeq02 {s : C02.Store} (h : C02.Inv s) (f : C02.Filt) (g : Filt) (hg : ofFilt02 f = some g) :
    C02.degreeSeq s f = some (dirDegreeSeq (nodes02 s) (keys02 s) g) := by
  obtain ⟨t, ht, _⟩ := target02 f g hg
  have hd : ∀ n, dirDeg (keys02 s) n (toOrder g) = dirDeg (keys02 s) n g := by
    intro n; simp only [dirDeg, passes_toOrder]
  simp only [C02.degreeSeq, ht, dirDegreeSeq, hd]
  apply C02.mapM_some
  intro n hn
  have hn' : n ∈ nodes02 s := hn
  rw [degree02 h n f g hg, if_pos hn']
  rfl

/-- C02's histogram (a right fold) as a dict: value ↦ multiplicity -/
theorem get?_histogram (ds : List Nat) (d : Nat) :
    get? (C02.histogram ds) d = if ds.count d = 0 then none else some (ds.count d) := by
  induction ds with
  | nil => rfl
  | cons x t ih =>
    simp only [C02.histogram, get?_set, List.count_cons]
    by_cases hx : x = d
    · subst hx
      rw [ih]
      by_cases hc : List.count x t = 0 <;> simp [hc]
    · have hb : (x == d) = false := by simpa using hx
      simp only [hx, if_false, ih, hb, Bool.false_eq_true, Nat.add_zero]

/-- `degree_distribution(hg, order|size)` of the object: the same dict as `dirDegreeDist` of the listings -/
theorem degreeDist02 {s : C02.Store} (h : C02.Inv s) (f : C02.Filt) (g : Filt) (hg : ofFilt02 f = some g) :
    ∃ dist, C02.degreeDist s f = some dist ∧
      ∀ d, get? dist d = lookup d (dirDegreeDist (nodes02 s) (keys02 s) g) := by
  refine ⟨C02.histogram ((dirDegreeSeq (nodes02 s) (keys02 s) g).map (·.2)),
    by simp only [C02.degreeDist, degreeSeq02 h f g hg, Option.map_some], ?_⟩
  intro d
  obtain ⟨q1, q2⟩ := C08_seq_dist_directed' (nodes02 s) (keys02 s) g
  rw [get?_histogram, q2 d, q1, List.map_map]
  rfl

/-! ## C03 `TemporalHypergraph` -/

/-- the two keywords `order=`, `size=` of a C08 filter -/
def os03 : Filt → Option Int × Option Int
  | .none => (none, none)
  | .size s => (none, some s)
  | .order o => (some o, none)

/-- `get_nodes()` / `get_edges()` of a `TemporalHypergraph` object: records are `(time, nodes)` -/
def nodes03 (s : C03.Store) : List Nat := keys s.nmeta
def keys03 (s : C03.Store) : List (Nat × List Nat) := C03.edgeKeys s

theorem mem_nodes03 {s : C03.Store} (h : C03.Inv s) (n : Nat) : n ∈ nodes03 s ↔ (get? s.adj n).isSome = true := by
  unfold nodes03
  rw [← isSome_iff_mem_keys]
  exact (h.nt.same n).symm

theorem listing03 {s : C03.Store} (h : C03.Inv s) :
    (nodes03 s).Nodup ∧ (keys03 s).Nodup ∧ ∀ k ∈ keys03 s, k.2.Nodup ∧ ∀ x ∈ k.2, x ∈ nodes03 s := by
  refine ⟨h.nt.nmetaNodup, h.keysNodup, ?_⟩
  intro k hk
  obtain ⟨id, hid⟩ := Option.isSome_iff_exists.mp ((isSome_iff_mem_keys s.edgeList k).mpr hk)
  exact ⟨(h.keyCanon k id hid).2, fun x hx => (mem_nodes03 h x).mpr (h.nodes_in k id hid x hx)⟩

theorem inc03 {s : C03.Store} (h : C03.Inv s) (n : Nat) (hn : (get? s.adj n).isSome = true) :
    (C03.view s).inc n = some ((keys03 s).filter (fun k => k.2.contains n)) := by
  have := C03.incident_eq s h n hn
  simp only [C03.incident, C03.V.incident, C03.effOrder, Option.isSome_none, Bool.false_eq_true, Bool.and_self,
    if_false] at this
  cases hv : (C03.view s).inc n with
  | none => rw [hv] at this; simp at this
  | some ks => rw [hv] at this; simpa [keys03] using this

/-- `degree(hg, n, order|size)` of the object is `degG` of its record listing (members = the node tuple) -/
theorem degree03 {s : C03.Store} (h : C03.Inv s) (n : Nat) (f : Filt) :
    C03.degree s n (os03 f).1 (os03 f).2 =
      degreeG? (fun k : Nat × List Nat => k.2) (nodes03 s) (keys03 s) n f := by
  by_cases hn : n ∈ nodes03 s
  · have hn' := (mem_nodes03 h n).mp hn
    have hi := inc03 h n hn'
    simp only [degreeG?, hn, if_true, degG, incidentG]
    cases f with
    | none =>
      simp only [C03.degree, C03.V.degree, C03.V.incident, hi, os03, C03.effOrder, Option.isSome_none,
        Bool.false_eq_true, Bool.and_self, if_false, Option.map_some, passes, Bool.and_true]
      congr 2
      apply List.filter_congr
      intro k _; simp
    | size sz =>
      simp only [C03.degree, C03.V.degree, C03.V.incident, hi, os03, C03.effOrder, Option.isSome_none,
        Bool.false_eq_true, Bool.false_and, if_false, Option.map_some, List.filter_filter]
      congr 2
      apply List.filter_congr
      intro k _
      simp only [C03.passes, passes, Bool.false_eq_true, if_false, Bool.and_comm]
      congr 1
      simp
    | order o =>
      simp only [C03.degree, C03.V.degree, C03.V.incident, hi, os03, C03.effOrder, Option.isSome_none,
        Bool.false_eq_true, Bool.and_false, if_false, Option.map_some, List.filter_filter]
      congr 2
      apply List.filter_congr
      intro k _
      simp only [C03.passes, passes, Bool.false_eq_true, if_false, Bool.and_comm]
      congr 1
      simp
  · have hn' : get? s.adj n = none := by
      cases hg : get? s.adj n with
      | none => rfl
      | some v => exact absurd ((mem_nodes03 h n).mpr (by rw [hg]; rfl)) hn
    simp [C03.degree, C03.V.degree, C03.V.incident, C03.view, hn', degreeG?, hn]

/-- `degree_sequence(hg, order|size)` of the object (`if size is not None: order = size - 1`, then per-node `degree`) -/
theorem degreeSeq03 {s : C03.Store} (h : C03.Inv s) (f : Filt) :
    C03.V.degreeSeq (C03.view s) (os03 f).1 (os03 f).2 =
      some (degreeSeqG (fun k : Nat × List Nat => k.2) (nodes03 s) (keys03 s) f) := by
  have hb : ((os03 f).1.isSome && (os03 f).2.isSome) = false := by cases f <;> rfl
  have he : ∀ n, C03.V.degree (C03.view s) n (C03.effOrder (os03 f).1 (os03 f).2) none
      = C03.degree s n (os03 (toOrder f)).1 (os03 (toOrder f)).2 := by
    intro n; cases f <;> rfl
  simp only [C03.V.degreeSeq, hb, Bool.false_eq_true, if_false, degreeSeqG]
  apply C02.mapM_some
  intro n hn
  have hn' : n ∈ nodes03 s := hn
  rw [he n, degree03 h n (toOrder f)]
  simp only [degreeG?, hn', if_true, Option.map_some]

/-- `degree_distribution(hg, order|size)` of the object: the same dict, in the same order -/
theorem degreeDist03 {s : C03.Store} (h : C03.Inv s) (f : Filt) :
    C03.V.degreeDist (C03.view s) (os03 f).1 (os03 f).2 =
      some ((degreeDistG (fun k : Nat × List Nat => k.2) (nodes03 s) (keys03 s) f).map
        fun p => ((p.1 : Int), p.2)) := by
  simp only [C03.V.degreeDist, degreeSeq03 h f, Option.map_some]
  congr 1
  have := counter_hist ((degreeSeqG (fun k : Nat × List Nat => k.2) (nodes03 s) (keys03 s) f).map (·.2)) []
  simp only [List.map_nil, List.map_map] at this
  rw [show degreeDistG (fun k : Nat × List Nat => k.2) (nodes03 s) (keys03 s) f
      = ((degreeSeqG (fun k : Nat × List Nat => k.2) (nodes03 s) (keys03 s) f).map (·.2)).foldl
          (fun a x => bump x a) [] by
    simp only [degreeDistG, degreeSeqG, toOrder_toOrder, List.foldl_map]]
  rw [← this, List.foldl_map]
  rfl

/-! ## C04 `MultiplexHypergraph` -/

/-- the keyword pair of C04 as a C08 filter (`both` is rejected) -/
def ofFilt04 : C04.Filt → Option Filt
  | .all => some .none
  | .size k => some (.size k)
  | .order k => some (.order k)
  | .both => none

theorem sizeOK04 (f : C04.Filt) (g : Filt) (hg : ofFilt04 f = some g) :
    f ≠ .both ∧ ∀ e : List Nat, C04.sizeOK f e = passes g e.length := by
  cases f with
  | all =>
    simp only [ofFilt04, Option.some.injEq] at hg; subst hg
    exact ⟨by simp, fun _ => rfl⟩
  | size m =>
    simp only [ofFilt04, Option.some.injEq] at hg; subst hg
    refine ⟨by simp, fun e => ?_⟩
    simp only [C04.sizeOK, passes]
    rw [Bool.eq_iff_iff]
    simp only [beq_iff_eq]
    omega
  | order m =>
    simp only [ofFilt04, Option.some.injEq] at hg; subst hg
    refine ⟨by simp, fun e => ?_⟩
    simp only [C04.sizeOK, passes]
    rw [Bool.eq_iff_iff]
    simp only [beq_iff_eq]
    omega
  | both => simp [ofFilt04] at hg

/-- `get_nodes()` / `get_edges()` of a `MultiplexHypergraph` object: records are `(nodes, layer)` -/
def nodes04 (s : C04.Store) : List Nat := C04.nodes s
def keys04 (s : C04.Store) : List (List Nat × Nat) := C04.records s

theorem listing04 {s : C04.Store} (h : C04.Inv s) :
    (nodes04 s).Nodup ∧ (keys04 s).Nodup ∧ ∀ k ∈ keys04 s, k.1.Nodup ∧ ∀ x ∈ k.1, x ∈ nodes04 s := by
  refine ⟨h.nm.nm_nodup, h.id.el_nodup, ?_⟩
  intro k hk
  obtain ⟨id, hid⟩ := Option.isSome_iff_exists.mp ((isSome_iff_mem_keys s.edgeList k).mpr hk)
  have hrev := h.id.rev_of_edge k id hid
  refine ⟨(h.id.key_sorted id k hrev).nodup, fun x hx => ?_⟩
  exact (isSome_iff_mem_keys s.nmeta x).mp (by
    have := (h.nm.adj_nm x).mp (h.adj.nodes_in id k hrev x hx)
    exact this)

/-- `degree(hg, n, order|size)` of the object is `degG` of its record listing (members = the node tuple) -/
theorem degree04 {s : C04.Store} (h : C04.Inv s) (n : Nat) (f : C04.Filt) (g : Filt) (hg : ofFilt04 f = some g) :
    C04.degree s n f = degreeG? (fun k : List Nat × Nat => k.1) (nodes04 s) (keys04 s) n g := by
  obtain ⟨hb, hp⟩ := sizeOK04 f g hg
  have hrec : C04.Spec.records (C04.abs s) = keys04 s := (C04.records_abs s).symm
  have hnm : (C04.abs s).nodes = s.nmeta := rfl
  simp only [C04.degree, C04.incident_abs s n f h, C04.Spec.incident, hb, if_false, hrec, hnm, degreeG?, degG,
    incidentG]
  by_cases hn : n ∈ nodes04 s
  · have hn' := (isSome_iff_mem_keys s.nmeta n).mpr hn
    simp only [hn', hn, if_true, Option.map_some]
    congr 2
    apply List.filter_congr
    intro k _
    rw [hp k.1]
  · have hn' : (get? s.nmeta n).isSome = false := by
      cases hg : (get? s.nmeta n).isSome with
      | false => rfl
      | true => exact absurd ((isSome_iff_mem_keys s.nmeta n).mp hg) hn
    simp [hn', hn]

/-- `degree_sequence(hg, order|size)` of the object -/
theorem degreeSeq04 {s : C04.Store} (h : C04.Inv s) (f : C04.Filt) (g : Filt) (hg : ofFilt04 f = some g) :
    C04.degreeSeq s f = some (degreeSeqG (fun k : List Nat × Nat => k.1) (nodes04 s) (keys04 s) g) := by
  obtain ⟨hb, _⟩ := sizeOK04 f g hg
  simp only [C04.degreeSeq, hb, if_false, degreeSeqG, degG_toOrder]
  apply C02.mapM_some
  intro n hn
  rw [degree04 h n f g hg]
  simp only [degreeG?, nodes04, hn, if_true, Option.map_some]

end Link
end C08
