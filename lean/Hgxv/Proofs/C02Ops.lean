import Hgxv.Proofs.C02Node
/-! C02 helper lemmas, part 5: every public operation, the constructor and `copy` preserve the invariant. -/
namespace C02
open AL

theorem setWeight_inv (s : Store) (e : RawEdge) (w : Int) (h : Inv s) : Inv (setWeight s e w).1 := by
  unfold setWeight
  split
  · exact h
  · split
    · exact h
    · split
      · rename_i k id hk; exact h.set_weights id w (h.weights_of_edge _ id hk)
      · exact h

theorem setNodeMeta_inv (s : Store) (n : Node) (md : Meta) (h : Inv s) : Inv (setNodeMeta s n md).1 := by
  unfold setNodeMeta
  split
  · rename_i hn
    refine h.set_nmeta n md ?_
    rw [h.nmeta_same]; exact hn
  · exact h

theorem setEdgeMeta_inv (s : Store) (e : RawEdge) (md : Meta) (h : Inv s) : Inv (setEdgeMeta s e md).1 := by
  unfold setEdgeMeta
  split
  · exact h
  · split
    · rename_i k id hk; exact h.set_emeta id md (h.emeta_of_edge _ id hk)
    · exact h

theorem setAttrNode_inv (s : Store) (n : Node) (a v : Nat) (h : Inv s) : Inv (setAttrNode s n a v).1 := by
  unfold setAttrNode
  split
  · rename_i md hn
    split
    · exact h
    · exact h.set_nmeta n _ (by simp [hn])
  · exact h

theorem delAttrNode_inv (s : Store) (n : Node) (a : Nat) (h : Inv s) : Inv (delAttrNode s n a).1 := by
  unfold delAttrNode
  split
  · rename_i md hn
    split
    · exact h.set_nmeta n _ (by simp [hn])
    · exact h
  · exact h

theorem setAttrEdge_inv (s : Store) (e : RawEdge) (a v : Nat) (h : Inv s) : Inv (setAttrEdge s e a v).1 := by
  unfold setAttrEdge
  split
  · exact h
  · split
    · exact h
    · split
      · rename_i id _ _ md hm
        split
        · exact h
        · exact h.set_emeta id _ (by simp [hm])
      · exact h

theorem delAttrEdge_inv (s : Store) (e : RawEdge) (a : Nat) (h : Inv s) : Inv (delAttrEdge s e a).1 := by
  unfold delAttrEdge
  split
  · exact h
  · split
    · exact h
    · split
      · rename_i id _ _ md hm
        split
        · exact h.set_emeta id _ (by simp [hm])
        · exact h
      · exact h

theorem addEdgesLoop_inv (s : Store) (es : List RawEdge) (ws : Option (List Int)) (mds : Option (List Meta))
    (hes : ∀ e ∈ es, RawWF e) (h : Inv s) : Inv (addEdgesLoop s es ws mds).1 := by
  induction es generalizing s ws mds with
  | nil => exact h
  | cons e es ih =>
    have h1 : ∀ w md, Inv (addEdge s e w md).1 := fun w md => addEdge_inv s e w md (hes e List.mem_cons_self) h
    have hes' : ∀ e' ∈ es, RawWF e' := fun e' he' => hes e' (List.mem_cons_of_mem _ he')
    unfold addEdgesLoop
    split
    · exact h
    · split
      · exact h
      · simp only []
        split
        · exact h1 _ _
        · exact ih _ _ _ hes' (h1 _ _)

theorem addEdges_inv (s : Store) (es : List RawEdge) (ws : Option (List Int)) (mds : Option (List Meta))
    (hes : ∀ e ∈ es, RawWF e) (h : Inv s) : Inv (addEdges s es ws mds).1 := by
  unfold addEdges
  simp only []
  have h0 : Inv (if ws.isSome && !s.weighted then { s with weighted := true } else s) := by
    split
    · exact h.set_weighted true
    · exact h
  split
  · split
    · exact h0
    · exact addEdgesLoop_inv _ _ _ _ hes h0
  · exact addEdgesLoop_inv _ _ _ _ hes h0

/-- the hypothesis of the property's quantifier on one operation: hyperedges handed to `add_edge(s)` have
    duplicate-free, disjoint, non-empty sides -/
def Op.WF : Op → Prop
  | .addEdge e _ _ => RawWF e
  | .addEdges es _ _ => ∀ e ∈ es, RawWF e
  | _ => True

theorem applyOp_inv (s : Store) (o : Op) (ho : o.WF) (h : Inv s) : Inv (applyOp s o).1 := by
  cases o with
  | addNode n md => exact addNode_inv s n md h
  | addNodes ns => exact addNodes_inv s ns h
  | addEdge e w md => exact addEdge_inv s e w md ho h
  | addEdges es ws mds => exact addEdges_inv s es ws mds ho h
  | removeEdge e => exact removeEdge_inv s e h
  | removeEdges es => exact removeEdges_inv s es h
  | removeNode n keep => exact removeNode_inv s n keep h
  | removeNodes ns keep => exact removeNodes_inv s keep ns h
  | setWeight e w => exact setWeight_inv s e w h
  | setNodeMeta n md => exact setNodeMeta_inv s n md h
  | setEdgeMeta e md => exact setEdgeMeta_inv s e md h
  | setHMeta md => exact h.set_hmeta md
  | setAttrH a v =>
    show Inv (setAttrHOp s a v).1
    unfold setAttrHOp
    split
    · exact h
    · exact h.set_hmeta _
  | setAttrNode n a v => exact setAttrNode_inv s n a v h
  | setAttrEdge e a v => exact setAttrEdge_inv s e a v h
  | delAttrNode n a => exact delAttrNode_inv s n a h
  | delAttrEdge e a => exact delAttrEdge_inv s e a h
  | clear => exact clear_inv s

theorem run_inv (s : Store) (ops : List Op) (hops : ∀ o ∈ ops, o.WF) (h : Inv s) : Inv (run s ops) := by
  induction ops generalizing s with
  | nil => exact h
  | cons o os ih =>
    exact ih _ (fun o' ho' => hops o' (List.mem_cons_of_mem _ ho')) (applyOp_inv s o (hops o List.mem_cons_self) h)

theorem addNodesMeta_inv (s : Store) (l : List (Node × Meta)) (h : Inv s) : Inv (addNodesMeta s l) := by
  induction l generalizing s with
  | nil => exact h
  | cons p r ih => obtain ⟨n, md⟩ := p; exact ih _ (addNode_inv s n (some md) h)

theorem ctor_inv (w : Bool) (hm : Option Meta) (nm : Option (List (Node × Meta))) (es : Option (List RawEdge))
    (ws : Option (List Int)) (mds : Option (List Meta)) (hes : ∀ e ∈ es.getD [], RawWF e) :
    Inv (ctor w hm nm es ws mds).1 := by
  unfold ctor
  simp only []
  have h1 := addNodesMeta_inv _ (nm.getD []) (inv_init w (ctorHMeta hm w))
  cases es with
  | none => exact h1
  | some el =>
    simp only []
    split
    · exact h1
    · exact addEdges_inv _ _ _ _ hes h1

def Cmd.WF : Cmd → Prop
  | .new _ _ _ _ es _ _ => ∀ e ∈ es.getD [], RawWF e
  | .copy _ _ => True
  | .op _ o => o.WF

/-- every object of a state satisfies the invariant -/
def StateInv (st : State) : Prop := ∀ slot s, get? st slot = some s → Inv s

theorem step_inv (st : State) (c : Cmd) (hc : c.WF) (h : StateInv st) : StateInv (step st c).1 := by
  cases c with
  | new slot w hm nm es ws mds =>
    simp only [step]
    have h1 := ctor_inv w hm nm es ws mds hc
    cases hr : ctor w hm nm es ws mds with
    | mk s o =>
      rw [hr] at h1
      cases o with
      | rej => exact h
      | ok =>
        intro sl s' hs'
        simp only [get?_set] at hs'
        split at hs'
        · injection hs' with hs'; subst hs'; exact h1
        · exact h sl s' hs'
  | copy a b =>
    simp only [step]
    cases ha : get? st a with
    | none => exact h
    | some s =>
      intro sl s' hs'
      simp only [get?_set] at hs'
      split at hs'
      · injection hs' with hs'; subst hs'; exact h a _ ha
      · exact h sl s' hs'
  | op slot o =>
    simp only [step]
    cases ha : get? st slot with
    | none => exact h
    | some s =>
      intro sl s' hs'
      simp only [get?_set] at hs'
      split at hs'
      · injection hs' with hs'; subst hs'; exact applyOp_inv s o hc (h slot s ha)
      · exact h sl s' hs'

def runCmds (st : State) : List Cmd → State
  | [] => st
  | c :: cs => runCmds (step st c).1 cs

theorem runCmds_inv (st : State) (cs : List Cmd) (hcs : ∀ c ∈ cs, c.WF) (h : StateInv st) : StateInv (runCmds st cs) := by
  induction cs generalizing st with
  | nil => exact h
  | cons c cs ih =>
    exact ih _ (fun c' hc' => hcs c' (List.mem_cons_of_mem _ hc')) (step_inv st c (hcs c List.mem_cons_self) h)

end C02
