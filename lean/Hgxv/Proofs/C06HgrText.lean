import Hgxv.Model.C06HgrText
import Hgxv.Proofs.C06Json
namespace C06
namespace HgrText
open Num Json

theorem splitSP_noSP (a : List Nat) (h : 32 ∉ a) : splitSP a = [a] := by
  induction a with
  | nil => rfl
  | cons c cs ih =>
    have hc : c ≠ 32 := fun e => h (e ▸ List.mem_cons_self)
    have hcs : 32 ∉ cs := fun m => h (List.mem_cons_of_mem _ m)
    simp only [splitSP, if_neg hc, ih hcs]

theorem splitSP_append (a b : List Nat) (h : 32 ∉ a) : splitSP (a ++ 32 :: b) = a :: splitSP b := by
  induction a with
  | nil => simp [splitSP]
  | cons c cs ih =>
    have hc : c ≠ 32 := fun e => h (e ▸ List.mem_cons_self)
    have hcs : 32 ∉ cs := fun m => h (List.mem_cons_of_mem _ m)
    simp only [List.cons_append, splitSP, if_neg hc, ih hcs]

theorem splitSP_joinSP (t : List Nat) (ts : List (List Nat)) (h : ∀ x ∈ t :: ts, 32 ∉ x) :
    splitSP (joinSP (t :: ts)) = t :: ts := by
  induction ts generalizing t with
  | nil => exact splitSP_noSP t (h t List.mem_cons_self)
  | cons t' ts ih =>
    simp only [joinSP]
    rw [splitSP_append _ _ (h t List.mem_cons_self), ih t' (fun x hx => h x (List.mem_cons_of_mem _ hx))]

theorem natDigits_noSP (n : Nat) : 32 ∉ natDigits n := by
  intro h
  have := natDigits_all n 32 h
  omega

theorem pyNat_natDigits (n : Nat) : pyNat (natDigits n) = some n := by
  unfold pyNat
  have h2 : (natDigits n).all isDigit = true := by
    rw [List.all_eq_true]; intro d hd
    have := natDigits_all n d hd
    simp [isDigit]; omega
  rw [if_pos ⟨natDigits_ne_nil n, h2⟩, digitsVal_natDigits]

theorem mapM_pyNat (ts : List Nat) : (ts.map natDigits).mapM pyNat = some ts := by
  induction ts with
  | nil => rfl
  | cons t ts ih => simp [List.mapM_cons, pyNat_natDigits, ih]

theorem filter_digits (ts : List Nat) : (ts.map natDigits).filter (fun t => t ≠ []) = ts.map natDigits := by
  apply List.filter_eq_self.mpr
  intro x hx
  obtain ⟨n, _, rfl⟩ := List.mem_map.mp hx
  simp [natDigits_ne_nil]

/-- the tokens of a valid data line are the numbers written -/
theorem tokens_dataLine (t : Nat) (ts : List Nat) : tokens (dataLine (t :: ts)) = some (t :: ts) := by
  unfold tokens dataLine
  have h : ∀ x ∈ (natDigits t :: ts.map natDigits), 32 ∉ x := by
    intro x hx
    rcases List.mem_cons.mp hx with rfl | hx
    · exact natDigits_noSP t
    · obtain ⟨n, _, rfl⟩ := List.mem_map.mp hx
      exact natDigits_noSP n
  rw [List.map_cons, splitSP_joinSP _ _ h, ← List.map_cons, filter_digits, mapM_pyNat]

theorem isSpace_digit (z : Nat) (h : 48 ≤ z ∧ z ≤ 57) : isSpace z = false := by
  unfold isSpace
  simp
  omega

theorem strip_id (a z : Nat) (l' ini : List Nat) (h : a :: l' = ini ++ [z]) (ha : isSpace a = false)
    (hz : isSpace z = false) : strip (a :: l') = a :: l' := by
  unfold strip
  rw [List.dropWhile_cons_of_neg (by simp [ha]), h]
  simp [List.dropWhile_cons_of_neg, hz]

theorem natDigits_head (n : Nat) : ∃ a r, natDigits n = a :: r ∧ 48 ≤ a ∧ a ≤ 57 := by
  cases h : natDigits n with
  | nil => exact absurd h (natDigits_ne_nil n)
  | cons a r => exact ⟨a, r, rfl, natDigits_all n a (h ▸ List.mem_cons_self)⟩

theorem natDigits_last (n : Nat) : ∃ ini z, natDigits n = ini ++ [z] ∧ 48 ≤ z ∧ z ≤ 57 := by
  rw [natDigits]
  split
  · exact ⟨[], 48 + n, rfl, by omega, by omega⟩
  · exact ⟨natDigits (n / 10), 48 + n % 10, rfl, by omega, by omega⟩

theorem joinSP_last (P : Nat → Prop) (t : List Nat) (ts : List (List Nat))
    (h : ∀ x ∈ t :: ts, ∃ ini z, x = ini ++ [z] ∧ P z) : ∃ ini z, joinSP (t :: ts) = ini ++ [z] ∧ P z := by
  induction ts generalizing t with
  | nil => exact h t List.mem_cons_self
  | cons t' ts ih =>
    obtain ⟨ini, z, he, hp⟩ := ih t' (fun x hx => h x (List.mem_cons_of_mem _ hx))
    refine ⟨t ++ 32 :: ini, z, ?_, hp⟩
    simp only [joinSP, he, List.append_assoc, List.cons_append]

theorem joinSP_head (a : Nat) (t : List Nat) (ts : List (List Nat)) : ∃ r, joinSP ((a :: t) :: ts) = a :: r := by
  cases ts with
  | nil => exact ⟨t, rfl⟩
  | cons t' ts => exact ⟨_, by simp only [joinSP, List.cons_append]; rfl⟩

theorem joinSP_mem (c : Nat) (ts : List (List Nat)) (h : c ∈ joinSP ts) : c = 32 ∨ ∃ t ∈ ts, c ∈ t := by
  induction ts with
  | nil => simp [joinSP] at h
  | cons t ts ih =>
    cases ts with
    | nil => exact Or.inr ⟨t, List.mem_cons_self, h⟩
    | cons t' ts =>
      simp only [joinSP, List.mem_append, List.mem_cons] at h
      rcases h with h | h | h
      · exact Or.inr ⟨t, List.mem_cons_self, h⟩
      · exact Or.inl h
      · rcases ih h with h | ⟨x, hx, hc⟩
        · exact Or.inl h
        · exact Or.inr ⟨x, List.mem_cons_of_mem _ hx, hc⟩

theorem dataLine_noLF (ts : List Nat) : 10 ∉ dataLine ts := by
  intro h
  rcases joinSP_mem 10 _ h with h | ⟨t, ht, hc⟩
  · omega
  · obtain ⟨n, _, rfl⟩ := List.mem_map.mp ht
    have := natDigits_all n 10 hc
    omega

theorem dataLine_shape (t : Nat) (ts : List Nat) :
    ∃ a r ini z, dataLine (t :: ts) = a :: r ∧ a :: r = ini ++ [z] ∧ (48 ≤ a ∧ a ≤ 57) ∧ (48 ≤ z ∧ z ≤ 57) := by
  obtain ⟨a, r0, hh, ha⟩ := natDigits_head t
  have h1 : ∃ r, dataLine (t :: ts) = a :: r := by
    unfold dataLine; rw [List.map_cons, hh]; exact joinSP_head a r0 _
  obtain ⟨r, hr⟩ := h1
  have h2 : ∃ ini z, dataLine (t :: ts) = ini ++ [z] ∧ (48 ≤ z ∧ z ≤ 57) := by
    unfold dataLine; rw [List.map_cons]
    apply joinSP_last (fun z => 48 ≤ z ∧ z ≤ 57)
    intro x hx
    rw [← List.map_cons] at hx
    obtain ⟨n, _, rfl⟩ := List.mem_map.mp hx
    exact natDigits_last n
  obtain ⟨ini, z, hz, hzz⟩ := h2
  exact ⟨a, r, ini, z, hr, hr ▸ hz, ha, hzz⟩

theorem strip_dataLine (t : Nat) (ts : List Nat) : strip (dataLine (t :: ts)) = dataLine (t :: ts) := by
  obtain ⟨a, r, ini, z, h1, h2, ha, hz⟩ := dataLine_shape t ts
  rw [h1]
  exact strip_id a z r ini h2 (isSpace_digit a ha) (isSpace_digit z hz)

theorem lexLine_dataLine (t : Nat) (ts : List Nat) : lexLine (dataLine (t :: ts)) = some (.toks (t :: ts)) := by
  unfold lexLine
  rw [strip_dataLine, tokens_dataLine]
  obtain ⟨a, r, ini, z, h1, _, ha, _⟩ := dataLine_shape t ts
  have hn : ¬ (dataLine (t :: ts) = [] ∨ (dataLine (t :: ts)).head? = some 37) := by
    rw [h1]; simp; omega
  rw [if_neg hn]; rfl

theorem lexText_cons (l rest : List Nat) (h : 10 ∉ l) :
    lexText (l ++ 10 :: rest) = (lexLine l).bind (fun x => (lexText rest).map (x :: ·)) := by
  unfold lexText
  rw [splitLF_append _ _ h, List.mapM_cons]
  cases lexLine l <;> simp
  cases List.mapM lexLine (splitLF rest) <;> simp

theorem lexText_rows (rows : List (List Nat)) (h : ∀ r ∈ rows, r ≠ []) :
    lexText (unlines (rows.map dataLine)) = some (rows.map Line.toks ++ [.skip]) := by
  induction rows with
  | nil => decide
  | cons r rows ih =>
    cases r with
    | nil => exact absurd rfl (h [] List.mem_cons_self)
    | cons t ts =>
      simp only [List.map_cons, unlines]
      rw [lexText_cons _ _ (dataLine_noLF _), lexLine_dataLine, ih (fun r hr => h r (List.mem_cons_of_mem _ hr))]
      rfl

theorem hgrScan_skip (s : HgrSt) (ls : List Line) : hgrScan s (ls ++ [.skip]) = hgrScan s ls := by
  induction ls generalizing s with
  | nil => simp [hgrScan, hgrStep]
  | cons l ls ih =>
    simp only [List.cons_append, hgrScan]
    cases hgrStep s l with
    | none => rfl
    | some s' => exact ih s'

theorem parseHgrText_rows (rows : List (List Nat)) (h : ∀ r ∈ rows, r ≠ []) :
    parseHgrText (unlines (rows.map dataLine)) = parseHgr (rows.map Line.toks) := by
  unfold parseHgrText
  rw [lexText_rows rows h]
  simp only [Option.bind_some, parseHgr, hgrScan_skip]

end HgrText
end C06
