import Hgxv.Model.C12
import Hgxv.Proofs.C02Total
/-! # C12 ↔ C02: the directed measures on objects reached through any history of `DirectedHypergraph`

C12's model takes the LISTINGS of a directed hypergraph (`get_edges()`, `get_nodes()`); C02's model is the full
container (`C02.Store`, id-indexed tables) with its invariant `C02.Inv` / `C02.Ord` for every history and the abstract
object `C02.abs s`.  The map between the two is the identity on hyperedges: `C12.DEdge = C02.Key = List Nat × List Nat`
(sorted source tuple, sorted target tuple of node ranks).

Here (core Lean only), for every store satisfying the invariants:
* `listing s` (= the answer of `get_edges()`) has no duplicate, every element is a canonical key with non-empty disjoint
  sides whose nodes are listed by `get_nodes()`;
* `get_source_edges(n, order, size)` / `get_target_edges` answer EXACTLY the filter of `listing s` that C12's
  `inDegree` / `outDegree` count (list equality, creation order), so the degrees coincide; the sequences coincide as
  lists; the same on `C02.abs s`;
* `get_edges(size=m, up_to=True)` (the loop of `hyperedge_signature_vector`) and `get_edges(size=k)` are the filters the
  model takes of `listing s`; `max(get_sizes())` bounds every size;
* a hyperedge is exactly reciprocated in the model iff `check_edge((target, source))` says so on the object. -/
namespace C12
open AL
set_option linter.unusedVariables false
set_option linter.unusedSimpArgs false

/-- what `DirectedHypergraph.get_edges()` returns: the keys of `_edge_list` in creation order -/
def listing (s : C02.Store) : List DEdge := keys s.edgeList

/-- the invariants every history keeps (`C02.runCmds_all`) -/
structure Good (s : C02.Store) : Prop where
  inv : C02.Inv s
  ord : C02.Ord s

theorem good_of_history (cs : List C02.Cmd) (hcs : ∀ c ∈ cs, c.WF) (slot : Nat) (s : C02.Store)
    (hs : get? (C02.runCmds [] cs) slot = some s) : Good s := by
  obtain ⟨h, o, _⟩ := C02.runCmds_all [] cs hcs (fun _ _ h => by simp [get?] at h)
    (fun _ _ h => by simp [get?] at h) (fun _ _ h => by simp [get?] at h)
  exact ⟨h slot s hs, o slot s hs⟩

/-- the abstract object of the history in the same slot is `abs s` -/
theorem abs_of_history (cs : List C02.Cmd) (hcs : ∀ c ∈ cs, c.WF) (slot : Nat) (s : C02.Store)
    (hs : get? (C02.runCmds [] cs) slot = some s) :
    get? (C02.Spec.runCmds [] cs) slot = some (C02.abs s) := by
  obtain ⟨h1, _, _⟩ := C02.abs_runCmds [] cs hcs (fun _ _ h => by simp [get?] at h)
    (fun _ _ h => by simp [get?] at h)
  have : C02.absState [] = [] := rfl
  rw [this] at h1
  rw [← h1]
  show get? ((C02.runCmds [] cs).map (fun p => (p.1, C02.abs p.2))) slot = _
  rw [get?_map_val, hs]; rfl

/-! ## the size filters are the same function -/

theorem passes_eq (t : Option Nat) (e : DEdge) : C02.passes t false e = passes t e := by
  cases t with
  | none => rfl
  | some m => simp [C02.passes, passes, C02.esize, esize]

theorem srcPred_eq (t : Option Nat) (n : Nat) :
    (fun k : DEdge => k.1.contains n && C02.passes t false k) = (fun e => e.1.contains n && passes t e) := by
  funext k; rw [passes_eq]

theorem tgtPred_eq (t : Option Nat) (n : Nat) :
    (fun k : DEdge => k.2.contains n && C02.passes t false k) = (fun e => e.2.contains n && passes t e) := by
  funext k; rw [passes_eq]

/-! ## the listings -/

theorem get_edges_eq (s : C02.Store) : C02.edges s .all false = some (listing s) := by
  simp only [C02.edges, C02.Filt.target, Option.map_some, listing]
  congr 1
  exact List.filter_eq_self.mpr (fun k _ => rfl)

theorem listing_abs (s : C02.Store) : listing s = (C02.abs s).keyList := (C02.abs_edges_keys s).symm

theorem nodes_abs (s : C02.Store) : C02.nodes s = (C02.abs s).nodeList := C02.q_nodes s

theorem listing_nodup {s : C02.Store} (g : Good s) : (listing s).Nodup := g.inv.nd_edge

theorem nodes_nodup {s : C02.Store} (g : Good s) : (C02.nodes s).Nodup := g.inv.nd_adjS

theorem listing_wf {s : C02.Store} (g : Good s) (e : DEdge) (he : e ∈ listing s) :
    C02.KeyWF e ∧ ∀ n, (n ∈ e.1 ∨ n ∈ e.2) → n ∈ C02.nodes s := by
  obtain ⟨id, hid⟩ := (g.inv.mem_keys_iff e).mp he
  exact ⟨g.inv.key_wf id e hid, fun n hn => (isSome_get?_iff _ _).mp (g.inv.nodes_in id e hid n hn)⟩

/-- the hypothesis of `C12_order` / `C12_signature_cell` / `C12_signature_sum` -/
theorem listing_nonempty {s : C02.Store} (g : Good s) : ∀ e ∈ listing s, e.1 ≠ [] ∧ e.2 ≠ [] := by
  intro e he
  have wf := (listing_wf g e he).1
  exact ⟨wf.neS, wf.neT⟩

/-! ## role listings: exact list equality for every admissible filter -/

theorem sourceEdges_exact {s : C02.Store} (g : Good s) (n : Nat) (hn : C02.checkNode s n = true)
    (f : C02.Filt) (t : Option Nat) (hf : f.target = some t) :
    C02.sourceEdges s n f = some ((listing s).filter (fun e => e.1.contains n && passes t e)) := by
  have hS : (get? s.adjS n).isSome := hn
  obtain ⟨ids, hS⟩ := Option.isSome_iff_exists.mp hS
  rw [g.inv.sourceEdges_eq n ids hS f t hf]
  congr 1
  have hp := g.inv.sourceEdges_perm n ids hS t
  rw [srcPred_eq] at hp
  refine List.Perm.eq_of_pairwise (le := fun a b => C02.idOf s a < C02.idOf s b)
    (fun a b _ _ h1 h2 => absurd h1 (Nat.lt_asymm h2)) ?_ ?_ hp
  · exact (C02.listing_sorted_by_id s g.inv ids (g.ord.adjS_sorted n ids hS)).filter _
  · exact (C02.keys_sorted_by_id s g.inv g.ord).filter _

theorem targetEdges_exact {s : C02.Store} (g : Good s) (n : Nat) (hn : C02.checkNode s n = true)
    (f : C02.Filt) (t : Option Nat) (hf : f.target = some t) :
    C02.targetEdges s n f = some ((listing s).filter (fun e => e.2.contains n && passes t e)) := by
  have hS : (get? s.adjS n).isSome := hn
  have hT : (get? s.adjT n).isSome := by rw [g.inv.adj_same]; exact hS
  obtain ⟨ids, hT⟩ := Option.isSome_iff_exists.mp hT
  rw [g.inv.targetEdges_eq n ids hT f t hf]
  congr 1
  have hp := g.inv.targetEdges_perm n ids hT t
  rw [tgtPred_eq] at hp
  refine List.Perm.eq_of_pairwise (le := fun a b => C02.idOf s a < C02.idOf s b)
    (fun a b _ _ h1 h2 => absurd h1 (Nat.lt_asymm h2)) ?_ ?_ hp
  · exact (C02.listing_sorted_by_id s g.inv ids (g.ord.adjT_sorted n ids hT)).filter _
  · exact (C02.keys_sorted_by_id s g.inv g.ord).filter _

/-- a node that `get_nodes()` does not list: both role listings raise (C12's functions are not asked about it) -/
theorem role_absent (s : C02.Store) (h : C02.Inv s) (n : Nat) (hn : C02.checkNode s n = false) (f : C02.Filt) :
    C02.sourceEdges s n f = none ∧ C02.targetEdges s n f = none := by
  have hS : get? s.adjS n = none := (has_false_iff _ _).mp hn
  have hT : get? s.adjT n = none := by
    have := h.adj_same n; rw [hS] at this
    cases hq : get? s.adjT n <;> simp_all
  exact ⟨by simp [C02.sourceEdges, hS], by simp [C02.targetEdges, hT]⟩

/-- both filters at once: `order` and `size` given raises -/
theorem role_both (s : C02.Store) (n : Nat) :
    C02.sourceEdges s n .both = none ∧ C02.targetEdges s n .both = none := by
  constructor
  · unfold C02.sourceEdges; cases get? s.adjS n <;> rfl
  · unfold C02.targetEdges; cases get? s.adjT n <;> rfl

/-! ## degrees -/

theorem inDegree_link {s : C02.Store} (g : Good s) (n : Nat) (hn : C02.checkNode s n = true)
    (f : C02.Filt) (t : Option Nat) (hf : f.target = some t) :
    C02.inDegree s n f = some (inDegree (listing s) t n) := by
  simp only [C02.inDegree, sourceEdges_exact g n hn f t hf, Option.map_some, inDegree]

theorem outDegree_link {s : C02.Store} (g : Good s) (n : Nat) (hn : C02.checkNode s n = true)
    (f : C02.Filt) (t : Option Nat) (hf : f.target = some t) :
    C02.outDegree s n f = some (outDegree (listing s) t n) := by
  simp only [C02.outDegree, targetEdges_exact g n hn f t hf, Option.map_some, outDegree]

/-- the same on the abstract object: its `in_degree` / `out_degree` ARE C12's functions of its key list -/
theorem spec_degrees (a : C02.Spec) (n : Nat) (hn : has a.nodes n = true) (f : C02.Filt) (t : Option Nat)
    (hf : f.target = some t) :
    a.inDegree n f = some (inDegree a.keyList t n) ∧ a.outDegree n f = some (outDegree a.keyList t n) := by
  constructor
  · simp only [C02.Spec.inDegree, C02.Spec.sourceEdges, hn, hf, Bool.not_true, Bool.false_eq_true, if_false,
      Option.map_some, inDegree, srcPred_eq]
  · simp only [C02.Spec.outDegree, C02.Spec.targetEdges, hn, hf, Bool.not_true, Bool.false_eq_true, if_false,
      Option.map_some, outDegree, tgtPred_eq]

theorem mem_nodes_check (s : C02.Store) (n : Nat) (hn : n ∈ C02.nodes s) : C02.checkNode s n = true :=
  (has_iff _ _).mpr hn

theorem inDegreeSeq_link {s : C02.Store} (g : Good s) (f : C02.Filt) (t : Option Nat) (hf : f.target = some t) :
    C02.inDegreeSeq s f = some (inDegreeSeq (C02.nodes s) (listing s) t) := by
  unfold C02.inDegreeSeq inDegreeSeq
  exact C02.mapM_some _ _ _ (fun n hn => by rw [inDegree_link g n (mem_nodes_check s n hn) f t hf]; rfl)

theorem outDegreeSeq_link {s : C02.Store} (g : Good s) (f : C02.Filt) (t : Option Nat) (hf : f.target = some t) :
    C02.outDegreeSeq s f = some (outDegreeSeq (C02.nodes s) (listing s) t) := by
  unfold C02.outDegreeSeq outDegreeSeq
  exact C02.mapM_some _ _ _ (fun n hn => by rw [outDegree_link g n (mem_nodes_check s n hn) f t hf]; rfl)

/-! ## the listings the signature / reciprocity routines ask for -/

/-- `get_edges(size=m, up_to=True)`: the selection `signature` loops over -/
theorem get_edges_upto (s : C02.Store) (m : Nat) :
    C02.edges s (.size m) true = some ((listing s).filter (fun e => esize e ≤ m)) := by
  simp only [C02.edges, C02.Filt.target, Option.map_some, listing]
  congr 2

/-- `get_edges(size=k)` -/
theorem get_edges_size (s : C02.Store) (k : Nat) :
    C02.edges s (.size k) false = some (ofSize k (listing s)) := by
  simp only [C02.edges, C02.Filt.target, Option.map_some, listing, ofSize]
  congr 2

/-- the denominator `tot[k]` of the three reciprocity tables, for a size within the bound, is the number of
    hyperedges `get_edges(size=k)` lists -/
theorem total_bounded (es : List DEdge) (m k : Nat) (hk : 2 ≤ k ∧ k ≤ m) :
    total (bounded m es) k = (ofSize k es).length := by
  unfold total ofSize bounded
  rw [List.filter_filter]
  congr 1
  apply List.filter_congr
  intro e _
  by_cases h : esize e = k
  · simp [h, hk.1, hk.2]
  · simp [h]

/-! ## `max(get_sizes())`, the default bound of `hyperedge_signature_vector` -/

theorem foldl_max_ge (l : List Nat) (a : Nat) : a ≤ l.foldl max a ∧ ∀ x ∈ l, x ≤ l.foldl max a := by
  induction l generalizing a with
  | nil => exact ⟨Nat.le_refl _, fun _ h => by cases h⟩
  | cons b t ih =>
    simp only [List.foldl_cons]
    obtain ⟨h1, h2⟩ := ih (max a b)
    refine ⟨Nat.le_trans (Nat.le_max_left a b) h1, ?_⟩
    intro x hx
    rcases List.mem_cons.mp hx with rfl | hx
    · exact Nat.le_trans (Nat.le_max_right a x) h1
    · exact h2 x hx

theorem maxSize_bound (s : C02.Store) (M : Nat) (h : C02.maxSize s = some M) :
    ∀ e ∈ listing s, esize e ≤ M := by
  intro e he
  have hm : esize e ∈ C02.sizes s := List.mem_map.mpr ⟨e, he, rfl⟩
  unfold C02.maxSize at h
  cases hsz : C02.sizes s with
  | nil => rw [hsz] at hm; cases hm
  | cons a l =>
    rw [hsz] at h hm
    simp only [Option.some.injEq] at h
    rw [← h]
    rcases List.mem_cons.mp hm with hx | hx
    · rw [hx]; exact (foldl_max_ge l a).1
    · exact (foldl_max_ge l a).2 _ hx

theorem maxSize_none (s : C02.Store) (h : C02.maxSize s = none) : listing s = [] := by
  unfold C02.maxSize at h
  cases hsz : C02.sizes s with
  | nil =>
    have : (listing s).map C02.esize = [] := hsz
    exact List.map_eq_nil_iff.mp this
  | cons a l => rw [hsz] at h; cases h

/-! ## exact reciprocity and `check_edge` -/

/-- for a hyperedge of the bounded set: the model's "`reciprocated_edge in edge_set`" is the object's
    `check_edge((target, source))` -/
theorem isExact_check {s : C02.Store} (g : Good s) (m : Nat) (e : DEdge) (he : e ∈ bounded m (listing s)) :
    C02.checkEdge s (C02.RawEdge.ofKey (e.2, e.1)) = some (isExact (bounded m (listing s)) e) := by
  obtain ⟨hel, hb⟩ := List.mem_filter.mp he
  have wf := (listing_wf g e hel).1
  have wf' : C02.KeyWF (e.2, e.1) :=
    ⟨wf.sortedT, wf.sortedS, wf.nodupT, wf.nodupS, fun n h2 h1 => wf.disj n h1 h2, wf.neT, wf.neS⟩
  have hsz : esize (e.2, e.1) = esize e := by simp [esize, Nat.add_comm]
  unfold C02.checkEdge
  rw [C02.canonStrict_ofKey _ wf']
  simp only [Option.map_some, Option.some.injEq]
  by_cases hin : (e.2, e.1) ∈ listing s
  · have h1 : has s.edgeList (e.2, e.1) = true := (has_iff _ _).mpr hin
    have h2 : (e.2, e.1) ∈ bounded m (listing s) := List.mem_filter.mpr ⟨hin, by rw [hsz]; exact hb⟩
    rw [h1]; simp [isExact, h2]
  · have h1 : has s.edgeList (e.2, e.1) = false := by
      cases hh : has s.edgeList (e.2, e.1) with
      | false => rfl
      | true => exact absurd ((has_iff _ _).mp hh) hin
    have h2 : (e.2, e.1) ∉ bounded m (listing s) := fun hc => hin (List.mem_filter.mp hc).1
    rw [h1]; simp [isExact, h2]

end C12
