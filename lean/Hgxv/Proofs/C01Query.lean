import Hgxv.Proofs.C01Ref
/-! C01, part 7: every query is answered from the abstraction; refinement for whole histories. -/
namespace C01
open AL

theorem edgesF_abs (s : Store) (f : Filter) : Spec.edgesF (abs s) f = edgesF s f := by
  simp only [Spec.edgesF, edgesF, abs_keys]

theorem incidentKeys_abs {s : Store} (h : Inv s) (n : Node) (hn : (get? s.adj n).isSome) :
    Spec.incidentKeys (abs s) n = incidentKeys s n := by
  rw [h.incidentKeys_eq n hn]; simp only [Spec.incidentKeys, abs_keys]

theorem incidentF_abs {s : Store} (h : Inv s) (n : Node) (f : Filter) :
    Spec.incidentF (abs s) n f = incidentF s n f := by
  unfold Spec.incidentF incidentF
  have hag : (get? (abs s).nodes n).isSome = (get? s.adj n).isSome := h.node_agree n
  rw [hag]
  cases hn : (get? s.adj n).isSome with
  | false => rfl
  | true => simp only [incidentKeys_abs h n hn]

theorem neighborsF_abs {s : Store} (h : Inv s) (n : Node) (f : Filter) :
    Spec.neighborsF (abs s) n f = neighborsF s n f := by
  simp only [Spec.neighborsF, neighborsF, incidentF_abs h]

theorem nodes_keys {s : Store} (h : Inv s) : keys (abs s).nodes = keys s.adj := h.nm_keys

theorem degreeSeqF_abs {s : Store} (h : Inv s) (f : Filter) : Spec.degreeSeqF (abs s) f = degreeSeqF s f := by
  unfold Spec.degreeSeqF degreeSeqF
  rw [nodes_keys h]
  cases f.resolve with
  | none => rfl
  | some o =>
    simp only [Option.map_some]
    congr 1
    apply List.map_congr_left
    intro n hn
    rw [incidentKeys_abs h n ((mem_keys_iff _ _).mp hn)]

theorem isolated_abs {s : Store} (h : Inv s) (o : Option Int) :
    ((keys (abs s).nodes).filter fun n =>
        (unionWithout n ((Spec.incidentKeys (abs s) n).filter (keepEdge o false))).isEmpty) =
    ((keys s.adj).filter fun n => (unionWithout n ((incidentKeys s n).filter (keepEdge o false))).isEmpty) := by
  rw [nodes_keys h]
  apply List.filter_congr
  intro n hn
  rw [incidentKeys_abs h n ((mem_keys_iff _ _).mp hn)]

/-- every query on a store satisfying the invariant is answered by the abstract hypergraph -/
theorem answer_abs (s : Store) (h : Inv s) (q : Query) : answer s q = Spec.answer (abs s) q := by
  have hnm : (abs s).nodes = s.nmeta := rfl
  cases q with
  | nodes => simp only [answer, Spec.answer, nodes_keys h]
  | nodesMeta =>
    simp only [answer, Spec.answer, hnm]
    rw [← h.nm_keys, keys_map_get s.nmeta [] (h.nm_keys ▸ h.adj_nodup)]
  | checkNode n => simp only [answer, Spec.answer, hnm, h.node_agree n]
  | numNodes => simp only [answer, Spec.answer, nodes_keys h]
  | edges f => simp only [answer, Spec.answer, edgesF_abs]
  | edgesMeta f => simp only [answer, Spec.answer, edgesF_abs, abs_emetaOf]
  | numEdges f => simp only [answer, Spec.answer, edgesF_abs]
  | len => simp only [answer, Spec.answer, abs_edges, List.length_map]
  | iter => simp only [answer, Spec.answer, abs_keys]
  | checkEdge raw => simp only [answer, Spec.answer, abs_isSome]
  | weight raw =>
    simp only [answer, Spec.answer, abs_get]
    cases get? s.edgeList (canon raw) <;> rfl
  | weights f =>
    have : Spec.weightOf (abs s) = weightOf s := funext (abs_weightOf s)
    simp only [answer, Spec.answer, edgesF_abs, this]
  | weightsDict f => simp only [answer, Spec.answer, edgesF_abs, abs_weightOf]
  | incident n f => simp only [answer, Spec.answer, incidentF_abs h]
  | neighbors n f => simp only [answer, Spec.answer, neighborsF_abs h]
  | degree n f => simp only [answer, Spec.answer, incidentF_abs h]
  | degreeSeq f => simp only [answer, Spec.answer, degreeSeqF_abs h]
  | degreeDist f => simp only [answer, Spec.answer, degreeSeqF_abs h]
  | sizes => simp only [answer, Spec.answer, abs_keys]
  | orders => simp only [answer, Spec.answer, abs_keys]
  | sizeDist => simp only [answer, Spec.answer, abs_keys]
  | maxSize => simp only [answer, Spec.answer, abs_keys]
  | maxOrder => simp only [answer, Spec.answer, abs_keys]
  | isUniform => simp only [answer, Spec.answer, abs_keys]
  | isWeighted => rfl
  | nodeMeta n =>
    simp only [answer, Spec.answer, hnm]
    have := h.node_agree n
    cases hg : get? s.nmeta n with
    | none => rw [hg] at this; simp [← this]
    | some md => rw [hg] at this; simp [← this]
  | edgeMeta raw =>
    simp only [answer, Spec.answer, abs_get]
    cases get? s.edgeList (canon raw) <;> rfl
  | allNodesMeta => rfl
  | allEdgesMeta => simp only [answer, Spec.answer, abs_edges, List.map_map]; rfl
  | hmeta => rfl
  | isolated f =>
    simp only [answer, Spec.answer]
    cases f.resolve with
    | none => rfl
    | some o => simp only [Option.map_some, isolated_abs h o]
  | isIsolated n f => simp only [answer, Spec.answer, neighborsF_abs h]

/-! ### histories -/

/-- the slots of the concrete state and of the spec state correspond -/
def StateSim (st : State) (sa : SState) : Prop := sa = st.map abs ∧ ∀ s ∈ st, Inv s

theorem step_sim (st : State) (sa : SState) (c : Cmd) (hwf : c.WF) (h : StateSim st sa) :
    StateSim (step st c).1 (Spec.step sa c).1 ∧ (step st c).2 = (Spec.step sa c).2 := by
  obtain ⟨hsa, hinv⟩ := h
  subst hsa
  have hinv' := step_inv st c hwf hinv
  cases c with
  | new i w hm =>
    simp only [step, Spec.step, List.length_map] at hinv' ⊢
    by_cases hc : i < st.length
    · simp only [if_pos hc] at hinv' ⊢
      exact ⟨⟨by rw [List.map_set]; rfl, hinv'⟩, trivial⟩
    · simp only [if_neg hc]
      exact ⟨⟨rfl, hinv⟩, trivial⟩
  | copy i j =>
    simp only [step, Spec.step, List.length_map, List.getElem?_map] at hinv' ⊢
    cases hs : st[i]? with
    | none => exact ⟨⟨rfl, hinv⟩, rfl⟩
    | some s0 =>
      simp only [hs, Option.map_some] at hinv' ⊢
      by_cases hc : j < st.length
      · simp only [if_pos hc] at hinv' ⊢
        exact ⟨⟨by rw [List.map_set], hinv'⟩, trivial⟩
      · simp only [if_neg hc]
        exact ⟨⟨rfl, hinv⟩, trivial⟩
  | on i op =>
    simp only [step, Spec.step, List.getElem?_map] at hinv' ⊢
    cases hs : st[i]? with
    | none => exact ⟨⟨rfl, hinv⟩, rfl⟩
    | some s0 =>
      simp only [hs, Option.map_some] at hinv' ⊢
      obtain ⟨e1, e2, _⟩ := sim_apply s0 op hwf (hinv _ (List.mem_of_getElem? hs))
      exact ⟨⟨by rw [List.map_set, e1], hinv'⟩, e2⟩

theorem run_sim : ∀ (cs : List Cmd) (st : State) (sa : SState), (∀ c ∈ cs, c.WF) → StateSim st sa →
    StateSim (run st cs) (Spec.run sa cs) := by
  intro cs
  induction cs with
  | nil => intro st sa _ h; exact h
  | cons c cs ih =>
    intro st sa hwf h
    simp only [run, Spec.run, List.foldl_cons]
    exact ih _ _ (fun c' hc' => hwf c' (List.mem_cons_of_mem _ hc')) (step_sim st sa c (hwf c List.mem_cons_self) h).1

theorem init_sim (k : Nat) : StateSim (init k) (Spec.init k) := by
  refine ⟨?_, init_inv k⟩
  simp only [init, Spec.init, List.map_replicate]
  rfl

theorem query_sim (st : State) (sa : SState) (h : StateSim st sa) (i : Nat) (q : Query) :
    query st i q = Spec.query sa i q := by
  obtain ⟨hsa, hinv⟩ := h
  subst hsa
  simp only [query, Spec.query, List.getElem?_map]
  cases hs : st[i]? with
  | none => rfl
  | some s0 => simp only [Option.map_some]; exact answer_abs s0 (hinv _ (List.mem_of_getElem? hs)) q

end C01
