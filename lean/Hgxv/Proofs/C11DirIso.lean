import Hgxv.Proofs.C11DirTally
import Hgxv.Proofs.C11Relabel
/-! # C11 - the directed census of a relabelled directed hypergraph is the same census (core Lean only) -/
namespace C11

/-- what `DirectedHypergraph.get_edges()` returns: distinct hyperedges, both sides strictly increasing tuples -/
structure DWF (E : DHG) : Prop where
  nodup : E.Nodup
  sorted : ∀ e ∈ E, SSorted e.1 ∧ SSorted e.2

theorem DWF.filter {E : DHG} (h : DWF E) (p : DEdge → Bool) : DWF (E.filter p) :=
  ⟨List.Pairwise.filter _ h.nodup, fun e he => h.sorted e (List.mem_filter.mp he).1⟩

/-- sorted duplicate-free list of the members of `l` -/
def sset (l : List Nat) : List Nat := isort (dedup l)

theorem mem_sset {l : List Nat} {x : Nat} : x ∈ sset l ↔ x ∈ l := by
  unfold sset; rw [mem_isort, mem_dedup]
theorem sset_sorted (l : List Nat) : SSorted (sset l) := isort_sorted (nodup_dedup _)

theorem dsize_relabel (π : Nat → Nat) (e : DEdge) : dsize (relabelDEdge π e) = dsize e := by
  simp [dsize, relabelDEdge, isort_length]

section
variable {π : Nat → Nat} (hπ : ∀ a b, π a = π b → a = b)
include hπ

theorem sset_relabel {l l' : List Nat} (h : ∀ y, y ∈ l' ↔ ∃ x ∈ l, π x = y) :
    relabelSet π (sset l) = sset l' := by
  apply eq_of_sorted_of_mem_iff (relabelSet_sorted hπ (sset_sorted l).nodup) (sset_sorted l')
  intro y
  rw [mem_relabelSet hπ, mem_sset]
  constructor
  · rintro ⟨x, hx, rfl⟩; exact (h _).mpr ⟨x, mem_sset.mp hx, rfl⟩
  · intro hy
    obtain ⟨x, hx, rfl⟩ := (h y).mp hy
    exact ⟨x, mem_sset.mpr hx, rfl⟩

theorem mem_side_relabel {s : List Nat} {y : Nat} : y ∈ isort (s.map π) ↔ ∃ x ∈ s, π x = y :=
  mem_relabelSet hπ

theorem mem_sides_relabel {e : DEdge} {y : Nat} :
    y ∈ (relabelDEdge π e).1 ++ (relabelDEdge π e).2 ↔ ∃ x ∈ e.1 ++ e.2, π x = y := by
  simp only [relabelDEdge, List.mem_append, mem_side_relabel hπ]
  constructor
  · rintro (⟨x, hx, rfl⟩ | ⟨x, hx, rfl⟩)
    · exact ⟨x, Or.inl hx, rfl⟩
    · exact ⟨x, Or.inr hx, rfl⟩
  · rintro ⟨x, hx | hx, rfl⟩
    · exact Or.inl ⟨x, hx, rfl⟩
    · exact Or.inr ⟨x, hx, rfl⟩

theorem dnodes_relabel (e : DEdge) : dnodes (relabelDEdge π e) = relabelSet π (dnodes e) :=
  (sset_relabel hπ (fun _ => mem_sides_relabel hπ)).symm

theorem relabelDEdge_inj {e f : DEdge} (he : SSorted e.1 ∧ SSorted e.2) (hf : SSorted f.1 ∧ SSorted f.2)
    (h : relabelDEdge π e = relabelDEdge π f) : e = f := by
  have h1 : relabelSet π e.1 = relabelSet π f.1 := congrArg Prod.fst h
  have h2 : relabelSet π e.2 = relabelSet π f.2 := congrArg Prod.snd h
  exact Prod.ext (relabelSet_inj hπ he.1 hf.1 h1) (relabelSet_inj hπ he.2 hf.2 h2)

theorem relabelDHG_wf {E : DHG} (hE : DWF E) : DWF (relabelDHG π E) := by
  constructor
  · unfold relabelDHG
    rw [List.nodup_iff_pairwise_ne, List.pairwise_map]
    refine List.Pairwise.imp_of_mem ?_ hE.nodup
    intro a b ha hb hab heq
    exact hab (relabelDEdge_inj hπ (hE.sorted a ha) (hE.sorted b hb) heq)
  · intro e' he'
    obtain ⟨e, he, rfl⟩ := List.mem_map.mp he'
    exact ⟨relabelSet_sorted hπ (hE.sorted e he).1.nodup, relabelSet_sorted hπ (hE.sorted e he).2.nodup⟩

omit hπ in
theorem dUpTo_relabel (n : Nat) (E : DHG) : dUpTo n (relabelDHG π E) = relabelDHG π (dUpTo n E) := by
  unfold dUpTo relabelDHG
  rw [List.filter_map]
  congr 1
  apply List.filter_congr
  intro e _
  simp [Function.comp, dsize_relabel]

/-! ## the visited node sets -/

omit hπ in
theorem mem_dFullSets {n : Nat} {E : DHG} {S : List Nat} :
    S ∈ dFullSets n E ↔ S.length = n ∧ ∃ e ∈ E, dnodes e = S := by
  unfold dFullSets
  rw [mem_visitNew]
  simp only [List.mem_map, List.not_mem_nil, not_false_eq_true, and_true]
  constructor
  · rintro ⟨h1, h2⟩; exact ⟨h2, h1⟩
  · rintro ⟨h1, h2⟩; exact ⟨h2, h1⟩

omit hπ in
theorem dFullSets_sorted {n : Nat} {E : DHG} {S : List Nat} (h : S ∈ dFullSets n E) : SSorted S := by
  obtain ⟨_, e, _, rfl⟩ := mem_dFullSets.mp h
  exact sset_sorted _

theorem mem_dFullSets_relabel {n : Nat} {E : DHG} {S' : List Nat} :
    S' ∈ dFullSets n (relabelDHG π E) ↔ ∃ S ∈ dFullSets n E, relabelSet π S = S' := by
  rw [mem_dFullSets]
  constructor
  · rintro ⟨hlen, e', he', rfl⟩
    obtain ⟨e, he, rfl⟩ := List.mem_map.mp he'
    rw [dnodes_relabel hπ] at hlen ⊢
    exact ⟨dnodes e, mem_dFullSets.mpr ⟨by rwa [relabelSet_length] at hlen, e, he, rfl⟩, rfl⟩
  · rintro ⟨S, hS, rfl⟩
    obtain ⟨hlen, e, he, rfl⟩ := mem_dFullSets.mp hS
    exact ⟨by rw [relabelSet_length, hlen], relabelDEdge π e, List.mem_map.mpr ⟨e, he, rfl⟩,
      dnodes_relabel hπ e⟩

omit hπ in
theorem mem_dNfCands {n : Nat} {E : DHG} {S : List Nat} :
    S ∈ dNfCands n E ↔ ∃ e ∈ E, (dnodes e).length + 1 = n ∧ dsize e + 1 = n ∧
      ∃ x, (x ∈ e.1 ∨ x ∈ e.2) ∧ ∃ f ∈ E, (x ∈ f.1 ∨ x ∈ f.2) ∧ (dnodes f).length = dsize f ∧
        S = sset (e.1 ++ e.2 ++ f.1 ++ f.2) := by
  simp only [dNfCands, dIncident, List.mem_flatMap, List.mem_filter, List.mem_map, mem_dedup, List.mem_append,
    Bool.and_eq_true, Bool.or_eq_true, beq_iff_eq, List.contains_iff_mem]
  constructor
  · rintro ⟨e, ⟨he, h1, h2⟩, x, hx, f, ⟨⟨hf, hxf⟩, hfd⟩, rfl⟩
    exact ⟨e, he, h1, h2, x, hx, f, hf, hxf, hfd, rfl⟩
  · rintro ⟨e, he, h1, h2, x, hx, f, hf, hxf, hfd, rfl⟩
    exact ⟨e, ⟨he, h1, h2⟩, x, hx, f, ⟨⟨hf, hxf⟩, hfd⟩, rfl⟩

omit hπ in
theorem dNfCands_sorted {n : Nat} {E : DHG} {S : List Nat} (h : S ∈ dNfCands n E) : SSorted S := by
  obtain ⟨_, _, _, _, _, _, _, _, _, _, rfl⟩ := mem_dNfCands.mp h
  exact sset_sorted _

theorem mem_side_iff {s : List Nat} {x : Nat} : π x ∈ isort (s.map π) ↔ x ∈ s := by
  rw [mem_side_relabel hπ]
  constructor
  · rintro ⟨x', hx', h⟩; exact hπ x' x h ▸ hx'
  · intro h; exact ⟨x, h, rfl⟩

theorem mem_dNfCands_relabel {n : Nat} {E : DHG} {S' : List Nat} :
    S' ∈ dNfCands n (relabelDHG π E) ↔ ∃ S ∈ dNfCands n E, relabelSet π S = S' := by
  have hunion : ∀ e f : DEdge, relabelSet π (sset (e.1 ++ e.2 ++ f.1 ++ f.2))
      = sset ((relabelDEdge π e).1 ++ (relabelDEdge π e).2 ++ (relabelDEdge π f).1 ++ (relabelDEdge π f).2) := by
    intro e f
    apply sset_relabel hπ
    intro y
    simp only [relabelDEdge, List.mem_append, mem_side_relabel hπ]
    constructor
    · rintro (((⟨x, hx, rfl⟩ | ⟨x, hx, rfl⟩) | ⟨x, hx, rfl⟩) | ⟨x, hx, rfl⟩)
      · exact ⟨x, Or.inl (Or.inl (Or.inl hx)), rfl⟩
      · exact ⟨x, Or.inl (Or.inl (Or.inr hx)), rfl⟩
      · exact ⟨x, Or.inl (Or.inr hx), rfl⟩
      · exact ⟨x, Or.inr hx, rfl⟩
    · rintro ⟨x, ((hx | hx) | hx) | hx, rfl⟩
      · exact Or.inl (Or.inl (Or.inl ⟨x, hx, rfl⟩))
      · exact Or.inl (Or.inl (Or.inr ⟨x, hx, rfl⟩))
      · exact Or.inl (Or.inr ⟨x, hx, rfl⟩)
      · exact Or.inr ⟨x, hx, rfl⟩
  rw [mem_dNfCands]
  constructor
  · rintro ⟨e', he', h1, h2, x', hx', f', hf', hxf', hfd, rfl⟩
    obtain ⟨e, he, rfl⟩ := List.mem_map.mp he'
    obtain ⟨f, hf, rfl⟩ := List.mem_map.mp hf'
    have hx0 : ∃ x, π x = x' ∧ (x ∈ e.1 ∨ x ∈ e.2) := by
      rcases hx' with h | h
      · obtain ⟨x, hx, rfl⟩ := (mem_side_relabel hπ).mp h; exact ⟨x, rfl, Or.inl hx⟩
      · obtain ⟨x, hx, rfl⟩ := (mem_side_relabel hπ).mp h; exact ⟨x, rfl, Or.inr hx⟩
    obtain ⟨x, rfl, hx⟩ := hx0
    have hxf : x ∈ f.1 ∨ x ∈ f.2 := by
      rcases hxf' with h | h
      · exact Or.inl ((mem_side_iff hπ).mp h)
      · exact Or.inr ((mem_side_iff hπ).mp h)
    rw [dnodes_relabel hπ, relabelSet_length] at h1 hfd
    rw [dsize_relabel] at h2 hfd
    refine ⟨sset (e.1 ++ e.2 ++ f.1 ++ f.2),
      mem_dNfCands.mpr ⟨e, he, h1, h2, x, hx, f, hf, hxf, hfd, rfl⟩, hunion e f⟩
  · rintro ⟨S, hS, rfl⟩
    obtain ⟨e, he, h1, h2, x, hx, f, hf, hxf, hfd, rfl⟩ := mem_dNfCands.mp hS
    refine ⟨relabelDEdge π e, List.mem_map.mpr ⟨e, he, rfl⟩, ?_, ?_, π x, ?_,
      relabelDEdge π f, List.mem_map.mpr ⟨f, hf, rfl⟩, ?_, ?_, hunion e f⟩
    · rw [dnodes_relabel hπ, relabelSet_length]; exact h1
    · rw [dsize_relabel]; exact h2
    · rcases hx with h | h
      · exact Or.inl ((mem_side_iff hπ).mpr h)
      · exact Or.inr ((mem_side_iff hπ).mpr h)
    · rcases hxf with h | h
      · exact Or.inl ((mem_side_iff hπ).mpr h)
      · exact Or.inr ((mem_side_iff hπ).mpr h)
    · rw [dnodes_relabel hπ, relabelSet_length, dsize_relabel]; exact hfd

theorem map_relabelSet_nodup {L : List (List Nat)} (hL : L.Nodup) (hs : ∀ S ∈ L, SSorted S) :
    (L.map (relabelSet π)).Nodup := by
  rw [List.nodup_iff_pairwise_ne, List.pairwise_map]
  refine List.Pairwise.imp_of_mem ?_ hL
  intro a b ha hb hab heq
  exact hab (relabelSet_inj hπ (hs a ha) (hs b hb) heq)

theorem dFullSets_perm (n : Nat) (E : DHG) :
    (dFullSets n (relabelDHG π E)).Perm ((dFullSets n E).map (relabelSet π)) := by
  apply (List.perm_ext_iff_of_nodup nodup_visitNew
    (map_relabelSet_nodup hπ nodup_visitNew (fun S hS => dFullSets_sorted hS))).mpr
  intro S'
  show S' ∈ dFullSets n (relabelDHG π E) ↔ S' ∈ List.map (relabelSet π) (dFullSets n E)
  rw [mem_dFullSets_relabel hπ, List.mem_map]

theorem dNotFullSets_perm (n : Nat) (E : DHG) :
    (dNotFullSets n (relabelDHG π E) (dFullSets n (relabelDHG π E))).Perm
      ((dNotFullSets n E (dFullSets n E)).map (relabelSet π)) := by
  have hsorted : ∀ S ∈ dNotFullSets n E (dFullSets n E), SSorted S := fun S hS =>
    dNfCands_sorted (mem_visitNew.mp hS).1
  apply (List.perm_ext_iff_of_nodup nodup_visitNew (map_relabelSet_nodup hπ nodup_visitNew hsorted)).mpr
  intro S'
  show S' ∈ visitNew n (dFullSets n (relabelDHG π E)) (dNfCands n (relabelDHG π E)) ↔
    S' ∈ List.map (relabelSet π) (visitNew n (dFullSets n E) (dNfCands n E))
  rw [mem_visitNew, List.mem_map, mem_dNfCands_relabel hπ, mem_dFullSets_relabel hπ]
  constructor
  · rintro ⟨⟨S, hS, rfl⟩, hlen, hnot⟩
    refine ⟨S, mem_visitNew.mpr ⟨hS, by rwa [relabelSet_length] at hlen, ?_⟩, rfl⟩
    intro hin; exact hnot ⟨S, hin, rfl⟩
  · rintro ⟨S, hS, rfl⟩
    obtain ⟨hc, hlen, hnot⟩ := mem_visitNew.mp hS
    refine ⟨⟨S, hc, rfl⟩, by rw [relabelSet_length, hlen], ?_⟩
    rintro ⟨T, hT, heq⟩
    have := relabelSet_inj hπ (dFullSets_sorted hT) (dNfCands_sorted hc) heq
    exact hnot (this ▸ hT)

/-! ## the labelled pattern of the relabelled node set -/

/-- ranks `1..n` of the nodes of a directed hyperedge inside the sorted node list `S` -/
def rankE (S : List Nat) (e : DEdge) : DEdge :=
  (isort (e.1.map fun x => S.idxOf x + 1), isort (e.2.map fun x => S.idxOf x + 1))

omit hπ in
theorem dpattern_eq (T : DHG) (S : List Nat) :
    dpattern T S = sortD (((allDirected S).filter T.contains).map (rankE S)) := rfl

omit hπ in
theorem mem_allDirected_sorted {S : List Nat} (hS : SSorted S) {e : DEdge} :
    e ∈ allDirected S ↔ e.1 ≠ [] ∧ e.2 ≠ [] ∧ SSorted e.1 ∧ SSorted e.2 ∧ (∀ x ∈ e.1, x ∈ S) ∧
      (∀ x ∈ e.2, x ∈ S ∧ x ∉ e.1) := by
  unfold allDirected
  rw [mem_dedup]
  simp only [List.mem_flatMap, List.mem_range]
  constructor
  · rintro ⟨a, _, src, hsrc, h⟩
    by_cases ha : (a == 0) = true
    · simp [ha] at h
    · simp only [ha, Bool.false_eq_true, if_false, List.mem_flatMap, List.mem_range] at h
      obtain ⟨b, _, h⟩ := h
      by_cases hb : (b == 0) = true
      · simp [hb] at h
      · simp only [hb, Bool.false_eq_true, if_false, List.mem_map] at h
        obtain ⟨tgt, htgt, rfl⟩ := h
        obtain ⟨hs1, hl1⟩ := mem_subsetsOfSize.mp hsrc
        obtain ⟨hs2, hl2⟩ := mem_subsetsOfSize.mp htgt
        have ha' : a ≠ 0 := by simpa using ha
        have hb' : b ≠ 0 := by simpa using hb
        refine ⟨?_, ?_, List.Pairwise.sublist hs1 hS,
          List.Pairwise.sublist (hs2.trans List.filter_sublist) hS, fun x hx => hs1.subset hx, ?_⟩
        · intro h0; simp only at h0; rw [h0] at hl1; simp at hl1; omega
        · intro h0; simp only at h0; rw [h0] at hl2; simp at hl2; omega
        · intro x hx
          have := List.mem_filter.mp (hs2.subset hx)
          exact ⟨this.1, by simpa using this.2⟩
  · rintro ⟨h1, h2, hs1, hs2, hm1, hm2⟩
    have hsub1 := sublist_of_sorted hs1 hS hm1
    have hsorted_rest : SSorted (S.filter (!e.1.contains ·)) := List.Pairwise.sublist List.filter_sublist hS
    have hsub2 : e.2.Sublist (S.filter (!e.1.contains ·)) := by
      apply sublist_of_sorted hs2 hsorted_rest
      intro x hx
      exact List.mem_filter.mpr ⟨(hm2 x hx).1, by simpa using (hm2 x hx).2⟩
    have hlt : e.1.length < S.length := by
      have hle := hsub1.length_le
      apply Classical.byContradiction
      intro hge
      have : e.1 = S := hsub1.eq_of_length (by omega)
      obtain ⟨x, hx⟩ := List.exists_mem_of_ne_nil _ h2
      exact (hm2 x hx).2 (this ▸ (hm2 x hx).1)
    refine ⟨e.1.length, hlt, e.1, mem_subsetsOfSize.mpr ⟨hsub1, rfl⟩, ?_⟩
    have ha : (e.1.length == 0) = false := by
      simpa using h1
    simp only [ha, Bool.false_eq_true, if_false, List.mem_flatMap, List.mem_range]
    refine ⟨e.2.length, by have := hsub2.length_le; omega, ?_⟩
    have hb : (e.2.length == 0) = false := by
      simpa using h2
    simp only [hb, Bool.false_eq_true, if_false, List.mem_map]
    exact ⟨e.2, mem_subsetsOfSize.mpr ⟨hsub2, rfl⟩, rfl⟩

omit hπ in
theorem side_ne_nil (π : Nat → Nat) (s : List Nat) : isort (s.map π) ≠ [] ↔ s ≠ [] := by
  rw [← List.length_pos_iff, ← List.length_pos_iff, isort_length, List.length_map]

omit hπ in
theorem idxOf_inj {l : List Nat} {a b : Nat} (ha : a ∈ l) (hb : b ∈ l) (h : l.idxOf a = l.idxOf b) : a = b := by
  have h1 := List.getElem_idxOf (List.idxOf_lt_length_of_mem ha)
  have h2 := List.getElem_idxOf (List.idxOf_lt_length_of_mem hb)
  rw [← h1, ← h2]
  simp only [h]

theorem dpattern_relabel {n : Nat} {E : DHG} (hE : DWF E) {S : List Nat} (hS : SSorted S) (hlen : S.length = n) :
    ∃ p ∈ perms (List.range n),
      dpattern (relabelDHG π E) (relabelSet π S) = drelabel p (dpattern E S) := by
  have hS' : SSorted (relabelSet π S) := relabelSet_sorted hπ hS.nodup
  have hmemS' : ∀ x, x ∈ S → π x ∈ relabelSet π S := fun x hx => (mem_relabelSet hπ).mpr ⟨x, hx, rfl⟩
  let p : List Nat := S.map fun x => (relabelSet π S).idxOf (π x)
  have hplen : p.length = n := by simp [p, hlen]
  have hpnd : p.Nodup := by
    rw [List.nodup_iff_pairwise_ne, List.pairwise_map]
    refine List.Pairwise.imp_of_mem ?_ hS.nodup
    intro a b ha hb hab heq
    exact hab (hπ a b (idxOf_inj (hmemS' a ha) (hmemS' b hb) heq))
  have hplt : ∀ x ∈ p, x < n := by
    intro x hx
    obtain ⟨y, hy, rfl⟩ := List.mem_map.mp hx
    have := List.idxOf_lt_length_of_mem (hmemS' y hy)
    rwa [relabelSet_length, hlen] at this
  refine ⟨p, mem_perms_range hpnd hplen hplt, ?_⟩
  -- the hyperedges inside the two node sets correspond
  have hperm : ((allDirected (relabelSet π S)).filter (relabelDHG π E).contains).Perm
      (((allDirected S).filter E.contains).map (relabelDEdge π)) := by
    apply (List.perm_ext_iff_of_nodup (List.Pairwise.filter _ (nodup_dedup _)) ?_).mpr
    · intro e'
      simp only [List.mem_filter, List.mem_map, List.contains_iff_mem, relabelDHG]
      constructor
      · rintro ⟨hin, e0, he0, rfl⟩
        obtain ⟨h1, h2, _, _, hm1, hm2⟩ := (mem_allDirected_sorted hS').mp hin
        have hsrt := hE.sorted e0 he0
        have hback : ∀ x, π x ∈ relabelSet π S → x ∈ S := by
          intro x hx
          obtain ⟨s, hs, hse⟩ := (mem_relabelSet hπ).mp hx
          exact hπ s x hse ▸ hs
        refine ⟨e0, ⟨(mem_allDirected_sorted hS).mpr ⟨(side_ne_nil π e0.1).mp h1, (side_ne_nil π e0.2).mp h2,
          hsrt.1, hsrt.2, ?_, ?_⟩, he0⟩, rfl⟩
        · intro x hx
          exact hback x (hm1 _ ((mem_side_iff hπ).mpr hx))
        · intro x hx
          have := hm2 _ ((mem_side_iff hπ).mpr hx)
          exact ⟨hback x this.1, fun hx1 => this.2 ((mem_side_iff hπ).mpr hx1)⟩
      · rintro ⟨e, ⟨hin, he⟩, rfl⟩
        obtain ⟨h1, h2, hs1, hs2, hm1, hm2⟩ := (mem_allDirected_sorted hS).mp hin
        refine ⟨(mem_allDirected_sorted hS').mpr ⟨(side_ne_nil π e.1).mpr h1, (side_ne_nil π e.2).mpr h2,
          relabelSet_sorted hπ hs1.nodup, relabelSet_sorted hπ hs2.nodup, ?_, ?_⟩, e, he, rfl⟩
        · intro y hy
          obtain ⟨x, hx, rfl⟩ := (mem_side_relabel hπ).mp hy
          exact hmemS' x (hm1 x hx)
        · intro y hy
          obtain ⟨x, hx, rfl⟩ := (mem_side_relabel hπ).mp hy
          exact ⟨hmemS' x (hm2 x hx).1, fun h => (hm2 x hx).2 ((mem_side_iff hπ).mp h)⟩
    · rw [List.nodup_iff_pairwise_ne, List.pairwise_map]
      refine List.Pairwise.imp_of_mem ?_ (List.Pairwise.filter _ (nodup_dedup _))
      intro a b ha hb hab heq
      have ha' := (mem_allDirected_sorted hS).mp (List.mem_filter.mp ha).1
      have hb' := (mem_allDirected_sorted hS).mp (List.mem_filter.mp hb).1
      exact hab (relabelDEdge_inj hπ ⟨ha'.2.2.1, ha'.2.2.2.1⟩ ⟨hb'.2.2.1, hb'.2.2.2.1⟩ heq)
  -- ranks
  have hside : ∀ s : List Nat, (∀ x ∈ s, x ∈ S) →
      isort ((isort (s.map π)).map fun y => (relabelSet π S).idxOf y + 1)
        = isort ((isort (s.map fun x => S.idxOf x + 1)).map fun j => p[j-1]! + 1) := by
    intro s hs
    rw [isort_congr ((isort_perm_self (s.map π)).map _),
      isort_congr ((isort_perm_self (s.map fun x => S.idxOf x + 1)).map _), List.map_map, List.map_map]
    congr 1
    apply List.map_congr_left
    intro x hx
    have hxS := hs x hx
    have hidx : S.idxOf x < S.length := List.idxOf_lt_length_of_mem hxS
    simp only [Function.comp, Nat.add_sub_cancel]
    show _ = (List.map _ S)[S.idxOf x]! + 1
    rw [getElem!_map_lt _ _ hidx, getElem!_eq_getD, getD_eq_getElem_lt _ _ hidx, List.getElem_idxOf hidx]
  have hrank : ∀ e ∈ (allDirected S).filter E.contains,
      rankE (relabelSet π S) (relabelDEdge π e) = relabelEdge p (rankE S e) := by
    intro e he
    obtain ⟨_, _, _, _, hm1, hm2⟩ := (mem_allDirected_sorted hS).mp (List.mem_filter.mp he).1
    unfold rankE relabelEdge relabelDEdge
    simp only
    rw [hside e.1 hm1, hside e.2 (fun x hx => (hm2 x hx).1)]
  rw [dpattern_eq, dpattern_eq, drelabel_eq]
  rw [sortD_congr (hperm.map (rankE (relabelSet π S))), List.map_map]
  rw [sortD_congr ((sortD_perm_self (((allDirected S).filter E.contains).map (rankE S))).map (relabelEdge p)),
    List.map_map]
  congr 1
  apply List.map_congr_left
  intro e he
  exact hrank e he

/-! ## the census -/

omit hπ in
theorem any_perm {α} {l l' : List α} (h : l.Perm l') (f : α → Bool) : l.any f = l'.any f := by
  rw [Bool.eq_iff_iff, List.any_eq_true, List.any_eq_true]
  constructor
  · rintro ⟨x, hx, hf⟩; exact ⟨x, h.mem_iff.mp hx, hf⟩
  · rintro ⟨x, hx, hf⟩; exact ⟨x, h.mem_iff.mpr hx, hf⟩

theorem dkeys_perm {n : Nat} (hn : n = 3 ∨ n = 4) {F : DHG} (hF : DWF F) {L L' : List (List Nat)}
    (hL : L'.Perm (L.map (relabelSet π))) (hs : ∀ S ∈ L, SSorted S ∧ S.length = n) :
    (L'.map fun S => dcanon n (dpattern (relabelDHG π F) S)).Perm (L.map fun S => dcanon n (dpattern F S)) := by
  refine (hL.map _).trans ?_
  rw [List.map_map]
  apply List.Perm.of_eq
  apply List.map_congr_left
  intro S hS
  obtain ⟨hsorted, hlen⟩ := hs S hS
  obtain ⟨p, hp, hpat⟩ := dpattern_relabel hπ hF hsorted hlen
  simp only [Function.comp]
  rw [hpat]
  exact dcanon_relabel hn _ (dpattern_wf F hlen) p hp

/-- renaming the nodes permutes the reported (pattern, count) pairs and changes nothing else -/
theorem dirCensus_relabel {n : Nat} (hn : n = 3 ∨ n = 4) {E : DHG} (hE : DWF E) :
    (dirCensus n (relabelDHG π E)).Perm (dirCensus n E) := by
  have hF : DWF (dUpTo n E) := hE.filter _
  unfold dirCensus
  simp only [dUpTo_relabel]
  have h1 : (dtally ((dFullSets n (relabelDHG π (dUpTo n E))).map
        fun S => dcanon n (dpattern (relabelDHG π (dUpTo n E)) S))).Perm
      (dtally ((dFullSets n (dUpTo n E)).map fun S => dcanon n (dpattern (dUpTo n E) S))) := by
    apply dtally_perm
    apply dkeys_perm hπ hn hF (dFullSets_perm hπ n (dUpTo n E))
    intro S hS
    exact ⟨dFullSets_sorted hS, (mem_dFullSets.mp hS).1⟩
  by_cases h4 : (n == 4) = true
  · simp only [h4, if_true]
    have h2 : (dtally ((dNotFullSets n (relabelDHG π (dUpTo n E)) (dFullSets n (relabelDHG π (dUpTo n E)))).map
          fun S => dcanon n (dpattern (relabelDHG π (dUpTo n E)) S))).Perm
        (dtally ((dNotFullSets n (dUpTo n E) (dFullSets n (dUpTo n E))).map
          fun S => dcanon n (dpattern (dUpTo n E) S))) := by
      apply dtally_perm
      apply dkeys_perm hπ hn hF (dNotFullSets_perm hπ n (dUpTo n E))
      intro S hS
      have := mem_visitNew.mp hS
      exact ⟨dNfCands_sorted this.1, this.2.1⟩
    refine List.Perm.append ?_ h2
    refine (h1.filter _).trans (List.Perm.of_eq ?_)
    apply List.filter_congr
    intro kc _
    rw [any_perm h2]
  · simp only [h4, Bool.false_eq_true, if_false]
    exact h1

end
end C11
