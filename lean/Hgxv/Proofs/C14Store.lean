import Hgxv.Proofs.C14
/-! Lemmas about the abstract store operations of the C14 model (`addEdge`, `addMany`, `removeEdges`). -/
namespace C14

/-- the record of `sortE raw` after `add_edge` -/
def recAfter (h : HG) (e : Edge) (w md : Nat) : Rec :=
  match AL.get? h.edges e with
  | none => ((if h.weighted then w else 1), md)
  | some r => ((if h.weighted then r.1 + w else r.1), md)

theorem keys_addEdge (h : HG) (raw : List Nat) (w md : Nat) :
    keys (addEdge h raw w md) = insNew (keys h) (sortE raw) := by
  unfold addEdge
  split
  · rename_i hg
    have : sortE raw ∉ AL.keys h.edges := (AL.get?_eq_none_iff _ _).mp hg
    simp [addEdgeNew, keys, AL.keys, insNew_of_not_mem (show sortE raw ∉ List.map (·.1) h.edges from this)]
  · simp only [addEdgeOld, keys]; exact AL.keys_set _ _ _

@[simp] theorem weighted_addEdge (h : HG) (raw : List Nat) (w md : Nat) :
    (addEdge h raw w md).weighted = h.weighted := by
  unfold addEdge; split <;> simp [addEdgeNew, addEdgeOld]

theorem nodes_addEdge_of_subset (h : HG) (raw : List Nat) (w md : Nat) (hs : ∀ x ∈ raw, x ∈ h.nodes) :
    (addEdge h raw w md).nodes = h.nodes := by
  unfold addEdge; split
  · simp only [addEdgeNew]; exact insAll_of_subset (fun x hx => hs x (mem_sortE.mp hx))
  · simp [addEdgeOld]

theorem get?_addEdge_ne (h : HG) (raw : List Nat) (w md : Nat) (k : Edge) (hne : sortE raw ≠ k) :
    AL.get? (addEdge h raw w md).edges k = AL.get? h.edges k := by
  unfold addEdge; split
  · simp only [addEdgeNew]; rw [AL.get?_append_single]; simp [hne]
    cases AL.get? h.edges k <;> rfl
  · simp only [addEdgeOld]; exact AL.get?_set_ne _ _ _ _ hne

theorem get?_addEdge_self (h : HG) (raw : List Nat) (w md : Nat) :
    AL.get? (addEdge h raw w md).edges (sortE raw) = some (recAfter h (sortE raw) w md) := by
  unfold addEdge recAfter; split
  · rename_i hg; simp only [addEdgeNew]; rw [AL.get?_append_single, hg]; simp
  · rename_i r hg; simp only [addEdgeOld]; rw [AL.get?_set_self, hg]

theorem edges_addEdge_fresh (h : HG) (raw : List Nat) (w md : Nat) (hf : sortE raw ∉ keys h) :
    (addEdge h raw w md).edges = h.edges ++ [(sortE raw, ((if h.weighted then w else 1), md))] := by
  unfold addEdge
  rw [(AL.get?_eq_none_iff _ _).mpr hf]; rfl

/-! ### addMany -/

@[simp] theorem addMany_nil (h : HG) : addMany h [] = h := rfl
@[simp] theorem addMany_cons (h : HG) (t : List Nat × Rec) (L : List (List Nat × Rec)) :
    addMany h (t :: L) = addMany (addEdge h t.1 t.2.1 t.2.2) L := rfl

theorem keys_addMany (L : List (List Nat × Rec)) : ∀ (h : HG),
    keys (addMany h L) = insAll (keys h) (L.map (fun t => sortE t.1)) := by
  induction L with
  | nil => simp
  | cons t L ih => intro h; simp [ih, keys_addEdge]

@[simp] theorem weighted_addMany (L : List (List Nat × Rec)) : ∀ (h : HG), (addMany h L).weighted = h.weighted := by
  induction L with
  | nil => simp
  | cons t L ih => intro h; simp [ih]

theorem nodes_addMany_of_subset (L : List (List Nat × Rec)) : ∀ (h : HG),
    (∀ t ∈ L, ∀ x ∈ t.1, x ∈ h.nodes) → (addMany h L).nodes = h.nodes := by
  induction L with
  | nil => simp
  | cons t L ih =>
    intro h hs
    have h1 := nodes_addEdge_of_subset h t.1 t.2.1 t.2.2 (hs t (by simp))
    rw [addMany_cons, ih _ (by intro t' ht' x hx; rw [h1]; exact hs t' (by simp [ht']) x hx), h1]

theorem get?_addMany_of_not_mem (L : List (List Nat × Rec)) (k : Edge) : ∀ (h : HG),
    (∀ t ∈ L, sortE t.1 ≠ k) → AL.get? (addMany h L).edges k = AL.get? h.edges k := by
  induction L with
  | nil => simp
  | cons t L ih =>
    intro h hk
    rw [addMany_cons, ih _ (fun t' ht' => hk t' (by simp [ht'])), get?_addEdge_ne _ _ _ _ _ (hk t (by simp))]

theorem edges_addMany_fresh (L : List (List Nat × Rec)) : ∀ (h : HG),
    (L.map (fun t => sortE t.1)).Nodup → (∀ t ∈ L, sortE t.1 ∉ keys h) →
    (addMany h L).edges = h.edges ++ L.map (fun t => (sortE t.1, ((if h.weighted then t.2.1 else 1), t.2.2))) := by
  induction L with
  | nil => simp
  | cons t L ih =>
    intro h hnd hf
    simp only [List.map_cons, List.nodup_cons] at hnd
    have hft : sortE t.1 ∉ keys h := hf t (by simp)
    rw [addMany_cons, ih _ hnd.2]
    · rw [edges_addEdge_fresh h t.1 t.2.1 t.2.2 hft]; simp
    · intro t' ht'
      rw [keys_addEdge, mem_insNew]
      intro hc
      rcases hc with hc | hc
      · exact hf t' (by simp [ht']) hc
      · apply hnd.1; rw [← hc]; exact List.mem_map_of_mem (f := fun t => sortE t.1) ht'

/-! ### removeEdges -/

@[simp] theorem removeEdges_nil (h : HG) : removeEdges h [] = h := rfl
@[simp] theorem removeEdges_cons (h : HG) (k : Edge) (ks : List Edge) :
    removeEdges h (k :: ks) = removeEdges (removeEdge h k) ks := rfl

@[simp] theorem nodes_removeEdges (ks : List Edge) : ∀ (h : HG), (removeEdges h ks).nodes = h.nodes := by
  induction ks with
  | nil => simp
  | cons k ks ih => intro h; simp [ih, removeEdge]

@[simp] theorem weighted_removeEdges (ks : List Edge) : ∀ (h : HG), (removeEdges h ks).weighted = h.weighted := by
  induction ks with
  | nil => simp
  | cons k ks ih => intro h; simp [ih, removeEdge]

theorem nodup_keys_filter {β : Type} (l : List (Edge × β)) (p : Edge × β → Bool) (h : (AL.keys l).Nodup) :
    (AL.keys (l.filter p)).Nodup := by
  unfold AL.keys at *
  exact List.Nodup.sublist (List.Sublist.map _ List.filter_sublist) h

theorem edges_removeEdges (ks : List Edge) : ∀ (h : HG), (keys h).Nodup → (∀ k ∈ ks, sortE k = k) →
    (removeEdges h ks).edges = h.edges.filter (fun r => !(ks.contains r.1)) := by
  induction ks with
  | nil => intro h _ _; simp only [removeEdges_nil, List.contains_nil, Bool.not_false]; exact (List.filter_eq_self.mpr (fun _ _ => rfl)).symm
  | cons k ks ih =>
    intro h hnd hs
    have hk : sortE k = k := hs k (by simp)
    have he : (removeEdge h k).edges = h.edges.filter (fun r => !(r.1 == k)) := by
      simp only [removeEdge, hk]; exact AL.erase_eq_filter _ _ hnd
    rw [removeEdges_cons, ih _ (by unfold keys; rw [he]; exact nodup_keys_filter _ _ hnd)
      (fun k' hk' => hs k' (by simp [hk'])), he, List.filter_filter]
    apply List.filter_congr
    intro r _
    by_cases h1 : r.1 = k <;> by_cases h2 : r.1 ∈ ks <;> simp [h1, h2]

/-! ### fresh object ids -/

theorem le_foldl_max (l : List Nat) : ∀ (m : Nat), m ≤ l.foldl max m ∧ ∀ k ∈ l, k ≤ l.foldl max m := by
  induction l with
  | nil => intro m; simp
  | cons a l ih =>
    intro m
    simp only [List.foldl_cons, List.mem_cons, forall_eq_or_imp]
    have h := ih (max m a)
    exact ⟨by omega, by omega, h.2⟩

theorem freshId_not_mem (H : Heap) : freshId H ∉ AL.keys H := by
  intro h
  have := (le_foldl_max (AL.keys H) 0).2 _ h
  unfold freshId at this
  omega

theorem get?_freshId (H : Heap) : AL.get? H (freshId H) = none :=
  (AL.get?_eq_none_iff H _).mpr (freshId_not_mem H)

end C14
