import Hgxv.Proofs.C01Inv
/-! C01, part 3: the invariant through the public operations (batched calls, `remove_node`), acceptance of
the loops after validation, and `Inv` for every history. -/
namespace C01
open AL

/-! ### single-table setters -/

theorem setWeight_inv (s : Store) (raw : List Nat) (w : Int) (h : Inv s) : Inv (setWeight s raw w).1 := by
  unfold setWeight
  split
  · exact h
  · rename_i hc
    split
    · exact h
    · rename_i id hid
      have hrev : (get? s.rev id).isSome := by simp [h.rev_of_edge _ _ hid]
      refine h.of_tables _ rfl rfl rfl rfl ?_ (fun _ => rfl) rfl ?_
      · intro id'; simp only [isSome_set]
        by_cases hh : id = id'
        · subst hh; simp [h.w_dom, hrev]
        · simp [hh]
      · intro hw id' w'
        have hw' : s.weighted = false := hw
        simp only [get?_set]
        by_cases hh : id = id'
        · simp [hh]; intro h2; subst h2
          simp [hw'] at hc; exact hc
        · simp [hh]; exact h.unw_one hw' id' w'

theorem setNodeMeta_inv (s : Store) (n : Node) (md : Meta) (h : Inv s) : Inv (setNodeMeta s n md).1 := by
  unfold setNodeMeta
  split
  · rename_i hn
    refine h.of_tables _ rfl rfl rfl rfl (fun _ => rfl) (fun _ => rfl) ?_ h.unw_one
    apply keys_set_of_mem
    rw [← mem_keys_iff, h.nm_keys, mem_keys_iff]; exact hn
  · exact h

theorem emeta_set_inv (s : Store) (e : Edge) (id : Nat) (md : Meta) (hid : get? s.edgeList e = some id) (h : Inv s) :
    Inv { s with emeta := AL.set s.emeta id md } := by
  have hrev : (get? s.rev id).isSome := by simp [h.rev_of_edge _ _ hid]
  refine h.of_tables _ rfl rfl rfl rfl (fun _ => rfl) ?_ rfl h.unw_one
  intro id'; simp only [isSome_set]
  by_cases hh : id = id'
  · subst hh; simp [h.m_dom, hrev]
  · simp [hh]

theorem nmeta_set_inv (s : Store) (n : Node) (md : Meta) (hn : (get? s.nmeta n).isSome) (h : Inv s) :
    Inv { s with nmeta := AL.set s.nmeta n md } :=
  h.of_tables _ rfl rfl rfl rfl (fun _ => rfl) (fun _ => rfl) (keys_set_of_mem _ _ _ hn) h.unw_one

theorem setEdgeMeta_inv (s : Store) (raw : List Nat) (md : Meta) (h : Inv s) : Inv (setEdgeMeta s raw md).1 := by
  unfold setEdgeMeta
  split
  · exact h
  · rename_i id hid; exact emeta_set_inv s _ id md hid h

theorem setAttrNode_inv (s : Store) (n : Node) (k v : Nat) (h : Inv s) : Inv (setAttrNode s n k v).1 := by
  unfold setAttrNode
  split
  · exact h
  · rename_i md hg; exact nmeta_set_inv s n _ (by simp [hg]) h

theorem setAttrEdge_inv (s : Store) (raw : List Nat) (k v : Nat) (h : Inv s) : Inv (setAttrEdge s raw k v).1 := by
  unfold setAttrEdge
  split
  · exact h
  · rename_i id hid; exact emeta_set_inv s _ id _ hid h

theorem delAttrNode_inv (s : Store) (n : Node) (k : Nat) (h : Inv s) : Inv (delAttrNode s n k).1 := by
  unfold delAttrNode
  split
  · exact h
  · rename_i md hg
    split
    · exact nmeta_set_inv s n _ (by simp [hg]) h
    · exact h

theorem delAttrEdge_inv (s : Store) (raw : List Nat) (k : Nat) (h : Inv s) : Inv (delAttrEdge s raw k).1 := by
  unfold delAttrEdge
  split
  · exact h
  · rename_i id hid
    simp only []
    split
    · exact emeta_set_inv s _ id _ hid h
    · exact h

theorem hmeta_inv (s : Store) (md : Meta) (h : Inv s) : Inv { s with hmeta := md } :=
  h.of_tables _ rfl rfl rfl rfl (fun _ => rfl) (fun _ => rfl) rfl h.unw_one

theorem weighted_inv (s : Store) (b : Bool) (h : Inv s) : Inv { s with weighted := s.weighted || b } := by
  refine h.of_tables _ rfl rfl rfl rfl (fun _ => rfl) (fun _ => rfl) rfl ?_
  intro hw; simp at hw; exact h.unw_one hw.1

/-! ### batched insertions -/

theorem foldl_inv {α : Type} (f : Store → α → Store) (hf : ∀ s a, Inv s → Inv (f s a)) :
    ∀ (as : List α) (s : Store), Inv s → Inv (as.foldl f s) := by
  intro as; induction as with
  | nil => intro s h; exact h
  | cons a as ih => intro s h; exact ih _ (hf s a h)

theorem addNodes_inv (s : Store) (ns : List Node) (mds : Option (List (Node × Meta))) (h : Inv s) :
    Inv (addNodes s ns mds).1 := by
  unfold addNodes
  split
  · exact foldl_inv _ (fun s n hs => addNode_inv s n none hs) ns s h
  · split
    · exact foldl_inv _ (fun s n hs => addNode_inv s n _ hs) ns s h
    · exact h

theorem mem_zipArgs : ∀ (raws : List (List Nat)) (ws : Option (List Int)) (mds : Option (List Meta))
    (x : List Nat × Option Int × Option Meta), x ∈ zipArgs raws ws mds → x.1 ∈ raws := by
  intro raws
  induction raws with
  | nil => intro ws mds x hx; simp [zipArgs] at hx
  | cons r rs ih =>
    intro ws mds x hx
    simp only [zipArgs, List.mem_cons] at hx
    rcases hx with hx | hx
    · subst hx; simp
    · exact List.mem_cons_of_mem _ (ih _ _ x hx)

theorem addEdges_inv (s : Store) (raws : List (List Nat)) (ws : Option (List Int)) (mds : Option (List Meta))
    (hraw : ∀ r ∈ raws, r.Nodup) (h : Inv s) : Inv (addEdges s raws ws mds).1 := by
  unfold addEdges
  split
  · unfold addEdgesLoop
    apply seqOps_inv _ Inv (fun x => x.1.Nodup)
    · intro s x hs hx; exact addEdge_inv s x.1 _ _ hx hs
    · exact weighted_inv s _ h
    · intro x hx; exact hraw _ (mem_zipArgs _ _ _ x hx)
  · exact h

/-! ### remove_edges -/

theorem removeEdge_edgeList (s : Store) (raw : List Nat) (e : Edge) :
    get? (removeEdge s raw).1.edgeList e = if canon raw = e then none else get? s.edgeList e := by
  unfold removeEdge
  split
  · rename_i hg
    by_cases he : canon raw = e
    · subst he; simp [hg]
    · simp [he]
  · simp only [removeEdgeId, get?_del]

theorem removeEdge_out (s : Store) (raw : List Nat) :
    (removeEdge s raw).2 = if (get? s.edgeList (canon raw)).isSome then .ok else .rej := by
  unfold removeEdge; split <;> simp_all

/-- after validation the loop of `remove_edges` accepts every member -/
theorem removeEdges_loop_ok : ∀ (raws : List (List Nat)) (s : Store),
    (∀ r ∈ raws, (get? s.edgeList (canon r)).isSome) → (raws.map canon).Nodup →
    (seqOps removeEdge s raws).2 = .ok := by
  intro raws s h1 h2
  apply seqOps_ok_of_all removeEdge
    (fun s as => (∀ r ∈ as, (get? s.edgeList (canon r)).isSome) ∧ (as.map canon).Nodup) _ raws s ⟨h1, h2⟩
  intro s a as ⟨hp, hn⟩
  refine ⟨?_, ?_, ?_⟩
  · rw [removeEdge_out]; simp [hp a List.mem_cons_self]
  · intro r hr
    rw [removeEdge_edgeList]
    simp only [List.map_cons, List.nodup_cons] at hn
    have : canon a ≠ canon r := by
      intro heq; exact hn.1 (heq ▸ List.mem_map_of_mem hr)
    simp [this]; exact hp r (List.mem_cons_of_mem _ hr)
  · simp only [List.map_cons, List.nodup_cons] at hn; exact hn.2

theorem foldl_removeEdge_edgeList : ∀ (raws : List (List Nat)) (s : Store) (e : Edge),
    get? (raws.foldl (fun s r => (removeEdge s r).1) s).edgeList e =
      if e ∈ raws.map canon then none else get? s.edgeList e := by
  intro raws
  induction raws with
  | nil => intro s e; simp
  | cons r rs ih =>
    intro s e
    simp only [List.foldl_cons, ih, removeEdge_edgeList, List.map_cons, List.mem_cons]
    by_cases h1 : e ∈ rs.map canon
    · simp [h1]
    · by_cases h2 : canon r = e
      · simp [h2]
      · simp [h1, h2, Ne.symm h2]

theorem removeEdges_inv (s : Store) (raws : List (List Nat)) (h : Inv s) : Inv (removeEdges s raws).1 := by
  unfold removeEdges
  split
  · exact seqOps_inv removeEdge Inv (fun _ => True) (fun s r hs _ => removeEdge_inv s r hs) raws s h (fun _ _ => trivial)
  · exact h

/-! ### facts about `add_edge` used by `remove_node` -/

theorem addEdge_edgeList_mono (s : Store) (raw : List Nat) (w : Option Int) (md : Option Meta) (e : Edge)
    (he : (get? s.edgeList e).isSome) : (get? (addEdge s raw w md).1.edgeList e).isSome := by
  unfold addEdge
  split
  · exact he
  · split
    · simp only [addEdgeNew, (linkNodes_fields _ _ _).1, isSome_set, he, Bool.or_true]
    · exact he

theorem addEdge_edgeList_other (s : Store) (raw : List Nat) (w : Option Int) (md : Option Meta) (e : Edge)
    (hne : canon raw ≠ e) : get? (addEdge s raw w md).1.edgeList e = get? s.edgeList e := by
  unfold addEdge
  split
  · rfl
  · split
    · simp only [addEdgeNew, (linkNodes_fields _ _ _).1, get?_set, hne, if_false]
    · rfl

theorem linkNodes_adj_mono (s : Store) (id : Nat) (ns : List Node) (m : Node) (hm : (get? s.adj m).isSome) :
    (get? (linkNodes s id ns).adj m).isSome := by
  induction ns generalizing s with
  | nil => exact hm
  | cons n ns ih =>
    simp only [linkNodes]
    apply ih
    simp only [isSome_set, touchNode_adj]
    by_cases h : m = n <;> simp [h, hm]

theorem addEdge_adj_mono (s : Store) (raw : List Nat) (w : Option Int) (md : Option Meta) (m : Node)
    (hm : (get? s.adj m).isSome) : (get? (addEdge s raw w md).1.adj m).isSome := by
  unfold addEdge
  split
  · exact hm
  · split
    · exact linkNodes_adj_mono _ _ _ m hm
    · exact hm

theorem removeEdge_adj_keys (s : Store) (raw : List Nat) : keys (removeEdge s raw).1.adj = keys s.adj := by
  unfold removeEdge
  split
  · rfl
  · simp only [removeEdgeId, unlinkNodes_keys]

/-- the weight handed back by `get_weight` for a present hyperedge of an unweighted hypergraph is 1 -/
theorem Inv.weightOf_one {s : Store} (h : Inv s) (hw : s.weighted = false) {e : Edge}
    (he : (get? s.edgeList e).isSome) : weightOf s e = one := by
  obtain ⟨id, hid⟩ := Option.isSome_iff_exists.mp he
  have h1 : (get? s.weights id).isSome := by rw [h.w_dom]; simp [h.rev_of_edge _ _ hid]
  obtain ⟨w, hwv⟩ := Option.isSome_iff_exists.mp h1
  simp [weightOf, hid, hwv, h.unw_one hw id w hwv]

theorem shrinkInto_ok (n : Node) (s : Store) (e : Edge) (h : Inv s) (he : (get? s.edgeList e).isSome) :
    (shrinkInto n s e).2 = .ok := by
  unfold shrinkInto addEdge
  split
  · rename_i hc
    simp at hc
    rw [h.weightOf_one hc.1 he] at hc
    exact absurd rfl hc.2
  · split <;> rfl

/-! ### remove_node -/

/-- the hyperedges listed through `_adj[n]` are exactly the keys containing `n`, each once -/
theorem Inv.incidentKeys_spec {s : Store} (h : Inv s) (n : Node) (hn : (get? s.adj n).isSome) :
    (incidentKeys s n).Nodup ∧
    ∀ e, e ∈ incidentKeys s n ↔ ((get? s.edgeList e).isSome ∧ n ∈ e) := by
  obtain ⟨ids, hids⟩ := Option.isSome_iff_exists.mp hn
  have hinj : ∀ a b e, get? s.rev a = some e → get? s.rev b = some e → a = b := by
    intro a b e ha hb
    have h1 := h.edge_of_rev e a ha
    have h2 := h.edge_of_rev e b hb
    rw [h1] at h2; exact Option.some.inj h2
  constructor
  · simp only [incidentKeys, hids, Option.getD_some]
    have hnd := h.adj_ids_nodup hids
    clear hids
    induction ids with
    | nil => simp
    | cons a t ih =>
      have hnd' := List.nodup_cons.mp hnd
      simp only [List.filterMap_cons]
      cases ha : get? s.rev a with
      | none => exact ih hnd'.2
      | some e =>
        simp only []
        refine List.nodup_cons.mpr ⟨?_, ih hnd'.2⟩
        intro hmem
        obtain ⟨b, hb, hbe⟩ := List.mem_filterMap.mp hmem
        have := hinj a b e ha hbe
        exact hnd'.1 (this ▸ hb)
  · intro e
    simp only [incidentKeys, hids, Option.getD_some, List.mem_filterMap]
    constructor
    · rintro ⟨id, hid, hrev⟩
      obtain ⟨e', he', hne'⟩ := (h.adj_iff n ids hids id).mp hid
      rw [hrev] at he'; cases he'
      exact ⟨by simp [h.edge_of_rev e id hrev], hne'⟩
    · rintro ⟨hs, hne⟩
      obtain ⟨id, hid⟩ := Option.isSome_iff_exists.mp hs
      have hrev := h.rev_of_edge e id hid
      exact ⟨id, (h.adj_iff n ids hids id).mpr ⟨e, hrev, hne⟩, hrev⟩

/-- state of the `keep_edges=True` loop: invariant, the listed hyperedges still present, and the keys
    containing `n` unchanged -/
structure KeepLoop (n : Node) (s0 s : Store) (es : List Edge) : Prop where
  inv : Inv s
  present : ∀ e ∈ es, (get? s.edgeList e).isSome
  same_n : ∀ e, n ∈ e → get? s.edgeList e = get? s0.edgeList e
  adj_mono : ∀ m, (get? s0.adj m).isSome → (get? s.adj m).isSome

theorem shrinkInto_keep (n : Node) (s0 s : Store) (e : Edge) (es : List Edge)
    (hk : KeepLoop n s0 s (e :: es)) (hnd : ∀ x ∈ e :: es, x.Nodup) :
    (shrinkInto n s e).2 = .ok ∧ KeepLoop n s0 (shrinkInto n s e).1 es := by
  have hpe := hk.present e List.mem_cons_self
  refine ⟨shrinkInto_ok n s e hk.inv hpe, ?_⟩
  have hraw : (e.filter (· ≠ n)).Nodup := (List.filter_sublist).nodup (hnd e List.mem_cons_self)
  constructor
  · exact addEdge_inv s _ _ _ hraw hk.inv
  · intro x hx
    exact addEdge_edgeList_mono s _ _ _ x (hk.present x (List.mem_cons_of_mem _ hx))
  · intro x hx
    have : canon (e.filter (· ≠ n)) ≠ x := by
      intro heq; subst heq
      have := mem_canon.mp hx
      simp at this
    simp only [shrinkInto]
    rw [addEdge_edgeList_other s _ _ _ x this]; exact hk.same_n x hx
  · intro m hm
    exact addEdge_adj_mono s _ _ _ m (hk.adj_mono m hm)

theorem keepLoop_run (n : Node) (s0 : Store) : ∀ (es : List Edge) (s : Store),
    KeepLoop n s0 s es → (∀ x ∈ es, x.Nodup) →
    (seqOps (shrinkInto n) s es).2 = .ok ∧ KeepLoop n s0 (seqOps (shrinkInto n) s es).1 [] := by
  intro es
  induction es with
  | nil => intro s hk _; exact ⟨rfl, hk⟩
  | cons e es ih =>
    intro s hk hnd
    obtain ⟨h1, h2⟩ := shrinkInto_keep n s0 s e es hk hnd
    simp only [seqOps]
    generalize hfa : shrinkInto n s e = r at h1 h2
    obtain ⟨s', o⟩ := r
    simp only at h1 h2; subst h1
    exact ih s' h2 (fun x hx => hnd x (List.mem_cons_of_mem _ hx))

/-- what `remove_node` does, step by step, on a state satisfying the invariant -/
theorem removeNode_spec (s : Store) (n : Node) (keep : Bool) (h : Inv s) (hn : (get? s.adj n).isSome) :
    ∃ s1 s2, (if keep then seqOps (shrinkInto n) s (incidentKeys s n) else (s, Out.ok)) = (s1, .ok) ∧
      removeEdges s1 (incidentKeys s n) = (s2, .ok) ∧
      removeNode s n keep = (dropNode s2 n, .ok) ∧ Inv s1 ∧ Inv s2 ∧
      (∀ id e, get? s2.rev id = some e → n ∉ e) ∧
      (∀ m, (get? s.adj m).isSome → (get? s2.adj m).isSome) := by
  obtain ⟨hnd, hmem⟩ := h.incidentKeys_spec n hn
  have hes_nodup : ∀ x ∈ incidentKeys s n, x.Nodup := by
    intro x hx
    obtain ⟨id, hid⟩ := Option.isSome_iff_exists.mp ((hmem x).mp hx).1
    exact (h.key_canon x id hid).1
  have hes_canon : ∀ x ∈ incidentKeys s n, canon x = x := by
    intro x hx
    obtain ⟨id, hid⟩ := Option.isSome_iff_exists.mp ((hmem x).mp hx).1
    exact (h.key_canon x id hid).2
  have hk0 : KeepLoop n s s (incidentKeys s n) :=
    ⟨h, fun e he => ((hmem e).mp he).1, fun _ _ => rfl, fun _ hm => hm⟩
  -- first phase
  have hphase1 : ∃ s1, (if keep then seqOps (shrinkInto n) s (incidentKeys s n) else (s, Out.ok)) = (s1, .ok) ∧
      KeepLoop n s s1 (incidentKeys s n) := by
    cases keep with
    | false => exact ⟨s, rfl, hk0⟩
    | true =>
      obtain ⟨h1, h2⟩ := keepLoop_run n s _ s hk0 hes_nodup
      refine ⟨(seqOps (shrinkInto n) s (incidentKeys s n)).1, ?_, ?_⟩
      · simp only [if_true]
        generalize seqOps (shrinkInto n) s (incidentKeys s n) = r at h1
        obtain ⟨a, b⟩ := r; simp at h1; subst h1; rfl
      · refine ⟨h2.inv, ?_, h2.same_n, h2.adj_mono⟩
        intro e he
        have := (hmem e).mp he
        rw [h2.same_n e this.2]; exact this.1
  obtain ⟨s1, hs1, hk1⟩ := hphase1
  -- second phase
  have hmapc : (incidentKeys s n).map canon = incidentKeys s n := by
    have : ∀ (l : List Edge), (∀ x ∈ l, canon x = x) → l.map canon = l := by
      intro l; induction l with
      | nil => intro _; rfl
      | cons a t ih =>
        intro hl
        simp only [List.map_cons]
        rw [hl a List.mem_cons_self, ih (fun x hx => hl x (List.mem_cons_of_mem _ hx))]
    exact this _ hes_canon
  have hvalid : ((incidentKeys s n).all (fun r => (get? s1.edgeList (canon r)).isSome)
      && decide ((incidentKeys s n).map canon).Nodup) = true := by
    simp only [Bool.and_eq_true, List.all_eq_true, decide_eq_true_eq]
    refine ⟨?_, by rw [hmapc]; exact hnd⟩
    intro r hr; rw [hes_canon r hr]; exact hk1.present r hr
  have hloop : (seqOps removeEdge s1 (incidentKeys s n)).2 = .ok := by
    apply removeEdges_loop_ok
    · intro r hr; rw [hes_canon r hr]; exact hk1.present r hr
    · rw [hmapc]; exact hnd
  have hre : removeEdges s1 (incidentKeys s n) = ((seqOps removeEdge s1 (incidentKeys s n)).1, .ok) := by
    unfold removeEdges
    rw [if_pos hvalid]
    generalize seqOps removeEdge s1 (incidentKeys s n) = r at hloop
    obtain ⟨a, b⟩ := r; simp at hloop; subst hloop; rfl
  have hinv2 : Inv (seqOps removeEdge s1 (incidentKeys s n)).1 := by
    have := removeEdges_inv s1 (incidentKeys s n) hk1.inv
    rw [hre] at this; exact this
  refine ⟨s1, _, hs1, hre, ?_, hk1.inv, hinv2, ?_, ?_⟩
  · unfold removeNode
    simp only [hn, Bool.not_true]
    rw [hs1]; simp only []
    rw [hre]
    simp
  · intro id e hrev hne
    have hel := hinv2.edge_of_rev e id hrev
    rw [seqOps_eq_foldl removeEdge _ _ hloop, foldl_removeEdge_edgeList, hmapc] at hel
    by_cases hin : e ∈ incidentKeys s n
    · simp [hin] at hel
    · simp only [hin, if_false] at hel
      rw [hk1.same_n e hne] at hel
      exact hin ((hmem e).mpr ⟨by simp [hel], hne⟩)
  · intro m hm
    have h1 := hk1.adj_mono m hm
    rw [seqOps_eq_foldl removeEdge _ _ hloop]
    have : ∀ (l : List (List Nat)) (t : Store), keys (l.foldl (fun s r => (removeEdge s r).1) t).adj = keys t.adj := by
      intro l; induction l with
      | nil => intro t; rfl
      | cons a l ih => intro t; simp only [List.foldl_cons]; rw [ih, removeEdge_adj_keys]
    rw [← mem_keys_iff, this, mem_keys_iff]; exact h1

theorem removeNode_inv (s : Store) (n : Node) (keep : Bool) (h : Inv s) : Inv (removeNode s n keep).1 := by
  by_cases hn : (get? s.adj n).isSome
  · obtain ⟨s1, s2, _, _, h3, _, hi2, hfree, _⟩ := removeNode_spec s n keep h hn
    rw [h3]; exact dropNode_inv s2 n hfree hi2
  · unfold removeNode; simp [hn]; exact h

theorem removeNodes_inv (s : Store) (ns : List Node) (keep : Bool) (h : Inv s) : Inv (removeNodes s ns keep).1 := by
  unfold removeNodes
  split
  · exact seqOps_inv _ Inv (fun _ => True) (fun s n hs _ => removeNode_inv s n keep hs) ns s h (fun _ _ => trivial)
  · exact h

/-! ### every operation, every history -/

theorem apply_inv (s : Store) (op : Op) (hwf : op.WF) (h : Inv s) : Inv (apply s op).1 := by
  cases op with
  | addNode n md => exact addNode_inv s n md h
  | addNodes ns mds => exact addNodes_inv s ns mds h
  | addEdge raw w md => exact addEdge_inv s raw w md hwf h
  | addEdges raws ws mds => exact addEdges_inv s raws ws mds hwf h
  | removeEdge raw => exact removeEdge_inv s raw h
  | removeEdges raws => exact removeEdges_inv s raws h
  | removeNode n keep => exact removeNode_inv s n keep h
  | removeNodes ns keep => exact removeNodes_inv s ns keep h
  | setWeight raw w => exact setWeight_inv s raw w h
  | setNodeMeta n md => exact setNodeMeta_inv s n md h
  | setEdgeMeta raw md => exact setEdgeMeta_inv s raw md h
  | setHMeta md => exact hmeta_inv s md h
  | setAttrH k v => exact hmeta_inv s _ h
  | setAttrNode n k v => exact setAttrNode_inv s n k v h
  | setAttrEdge raw k v => exact setAttrEdge_inv s raw k v h
  | delAttrNode n k => exact delAttrNode_inv s n k h
  | delAttrEdge raw k => exact delAttrEdge_inv s raw k h
  | clear => exact clear_inv s

theorem mem_set_cases {α : Type} {l : List α} {i : Nat} {a x : α} (h : x ∈ l.set i a) : x = a ∨ x ∈ l := by
  rcases List.mem_or_eq_of_mem_set h with h | h
  · exact Or.inr h
  · exact Or.inl h

theorem step_inv (st : State) (c : Cmd) (hwf : c.WF) (h : ∀ s ∈ st, Inv s) : ∀ s ∈ (step st c).1, Inv s := by
  cases c with
  | new i w hm =>
    simp only [step]
    split
    · intro s hs
      rcases mem_set_cases hs with hs | hs
      · subst hs; exact inv_new w hm
      · exact h s hs
    · exact h
  | copy i j =>
    simp only [step]
    split
    · rename_i s0 hs0
      split
      · intro s hs
        rcases mem_set_cases hs with hs | hs
        · subst hs; exact h _ (List.mem_of_getElem? hs0)
        · exact h s hs
      · exact h
    · exact h
  | on i op =>
    simp only [step]
    split
    · rename_i s0 hs0
      intro s hs
      rcases mem_set_cases hs with hs | hs
      · subst hs; exact apply_inv s0 op hwf (h _ (List.mem_of_getElem? hs0))
      · exact h s hs
    · exact h

theorem run_inv : ∀ (cs : List Cmd) (st : State), (∀ c ∈ cs, c.WF) → (∀ s ∈ st, Inv s) → ∀ s ∈ run st cs, Inv s := by
  intro cs
  induction cs with
  | nil => intro st _ h; exact h
  | cons c cs ih =>
    intro st hwf h
    simp only [run, List.foldl_cons]
    exact ih _ (fun c' hc' => hwf c' (List.mem_cons_of_mem _ hc')) (step_inv st c (hwf c List.mem_cons_self) h)

theorem init_inv (k : Nat) : ∀ s ∈ init k, Inv s := by
  intro s hs
  simp only [init, List.mem_replicate] at hs
  rw [hs.2]; exact inv_new false []

end C01
