import Hgxv.Proofs.C13
import Hgxv.Model.C13Ext
/-! # C13, extension round — helper lemmas (core Lean only)

entry point / report refine the old model; which draws a step, the chain, the swap loops consume;
node set and size counts of the returned listing. -/
namespace C13

/-! ## the reports answer what the old model answers -/

theorem cmCall_none (label : Label) (detailed : Bool) (size : Option Nat) (n : Nat) (es : List Edge)
    (ds : List Draw) : cmCall label detailed none size n es ds = configurationModel label detailed size n es ds := by
  cases size <;> rfl

theorem cmReport_edges (label : Label) (detailed : Bool) (order size : Option Nat) (n : Nat)
    (es : List Edge) (ds : List Draw) :
    (cmReport label detailed order size n es ds).map (·.edges) = cmCall label detailed order size n es ds := by
  unfold cmReport cmCall
  cases resolveSize order size with
  | error e => rfl
  | ok sz =>
    cases sz with
    | none =>
      cases label <;> simp only [configurationModel, cmMCMC, stubEdgeMH, selected, readd] <;>
        cases chain detailed n es ds <;> rfl
    | some s =>
      cases label <;> simp only [configurationModel, cmMCMC, stubEdgeMH, selected, readd] <;>
        cases chain detailed n (es.filter (fun e => e.length == s)) ds <;> rfl

theorem dcmReport_edges (es : List DEdge) (ds : List Nat) :
    (dcmReport es ds).map (·.edges) = directedCM es ds := by
  unfold dcmReport directedCM
  cases swapLoop false (es.length * 10) es ds with
  | error e => rfl
  | ok r =>
    obtain ⟨es1, ds1⟩ := r
    simp only []
    cases swapLoop true (es.length * 10) es1 ds1 <;> rfl

/-! ## counting draws -/

theorem length_eq_idx_add_coin (l : List Draw) : l.length = l.countP isIdx + l.countP isCoin := by
  induction l with
  | nil => rfl
  | cons d t ih => cases d <;> simp only [List.countP_cons, List.length_cons, isIdx, isCoin] <;> simp <;> omega

theorem usedOf_append {α} (u ds' : List α) : usedOf (u ++ ds') ds' = u := by
  simp [usedOf]

theorem countP_isIdx_coins (cs : List Draw) (h : ∀ c ∈ cs, isCoin c = true) : cs.countP isIdx = 0 := by
  apply List.countP_eq_zero.mpr
  intro c hc
  have := h c hc
  cases c <;> simp_all [isIdx, isCoin]

theorem countP_isCoin_coins (cs : List Draw) (h : ∀ c ∈ cs, isCoin c = true) : cs.countP isCoin = cs.length :=
  List.countP_eq_length.mpr h

theorem countP_isCoin_idxs (cs : List Draw) (h : ∀ c ∈ cs, isIdx c = true) : cs.countP isCoin = 0 := by
  apply List.countP_eq_zero.mpr
  intro c hc
  have := h c hc
  cases c <;> simp_all [isIdx, isCoin]

theorem countP_isIdx_idxs (cs : List Draw) (h : ∀ c ∈ cs, isIdx c = true) : cs.countP isIdx = cs.length :=
  List.countP_eq_length.mpr h

/-! ## the draws of `__pairwise_reshuffle` -/

/-- the dealing loop consumes coins only, at most one per node that is dealt out -/
theorem deal_used (f g1 g2 : List Nat) (n1 n2 : Nat) (ds : List Draw) (r1 r2 : List Nat) (ds' : List Draw)
    (h : deal f g1 g2 n1 n2 ds = .ok (r1, r2, ds')) :
    ∃ cs, ds = cs ++ ds' ∧ (∀ d ∈ cs, isCoin d = true) ∧ cs.length ≤ f.length := by
  induction f generalizing g1 g2 ds with
  | nil =>
    simp only [deal, Except.ok.injEq, Prod.mk.injEq] at h
    obtain ⟨_, _, rfl⟩ := h
    exact ⟨[], rfl, by simp, by simp⟩
  | cons v f ih =>
    have lift : ∀ ga gb ds0, deal f ga gb n1 n2 ds0 = .ok (r1, r2, ds') →
        ∃ cs, ds0 = cs ++ ds' ∧ (∀ d ∈ cs, isCoin d = true) ∧ cs.length ≤ (v :: f).length := by
      intro ga gb ds0 h0
      obtain ⟨cs, a, b, c⟩ := ih ga gb ds0 h0
      exact ⟨cs, a, b, by simp only [List.length_cons]; omega⟩
    have coin : ∀ bit ga gb ds0, deal f ga gb n1 n2 ds0 = .ok (r1, r2, ds') →
        ∃ cs, Draw.coin bit :: ds0 = cs ++ ds' ∧ (∀ d ∈ cs, isCoin d = true) ∧ cs.length ≤ (v :: f).length := by
      intro bit ga gb ds0 h0
      obtain ⟨cs, a, b, c⟩ := ih ga gb ds0 h0
      refine ⟨.coin bit :: cs, by simp [a], ?_, by simp only [List.length_cons]; omega⟩
      intro d hd
      rcases List.mem_cons.mp hd with rfl | hd
      · rfl
      · exact b d hd
    unfold deal at h
    by_cases hb : g1.length < n1 ∧ g2.length < n2
    · simp only [hb, and_self, if_true] at h
      match ds, h with
      | .coin true :: cs, h => exact coin true _ _ cs h
      | .coin false :: cs, h => exact coin false _ _ cs h
    · simp only [hb, if_false] at h
      by_cases h1' : g1.length < n1
      · simp only [h1', if_true] at h; exact lift _ _ _ h
      · simp only [h1', if_false] at h
        by_cases h2' : g2.length < n2
        · simp only [h2', if_true] at h; exact lift _ _ _ h
        · simp only [h2', if_false] at h; exact lift _ _ _ h

theorem strip_length_le (ix f : List Nat) : (strip f ix).length ≤ f.length := by
  induction ix generalizing f with
  | nil => simp [strip]
  | cons v ix ih =>
    simp only [strip]
    have a := ih ((f.erase v).erase v)
    have b : ((f.erase v).erase v).length ≤ (f.erase v).length := List.length_erase_le
    have c : (f.erase v).length ≤ f.length := List.length_erase_le
    omega

/-- a reshuffle consumes coins only, at most `|f1| + |f2|` of them -/
theorem reshuffle_used (f1 f2 : Edge) (ds : List Draw) (g1 g2 : Edge) (ds' : List Draw)
    (h : reshuffle f1 f2 ds = .ok (g1, g2, ds')) :
    ∃ cs, ds = cs ++ ds' ∧ (∀ d ∈ cs, isCoin d = true) ∧ cs.length ≤ f1.length + f2.length := by
  unfold reshuffle at h
  split at h
  · simp at h
  · rename_i r1 r2 ds1 hd
    simp only [Except.ok.injEq, Prod.mk.injEq] at h
    obtain ⟨_, _, rfl⟩ := h
    obtain ⟨cs, a, b, c⟩ := deal_used _ _ _ _ _ _ _ _ _ hd
    have := strip_length_le (inter f1 f2) (f1 ++ f2)
    simp only [List.length_append] at this
    exact ⟨cs, a, b, by omega⟩

/-! ## the draws of `__proposal` -/

/-- a drawn index pair that the `while len(f1) != len(f2)` loop throws away -/
def Rejected (detailed : Bool) (es : List Edge) (d : Draw) : Prop :=
  ∃ a b f g, d = .idx a b ∧ es[a]? = some f ∧ es[b]? = some g ∧ admissible detailed f g = false

theorem Rejected.isIdx {detailed : Bool} {es : List Edge} {d : Draw} (h : Rejected detailed es d) :
    isIdx d = true := by
  obtain ⟨a, b, _, _, rfl, _⟩ := h
  rfl

theorem Rejected.detailed {detailed : Bool} {es : List Edge} {d : Draw} (h : Rejected detailed es d) :
    detailed = true := by
  obtain ⟨_, _, f, g, _, _, _, hadm⟩ := h
  cases detailed
  · simp [admissible] at hadm
  · rfl

theorem Rejected.sizes {detailed : Bool} {es : List Edge} {d : Draw} (h : Rejected detailed es d) :
    ∃ a b f g, d = .idx a b ∧ es[a]? = some f ∧ es[b]? = some g ∧ f.length ≠ g.length := by
  obtain ⟨a, b, f, g, hd, ha, hb, hadm⟩ := h
  refine ⟨a, b, f, g, hd, ha, hb, ?_⟩
  intro hl
  simp [admissible, hl] at hadm

/-- the proposal loop consumes the rejected pairs and then the accepted one, nothing else -/
theorem pick_used (detailed : Bool) (es : List Edge) (ds : List Draw) (i j : Nat) (f1 f2 : Edge)
    (ds' : List Draw) (h : pick detailed es ds = .ok (i, j, f1, f2, ds')) :
    ∃ rej, ds = rej ++ .idx i j :: ds' ∧ (∀ d ∈ rej, Rejected detailed es d) ∧
      admissible detailed f1 f2 = true := by
  induction ds with
  | nil => simp [pick] at h
  | cons d ds ih =>
    cases d with
    | coin b => simp [pick] at h
    | idx a b =>
      simp only [pick] at h
      split at h
      · rename_i x1 x2 e1 e2
        split at h
        · rename_i hadm
          simp only [Except.ok.injEq, Prod.mk.injEq] at h
          obtain ⟨rfl, rfl, rfl, rfl, rfl⟩ := h
          exact ⟨[], rfl, by simp, hadm⟩
        · rename_i hadm
          obtain ⟨rej, a1, a2, a3⟩ := ih h
          refine ⟨.idx a b :: rej, by simp [a1], ?_, a3⟩
          intro d hd
          rcases List.mem_cons.mp hd with rfl | hd
          · exact ⟨a, b, x1, x2, rfl, e1, e2, by simpa using hadm⟩
          · exact a2 d hd
      · simp at h

/-! ## the draws of one `mh_step` -/

/-- one step: the rejected pairs, the accepted pair, the coins of its reshuffle; only the two drawn
positions of the listing are rewritten -/
theorem mhStep_used (detailed : Bool) (es : List Edge) (ds : List Draw) (es' : List Edge) (ds' : List Draw)
    (h : mhStep detailed es ds = .ok (es', ds')) :
    ∃ rej i j f1 f2 cs g1 g2, ds = rej ++ .idx i j :: (cs ++ ds') ∧ (∀ d ∈ rej, Rejected detailed es d) ∧
      es[i]? = some f1 ∧ es[j]? = some f2 ∧ admissible detailed f1 f2 = true ∧
      (∀ c ∈ cs, isCoin c = true) ∧ cs.length ≤ f1.length + f2.length ∧
      es' = (es.set i g1).set j g2 := by
  unfold mhStep at h
  split at h
  · simp at h
  · rename_i i j f1 f2 ds1 hp
    split at h
    · simp at h
    · rename_i g1 g2 ds2 hr
      simp only [Except.ok.injEq, Prod.mk.injEq] at h
      obtain ⟨rfl, rfl⟩ := h
      unfold proposal at hp
      split at hp
      · simp at hp
      · obtain ⟨hi, hj, _⟩ := pick_spec _ _ _ _ _ _ _ _ hp
        obtain ⟨rej, a1, a2, a3⟩ := pick_used _ _ _ _ _ _ _ _ hp
        obtain ⟨cs, b1, b2, b3⟩ := reshuffle_used _ _ _ _ _ _ hr
        exact ⟨rej, i, j, f1, f2, cs, _, _, by rw [a1, b1], a2, hi, hj, a3, b2, b3, rfl⟩

/-! ## the largest size bounds the coins -/

theorem maxSize_cons (e : Edge) (es : List Edge) : maxSize (e :: es) = max e.length (maxSize es) := by
  simp [maxSize, sizes]

theorem le_maxSize (es : List Edge) (i : Nat) (f : Edge) (h : es[i]? = some f) : f.length ≤ maxSize es := by
  induction es generalizing i with
  | nil => simp at h
  | cons e es ih =>
    rw [maxSize_cons]
    cases i with
    | zero =>
      simp only [List.getElem?_cons_zero, Option.some.injEq] at h
      subst h
      exact Nat.le_max_left _ _
    | succ i =>
      simp only [List.getElem?_cons_succ] at h
      exact Nat.le_trans (ih i h) (Nat.le_max_right _ _)

theorem maxSize_filter_le (p : Edge → Bool) (es : List Edge) : maxSize (es.filter p) ≤ maxSize es := by
  induction es with
  | nil => simp
  | cons e es ih =>
    rw [maxSize_cons]
    by_cases hp : p e
    · rw [List.filter_cons_of_pos hp, maxSize_cons]
      omega
    · rw [List.filter_cons_of_neg hp]
      omega

theorem maxSize_congr {es es' : List Edge} (h : sizes es' = sizes es) : maxSize es' = maxSize es := by
  simp [maxSize, h]

/-! ## the draws of the chain -/

theorem chain_used (detailed : Bool) (n : Nat) (es : List Edge) (ds : List Draw) (es' : List Edge)
    (ds' : List Draw) (h : chain detailed n es ds = .ok (es', ds')) (hnd : ∀ e ∈ es, e.Nodup) :
    ∃ used, ds = used ++ ds' ∧ n ≤ used.countP isIdx ∧ (detailed = false → used.countP isIdx = n) ∧
      used.countP isCoin ≤ n * (2 * maxSize es) := by
  induction n generalizing es ds with
  | zero =>
    simp only [chain, Except.ok.injEq, Prod.mk.injEq] at h
    obtain ⟨_, rfl⟩ := h
    exact ⟨[], rfl, by simp, by simp, by simp⟩
  | succ n ih =>
    simp only [chain] at h
    split at h
    · simp at h
    · rename_i es1 ds1 hs
      obtain ⟨nd1, sz1, _, _⟩ := mhStep_inv _ _ _ _ _ hs hnd
      obtain ⟨rej, i, j, f1, f2, cs, g1, g2, e0, hrej, hi, hj, _, hcs, hlen, _⟩ := mhStep_used _ _ _ _ _ hs
      obtain ⟨used, e1, c1, c2, c3⟩ := ih es1 ds1 h nd1
      rw [maxSize_congr sz1] at c3
      have l1 := le_maxSize es i f1 hi
      have l2 := le_maxSize es j f2 hj
      have r1 := countP_isIdx_idxs rej (fun d hd => (hrej d hd).isIdx)
      have r2 := countP_isCoin_idxs rej (fun d hd => (hrej d hd).isIdx)
      have k1 := countP_isIdx_coins cs hcs
      have k2 := countP_isCoin_coins cs hcs
      refine ⟨rej ++ .idx i j :: (cs ++ used), by rw [e0, e1]; simp, ?_, ?_, ?_⟩
      · simp only [List.countP_append, List.countP_cons, isIdx, r1, k1]
        simp only [if_true]
        omega
      · intro hd
        have : rej = [] := by
          cases rej with
          | nil => rfl
          | cons d t =>
            have := (hrej d List.mem_cons_self).detailed
            rw [hd] at this
            cases this
        subst this
        simp only [List.countP_append, List.countP_cons, isIdx, k1, List.nil_append, c2 hd]
        simp
      · simp only [List.countP_append, List.countP_cons, isCoin, r2, k2]
        simp only [Bool.false_eq_true, if_false]
        rw [Nat.succ_mul]
        omega

/-! ## the draws of the directed swap loops -/

/-- an iteration consumes two draws when `id1 == id2` (and leaves the list alone), else four -/
theorem swapStep_used (tgt : Bool) (es : List DEdge) (ds : List Nat) (es' : List DEdge) (ds' : List Nat)
    (h : swapStep tgt es ds = .ok (es', ds')) :
    (∃ a, ds = a :: a :: ds' ∧ es' = es) ∨ (∃ a b c d, a ≠ b ∧ ds = a :: b :: c :: d :: ds') := by
  unfold swapStep at h
  split at h
  · rename_i id1 id2 ds0
    split at h
    · rename_i e1 e2 he1 he2
      split at h
      · rename_i heq
        simp only [Except.ok.injEq, Prod.mk.injEq] at h
        obtain ⟨rfl, rfl⟩ := h
        subst heq
        exact Or.inl ⟨id1, rfl, rfl⟩
      · rename_i hne
        split at h
        · simp at h
        · split at h
          · simp at h
          · rename_i c1 ds1
            split at h
            · simp at h
            · split at h
              · simp at h
              · split at h
                · simp at h
                · rename_i c2 ds2
                  split at h
                  · simp at h
                  · simp only [Except.ok.injEq, Prod.mk.injEq] at h
                    obtain ⟨_, rfl⟩ := h
                    exact Or.inr ⟨id1, id2, c1, c2, hne, rfl⟩
    · simp at h
  · simp at h

theorem swapLoop_used (tgt : Bool) (n : Nat) (es : List DEdge) (ds : List Nat) (es' : List DEdge)
    (ds' : List Nat) (h : swapLoop tgt n es ds = .ok (es', ds')) :
    ∃ used, ds = used ++ ds' ∧ 2 * n ≤ used.length ∧ used.length ≤ 4 * n := by
  induction n generalizing es ds with
  | zero =>
    simp only [swapLoop, Except.ok.injEq, Prod.mk.injEq] at h
    obtain ⟨_, rfl⟩ := h
    exact ⟨[], rfl, by simp, by simp⟩
  | succ n ih =>
    simp only [swapLoop] at h
    split at h
    · simp at h
    · rename_i es1 ds1 hs
      obtain ⟨used, e1, c1, c2⟩ := ih es1 ds1 h
      rcases swapStep_used _ _ _ _ _ hs with ⟨a, e0, _⟩ | ⟨a, b, c, d, _, e0⟩
      · exact ⟨a :: a :: used, by rw [e0, e1]; simp, by simp only [List.length_cons]; omega,
          by simp only [List.length_cons]; omega⟩
      · exact ⟨a :: b :: c :: d :: used, by rw [e0, e1]; simp, by simp only [List.length_cons]; omega,
          by simp only [List.length_cons]; omega⟩

/-! ## node set and size counts of the returned listing -/

theorem mem_stubs {es : List Edge} {x : Nat} : x ∈ stubs es ↔ ∃ e ∈ es, x ∈ e := by
  simp [stubs, List.mem_flatten]

theorem mem_stubs_map_sort (es : List Edge) (x : Nat) : x ∈ stubs (es.map sortNodes) ↔ x ∈ stubs es := by
  simp only [mem_stubs, List.mem_map]
  constructor
  · rintro ⟨e, ⟨e0, h0, rfl⟩, hx⟩
    exact ⟨e0, h0, (sortNodes_perm e0).mem_iff.mp hx⟩
  · rintro ⟨e0, h0, hx⟩
    exact ⟨sortNodes e0, ⟨e0, h0, rfl⟩, (sortNodes_perm e0).mem_iff.mpr hx⟩

theorem mem_stubs_dedup (es : List Edge) (x : Nat) : x ∈ stubs (dedup es) ↔ x ∈ stubs es := by
  simp only [mem_stubs, mem_dedup]

theorem mem_stubs_append (a b : List Edge) (x : Nat) : x ∈ stubs (a ++ b) ↔ x ∈ stubs a ∨ x ∈ stubs b := by
  simp [stubs]

theorem mem_stubs_split (q : Edge → Bool) (es : List Edge) (x : Nat) :
    x ∈ stubs es ↔ x ∈ stubs (es.filter q) ∨ x ∈ stubs (es.filter (fun e => !q e)) := by
  simp only [mem_stubs, List.mem_filter]
  constructor
  · rintro ⟨e, he, hx⟩
    by_cases hq : q e
    · exact Or.inl ⟨e, ⟨he, hq⟩, hx⟩
    · exact Or.inr ⟨e, ⟨he, by simp [hq]⟩, hx⟩
  · rintro (⟨e, ⟨he, _⟩, hx⟩ | ⟨e, ⟨he, _⟩, hx⟩) <;> exact ⟨e, he, hx⟩

theorem count_sizes (es : List Edge) (k : Nat) : (sizes es).count k = es.countP (fun e => e.length == k) := by
  induction es with
  | nil => rfl
  | cons e es ih =>
    simp only [sizes, List.map_cons, List.count_cons, List.countP_cons] at *
    rw [ih]

/-- what the returned listing keeps besides the degrees (`Preserved`): exactly the nodes that occur in
a hyperedge of the input occur in one of the output, and no size is more frequent than in the input -/
structure Kept (es out : List Edge) : Prop where
  nodes : ∀ x, x ∈ stubs out ↔ x ∈ stubs es
  sizes_le : ∀ k, (sizes out).count k ≤ (sizes es).count k

theorem stubEdgeMH_kept (detailed : Bool) (n : Nat) (es : List Edge) (ds : List Draw) (out : List Edge)
    (h : stubEdgeMH detailed n es ds = .ok out) (hnd : ∀ e ∈ es, e.Nodup) : Kept es out := by
  unfold stubEdgeMH at h
  split at h
  · simp at h
  · rename_i es' ds' hc
    simp only [Except.ok.injEq] at h
    subst h
    obtain ⟨_, sz, st, _⟩ := chain_inv _ _ _ _ _ _ hc hnd
    constructor
    · intro x
      rw [mem_stubs_dedup, mem_stubs_map_sort]
      exact st.mem_iff
    · intro k
      have hsub := (dedup_sublist (es'.map sortNodes)).map List.length
      have := hsub.count_le k
      rw [← sz, ← sizes_map_sort es']
      exact this

theorem configurationModel_kept (label : Label) (detailed : Bool) (size : Option Nat) (n : Nat)
    (es : List Edge) (ds : List Draw) (out : List Edge)
    (h : configurationModel label detailed size n es ds = .ok out)
    (hdist : size.isSome = true → es.Nodup) (hnd : ∀ e ∈ es, e.Nodup) : Kept es out := by
  cases size with
  | none =>
    simp only [configurationModel] at h
    cases label <;> exact stubEdgeMH_kept _ _ _ _ _ h hnd
  | some s =>
    simp only [configurationModel] at h
    split at h
    · simp at h
    · rename_i o0 h0
      simp only [Except.ok.injEq] at h
      have hsel : ∀ e ∈ es.filter (fun e => e.length == s), e.Nodup :=
        fun e he => hnd e (List.mem_filter.mp he).1
      have P := cmMCMC_preserved _ _ _ _ _ _ h0 hsel
      have K : Kept (es.filter (fun e => e.length == s)) o0 := by
        cases label <;> exact stubEdgeMH_kept _ _ _ _ _ h0 hsel
      have hsz : ∀ e ∈ o0, e.length = s := by
        intro e he
        obtain ⟨e0, h0, hl⟩ := List.mem_map.mp (P.sizesSub e he)
        have := (List.mem_filter.mp h0).2
        simp only [beq_iff_eq] at this
        omega
      have hout : out = o0 ++ es.filter (fun e => e.length != s) := by
        rw [← h]
        apply foldl_addEdge
        · exact (hdist rfl).sublist List.filter_sublist
        · intro e he hmem
          have := (List.mem_filter.mp he).2
          have := hsz e hmem
          simp_all
      subst hout
      have hne : (fun e : Edge => !(e.length == s)) = (fun e : Edge => e.length != s) := rfl
      constructor
      · intro x
        rw [mem_stubs_append, K.nodes x, mem_stubs_split (fun e => e.length == s) es x, hne]
      · intro k
        have h1 := K.sizes_le k
        have h2 := countP_split (fun e : Edge => e.length == k) (fun e : Edge => e.length == s) es
        rw [hne] at h2
        rw [count_sizes, count_sizes] at h1
        rw [count_sizes, count_sizes, List.countP_append]
        omega

/-! ## the report of a call -/

theorem cmReport_ok (label : Label) (detailed : Bool) (order size : Option Nat) (n : Nat)
    (es : List Edge) (ds : List Draw) (r : Report) (h : cmReport label detailed order size n es ds = .ok r) :
    ∃ sz es' ds', resolveSize order size = .ok sz ∧ chain detailed n (selected sz es) ds = .ok (es', ds') ∧
      r.edges = readd sz es (dedup (es'.map sortNodes)) ∧ r.nodes = nodesOf r.edges ∧
      r.idx = (usedOf ds ds').countP isIdx ∧ r.coins = (usedOf ds ds').countP isCoin ∧ r.left = ds'.length := by
  unfold cmReport at h
  split at h
  · simp at h
  · rename_i sz hsz
    split at h
    · simp at h
    · rename_i es' ds' hc
      simp only [Except.ok.injEq] at h
      subst h
      exact ⟨sz, es', ds', hsz, hc, rfl, rfl, rfl, rfl, rfl⟩

theorem selected_nodup (sz : Option Nat) (es : List Edge) (hnd : ∀ e ∈ es, e.Nodup) :
    ∀ e ∈ selected sz es, e.Nodup := by
  cases sz with
  | none => exact hnd
  | some s => exact fun e he => hnd e (List.mem_filter.mp he).1

theorem maxSize_selected_le (sz : Option Nat) (es : List Edge) : maxSize (selected sz es) ≤ maxSize es := by
  cases sz with
  | none => exact Nat.le_refl _
  | some s => exact maxSize_filter_le _ es

/-- the accounting of a whole call -/
theorem cmReport_acct (label : Label) (detailed : Bool) (order size : Option Nat) (n : Nat)
    (es : List Edge) (ds : List Draw) (r : Report) (h : cmReport label detailed order size n es ds = .ok r)
    (hnd : ∀ e ∈ es, e.Nodup) :
    r.idx + r.coins + r.left = ds.length ∧ n ≤ r.idx ∧ (detailed = false → r.idx = n) ∧
      r.coins ≤ n * (2 * maxSize es) := by
  obtain ⟨sz, es', ds', _, hc, _, _, hi, hk, hl⟩ := cmReport_ok _ _ _ _ _ _ _ _ h
  obtain ⟨used, e, c1, c2, c3⟩ := chain_used _ _ _ _ _ _ hc (selected_nodup sz es hnd)
  subst e
  rw [usedOf_append] at hi hk
  have hlen := length_eq_idx_add_coin used
  have hm := maxSize_selected_le sz es
  have hmul : n * (2 * maxSize (selected sz es)) ≤ n * (2 * maxSize es) :=
    Nat.mul_le_mul_left n (Nat.mul_le_mul_left 2 hm)
  refine ⟨?_, ?_, ?_, ?_⟩
  · rw [hi, hk, hl, List.length_append]; omega
  · rw [hi]; exact c1
  · intro hd; rw [hi]; exact c2 hd
  · rw [hk]; exact Nat.le_trans c3 hmul

theorem mem_nodesOf (out : List Edge) (x : Nat) : x ∈ nodesOf out ↔ x ∈ stubs out := by
  unfold nodesOf
  rw [(sortNodes_perm _).mem_iff, mem_dedup]

theorem nodesOf_sorted (out : List Edge) : (nodesOf out).Pairwise (· < ·) :=
  sortNodes_strict (dedup_nodup _)

theorem deg_pos_iff (es : List Edge) (x : Nat) : 0 < deg es x ↔ x ∈ stubs es := by
  unfold deg
  rw [List.countP_pos_iff, mem_stubs]
  simp

/-! ## zero steps -/

theorem sortNodes_of_sorted {e : Edge} (h : e.Pairwise (· < ·)) : sortNodes e = e :=
  List.Perm.eq_of_pairwise (fun _ _ _ _ hab hba => Nat.le_antisymm hab hba) (sortNodes_sorted e)
    (h.imp (fun h => Nat.le_of_lt h)) (sortNodes_perm e)

theorem map_sortNodes_of_sorted (es : List Edge) (h : ∀ e ∈ es, e.Pairwise (· < ·)) : es.map sortNodes = es := by
  induction es with
  | nil => rfl
  | cons e es ih =>
    rw [List.map_cons, sortNodes_of_sorted (h e List.mem_cons_self),
      ih (fun e he => h e (List.mem_cons_of_mem _ he))]

theorem dedup_of_nodup {α} [BEq α] [LawfulBEq α] (l : List α) (h : l.Nodup) : dedup l = l := by
  induction l with
  | nil => rfl
  | cons a t ih =>
    have hn := List.nodup_cons.mp h
    have : t.contains a = false := by simpa using hn.1
    simp only [dedup, this, Bool.false_eq_true, if_false, ih hn.2]

/-- with `n_steps = 0` nothing is drawn and the call returns the input listing (up to the order of the
listing when a size is given: the hyperedges of that size first) – also when no hyperedge has that size -/
theorem zero_steps (label : Label) (detailed : Bool) (size : Option Nat) (es : List Edge) (ds : List Draw)
    (hdist : es.Nodup) (hs : ∀ e ∈ es, e.Pairwise (· < ·)) :
    ∃ out, configurationModel label detailed size 0 es ds = .ok out ∧ out.Perm es ∧ (size = none → out = es) := by
  cases size with
  | none =>
    refine ⟨es, ?_, List.Perm.refl _, fun _ => rfl⟩
    cases label <;>
      simp only [configurationModel, cmMCMC, stubEdgeMH, chain, map_sortNodes_of_sorted es hs,
        dedup_of_nodup es hdist]
  | some s =>
    have hsel : ((es.filter (fun e => e.length == s)).map sortNodes) = es.filter (fun e => e.length == s) :=
      map_sortNodes_of_sorted _ (fun e he => hs e (List.mem_filter.mp he).1)
    have hd : dedup (es.filter (fun e => e.length == s)) = es.filter (fun e => e.length == s) :=
      dedup_of_nodup _ (hdist.sublist List.filter_sublist)
    have hf : (es.filter (fun e => e.length != s)).foldl addEdge (es.filter (fun e => e.length == s))
        = es.filter (fun e => e.length == s) ++ es.filter (fun e => e.length != s) := by
      apply foldl_addEdge
      · exact hdist.sublist List.filter_sublist
      · intro e he hmem
        have h1 := (List.mem_filter.mp he).2
        have h2 := (List.mem_filter.mp hmem).2
        simp_all
    refine ⟨_, ?_, filter_split_perm (fun e : Edge => e.length == s) es, fun h => by cases h⟩
    cases label <;> simp only [configurationModel, cmMCMC, stubEdgeMH, chain, hsel, hd, hf] <;> rfl

/-! ## directed: node sets and shape counts of the returned listing, the report -/

theorem mem_srcStubs {es : List DEdge} {x : Nat} : x ∈ srcStubs es ↔ ∃ e ∈ es, x ∈ e.1 := by
  simp [srcStubs, List.mem_flatMap]

theorem mem_tgtStubs {es : List DEdge} {x : Nat} : x ∈ tgtStubs es ↔ ∃ e ∈ es, x ∈ e.2 := by
  simp [tgtStubs, List.mem_flatMap]

theorem mem_srcStubs_out (es : List DEdge) (x : Nat) :
    x ∈ srcStubs (dedup (es.map sortSides)) ↔ x ∈ srcStubs es := by
  simp only [mem_srcStubs, mem_dedup, List.mem_map]
  constructor
  · rintro ⟨e, ⟨e0, h0, rfl⟩, hx⟩
    exact ⟨e0, h0, (sortNodes_perm e0.1).mem_iff.mp hx⟩
  · rintro ⟨e0, h0, hx⟩
    exact ⟨sortSides e0, ⟨e0, h0, rfl⟩, (sortNodes_perm e0.1).mem_iff.mpr hx⟩

theorem mem_tgtStubs_out (es : List DEdge) (x : Nat) :
    x ∈ tgtStubs (dedup (es.map sortSides)) ↔ x ∈ tgtStubs es := by
  simp only [mem_tgtStubs, mem_dedup, List.mem_map]
  constructor
  · rintro ⟨e, ⟨e0, h0, rfl⟩, hx⟩
    exact ⟨e0, h0, (sortNodes_perm e0.2).mem_iff.mp hx⟩
  · rintro ⟨e0, h0, hx⟩
    exact ⟨sortSides e0, ⟨e0, h0, rfl⟩, (sortNodes_perm e0.2).mem_iff.mpr hx⟩

structure DKept (es out : List DEdge) : Prop where
  src : ∀ x, x ∈ srcStubs out ↔ x ∈ srcStubs es
  tgt : ∀ x, x ∈ tgtStubs out ↔ x ∈ tgtStubs es
  shapes_le : ∀ p, (shapes out).count p ≤ (shapes es).count p

theorem directedCM_kept (es : List DEdge) (ds : List Nat) (out : List DEdge)
    (h : directedCM es ds = .ok out) (hnd : ∀ e ∈ es, e.1.Nodup ∧ e.2.Nodup) : DKept es out := by
  unfold directedCM at h
  split at h
  · simp at h
  · rename_i es1 ds1 h1
    split at h
    · simp at h
    · rename_i es2 ds2 h2
      simp only [Except.ok.injEq] at h
      subst h
      have i1 := swapLoop_inv _ _ _ _ _ _ h1 hnd
      have I := i1.trans (swapLoop_inv _ _ _ _ _ _ h2 i1.nd)
      refine ⟨fun x => ?_, fun x => ?_, fun p => ?_⟩
      · rw [mem_srcStubs_out]; exact I.src.mem_iff
      · rw [mem_tgtStubs_out]; exact I.tgt.mem_iff
      · have hsub := (dedup_sublist (es2.map sortSides)).map (fun e : DEdge => (e.1.length, e.2.length))
        have := hsub.count_le p
        rw [← I.shp, ← shapes_map_sort es2]
        exact this

theorem dcmReport_ok (es : List DEdge) (ds : List Nat) (r : DReport) (h : dcmReport es ds = .ok r) :
    ∃ es1 ds1 es2 ds2, swapLoop false (es.length * 10) es ds = .ok (es1, ds1) ∧
      swapLoop true (es.length * 10) es1 ds1 = .ok (es2, ds2) ∧
      r.edges = dedup (es2.map sortSides) ∧ r.nodes = dnodesOf r.edges ∧
      r.usedSrc = ds.length - ds1.length ∧ r.usedTgt = ds1.length - ds2.length ∧ r.left = ds2.length := by
  unfold dcmReport at h
  split at h
  · simp at h
  · rename_i es1 ds1 h1
    split at h
    · simp at h
    · rename_i es2 ds2 h2
      simp only [Except.ok.injEq] at h
      subst h
      exact ⟨es1, ds1, es2, ds2, h1, h2, rfl, rfl, rfl, rfl, rfl⟩

theorem dcmReport_acct (es : List DEdge) (ds : List Nat) (r : DReport) (h : dcmReport es ds = .ok r) :
    r.usedSrc + r.usedTgt + r.left = ds.length ∧
      20 * es.length ≤ r.usedSrc ∧ r.usedSrc ≤ 40 * es.length ∧
      20 * es.length ≤ r.usedTgt ∧ r.usedTgt ≤ 40 * es.length := by
  obtain ⟨es1, ds1, es2, ds2, h1, h2, _, _, a, b, c⟩ := dcmReport_ok _ _ _ h
  obtain ⟨u1, e1, l1, g1⟩ := swapLoop_used _ _ _ _ _ _ h1
  obtain ⟨u2, e2, l2, g2⟩ := swapLoop_used _ _ _ _ _ _ h2
  subst e1 e2
  simp only [List.length_append] at a b
  rw [a, b, c]
  simp only [List.length_append]
  omega

theorem mem_dnodesOf (out : List DEdge) (x : Nat) : x ∈ dnodesOf out ↔ x ∈ srcStubs out ∨ x ∈ tgtStubs out := by
  unfold dnodesOf
  rw [(sortNodes_perm _).mem_iff, mem_dedup, List.mem_append]

theorem dnodesOf_sorted (out : List DEdge) : (dnodesOf out).Pairwise (· < ·) :=
  sortNodes_strict (dedup_nodup _)

end C13
