import Hgxv.Proofs.C01Basic
/-! C01, part 2: the representation invariant `Inv` and its preservation by the primitive updates. -/
namespace C01
open AL

/-- Representation invariant of the tables of a `Hypergraph`. -/
structure Inv (s : Store) : Prop where
  /-- `_reverse_edge_list` is the inverse of `_edge_list` -/
  rev_of_edge : ∀ e id, get? s.edgeList e = some id → get? s.rev id = some e
  edge_of_rev : ∀ e id, get? s.rev id = some e → get? s.edgeList e = some id
  /-- ids in use are below `_next_edge_id` -/
  id_lt : ∀ id e, get? s.rev id = some e → id < s.nextId
  /-- a key is listed once -/
  el_nodup : (keys s.edgeList).Nodup
  /-- keys are canonical (sorted) duplicate-free node tuples -/
  key_canon : ∀ e id, get? s.edgeList e = some id → e.Nodup ∧ canon e = e
  /-- the weight and metadata tables have exactly the ids in use -/
  w_dom : ∀ id, (get? s.weights id).isSome = (get? s.rev id).isSome
  m_dom : ∀ id, (get? s.emeta id).isSome = (get? s.rev id).isSome
  /-- adjacency lists are strictly increasing (ids are appended in allocation order): no id twice -/
  adj_sorted : ∀ n ids, get? s.adj n = some ids → ids.Pairwise (· < ·)
  /-- an id is in `_adj[n]` iff it is the id of a hyperedge containing `n` -/
  adj_iff : ∀ n ids, get? s.adj n = some ids → ∀ id, id ∈ ids ↔ ∃ e, get? s.rev id = some e ∧ n ∈ e
  /-- every node of every hyperedge is a node of the hypergraph -/
  nodes_in : ∀ id e, get? s.rev id = some e → ∀ n ∈ e, (get? s.adj n).isSome
  adj_nodup : (keys s.adj).Nodup
  /-- `_node_metadata` has the nodes of `_adj`, in the same order -/
  nm_keys : keys s.nmeta = keys s.adj
  /-- `_edge_list` lists the hyperedges in allocation order -/
  el_sorted : (s.edgeList.map (·.2)).Pairwise (· < ·)
  /-- an unweighted hypergraph stores weight 1 everywhere -/
  unw_one : s.weighted = false → ∀ id w, get? s.weights id = some w → w = one

theorem inv_new (w : Bool) (hm : Meta) : Inv (Store.new w hm) := by
  constructor <;> simp [Store.new, keys]

theorem Inv.adj_ids_nodup {s : Store} (h : Inv s) {n : Node} {ids : List Nat} (hn : get? s.adj n = some ids) :
    ids.Nodup :=
  List.Pairwise.imp (fun hab => by omega) (h.adj_sorted n ids hn)

theorem Inv.id_of_mem {s : Store} (h : Inv s) {p : Edge × Nat} (hp : p ∈ s.edgeList) :
    get? s.edgeList p.1 = some p.2 := get?_of_mem h.el_nodup hp

theorem Inv.mem_lt {s : Store} (h : Inv s) {p : Edge × Nat} (hp : p ∈ s.edgeList) : p.2 < s.nextId :=
  h.id_lt _ _ (h.rev_of_edge _ _ (h.id_of_mem hp))

/-- two keys with the same id are the same key -/
theorem Inv.id_inj {s : Store} (h : Inv s) {e1 e2 : Edge} {id : Nat}
    (h1 : get? s.edgeList e1 = some id) (h2 : get? s.edgeList e2 = some id) : e1 = e2 := by
  have a := h.rev_of_edge _ _ h1
  have b := h.rev_of_edge _ _ h2
  rw [a] at b; exact Option.some.inj b

/-- updates that touch only values of the weight / metadata tables -/
theorem Inv.of_tables {s : Store} (h : Inv s) (s' : Store)
    (h1 : s'.edgeList = s.edgeList) (h2 : s'.rev = s.rev) (h3 : s'.adj = s.adj) (h4 : s'.nextId = s.nextId)
    (hw : ∀ id, (get? s'.weights id).isSome = (get? s.weights id).isSome)
    (hm : ∀ id, (get? s'.emeta id).isSome = (get? s.emeta id).isSome)
    (hn : keys s'.nmeta = keys s.nmeta)
    (hone : s'.weighted = false → ∀ id w, get? s'.weights id = some w → w = one) : Inv s' := by
  constructor
  · rw [h1, h2]; exact h.rev_of_edge
  · rw [h1, h2]; exact h.edge_of_rev
  · rw [h2, h4]; exact h.id_lt
  · rw [h1]; exact h.el_nodup
  · rw [h1]; exact h.key_canon
  · intro id; rw [hw, h2]; exact h.w_dom id
  · intro id; rw [hm, h2]; exact h.m_dom id
  · rw [h3]; exact h.adj_sorted
  · rw [h3, h2]; exact h.adj_iff
  · rw [h3, h2]; exact h.nodes_in
  · rw [h3]; exact h.adj_nodup
  · rw [hn, h3]; exact h.nm_keys
  · rw [h1]; exact h.el_sorted
  · exact hone

theorem clear_inv (s : Store) : Inv (clear s).1 := by
  constructor <;> simp [clear, keys]

/-! ### nodes -/

theorem touchNode_inv (s : Store) (n : Node) (h : Inv s) : Inv (touchNode s n) := by
  obtain ⟨f1, f2, f3, f4, f5, f6, f7⟩ := touchNode_fields s n
  have hk := touchNode_keys s n h.nm_keys
  constructor
  · rw [f1, f2]; exact h.rev_of_edge
  · rw [f1, f2]; exact h.edge_of_rev
  · rw [f2, f5]; exact h.id_lt
  · rw [f1]; exact h.el_nodup
  · rw [f1]; exact h.key_canon
  · rw [f3, f2]; exact h.w_dom
  · rw [f4, f2]; exact h.m_dom
  · intro m ids; rw [touchNode_adj]
    by_cases hm : m = n
    · subst hm
      cases hg : get? s.adj m with
      | none => simp; intro hh; subst hh; simp
      | some ids0 => simp; intro hh; subst hh; exact h.adj_sorted _ _ hg
    · simp [hm]; exact h.adj_sorted m ids
  · intro m ids; rw [touchNode_adj, f2]
    by_cases hm : m = n
    · subst hm
      cases hg : get? s.adj m with
      | none =>
        simp; intro hh; subst hh; simp
        intro id e he hme
        have := h.nodes_in _ _ he m hme
        simp [hg] at this
      | some ids0 => simp; intro hh; subst hh; exact h.adj_iff _ _ hg
    · simp [hm]; exact h.adj_iff m ids
  · intro id e; rw [f2]; intro he m hm
    rw [touchNode_adj]
    by_cases hmn : m = n
    · simp [hmn]
    · simp [hmn]; exact h.nodes_in _ _ he m hm
  · rw [hk.2]; split
    · exact h.adj_nodup
    · rename_i hn
      refine List.nodup_append.mpr ⟨h.adj_nodup, by simp, ?_⟩
      intro a ha b hb hab; simp at hb; subst hb; subst hab
      exact hn ((mem_keys_iff _ _).mp ha)
  · exact hk.1
  · rw [f1]; exact h.el_sorted
  · rw [f6, f3]; exact h.unw_one

theorem fillNodeMeta_inv (s : Store) (n : Node) (md : Meta) (h : Inv s) : Inv (fillNodeMeta s n md) := by
  unfold fillNodeMeta
  split
  · rename_i hg
    exact h.of_tables _ rfl rfl rfl rfl (fun _ => rfl) (fun _ => rfl)
      (keys_set_of_mem _ _ _ (by simp [hg])) h.unw_one
  · exact h

theorem addNode_inv (s : Store) (n : Node) (md : Option Meta) (h : Inv s) : Inv (addNode s n md) :=
  fillNodeMeta_inv _ _ _ (touchNode_inv s n h)

/-! ### add_edge -/

theorem addEdgeOld_inv (s : Store) (e : Edge) (id : Nat) (wt : Int) (md : Meta)
    (hid : get? s.edgeList e = some id) (h : Inv s) : Inv (addEdgeOld s id wt md) := by
  have hrev : (get? s.rev id).isSome := by simp [h.rev_of_edge _ _ hid]
  refine h.of_tables (addEdgeOld s id wt md) rfl rfl rfl rfl ?_ ?_ rfl ?_
  · intro id'
    simp only [addEdgeOld]
    split
    · rw [isSome_set]
      by_cases hh : id = id'
      · subst hh; simp [h.w_dom, hrev]
      · simp [hh]
    · rfl
  · intro id'
    simp only [addEdgeOld]
    rw [isSome_set]
    by_cases hh : id = id'
    · subst hh; simp [h.m_dom, hrev]
    · simp [hh]
  · intro hw id' w
    have hw' : s.weighted = false := hw
    simp only [addEdgeOld, hw']
    exact h.unw_one hw' id' w

theorem addEdgeNew_inv_aux (s s0 : Store) (raw : List Nat) (wt : Int) (md : Meta)
    (hraw : raw.Nodup) (hget : get? s.edgeList (canon raw) = none) (h : Inv s)
    (e1 : s0.edgeList = AL.set s.edgeList (canon raw) s.nextId)
    (e2 : s0.rev = AL.set s.rev s.nextId (canon raw))
    (e3 : s0.weights = AL.set s.weights s.nextId (if s.weighted then wt else one))
    (e4 : s0.emeta = AL.set s.emeta s.nextId md)
    (e5 : s0.nextId = s.nextId + 1) (e6 : s0.adj = s.adj) (e7 : s0.nmeta = s.nmeta)
    (e8 : s0.weighted = s.weighted) :
    Inv (linkNodes s0 s.nextId (canon raw)) := by
  have hnd := canon_nodup hraw
  have hfresh : get? s.rev s.nextId = none := by
    cases hr : get? s.rev s.nextId with
    | none => rfl
    | some e => exact absurd (h.id_lt _ _ hr) (Nat.lt_irrefl _)
  obtain ⟨f1, f2, f3, f4, f5, f6, f7⟩ := linkNodes_fields s0 s.nextId (canon raw)
  have hnodes := linkNodes_nodes s0 s.nextId (canon raw) (by rw [e7, e6]; exact h.nm_keys) (by rw [e6]; exact h.adj_nodup)
  constructor
  · intro e id'
    rw [f1, f2, e1, e2]
    simp only [get?_set]
    intro hh
    by_cases he : canon raw = e
    · subst he; simp at hh; subst hh; simp
    · simp [he] at hh
      have := h.rev_of_edge e id' hh
      have hlt := h.id_lt _ _ this
      have : s.nextId ≠ id' := by omega
      simp [this]; exact h.rev_of_edge e id' hh
  · intro e id'
    rw [f1, f2, e1, e2]
    simp only [get?_set]
    intro hh
    by_cases hid : s.nextId = id'
    · subst hid; simp at hh; subst hh; simp
    · simp [hid] at hh
      have h2 := h.edge_of_rev e id' hh
      have : canon raw ≠ e := by intro heq; rw [heq] at hget; rw [hget] at h2; cases h2
      simp [this, h2]
  · intro id' e
    rw [f2, f5, e2, e5]
    simp only [get?_set]
    intro hh
    by_cases hid : s.nextId = id'
    · omega
    · simp [hid] at hh; have := h.id_lt _ _ hh; omega
  · rw [f1, e1]; exact keys_set_nodup _ _ _ h.el_nodup
  · intro e id'
    rw [f1, e1]; simp only [get?_set]
    by_cases he : canon raw = e
    · subst he; intro _; exact ⟨hnd, canon_idem raw⟩
    · simp [he]; exact h.key_canon e id'
  · intro id'
    rw [f3, f2, e3, e2, isSome_set, isSome_set, h.w_dom]
  · intro id'
    rw [f4, f2, e4, e2, isSome_set, isSome_set, h.m_dom]
  · intro n ids
    rw [linkNodes_adj _ _ _ hnd, e6]
    split
    · intro hh; injection hh with hh; subst hh
      cases ha : get? s.adj n with
      | none => simp
      | some ids0 =>
        simp
        refine List.pairwise_append.mpr ⟨h.adj_sorted _ _ ha, by simp, ?_⟩
        intro a ha1 b hb; simp at hb; subst hb
        obtain ⟨e, he, _⟩ := (h.adj_iff n ids0 ha _).mp ha1
        exact h.id_lt _ _ he
    · exact h.adj_sorted n ids
  · intro n ids
    rw [linkNodes_adj _ _ _ hnd, f2, e2, e6]
    simp only [get?_set]
    split
    · rename_i hmem
      intro hh; injection hh with hh; subst hh
      intro id'
      by_cases hid : s.nextId = id'
      · subst hid; simp [hmem]
      · simp [hid]
        cases ha : get? s.adj n with
        | none =>
          simp [Ne.symm hid]
          intro e he hne
          have := h.nodes_in _ _ he n hne
          simp [ha] at this
        | some ids0 => simp [Ne.symm hid]; exact h.adj_iff n ids0 ha id'
    · rename_i hmem
      intro hh id'
      by_cases hid : s.nextId = id'
      · subst hid; simp [hmem]
        intro hin
        obtain ⟨e, he, _⟩ := (h.adj_iff n ids hh _).mp hin
        rw [hfresh] at he; cases he
      · simp [hid]; exact h.adj_iff n ids hh id'
  · intro id' e
    rw [f2, e2]
    simp only [get?_set]
    intro hh n hn
    rw [linkNodes_adj _ _ _ hnd, e6]
    by_cases hid : s.nextId = id'
    · subst hid; simp at hh; subst hh; simp [hn]
    · simp [hid] at hh
      split
      · simp
      · exact h.nodes_in _ _ hh n hn
  · exact hnodes.2.1
  · exact hnodes.1
  · rw [f1, e1, set_of_not_mem _ _ _ hget]
    simp only [List.map_append, List.map_cons, List.map_nil]
    refine List.pairwise_append.mpr ⟨h.el_sorted, by simp, ?_⟩
    intro a ha b hb; simp at hb; subst hb
    obtain ⟨p, hp, rfl⟩ := List.mem_map.mp ha
    exact h.mem_lt hp
  · rw [f6, f3, e8, e3]
    intro hw id' w
    simp only [get?_set, hw]
    by_cases hid : s.nextId = id'
    · simp [hid]; intro hh; exact hh.symm
    · simp [hid]; exact h.unw_one hw id' w

theorem addEdgeNew_inv (s : Store) (raw : List Nat) (wt : Int) (md : Meta)
    (hraw : raw.Nodup) (hget : get? s.edgeList (canon raw) = none) (h : Inv s) :
    Inv (addEdgeNew s (canon raw) wt md) := by
  unfold addEdgeNew
  exact addEdgeNew_inv_aux s _ raw wt md hraw hget h rfl rfl rfl rfl rfl rfl rfl rfl

theorem addEdge_inv (s : Store) (raw : List Nat) (w : Option Int) (md : Option Meta)
    (hraw : raw.Nodup) (h : Inv s) : Inv (addEdge s raw w md).1 := by
  unfold addEdge
  split
  · exact h
  · split
    · rename_i hget; exact addEdgeNew_inv s raw _ _ hraw hget h
    · rename_i id hget; exact addEdgeOld_inv s _ id _ _ hget h

/-! ### remove_edge -/

theorem removeEdgeId_inv (s : Store) (e : Edge) (id : Nat) (hid : get? s.edgeList e = some id) (h : Inv s) :
    Inv (removeEdgeId s e id) := by
  have hrev := h.rev_of_edge _ _ hid
  have hnd : e.Nodup := (h.key_canon _ _ hid).1
  unfold removeEdgeId
  constructor
  · intro e' id'
    simp only [get?_del]
    by_cases he : e = e'
    · simp [he]
    · simp [he]; intro hh
      have : id ≠ id' := by
        intro heq; subst heq; exact he (h.id_inj hid hh)
      simp [this]; exact h.rev_of_edge _ _ hh
  · intro e' id'
    simp only [get?_del]
    by_cases hi : id = id'
    · simp [hi]
    · simp [hi]; intro hh
      have : e ≠ e' := by
        intro heq; subst heq
        have := h.edge_of_rev _ _ hh; rw [hid] at this; exact hi (Option.some.inj this)
      simp [this]; exact h.edge_of_rev _ _ hh
  · intro id' e'
    simp only [get?_del]
    by_cases hi : id = id'
    · simp [hi]
    · simp [hi]; exact h.id_lt id' e'
  · simp only [keys_del]; exact (List.filter_sublist).nodup h.el_nodup
  · intro e' id'
    simp only [get?_del]
    by_cases he : e = e'
    · simp [he]
    · simp [he]; exact h.key_canon e' id'
  · intro id'
    simp only [get?_del]
    by_cases hi : id = id'
    · simp [hi]
    · simp [hi]; exact h.w_dom id'
  · intro id'
    simp only [get?_del]
    by_cases hi : id = id'
    · simp [hi]
    · simp [hi]; exact h.m_dom id'
  · intro n ids
    simp only [unlinkNodes_get _ _ _ hnd]
    split
    · cases hg : get? s.adj n with
      | none => simp
      | some ids0 => simp; intro hh; subst hh; exact (h.adj_sorted _ _ hg).erase id
    · exact h.adj_sorted n ids
  · intro n ids
    simp only [unlinkNodes_get _ _ _ hnd, get?_del]
    split
    · rename_i hmem
      cases hg : get? s.adj n with
      | none => simp
      | some ids0 =>
        simp; intro hh; subst hh
        intro id'
        rw [(h.adj_ids_nodup hg).mem_erase_iff, h.adj_iff _ _ hg]
        by_cases hi : id = id'
        · subst hi; simp
        · simp [hi, Ne.symm hi]
    · rename_i hmem
      intro hg id'
      rw [h.adj_iff _ _ hg]
      by_cases hi : id = id'
      · subst hi; simp [hrev, hmem]
      · simp [hi]
  · intro id' e'
    simp only [get?_del]
    by_cases hi : id = id'
    · simp [hi]
    · simp [hi]; intro hh n hn
      have := h.nodes_in _ _ hh n hn
      rw [← mem_keys_iff] at this ⊢
      rw [unlinkNodes_keys]; exact this
  · simp only [unlinkNodes_keys]; exact h.adj_nodup
  · simp only [unlinkNodes_keys]; exact h.nm_keys
  · exact List.Pairwise.sublist ((del_sublist s.edgeList e).map _) h.el_sorted
  · intro hw id' w
    simp only [get?_del]
    by_cases hi : id = id'
    · simp [hi]
    · simp [hi]; exact h.unw_one hw id' w

theorem removeEdge_inv (s : Store) (raw : List Nat) (h : Inv s) : Inv (removeEdge s raw).1 := by
  unfold removeEdge
  split
  · exact h
  · rename_i id hid; exact removeEdgeId_inv s _ id hid h

/-! ### dropping a node no hyperedge contains -/

theorem dropNode_inv (s : Store) (n : Node) (hfree : ∀ id e, get? s.rev id = some e → n ∉ e) (h : Inv s) :
    Inv (dropNode s n) := by
  unfold dropNode
  constructor
  · exact h.rev_of_edge
  · exact h.edge_of_rev
  · exact h.id_lt
  · exact h.el_nodup
  · exact h.key_canon
  · exact h.w_dom
  · exact h.m_dom
  · intro m ids
    simp only [get?_del]
    by_cases hm : n = m
    · simp [hm]
    · simp [hm]; exact h.adj_sorted m ids
  · intro m ids
    simp only [get?_del]
    by_cases hm : n = m
    · simp [hm]
    · simp [hm]; exact h.adj_iff m ids
  · intro id e he m hm
    simp only [get?_del]
    have : n ≠ m := by intro heq; subst heq; exact hfree _ _ he hm
    simp [this]; exact h.nodes_in _ _ he m hm
  · simp only [keys_del]; exact (List.filter_sublist).nodup h.adj_nodup
  · simp only [keys_del]; rw [h.nm_keys]
  · exact h.el_sorted
  · exact h.unw_one

end C01
