import Hgxv.Model.C06Hif
import Hgxv.Proofs.C06Hgr
/-! C06: the HIF reader — numbering tables, the four loops, their invariants.  Core Lean only. -/
set_option linter.unusedSectionVars false
namespace C06

/-! ## first-come numbering -/

/-- a numbering table: injective, values below the length -/
def TabOK (tbl : List (Nat × Nat)) : Prop :=
  (∀ a b u, AL.get? tbl a = some u → AL.get? tbl b = some u → a = b) ∧
  (∀ a u, AL.get? tbl a = some u → u < tbl.length)

theorem TabOK_nil : TabOK [] := by simp [TabOK, AL.get?]

theorem assign_old (tbl : List (Nat × Nat)) (n u : Nat) (h : AL.get? tbl n = some u) : assign tbl n = (tbl, u) := by
  simp [assign, h]

theorem assign_new (tbl : List (Nat × Nat)) (n : Nat) (h : AL.get? tbl n = none) :
    assign tbl n = (tbl ++ [(n, tbl.length)], tbl.length) := by
  simp [assign, h]

theorem assign_get_self (tbl : List (Nat × Nat)) (n : Nat) :
    AL.get? (assign tbl n).1 n = some (assign tbl n).2 := by
  cases h : AL.get? tbl n with
  | some u => rw [assign_old tbl n u h]; exact h
  | none => rw [assign_new tbl n h]; simp [AL_get?_append, h]

theorem assign_stable (tbl : List (Nat × Nat)) (n a u : Nat) (h : AL.get? tbl a = some u) :
    AL.get? (assign tbl n).1 a = some u := by
  cases hn : AL.get? tbl n with
  | some v => rw [assign_old tbl n v hn]; exact h
  | none => rw [assign_new tbl n hn]; simp [AL_get?_append, h]

theorem assign_get (tbl : List (Nat × Nat)) (n a u : Nat) (h : AL.get? (assign tbl n).1 a = some u) :
    AL.get? tbl a = some u ∨ (a = n ∧ u = tbl.length ∧ AL.get? tbl n = none) := by
  cases hn : AL.get? tbl n with
  | some v => rw [assign_old tbl n v hn] at h; exact Or.inl h
  | none =>
    rw [assign_new tbl n hn] at h
    simp only [AL_get?_append] at h
    cases ha : AL.get? tbl a with
    | some x => rw [ha] at h; exact Or.inl h
    | none =>
      rw [ha] at h
      by_cases hna : n = a
      · subst hna; simp at h; exact Or.inr ⟨rfl, h.symm, rfl⟩
      · simp [hna] at h

theorem TabOK_assign (tbl : List (Nat × Nat)) (n : Nat) (h : TabOK tbl) : TabOK (assign tbl n).1 := by
  obtain ⟨hinj, hlt⟩ := h
  cases hn : AL.get? tbl n with
  | some v => rw [assign_old tbl n v hn]; exact ⟨hinj, hlt⟩
  | none =>
    have hlen : (assign tbl n).1.length = tbl.length + 1 := by rw [assign_new tbl n hn]; simp
    constructor
    · intro a b u ha hb
      rcases assign_get tbl n a u ha with ha1 | ⟨ha1, ha2, _⟩
      · rcases assign_get tbl n b u hb with hb1 | ⟨hb1, hb2, _⟩
        · exact hinj a b u ha1 hb1
        · rw [hb2] at ha1; exact absurd (hlt a _ ha1) (Nat.lt_irrefl _)
      · rcases assign_get tbl n b u hb with hb1 | ⟨hb1, _, _⟩
        · rw [ha2] at hb1; exact absurd (hlt b _ hb1) (Nat.lt_irrefl _)
        · rw [ha1, hb1]
    · intro a u ha
      rw [hlen]
      rcases assign_get tbl n a u ha with ha | ⟨_, rfl, _⟩
      · exact Nat.lt_succ_of_lt (hlt a u ha)
      · exact Nat.lt_succ_self _

/-! ## first loop -/

structure Inv1 (s : HifSt) (seen : List (Nat × Nat)) : Prop where
  eok : TabOK s.etab
  nok : TabOK s.ntab
  tmpSound : ∀ eu l, AL.get? s.tmp eu = some l → ∃ p ∈ seen, AL.get? s.etab p.1 = some eu
  seenOk : ∀ p ∈ seen, ∃ eu nu l, AL.get? s.etab p.1 = some eu ∧ AL.get? s.ntab p.2 = some nu ∧ AL.get? s.tmp eu = some l
  rest : s.c = construct HKey false ∧ s.added = [] ∧ s.incid = [] ∧ s.empties = []

theorem Inv1_init : Inv1 {} [] :=
  ⟨TabOK_nil, TabOK_nil, by simp [AL.get?], by simp, by simp⟩

theorem Inv1_step (s : HifSt) (seen : List (Nat × Nat)) (p : Nat × Nat) (h : Inv1 s seen) :
    Inv1 (hifInc1 s p) (seen ++ [p]) := by
  obtain ⟨eok, nok, hts, hso, hr⟩ := h
  refine ⟨TabOK_assign _ _ eok, TabOK_assign _ _ nok, ?_, ?_, hr⟩
  · intro eu l hget
    simp only [hifInc1] at hget ⊢
    by_cases heu : (assign s.etab p.1).2 = eu
    · exact ⟨p, by simp, heu ▸ assign_get_self s.etab p.1⟩
    · rw [AL.get?_set_ne _ _ _ _ heu] at hget
      obtain ⟨q, hq, hq'⟩ := hts eu l hget
      exact ⟨q, by simp [hq], assign_stable _ _ _ _ hq'⟩
  · intro q hq
    simp only [hifInc1]
    rcases List.mem_append.mp hq with hq | hq
    · obtain ⟨eu, nu, l, h1, h2, h3⟩ := hso q hq
      by_cases heu : (assign s.etab p.1).2 = eu
      · exact ⟨eu, nu, _, assign_stable _ _ _ _ h1, assign_stable _ _ _ _ h2, by rw [heu]; exact AL.get?_set_self _ _ _⟩
      · exact ⟨eu, nu, l, assign_stable _ _ _ _ h1, assign_stable _ _ _ _ h2, by rw [AL.get?_set_ne _ _ _ _ heu]; exact h3⟩
    · simp at hq; subst hq
      exact ⟨_, _, _, assign_get_self _ _, assign_get_self _ _, AL.get?_set_self _ _ _⟩

theorem Inv1_fold (s : HifSt) (seen l : List (Nat × Nat)) (h : Inv1 s seen) :
    Inv1 (l.foldl hifInc1 s) (seen ++ l) := by
  induction l generalizing s seen with
  | nil => simpa using h
  | cons p t ih =>
    have := ih (hifInc1 s p) (seen ++ [p]) (Inv1_step s seen p h)
    simpa [List.append_assoc] using this

theorem Inv1_pass1 (d : HifDoc) : Inv1 (hifPass1 d) d.incidences := by
  have := Inv1_fold {} [] d.incidences Inv1_init
  simpa [hifPass1] using this

/-! ## loops two to four -/

/-- `noInc incs name`: no incidence record names the edge -/
def noInc (incs : List (Nat × Nat)) (name : Nat) : Prop := ∀ p ∈ incs, p.1 ≠ name

structure Inv2 (incs : List (Nat × Nat)) (T : List (Nat × List Nat)) (doneE : List Nat) (s : HifSt) : Prop where
  tmpEq : s.tmp = T
  eok : TabOK s.etab
  nok : TabOK s.ntab
  tmpSound : ∀ eu l, AL.get? T eu = some l → ∃ p ∈ incs, AL.get? s.etab p.1 = some eu
  seenOk : ∀ p ∈ incs, ∃ eu nu l, AL.get? s.etab p.1 = some eu ∧ AL.get? s.ntab p.2 = some nu ∧ AL.get? T eu = some l
  wf : WF s.c
  unw : s.c.weighted = false
  keysSound : ∀ k ∈ AL.keys s.c.edges, ∃ eu l, AL.get? T eu = some l ∧ k = ⟨sort l⟩
  addedIff : ∀ k, k ∈ s.added ↔ (⟨k⟩ : HKey) ∈ AL.keys s.c.edges
  emptiesIff : ∀ name, name ∈ AL.keys s.empties ↔ name ∈ doneE ∧ noInc incs name

theorem Inv2_of_Inv1 (d : HifDoc) : Inv2 d.incidences (hifPass1 d).tmp [] (hifPass1 d) := by
  obtain ⟨eok, nok, hts, hso, hc, ha, _, he⟩ := Inv1_pass1 d
  refine ⟨rfl, eok, nok, hts, hso, ?_, ?_, ?_, ?_, ?_⟩
  · rw [hc]; exact WF_construct false
  · rw [hc]; rfl
  · rw [hc]; simp [construct, AL.keys]
  · rw [hc, ha]; simp [construct, AL.keys]
  · rw [he]; simp [AL.keys]

theorem WF_setNodeMeta (c : Content HKey) (u : Nat) (m : Meta) (h : WF c) (hu : u ∈ AL.keys c.nodes) :
    WF (setNodeMeta c u m) := by
  obtain ⟨h1, h2, h3, h4, h5⟩ := h
  refine ⟨?_, h2, h3, ?_, h5⟩
  · simp only [setNodeMeta]; rw [AL_keys_set_old _ _ _ hu]; exact h1
  · simp only [setNodeMeta]; rw [AL_keys_set_old _ _ _ hu]; exact h4

theorem keys_setEdgeMeta (c : Content HKey) (k : HKey) (m : Meta) :
    AL.keys (setEdgeMeta c k m).edges = AL.keys c.edges := by
  unfold setEdgeMeta
  cases hg : AL.get? c.edges k with
  | none => rfl
  | some old =>
    have hold : k ∈ AL.keys c.edges := by
      apply Decidable.byContradiction; intro hc
      rw [(AL.get?_eq_none_iff _ _).mpr hc] at hg; cases hg
    simp [AL_keys_set_old _ _ _ hold]

theorem WF_setEdgeMeta (c : Content HKey) (k : HKey) (m : Meta) (h : WF c) : WF (setEdgeMeta c k m) := by
  have hk := keys_setEdgeMeta c k m
  obtain ⟨h1, h2, h3, h4, h5⟩ := h
  unfold setEdgeMeta at hk ⊢
  cases hg : AL.get? c.edges k with
  | none => exact ⟨h1, h2, h3, h4, h5⟩
  | some old =>
    simp only [hg] at hk
    have hmem := AL_get?_mem _ _ _ hg
    refine ⟨h1, by simp only; rw [hk]; exact h2, ?_, ?_, ?_⟩
    · intro e he
      rcases AL_mem_set _ _ _ _ he with he | he
      · exact h3 e he
      · subst he; exact h3 (k, old) hmem
    · intro e he x hx
      rcases AL_mem_set _ _ _ _ he with he | he
      · exact h4 e he x hx
      · subst he; exact h4 (k, old) hmem x hx
    · intro hu e he
      rcases AL_mem_set _ _ _ _ he with he | he
      · exact h5 hu e he
      · subst he; exact h5 hu (k, old) hmem

theorem Inv2_node (incs : List (Nat × Nat)) (T : List (Nat × List Nat)) (doneE : List Nat) (s : HifSt) (name i : Nat)
    (h : Inv2 incs T doneE s) : Inv2 incs T doneE (hifNode s name i) := by
  obtain ⟨h0, eok, nok, hts, hso, hwf, hu, hks, hai, hei⟩ := h
  have hwf1 := WF_addNode s.c (assign s.ntab name).2 none hwf
  have hin : (assign s.ntab name).2 ∈ AL.keys (addNode s.c (assign s.ntab name).2 none).nodes := by
    simp only [addNode]; exact (mem_keys_touchNode _ _ _ _).mpr (Or.inr rfl)
  refine ⟨h0, eok, TabOK_assign _ _ nok, hts, ?_, WF_setNodeMeta _ _ _ hwf1 hin, hu, hks, hai, hei⟩
  intro p hp
  obtain ⟨eu, nu, l, h1, h2, h3⟩ := hso p hp
  exact ⟨eu, nu, l, h1, assign_stable _ _ _ _ h2, h3⟩

theorem Inv2_nodes (incs : List (Nat × Nat)) (T : List (Nat × List Nat)) (doneE : List Nat) (s : HifSt) (i : Nat)
    (l : List Nat) (h : Inv2 incs T doneE s) : Inv2 incs T doneE (hifNodes s i l) := by
  induction l generalizing s i with
  | nil => exact h
  | cons n t ih => exact ih _ _ (Inv2_node incs T doneE s n i h)

theorem addEdge_unweighted_total (c : Content HKey) (k : HKey) (hu : c.weighted = false) :
    ∃ c', addEdge c k none none = some c' := addEdge_total c k none none (by simp [rejectsWeight])

theorem Inv2_edge (incs : List (Nat × Nat)) (T : List (Nat × List Nat)) (doneE : List Nat) (s s' : HifSt) (name i : Nat)
    (h : Inv2 incs T doneE s) (hs : hifEdge s name i = some s') : Inv2 incs T (doneE ++ [name]) s' := by
  obtain ⟨h0, eok, nok, hts, hso, hwf, hu, hks, hai, hei⟩ := h
  have hself := assign_get_self s.etab name
  have hso' : ∀ p ∈ incs, ∃ eu nu l, AL.get? (assign s.etab name).1 p.1 = some eu ∧ AL.get? s.ntab p.2 = some nu ∧ AL.get? T eu = some l := by
    intro p hp
    obtain ⟨eu, nu, l, h1, h2, h3⟩ := hso p hp
    exact ⟨eu, nu, l, assign_stable _ _ _ _ h1, h2, h3⟩
  have hts' : ∀ eu l, AL.get? T eu = some l → ∃ p ∈ incs, AL.get? (assign s.etab name).1 p.1 = some eu := by
    intro eu l hl
    obtain ⟨p, hp, hp'⟩ := hts eu l hl
    exact ⟨p, hp, assign_stable _ _ _ _ hp'⟩
  have eok' := TabOK_assign s.etab name eok
  unfold hifEdge at hs
  simp only [h0] at hs
  cases hg : AL.get? T (assign s.etab name).2 with
  | some l =>
    simp only [hg] at hs
    -- the name has an incidence
    have hinc : ¬ noInc incs name := by
      obtain ⟨p, hp, hp'⟩ := hts' _ l hg
      intro hno
      exact hno p hp (eok'.1 _ _ _ hp' hself)
    cases h1 : addEdge s.c ⟨sort l⟩ none none with
    | none => simp [h1] at hs
    | some c1 =>
      simp only [h1] at hs; cases hs
      have hwf1 := WF_addEdge s.c c1 _ none none hwf h1
      obtain ⟨hw1, _, _⟩ := addEdge_spec s.c c1 ⟨sort l⟩ none none h1
      have hkeys : ∀ k, k ∈ AL.keys (setEdgeMeta c1 ⟨sort l⟩ (recMeta i)).edges ↔ k ∈ AL.keys s.c.edges ∨ k = ⟨sort l⟩ := by
        intro k
        rw [keys_setEdgeMeta, addEdge_keys_iff s.c c1 _ none none h1, canonH, sort_idem]
      refine ⟨rfl, eok', nok, hts', hso', WF_setEdgeMeta _ _ _ hwf1, ?_, ?_, ?_, ?_⟩
      · simp only [setEdgeMeta]; split <;> simp [hw1, hu]
      · intro k hk
        rcases (hkeys k).mp hk with hk | hk
        · exact hks k hk
        · exact ⟨_, l, hg, hk⟩
      · intro k
        rw [hkeys]
        simp only [markAdded]
        split
        · rename_i hin
          constructor
          · intro hk; exact Or.inl ((hai k).mp hk)
          · rintro (hk | hk)
            · exact (hai k).mpr hk
            · cases hk; exact hin
        · simp only [List.mem_append, List.mem_singleton]
          constructor
          · rintro (hk | hk)
            · exact Or.inl ((hai k).mp hk)
            · exact Or.inr (by rw [hk])
          · rintro (hk | hk)
            · exact Or.inl ((hai k).mpr hk)
            · cases hk; exact Or.inr rfl
      · intro nm
        rw [hei nm]
        simp only [List.mem_append, List.mem_singleton]
        constructor
        · rintro ⟨h1, h2⟩; exact ⟨Or.inl h1, h2⟩
        · rintro ⟨h1 | h1, h2⟩
          · exact ⟨h1, h2⟩
          · subst h1; exact absurd h2 hinc
  | none =>
    simp only [hg] at hs
    -- the name has no incidence
    have hno : noInc incs name := by
      intro p hp hpn
      obtain ⟨eu, nu, l, h1, _, h3⟩ := hso' p hp
      rw [hpn, hself] at h1
      cases h1
      rw [hg] at h3; cases h3
    split at hs
    · cases hs
    · rename_i hne
      cases hs
      refine ⟨rfl, eok', nok, hts', hso', hwf, hu, hks, hai, ?_⟩
      intro nm
      simp only [AL_keys_append, List.mem_append]
      rw [hei nm]
      simp only [AL.keys, List.map_cons, List.map_nil, List.mem_singleton]
      constructor
      · rintro (⟨h1, h2⟩ | h1)
        · exact ⟨Or.inl h1, h2⟩
        · subst h1; exact ⟨Or.inr rfl, hno⟩
      · rintro ⟨h1 | h1, h2⟩
        · exact Or.inl ⟨h1, h2⟩
        · exact Or.inr h1

theorem Inv2_edges (incs : List (Nat × Nat)) (T : List (Nat × List Nat)) (doneE : List Nat) (s s' : HifSt) (i : Nat)
    (l : List Nat) (h : Inv2 incs T doneE s) (hs : hifEdges s i l = some s') : Inv2 incs T (doneE ++ l) s' := by
  induction l generalizing s i doneE with
  | nil => simp [hifEdges] at hs; subst hs; simpa using h
  | cons n t ih =>
    simp only [hifEdges] at hs
    cases h1 : hifEdge s n i with
    | none => simp [h1] at hs
    | some s1 =>
      simp only [h1] at hs
      have := ih (doneE ++ [n]) s1 (i + 1) (Inv2_edge incs T doneE s s1 n i h h1) hs
      simpa [List.append_assoc] using this

/-- fourth loop: the invariant plus "the key of every processed incidence is present" -/
def Covered (T : List (Nat × List Nat)) (s : HifSt) (seen : List (Nat × Nat)) : Prop :=
  ∀ p ∈ seen, ∃ eu l, AL.get? s.etab p.1 = some eu ∧ AL.get? T eu = some l ∧ sort l ∈ s.added

theorem Inv2_inc2 (incs : List (Nat × Nat)) (T : List (Nat × List Nat)) (doneE : List Nat) (s s' : HifSt)
    (p : Nat × Nat) (j : Nat) (seen : List (Nat × Nat))
    (h : Inv2 incs T doneE s) (hc : Covered T s seen) (hs : hifInc2 s p j = some s') :
    Inv2 incs T doneE s' ∧ Covered T s' (seen ++ [p]) ∧ s'.etab = s.etab := by
  obtain ⟨h0, eok, nok, hts, hso, hwf, hu, hks, hai, hei⟩ := h
  unfold hifInc2 at hs
  cases he : AL.get? s.etab p.1 with
  | none => simp [he] at hs
  | some eu =>
    cases hn : AL.get? s.ntab p.2 with
    | none => simp [he, hn] at hs
    | some nu =>
      simp only [he, hn, h0] at hs
      cases hg : AL.get? T eu with
      | none => simp [hg] at hs
      | some l =>
        simp only [hg] at hs
        by_cases hin : sort l ∈ s.added
        · simp only [hin, if_true] at hs; cases hs
          refine ⟨⟨rfl, eok, nok, hts, hso, hwf, hu, hks, hai, hei⟩, ?_, rfl⟩
          intro q hq
          rcases List.mem_append.mp hq with hq | hq
          · exact hc q hq
          · simp at hq; subst hq; exact ⟨eu, l, he, hg, hin⟩
        · simp only [hin, if_false] at hs
          cases h1 : addEdge s.c ⟨sort l⟩ none none with
          | none => simp [h1] at hs
          | some c1 =>
            simp only [h1] at hs; cases hs
            have hwf1 := WF_addEdge s.c c1 _ none none hwf h1
            obtain ⟨hw1, _, _⟩ := addEdge_spec s.c c1 ⟨sort l⟩ none none h1
            have hkeys : ∀ k, k ∈ AL.keys c1.edges ↔ k ∈ AL.keys s.c.edges ∨ k = ⟨sort l⟩ := by
              intro k; rw [addEdge_keys_iff s.c c1 _ none none h1, canonH, sort_idem]
            refine ⟨⟨rfl, eok, nok, hts, hso, hwf1, hw1.trans hu, ?_, ?_, hei⟩, ?_, rfl⟩
            · intro k hk
              rcases (hkeys k).mp hk with hk | hk
              · exact hks k hk
              · exact ⟨eu, l, hg, hk⟩
            · intro k
              rw [hkeys]
              simp only [List.mem_append, List.mem_singleton]
              constructor
              · rintro (hk | hk)
                · exact Or.inl ((hai k).mp hk)
                · exact Or.inr (by rw [hk])
              · rintro (hk | hk)
                · exact Or.inl ((hai k).mpr hk)
                · cases hk; exact Or.inr rfl
            · intro q hq
              rcases List.mem_append.mp hq with hq | hq
              · obtain ⟨eu', l', a1, a2, a3⟩ := hc q hq
                exact ⟨eu', l', a1, a2, by simp [a3]⟩
              · simp at hq; subst hq; exact ⟨eu, l, he, hg, by simp⟩

theorem Inv2_incs2 (incs : List (Nat × Nat)) (T : List (Nat × List Nat)) (doneE : List Nat) (s s' : HifSt)
    (l : List (Nat × Nat)) (j : Nat) (seen : List (Nat × Nat))
    (h : Inv2 incs T doneE s) (hc : Covered T s seen) (hs : hifIncs2 s j l = some s') :
    Inv2 incs T doneE s' ∧ Covered T s' (seen ++ l) ∧ s'.etab = s.etab := by
  induction l generalizing s j seen with
  | nil => simp [hifIncs2] at hs; subst hs; exact ⟨h, by simpa using hc, rfl⟩
  | cons p t ih =>
    simp only [hifIncs2] at hs
    cases h1 : hifInc2 s p j with
    | none => simp [h1] at hs
    | some s1 =>
      simp only [h1] at hs
      obtain ⟨hi1, hc1, he1⟩ := Inv2_inc2 incs T doneE s s1 p j seen h hc h1
      obtain ⟨hi2, hc2, he2⟩ := ih s1 (j + 1) (seen ++ [p]) hi1 hc1 hs
      exact ⟨hi2, by simpa [List.append_assoc] using hc2, he2.trans he1⟩

/-- the state after the four loops -/
theorem readHif_inv (d : HifDoc) (r : HifResult) (h : readHif d = some r) :
    ∃ s, r = { c := s.c, incid := s.incid, empties := s.empties } ∧
      Inv2 d.incidences (hifPass1 d).tmp d.edges s ∧ Covered (hifPass1 d).tmp s d.incidences := by
  unfold readHif at h
  cases h3 : hifEdges (hifNodes (hifPass1 d) 1 d.nodes) 1 d.edges with
  | none => simp [h3] at h
  | some s3 =>
    simp only [h3] at h
    cases h4 : hifIncs2 s3 1 d.incidences with
    | none => simp [h4] at h
    | some s4 =>
      simp only [h4] at h; cases h
      have i2 := Inv2_nodes _ _ _ _ 1 d.nodes (Inv2_of_Inv1 d)
      have i3 := Inv2_edges _ _ _ _ _ 1 d.edges i2 h3
      obtain ⟨i4, c4, _⟩ := Inv2_incs2 _ _ _ s3 s4 d.incidences 1 [] i3 (by simp [Covered]) h4
      exact ⟨s4, rfl, by simpa using i4, by simpa using c4⟩

end C06
