import Hgxv.Proofs.C05Extract
/-! Well-formed contents (the invariant of every reachable object) and the specifications of the four
extraction functions (core Lean only). -/
namespace C05
variable {κ : Type} [DecidableEq κ] [Keyed κ]
set_option linter.unusedSectionVars false

/-- what every `Hypergraph` / `DirectedHypergraph` built through the public mutators satisfies -/
structure WF (c : Content κ) : Prop where
  nodes_nodup : (nodesOf c).Nodup
  keys_nodup : (keysOf c).Nodup
  members_in : ∀ k ∈ keysOf c, ∀ n ∈ Keyed.members k, n ∈ nodesOf c
  unit : c.weighted = false → ∀ e ∈ c.edges, e.2.1 = unitW

/-! ## small facts -/

theorem mem_dedup {α : Type} [DecidableEq α] (l : List α) (x : α) : x ∈ dedup l ↔ x ∈ l := by
  induction l with
  | nil => simp [dedup]
  | cons a l ih =>
    simp only [dedup, List.mem_cons, List.mem_filter, ih, decide_eq_true_eq]
    by_cases e : x = a <;> simp [e]

theorem nodup_dedup {α : Type} [DecidableEq α] (l : List α) : (dedup l).Nodup := by
  induction l with
  | nil => simp [dedup]
  | cons a l ih =>
    simp only [dedup, List.nodup_cons, List.mem_filter, decide_eq_true_eq]
    exact ⟨fun h => h.2 rfl, ih.sublist List.filter_sublist⟩

theorem keys_filter (l : List (κ × (W × Meta))) (p : κ → Bool) :
    AL.keys (l.filter (fun e => p e.1)) = (AL.keys l).filter p := by
  induction l with
  | nil => rfl
  | cons a l ih =>
    simp only [AL.keys] at ih
    by_cases h : p a.1 <;> simp [AL.keys, h, ih]

theorem mem_keys_of_mem (l : List (κ × (W × Meta))) (e : κ × (W × Meta)) (h : e ∈ l) : e.1 ∈ AL.keys l :=
  List.mem_map.2 ⟨e, h, rfl⟩

theorem inside_iff (ns : List Node) (k : κ) : inside ns k = true ↔ ∀ n ∈ Keyed.members k, n ∈ ns := by
  simp [inside]

theorem orderTest_eq_iff (s : Int) (k : κ) : orderTest false (s - 1) k = true ↔ ((Keyed.size k : Nat) : Int) = s := by
  simp only [orderTest, Bool.false_eq_true, ↓reduceIte, beq_iff_eq]; omega

theorem orderTest_le_iff (s : Int) (k : κ) : orderTest true (s - 1) k = true ↔ ((Keyed.size k : Nat) : Int) ≤ s := by
  simp only [orderTest, ↓reduceIte, decide_eq_true_eq]; omega

theorem mem_nodesIn (L : List (κ × (W × Meta))) (n : Node) :
    n ∈ nodesIn L ↔ ∃ e ∈ L, n ∈ Keyed.members e.1 := by
  simp [nodesIn, List.mem_flatMap]

theorem nodesOf_empty_touch (w : Bool) (ns : List Node) (m : Node) :
    m ∈ nodesOf (touchAll (empty w : Content κ) ns) ↔ m ∈ ns := by
  simp only [nodesOf, touchAll, empty]
  rw [mem_keys_touchL]; simp [AL.keys]

theorem nodup_empty_touch (w : Bool) (ns : List Node) :
    (nodesOf (touchAll (empty w : Content κ) ns)).Nodup := by
  simp only [nodesOf, touchAll, empty]
  exact nodup_keys_touchL [] ns (by simp [AL.keys])

/-- `for node in h.get_nodes(): h.set_node_metadata(node, self.get_node_metadata(node))` -/
theorem copyAllNodeMeta (src h : Content κ) (hsub : ∀ n ∈ nodesOf h, n ∈ nodesOf src) :
    ∃ r, (nodesOf h).foldlM (copyNodeMeta src) h = some r ∧ r.weighted = h.weighted ∧ r.edges = h.edges ∧
      nodesOf r = nodesOf h ∧ ∀ m ∈ nodesOf r, AL.get? r.nodes m = AL.get? src.nodes m := by
  obtain ⟨r, hr, hw, he, hk, hg⟩ := foldCopyNodeMeta src (nodesOf h) h (fun n hn => ⟨hn, hsub n hn⟩)
  refine ⟨r, hr, hw, he, hk, ?_⟩
  intro m hm
  rw [hg m, if_pos (hk ▸ hm)]

/-! ## `subhypergraph(nodes)` -/

theorem induced_spec (src : Content κ) (ns : List Node) (hwf : WF src) (hsub : ∀ n ∈ ns, n ∈ nodesOf src) :
    ∃ r, induced src ns = some r ∧ r.weighted = src.weighted ∧
      r.edges = src.edges.filter (fun e => inside ns e.1) ∧
      (∀ n, n ∈ nodesOf r ↔ n ∈ ns) ∧ (nodesOf r).Nodup ∧
      (∀ n ∈ ns, getNodeMeta r n = getNodeMeta src n) := by
  let h0 : Content κ := touchAll (empty src.weighted) ns
  obtain ⟨h1, hr1, hw1, he1, hk1, hg1⟩ := foldCopyNodeMeta src ns h0
    (fun n hn => ⟨(nodesOf_empty_touch _ _ _).2 hn, hsub n hn⟩)
  let L := src.edges.filter (fun e => inside ns e.1)
  have hL : ∀ e ∈ L, e ∈ src.edges := fun e he => (List.mem_filter.1 he).1
  have hkL : AL.keys L = (keysOf src).filter (inside ns) := keys_filter _ _
  have hndL : (AL.keys L).Nodup := by rw [hkL]; exact hwf.keys_nodup.sublist List.filter_sublist
  have he1' : h1.edges = [] := by rw [he1]; rfl
  have hw1' : h1.weighted = src.weighted := by rw [hw1]; rfl
  have hfold := foldReinsert src hwf.keys_nodup hwf.unit L h1 hL hndL
    (by intro k _; simp [keysOf, he1', AL.keys]) hw1'
  have hpres : touchL h1.nodes (nodesIn L) = h1.nodes := by
    apply touchL_present
    intro n hn
    obtain ⟨e, heL, hne⟩ := (mem_nodesIn L n).1 hn
    have : n ∈ ns := (inside_iff ns e.1).1 (List.mem_filter.1 heL).2 n hne
    show n ∈ nodesOf h1
    rw [hk1]; exact (nodesOf_empty_touch _ _ _).2 this
  refine ⟨{ h1 with edges := h1.edges ++ L, nodes := touchL h1.nodes (nodesIn L) }, ?_, hw1', ?_, ?_, ?_, ?_⟩
  · simp only [induced, Option.bind_eq_bind]
    show (List.foldlM (copyNodeMeta src) h0 ns).bind _ = _
    rw [hr1, Option.bind_some, ← hkL]
    exact hfold
  · simp [he1', L]
  · intro n
    simp only [nodesOf, hpres]
    show n ∈ nodesOf h1 ↔ _
    rw [hk1]; exact nodesOf_empty_touch _ _ _
  · simp only [nodesOf, hpres]
    show (nodesOf h1).Nodup
    rw [hk1]; exact nodup_empty_touch _ _
  · intro n hn
    simp only [getNodeMeta, hpres]
    rw [hg1 n, if_pos hn]

/-! ## `subhypergraph_by_orders` -/

theorem keys_flatMap_bySize (src : Content κ) (ds : List Int) :
    AL.keys (ds.flatMap (fun s => src.edges.filter (fun e => orderTest false (s - 1) e.1))) =
      ds.flatMap (keysOfSize src) := by
  induction ds with
  | nil => rfl
  | cons s ds ih =>
    simp only [List.flatMap_cons, C05AL.keys_append, ih, keysOfSize, keysOf]
    rw [keys_filter]

theorem nodup_flatMap_bySize (src : Content κ) (hnd : (keysOf src).Nodup) (ds : List Int) (hds : ds.Nodup) :
    (ds.flatMap (keysOfSize src)).Nodup := by
  induction ds with
  | nil => simp
  | cons s ds ih =>
    simp only [List.nodup_cons] at hds
    simp only [List.flatMap_cons, List.nodup_append]
    refine ⟨hnd.sublist List.filter_sublist, ih hds.2, ?_⟩
    intro a ha b hb e
    subst e
    simp only [keysOfSize, List.mem_filter] at ha
    obtain ⟨s', hs', hb'⟩ := List.mem_flatMap.1 hb
    simp only [keysOfSize, List.mem_filter] at hb'
    have h1 := (orderTest_eq_iff s a).1 ha.2
    have h2 := (orderTest_eq_iff s' a).1 hb'.2
    exact hds.1 (by rw [← h1, h2]; exact hs')

theorem byOrders_spec (src : Content κ) (orders sizes : Option (List Int)) (keep : Bool) (ss : List Int)
    (hwf : WF src) (hss : sizesArg orders sizes = some ss) :
    ∃ r, byOrders src orders sizes keep = some r ∧ r.weighted = src.weighted ∧
      (∀ e, e ∈ r.edges ↔ e ∈ src.edges ∧ ((Keyed.size e.1 : Nat) : Int) ∈ ss) ∧ (keysOf r).Nodup ∧
      (∀ n, n ∈ nodesOf r ↔ if keep then n ∈ nodesOf src else ∃ e ∈ r.edges, n ∈ Keyed.members e.1) ∧
      (nodesOf r).Nodup ∧ (∀ n ∈ nodesOf r, getNodeMeta r n = getNodeMeta src n) := by
  let L := (dedup ss).flatMap (fun s => src.edges.filter (fun e => orderTest false (s - 1) e.1))
  have hL : ∀ e ∈ L, e ∈ src.edges := by
    intro e he
    obtain ⟨s, _, h⟩ := List.mem_flatMap.1 he
    exact (List.mem_filter.1 h).1
  have hkL : AL.keys L = (dedup ss).flatMap (keysOfSize src) := keys_flatMap_bySize src _
  have hndL : (AL.keys L).Nodup := by
    rw [hkL]; exact nodup_flatMap_bySize src hwf.keys_nodup _ (nodup_dedup ss)
  have hmemL : ∀ e, e ∈ L ↔ e ∈ src.edges ∧ ((Keyed.size e.1 : Nat) : Int) ∈ ss := by
    intro e
    simp only [L, List.mem_flatMap, List.mem_filter, mem_dedup, orderTest_eq_iff]
    constructor
    · rintro ⟨s, hs, he, hsz⟩; exact ⟨he, hsz ▸ hs⟩
    · rintro ⟨he, hs⟩; exact ⟨_, hs, he, rfl⟩
  have hLin : ∀ n ∈ nodesIn L, n ∈ nodesOf src := by
    intro n hn
    obtain ⟨e, he, hne⟩ := (mem_nodesIn L n).1 hn
    exact hwf.members_in e.1 (mem_keys_of_mem _ e (hL e he)) n hne
  cases keep with
  | true =>
    let h0 : Content κ := touchAll (empty src.weighted) (nodesOf src)
    obtain ⟨h1, hr1, hw1, he1, hk1, hg1⟩ := foldCopyNodeMeta src (nodesOf src) h0
      (fun n hn => ⟨(nodesOf_empty_touch _ _ _).2 hn, hn⟩)
    have he1' : h1.edges = [] := by rw [he1]; rfl
    have hw1' : h1.weighted = src.weighted := by rw [hw1]; rfl
    have hfold := foldReinsert src hwf.keys_nodup hwf.unit L h1 hL hndL
      (by intro k _; simp [keysOf, he1', AL.keys]) hw1'
    have hpres : touchL h1.nodes (nodesIn L) = h1.nodes := by
      apply touchL_present
      intro n hn
      show n ∈ nodesOf h1
      rw [hk1]; exact (nodesOf_empty_touch _ _ _).2 (hLin n hn)
    refine ⟨{ h1 with edges := h1.edges ++ L, nodes := touchL h1.nodes (nodesIn L) }, ?_, hw1', ?_, ?_, ?_, ?_, ?_⟩
    · simp only [byOrders, hss, Option.bind_eq_bind, Option.bind_some, ↓reduceIte]
      show (List.foldlM (copyNodeMeta src) h0 (nodesOf src)).bind _ = _
      rw [hr1, Option.bind_some, ← hkL, hfold]; rfl
    · intro e; simp only [he1', List.nil_append]; exact hmemL e
    · simp only [keysOf, he1', List.nil_append]; exact hndL
    · intro n
      simp only [nodesOf, hpres, ↓reduceIte]
      show n ∈ nodesOf h1 ↔ _
      rw [hk1]; exact nodesOf_empty_touch _ _ _
    · simp only [nodesOf, hpres]
      show (nodesOf h1).Nodup
      rw [hk1]; exact nodup_empty_touch _ _
    · intro n hn
      simp only [nodesOf, hpres] at hn
      have hn' : n ∈ nodesOf src := by
        have : n ∈ nodesOf h1 := hn
        rw [hk1] at this; exact (nodesOf_empty_touch _ _ _).1 this
      simp only [getNodeMeta, hpres]
      rw [hg1 n, if_pos hn']
  | false =>
    let h1 : Content κ := empty src.weighted
    have hfold := foldReinsert src hwf.keys_nodup hwf.unit L h1 hL hndL
      (by intro k _; simp [keysOf, h1, empty, AL.keys]) rfl
    let h2 : Content κ := { h1 with edges := h1.edges ++ L, nodes := touchL h1.nodes (nodesIn L) }
    have hn2 : ∀ n, n ∈ nodesOf h2 ↔ n ∈ nodesIn L := by
      intro n
      simp only [nodesOf, h2, h1, empty]
      rw [mem_keys_touchL]; simp [AL.keys]
    obtain ⟨r, hr, hw, he, hk, hg⟩ := copyAllNodeMeta src h2 (fun n hn => hLin n ((hn2 n).1 hn))
    have her : r.edges = L := by rw [he]; simp [h2, h1, empty]
    refine ⟨r, ?_, by rw [hw]; rfl, ?_, ?_, ?_, ?_, ?_⟩
    · simp only [byOrders, hss, Option.bind_eq_bind, Option.bind_some, Bool.false_eq_true, ↓reduceIte]
      rw [← hkL, hfold, Option.bind_some]
      exact hr
    · intro e; rw [her]; exact hmemL e
    · simp only [keysOf, her]; exact hndL
    · intro n
      simp only [Bool.false_eq_true, ↓reduceIte, her]
      rw [hk, hn2 n, mem_nodesIn]
    · rw [hk]
      simp only [nodesOf, h2, h1, empty]
      exact nodup_keys_touchL [] _ (by simp [AL.keys])
    · intro n hn; exact hg n hn

/-! ## `get_edges(..., subhypergraph=True, keep_isolated_nodes)` -/

theorem edgesSub_spec (src : Content κ) (order size : Option Int) (upTo keepIso : Bool) (p : κ → Bool)
    (hwf : WF src) (hp : edgeFilter order size upTo = some p) :
    ∃ r, edgesSub src order size upTo keepIso = some r ∧ r.weighted = src.weighted ∧
      r.edges = src.edges.filter (fun e => p e.1) ∧
      (∀ n, n ∈ nodesOf r ↔ if keepIso then n ∈ nodesOf src else ∃ e ∈ r.edges, n ∈ Keyed.members e.1) ∧
      (nodesOf r).Nodup ∧ (∀ n ∈ nodesOf r, getNodeMeta r n = getNodeMeta src n) := by
  let L := src.edges.filter (fun e => p e.1)
  have hL : ∀ e ∈ L, e ∈ src.edges := fun e he => (List.mem_filter.1 he).1
  have hkL : AL.keys L = (keysOf src).filter p := keys_filter _ _
  have hndL : (AL.keys L).Nodup := by rw [hkL]; exact hwf.keys_nodup.sublist List.filter_sublist
  have hLin : ∀ n ∈ nodesIn L, n ∈ nodesOf src := by
    intro n hn
    obtain ⟨e, he, hne⟩ := (mem_nodesIn L n).1 hn
    exact hwf.members_in e.1 (mem_keys_of_mem _ e (hL e he)) n hne
  let h0 : Content κ := if keepIso then touchAll (empty src.weighted) (nodesOf src) else empty src.weighted
  have h0e : h0.edges = [] := by cases keepIso <;> rfl
  have h0w : h0.weighted = src.weighted := by cases keepIso <;> rfl
  have h0n : ∀ n, n ∈ nodesOf h0 ↔ (keepIso = true ∧ n ∈ nodesOf src) := by
    intro n
    cases keepIso with
    | true => simpa [h0] using nodesOf_empty_touch src.weighted (nodesOf src) n
    | false => simp [h0, nodesOf, empty, AL.keys]
  have h0nd : (nodesOf h0).Nodup := by
    cases keepIso with
    | true => exact nodup_empty_touch _ _
    | false => simp [h0, nodesOf, empty, AL.keys]
  have hfold := foldReinsertBare src hwf.keys_nodup hwf.unit L h0 hL hndL
    (by intro k _; simp [keysOf, h0e, AL.keys]) h0w
  let bare := L.map (fun e => (e.1, (e.2.1, ([] : Meta))))
  have hkb : AL.keys bare = AL.keys L := by simp [bare, AL.keys, List.map_map, Function.comp_def]
  let h1 : Content κ := { h0 with edges := h0.edges ++ bare, nodes := touchL h0.nodes (nodesIn L) }
  have hn1 : ∀ n, n ∈ nodesOf h1 ↔ (keepIso = true ∧ n ∈ nodesOf src) ∨ n ∈ nodesIn L := by
    intro n
    simp only [nodesOf, h1, mem_keys_touchL]
    exact or_congr (h0n n) Iff.rfl
  obtain ⟨h2, hr2, hw2, he2, hk2, hg2⟩ := copyAllNodeMeta src h1 (by
    intro n hn
    rcases (hn1 n).1 hn with h | h
    · exact h.2
    · exact hLin n h)
  have he2' : h2.edges = bare := by rw [he2]; simp [h1, h0e]
  obtain ⟨r, hr, hw, hn, hk, hg⟩ := foldCopyEdgeMeta src (AL.keys L) h2 (by
    intro k hk
    refine ⟨by simp only [keysOf, he2', hkb]; exact hk, ?_⟩
    rw [hkL] at hk; exact (List.mem_filter.1 hk).1)
  have hkr : AL.keys r.edges = AL.keys L := by
    have := hk; simp only [keysOf, he2', hkb] at this; exact this
  have her : r.edges = L := by
    apply C05AL.ext _ _ hkr (hkr ▸ hndL)
    intro k hkin
    rw [hkr] at hkin
    obtain ⟨e, heL, hek⟩ := List.mem_map.1 hkin
    obtain ⟨k', w, md⟩ := e
    simp only at hek; subst hek
    have hsrc : AL.get? src.edges k' = some (w, md) :=
      C05AL.get?_of_mem_nodup _ _ _ hwf.keys_nodup (hL _ heL)
    have hbare : AL.get? bare k' = some (w, []) :=
      C05AL.get?_of_mem_nodup _ _ _ (hkb ▸ hndL) (List.mem_map.2 ⟨(k', (w, md)), heL, rfl⟩)
    rw [hg k', if_pos hkin, he2', hbare, hsrc, C05AL.get?_of_mem_nodup _ _ _ hndL heL]
    rfl
  have hnr : nodesOf r = nodesOf h1 := by simp only [nodesOf, hn]; exact hk2
  refine ⟨r, ?_, by rw [hw, hw2]; exact h0w, her, ?_, ?_, ?_⟩
  · simp only [edgesSub, hp, Option.bind_eq_bind, Option.bind_some]
    show (List.foldlM (reinsertBare src) h0 ((keysOf src).filter p)).bind _ = _
    rw [← hkL, hfold, Option.bind_some]
    show (List.foldlM (copyNodeMeta src) h1 (nodesOf h1)).bind _ = _
    rw [hr2, Option.bind_some]
    exact hr
  · intro n
    rw [hnr, hn1 n, her]
    cases keepIso with
    | true =>
      simp only [true_and, ↓reduceIte]
      exact ⟨fun h => h.elim id (hLin n), Or.inl⟩
    | false => simp [mem_nodesIn]
  · rw [hnr]
    simp only [nodesOf, h1]
    exact nodup_keys_touchL _ _ h0nd
  · intro n hnn
    simp only [getNodeMeta, hn]
    apply hg2
    simp only [nodesOf, hn] at hnn
    exact hnn

/-! ## weightedness of any successful extraction (no hypothesis on the source) -/

theorem addEdge_weighted (h h' : Content κ) (k : κ) (w : Option W) (md : Meta) (e : addEdge h k w md = some h') :
    h'.weighted = h.weighted := by
  unfold addEdge at e
  split at e
  · cases e
    unfold addEdgeCore
    split <;> rfl
  · cases e

theorem reinsert_weighted (src h h' : Content κ) (k : κ) (e : reinsert src h k = some h') :
    h'.weighted = h.weighted := by
  simp only [reinsert, Option.bind_eq_bind] at e
  cases h1 : getWeight src k with
  | none => simp [h1] at e
  | some w =>
    cases h2 : getEdgeMeta src k with
    | none => simp [h1, h2] at e
    | some md => simp only [h1, h2, Option.bind_some] at e; exact addEdge_weighted _ _ _ _ _ e

theorem reinsertBare_weighted (src h h' : Content κ) (k : κ) (e : reinsertBare src h k = some h') :
    h'.weighted = h.weighted := by
  simp only [reinsertBare, Option.bind_eq_bind] at e
  cases h1 : getWeight src k with
  | none => simp [h1] at e
  | some w => simp only [h1, Option.bind_some] at e; exact addEdge_weighted _ _ _ _ _ e

theorem copyNodeMeta_weighted (src h h' : Content κ) (n : Node) (e : copyNodeMeta src h n = some h') :
    h'.weighted = h.weighted := by
  simp only [copyNodeMeta, Option.bind_eq_bind] at e
  cases h1 : getNodeMeta src n with
  | none => simp [h1] at e
  | some md =>
    simp only [h1, Option.bind_some, setNodeMeta] at e
    split at e
    · cases e; rfl
    · cases e

theorem copyEdgeMeta_weighted (src h h' : Content κ) (k : κ) (e : copyEdgeMeta src h k = some h') :
    h'.weighted = h.weighted := by
  simp only [copyEdgeMeta, Option.bind_eq_bind] at e
  cases h1 : getEdgeMeta src k with
  | none => simp [h1] at e
  | some md =>
    simp only [h1, Option.bind_some, setEdgeMeta] at e
    split at e
    · cases e
    · cases e; rfl

theorem fold_weighted {α : Type} (f : Content κ → α → Option (Content κ)) (b : Bool)
    (hf : ∀ h a h', f h a = some h' → h'.weighted = h.weighted) (l : List α) (h r : Content κ)
    (hh : h.weighted = b) (e : l.foldlM f h = some r) : r.weighted = b :=
  foldlM_inv f (fun c => c.weighted = b) (fun x a x' hx hb => (hf x a x' hx).trans hb) l h r hh e

/-! ## incidence metadata, empty edges and hypergraph-level metadata of any successful extraction: those of the
freshly constructed object (the building steps never touch them; no hypothesis on the source) -/

/-- the part of the content no building step of an extraction touches -/
def aux (c : Content κ) : List (IncKey × Meta) × List (Nat × Meta) × Meta := (c.inc, c.emptyEdges, c.hmeta)

theorem addEdge_aux (h h' : Content κ) (k : κ) (w : Option W) (md : Meta) (e : addEdge h k w md = some h') :
    aux h' = aux h := by
  unfold addEdge at e
  split at e
  · cases e
    unfold addEdgeCore
    split <;> rfl
  · cases e

theorem reinsert_aux (src h h' : Content κ) (k : κ) (e : reinsert src h k = some h') : aux h' = aux h := by
  simp only [reinsert, Option.bind_eq_bind] at e
  cases h1 : getWeight src k with
  | none => simp [h1] at e
  | some w =>
    cases h2 : getEdgeMeta src k with
    | none => simp [h1, h2] at e
    | some md => simp only [h1, h2, Option.bind_some] at e; exact addEdge_aux _ _ _ _ _ e

theorem reinsertBare_aux (src h h' : Content κ) (k : κ) (e : reinsertBare src h k = some h') : aux h' = aux h := by
  simp only [reinsertBare, Option.bind_eq_bind] at e
  cases h1 : getWeight src k with
  | none => simp [h1] at e
  | some w => simp only [h1, Option.bind_some] at e; exact addEdge_aux _ _ _ _ _ e

theorem copyNodeMeta_aux (src h h' : Content κ) (n : Node) (e : copyNodeMeta src h n = some h') : aux h' = aux h := by
  simp only [copyNodeMeta, Option.bind_eq_bind] at e
  cases h1 : getNodeMeta src n with
  | none => simp [h1] at e
  | some md =>
    simp only [h1, Option.bind_some, setNodeMeta] at e
    split at e
    · cases e; rfl
    · cases e

theorem copyEdgeMeta_aux (src h h' : Content κ) (k : κ) (e : copyEdgeMeta src h k = some h') : aux h' = aux h := by
  simp only [copyEdgeMeta, Option.bind_eq_bind] at e
  cases h1 : getEdgeMeta src k with
  | none => simp [h1] at e
  | some md =>
    simp only [h1, Option.bind_some, setEdgeMeta] at e
    split at e
    · cases e
    · cases e; rfl

theorem fold_aux {α : Type} (f : Content κ → α → Option (Content κ)) (b : List (IncKey × Meta) × List (Nat × Meta) × Meta)
    (hf : ∀ h a h', f h a = some h' → aux h' = aux h) (l : List α) (h r : Content κ)
    (hh : aux h = b) (e : l.foldlM f h = some r) : aux r = b :=
  foldlM_inv f (fun c => aux c = b) (fun x a x' hx hb => (hf x a x' hx).trans hb) l h r hh e

end C05
