import Hgxv.Proofs.C02Rem
/-! C02 helper lemmas, part 4: `remove_node` (both `keep_edges` modes) preserves the invariant and leaves no trace of
the node (core Lean only). -/
namespace C02
open AL

/-! ### role listings through the reverse table -/

theorem keysOfIds_eq (s : Store) (t : Option Nat) (ids : List Nat) (hall : ∀ id ∈ ids, (get? s.rev id).isSome) :
    keysOfIds s t ids = some ((ids.filterMap (get? s.rev)).filter (passes t false)) := by
  induction ids with
  | nil => simp [keysOfIds]
  | cons i is ih =>
    have h1 := hall i (List.mem_cons_self)
    have h2 := ih (fun id hid => hall id (List.mem_cons_of_mem _ hid))
    simp only [keysOfIds, h2]
    cases hr : get? s.rev i with
    | none => rw [hr] at h1; cases h1
    | some k =>
      simp only [List.filterMap_cons, hr]
      by_cases hp : passes t false k <;> simp [hp, List.filter_cons]

theorem Inv.ids_have_keys_S {s : Store} (h : Inv s) (n : Node) (ids : List Nat) (hn : get? s.adjS n = some ids) :
    ∀ id ∈ ids, (get? s.rev id).isSome := by
  intro id hid
  obtain ⟨k, hk, _⟩ := (h.adjS_iff n ids hn id).mp hid
  simp [hk]

theorem Inv.ids_have_keys_T {s : Store} (h : Inv s) (n : Node) (ids : List Nat) (hn : get? s.adjT n = some ids) :
    ∀ id ∈ ids, (get? s.rev id).isSome := by
  intro id hid
  obtain ⟨k, hk, _⟩ := (h.adjT_iff n ids hn id).mp hid
  simp [hk]

/-- under the invariant `get_source_edges(node)` is defined for every present node and every admissible filter -/
theorem Inv.sourceEdges_eq {s : Store} (h : Inv s) (n : Node) (ids : List Nat) (hn : get? s.adjS n = some ids)
    (f : Filt) (t : Option Nat) (hf : f.target = some t) :
    sourceEdges s n f = some ((ids.filterMap (get? s.rev)).filter (passes t false)) := by
  unfold sourceEdges
  rw [hn, hf]
  exact keysOfIds_eq s t ids (h.ids_have_keys_S n ids hn)

theorem Inv.targetEdges_eq {s : Store} (h : Inv s) (n : Node) (ids : List Nat) (hn : get? s.adjT n = some ids)
    (f : Filt) (t : Option Nat) (hf : f.target = some t) :
    targetEdges s n f = some ((ids.filterMap (get? s.rev)).filter (passes t false)) := by
  unfold targetEdges
  rw [hn, hf]
  exact keysOfIds_eq s t ids (h.ids_have_keys_T n ids hn)

theorem passes_none (b : Bool) (k : Key) : passes none b k = true := rfl

/-! ### keep_edges=True: re-insertion of the shrunk hyperedges -/

theorem mem_shrink1 (k : Key) (n m : Node) : m ∈ (shrinkKey k n).1 ↔ m ∈ k.1 ∧ m ≠ n := by
  simp [shrinkKey]
theorem mem_shrink2 (k : Key) (n m : Node) : m ∈ (shrinkKey k n).2 ↔ m ∈ k.2 ∧ m ≠ n := by
  simp [shrinkKey]

theorem keyWF_shrink (k : Key) (n : Node) (hk : KeyWF k) (h1 : (shrinkKey k n).1 ≠ []) (h2 : (shrinkKey k n).2 ≠ []) :
    KeyWF (shrinkKey k n) :=
  ⟨hk.sortedS.filter _, hk.sortedT.filter _, hk.nodupS.filter _, hk.nodupT.filter _,
   fun m hm hc => hk.disj m ((mem_shrink1 k n m).mp hm).1 ((mem_shrink2 k n m).mp hc).1, h1, h2⟩

theorem canonAdd_ofKey (k : Key) (hk : KeyWF k) : canonAdd (RawEdge.ofKey k) = k := by
  simp [canonAdd, RawEdge.ofKey, Side.toList, sortNodes_of_sorted hk.sortedS, sortNodes_of_sorted hk.sortedT]

theorem canonStrict_ofKey (k : Key) (hk : KeyWF k) : canonStrict (RawEdge.ofKey k) = some k := by
  simp [canonStrict, RawEdge.ofKey, Side.strict, sortNodes_of_sorted hk.sortedS, sortNodes_of_sorted hk.sortedT]

/-- entries of the reverse table after `add_edge`: the old ones, and possibly the inserted key -/
theorem addEdgeKey_rev (s : Store) (k : Key) (w : Option Int) (md : Option Meta) (id : Nat) (k0 : Key)
    (h : get? (addEdgeKey s k w md).1.rev id = some k0) : get? s.rev id = some k0 ∨ k0 = k := by
  unfold addEdgeKey at h
  split at h
  · exact Or.inl h
  · split at h
    · simp only [] at h
      rw [(addEdgeNew_fields s k _ _).2.1, get?_set] at h
      split at h
      · injection h with h; exact Or.inr h.symm
      · exact Or.inl h
    · exact Or.inl h

theorem reinsert_inv (s : Store) (n : Node) (k : Key) (hk : KeyWF k) (h : Inv s) : Inv (reinsert s n k).1 := by
  unfold reinsert
  simp only []
  split
  · exact h
  · rename_i hne
    have hne' : (shrinkKey k n).1 ≠ [] ∧ (shrinkKey k n).2 ≠ [] := by
      simp only [Bool.or_eq_true, List.isEmpty_iff, not_or] at hne; exact hne
    split
    · unfold addEdge
      rw [canonAdd_ofKey _ (keyWF_shrink k n hk hne'.1 hne'.2)]
      exact addEdgeKey_inv s _ _ _ (keyWF_shrink k n hk hne'.1 hne'.2) h
    · exact h

/-- re-insertion never creates a table entry that mentions the node being removed -/
theorem reinsert_rev (s : Store) (n : Node) (k : Key) (hk : KeyWF k) (id : Nat) (k0 : Key)
    (h : get? (reinsert s n k).1.rev id = some k0) (hn : n ∈ k0.1 ∨ n ∈ k0.2) : get? s.rev id = some k0 := by
  unfold reinsert at h
  simp only [] at h
  split at h
  · exact h
  · rename_i hne
    have hne' : (shrinkKey k n).1 ≠ [] ∧ (shrinkKey k n).2 ≠ [] := by
      simp only [Bool.or_eq_true, List.isEmpty_iff, not_or] at hne; exact hne
    split at h
    · unfold addEdge at h
      rw [canonAdd_ofKey _ (keyWF_shrink k n hk hne'.1 hne'.2)] at h
      rcases addEdgeKey_rev s _ _ _ id k0 h with h1 | h1
      · exact h1
      · subst h1
        rcases hn with hn | hn
        · exact absurd rfl ((mem_shrink1 k n n).mp hn).2
        · exact absurd rfl ((mem_shrink2 k n n).mp hn).2
    · exact h

theorem reinsertAll_inv (s : Store) (n : Node) (L : List Key) (hL : ∀ k ∈ L, KeyWF k) (h : Inv s) :
    Inv (reinsertAll s n L).1 := by
  induction L generalizing s with
  | nil => exact h
  | cons k ks ih =>
    simp only [reinsertAll]
    have h1 := reinsert_inv s n k (hL k List.mem_cons_self) h
    split
    · exact h1
    · exact ih _ (fun k' hk' => hL k' (List.mem_cons_of_mem _ hk')) h1

theorem reinsertAll_rev (s : Store) (n : Node) (L : List Key) (hL : ∀ k ∈ L, KeyWF k) (id : Nat) (k0 : Key)
    (h : get? (reinsertAll s n L).1.rev id = some k0) (hn : n ∈ k0.1 ∨ n ∈ k0.2) : get? s.rev id = some k0 := by
  induction L generalizing s with
  | nil => exact h
  | cons k ks ih =>
    simp only [reinsertAll] at h
    split at h
    · exact reinsert_rev s n k (hL k List.mem_cons_self) id k0 h hn
    · exact reinsert_rev s n k (hL k List.mem_cons_self) id k0
        (ih _ (fun k' hk' => hL k' (List.mem_cons_of_mem _ hk')) h) hn

/-! ### removal of the incident hyperedges -/

theorem removeEdgeKey_rev (s : Store) (k : Key) (h : Inv s) (id' : Nat) (k0 : Key)
    (hh : get? (removeEdgeKey s k).1.rev id' = some k0) :
    get? s.rev id' = some k0 ∧ ((removeEdgeKey s k).2 = .ok → k0 ≠ k) := by
  unfold removeEdgeKey at hh ⊢
  cases hk : get? s.edgeList k with
  | none => rw [hk] at hh; exact ⟨hh, fun hc => by cases hc⟩
  | some id =>
    rw [hk] at hh
    have hh' : get? (AL.erase s.rev id) id' = some k0 := hh
    rw [get?_erase _ _ _ h.nd_rev] at hh'
    split at hh'
    · cases hh'
    · rename_i hid
      refine ⟨hh', fun _ hc => ?_⟩
      subst hc
      have := h.edge_of_rev _ _ hh'
      rw [hk] at this; injection this with this; exact hid this

theorem removeKeys_inv (s : Store) (L : List Key) (h : Inv s) : Inv (removeKeys s L).1 := by
  induction L generalizing s with
  | nil => exact h
  | cons k ks ih =>
    simp only [removeKeys]
    have h1 := removeEdge_inv s (RawEdge.ofKey k) h
    split
    · exact h1
    · exact ih _ h1

theorem removeKeys_rev (s : Store) (L : List Key) (hL : ∀ k ∈ L, KeyWF k) (h : Inv s) (id' : Nat) (k0 : Key)
    (hh : get? (removeKeys s L).1.rev id' = some k0) :
    get? s.rev id' = some k0 ∧ ((removeKeys s L).2 = .ok → k0 ∉ L) := by
  induction L generalizing s with
  | nil => exact ⟨hh, fun _ hc => by cases hc⟩
  | cons k ks ih =>
    have wf := hL k List.mem_cons_self
    have e1 : removeEdge s (RawEdge.ofKey k) = removeEdgeKey s k := by
      unfold removeEdge; rw [canonStrict_ofKey k wf]
    simp only [removeKeys, e1] at hh ⊢
    cases ho : (removeEdgeKey s k).2 with
    | rej =>
      rw [ho] at hh
      simp only [ho]
      exact ⟨(removeEdgeKey_rev s k h id' k0 hh).1, fun hc => by cases hc⟩
    | ok =>
      rw [ho] at hh
      simp only [ho]
      have h1 := removeEdgeKey_inv s k h
      obtain ⟨h2, h3⟩ := ih _ (fun k' hk' => hL k' (List.mem_cons_of_mem _ hk')) h1 hh
      obtain ⟨h4, h5⟩ := removeEdgeKey_rev s k h id' k0 h2
      refine ⟨h4, fun hok hc => ?_⟩
      rcases List.mem_cons.mp hc with hc | hc
      · exact h5 ho hc
      · exact h3 hok hc

/-- rows of the node tables are untouched by the removal of hyperedges -/
theorem removeEdgeKey_rows (s : Store) (k : Key) (h : Inv s) (m : Node) :
    (get? (removeEdgeKey s k).1.adjS m).isSome = (get? s.adjS m).isSome ∧
    (removeEdgeKey s k).1.nmeta = s.nmeta := by
  unfold removeEdgeKey
  cases hk : get? s.edgeList k with
  | none => exact ⟨rfl, rfl⟩
  | some id =>
    have wf := h.key_wf id k (h.rev_of_edge k id hk)
    exact ⟨unlink_isSome _ _ _ wf.nodupS m, rfl⟩

/-! ### deleting the rows of the node -/

theorem dropNode_inv (s : Store) (n : Node) (h : Inv s)
    (hno : ∀ id k, get? s.rev id = some k → n ∉ k.1 ∧ n ∉ k.2) : Inv (dropNode s n) := by
  have gS : ∀ m, get? (dropNode s n).adjS m = if n = m then none else get? s.adjS m :=
    fun m => get?_erase _ _ _ h.nd_adjS
  have gT : ∀ m, get? (dropNode s n).adjT m = if n = m then none else get? s.adjT m :=
    fun m => get?_erase _ _ _ h.nd_adjT
  have gN : ∀ m, get? (dropNode s n).nmeta m = if n = m then none else get? s.nmeta m :=
    fun m => get?_erase _ _ _ h.nd_nm
  constructor
  · exact h.rev_of_edge
  · exact h.edge_of_rev
  · exact h.id_lt
  · exact h.key_wf
  · intro m ids hh; rw [gS] at hh; split at hh
    · cases hh
    · exact h.adjS_nodup m ids hh
  · intro m ids hh; rw [gS] at hh; split at hh
    · cases hh
    · exact h.adjS_iff m ids hh
  · intro m ids hh; rw [gT] at hh; split at hh
    · cases hh
    · exact h.adjT_nodup m ids hh
  · intro m ids hh; rw [gT] at hh; split at hh
    · cases hh
    · exact h.adjT_iff m ids hh
  · intro id k hk m hm
    rw [gS]
    have := hno id k hk
    have hne : n ≠ m := by
      intro hc; subst hc; rcases hm with hm | hm
      · exact this.1 hm
      · exact this.2 hm
    simp only [hne, if_false]
    exact h.nodes_in id k hk m hm
  · intro m; rw [gS, gT]; split
    · rfl
    · exact h.adj_same m
  · intro m; rw [gS, gN]; split
    · rfl
    · exact h.nmeta_same m
  · exact h.weights_same
  · exact h.emeta_same
  · exact h.nd_edge
  · exact h.nd_rev
  · exact h.nd_w
  · exact h.nd_em
  · exact keys_erase_nodup _ _ h.nd_adjS
  · exact keys_erase_nodup _ _ h.nd_adjT
  · exact keys_erase_nodup _ _ h.nd_nm

/-! ### remove_node -/

/-- what "the node is gone" means on the concrete store -/
structure Gone (s : Store) (n : Node) : Prop where
  adjS : get? s.adjS n = none
  adjT : get? s.adjT n = none
  nmeta : get? s.nmeta n = none
  keys : ∀ id k, get? s.rev id = some k → n ∉ k.1 ∧ n ∉ k.2

theorem removeNode_spec (s : Store) (n : Node) (keep : Bool) (h : Inv s) :
    Inv (removeNode s n keep).1 ∧ ((removeNode s n keep).2 = .ok → Gone (removeNode s n keep).1 n) := by
  unfold removeNode
  split
  · exact ⟨h, fun hc => by cases hc⟩
  · rename_i hpres
    cases hS : get? s.adjS n with
    | none => simp [has, hS] at hpres
    | some idsS =>
    cases hT : get? s.adjT n with
    | none => simp [has, hS, hT] at hpres
    | some idsT =>
    rw [h.sourceEdges_eq n idsS hS .all none rfl, h.targetEdges_eq n idsT hT .all none rfl]
    simp only []
    -- the incident hyperedges, all of them well-formed keys of the store
    have hse : ∀ k, k ∈ (idsS.filterMap (get? s.rev)).filter (passes none false) ↔ ∃ id ∈ idsS, get? s.rev id = some k := by
      intro k; simp [passes_none, List.mem_filterMap]
    have hte : ∀ k, k ∈ (idsT.filterMap (get? s.rev)).filter (passes none false) ↔ ∃ id ∈ idsT, get? s.rev id = some k := by
      intro k; simp [passes_none, List.mem_filterMap]
    generalize hL : (idsS.filterMap (get? s.rev)).filter (passes none false) ++
      (idsT.filterMap (get? s.rev)).filter (passes none false) = L
    have hLwf : ∀ k ∈ L, KeyWF k := by
      intro k hk; rw [← hL, List.mem_append] at hk
      rcases hk with hk | hk
      · obtain ⟨id, _, hid⟩ := (hse k).mp hk; exact h.key_wf id k hid
      · obtain ⟨id, _, hid⟩ := (hte k).mp hk; exact h.key_wf id k hid
    have hLall : ∀ id k, get? s.rev id = some k → (n ∈ k.1 ∨ n ∈ k.2) → k ∈ L := by
      intro id k hk hn; rw [← hL, List.mem_append]
      rcases hn with hn | hn
      · left; exact (hse k).mpr ⟨id, (h.adjS_iff n idsS hS id).mpr ⟨k, hk, hn⟩, hk⟩
      · right; exact (hte k).mpr ⟨id, (h.adjT_iff n idsT hT id).mpr ⟨k, hk, hn⟩, hk⟩
    -- first phase
    have hr1 : Inv (if keep = true then reinsertAll s n L else (s, Out.ok)).1 := by
      split
      · exact reinsertAll_inv s n L hLwf h
      · exact h
    have hr1rev : ∀ id k, get? (if keep = true then reinsertAll s n L else (s, Out.ok)).1.rev id = some k →
        (n ∈ k.1 ∨ n ∈ k.2) → get? s.rev id = some k := by
      intro id k hk hn
      split at hk
      · exact reinsertAll_rev s n L hLwf id k hk hn
      · exact hk
    generalize (if keep = true then reinsertAll s n L else (s, Out.ok)) = r1 at hr1 hr1rev
    cases ho1 : r1.2 with
    | rej => simp only []; exact ⟨hr1, fun hc => by rw [ho1] at hc; cases hc⟩
    | ok =>
      simp only []
      have hr2 := removeKeys_inv r1.1 L hr1
      have hr2rev := removeKeys_rev r1.1 L hLwf hr1
      cases ho2 : (removeKeys r1.1 L).2 with
      | rej => simp only []; exact ⟨hr2, fun hc => by rw [ho2] at hc; cases hc⟩
      | ok =>
        simp only []
        have hno : ∀ id k, get? (removeKeys r1.1 L).1.rev id = some k → n ∉ k.1 ∧ n ∉ k.2 := by
          intro id k hk
          obtain ⟨h1, h2⟩ := hr2rev id k hk
          have h3 := h2 ho2
          constructor
          · intro hn; exact h3 (hLall id k (hr1rev id k h1 (Or.inl hn)) (Or.inl hn))
          · intro hn; exact h3 (hLall id k (hr1rev id k h1 (Or.inr hn)) (Or.inr hn))
        refine ⟨dropNode_inv _ n hr2 hno, fun _ => ⟨?_, ?_, ?_, hno⟩⟩
        · exact get?_erase_self _ _ hr2.nd_adjS
        · exact get?_erase_self _ _ hr2.nd_adjT
        · exact get?_erase_self _ _ hr2.nd_nm

theorem removeNode_inv (s : Store) (n : Node) (keep : Bool) (h : Inv s) : Inv (removeNode s n keep).1 :=
  (removeNode_spec s n keep h).1

theorem removeNodes_inv (s : Store) (keep : Bool) (ns : List Node) (h : Inv s) : Inv (removeNodes s keep ns).1 := by
  induction ns generalizing s with
  | nil => exact h
  | cons n ns ih =>
    simp only [removeNodes]
    have h1 := removeNode_inv s n keep h
    split
    · exact h1
    · exact ih _ h1

end C02
