import Hgxv.Model.C11
import Hgxv.Proofs.C11Sets
/-! # C11 - labelled patterns of node subsets as masks (core Lean only) -/
namespace C11

/-! ## `toMask` -/

theorem toMask_lt (bs : List Bool) : toMask bs < 2 ^ bs.length := by
  induction bs with
  | nil => simp [toMask]
  | cons b bs ih =>
    simp only [toMask, List.length_cons, Nat.pow_succ]
    cases b <;> simp <;> omega

theorem toMask_append (xs ys : List Bool) : toMask (xs ++ ys) = toMask xs + 2 ^ xs.length * toMask ys := by
  induction xs with
  | nil => simp [toMask]
  | cons b xs ih =>
    simp only [List.cons_append, toMask, ih, List.length_cons, Nat.pow_succ]
    rw [Nat.mul_add, Nat.mul_comm (2 ^ xs.length) 2, Nat.mul_assoc]
    omega

theorem toMask_eq_zero_iff (bs : List Bool) : toMask bs = 0 ↔ ∀ b ∈ bs, b = false := by
  induction bs with
  | nil => simp [toMask]
  | cons b bs ih =>
    simp only [toMask, List.mem_cons, forall_eq_or_imp]
    cases b
    · simp only [Bool.false_eq_true, if_false, true_and]
      rw [← ih]; omega
    · simp

/-! ## sub-hyperedges of a node list -/

theorem mem_sizesDesc {n k : Nat} : k ∈ sizesDesc n ↔ 2 ≤ k ∧ k ≤ n := by
  simp only [sizesDesc, List.mem_filter, List.mem_reverse, List.mem_range, decide_eq_true_eq]
  omega

theorem mem_hyperedgesOf {n : Nat} {S e : List Nat} :
    e ∈ hyperedgesOf n S ↔ e.Sublist S ∧ 2 ≤ e.length ∧ e.length ≤ n := by
  simp only [hyperedgesOf, List.mem_flatMap, mem_sizesDesc, mem_subsetsOfSize]
  constructor
  · rintro ⟨k, hk, hs, hl⟩; exact ⟨hs, by omega, by omega⟩
  · rintro ⟨hs, h2, hn⟩; exact ⟨e.length, ⟨h2, hn⟩, hs, rfl⟩

theorem length_flatMap_subsets (ks : List Nat) {S S' : List Nat} (h : S.length = S'.length) :
    (ks.flatMap fun k => subsetsOfSize k S).length = (ks.flatMap fun k => subsetsOfSize k S').length := by
  induction ks with
  | nil => rfl
  | cons k ks ih => simp only [List.flatMap_cons, List.length_append, ih, length_subsetsOfSize (k := k) h]

theorem length_hyperedgesOf {n : Nat} {S : List Nat} (h : S.length = n) :
    (hyperedgesOf n S).length = (hyperedges n).length := by
  unfold hyperedges hyperedgesOf
  exact length_flatMap_subsets _ (by simp [h])

theorem pattern_lt {n : Nat} (T : HG) {S : List Nat} (h : S.length = n) : pattern n T S < numMasks n := by
  unfold pattern numMasks
  have := toMask_lt (patBits n T S)
  have hl : (patBits n T S).length = (hyperedges n).length := by
    unfold patBits; rw [List.length_map, length_hyperedgesOf h]
  rw [hl] at this
  rw [Nat.shiftLeft_eq, Nat.one_mul]
  exact this

/-- the pattern depends on the table only through the sub-hyperedges of `S` -/
theorem pattern_congr {n : Nat} {T T' : HG} {S : List Nat}
    (h : ∀ e, e.Sublist S → 2 ≤ e.length → e.length ≤ n → T.contains e = T'.contains e) :
    pattern n T S = pattern n T' S := by
  unfold pattern patBits
  congr 1
  apply List.map_congr_left
  intro e he
  obtain ⟨hs, h2, hn⟩ := mem_hyperedgesOf.mp he
  exact h e hs h2 hn

theorem subsetsOfSize_gt {k : Nat} {l : List Nat} (h : l.length < k) : subsetsOfSize k l = [] := by
  induction l generalizing k with
  | nil => cases k with
    | zero => simp at h
    | succ k => rfl
  | cons a l ih =>
    cases k with
    | zero => simp at h
    | succ k =>
      simp only [List.length_cons] at h
      simp [subsetsOfSize, ih (k := k) (by omega), ih (k := k+1) (by omega)]

theorem subsetsOfSize_self (l : List Nat) : subsetsOfSize l.length l = [l] := by
  induction l with
  | nil => rfl
  | cons a l ih => simp [subsetsOfSize, ih, subsetsOfSize_gt]

/-! ## the two orders -/

theorem hyperedgesOf3 {S : List Nat} (h : S.length = 3) :
    hyperedgesOf 3 S = S :: subsetsOfSize 2 S := by
  have hs : sizesDesc 3 = [3, 2] := by decide
  have := subsetsOfSize_self S
  rw [h] at this
  simp [hyperedgesOf, hs, this]

theorem hyperedgesOf4 {S : List Nat} (h : S.length = 4) :
    hyperedgesOf 4 S = S :: (subsetsOfSize 3 S ++ subsetsOfSize 2 S) := by
  have hs : sizesDesc 4 = [4, 3, 2] := by decide
  have := subsetsOfSize_self S
  rw [h] at this
  simp [hyperedgesOf, hs, this]

/-- bit 0 of the pattern: is the whole node set a hyperedge of the table? -/
theorem pattern_mod2 {n : Nat} (hn : n = 3 ∨ n = 4) (T : HG) {S : List Nat} (h : S.length = n) :
    pattern n T S % 2 = if T.contains S then 1 else 0 := by
  rcases hn with hn | hn <;> subst hn
  · unfold pattern patBits
    rw [hyperedgesOf3 h]
    simp only [List.map_cons, toMask]
    split <;> omega
  · unfold pattern patBits
    rw [hyperedgesOf4 h]
    simp only [List.map_cons, toMask]
    split <;> omega

theorem length_subsets3_of4 {S : List Nat} (h : S.length = 4) : (subsetsOfSize 3 S).length = 4 := by
  rw [length_subsetsOfSize (l' := [0,1,2,3]) (by simp [h])]; rfl

/-- bits 1..4 of an order-4 pattern: the hyperedges of size 3 inside `S` -/
theorem pattern4_mid_zero_iff (T : HG) {S : List Nat} (h : S.length = 4) :
    (pattern 4 T S / 2) % 16 = 0 ↔ ∀ e ∈ subsetsOfSize 3 S, T.contains e = false := by
  unfold pattern patBits
  rw [hyperedgesOf4 h]
  simp only [List.map_cons, List.map_append, toMask]
  rw [toMask_append]
  have hl : ((subsetsOfSize 3 S).map fun e => T.contains e).length = 4 := by
    rw [List.length_map, length_subsets3_of4 h]
  rw [hl]
  have hlt := toMask_lt ((subsetsOfSize 3 S).map fun e => T.contains e)
  rw [hl] at hlt
  have hz := toMask_eq_zero_iff ((subsetsOfSize 3 S).map fun e => T.contains e)
  have : ((if T.contains S = true then 1 else 0)
      + 2 * (toMask ((subsetsOfSize 3 S).map fun e => T.contains e)
        + 2 ^ 4 * toMask ((subsetsOfSize 2 S).map fun e => T.contains e))) / 2 % 16
      = toMask ((subsetsOfSize 3 S).map fun e => T.contains e) := by
    split <;> omega
  rw [this, hz]
  simp only [List.mem_map, forall_exists_index, and_imp]
  constructor
  · intro hh e he; exact hh _ e he rfl
  · intro hh b e he hb; rw [← hb]; exact hh e he

end C11
