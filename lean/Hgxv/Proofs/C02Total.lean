import Hgxv.Proofs.C02All
/-! C02 helper lemmas, part 13: in an unweighted hypergraph every stored weight is 1 (`Unw`), hence
`remove_node` never raises half-way: on a present node it is accepted in both `keep_edges` modes. -/
namespace C02
open AL

/-- unweighted ⇒ every stored weight is Python's `1` -/
def Unw (s : Store) : Prop := s.weighted = false → ∀ id w, get? s.weights id = some w → w = one

theorem Unw.of_eq {s s' : Store} (u : Unw s) (h1 : s'.weighted = s.weighted) (h2 : s'.weights = s.weights) : Unw s' := by
  intro hw id w hg; rw [h1] at hw; rw [h2] at hg; exact u hw id w hg

theorem unw_init (w : Bool) (hm : Meta) : Unw { weighted := w, hmeta := hm } := by
  intro _ id w hg; simp [get?] at hg

theorem addNode_unw (s : Store) (n : Node) (md : Option Meta) (u : Unw s) : Unw (addNode s n md) :=
  u.of_eq (addNode_fields s n md).2.2.2.2.2.1 (addNode_fields s n md).2.2.1

theorem addNodes_unw (s : Store) (ns : List Node) (u : Unw s) : Unw (addNodes s ns) := by
  induction ns generalizing s with
  | nil => exact u
  | cons n ns ih => exact ih _ (addNode_unw s n none u)

theorem addEdgeKey_unw (s : Store) (k : Key) (w : Option Int) (md : Option Meta) (u : Unw s) :
    Unw (addEdgeKey s k w md).1 := by
  unfold addEdgeKey
  split
  · exact u
  · split
    · intro hw id w' hg
      obtain ⟨_, _, f3, _, _, f6, _⟩ := addEdgeNew_fields s k (w.getD one) (md.getD [])
      rw [f6] at hw; rw [f3, get?_set] at hg
      split at hg
      · injection hg with hg; simp [hw] at hg; exact hg.symm
      · exact u hw id w' hg
    · intro hw id w' hg
      have hw' : s.weighted = false := hw
      simp only [addEdgeOld, hw'] at hg
      exact u hw' id w' hg

theorem addEdgesLoop_unw (s : Store) (es : List RawEdge) (ws : Option (List Int)) (mds : Option (List Meta)) (u : Unw s) :
    Unw (addEdgesLoop s es ws mds).1 := by
  induction es generalizing s ws mds with
  | nil => exact u
  | cons e es ih =>
    unfold addEdgesLoop
    split
    · exact u
    · split
      · exact u
      · simp only []
        split
        · exact addEdgeKey_unw s _ _ _ u
        · exact ih _ _ _ (addEdgeKey_unw s _ _ _ u)

theorem addEdges_unw (s : Store) (es : List RawEdge) (ws : Option (List Int)) (mds : Option (List Meta)) (u : Unw s) :
    Unw (addEdges s es ws mds).1 := by
  unfold addEdges
  simp only []
  have u0 : Unw (if (ws.isSome && !s.weighted) = true then { s with weighted := true } else s) := by
    split
    · intro hw; cases hw
    · exact u
  split
  · split
    · exact u0
    · exact addEdgesLoop_unw _ _ _ _ u0
  · exact addEdgesLoop_unw _ _ _ _ u0

theorem removeEdgeKey_unw (s : Store) (k : Key) (h : Inv s) (u : Unw s) : Unw (removeEdgeKey s k).1 := by
  unfold removeEdgeKey
  cases hk : get? s.edgeList k with
  | none => exact u
  | some id =>
    intro hw id' w hg
    have hg' : get? (AL.erase s.weights id) id' = some w := hg
    rw [get?_erase _ _ _ h.nd_w] at hg'
    split at hg'
    · cases hg'
    · exact u hw id' w hg'

theorem removeEdge_unw (s : Store) (e : RawEdge) (h : Inv s) (u : Unw s) : Unw (removeEdge s e).1 := by
  unfold removeEdge
  split
  · exact u
  · exact removeEdgeKey_unw s _ h u

theorem removeEdges_unw (s : Store) (es : List RawEdge) (h : Inv s) (u : Unw s) : Unw (removeEdges s es).1 := by
  induction es generalizing s with
  | nil => exact u
  | cons e es ih =>
    simp only [removeEdges]
    split
    · exact removeEdge_unw s e h u
    · exact ih _ (removeEdge_inv s e h) (removeEdge_unw s e h u)

theorem reinsert_unw (s : Store) (n : Node) (k : Key) (u : Unw s) : Unw (reinsert s n k).1 := by
  unfold reinsert
  simp only []
  split
  · exact u
  · split
    · exact addEdgeKey_unw s _ _ _ u
    · exact u

theorem reinsertAll_unw (s : Store) (n : Node) (L : List Key) (u : Unw s) : Unw (reinsertAll s n L).1 := by
  induction L generalizing s with
  | nil => exact u
  | cons k ks ih =>
    simp only [reinsertAll]
    split
    · exact reinsert_unw s n k u
    · exact ih _ (reinsert_unw s n k u)

theorem removeKeys_unw (s : Store) (L : List Key) (h : Inv s) (u : Unw s) : Unw (removeKeys s L).1 := by
  induction L generalizing s with
  | nil => exact u
  | cons k ks ih =>
    simp only [removeKeys]
    split
    · exact removeEdge_unw s _ h u
    · exact ih _ (removeEdge_inv s _ h) (removeEdge_unw s _ h u)

theorem removeNode_unw (s : Store) (n : Node) (keep : Bool) (h : Inv s) (o : Ord s) (u : Unw s) :
    Unw (removeNode s n keep).1 := by
  by_cases hn : has s.adjS n = true
  · rw [removeNode_eq s n keep h o hn]
    simp only []
    have wf := incKeys_wf s h n
    have hr1 : Inv (if keep = true then reinsertAll s n (incKeys s n) else (s, Out.ok)).1 := by
      split
      · exact reinsertAll_inv s n _ wf h
      · exact h
    have ur1 : Unw (if keep = true then reinsertAll s n (incKeys s n) else (s, Out.ok)).1 := by
      split
      · exact reinsertAll_unw s n _ u
      · exact u
    generalize (if keep = true then reinsertAll s n (incKeys s n) else (s, Out.ok)) = r1 at hr1 ur1
    split
    · exact ur1
    · have ur2 := removeKeys_unw r1.1 (incKeys s n) hr1 ur1
      split
      · exact ur2
      · exact ur2.of_eq rfl rfl
  · unfold removeNode
    have : has s.adjS n = false := by cases hq : has s.adjS n <;> simp_all
    simp only [this, Bool.not_false, Bool.true_or, if_true]
    exact u

theorem removeNodes_unw (s : Store) (keep : Bool) (ns : List Node) (h : Inv s) (o : Ord s) (u : Unw s) :
    Unw (removeNodes s keep ns).1 := by
  induction ns generalizing s with
  | nil => exact u
  | cons n ns ih =>
    simp only [removeNodes]
    split
    · exact removeNode_unw s n keep h o u
    · exact ih _ (removeNode_inv s n keep h) (removeNode_ord s n keep h o) (removeNode_unw s n keep h o u)

theorem setWeight_unw (s : Store) (e : RawEdge) (w : Int) (u : Unw s) : Unw (setWeight s e w).1 := by
  unfold setWeight
  split
  · exact u
  · rename_i hc
    split
    · exact u
    · split
      · intro hw id' w' hg
        have hw' : s.weighted = false := hw
        have hw1 : w = one := by
          simp only [hw', Bool.not_false, Bool.true_and, bne_iff_ne, ne_eq, Decidable.not_not] at hc; exact hc
        have hg' : get? (AL.set s.weights _ w) id' = some w' := hg
        rw [get?_set] at hg'
        split at hg'
        · injection hg' with hg'; rw [← hg']; exact hw1
        · exact u hw' id' w' hg'
      · exact u

theorem setters_frame_w (s : Store) :
    (∀ n md, (setNodeMeta s n md).1.weighted = s.weighted ∧ (setNodeMeta s n md).1.weights = s.weights) ∧
    (∀ e md, (setEdgeMeta s e md).1.weighted = s.weighted ∧ (setEdgeMeta s e md).1.weights = s.weights) ∧
    (∀ n a v, (setAttrNode s n a v).1.weighted = s.weighted ∧ (setAttrNode s n a v).1.weights = s.weights) ∧
    (∀ e a v, (setAttrEdge s e a v).1.weighted = s.weighted ∧ (setAttrEdge s e a v).1.weights = s.weights) ∧
    (∀ n a, (delAttrNode s n a).1.weighted = s.weighted ∧ (delAttrNode s n a).1.weights = s.weights) ∧
    (∀ e a, (delAttrEdge s e a).1.weighted = s.weighted ∧ (delAttrEdge s e a).1.weights = s.weights) := by
  refine ⟨?_, ?_, ?_, ?_, ?_, ?_⟩
  · intro n md; unfold setNodeMeta; repeat' (first | exact ⟨rfl, rfl⟩ | split)
  · intro e md; unfold setEdgeMeta; repeat' (first | exact ⟨rfl, rfl⟩ | split)
  · intro n a v; unfold setAttrNode; repeat' (first | exact ⟨rfl, rfl⟩ | split)
  · intro e a v; unfold setAttrEdge; repeat' (first | exact ⟨rfl, rfl⟩ | split)
  · intro n a; unfold delAttrNode; repeat' (first | exact ⟨rfl, rfl⟩ | split)
  · intro e a; unfold delAttrEdge; repeat' (first | exact ⟨rfl, rfl⟩ | split)

theorem applyOp_unw (s : Store) (op : Op) (h : Inv s) (o : Ord s) (u : Unw s) : Unw (applyOp s op).1 := by
  obtain ⟨f2, f3, f4, f5, f6, f7⟩ := setters_frame_w s
  cases op with
  | addNode n md => exact addNode_unw s n md u
  | addNodes ns => exact addNodes_unw s ns u
  | addEdge e w md => exact addEdgeKey_unw s _ w md u
  | addEdges es ws mds => exact addEdges_unw s es ws mds u
  | removeEdge e => exact removeEdge_unw s e h u
  | removeEdges es => exact removeEdges_unw s es h u
  | removeNode n keep => exact removeNode_unw s n keep h o u
  | removeNodes ns keep => exact removeNodes_unw s keep ns h o u
  | setWeight e w => exact setWeight_unw s e w u
  | setNodeMeta n md => exact u.of_eq (f2 n md).1 (f2 n md).2
  | setEdgeMeta e md => exact u.of_eq (f3 e md).1 (f3 e md).2
  | setHMeta md => exact u.of_eq rfl rfl
  | setAttrH a v =>
    show Unw (setAttrHOp s a v).1
    unfold setAttrHOp
    split
    · exact u
    · exact u.of_eq rfl rfl
  | setAttrNode n a v => exact u.of_eq (f4 n a v).1 (f4 n a v).2
  | setAttrEdge e a v => exact u.of_eq (f5 e a v).1 (f5 e a v).2
  | delAttrNode n a => exact u.of_eq (f6 n a).1 (f6 n a).2
  | delAttrEdge e a => exact u.of_eq (f7 e a).1 (f7 e a).2
  | clear => intro _ id w hg; exact absurd (show get? ([] : List (Nat × Int)) id = some w from hg) (by simp)

theorem addNodesMeta_unw (s : Store) (l : List (Node × Meta)) (u : Unw s) : Unw (addNodesMeta s l) := by
  induction l generalizing s with
  | nil => exact u
  | cons p r ih => obtain ⟨n, md⟩ := p; exact ih _ (addNode_unw s n (some md) u)

theorem ctor_unw (w : Bool) (hm : Option Meta) (nm : Option (List (Node × Meta))) (es : Option (List RawEdge))
    (ws : Option (List Int)) (mds : Option (List Meta)) : Unw (ctor w hm nm es ws mds).1 := by
  unfold ctor
  simp only []
  have u1 := addNodesMeta_unw _ (nm.getD []) (unw_init w (ctorHMeta hm w))
  cases es with
  | none => exact u1
  | some el =>
    simp only []
    split
    · exact u1
    · exact addEdges_unw _ _ _ _ u1

def StateUnw (st : State) : Prop := ∀ slot s, get? st slot = some s → Unw s

theorem step_unw (st : State) (c : Cmd) (h : StateInv st) (o : StateOrd st) (u : StateUnw st) :
    StateUnw (step st c).1 := by
  cases c with
  | new slot w hm nm es ws mds =>
    simp only [step]
    have h1 := ctor_unw w hm nm es ws mds
    cases hr : ctor w hm nm es ws mds with
    | mk s out =>
      rw [hr] at h1
      cases out with
      | rej => exact u
      | ok =>
        intro sl s' hs'
        simp only [get?_set] at hs'
        split at hs'
        · injection hs' with hs'; subst hs'; exact h1
        · exact u sl s' hs'
  | copy a b =>
    simp only [step]
    cases ha : get? st a with
    | none => exact u
    | some s =>
      intro sl s' hs'
      simp only [get?_set] at hs'
      split at hs'
      · injection hs' with hs'; subst hs'; exact u a _ ha
      · exact u sl s' hs'
  | op slot op =>
    simp only [step]
    cases ha : get? st slot with
    | none => exact u
    | some s =>
      intro sl s' hs'
      simp only [get?_set] at hs'
      split at hs'
      · injection hs' with hs'; subst hs'; exact applyOp_unw s op (h slot s ha) (o slot s ha) (u slot s ha)
      · exact u sl s' hs'

theorem runCmds_all (st : State) (cs : List Cmd) (hcs : ∀ c ∈ cs, c.WF) (h : StateInv st) (o : StateOrd st)
    (u : StateUnw st) : StateInv (runCmds st cs) ∧ StateOrd (runCmds st cs) ∧ StateUnw (runCmds st cs) := by
  induction cs generalizing st with
  | nil => exact ⟨h, o, u⟩
  | cons c cs ih =>
    have hw := hcs c List.mem_cons_self
    exact ih _ (fun c' hc' => hcs c' (List.mem_cons_of_mem _ hc')) (step_inv st c hw h)
      (abs_step st c hw h o).2.2 (step_unw st c h o u)

/-! ### remove_node is accepted on a present node -/

theorem addEdgeKey_has_mono (s : Store) (k : Key) (w : Option Int) (md : Option Meta) (k' : Key)
    (h : (get? s.edgeList k').isSome) : (get? (addEdgeKey s k w md).1.edgeList k').isSome := by
  unfold addEdgeKey
  split
  · exact h
  · split
    · simp only []
      rw [(addEdgeNew_fields s k _ _).1, get?_set]
      split
      · rfl
      · exact h
    · exact h

theorem reinsertAll_accepts (s : Store) (n : Node) (L M : List Key) (hL : ∀ k ∈ L, KeyWF k)
    (hLM : ∀ k ∈ L, k ∈ M) (h : Inv s) (u : Unw s) (hp : ∀ k ∈ M, (get? s.edgeList k).isSome) :
    (reinsertAll s n L).2 = .ok ∧ (∀ k ∈ M, (get? (reinsertAll s n L).1.edgeList k).isSome) := by
  induction L generalizing s with
  | nil => exact ⟨rfl, hp⟩
  | cons k ks ih =>
    have wf := hL k List.mem_cons_self
    have hk := hp k (hLM k List.mem_cons_self)
    obtain ⟨id, hid⟩ := Option.isSome_iff_exists.mp hk
    obtain ⟨w, hw⟩ := Option.isSome_iff_exists.mp (h.weights_of_edge k id hid)
    obtain ⟨m, hm⟩ := Option.isSome_iff_exists.mp (h.emeta_of_edge k id hid)
    -- one step
    have step1 : (reinsert s n k).2 = .ok ∧ ∀ k' ∈ M, (get? (reinsert s n k).1.edgeList k').isSome := by
      unfold reinsert
      simp only []
      split
      · exact ⟨rfl, hp⟩
      · simp only [weightOfKey, metaOfKey, hid, hw, hm]
        unfold addEdge
        refine ⟨?_, fun k' hk' => addEdgeKey_has_mono s _ _ _ k' (hp k' hk')⟩
        unfold addEdgeKey
        have hacc : (!s.weighted && (some w).isSome && (some w != some one)) = false := by
          cases hwt : s.weighted with
          | true => simp
          | false => have := u hwt id w hw; subst this; simp
        simp only [hacc, Bool.false_eq_true, if_false]
        split <;> rfl
    simp only [reinsertAll]
    rw [step1.1]
    exact ih _ (fun k' hk' => hL k' (List.mem_cons_of_mem _ hk')) (fun k' hk' => hLM k' (List.mem_cons_of_mem _ hk'))
      (reinsert_inv s n k wf h) (reinsert_unw s n k u) step1.2

theorem removeKeys_accepts (s : Store) (L : List Key) (hL : ∀ k ∈ L, KeyWF k) (hnd : L.Nodup) (h : Inv s)
    (hp : ∀ k ∈ L, (get? s.edgeList k).isSome) : (removeKeys s L).2 = .ok := by
  induction L generalizing s with
  | nil => rfl
  | cons k ks ih =>
    have wf := hL k List.mem_cons_self
    have hk := hp k List.mem_cons_self
    obtain ⟨id, hid⟩ := Option.isSome_iff_exists.mp hk
    have e1 : removeEdge s (RawEdge.ofKey k) = removeEdgeKey s k := by
      unfold removeEdge; rw [canonStrict_ofKey k wf]
    have e2 : (removeEdgeKey s k).2 = .ok := by simp [removeEdgeKey, hid]
    simp only [removeKeys, e1, e2]
    have hnd' := List.nodup_cons.mp hnd
    refine ih _ (fun k' hk' => hL k' (List.mem_cons_of_mem _ hk')) hnd'.2 (removeEdgeKey_inv s k h) ?_
    intro k' hk'
    have hne : k ≠ k' := fun hc => hnd'.1 (hc ▸ hk')
    have : (removeEdgeKey s k).1.edgeList = AL.erase s.edgeList k := by simp [removeEdgeKey, hid]
    rw [this, get?_erase_ne _ _ _ hne]
    exact hp k' (List.mem_cons_of_mem _ hk')

theorem incKeys_nodup (s : Store) (h : Inv s) (n : Node) : (incKeys s n).Nodup := by
  unfold incKeys
  refine List.nodup_append.mpr ⟨h.nd_edge.filter _, h.nd_edge.filter _, ?_⟩
  intro a ha b hb hab
  subst hab
  have h1 := List.mem_filter.mp ha
  have h2 := List.mem_filter.mp hb
  obtain ⟨id, hid⟩ := (h.mem_keys_iff a).mp h1.1
  exact (h.key_wf id a hid).disj n (List.contains_iff_mem.mp h1.2) (List.contains_iff_mem.mp h2.2)

/-- **`remove_node` never raises half-way**: on a present node it is accepted, in both modes -/
theorem removeNode_accepts (s : Store) (n : Node) (keep : Bool) (h : Inv s) (o : Ord s) (u : Unw s)
    (hn : has s.adjS n = true) : (removeNode s n keep).2 = .ok := by
  rw [removeNode_eq s n keep h o hn]
  simp only []
  have wf := incKeys_wf s h n
  have hpres : ∀ k ∈ incKeys s n, (get? s.edgeList k).isSome := by
    intro k hk
    have : k ∈ keys s.edgeList := by
      rcases List.mem_append.mp hk with h1 | h1 <;> exact (List.mem_filter.mp h1).1
    exact (isSome_get?_iff _ _).mpr this
  have r1 : (if keep = true then reinsertAll s n (incKeys s n) else (s, Out.ok)).2 = .ok ∧
      Inv (if keep = true then reinsertAll s n (incKeys s n) else (s, Out.ok)).1 ∧
      ∀ k ∈ incKeys s n, (get? (if keep = true then reinsertAll s n (incKeys s n) else (s, Out.ok)).1.edgeList k).isSome := by
    split
    · have := reinsertAll_accepts s n (incKeys s n) (incKeys s n) wf (fun _ hk => hk) h u hpres
      exact ⟨this.1, reinsertAll_inv s n _ wf h, this.2⟩
    · exact ⟨rfl, h, hpres⟩
  generalize (if keep = true then reinsertAll s n (incKeys s n) else (s, Out.ok)) = q at r1
  obtain ⟨a1, a2, a3⟩ := r1
  rw [a1]
  simp only []
  rw [removeKeys_accepts q.1 (incKeys s n) wf (incKeys_nodup s h n) a2 a3]

end C02
