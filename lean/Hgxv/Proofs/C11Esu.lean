import Hgxv.Model.C11
/-! # C11 - the ESU recursion `graph_extend` of `_motifs_standard` (core Lean only)

`extend_spec`: under the call invariant, the node sets handed to `count_motif` by
`extend N g v sub ext nsub` are exactly - and each exactly once - the valid ones
(text machine-checked in the design round, DESIGN-feasibility.md section L). -/
namespace C11

variable (N : Nat) (g : Nat → List Nat) (v : Nat)

/-- reachability from `sub` inside `S` -/
inductive ReachIn (S sub : List Nat) : Nat → Prop
  | base {x} : x ∈ sub → ReachIn S sub x
  | step {y x} : ReachIn S sub y → x ∈ g y → x ∈ S → ReachIn S sub x

def Forbidden (sub ext nsub : List Nat) (x : Nat) : Prop := x ∈ nsub ∧ x ∉ sub ∧ x ∉ ext

structure Valid (sub ext nsub S : List Nat) : Prop where
  sub_in : ∀ x ∈ sub, x ∈ S
  above : ∀ x ∈ S, x ∉ sub → v < x
  allowed : ∀ x ∈ S, x ∉ sub → ¬ Forbidden sub ext nsub x
  reach : ∀ x ∈ S, ReachIn g S sub x

structure Inv (sub ext nsub : List Nat) : Prop where
  sub_nodup : sub.Nodup
  sub_len : sub.length ≤ N
  nsub_iff : ∀ x, x ∈ nsub ↔ ∃ y ∈ sub, x ∈ g y
  ext_nodup : ext.Nodup
  ext_in : ∀ x ∈ ext, x ∈ nsub ∧ x ∉ sub ∧ v < x

def sameSet (S o : List Nat) : Bool := o.all (fun x => decide (x ∈ S)) && S.all (fun x => decide (x ∈ o))

theorem sameSet_iff (S o : List Nat) : sameSet S o = true ↔ (∀ x, x ∈ o ↔ x ∈ S) := by
  simp only [sameSet, Bool.and_eq_true, List.all_eq_true, decide_eq_true_eq]
  constructor
  · rintro ⟨a, b⟩ x; exact ⟨a x, b x⟩
  · intro h; exact ⟨fun x hx => (h x).mp hx, fun x hx => (h x).mpr hx⟩

theorem reach_mono {S sub sub' : List Nat} (h : ∀ x ∈ sub, x ∈ sub') {x : Nat} (hr : ReachIn g S sub x) :
    ReachIn g S sub' x := by
  induction hr with
  | base hx => exact ReachIn.base (h _ hx)
  | step _ hxy hxS ih => exact ReachIn.step ih hxy hxS

theorem reach_sources {S sub sub' : List Nat} (h : ∀ s ∈ sub', ReachIn g S sub s) {x : Nat}
    (hr : ReachIn g S sub' x) : ReachIn g S sub x := by
  induction hr with
  | base hx => exact h _ hx
  | step _ hxy hxS ih => exact ReachIn.step ih hxy hxS

/-- a reachable node outside `sub` forces an edge leaving `sub` inside `S` -/
theorem first_exit {S sub : List Nat} {x : Nat} (hr : ReachIn g S sub x) (hx : x ∉ sub) :
    ∃ y ∈ sub, ∃ z, z ∈ S ∧ z ∉ sub ∧ z ∈ g y := by
  induction hr with
  | base h => exact absurd h hx
  | @step y x _ hxy hxS ih =>
    by_cases hy : y ∈ sub
    · exact ⟨y, hy, x, hxS, hx, hxy⟩
    · exact ih hy

theorem exists_outside {S sub : List Nat} (hS : S.Nodup) (_hsub : sub.Nodup) (hlt : sub.length < S.length) :
    ∃ x ∈ S, x ∉ sub := by
  apply Decidable.byContradiction
  intro hno
  have : ∀ x ∈ S, x ∈ sub := by
    intro x hx
    apply Decidable.byContradiction
    intro hn; exact hno ⟨x, hx, hn⟩
  have := hS.length_le_of_subset this
  omega

variable {N g v}

/-- with an empty extension set and room left, nothing is valid -/
theorem not_valid_nil {sub nsub S : List Nat} (hinv : Inv N g v sub [] nsub)
    (hS : S.Nodup) (hlen : S.length = N) (hlt : sub.length < N) : ¬ Valid g v sub [] nsub S := by
  intro hv
  obtain ⟨x, hxS, hxsub⟩ := exists_outside hS hinv.sub_nodup (by omega)
  obtain ⟨y, hy, z, hzS, hzsub, hzy⟩ := first_exit g (hv.reach x hxS) hxsub
  exact hv.allowed z hzS hzsub ⟨(hinv.nsub_iff z).mpr ⟨y, hy, hzy⟩, hzsub, by simp⟩

theorem inv_B {sub rest nsub : List Nat} {w : Nat} (hinv : Inv N g v sub (w :: rest) nsub) :
    Inv N g v sub rest nsub :=
  ⟨hinv.sub_nodup, hinv.sub_len, hinv.nsub_iff, (List.nodup_cons.mp hinv.ext_nodup).2,
   fun x hx => hinv.ext_in x (List.mem_cons_of_mem _ hx)⟩

theorem inv_A {sub rest nsub : List Nat} {w : Nat} (hgnd : ∀ w, (g w).Nodup)
    (hinv : Inv N g v sub (w :: rest) nsub) (hlt : sub.length < N) :
    Inv N g v (sub ++ [w]) (rest ++ newExcl g v sub rest nsub w) (nsub ++ g w) := by
  have hw := hinv.ext_in w List.mem_cons_self
  have hnd := List.nodup_cons.mp hinv.ext_nodup
  refine ⟨?_, ?_, ?_, ?_, ?_⟩
  · refine List.nodup_append.mpr ⟨hinv.sub_nodup, by simp, ?_⟩
    intro a ha b hb hab; simp at hb; subst hb; subst hab; exact hw.2.1 ha
  · simp; omega
  · intro x
    simp only [List.mem_append, List.mem_singleton]
    constructor
    · rintro (h | h)
      · obtain ⟨y, hy, hxy⟩ := (hinv.nsub_iff x).mp h; exact ⟨y, Or.inl hy, hxy⟩
      · exact ⟨w, Or.inr rfl, h⟩
    · rintro ⟨y, (hy | hy), hxy⟩
      · exact Or.inl ((hinv.nsub_iff x).mpr ⟨y, hy, hxy⟩)
      · subst hy; exact Or.inr hxy
  · refine List.nodup_append.mpr ⟨hnd.2, (hgnd w).filter _, ?_⟩
    intro a ha b hb hab; subst hab
    simp [newExcl] at hb
    exact hb.2.2 ha
  · intro x hx
    rcases List.mem_append.mp hx with h | h
    · have := hinv.ext_in x (List.mem_cons_of_mem _ h)
      refine ⟨List.mem_append.mpr (Or.inl this.1), ?_, this.2.2⟩
      simp only [List.mem_append, List.mem_singleton, not_or]
      exact ⟨this.2.1, fun hxw => hnd.1 (hxw ▸ h)⟩
    · simp [newExcl] at h
      obtain ⟨h1, ⟨⟨h2, h3⟩, h4⟩, _⟩ := h
      refine ⟨List.mem_append.mpr (Or.inr h1), ?_, h4⟩
      simp only [List.mem_append, List.mem_singleton, not_or]
      exact ⟨h2, fun hxw => h3 (hxw ▸ hw.1)⟩

section split
variable {sub rest nsub S : List Nat} {w : Nat}

theorem valid_to_A (hinv : Inv N g v sub (w :: rest) nsub)
    (hv : Valid g v sub (w :: rest) nsub S) (hw : w ∈ S) :
    Valid g v (sub ++ [w]) (rest ++ newExcl g v sub rest nsub w) (nsub ++ g w) S := by
  refine ⟨?_, ?_, ?_, ?_⟩
  · intro x hx
    rcases List.mem_append.mp hx with h | h
    · exact hv.sub_in x h
    · simp at h; subst h; exact hw
  · intro x hx hns
    exact hv.above x hx (fun h => hns (List.mem_append.mpr (Or.inl h)))
  · intro x hx hns hf
    have hxsub : x ∉ sub := fun h => hns (List.mem_append.mpr (Or.inl h))
    have hxw : x ≠ w := fun h => hns (List.mem_append.mpr (Or.inr (by simp [h])))
    obtain ⟨hin, _, hnot⟩ := hf
    have hxrest : x ∉ rest := fun h => hnot (List.mem_append.mpr (Or.inl h))
    rcases List.mem_append.mp hin with h | h
    · exact hv.allowed x hx hxsub ⟨h, hxsub, by simp [hxw, hxrest]⟩
    · by_cases hxn : x ∈ nsub
      · exact hv.allowed x hx hxsub ⟨hxn, hxsub, by simp [hxw, hxrest]⟩
      · apply hnot
        apply List.mem_append.mpr; right
        simp [newExcl, h, hxsub, hxn, hxrest, hv.above x hx hxsub]
  · intro x hx
    exact reach_mono g (fun y hy => List.mem_append.mpr (Or.inl hy)) (hv.reach x hx)

theorem valid_of_A (hinv : Inv N g v sub (w :: rest) nsub)
    (hv : Valid g v (sub ++ [w]) (rest ++ newExcl g v sub rest nsub w) (nsub ++ g w) S) :
    Valid g v sub (w :: rest) nsub S ∧ w ∈ S := by
  have hwS : w ∈ S := hv.sub_in w (by simp)
  have hwi := hinv.ext_in w List.mem_cons_self
  refine ⟨⟨?_, ?_, ?_, ?_⟩, hwS⟩
  · intro x hx; exact hv.sub_in x (List.mem_append.mpr (Or.inl hx))
  · intro x hx hns
    by_cases hxw : x = w
    · subst hxw; exact hwi.2.2
    · exact hv.above x hx (by simp [hns, hxw])
  · intro x hx hns hf
    obtain ⟨hin, _, hnot⟩ := hf
    have hxw : x ≠ w := fun h => hnot (by simp [h])
    have hxrest : x ∉ rest := fun h => hnot (List.mem_cons_of_mem _ h)
    apply hv.allowed x hx (by simp [hns, hxw])
    refine ⟨List.mem_append.mpr (Or.inl hin), by simp [hns, hxw], ?_⟩
    intro h
    rcases List.mem_append.mp h with h | h
    · exact hxrest h
    · simp [newExcl] at h
      exact h.2.1.1.2 hin
  · intro x hx
    -- every source in sub ++ [w] is reachable from sub inside S
    have hwreach : ReachIn g S sub w := by
      obtain ⟨y, hy, hwy⟩ := (hinv.nsub_iff w).mp hwi.1
      exact ReachIn.step (ReachIn.base hy) hwy hwS
    refine reach_sources g ?_ (hv.reach x hx)
    intro s hs
    rcases List.mem_append.mp hs with h | h
    · exact ReachIn.base h
    · simp at h; subst h; exact hwreach

theorem valid_to_B (hv : Valid g v sub (w :: rest) nsub S) (hw : w ∉ S) :
    Valid g v sub rest nsub S := by
  refine ⟨hv.sub_in, hv.above, ?_, hv.reach⟩
  intro x hx hns hf
  obtain ⟨hin, _, hnot⟩ := hf
  have hxw : x ≠ w := fun h => hw (h ▸ hx)
  exact hv.allowed x hx hns ⟨hin, hns, by simp [hxw, hnot]⟩

theorem valid_of_B (hinv : Inv N g v sub (w :: rest) nsub) (hv : Valid g v sub rest nsub S) :
    Valid g v sub (w :: rest) nsub S ∧ w ∉ S := by
  have hwi := hinv.ext_in w List.mem_cons_self
  have hnd := List.nodup_cons.mp hinv.ext_nodup
  have hwS : w ∉ S := fun h => hv.allowed w h hwi.2.1 ⟨hwi.1, hwi.2.1, hnd.1⟩
  refine ⟨⟨hv.sub_in, hv.above, ?_, hv.reach⟩, hwS⟩
  intro x hx hns hf
  exact hv.allowed x hx hns ⟨hf.1, hf.2.1, fun h => hf.2.2 (List.mem_cons_of_mem _ h)⟩

end split

theorem subset_of_full {S sub : List Nat} (_hS : S.Nodup) (hsub : sub.Nodup)
    (hlen : sub.length = S.length) (hin : ∀ x ∈ sub, x ∈ S) : ∀ x ∈ S, x ∈ sub := by
  intro x hx
  apply Decidable.byContradiction
  intro hn
  have hnd : (x :: sub).Nodup := List.nodup_cons.mpr ⟨hn, hsub⟩
  have := hnd.length_le_of_subset (l₂ := S) (by
    intro y hy
    cases hy with
    | head => exact hx
    | tail _ h => exact hin y h)
  simp at this; omega

theorem extend_spec (hgnd : ∀ w, (g w).Nodup) :
    ∀ (sub ext nsub : List Nat), Inv N g v sub ext nsub → ∀ S : List Nat, S.Nodup → S.length = N →
      (Valid g v sub ext nsub S → (extend N g v sub ext nsub).countP (sameSet S) = 1) ∧
      (¬ Valid g v sub ext nsub S → (extend N g v sub ext nsub).countP (sameSet S) = 0) := by
  intro sub ext nsub
  induction sub, ext, nsub using extend.induct N g v with
  | case1 sub ext nsub hge =>
    intro hinv S hS hlen
    have hl : sub.length = S.length := by have := hinv.sub_len; omega
    rw [extend.eq_def]; simp only [hge, if_true]
    have hiff : Valid g v sub ext nsub S ↔ sameSet S sub = true := by
      rw [sameSet_iff]
      constructor
      · intro hv x
        exact ⟨hv.sub_in x, subset_of_full hS hinv.sub_nodup hl hv.sub_in x⟩
      · intro h
        refine ⟨fun x hx => (h x).mp hx, ?_, ?_, ?_⟩
        · intro x hx hns; exact absurd ((h x).mpr hx) hns
        · intro x hx hns; exact absurd ((h x).mpr hx) hns
        · intro x hx; exact ReachIn.base ((h x).mpr hx)
    constructor
    · intro hv; simp [hiff.mp hv]
    · intro hv
      have : sameSet S sub = false := by
        cases hs : sameSet S sub with
        | false => rfl
        | true => exact absurd (hiff.mpr hs) hv
      simp [this]
  | case2 sub nsub hlt =>
    intro hinv S hS hlen
    rw [extend]; simp only [hlt, if_false]
    refine ⟨fun hv => absurd hv (not_valid_nil hinv hS hlen (by omega)), fun _ => by simp⟩
  | case3 sub nsub hlt w rest ihA ihB =>
    intro hinv S hS hlen
    have hlt' : sub.length < N := by omega
    have hA := ihA (inv_A hgnd hinv hlt') S hS hlen
    have hB := ihB (inv_B hinv) S hS hlen
    rw [extend]; simp only [hlt, if_false, List.countP_append]
    constructor
    · intro hv
      by_cases hw : w ∈ S
      · have vA := valid_to_A hinv hv hw
        have nB : ¬ Valid g v sub rest nsub S := fun h => (valid_of_B hinv h).2 hw
        rw [hA.1 vA, hB.2 nB]
      · have vB := valid_to_B hv hw
        have nA : ¬ Valid g v (sub ++ [w]) (rest ++ newExcl g v sub rest nsub w) (nsub ++ g w) S :=
          fun h => hw (valid_of_A hinv h).2
        rw [hA.2 nA, hB.1 vB]
    · intro hv
      have nA : ¬ Valid g v (sub ++ [w]) (rest ++ newExcl g v sub rest nsub w) (nsub ++ g w) S :=
        fun h => hv (valid_of_A hinv h).1
      have nB : ¬ Valid g v sub rest nsub S := fun h => hv (valid_of_B hinv h).1
      rw [hA.2 nA, hB.2 nB]

end C11
