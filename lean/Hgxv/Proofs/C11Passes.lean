import Hgxv.Proofs.C11Pattern
import Hgxv.Proofs.C11EsuRoot
/-! # C11 - which node subsets the three passes visit (core Lean only) -/
namespace C11

/-- what the `Hypergraph` class guarantees for `get_edges()`: distinct hyperedges, each a strictly
increasing tuple of labels -/
structure WF (E : HG) : Prop where
  nodup : E.Nodup
  sorted : ∀ e ∈ E, SSorted e

theorem WF.filter {E : HG} (h : WF E) (p : List Nat → Bool) : WF (E.filter p) :=
  ⟨List.Pairwise.filter _ h.nodup, fun e he => h.sorted e (List.mem_filter.mp he).1⟩

/-! ## connectivity of a node subset by the hyperedges inside it -/

/-- `y` and `x` lie in a common hyperedge that is contained in `S` -/
def hadj (E : HG) (S : List Nat) (y x : Nat) : Prop := ∃ e ∈ E, (∀ z ∈ e, z ∈ S) ∧ y ∈ e ∧ x ∈ e

inductive Reach (E : HG) (S : List Nat) : Nat → Nat → Prop
  | refl (x : Nat) : Reach E S x x
  | step {y z x : Nat} : Reach E S y z → hadj E S z x → Reach E S y x

/-- the hyperedges contained in `S` connect all nodes of `S` -/
def Conn (E : HG) (S : List Nat) : Prop := ∀ y ∈ S, ∀ x ∈ S, Reach E S y x

theorem hadj_symm {E : HG} {S : List Nat} {y x : Nat} (h : hadj E S y x) : hadj E S x y := by
  obtain ⟨e, he, hs, hy, hx⟩ := h; exact ⟨e, he, hs, hx, hy⟩

theorem Reach.trans {E : HG} {S : List Nat} {a b c : Nat} (h₁ : Reach E S a b) (h₂ : Reach E S b c) :
    Reach E S a c := by
  induction h₂ with
  | refl => exact h₁
  | step _ hadj ih => exact Reach.step ih hadj

theorem Reach.single {E : HG} {S : List Nat} {a b : Nat} (h : hadj E S a b) : Reach E S a b :=
  Reach.step (Reach.refl a) h

theorem Reach.symm {E : HG} {S : List Nat} {a b : Nat} (h : Reach E S a b) : Reach E S b a := by
  induction h with
  | refl => exact Reach.refl _
  | step _ hadj ih => exact Reach.trans (Reach.single (hadj_symm hadj)) ih

/-- everything is reachable from one hub -/
theorem conn_of_hub {E : HG} {S : List Nat} (x₀ : Nat) (h : ∀ y ∈ S, Reach E S x₀ y) : Conn E S :=
  fun y hy x hx => Reach.trans (Reach.symm (h y hy)) (h x hx)

/-- a path that leaves `d` starts with a hyperedge through `d` and another node -/
theorem Reach.first_step {E : HG} {S : List Nat} {d x : Nat} (h : Reach E S d x) (hne : x ≠ d) :
    ∃ e ∈ E, (∀ z ∈ e, z ∈ S) ∧ d ∈ e ∧ ∃ z ∈ e, z ≠ d := by
  induction h with
  | refl => exact absurd rfl hne
  | @step z x _ hadj ih =>
    by_cases hz : z = d
    · subst hz
      obtain ⟨e, he, hs, hd, hx⟩ := hadj
      exact ⟨e, he, hs, hd, x, hx, hne⟩
    · exact ih hz

/-! ## pass 2 bookkeeping -/

theorem mem_visitNew {n : Nat} {l : List (List Nat)} : ∀ {vis : List (List Nat)} {s : List Nat},
    s ∈ visitNew n vis l ↔ s ∈ l ∧ s.length = n ∧ s ∉ vis := by
  induction l with
  | nil => intro vis s; simp [visitNew]
  | cons a l ih =>
    intro vis s
    unfold visitNew
    by_cases hc : (a.length == n && !vis.contains a) = true
    · rw [if_pos hc]
      simp only [Bool.and_eq_true, beq_iff_eq, Bool.not_eq_true', List.contains_eq_mem,
        decide_eq_false_iff_not] at hc
      simp only [List.mem_cons, ih]
      constructor
      · rintro (h | ⟨h1, h2, h3⟩)
        · subst h; exact ⟨Or.inl rfl, hc.1, hc.2⟩
        · exact ⟨Or.inr h1, h2, fun hv => h3 (Or.inr hv)⟩
      · rintro ⟨h1 | h1, h2, h3⟩
        · exact Or.inl h1
        · by_cases hsa : s = a
          · exact Or.inl hsa
          · exact Or.inr ⟨h1, h2, fun hv => by rcases hv with e | e; exact hsa e; exact h3 e⟩
    · rw [if_neg hc]
      simp only [Bool.and_eq_true, beq_iff_eq, Bool.not_eq_true', List.contains_eq_mem,
        decide_eq_false_iff_not, not_and, Classical.not_not] at hc
      simp only [List.mem_cons, ih]
      constructor
      · rintro ⟨h1, h2, h3⟩; exact ⟨Or.inr h1, h2, h3⟩
      · rintro ⟨h1 | h1, h2, h3⟩
        · subst h1; exact absurd (hc h2) h3
        · exact ⟨h1, h2, h3⟩

theorem nodup_visitNew {n : Nat} {l : List (List Nat)} : ∀ {vis : List (List Nat)},
    (visitNew n vis l).Nodup := by
  induction l with
  | nil => intro vis; simp [visitNew]
  | cons a l ih =>
    intro vis
    unfold visitNew
    split
    · refine List.nodup_cons.mpr ⟨?_, ih⟩
      intro h
      have := (mem_visitNew.mp h).2.2
      exact this (by simp)
    · exact ih

theorem mem_unionSet {a b : List Nat} {x : Nat} : x ∈ unionSet a b ↔ x ∈ a ∨ x ∈ b := by
  unfold unionSet; rw [mem_isort, mem_dedup, List.mem_append]

theorem unionSet_sorted (a b : List Nat) : SSorted (unionSet a b) :=
  isort_sorted (nodup_dedup _)

theorem mem_nfCands {n : Nat} {E : HG} {S : List Nat} :
    S ∈ nfCands n E ↔ ∃ e ∈ E, e.length + 1 = n ∧ ∃ x ∈ e, ∃ e' ∈ E, e'.length < n ∧ x ∈ e' ∧
      S = unionSet e e' := by
  simp only [nfCands, incident, smaller, List.mem_flatMap, List.mem_filter, List.mem_map, beq_iff_eq,
    decide_eq_true_eq, List.contains_iff_mem]
  constructor
  · rintro ⟨e, ⟨he, hl⟩, x, hx, e', ⟨⟨he', hl'⟩, hxe'⟩, rfl⟩
    exact ⟨e, he, hl, x, hx, e', he', hl', hxe', rfl⟩
  · rintro ⟨e, he, hl, x, hx, e', he', hl', hxe', rfl⟩
    exact ⟨e, ⟨he, hl⟩, x, hx, e', ⟨⟨he', hl'⟩, hxe'⟩, rfl⟩

/-- a hyperedge of size 3 lies inside `S` -/
def has3 (E : HG) (S : List Nat) : Prop := ∃ e ∈ E, e.length = 3 ∧ ∀ z ∈ e, z ∈ S

/-- `_motifs_ho_not_full` (order 4): the newly visited node sets -/
theorem mem_notFullSets {E : HG} (_hE : WF E) {S : List Nat} :
    S ∈ notFullSets 4 E (fullSets 4 E) ↔
      SSorted S ∧ S.length = 4 ∧ S ∉ E ∧
      ∃ e ∈ E, e.length = 3 ∧ (∀ z ∈ e, z ∈ S) ∧ ∃ e' ∈ E, e'.length < 4 ∧ (∀ z ∈ e', z ∈ S) ∧
        (∃ x ∈ e, x ∈ e') ∧ ∀ z ∈ S, z ∈ e ∨ z ∈ e' := by
  unfold notFullSets
  rw [mem_visitNew, mem_nfCands]
  simp only [fullSets, List.mem_filter, beq_iff_eq, not_and]
  constructor
  · rintro ⟨⟨e, he, hl, x, hx, e', he', hl', hxe', rfl⟩, hlen, hnot⟩
    refine ⟨unionSet_sorted e e', hlen, fun h => hnot h hlen, e, he, by omega,
      fun z hz => mem_unionSet.mpr (Or.inl hz), e', he', hl', fun z hz => mem_unionSet.mpr (Or.inr hz),
      ⟨x, hx, hxe'⟩, fun z hz => mem_unionSet.mp hz⟩
  · rintro ⟨hS, hlen, hnot, e, he, hl, hes, e', he', hl', hes', ⟨x, hx, hxe'⟩, hcov⟩
    refine ⟨⟨e, he, by omega, x, hx, e', he', hl', hxe', ?_⟩, hlen, fun h _ => hnot h⟩
    apply eq_of_sorted_of_mem_iff hS (unionSet_sorted e e')
    intro z
    rw [mem_unionSet]
    exact ⟨hcov z, fun h => h.elim (hes z) (hes' z)⟩

/-! ## pass 3: dyadic skeleton -/

theorem mem_nbrs {E : HG} {y x : Nat} :
    x ∈ nbrs E y ↔ ∃ e ∈ E, e.length = 2 ∧ y ∈ e ∧ x ∈ e ∧ x ≠ y := by
  unfold nbrs dyadic
  rw [mem_dedup]
  simp only [List.mem_flatMap, List.mem_filter, beq_iff_eq]
  constructor
  · rintro ⟨e, ⟨he, hl⟩, hx⟩
    by_cases hc : e.contains y = true
    · rw [if_pos hc] at hx
      simp only [List.mem_filter, bne_iff_ne, ne_eq] at hx
      exact ⟨e, he, hl, by simpa using hc, hx.1, hx.2⟩
    · rw [if_neg hc] at hx; simp at hx
  · rintro ⟨e, he, hl, hy, hx, hne⟩
    refine ⟨e, ⟨he, hl⟩, ?_⟩
    have hc : e.contains y = true := by simpa using hy
    rw [if_pos hc]
    simp only [List.mem_filter, bne_iff_ne, ne_eq]
    exact ⟨hx, hne⟩

theorem mem_roots {E : HG} {v : Nat} : v ∈ roots E ↔ ∃ e ∈ E, e.length = 2 ∧ v ∈ e := by
  unfold roots dyadic
  rw [mem_dedup]
  simp only [List.mem_flatMap, List.mem_filter, beq_iff_eq, id]
  constructor
  · rintro ⟨e, ⟨he, hl⟩, hv⟩; exact ⟨e, he, hl, hv⟩
  · rintro ⟨e, he, hl, hv⟩; exact ⟨e, ⟨he, hl⟩, hv⟩

theorem eq_pair_of_length_two {e : List Nat} (h : e.length = 2) : ∃ a b, e = [a, b] := by
  match e, h with
  | [a, b], _ => exact ⟨a, b, rfl⟩

theorem reachIn_congr {g : Nat → List Nat} {S S' sub : List Nat} (h : ∀ x, x ∈ S ↔ x ∈ S') {x : Nat}
    (hr : ReachIn g S sub x) : ReachIn g S' sub x := by
  induction hr with
  | base hx => exact ReachIn.base hx
  | step _ hxy hxS ih => exact ReachIn.step ih hxy ((h _).mp hxS)

theorem rootValid_congr {g : Nat → List Nat} {v : Nat} {S S' : List Nat} (h : ∀ x, x ∈ S ↔ x ∈ S')
    (hv : RootValid g v S) : RootValid g v S' :=
  ⟨(h v).mp hv.root_in, fun x hx hne => hv.above x ((h x).mpr hx) hne,
   fun x hx => reachIn_congr h (hv.reach x ((h x).mpr hx))⟩

/-- reachability in the dyadic skeleton inside `S` is reachability by hyperedges inside `S` -/
theorem reach_of_reachIn {E : HG} {S : List Nat} {v x : Nat} (hv : v ∈ S)
    (hr : ReachIn (nbrs E) S [v] x) : Reach E S v x ∧ x ∈ S := by
  induction hr with
  | base hx => simp at hx; subst hx; exact ⟨Reach.refl _, hv⟩
  | @step y x _ hxy hxS ih =>
    obtain ⟨e, he, hl, hy, hx, hne⟩ := mem_nbrs.mp hxy
    refine ⟨Reach.step ih.1 ⟨e, he, ?_, hy, hx⟩, hxS⟩
    intro z hz
    -- e has exactly the two nodes y, x
    obtain ⟨a, b, rfl⟩ := eq_pair_of_length_two hl
    simp only [List.mem_cons, List.not_mem_nil, or_false] at hy hx hz
    have hyS := ih.2
    rcases hz with rfl | rfl <;> rcases hy with h1 | h1 <;> rcases hx with h2 | h2 <;>
      first | exact (h1 ▸ hyS) | exact (h2 ▸ hxS) | (exfalso; omega)

theorem conn_of_rootValid {E : HG} {S : List Nat} {v : Nat} (h : RootValid (nbrs E) v S) : Conn E S :=
  conn_of_hub v (fun y hy => (reach_of_reachIn h.root_in (h.reach y hy)).1)

/-- all hyperedges inside `S` have at most two nodes -/
def dyOnly (E : HG) (S : List Nat) : Prop := ∀ e ∈ E, (∀ z ∈ e, z ∈ S) → e.length ≤ 2

theorem reachIn_of_reach {E : HG} (hE : WF E) {S : List Nat} (hd : dyOnly E S) {v x : Nat}
    (hr : Reach E S v x) : ReachIn (nbrs E) S [v] x ∨ x = v := by
  induction hr with
  | refl => exact Or.inr rfl
  | @step z x _ hadj ih =>
    obtain ⟨e, he, hs, hz, hx⟩ := hadj
    by_cases hxz : x = z
    · subst hxz; exact ih
    · left
      have hle := hd e he hs
      have hsrt := hE.sorted e he
      have hl2 : e.length = 2 := by
        match e, hle with
        | [], _ => simp at hz
        | [a], _ => simp at hz hx; omega
        | [a, b], _ => rfl
      have hnb : x ∈ nbrs E z := mem_nbrs.mpr ⟨e, he, hl2, hz, hx, hxz⟩
      have hz' : ReachIn (nbrs E) S [v] z := by
        rcases ih with h | h
        · exact h
        · subst h; exact ReachIn.base (by simp)
      exact ReachIn.step hz' hnb (hs x hx)

theorem head_lt_of_sorted {S : List Nat} (hS : SSorted S) {v : Nat} (hv : S.head? = some v) :
    ∀ x ∈ S, x ≠ v → v < x := by
  cases S with
  | nil => simp at hv
  | cons a S =>
    simp at hv; subst hv
    intro x hx hne
    rcases List.mem_cons.mp hx with e | e
    · exact absurd e hne
    · exact (List.pairwise_cons.mp hS).1 x e

/-- a connected set whose inner hyperedges are all dyadic is what the ESU pass grows from its minimum -/
theorem rootValid_of_conn {E : HG} (hE : WF E) {S : List Nat} (hS : SSorted S) (h2 : 2 ≤ S.length)
    (hd : dyOnly E S) (hc : Conn E S) :
    ∃ v ∈ roots E, RootValid (nbrs E) v S := by
  match S, h2 with
  | v :: w :: rest, _ =>
    have hvS : v ∈ v :: w :: rest := by simp
    have hwS : w ∈ v :: w :: rest := by simp
    have hvw : v < w := (List.pairwise_cons.mp hS).1 w (by simp)
    have hreach : ∀ x ∈ v :: w :: rest, ReachIn (nbrs E) (v :: w :: rest) [v] x := by
      intro x hx
      rcases reachIn_of_reach hE hd (hc v hvS x hx) with h | h
      · exact h
      · subst h; exact ReachIn.base (by simp)
    refine ⟨v, ?_, hvS, head_lt_of_sorted hS rfl, hreach⟩
    -- v has a dyadic hyperedge: first exit of the path to w
    obtain ⟨y, hy, z, _, _, hzy⟩ := first_exit (nbrs E) (hreach w hwS) (by simp; omega)
    simp at hy; subst hy
    obtain ⟨e, he, hl, hy, _, _⟩ := mem_nbrs.mp hzy
    exact mem_roots.mpr ⟨e, he, hl, hy⟩

/-- `_motifs_standard`: which sorted node sets the ESU pass hands over -/
theorem mem_esu_sorted {n : Nat} (hn : 1 ≤ n) {E : HG} {S : List Nat} :
    (∃ o ∈ esuSets n E, isort o = S) ↔
      SSorted S ∧ S.length = n ∧ ∃ v ∈ roots E, RootValid (nbrs E) v S := by
  constructor
  · rintro ⟨o, ho, rfl⟩
    obtain ⟨hnd, hlen, v, hv, hval⟩ := esu_out n E hn o ho
    exact ⟨isort_sorted hnd, by rw [isort_length, hlen], v, hv,
      rootValid_congr (fun x => (mem_isort (l := o)).symm) hval⟩
  · rintro ⟨hS, hlen, hex⟩
    have h1 := (esu_count n E hn S hS.nodup hlen).1 hex
    have hpos : 0 < (esuSets n E).countP (sameSet S) := by omega
    obtain ⟨o, ho, hsame⟩ := List.countP_pos_iff.mp hpos
    have hnd := (esu_out n E hn o ho).1
    exact ⟨o, ho, isort_eq_of_mem_iff hnd hS ((sameSet_iff S o).mp hsame)⟩

theorem pairwise_of_countP_le_one {α} (q : α → α → Bool) (l : List α)
    (h : ∀ x ∈ l, l.countP (q x) ≤ 1) (hr : ∀ x ∈ l, q x x = true) :
    l.Pairwise (fun a b => q a b = false) := by
  induction l with
  | nil => exact List.Pairwise.nil
  | cons a l ih =>
    refine List.pairwise_cons.mpr ⟨?_, ih ?_ (fun x hx => hr x (by simp [hx]))⟩
    · intro b hb
      have := h a (by simp)
      rw [List.countP_cons, hr a (by simp)] at this
      simp only [if_true] at this
      have h0 : l.countP (q a) = 0 := by omega
      have := List.countP_eq_zero.mp h0 b hb
      simpa using this
    · intro x hx
      have := h x (by simp [hx])
      rw [List.countP_cons] at this
      omega

/-- the ESU pass hands over every node set at most once (as a set) -/
theorem esu_sorted_nodup {n : Nat} (hn : 1 ≤ n) (E : HG) : ((esuSets n E).map isort).Nodup := by
  rw [List.nodup_iff_pairwise_ne, List.pairwise_map]
  have hp := pairwise_of_countP_le_one sameSet (esuSets n E) (by
    intro x hx
    obtain ⟨hnd, hlen, _⟩ := esu_out n E hn x hx
    have := esu_count n E hn x hnd hlen
    by_cases hv : ∃ v ∈ roots E, RootValid (nbrs E) v x
    · rw [this.1 hv]; exact Nat.le_refl 1
    · rw [this.2 hv]; omega) (by
    intro x _; exact (sameSet_iff x x).mpr (fun _ => Iff.rfl))
  refine List.Pairwise.imp ?_ hp
  intro a b hab heq
  have : sameSet a b = true := by
    rw [sameSet_iff]
    intro x
    rw [← mem_isort (l := b), ← heq, mem_isort]
  rw [this] at hab; exact absurd hab (by simp)

end C11
