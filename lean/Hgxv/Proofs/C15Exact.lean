import Hgxv.Proofs.C15Loop
import Hgxv.Proofs.C15Stop
import Hgxv.Proofs.C15Closed
/-! # C15 — `penLik` is the exact Poisson log-likelihood of the data under the returned `w / C`

`fit` runs the loop on `w̃ = C·w` ("the C constant can be absorbed") and returns `w = w̃ / C`.
The exact log-likelihood of the data under the Poisson model with parameters `(u, w)` and maximum size `D`,
every possible hyperedge `s` of size `2..D` having mean `λ_s(w)/κ_|s|`, is (up to `−Σ log A_e!`)
`Σ_e A_e log(λ_e(w)/κ_e) − Σ_{d=2..D} Σ_{|s|=d} λ_s(w)/κ_d`; with the exponential prior of rate `r` on the
entries of `C·w` the log-posterior subtracts `C · Σ_ab r_ab w_ab`.  For `w = w̃/C` this equals
`penLik(w̃)` minus a constant that does not depend on `w̃`. -/
open Finset
namespace C15

noncomputable def exactLik (d : Data) (D : ℕ) (u r w : Mat) : ℝ :=
  ∑ e ∈ range d.E, ((d.A e : ℚ) : ℝ) *
      Real.log ((poisson d.N d.K u w (d.edge e) / kappa d.N (d.edge e).length : ℚ) : ℝ)
    - (((sumL (dims 2 D) fun dd => ∑ s ∈ (range d.N).powersetCard dd, pairSum d.K u w s / kappa d.N dd)
        + C (dims 2 D) * ∑ a ∈ range d.K, ∑ b ∈ range d.K, r a b * w a b : ℚ) : ℝ)

theorem dsum_scale (K : ℕ) (g w : Mat) (c : ℚ) :
    ∑ a ∈ range K, ∑ b ∈ range K, g a b * (w a b / c) = (∑ a ∈ range K, ∑ b ∈ range K, g a b * w a b) / c := by
  simp only [Finset.sum_div, mul_div_assoc]

theorem poisson_scale (N K : ℕ) (u w : Mat) (c : ℚ) (e : List ℕ) :
    poisson N K u (fun a b => w a b / c) e = poisson N K u w e / c := by
  rw [poisson_lin, poisson_lin, dsum_scale]

theorem bfSum_scale (N K : ℕ) (u w : Mat) (c : ℚ) :
    bfSum N K u (fun a b => w a b / c) = bfSum N K u w / c := by
  rw [bfSum_lin, bfSum_lin, dsum_scale]

theorem mem_dims (lo D dd : ℕ) (h : dd ∈ dims lo D) : lo ≤ dd ∧ dd ≤ D := by
  unfold dims at h
  rw [List.mem_range'_1] at h
  omega

theorem Cterm_pos (dd : ℕ) (h : 2 ≤ dd) : 0 < Cterm dd := by
  obtain ⟨h1, h2⟩ := d_pos dd h
  unfold Cterm; positivity

theorem sumL_pos (ds : List ℕ) (f : ℕ → ℚ) (hne : ds ≠ []) (h : ∀ x ∈ ds, 0 < f x) : 0 < sumL ds f := by
  induction ds with
  | nil => exact absurd rfl hne
  | cons x xs ih =>
    rw [sumL_cons]
    by_cases hx : xs = []
    · subst hx; rw [sumL_nil, add_zero]; exact h x (by simp)
    · exact add_pos (h x (by simp)) (ih hx fun y hy => h y (by simp [hy]))

theorem C_pos (D : ℕ) (hD : 2 ≤ D) : 0 < C (dims 2 D) := by
  unfold C
  apply sumL_pos
  · unfold dims
    have : D + 1 - 2 = (D - 2) + 1 := by omega
    rw [this, List.range'_succ]; simp
  · intro x hx; exact Cterm_pos x (mem_dims 2 D x hx).1

/-- the normaliser of the Poisson model: the sum over ALL hyperedges of size `2..D` of `λ_s/κ` is `C(D)·Σ_{i<j}` -/
theorem normaliser_closed (N K D : ℕ) (u w : Mat) (hw : ∀ a < K, ∀ b < K, w a b = w b a) (hD : D ≤ N) :
    (sumL (dims 2 D) fun dd => ∑ s ∈ (range N).powersetCard dd, pairSum K u w s / kappa N dd)
      = C (dims 2 D) * bfSum N K u w := by
  unfold C
  rw [sumL_mul]
  apply sumL_congr
  intro dd hdd
  obtain ⟨h2, hle⟩ := mem_dims 2 D dd hdd
  rw [dim_closed N K u w dd h2 (by omega), bfSum_eq_pairSum N K u w hw]

theorem exactLik_eq (d : Data) (D : ℕ) (u r w : Mat)
    (hw : ∀ a < d.K, ∀ b < d.K, w a b = w b a) (hD2 : 2 ≤ D) (hDN : D ≤ d.N)
    (hsize : ∀ e < d.E, 2 ≤ (d.edge e).length ∧ (d.edge e).length ≤ d.N)
    (hlam : ∀ e < d.E, 0 < poisson d.N d.K u w (d.edge e)) :
    exactLik d D u r (fun a b => w a b / C (dims 2 D))
      = penLik d u r w
        - ∑ e ∈ range d.E, ((d.A e : ℚ) : ℝ) *
            Real.log (((C (dims 2 D) * kappa d.N (d.edge e).length : ℚ)) : ℝ) := by
  have hc := C_pos D hD2
  unfold exactLik penLik
  have hsym' : ∀ a < d.K, ∀ b < d.K, (fun a b => w a b / C (dims 2 D)) a b = (fun a b => w a b / C (dims 2 D)) b a := by
    intro a ha b hb; simp only []; rw [hw a ha b hb]
  rw [normaliser_closed d.N d.K D u _ hsym' hDN, bfSum_scale, dsum_scale]
  have hnorm : C (dims 2 D) * (bfSum d.N d.K u w / C (dims 2 D))
      + C (dims 2 D) * ((∑ a ∈ range d.K, ∑ b ∈ range d.K, r a b * w a b) / C (dims 2 D))
      = bfSum d.N d.K u w + ∑ a ∈ range d.K, ∑ b ∈ range d.K, r a b * w a b := by
    field_simp
  rw [hnorm]
  have hlog : ∀ e ∈ range d.E, ((d.A e : ℚ) : ℝ) *
        Real.log ((poisson d.N d.K u (fun a b => w a b / C (dims 2 D)) (d.edge e) / kappa d.N (d.edge e).length : ℚ) : ℝ)
      = ((d.A e : ℚ) : ℝ) * Real.log ((poisson d.N d.K u w (d.edge e) : ℚ) : ℝ)
        - ((d.A e : ℚ) : ℝ) * Real.log (((C (dims 2 D) * kappa d.N (d.edge e).length : ℚ)) : ℝ) := by
    intro e he
    have he' := mem_range.mp he
    have hk := kappa_pos d.N (d.edge e).length (hsize e he').1 (hsize e he').2
    have hl := hlam e he'
    rw [poisson_scale, div_div, ← mul_sub]
    congr 1
    push_cast
    have h1 : (0 : ℝ) < ((poisson d.N d.K u w (d.edge e) : ℚ) : ℝ) := by exact_mod_cast hl
    have h2 : (0 : ℝ) < ((C (dims 2 D) : ℚ) : ℝ) * ((kappa d.N (d.edge e).length : ℚ) : ℝ) := by
      have : (0 : ℚ) < C (dims 2 D) * kappa d.N (d.edge e).length := mul_pos hc hk
      exact_mod_cast this
    rw [Real.log_div h1.ne' h2.ne']
  rw [Finset.sum_congr rfl hlog, Finset.sum_sub_distrib]
  ring

/-! ## the result of `fit` with supplied memberships -/

theorem bf_congr (K : ℕ) (x y : Vec) (w w' : Mat) (h : ∀ a < K, ∀ b < K, w a b = w' a b) :
    bf K x y w = bf K x y w' := by
  rw [bf_eq, bf_eq]
  apply Finset.sum_congr rfl; intro b hb
  apply Finset.sum_congr rfl; intro a ha
  rw [h a (mem_range.mp ha) b (mem_range.mp hb)]

theorem pairSum_congr (K : ℕ) (u w w' : Mat) (h : ∀ a < K, ∀ b < K, w a b = w' a b) (s : Finset ℕ) :
    pairSum K u w s = pairSum K u w' s := by
  unfold pairSum aij
  apply Finset.sum_congr rfl; intro p _
  exact bf_congr K _ _ w w' h

theorem exactLik_congr (d : Data) (D : ℕ) (u r w w' : Mat) (h : ∀ a < d.K, ∀ b < d.K, w a b = w' a b) :
    exactLik d D u r w = exactLik d D u r w' := by
  unfold exactLik
  rw [dsum_congr d.K r w w' h]
  have h1 : (sumL (dims 2 D) fun dd => ∑ s ∈ (range d.N).powersetCard dd, pairSum d.K u w s / kappa d.N dd)
      = sumL (dims 2 D) fun dd => ∑ s ∈ (range d.N).powersetCard dd, pairSum d.K u w' s / kappa d.N dd := by
    apply sumL_congr; intro dd _
    apply Finset.sum_congr rfl; intro s _
    rw [pairSum_congr d.K u w w' h]
  rw [h1]
  congr 1
  apply Finset.sum_congr rfl; intro e _
  rw [poisson_congr d.N d.K u w w' h]

theorem loop_symm (d : Data) (us w0 : List (List Rat)) (ru rw : Mat)
    (hsym0 : ∀ a b, matOf w0 a b = matOf w0 b a) (hrsym : ∀ a b, rw a b = rw b a) (n : ℕ) :
    ∀ a b, matOf (wAfter d us w0 ru rw n) a b = matOf (wAfter d us w0 ru rw n) b a := by
  induction n with
  | zero => exact hsym0
  | succ n ih =>
    intro a b
    rw [wAfter_succ, matOf_toRows, matOf_toRows]
    by_cases hab : a < d.K ∧ b < d.K
    · rw [if_pos hab, if_pos ⟨hab.2, hab.1⟩]
      exact wUpdate_symm d _ _ rw a b (ih a b) (hrsym a b)
    · rw [if_neg hab, if_neg (fun h => hab ⟨h.2, h.1⟩)]

/-- what `fit` returns when the memberships are supplied and the affinity is inferred: the affinity with which
the loop was left (either exit), divided by `C()` -/
theorem fit_supplied_u (d : Data) (us : List (List Rat)) (Dsup : Option ℕ) (u0 w0 : List (List Rat))
    (ru rw : Mat) (sqrtC : Rat) (stop : Option Stop) (n D : ℕ) (p : Params)
    (h : fit d (some us) none Dsup u0 w0 ru rw sqrtC stop n = some (D, p)) :
    fitMaxSize d Dsup = some D ∧
    p.w = toRows d.K d.K fun a b =>
      matOf (emRun d true false ru rw stop n { u := us, w := w0 }).p.w a b / C (dims 2 D) := by
  unfold fit at h
  split at h
  · simp at h
  · rename_i D' hD'
    split at h
    · simp only [Option.some.injEq, Prod.mk.injEq] at h
      obtain ⟨rfl, hp⟩ := h
      refine ⟨hD', ?_⟩
      rw [← hp]
      simp [finish, fitRun]
    · simp at h

theorem loop_ascent_step (d : Data) (us w0 : List (List Rat)) (ru rw : Mat)
    (hu : ∀ i a, 0 ≤ matOf us i a) (hw0 : ∀ a b, 0 ≤ matOf w0 a b) (hA : ∀ e < d.E, 0 < d.A e)
    (hr : ∀ a b, 0 ≤ rw a b)
    (hlam : ∀ e < d.E, 0 < poisson d.N d.K (matOf us) (matOf w0) (d.edge e)) (m m' : ℕ) (h : m' = m ∨ m' = m + 1) :
    penLik d (matOf us) rw (matOf (wAfter d us w0 ru rw m))
      ≤ penLik d (matOf us) rw (matOf (wAfter d us w0 ru rw m')) := by
  rcases h with rfl | rfl
  · exact le_refl _
  · exact loop_ascent d us w0 ru rw hu hw0 hA hr hlam m

/-- **the property's statement for `fit`**: memberships supplied ⇒ the exact (penalised) Poisson
log-likelihood of the data under the returned affinity does not decrease from `n_iter = n` to `n + 1`,
with or without the stopping rule -/
theorem fit_ascent (d : Data) (us u0 w0 : List (List Rat)) (Dsup : Option ℕ) (ru rw : Mat) (sqrtC : Rat)
    (stop : Option Stop)
    (hu : ∀ i a, 0 ≤ matOf us i a) (hw0 : ∀ a b, 0 ≤ matOf w0 a b) (hA : ∀ e < d.E, 0 < d.A e)
    (hr : ∀ a b, 0 ≤ rw a b)
    (hlam : ∀ e < d.E, 0 < poisson d.N d.K (matOf us) (matOf w0) (d.edge e))
    (hsym0 : ∀ a b, matOf w0 a b = matOf w0 b a) (hrsym : ∀ a b, rw a b = rw b a)
    (hsize : ∀ e < d.E, 2 ≤ (d.edge e).length ∧ (d.edge e).length ≤ d.N)
    (n D D' : ℕ) (p p' : Params)
    (h1 : fit d (some us) none Dsup u0 w0 ru rw sqrtC stop n = some (D, p))
    (h2 : fit d (some us) none Dsup u0 w0 ru rw sqrtC stop (n + 1) = some (D', p'))
    (hD2 : 2 ≤ D) (hDN : D ≤ d.N) :
    D' = D ∧ exactLik d D (matOf us) rw (matOf p.w) ≤ exactLik d D (matOf us) rw (matOf p'.w) := by
  obtain ⟨hm1, hp1⟩ := fit_supplied_u d us Dsup u0 w0 ru rw sqrtC stop n D p h1
  obtain ⟨hm2, hp2⟩ := fit_supplied_u d us Dsup u0 w0 ru rw sqrtC stop (n + 1) D' p' h2
  have hDD : D' = D := by rw [hm1] at hm2; exact (Option.some.inj hm2).symm
  subst hDD
  refine ⟨rfl, ?_⟩
  have step : ∀ m, exactLik d D' (matOf us) rw
        (matOf (toRows d.K d.K fun a b => matOf (wAfter d us w0 ru rw m) a b / C (dims 2 D')))
      = penLik d (matOf us) rw (matOf (wAfter d us w0 ru rw m))
        - ∑ e ∈ range d.E, ((d.A e : ℚ) : ℝ) *
            Real.log (((C (dims 2 D') * kappa d.N (d.edge e).length : ℚ)) : ℝ) := by
    intro m
    rw [exactLik_congr d D' (matOf us) rw _ (fun a b => matOf (wAfter d us w0 ru rw m) a b / C (dims 2 D'))
      (fun a ha b hb => matOf_toRows_in _ _ _ a b ha hb)]
    exact exactLik_eq d D' (matOf us) rw _ (fun a _ b _ => loop_symm d us w0 ru rw hsym0 hrsym m a b) hD2 hDN hsize
      (loop_inv d us w0 ru rw hu hw0 hA hr hlam m).2
  -- the loop was left after `m` passes (n_iter = n) and after `m` or `m + 1` passes (n_iter = n + 1)
  obtain ⟨m, _, hm⟩ := emRun_iter d true false ru rw stop n { u := us, w := w0 }
  have hw1 : (emRun d true false ru rw stop n { u := us, w := w0 }).p.w = wAfter d us w0 ru rw m := by
    rw [hm]; rfl
  have hw2 : ∃ m', (m' = m ∨ m' = m + 1) ∧
      (emRun d true false ru rw stop (n + 1) { u := us, w := w0 }).p.w = wAfter d us w0 ru rw m' := by
    rcases emRun_succ d true false ru rw stop n { u := us, w := w0 } with h | h
    · exact ⟨m, Or.inl rfl, by rw [h, hw1]⟩
    · exact ⟨m + 1, Or.inr rfl, by rw [h, hm]; rfl⟩
  obtain ⟨m', hmm, hw2⟩ := hw2
  rw [hp1, hp2, hw1, hw2, step m, step m']
  have := loop_ascent_step d us w0 ru rw hu hw0 hA hr hlam m m' hmm
  linarith

end C15
