import Hgxv.Proofs.C02Abs
/-! C02 helper lemmas, part 8: every operation commutes with the abstraction (`abs (op s) = Spec.op (abs s)`). -/

namespace AL
variable {α β γ : Type} [DecidableEq α]

theorem set_of_not_mem (l : List (α × β)) (k : α) (v : β) (h : get? l k = none) : set l k v = l ++ [(k, v)] := by
  induction l with
  | nil => simp [set]
  | cons hd t ih => grind [set, get?]

/-- replacing the value of a present key in a table that is the graph of `g` over a duplicate-free key list -/
theorem set_keymap (l : List α) (g g' : α → β) (n : α) (hn : n ∈ l) (hnd : l.Nodup)
    (h1 : ∀ a, a ≠ n → g' a = g a) :
    set (l.map (fun a => (a, g a))) n (g' n) = l.map (fun a => (a, g' a)) := by
  induction l with
  | nil => cases hn
  | cons a t ih =>
    have hnd' := List.nodup_cons.mp hnd
    simp only [List.map_cons, set]
    by_cases h : a = n
    · subst h
      simp only [if_true]
      congr 1
      apply List.map_congr_left
      intro b hb
      have : b ≠ a := fun hc => hnd'.1 (hc ▸ hb)
      rw [h1 b this]
    · simp only [h, if_false]
      rw [h1 a h]
      congr 1
      exact ih (by rcases List.mem_cons.mp hn with hh | hh; exact absurd hh.symm h; exact hh) hnd'.2

theorem erase_keymap (l : List α) (g : α → β) (n : α) :
    erase (l.map (fun a => (a, g a))) n = (l.erase n).map (fun a => (a, g a)) := by
  induction l with
  | nil => simp [erase]
  | cons a t ih =>
    simp only [List.map_cons, erase, List.erase_cons]
    by_cases h : a = n
    · subst h; simp
    · have : (a == n) = false := by simp [h]
      simp [h, this, ih]

/-- replacing the value of a present key in `l.map (p.1, F p.2)` -/
theorem set_map_val (l : List (α × β)) (F : β → γ) (k : α) (v : γ) (hk : (get? l k).isSome) (hnd : (keys l).Nodup) :
    set (l.map (fun p => (p.1, F p.2))) k v = l.map (fun p => (p.1, if p.1 = k then v else F p.2)) := by
  induction l with
  | nil => simp [get?] at hk
  | cons hd t ih =>
    obtain ⟨a, b⟩ := hd
    simp only [keys, List.map_cons, List.nodup_cons] at hnd
    simp only [List.map_cons, set]
    by_cases h : a = k
    · subst h
      simp only [if_true]
      congr 1
      apply List.map_congr_left
      intro p hp
      have : p.1 ≠ a := fun hc => hnd.1 (List.mem_map.mpr ⟨p, hp, hc⟩)
      simp [this]
    · simp only [h, if_false]
      congr 1
      apply ih
      · simpa [get?, h] using hk
      · simpa [keys] using hnd.2

theorem erase_map_val (l : List (α × β)) (F : β → γ) (k : α) :
    erase (l.map (fun p => (p.1, F p.2))) k = (erase l k).map (fun p => (p.1, F p.2)) := by
  induction l with
  | nil => simp [erase]
  | cons hd t ih =>
    obtain ⟨a, b⟩ := hd
    simp only [List.map_cons, erase]
    split <;> simp [ih]

theorem mem_erase_of (l : List (α × β)) (k : α) (p : α × β) (h : p ∈ erase l k) : p ∈ l := by
  induction l with
  | nil => simp [erase] at h
  | cons hd t ih =>
    obtain ⟨a, b⟩ := hd
    simp only [erase] at h
    split at h
    · exact List.mem_cons_of_mem _ h
    · rcases List.mem_cons.mp h with h1 | h1
      · rw [h1]; exact List.mem_cons_self
      · exact List.mem_cons_of_mem _ (ih h1)

theorem fst_ne_of_mem_erase (l : List (α × β)) (k : α) (hnd : (keys l).Nodup) (p : α × β) (h : p ∈ erase l k) :
    p.1 ≠ k := by
  intro hc
  have : p.1 ∈ keys (erase l k) := List.mem_map.mpr ⟨p, h, rfl⟩
  rw [mem_keys_erase _ _ _ hnd] at this
  exact this.1 hc

end AL

namespace C02
open AL

theorem Spec.ext' (a b : Spec) (h1 : a.weighted = b.weighted) (h2 : a.nodes = b.nodes) (h3 : a.edges = b.edges)
    (h4 : a.hmeta = b.hmeta) : a = b := by
  cases a; cases b; simp_all

/-- the node part of the abstraction -/
def absNodes (adjS : Adj) (nmeta : List (Node × Meta)) : List (Node × Meta) :=
  (keys adjS).map (fun n => (n, (get? nmeta n).getD []))
/-- the hyperedge part of the abstraction -/
def absEdges (edgeList : List (Key × Nat)) (weights : List (Nat × Int)) (emeta : List (Nat × Meta)) :
    List (Key × (Int × Meta)) :=
  edgeList.map (fun p => (p.1, ((get? weights p.2).getD 0, (get? emeta p.2).getD [])))

theorem abs_nodes_eq (s : Store) : (abs s).nodes = absNodes s.adjS s.nmeta := rfl
theorem abs_edges_eq (s : Store) : (abs s).edges = absEdges s.edgeList s.weights s.emeta := rfl

/-- node tables in step: the part of the invariant that add_node needs and maintains -/
structure NodeInv (s : Store) : Prop where
  nmeta_same : ∀ n, (get? s.nmeta n).isSome = (get? s.adjS n).isSome
  nd_adjS : (keys s.adjS).Nodup

theorem Inv.nodeInv {s : Store} (h : Inv s) : NodeInv s := ⟨h.nmeta_same, h.nd_adjS⟩

/-! ### add_node -/

theorem absNodes_addNode (s : Store) (n : Node) (md : Option Meta) (h : NodeInv s) :
    absNodes (addNode s n md).adjS (addNode s n md).nmeta = (Spec.addNode (abs s) n md).nodes := by
  unfold Spec.addNode
  rw [abs_get_node]
  cases hS : get? s.adjS n with
  | none =>
    have hnk : n ∉ keys s.adjS := (get?_eq_none_iff _ _).mp hS
    have hN : get? s.nmeta n = none := by
      have := h.nmeta_same n; rw [hS] at this; cases hq : get? s.nmeta n <;> simp_all
    have e1 : (addNode s n md).adjS = AL.set s.adjS n [] := by
      simp [addNode, ensureNode, has, hS]
    have e2 : (addNode s n md).nmeta = AL.set (AL.set s.nmeta n []) n (md.getD []) := by
      simp [addNode, ensureNode, has, hS]
    simp only [hnk, if_false]
    rw [e1, e2]
    have hget : get? (abs s).nodes n = none := by rw [abs_get_node]; simp [hnk]
    show absNodes _ _ = AL.set (abs s).nodes n (md.getD [])
    rw [set_of_not_mem _ _ _ hget, abs_nodes_eq]
    unfold absNodes
    rw [keys_set_of_not_mem _ _ _ hS, List.map_append]
    congr 1
    · apply List.map_congr_left
      intro m hm
      have : n ≠ m := fun hc => hnk (hc ▸ hm)
      simp [get?_set, this]
    · simp
  | some ids =>
    have hnk : n ∈ keys s.adjS := (isSome_get?_iff _ _).mp (by simp [hS])
    have hN : (get? s.nmeta n).isSome := by rw [h.nmeta_same, hS]; rfl
    obtain ⟨x, hx⟩ := Option.isSome_iff_exists.mp hN
    have e0 : ensureNode s n = s := by simp [ensureNode, has, hS]
    simp only [hnk, if_true, hx, Option.getD_some]
    cases x with
    | nil =>
      have e1 : addNode s n md = { s with nmeta := AL.set s.nmeta n (md.getD []) } := by
        simp [addNode, e0, hx]
      rw [e1]
      simp only [absNodes, abs_nodes_eq]
      exact (set_keymap (keys s.adjS) (fun m => (get? s.nmeta m).getD [])
        (fun m => (get? (AL.set s.nmeta n (md.getD [])) m).getD []) n hnk h.nd_adjS
        (fun a ha => by simp [get?_set, Ne.symm ha])).symm.trans (by simp)
    | cons a t =>
      have e1 : addNode s n md = s := by simp [addNode, e0, hx]
      rw [e1]; rfl

theorem abs_addNode (s : Store) (n : Node) (md : Option Meta) (h : NodeInv s) :
    abs (addNode s n md) = Spec.addNode (abs s) n md := by
  obtain ⟨f1, f2, f3, f4, f5, f6, f7⟩ := addNode_fields s n md
  apply Spec.ext'
  · show (addNode s n md).weighted = _
    rw [f6]; unfold Spec.addNode; split <;> rfl
  · exact absNodes_addNode s n md h
  · show absEdges _ _ _ = _
    rw [f1, f3, f4]; unfold Spec.addNode; split <;> rfl
  · show (addNode s n md).hmeta = _
    rw [f7]; unfold Spec.addNode; split <;> rfl

theorem addNode_nodeInv (s : Store) (n : Node) (md : Option Meta) (h : NodeInv s) : NodeInv (addNode s n md) := by
  constructor
  · intro m
    rw [addNode_adjS, addNode_nmeta_isSome]
    have := h.nmeta_same m
    by_cases h1 : m = n
    · subst h1; cases hq : get? s.adjS m <;> simp_all
    · simp [h1, this]
  · have : (addNode s n md).adjS = (ensureNode s n).adjS := by unfold addNode; simp only []; split <;> rfl
    rw [this]; unfold ensureNode; split
    · exact h.nd_adjS
    · exact keys_set_nodup _ _ _ h.nd_adjS

theorem abs_addNodes (s : Store) (ns : List Node) (h : NodeInv s) :
    abs (addNodes s ns) = Spec.addNodes (abs s) ns := by
  induction ns generalizing s with
  | nil => rfl
  | cons n ns ih =>
    simp only [addNodes, Spec.addNodes]
    rw [ih _ (addNode_nodeInv s n none h), abs_addNode s n none h]

/-! ### updating one hyperedge record -/

theorem Inv.id_inj {s : Store} (h : Inv s) (p : Key × Nat) (hp : p ∈ s.edgeList) (k : Key) (id : Nat)
    (hk : get? s.edgeList k = some id) : p.1 = k ↔ p.2 = id := by
  have hg : get? s.edgeList p.1 = some p.2 := get?_of_mem _ _ _ h.nd_edge hp
  constructor
  · intro hc; rw [hc, hk] at hg; exact (Option.some.inj hg).symm
  · intro hc
    have h1 := h.rev_of_edge _ _ hg
    have h2 := h.rev_of_edge _ _ hk
    rw [hc, h2] at h1; exact (Option.some.inj h1).symm

theorem absEdges_update (s : Store) (h : Inv s) (k : Key) (id : Nat) (hk : get? s.edgeList k = some id)
    (W' : List (Nat × Int)) (M' : List (Nat × Meta))
    (hW : ∀ id', id' ≠ id → get? W' id' = get? s.weights id')
    (hM : ∀ id', id' ≠ id → get? M' id' = get? s.emeta id') :
    absEdges s.edgeList W' M' = AL.set (abs s).edges k ((get? W' id).getD 0, (get? M' id).getD []) := by
  rw [abs_edges_eq]
  unfold absEdges
  rw [set_map_val s.edgeList (fun i => ((get? s.weights i).getD 0, (get? s.emeta i).getD [])) k _
    (by simp [hk]) h.nd_edge]
  apply List.map_congr_left
  intro p hp
  by_cases hc : p.1 = k
  · have := (h.id_inj p hp k id hk).mp hc
    simp [hc, this]
  · have : p.2 ≠ id := fun hcc => hc ((h.id_inj p hp k id hk).mpr hcc)
    simp [hc, hW _ this, hM _ this]

/-! ### remove_edge -/

theorem unlink_keys (adj : Adj) (id : Nat) (ns : List Node) : keys (unlink adj id ns) = keys adj := by
  induction ns generalizing adj with
  | nil => rfl
  | cons n ns ih =>
    simp only [unlink]
    rw [ih]
    split
    · rename_i ids hh; exact keys_set_of_mem _ _ _ (by simp [hh])
    · rfl

theorem abs_removeEdgeKey (s : Store) (k : Key) (h : Inv s) :
    abs (removeEdgeKey s k).1 = (Spec.removeEdgeKey (abs s) k).1 ∧
    (removeEdgeKey s k).2 = (Spec.removeEdgeKey (abs s) k).2 := by
  unfold removeEdgeKey Spec.removeEdgeKey
  rw [abs_has_edge]
  cases hk : get? s.edgeList k with
  | none => simp [has, hk]
  | some id =>
    simp only [has, hk, Option.isSome_some, if_true, and_true]
    apply Spec.ext'
    · rfl
    · show absNodes (unlink s.adjS id k.1) s.nmeta = (abs s).nodes
      simp only [absNodes, unlink_keys]; rfl
    · show absEdges (AL.erase s.edgeList k) (AL.erase s.weights id) (AL.erase s.emeta id) = AL.erase (abs s).edges k
      rw [abs_edges_eq]
      unfold absEdges
      rw [erase_map_val s.edgeList (fun i => ((get? s.weights i).getD 0, (get? s.emeta i).getD [])) k]
      apply List.map_congr_left
      intro p hp
      have hp' := mem_erase_of _ _ _ hp
      have hne := fst_ne_of_mem_erase _ _ h.nd_edge p hp
      have : id ≠ p.2 := fun hcc => hne ((h.id_inj p hp' k id hk).mpr hcc.symm)
      simp [get?_erase_ne _ _ _ this]
    · rfl

theorem abs_removeEdge (s : Store) (e : RawEdge) (h : Inv s) :
    abs (removeEdge s e).1 = (Spec.removeEdge (abs s) e).1 ∧ (removeEdge s e).2 = (Spec.removeEdge (abs s) e).2 := by
  unfold removeEdge Spec.removeEdge
  cases canonStrict e with
  | none => exact ⟨rfl, rfl⟩
  | some k => exact abs_removeEdgeKey s k h

theorem abs_removeEdges (s : Store) (es : List RawEdge) (h : Inv s) :
    abs (removeEdges s es).1 = (Spec.removeEdges (abs s) es).1 ∧ (removeEdges s es).2 = (Spec.removeEdges (abs s) es).2 := by
  induction es generalizing s with
  | nil => exact ⟨rfl, rfl⟩
  | cons e es ih =>
    simp only [removeEdges, Spec.removeEdges]
    obtain ⟨h1, h2⟩ := abs_removeEdge s e h
    cases ho : (removeEdge s e).2 with
    | rej =>
      have ho' : (Spec.removeEdge (abs s) e).2 = .rej := h2 ▸ ho
      simp only [ho']; exact ⟨h1, ho⟩
    | ok =>
      have ho' : (Spec.removeEdge (abs s) e).2 = .ok := h2 ▸ ho
      simp only [ho']; rw [← h1]; exact ih _ (removeEdge_inv s e h)

/-! ### add_edge -/

theorem Spec.addNode_frame (sp : Spec) (n : Node) (md : Option Meta) :
    (Spec.addNode sp n md).weighted = sp.weighted ∧ (Spec.addNode sp n md).edges = sp.edges ∧
    (Spec.addNode sp n md).hmeta = sp.hmeta := by
  unfold Spec.addNode; split <;> simp

theorem Spec.touchAll_frame (sp : Spec) (ns : List Node) :
    (Spec.touchAll sp ns).weighted = sp.weighted ∧ (Spec.touchAll sp ns).edges = sp.edges ∧
    (Spec.touchAll sp ns).hmeta = sp.hmeta := by
  induction ns generalizing sp with
  | nil => simp [Spec.touchAll]
  | cons n ns ih =>
    simp only [Spec.touchAll]
    have h1 := ih (Spec.addNode sp n none)
    have h2 := Spec.addNode_frame sp n none
    exact ⟨h1.1.trans h2.1, h1.2.1.trans h2.2.1, h1.2.2.trans h2.2.2⟩

theorem Spec.addNode_nodes_congr (sp sp' : Spec) (n : Node) (md : Option Meta) (h : sp.nodes = sp'.nodes) :
    (Spec.addNode sp n md).nodes = (Spec.addNode sp' n md).nodes := by
  unfold Spec.addNode; rw [h]; split <;> simp [h]

theorem Spec.touchAll_nodes_congr (sp sp' : Spec) (ns : List Node) (h : sp.nodes = sp'.nodes) :
    (Spec.touchAll sp ns).nodes = (Spec.touchAll sp' ns).nodes := by
  induction ns generalizing sp sp' with
  | nil => exact h
  | cons n ns ih => exact ih _ _ (Spec.addNode_nodes_congr sp sp' n none h)

theorem Spec.touchAll_append (sp : Spec) (a b : List Node) :
    Spec.touchAll sp (a ++ b) = Spec.touchAll (Spec.touchAll sp a) b := by
  induction a generalizing sp with
  | nil => rfl
  | cons n ns ih => exact ih _

/-- one step of a linking loop, seen on the node part -/
theorem link_step_nodes (s : Store) (n : Node) (h : NodeInv s) (A : Adj) (hA : keys A = keys (addNode s n none).adjS) :
    absNodes A (addNode s n none).nmeta = (Spec.addNode (abs s) n none).nodes := by
  rw [← absNodes_addNode s n none h]; simp only [absNodes, hA]

theorem pushId_keys (adj : Adj) (n : Node) (id : Nat) (h : (get? adj n).isSome) : keys (pushId adj n id) = keys adj :=
  keys_set_of_mem _ _ _ h

theorem addNode_has (s : Store) (n : Node) (md : Option Meta) : (get? (addNode s n md).adjS n).isSome := by
  rw [addNode_adjS]; simp

theorem linkSrc_nodes (s : Store) (id : Nat) (ns : List Node) (h : NodeInv s) :
    NodeInv (linkSrc s id ns) ∧
    absNodes (linkSrc s id ns).adjS (linkSrc s id ns).nmeta = (Spec.touchAll (abs s) ns).nodes := by
  induction ns generalizing s with
  | nil => exact ⟨h, rfl⟩
  | cons n ns ih =>
    simp only [linkSrc, Spec.touchAll]
    have hk := pushId_keys (addNode s n none).adjS n id (addNode_has s n none)
    have hI : NodeInv { addNode s n none with adjS := pushId (addNode s n none).adjS n id } := by
      have h0 := addNode_nodeInv s n none h
      constructor
      · intro m
        show (get? (addNode s n none).nmeta m).isSome = (get? (pushId (addNode s n none).adjS n id) m).isSome
        rw [h0.nmeta_same, pushId_get]
        by_cases hm : m = n
        · subst hm; simp [addNode_has]
        · simp [hm]
      · show (keys (pushId _ n id)).Nodup
        rw [hk]; exact h0.nd_adjS
    obtain ⟨i1, i2⟩ := ih _ hI
    refine ⟨i1, i2.trans ?_⟩
    apply Spec.touchAll_nodes_congr
    exact link_step_nodes s n h _ hk

theorem linkTgt_nodes (s : Store) (id : Nat) (ns : List Node) (h : NodeInv s) :
    NodeInv (linkTgt s id ns) ∧
    absNodes (linkTgt s id ns).adjS (linkTgt s id ns).nmeta = (Spec.touchAll (abs s) ns).nodes := by
  induction ns generalizing s with
  | nil => exact ⟨h, rfl⟩
  | cons n ns ih =>
    simp only [linkTgt, Spec.touchAll]
    have hI : NodeInv { addNode s n none with adjT := pushId (addNode s n none).adjT n id } :=
      let h0 := addNode_nodeInv s n none h
      ⟨h0.nmeta_same, h0.nd_adjS⟩
    obtain ⟨i1, i2⟩ := ih _ hI
    refine ⟨i1, i2.trans ?_⟩
    apply Spec.touchAll_nodes_congr
    exact link_step_nodes s n h _ rfl

theorem addEdgeNew_nodes (s : Store) (k : Key) (wt : Int) (md : Meta) (h : NodeInv s) :
    absNodes (addEdgeNew s k wt md).adjS (addEdgeNew s k wt md).nmeta = (Spec.touchAll (abs s) (k.1 ++ k.2)).nodes := by
  rw [Spec.touchAll_append]
  let s1 : Store :=
    { s with edgeList := AL.set s.edgeList k s.nextId, rev := AL.set s.rev s.nextId k,
             weights := AL.set s.weights s.nextId (if s.weighted then wt else one), nextId := s.nextId + 1 }
  have e1 : (addEdgeNew s k wt md).adjS = (linkTgt (linkSrc s1 s.nextId k.1) s.nextId k.2).adjS := rfl
  have e2 : (addEdgeNew s k wt md).nmeta = (linkTgt (linkSrc s1 s.nextId k.1) s.nextId k.2).nmeta := rfl
  have b0 : NodeInv s1 := ⟨h.nmeta_same, h.nd_adjS⟩
  obtain ⟨i1, i2⟩ := linkSrc_nodes s1 s.nextId k.1 b0
  obtain ⟨_, j2⟩ := linkTgt_nodes _ s.nextId k.2 i1
  rw [e1, e2]
  refine j2.trans ?_
  apply Spec.touchAll_nodes_congr
  exact i2.trans (Spec.touchAll_nodes_congr _ _ _ rfl)

theorem abs_addEdgeKey (s : Store) (k : Key) (w : Option Int) (md : Option Meta) (h : Inv s) :
    abs (addEdgeKey s k w md).1 = (Spec.addEdgeKey (abs s) k w md).1 ∧
    (addEdgeKey s k w md).2 = (Spec.addEdgeKey (abs s) k w md).2 := by
  unfold addEdgeKey Spec.addEdgeKey
  have hw : (abs s).weighted = s.weighted := rfl
  rw [hw]
  split
  · exact ⟨rfl, rfl⟩
  · rw [abs_get_edge]
    cases hk : get? s.edgeList k with
    | none =>
      simp only [Option.map_none, and_true]
      obtain ⟨f1, f2, f3, f4, f5, f6, f7⟩ := addEdgeNew_fields s k (w.getD one) (md.getD [])
      obtain ⟨t1, t2, t3⟩ := Spec.touchAll_frame (abs s) (k.1 ++ k.2)
      apply Spec.ext'
      · show (addEdgeNew s k (w.getD one) (md.getD [])).weighted = _
        rw [f6]; exact t1.symm
      · exact addEdgeNew_nodes s k _ _ h.nodeInv
      · show absEdges (addEdgeNew s k (w.getD one) (md.getD [])).edgeList (addEdgeNew s k (w.getD one) (md.getD [])).weights
            (addEdgeNew s k (w.getD one) (md.getD [])).emeta =
          AL.set (Spec.touchAll (abs s) (k.1 ++ k.2)).edges k _
        rw [f1, f3, f4, t2]
        have hget : get? (abs s).edges k = none := by rw [abs_get_edge, hk]; rfl
        rw [set_of_not_mem _ _ _ hget, set_of_not_mem _ _ _ hk, abs_edges_eq]
        unfold absEdges
        rw [List.map_append]
        congr 1
        · apply List.map_congr_left
          intro p hp
          have hg : get? s.edgeList p.1 = some p.2 := get?_of_mem _ _ _ h.nd_edge hp
          have := h.id_lt _ _ (h.rev_of_edge _ _ hg)
          have hne : s.nextId ≠ p.2 := by omega
          simp [get?_set_ne _ _ _ _ hne]
        · simp
      · show (addEdgeNew s k (w.getD one) (md.getD [])).hmeta = _
        rw [f7]; exact t3.symm
    | some id =>
      simp only [Option.map_some, and_true]
      obtain ⟨w0, hw0⟩ := Option.isSome_iff_exists.mp (h.weights_of_edge k id hk)
      apply Spec.ext'
      · rfl
      · rfl
      · show absEdges s.edgeList (addEdgeOld s id (w.getD one) (md.getD [])).weights
          (addEdgeOld s id (w.getD one) (md.getD [])).emeta = _
        rw [absEdges_update s h k id hk]
        · simp only [addEdgeOld, hw0]
          by_cases hwt : s.weighted <;> simp [hwt, hw0]
        · intro id' hne
          simp only [addEdgeOld, hw0]
          by_cases hwt : s.weighted
          · simp [hwt, get?_set_ne _ _ _ _ (Ne.symm hne)]
          · simp [hwt]
        · intro id' hne
          simp only [addEdgeOld]
          exact get?_set_ne _ _ _ _ (Ne.symm hne)
      · rfl

theorem abs_addEdge (s : Store) (e : RawEdge) (w : Option Int) (md : Option Meta) (h : Inv s) :
    abs (addEdge s e w md).1 = (Spec.addEdge (abs s) e w md).1 ∧
    (addEdge s e w md).2 = (Spec.addEdge (abs s) e w md).2 :=
  abs_addEdgeKey s _ w md h

end C02
