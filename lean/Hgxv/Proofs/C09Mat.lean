import Hgxv.Proofs.C09
import Mathlib.Algebra.BigOperators.Group.List.Basic
import Mathlib.Algebra.Ring.Defs
import Mathlib.Tactic.Ring
import Mathlib.Data.Nat.Cast.Basic
import Mathlib.Algebra.CharZero.Defs
/-! Helper lemmas for C09, part 2: matrices over a commutative ring as lists of rows. -/
namespace C09

/-! ### entries of matrices given by maps -/
section entry
variable {β γ δ : Type}

theorem entry_map_map (l : List γ) (l' : List δ) (f : γ → δ → β) (i j : Nat)
    (hi : i < l.length) (hj : j < l'.length) :
    entry (l.map fun x => l'.map (f x)) i j = some (f l[i] l'[j]) := by
  simp [entry, hi, hj]

theorem entry_map_map_none (l : List γ) (l' : List δ) (f : γ → δ → β) (i j : Nat)
    (h : l.length ≤ i ∨ l'.length ≤ j) :
    entry (l.map fun x => l'.map (f x)) i j = none := by
  unfold entry
  by_cases hi : i < l.length
  · rcases h with h | h
    · omega
    · simp [hi, h]
  · simp [Nat.le_of_not_lt hi]

theorem entry_map_rows (M : List (List β)) (g : β → γ) (i j : Nat) :
    entry (M.map fun r => r.map g) i j = (entry M i j).map g := by
  unfold entry
  cases h : M[i]? <;> simp [h]

end entry

section ring
variable {R : Type} [CommRing R]

theorem entry_setDiag0 (M : List (List R)) (i j : Nat) :
    entry (setDiag0 M) i j = (entry M i j).map fun x => if i = j then 0 else x := by
  unfold entry setDiag0
  cases h : M[i]? with
  | none => simp [h]
  | some r =>
    cases h' : r[j]? <;> simp [h, h', List.getElem?_zipIdx]

theorem entry_subDiag (M : List (List R)) (i j : Nat) :
    entry (subDiag M) i j = (entry M i j).map fun x => if i = j then 0 else x := by
  unfold entry subDiag
  cases h : M[i]? with
  | none => simp [h]
  | some r =>
    cases h' : r[j]? <;> simp [h, h', List.getElem?_zipIdx]

theorem entry_matSub (A B : List (List R)) (i j : Nat) :
    entry (matSub A B) i j =
      (entry A i j).bind fun a => (entry B i j).map fun b => a - b := by
  unfold entry matSub
  cases hA : A[i]? with
  | none => simp [hA, List.getElem?_zipWith]
  | some r =>
    cases hB : B[i]? with
    | none =>
      simp only [List.getElem?_zipWith, hA, hB]
      cases r[j]? <;> simp
    | some s =>
      simp only [List.getElem?_zipWith, hA, hB]
      cases hr : r[j]? <;> cases hs : s[j]? <;> simp [List.getElem?_zipWith, hr, hs]

theorem entry_smul (c : R) (M : List (List R)) (i j : Nat) :
    entry (smul c M) i j = (entry M i j).map fun x => c * x := entry_map_rows M _ i j

theorem entry_diag (l : List R) (i j : Nat) (hi : i < l.length) (hj : j < l.length) :
    entry (diag l) i j = some (if i = j then l[i] else 0) := by
  unfold entry diag
  simp [hi, hj]

/-! ### sums -/

theorem ind_mul_ind (a b : Bool) : (ind a : R) * ind b = ind (a && b) := by
  cases a <;> cases b <;> simp [ind]

theorem dot_map {β : Type} (l : List β) (f g : β → R) :
    dot (l.map f) (l.map g) = (l.map fun e => f e * g e).sum := by
  unfold dot
  induction l with
  | nil => simp
  | cons a l ih => simp [List.zipWith_cons_cons]

theorem sum_map_ind {β : Type} (l : List β) (p : β → Bool) :
    (l.map fun e => (ind (p e) : R)).sum = ((l.countP p : Nat) : R) := by
  induction l with
  | nil => simp
  | cons a l ih =>
    simp only [List.map_cons, List.sum_cons, ih, List.countP_cons]
    cases p a <;> simp [ind, add_comm]

theorem zipWith_mul_map {β : Type} (l : List β) (f g : β → R) :
    List.zipWith (· * ·) (l.map f) (l.map g) = l.map fun e => f e * g e := by
  induction l with
  | nil => simp
  | cons a l ih => simp [List.zipWith_cons_cons]

theorem sum_map_sum_comm {β γ : Type} (l : List β) (l' : List γ) (f : β → γ → R) :
    (l.map fun x => (l'.map fun y => f x y).sum).sum = (l'.map fun y => (l.map fun x => f x y).sum).sum := by
  induction l with
  | nil => simp
  | cons a l ih => simp [ih, List.sum_map_add]

theorem sum_map_mul_left' {β : Type} (l : List β) (c : R) (f : β → R) :
    (l.map fun x => c * f x).sum = c * (l.map f).sum := by
  induction l with
  | nil => simp
  | cons a l ih => simp [ih, mul_add]

theorem sum_zipWith_sub (l1 l2 : List R) (h : l1.length = l2.length) :
    (List.zipWith (· - ·) l1 l2).sum = l1.sum - l2.sum := by
  induction l1 generalizing l2 with
  | nil => cases l2 <;> simp_all
  | cons a l1 ih =>
    cases l2 with
    | nil => simp at h
    | cons b l2 =>
      simp only [List.zipWith_cons_cons, List.sum_cons, ih l2 (by simpa using h)]
      ring

theorem sum_range_ite (n i : Nat) (hi : i < n) (x : R) :
    ((List.range n).map fun j => if i = j then x else 0).sum = x := by
  induction n with
  | zero => omega
  | succ n ih =>
    rw [List.range_succ, List.map_append, List.sum_append]
    by_cases h : i = n
    · subst h
      have : ((List.range i).map fun j => if i = j then x else 0) = (List.range i).map fun _ => (0 : R) := by
        apply List.map_congr_left
        intro j hj
        have := List.mem_range.1 hj
        simp; omega
      simp [this]
    · simp [ih (by omega), h]

/-! ### the counting lemma behind the zero row sums -/

theorem countP_mem_of_subset (cls e : List Nat) (hc : cls.Nodup) (he : e.Nodup) (hsub : ∀ x ∈ e, x ∈ cls) :
    cls.countP (fun x => decide (x ∈ e)) = e.length := by
  rw [List.countP_eq_length_filter]
  apply List.Perm.length_eq
  apply (List.perm_ext_iff_of_nodup (hc.filter _) he).2
  intro a
  simp only [List.mem_filter, decide_eq_true_eq]
  exact ⟨fun h => h.2, fun h => ⟨hsub a h, h⟩⟩

end ring
end C09
