import Hgxv.Proofs.C03Inv
import Hgxv.Proofs.C03Agg
/-! Consequences of the invariant used by the property theorems of C03 (core Lean only). -/
namespace C03
open AL

theorem mem_edgeKeys (s : Store) (k : Key) : k ∈ edgeKeys s ↔ ∃ id, get? s.edgeList k = some id := by
  unfold edgeKeys
  rw [mem_keys_iff]; exact Option.isSome_iff_exists

theorem weightOfKey_isSome (s : Store) (h : Inv s) (k : Key) (hk : k ∈ edgeKeys s) : (weightOfKey s k).isSome := by
  obtain ⟨id, hid⟩ := (mem_edgeKeys s k).mp hk
  have := (h.wKeys id).mpr (by simp [h.rev_of_edge k id hid])
  simp [weightOfKey, hid, this]

theorem metaOfKey_isSome (s : Store) (h : Inv s) (k : Key) (hk : k ∈ edgeKeys s) : (metaOfKey s k).isSome := by
  obtain ⟨id, hid⟩ := (mem_edgeKeys s k).mp hk
  have := (h.mKeys id).mpr (by simp [h.rev_of_edge k id hid])
  simp [metaOfKey, hid, this]

theorem keysOK_of_inv (s : Store) (h : Inv s) : KeysOK s := by
  refine ⟨h.keysNodup, ?_, weightOfKey_isSome s h, metaOfKey_isSome s h, ?_⟩
  · intro k hk
    obtain ⟨id, hid⟩ := (mem_edgeKeys s k).mp hk
    exact canon_of_sorted _ (h.keyCanon k id hid).1
  · intro hu k hk
    obtain ⟨id, hid⟩ := (mem_edgeKeys s k).mp hk
    obtain ⟨w, hw⟩ := Option.isSome_iff_exists.mp (weightOfKey_isSome s h k hk)
    rw [hw]
    simp only [weightOfKey, hid, Option.bind_some] at hw
    rw [h.unw hu id w hw]

theorem nodesOK_of_inv (s : Store) (h : Inv s) : NodesOK s := by
  refine ⟨h.nt.nmetaNodup, ?_⟩
  intro k hk n hn
  obtain ⟨id, hid⟩ := (mem_edgeKeys s k).mp hk
  exact (h.nt.same n).mp (h.nodes_in k id hid n hn)

/-! ### rejected calls are no-ops -/
theorem applyOp_rej (s : Store) (o : SOp) : (applyOp s o).2 = .rej → (applyOp s o).1 = s := by
  cases o with
  | addNode n md => simp [applyOp]
  | addNodes ns mds =>
    simp only [applyOp, addNodes]
    cases mds with
    | none => simp
    | some d => simp only []; split <;> simp
  | addEdge raw t w md =>
    simp only [applyOp, addEdge]
    cases t with
    | bad => simp
    | int i => simp only []; split <;> (try simp); split <;> simp
  | addEdges raws ts ws mds => simp only [applyOp, addEdges]; split <;> simp
  | removeEdge raw t =>
    simp only [applyOp, removeEdge]
    cases mkKey raw t with
    | none => simp
    | some k => simp only [removeKey]; split <;> simp
  | removeEdges recs =>
    simp only [applyOp, removeEdges]
    cases List.mapM (fun r => mkKey r.2 r.1) recs with
    | none => simp
    | some ks => simp only []; split <;> simp
  | removeNode n keep =>
    simp only [applyOp, removeNode]
    cases get? s.adj n with
    | none => simp
    | some ids => simp
  | removeNodes ns keep => simp only [applyOp, removeNodes]; split <;> simp
  | setWeight raw t w =>
    simp only [applyOp, setWeight]
    split
    · simp
    · cases idOf s raw t <;> simp
  | setNodeMeta n md => simp only [applyOp, setNodeMeta]; split <;> simp
  | setEdgeMeta raw t md => simp only [applyOp, setEdgeMeta]; cases idOf s raw t <;> simp
  | setHMeta md => simp [applyOp, setHMeta]
  | attrH k v => simp [applyOp, attrH]
  | attrNode n k v => simp only [applyOp, attrNode]; cases get? s.nmeta n <;> simp
  | attrEdge raw t k v => simp only [applyOp, attrEdge]; cases idOf s raw t <;> simp
  | delAttrNode n k =>
    simp only [applyOp, delAttrNode]
    cases get? s.nmeta n with
    | none => simp
    | some md => simp only []; split <;> simp
  | delAttrEdge raw t k =>
    simp only [applyOp, delAttrEdge]
    cases idOf s raw t with
    | none => simp
    | some id => simp only []; split <;> simp
  | clear => simp [applyOp]

/-! ### time validation -/
theorem validTime_none_iff (t : TimeArg) : validTime t = none ↔ (t = .bad ∨ ∃ i, t = .int i ∧ i < 0) := by
  cases t with
  | bad => simp [validTime]
  | int i =>
    simp only [validTime]
    by_cases h : 0 ≤ i
    · simp [h]
    · simp [h]; omega

theorem addEdge_bad_time (s : Store) (raw : List Nat) (t : TimeArg) (w : Option Int) (md : Option Meta)
    (ht : validTime t = none) : addEdge s raw t w md = (s, .rej) := by
  rcases (validTime_none_iff t).mp ht with h | ⟨i, h, hi⟩
  · subst h; rfl
  · subst h
    simp only [addEdge]
    split
    · rfl
    · simp [hi]

theorem addEdges_bad_time (s : Store) (raws : List (List Nat)) (ts : List TimeArg) (ws : Option (List Int))
    (mds : Option (List Meta)) (t : TimeArg) (hmem : t ∈ ts) (ht : validTime t = none) :
    addEdges s raws ts ws mds = (s, .rej) := by
  have : addEdgesOk raws ts ws mds = false := by
    simp only [addEdgesOk, Bool.and_eq_false_iff]
    right
    apply Bool.eq_false_iff.mpr
    intro hall
    have := List.all_eq_true.mp hall t hmem
    simp [ht] at this
  simp [addEdges, this]

/-! ### the order in which the nodes of a hyperedge are listed is irrelevant -/
theorem mkKey_perm (r1 r2 : List Nat) (t : TimeArg) (h : r1.Perm r2) : mkKey r1 t = mkKey r2 t := by
  simp [mkKey, canon_eq_of_perm r1 r2 h]

theorem addEdge_perm (s : Store) (r1 r2 : List Nat) (h : r1.Perm r2) (t : TimeArg) (w : Option Int) (md : Option Meta) :
    addEdge s r1 t w md = addEdge s r2 t w md := by
  simp [addEdge, canon_eq_of_perm r1 r2 h]

theorem removeEdge_perm (s : Store) (r1 r2 : List Nat) (h : r1.Perm r2) (t : TimeArg) :
    removeEdge s r1 t = removeEdge s r2 t := by
  simp [removeEdge, mkKey_perm r1 r2 t h]

theorem idOf_perm (s : Store) (r1 r2 : List Nat) (h : r1.Perm r2) (t : TimeArg) : idOf s r1 t = idOf s r2 t := by
  simp [idOf, mkKey_perm r1 r2 t h]

/-! ### adjacency: every record is incident exactly once to each of its nodes -/
theorem filterMap_rev_ids (s : Store) (h : Inv s) (l : List (Key × Nat)) (hl : ∀ p ∈ l, p ∈ s.edgeList) :
    (l.map (·.2)).filterMap (get? s.rev) = l.map (·.1) := by
  induction l with
  | nil => rfl
  | cons p l ih =>
    obtain ⟨k, id⟩ := p
    have hg := get?_of_mem _ _ _ h.keysNodup (hl (k, id) (by simp))
    have hr := h.rev_of_edge k id hg
    simp only [List.map_cons, List.filterMap_cons, hr]
    rw [ih (fun p hp => hl p (by simp [hp]))]

/-- `get_incident_edges(node)` lists exactly the records containing the node, in creation order, each once -/
theorem incident_eq (s : Store) (h : Inv s) (n : Node) (hn : (get? s.adj n).isSome) :
    incident s n none none = some ((edgeKeys s).filter (fun k => k.2.contains n)) := by
  obtain ⟨ids, hids⟩ := Option.isSome_iff_exists.mp hn
  have hc := h.adj_char n ids hids
  simp only [incident, V.incident, view, hids, effOrder, Option.map_some]
  simp only [Option.isSome_none, Bool.false_eq_true, Bool.and_self, if_false]
  rw [hc, filterMap_rev_ids s h _ (fun p hp => (List.mem_filter.mp hp).1)]
  simp only [edgeKeys, keys]
  rw [List.filter_map]
  rfl

end C03

namespace AL
variable {α β : Type} [DecidableEq α]
theorem set_same (l : List (α × β)) (k : α) (v : β) (h : get? l k = some v) : set l k v = l := by
  induction l with
  | nil => simp at h
  | cons hd t ih => grind [set, get?]
end AL

namespace C03
open AL

/-- a store produced by some finite history of well-formed public calls (any slot, after any prefix) -/
def Reachable (s : Store) : Prop :=
  ∃ ops : List Op, (∀ op ∈ ops, op.WF) ∧ ∃ i, get? (run [] ops) i = some s

theorem reachable_inv {s : Store} (h : Reachable s) : Inv s := by
  obtain ⟨ops, hwf, i, hi⟩ := h
  exact run_inv ops hwf [] (by intro p hp; cases hp) (i, s) (mem_of_get? _ _ _ hi)

theorem step_rej (st : State) (i : Nat) (o : SOp) (hr : (step st (.on i o)).2 = .out .rej) :
    (step st (.on i o)).1 = st := by
  simp only [step] at *
  cases hg : get? st i with
  | none => rfl
  | some s =>
    rw [hg] at hr
    simp only [] at *
    have : (applyOp s o).2 = .rej := by simpa using hr
    rw [applyOp_rej s o this]; exact set_same st i s hg

/-- re-inserting an existing record: weights add when weighted, stay when unweighted; the key set is unchanged -/
theorem addEdge_existing (s : Store) (raw : List Nat) (t : Nat) (w : Option Int) (md : Option Meta) (id : Nat)
    (hget : get? s.edgeList (t, canon raw) = some id) (hok : s.weighted = true ∨ w = none ∨ w = some one) :
    (addEdge s raw (.int t) w md).2 = .ok ∧
    (addEdge s raw (.int t) w md).1.edgeList = s.edgeList ∧
    (addEdge s raw (.int t) w md).1.weights =
      (if s.weighted then AL.set s.weights id (((get? s.weights id).getD 0) + w.getD one) else s.weights) ∧
    (addEdge s raw (.int t) w md).1.emeta = AL.set s.emeta id (md.getD []) := by
  have hrej : (!s.weighted && w.isSome && w != some one) = false := by
    rcases hok with h | h | h
    · simp [h]
    · simp [h]
    · simp [h]
  have hneg : ¬ ((t : Int) < 0) := by omega
  simp only [addEdge, hrej, hneg, if_false, Int.toNat_natCast, addEdgeKey, hget, addEdgeOld]
  have hf := touchNodes_fields { s with weights := if s.weighted = true then AL.set s.weights id ((get? s.weights id).getD 0 + w.getD one) else s.weights, emeta := AL.set s.emeta id (md.getD []) } (canon raw)
  exact ⟨by simp, hf.1, hf.2.2.1, hf.2.2.2.1⟩

/-- a concrete history used by the non-vacuity examples: insertions at several times, a re-insertion in permuted
order, a removal, a shrink-merge through `remove_node(keep_edges=True)`, a rejected call and a copy -/
def demoOps : List Op := [
  .new 0 true,
  .on 0 (.addEdge [2, 1] (.int 0) (some 6) (some [(0, 1)])),
  .on 0 (.addEdge [1, 2] (.int 0) (some 2) none),
  .on 0 (.addEdge [1, 2, 3] (.int 3) none none),
  .on 0 (.addEdge [1, 2] (.int 3) (some 8) none),
  .on 0 (.addEdge [4] (.int 5) (some 4) none),
  .on 0 (.addEdge [1] (.int (-1)) none none),
  .on 0 (.addEdge [1] .bad none none),
  .copy 0 1,
  .on 0 (.removeEdge [4] (.int 5)),
  .on 0 (.removeNode 3 true),
  .on 0 (.addEdges [[5, 1], [2, 3]] [.int 4, .int 5] (some [4, 2]) none),
  .query 0 (.agg (.int 2))]

def demoStore : Store := (get? (run [] demoOps) 0).getD (Store.new false)

end C03
