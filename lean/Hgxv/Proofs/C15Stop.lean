import Hgxv.Proofs.C15Loop
import Mathlib.Analysis.Real.Sqrt
/-! # C15 — the training loop of `fit` with the stopping rule (`tolerance`, `check_convergence_every`)

`loopFrom` is the loop as the code runs it (loop variable, `old` parameters, `break`).  Here: whatever the loop
body `step` is, the loop leaves with the state after `it + 1` passes of the body, `it` being the first index
at which the `break` test holds (or the last index), and one more allowed iteration changes the result by at
most one more pass. -/
open Finset
namespace C15

/-- `m` passes of a loop body -/
def iter (step : Params → Params) : ℕ → Params → Params
  | 0, p => p
  | m + 1, p => step (iter step m p)

theorem iter_succ' (step : Params → Params) (m : ℕ) (p : Params) :
    iter step (m + 1) p = iter step m (step p) := by
  induction m with
  | zero => rfl
  | succ m ih => rw [iter, ih]; rfl

theorem emLoop_eq_iter (d : Data) (fu fw : Bool) (ru rw : Mat) (n : ℕ) (p : Params) :
    emLoop d fu fw ru rw n p = iter (emStep d fu fw ru rw) n p := by
  induction n with
  | zero => rfl
  | succ n ih => rw [emLoop, iter, ih]

/-- the `break` test of iteration `it` never fires at `it = 0`, so there `old` is not read -/
theorem stopNow_old (d : Data) (stop : Option Stop) (it : ℕ) (p old old' : Params) (h : 0 < it → old = old') :
    stopNow d stop it p old = stopNow d stop it p old' := by
  by_cases hit : 0 < it
  · rw [h hit]
  · have h0 : it = 0 := by omega
    subst h0
    cases stop <;> simp [stopNow, checkAt]

theorem stopNow_none (d : Data) (it : ℕ) (p old : Params) : stopNow d none it p old = false := rfl

theorem loopFrom_zero (d : Data) (step : Params → Params) (stop : Option Stop) (it : ℕ) (p old : Params) :
    loopFrom d step stop 0 it p old = { p := p, it := it - 1, reached := false } := rfl

theorem loopFrom_break (d : Data) (step : Params → Params) (stop : Option Stop) (k it : ℕ) (p old : Params)
    (h : stopNow d stop it (step p) old = true) :
    loopFrom d step stop (k + 1) it p old = { p := step p, it := it, reached := true } := by
  rw [loopFrom]; simp only [h, if_true]

theorem loopFrom_continue (d : Data) (step : Params → Params) (stop : Option Stop) (k it : ℕ) (p old : Params)
    (h : stopNow d stop it (step p) old = false) :
    loopFrom d step stop (k + 1) it p old = loopFrom d step stop k (it + 1) (step p) (step p) := by
  rw [loopFrom]; simp only [h, Bool.false_eq_true, if_false]

/-- **the loop, both exits.**  Started at index `it` with `k + 1` iterations allowed (`old` = the current
parameters unless `it = 0`), the loop is left at an index `it + j`, `j ≤ k`; the parameters are those after
`j + 1` passes; the `break` test failed at all earlier indices; `reached` is the value of the test at `it + j`;
and without `break` all `k + 1` iterations were made. -/
theorem loopFrom_spec (d : Data) (step : Params → Params) (stop : Option Stop) (k : ℕ) :
    ∀ (it : ℕ) (p old : Params), (0 < it → old = p) →
    ∃ j, j ≤ k ∧ (loopFrom d step stop (k + 1) it p old).it = it + j ∧
      (loopFrom d step stop (k + 1) it p old).p = iter step (j + 1) p ∧
      (∀ i < j, stopNow d stop (it + i) (iter step (i + 1) p) (iter step i p) = false) ∧
      (loopFrom d step stop (k + 1) it p old).reached
        = stopNow d stop (it + j) (iter step (j + 1) p) (iter step j p) ∧
      ((loopFrom d step stop (k + 1) it p old).reached = false → j = k) := by
  induction k with
  | zero =>
    intro it p old hold
    refine ⟨0, le_refl 0, ?_⟩
    have hs := stopNow_old d stop it (step p) old p hold
    by_cases hc : stopNow d stop it (step p) old = true
    · rw [loopFrom_break d step stop 0 it p old hc]
      refine ⟨rfl, rfl, fun i hi => absurd hi (Nat.not_lt_zero i), ?_, fun h => rfl⟩
      show true = stopNow d stop (it + 0) (step p) p
      rw [Nat.add_zero, ← hs, hc]
    · have hc' : stopNow d stop it (step p) old = false := by simpa using hc
      rw [loopFrom_continue d step stop 0 it p old hc', loopFrom_zero]
      refine ⟨by simp, rfl, fun i hi => absurd hi (Nat.not_lt_zero i), ?_, fun _ => rfl⟩
      show false = stopNow d stop (it + 0) (step p) p
      rw [Nat.add_zero, ← hs, hc']
  | succ k ih =>
    intro it p old hold
    have hs := stopNow_old d stop it (step p) old p hold
    by_cases hc : stopNow d stop it (step p) old = true
    · refine ⟨0, Nat.zero_le _, ?_⟩
      rw [loopFrom_break d step stop (k + 1) it p old hc]
      refine ⟨rfl, rfl, fun i hi => absurd hi (Nat.not_lt_zero i), ?_, fun h => by simp at h⟩
      show true = stopNow d stop (it + 0) (step p) p
      rw [Nat.add_zero, ← hs, hc]
    · have hc' : stopNow d stop it (step p) old = false := by simpa using hc
      obtain ⟨j, hj, h1, h2, h3, h4, h5⟩ := ih (it + 1) (step p) (step p) (fun _ => rfl)
      refine ⟨j + 1, by omega, ?_⟩
      rw [loopFrom_continue d step stop (k + 1) it p old hc']
      refine ⟨by rw [h1]; omega, by rw [h2, ← iter_succ'], ?_, ?_, fun h => by rw [h5 h]⟩
      · intro i hi
        cases i with
        | zero =>
          show stopNow d stop (it + 0) (step p) p = false
          rw [Nat.add_zero, ← hs, hc']
        | succ i =>
          have := h3 i (by omega)
          rw [← iter_succ', ← iter_succ'] at this
          rw [show it + (i + 1) = it + 1 + i by omega]
          exact this
      · rw [h4, ← iter_succ', ← iter_succ', show it + (j + 1) = it + 1 + j by omega]

/-- one more allowed iteration: the same parameters (the loop had been left through `break`) or one more pass -/
theorem loopFrom_succ (d : Data) (step : Params → Params) (stop : Option Stop) (k : ℕ) :
    ∀ (it : ℕ) (p old : Params),
    (loopFrom d step stop (k + 1) it p old).p = (loopFrom d step stop k it p old).p ∨
    (loopFrom d step stop (k + 1) it p old).p = step (loopFrom d step stop k it p old).p := by
  induction k with
  | zero =>
    intro it p old
    right
    rw [loopFrom_zero]
    by_cases hc : stopNow d stop it (step p) old = true
    · rw [loopFrom_break d step stop 0 it p old hc]
    · have hc' : stopNow d stop it (step p) old = false := by simpa using hc
      rw [loopFrom_continue d step stop 0 it p old hc', loopFrom_zero]
  | succ k ih =>
    intro it p old
    by_cases hc : stopNow d stop it (step p) old = true
    · left
      rw [loopFrom_break d step stop (k + 1) it p old hc, loopFrom_break d step stop k it p old hc]
    · have hc' : stopNow d stop it (step p) old = false := by simpa using hc
      rw [loopFrom_continue d step stop (k + 1) it p old hc', loopFrom_continue d step stop k it p old hc']
      exact ih (it + 1) (step p) (step p)

/-- the parameters with which the loop is left are the state after some number `m ≤ k` of passes -/
theorem loopFrom_iter (d : Data) (step : Params → Params) (stop : Option Stop) (k : ℕ) (it : ℕ) (p old : Params)
    (hold : 0 < it → old = p) :
    ∃ m, m ≤ k ∧ (loopFrom d step stop k it p old).p = iter step m p := by
  cases k with
  | zero => exact ⟨0, le_refl 0, rfl⟩
  | succ k =>
    obtain ⟨j, hj, _, h2, _⟩ := loopFrom_spec d step stop k it p old hold
    exact ⟨j + 1, by omega, h2⟩

/-- `tolerance=None`: all `n` passes are made -/
theorem loopFrom_none (d : Data) (step : Params → Params) (k : ℕ) :
    ∀ (it : ℕ) (p old : Params), loopFrom d step none k it p old = { p := iter step k p, it := it + k - 1, reached := false } := by
  induction k with
  | zero => intro it p old; rfl
  | succ k ih =>
    intro it p old
    rw [loopFrom_continue d step none k it p old rfl, ih, ← iter_succ']
    congr 1
    omega

/-! ## the stopping test is the one of the code: `‖x − y‖_F / s < tol` -/

theorem sqDist_eq (n m : ℕ) (x y : List (List Rat)) :
    sqDist n m x y = ∑ i ∈ range n, ∑ a ∈ range m, (matOf x i a - matOf y i a) ^ 2 := by
  unfold sqDist
  rw [sumTo_eq]
  apply Finset.sum_congr rfl; intro i _
  rw [sumTo_eq]
  apply Finset.sum_congr rfl; intro a _
  ring

theorem sqDist_nonneg (n m : ℕ) (x y : List (List Rat)) : 0 ≤ sqDist n m x y := by
  rw [sqDist_eq]
  exact Finset.sum_nonneg fun i _ => Finset.sum_nonneg fun a _ => sq_nonneg _

theorem normLt_iff (n m : ℕ) (x y : List (List Rat)) (s : ℕ) (hs : 0 < s) (tol : ℚ) :
    normLt n m x y s tol = true ↔ Real.sqrt ((sqDist n m x y : ℚ) : ℝ) / (s : ℝ) < (tol : ℝ) := by
  have hsR : (0 : ℝ) < (s : ℝ) := by exact_mod_cast hs
  unfold normLt
  simp only [Bool.and_eq_true, decide_eq_true_eq]
  rw [div_lt_iff₀ hsR]
  constructor
  · rintro ⟨ht, hlt⟩
    have htR : (0 : ℝ) < (tol : ℝ) * (s : ℝ) := mul_pos (by exact_mod_cast ht) hsR
    rw [Real.sqrt_lt' htR]
    have : ((sqDist n m x y : ℚ) : ℝ) < (((tol * (s : ℚ)) * (tol * (s : ℚ)) : ℚ) : ℝ) := by exact_mod_cast hlt
    push_cast at this
    nlinarith [this]
  · intro h
    have h0 : (0 : ℝ) ≤ Real.sqrt ((sqDist n m x y : ℚ) : ℝ) := Real.sqrt_nonneg _
    have htR : (0 : ℝ) < (tol : ℝ) := by
      by_contra hneg
      have : (tol : ℝ) * (s : ℝ) ≤ 0 := mul_nonpos_of_nonpos_of_nonneg (not_lt.mp hneg) hsR.le
      linarith
    have hpos : (0 : ℝ) < (tol : ℝ) * (s : ℝ) := mul_pos htR hsR
    rw [Real.sqrt_lt' hpos] at h
    refine ⟨by exact_mod_cast htR, ?_⟩
    have h' : ((sqDist n m x y : ℚ) : ℝ) < (((tol * (s : ℚ)) * (tol * (s : ℚ)) : ℚ) : ℝ) := by
      push_cast; nlinarith [h]
    exact_mod_cast h'

/-! ## `fit` -/

theorem emRun_iter (d : Data) (fu fw : Bool) (ru rw : Mat) (stop : Option Stop) (n : ℕ) (p0 : Params) :
    ∃ m, m ≤ n ∧ (emRun d fu fw ru rw stop n p0).p = emLoop d fu fw ru rw m p0 := by
  obtain ⟨m, hm, h⟩ := loopFrom_iter d (emStep d fu fw ru rw) stop n 0 p0 p0 (fun _ => rfl)
  exact ⟨m, hm, by rw [emLoop_eq_iter]; exact h⟩

theorem emRun_none (d : Data) (fu fw : Bool) (ru rw : Mat) (n : ℕ) (p0 : Params) :
    emRun d fu fw ru rw none n p0 = { p := emLoop d fu fw ru rw n p0, it := n - 1, reached := false } := by
  unfold emRun
  rw [loopFrom_none, emLoop_eq_iter]
  simp

theorem emRun_succ (d : Data) (fu fw : Bool) (ru rw : Mat) (stop : Option Stop) (n : ℕ) (p0 : Params) :
    (emRun d fu fw ru rw stop (n + 1) p0).p = (emRun d fu fw ru rw stop n p0).p ∨
    (emRun d fu fw ru rw stop (n + 1) p0).p = emStep d fu fw ru rw (emRun d fu fw ru rw stop n p0).p :=
  loopFrom_succ d (emStep d fu fw ru rw) stop n 0 p0 p0

/-- once the loop has been left through `break`, a larger `n_iter` changes nothing -/
theorem loopFrom_reached_succ (d : Data) (step : Params → Params) (stop : Option Stop) (k : ℕ) :
    ∀ (it : ℕ) (p old : Params), (loopFrom d step stop k it p old).reached = true →
    loopFrom d step stop (k + 1) it p old = loopFrom d step stop k it p old := by
  induction k with
  | zero => intro it p old h; simp [loopFrom_zero] at h
  | succ k ih =>
    intro it p old h
    by_cases hc : stopNow d stop it (step p) old = true
    · rw [loopFrom_break d step stop (k + 1) it p old hc, loopFrom_break d step stop k it p old hc]
    · have hc' : stopNow d stop it (step p) old = false := by simpa using hc
      rw [loopFrom_continue d step stop k it p old hc'] at h
      rw [loopFrom_continue d step stop (k + 1) it p old hc', loopFrom_continue d step stop k it p old hc']
      exact ih (it + 1) (step p) (step p) h

/-- the state of the model object after `m` passes of the loop body of
`HyMMSBM(u=uSup, w=wSup, ..).fit(..)`, the initial draws being `u0`, `w0` -/
def fitState (d : Data) (uSup wSup : Option (List (List Rat))) (u0 w0 : List (List Rat)) (ru rw : Mat) (m : ℕ) : Params :=
  emLoop d uSup.isSome wSup.isSome ru rw m { u := uSup.getD u0, w := wSup.getD w0 }

theorem fitRun_spec (d : Data) (uSup wSup : Option (List (List Rat))) (u0 w0 : List (List Rat)) (ru rw : Mat)
    (stop : Option Stop) (n : ℕ) (hn : 1 ≤ n) :
    (fitRun d uSup wSup u0 w0 ru rw stop n).it < n ∧
    (fitRun d uSup wSup u0 w0 ru rw stop n).p
      = fitState d uSup wSup u0 w0 ru rw ((fitRun d uSup wSup u0 w0 ru rw stop n).it + 1) ∧
    (∀ i < (fitRun d uSup wSup u0 w0 ru rw stop n).it,
      stopNow d stop i (fitState d uSup wSup u0 w0 ru rw (i + 1)) (fitState d uSup wSup u0 w0 ru rw i) = false) ∧
    (fitRun d uSup wSup u0 w0 ru rw stop n).reached
      = stopNow d stop (fitRun d uSup wSup u0 w0 ru rw stop n).it
          (fitState d uSup wSup u0 w0 ru rw ((fitRun d uSup wSup u0 w0 ru rw stop n).it + 1))
          (fitState d uSup wSup u0 w0 ru rw (fitRun d uSup wSup u0 w0 ru rw stop n).it) ∧
    ((fitRun d uSup wSup u0 w0 ru rw stop n).reached = false → (fitRun d uSup wSup u0 w0 ru rw stop n).it = n - 1) := by
  obtain ⟨k, rfl⟩ : ∃ k, n = k + 1 := ⟨n - 1, by omega⟩
  obtain ⟨j, hj, h1, h2, h3, h4, h5⟩ := loopFrom_spec d (emStep d uSup.isSome wSup.isSome ru rw) stop k 0
    { u := uSup.getD u0, w := wSup.getD w0 } { u := uSup.getD u0, w := wSup.getD w0 } (fun _ => rfl)
  have hf : ∀ m, fitState d uSup wSup u0 w0 ru rw m
      = iter (emStep d uSup.isSome wSup.isSome ru rw) m { u := uSup.getD u0, w := wSup.getD w0 } :=
    fun m => emLoop_eq_iter _ _ _ _ _ m _
  simp only [Nat.zero_add] at h1 h3 h4
  unfold fitRun emRun
  rw [h1]
  refine ⟨by omega, by rw [h2, hf], ?_, by rw [h4, hf, hf], fun h => by rw [h5 h]; rfl⟩
  intro i hi
  rw [hf, hf]
  exact h3 i hi

theorem fitRun_u_fixed (d : Data) (us : List (List Rat)) (wSup : Option (List (List Rat))) (u0 w0 : List (List Rat))
    (ru rw : Mat) (stop : Option Stop) (n : ℕ) : (fitRun d (some us) wSup u0 w0 ru rw stop n).p.u = us := by
  obtain ⟨m, _, hm⟩ := emRun_iter d true wSup.isSome ru rw stop n { u := us, w := wSup.getD w0 }
  show (emRun d true wSup.isSome ru rw stop n { u := us, w := wSup.getD w0 }).p.u = us
  rw [hm, emLoop_u_fixed]

theorem fitRun_w_fixed (d : Data) (uSup : Option (List (List Rat))) (ws : List (List Rat)) (u0 w0 : List (List Rat))
    (ru rw : Mat) (stop : Option Stop) (n : ℕ) : (fitRun d uSup (some ws) u0 w0 ru rw stop n).p.w = ws := by
  obtain ⟨m, _, hm⟩ := emRun_iter d uSup.isSome true ru rw stop n { u := uSup.getD u0, w := ws }
  show (emRun d uSup.isSome true ru rw stop n { u := uSup.getD u0, w := ws }).p.w = ws
  rw [hm, emLoop_w_fixed]

/-- a successful `fit`: the size check passed, the stopping arguments are usable, and the result is `finish` of the
parameters with which the loop was left -/
theorem fit_some (d : Data) (uSup wSup : Option (List (List Rat))) (Dsup : Option ℕ) (u0 w0 : List (List Rat))
    (ru rw : Mat) (sqrtC : Rat) (stop : Option Stop) (n D : ℕ) (p : Params)
    (h : fit d uSup wSup Dsup u0 w0 ru rw sqrtC stop n = some (D, p)) :
    fitMaxSize d Dsup = some D ∧ stopOk stop = true ∧
    p = finish d uSup.isSome wSup.isSome (C (dims 2 D)) sqrtC (fitRun d uSup wSup u0 w0 ru rw stop n).p := by
  unfold fit at h
  split at h
  · simp at h
  · rename_i D' hD'
    split at h
    · rename_i hok
      simp only [Option.some.injEq, Prod.mk.injEq] at h
      obtain ⟨rfl, hp⟩ := h
      exact ⟨hD', hok, hp.symm⟩
    · simp at h

/-- the stopping rule used in the non-vacuity examples: `tolerance = 1/2`, `check_convergence_every = 1` -/
def exStop : Option Stop := some { tol := 1 / 2, every := 1 }

end C15
