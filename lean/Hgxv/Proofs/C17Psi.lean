import Hgxv.Model.C17
import Mathlib.Algebra.Order.Field.Basic
import Mathlib.Algebra.Order.BigOperators.Ring.List
import Mathlib.Tactic.Ring
import Mathlib.Tactic.Linarith
import Mathlib.Tactic.Positivity
/-! Helper lemmas for C17: index-style arrays, elementary symmetric polynomials, the incremental tables. -/
namespace C17

section arrays
variable {α : Type} [Zero α]

theorem at1_tab (n : Nat) (f : Nat → α) (k : Nat) (hk : k < n) : at1 (tab n f) k = f k := by
  simp [at1, tab, hk]

theorem at2_tab2 (n m : Nat) (f : Nat → Nat → α) (i k : Nat) (hi : i < n) (hk : k < m) :
    at2 (tab2 n m f) i k = f i k := by
  simp [at2, tab2, hi, hk]

theorem at2_tab2_of_ge (n m : Nat) (f : Nat → Nat → α) (i k : Nat) (hi : n ≤ i) :
    at2 (tab2 n m f) i k = 0 := by
  simp [at2, tab2, List.getD, hi]

theorem at2_tab2_of_ge_col (n m : Nat) (f : Nat → Nat → α) (i k : Nat) (hk : m ≤ k) :
    at2 (tab2 n m f) i k = 0 := by
  unfold at2 tab2
  by_cases hi : i < n
  · simp [hi, List.getD, hk]
  · simp [List.getD, Nat.le_of_not_lt hi]

omit [Zero α] in
theorem mem_tab2 (n m : Nat) (f : Nat → Nat → α) (r : List α) (x : α) (hr : r ∈ tab2 n m f) (hx : x ∈ r) :
    ∃ i k, i < n ∧ k < m ∧ x = f i k := by
  simp only [tab2, List.mem_map, List.mem_range] at hr
  obtain ⟨i, hi, rfl⟩ := hr
  simp only [List.mem_map, List.mem_range] at hx
  obtain ⟨k, hk, rfl⟩ := hx
  exact ⟨i, k, hi, hk, rfl⟩

omit [Zero α] in
theorem tab_split (n : Nat) (f : Nat → α) (i : Nat) (hi : i < n) :
    tab n f = (List.range i).map f ++ f i :: (List.range' (i + 1) (n - i - 1)).map f := by
  unfold tab
  have : List.range n = List.range i ++ i :: List.range' (i + 1) (n - i - 1) := by
    rw [List.range_eq_range', List.range_eq_range']
    have h1 : n = i + (1 + (n - i - 1)) := by omega
    conv_lhs => rw [h1]
    rw [← List.range'_append_1, ← List.range'_append_1]
    simp
  rw [this]; simp

end arrays

section ring
variable {α : Type} [CommRing α]

/-- inserting `x` anywhere: `e_{d+1}(l1 ++ x :: l2) = e_{d+1}(l1 ++ l2) + x e_d(l1 ++ l2)` -/
theorem esymm_insert (x : α) (l2 : List α) : ∀ (l1 : List α) (d : Nat),
    esymm (d + 1) (l1 ++ x :: l2) = esymm (d + 1) (l1 ++ l2) + x * esymm d (l1 ++ l2)
  | [], d => by simp [esymm]
  | a :: l1, 0 => by
    have := esymm_insert x l2 l1 0
    simp only [List.cons_append, esymm] at this ⊢
    rw [this]; ring
  | a :: l1, d + 1 => by
    have h1 := esymm_insert x l2 l1 (d + 1)
    have h0 := esymm_insert x l2 l1 d
    simp only [List.cons_append, esymm] at h1 h0 ⊢
    rw [h1, h0]; ring

theorem esymm_zero (l : List α) : esymm 0 l = 1 := by cases l <;> rfl

/-- the rest of a tabulated list without position `i` -/
def restL {α : Type} (n : Nat) (f : Nat → α) (i : Nat) : List α :=
  (List.range i).map f ++ (List.range' (i + 1) (n - i - 1)).map f

omit [CommRing α] in
theorem restL_congr (n : Nat) (f g : Nat → α) (i : Nat) (h : ∀ j, j ≠ i → f j = g j) :
    restL n f i = restL n g i := by
  unfold restL
  congr 1
  · apply List.map_congr_left; intro j hj; exact h j (by simp at hj; omega)
  · apply List.map_congr_left; intro j hj; exact h j (by simp [List.mem_range'] at hj; omega)

theorem esymm_tab (n : Nat) (f : Nat → α) (i : Nat) (hi : i < n) (d : Nat) :
    esymm (d + 1) (tab n f) = esymm (d + 1) (restL n f i) + f i * esymm d (restL n f i) := by
  rw [tab_split n f i hi, esymm_insert]; rfl

/-- `_update_psiBarOmega` computes the elementary symmetric polynomials of the column without node `i` -/
theorem barAt_eq (psi : Mat α) (k n : Nat) (f : Nat → α) (i : Nat) (hi : i < n) (D : Nat)
    (hpsi : ∀ d, d < D → at2 psi d k = esymm (d + 1) (tab n f)) :
    ∀ d, d < D → barAt psi (f i) k d = esymm (d + 1) (restL n f i)
  | 0, h0 => by
    simp only [barAt]
    rw [hpsi 0 h0, esymm_tab n f i hi 0, esymm_zero]; ring
  | d + 1, h => by
    simp only [barAt]
    rw [barAt_eq psi k n f i hi D hpsi d (by omega), hpsi (d + 1) h, esymm_tab n f i hi (d + 1)]; ring

theorem esymm_replicate (x : α) : ∀ (n d : Nat),
    esymm d (List.replicate n x) = npow x d * ofN (binom n d)
  | _, 0 => by simp [esymm_zero, npow, binom, ofN]
  | 0, d + 1 => by simp [esymm, binom, ofN]
  | n + 1, d + 1 => by
    simp only [List.replicate_succ, esymm, binom]
    rw [esymm_replicate x n (d + 1), esymm_replicate x n d]
    have hadd : ∀ a b : Nat, (ofN (a + b) : α) = ofN a + ofN b := by
      intro a b; induction b with
      | zero => simp [ofN]
      | succ b ih => rw [← Nat.add_assoc]; simp only [ofN]; rw [ih]; ring
    rw [hadd]; simp only [npow]; ring

end ring

section ordered
variable {α : Type} [Field α] [LinearOrder α] [IsStrictOrderedRing α]

theorem esymm_nonneg : ∀ (d : Nat) (l : List α), (∀ x ∈ l, 0 ≤ x) → 0 ≤ esymm d l
  | 0, _, _ => by rw [esymm_zero]; exact zero_le_one
  | _ + 1, [], _ => by simp [esymm]
  | d + 1, x :: xs, h => by
    simp only [esymm]
    have hx : 0 ≤ x := h x (by simp)
    have hxs : ∀ y ∈ xs, 0 ≤ y := fun y hy => h y (by simp [hy])
    exact add_nonneg (esymm_nonneg (d + 1) xs hxs) (mul_nonneg hx (esymm_nonneg d xs hxs))

end ordered
end C17
