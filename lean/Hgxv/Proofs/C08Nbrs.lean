import Hgxv.Model.C08
/-! # C08 — the two primitives `get_incident_edges` / `get_neighbors` (core Lean only)

`get_neighbors(n)` is a SET built by `set.update` per incident hyperedge from which the node itself is removed:
duplicate-free, never containing `n`. -/
namespace C08

theorem addNew_nodup (acc : List Nat) (x : Nat) (h : acc.Nodup) : (addNew acc x).Nodup := by
  unfold addNew
  split
  · exact h
  · rename_i hx
    rw [List.nodup_append]
    refine ⟨h, by simp, ?_⟩
    intro a ha b hb
    rw [List.mem_singleton] at hb
    intro hab
    exact hx (hb ▸ hab ▸ ha)

theorem addAll_nodup (e : Edge) : ∀ (acc : List Nat), acc.Nodup → (addAll acc e).Nodup := by
  unfold addAll
  induction e with
  | nil => intro acc h; exact h
  | cons x t ih => intro acc h; exact ih _ (addNew_nodup acc x h)

theorem foldl_addAll_nodup (l : List Edge) : ∀ (acc : List Nat), acc.Nodup → (l.foldl addAll acc).Nodup := by
  induction l with
  | nil => intro acc h; exact h
  | cons e t ih => intro acc h; exact ih _ (addAll_nodup e acc h)

theorem neighbors_nodup (es : List Edge) (f : Filt) (n : Nat) : (neighbors es f n).Nodup := by
  unfold neighbors
  exact List.Nodup.sublist List.filter_sublist (foldl_addAll_nodup _ [] List.nodup_nil)

theorem self_not_mem_neighbors (es : List Edge) (f : Filt) (n : Nat) : n ∉ neighbors es f n := by
  intro h
  exact ((mem_neighbors es f n n).mp h).1 rfl

theorem mem_incident (es : List Edge) (f : Filt) (n : Nat) (e : Edge) :
    e ∈ incident es n f ↔ e ∈ es ∧ n ∈ e ∧ passes f e.length = true := by
  simp only [incident, incidentG, id, List.mem_filter, Bool.and_eq_true, decide_eq_true_eq]

theorem incident_nodup (es : List Edge) (f : Filt) (n : Nat) (h : es.Nodup) : (incident es n f).Nodup := by
  unfold incident incidentG
  exact List.Nodup.sublist List.filter_sublist h

end C08
