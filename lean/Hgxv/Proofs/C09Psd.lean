import Hgxv.Proofs.C09Order
import Mathlib.Algebra.Order.Ring.Defs
import Mathlib.Tactic.Linarith
/-! Helper lemmas for C09, extension round: the quadratic form of the order-`d` Laplacian is a sum over the hyperedges of
`(d+1)·Σ_{a∈e} x_a² − (Σ_{a∈e} x_a)²`, which is non-negative (positive semidefinite). Rows are indexed by node LABELS. -/
set_option linter.unusedSectionVars false
namespace C09
variable {R : Type} [CommRing R]

/-- entry of the order-`d` Laplacian in the row of label `a` and the column of label `b` -/
def lapL (d : Nat) (es : List (Edge × R)) (a b : Nat) : R :=
  ((d + 1 : Nat) : R) * (if a = b then ((degree d es a : Nat) : R) else 0) - gram d es a b

theorem lap_entry_label (d : Nat) (nodes : List Nat) (es : List (Edge × R)) (hN : nodes.Nodup)
    (hE : ∀ e ∈ es, ∀ x ∈ e.1, x ∈ nodes) (a b : Nat) (ha : a ∈ nodes) (hb : b ∈ nodes) :
    entry (laplacian d nodes es) (encode (classes nodes) a) (encode (classes nodes) b) = some (lapL d es a b) := by
  have ha' := (mem_classes a nodes).2 ha
  have hb' := (mem_classes b nodes).2 hb
  rw [lap_entry d nodes es hN hE _ _ (encode_lt _ a ha') (encode_lt _ b hb')]
  simp only [getElem_encode _ a ha', getElem_encode _ b hb', lapL]
  by_cases h : a = b
  · subst h; simp
  · have : ¬ encode (classes nodes) a = encode (classes nodes) b := by
      intro he
      apply h
      have h1 := getElem_encode (classes nodes) a ha'
      have h2 := getElem_encode (classes nodes) b hb'
      simp only [he] at h1
      rw [← h1, h2]
    simp [h, this]

theorem sum_map_sub' {β : Type} (l : List β) (f g : β → R) :
    (l.map fun x => f x - g x).sum = (l.map f).sum - (l.map g).sum := by
  induction l with
  | nil => simp
  | cons a l ih => simp only [List.map_cons, List.sum_cons, ih]; ring

theorem sum_map_mul_right' {β : Type} (l : List β) (c : R) (f : β → R) :
    (l.map fun x => f x * c).sum = (l.map f).sum * c := by
  induction l with
  | nil => simp
  | cons a l ih => simp [ih, add_mul]

theorem sum_ite_not_mem (l : List Nat) (a : Nat) (ha : a ∉ l) (f : Nat → R) :
    (l.map fun b => if a = b then f b else 0).sum = 0 := by
  induction l with
  | nil => simp
  | cons b l ih =>
    have hab : ¬ a = b := fun h => ha (h ▸ List.mem_cons_self)
    simp [hab, ih (fun h => ha (List.mem_cons_of_mem _ h))]

theorem sum_ite_mem_nodup (l : List Nat) (hl : l.Nodup) (a : Nat) (ha : a ∈ l) (f : Nat → R) :
    (l.map fun b => if a = b then f b else 0).sum = f a := by
  induction l with
  | nil => cases ha
  | cons b l ih =>
    rw [List.nodup_cons] at hl
    by_cases hab : a = b
    · subst hab
      simp [sum_ite_not_mem l a hl.1 f]
    · have : a ∈ l := by
        rcases List.mem_cons.1 ha with h | h
        · exact absurd h hab
        · exact h
      simp [hab, ih hl.2 this]

theorem sum_ind_mul (l : List Nat) (p : Nat → Bool) (f : Nat → R) :
    (l.map fun a => (ind (p a) : R) * f a).sum = ((l.filter p).map f).sum := by
  induction l with
  | nil => simp
  | cons a l ih =>
    simp only [List.map_cons, List.sum_cons, ih, List.filter_cons]
    cases h : p a <;> simp [ind]

/-- summing over the nodes that lie in `e` = summing over `e` -/
theorem sum_ind_mem (cls e : List Nat) (hc : cls.Nodup) (he : e.Nodup) (hsub : ∀ x ∈ e, x ∈ cls) (f : Nat → R) :
    (cls.map fun a => (ind (decide (a ∈ e)) : R) * f a).sum = (e.map f).sum := by
  rw [sum_ind_mul]
  apply List.Perm.sum_eq
  apply List.Perm.map
  apply (List.perm_ext_iff_of_nodup (hc.filter _) he).2
  intro a
  simp only [List.mem_filter, decide_eq_true_eq]
  exact ⟨fun h => h.2, fun h => ⟨hsub a h, h⟩⟩

theorem sum_mul_sum {β γ : Type} (l : List β) (l' : List γ) (f : β → R) (g : γ → R) :
    (l.map f).sum * (l'.map g).sum = (l.map fun a => (l'.map fun b => f a * g b).sum).sum := by
  induction l with
  | nil => simp
  | cons a l ih => simp [add_mul, ih, sum_map_mul_left']

/-- `xᵀ (U Uᵀ) x = Σ_e (Σ_a u_e(a) x_a)²` for a list of column vectors `u_e` -/
theorem quad_gram {β : Type} (cls : List Nat) (E : List β) (u : β → Nat → R) (x : Nat → R) :
    (cls.map fun a => (cls.map fun b => x a * (E.map fun e => u e a * u e b).sum * x b).sum).sum
      = (E.map fun e => (cls.map fun a => u e a * x a).sum * (cls.map fun b => u e b * x b).sum).sum := by
  induction E with
  | nil => simp
  | cons e E ih =>
    simp only [List.map_cons, List.sum_cons, mul_add, add_mul, List.sum_map_add, ih, sum_mul_sum]
    congr 2
    apply List.map_congr_left
    intro a _
    congr 1
    apply List.map_congr_left
    intro b _
    ring

theorem degree_eq_sum (d : Nat) (es : List (Edge × R)) (a : Nat) :
    ((degree d es a : Nat) : R) = ((ofOrder d es).map fun e => (ind (decide (a ∈ e.1)) : R)).sum := by
  rw [sum_map_ind, degree_eq_countP, ofOrder, List.countP_filter]
  congr 2
  funext e
  simp [Bool.and_comm]

theorem gram_unweighted' (d : Nat) (es : List (Edge × R)) (hW : ∀ e ∈ es, e.2 = 1) (a b : Nat) :
    gram d es a b = ((ofOrder d es).map fun e => (ind (decide (a ∈ e.1)) : R) * ind (decide (b ∈ e.1))).sum := by
  unfold gram
  congr 1
  apply List.map_congr_left
  intro e he
  rw [hW e ((mem_ofOrder d es e).1 he).1, mul_one, mul_one]

/-- the quadratic form of the order-`d` Laplacian of an unweighted hypergraph, hyperedge by hyperedge -/
theorem lap_quadratic_form (d : Nat) (nodes : List Nat) (es : List (Edge × R))
    (hE : ∀ e ∈ es, ∀ x ∈ e.1, x ∈ nodes) (hD : ∀ e ∈ es, e.1.Nodup) (hW : ∀ e ∈ es, e.2 = 1) (x : Nat → R) :
    ((classes nodes).map fun a => ((classes nodes).map fun b => x a * lapL d es a b * x b).sum).sum
      = ((ofOrder d es).map fun e =>
          ((d + 1 : Nat) : R) * (e.1.map fun a => x a * x a).sum - (e.1.map x).sum * (e.1.map x).sum).sum := by
  have hmem : ∀ e ∈ ofOrder d es, ∀ f : Nat → R,
      ((classes nodes).map fun a => (ind (decide (a ∈ e.1)) : R) * f a).sum = (e.1.map f).sum := by
    intro e he f
    have hm := (mem_ofOrder d es e).1 he
    exact sum_ind_mem (classes nodes) e.1 (classes_nodup nodes) (hD e hm.1)
      (fun y hy => (mem_classes y nodes).2 (hE e hm.1 y hy)) f
  -- split the Laplacian entry into its degree part and its Gram part
  have hsplit : ((classes nodes).map fun a => ((classes nodes).map fun b => x a * lapL d es a b * x b).sum).sum
      = ((classes nodes).map fun a => ((classes nodes).map fun b =>
            if a = b then x a * (((d + 1 : Nat) : R) * ((degree d es a : Nat) : R)) * x b else 0).sum).sum
        - ((classes nodes).map fun a => ((classes nodes).map fun b => x a * gram d es a b * x b).sum).sum := by
    rw [← sum_map_sub']
    congr 1
    apply List.map_congr_left
    intro a _
    rw [← sum_map_sub']
    congr 1
    apply List.map_congr_left
    intro b _
    unfold lapL
    by_cases h : a = b <;> simp [h] <;> ring
  rw [hsplit, sum_map_sub']
  congr 1
  · -- degree part
    have h1 : ((classes nodes).map fun a => ((classes nodes).map fun b =>
            if a = b then x a * (((d + 1 : Nat) : R) * ((degree d es a : Nat) : R)) * x b else 0).sum)
        = (classes nodes).map fun a => ((d + 1 : Nat) : R) *
            ((ofOrder d es).map fun e => (ind (decide (a ∈ e.1)) : R) * (x a * x a)).sum := by
      apply List.map_congr_left
      intro a ha
      rw [sum_ite_mem_nodup (classes nodes) (classes_nodup nodes) a ha
        (fun b => x a * (((d + 1 : Nat) : R) * ((degree d es a : Nat) : R)) * x b), degree_eq_sum,
        sum_map_mul_right']
      ring
    rw [h1, sum_map_mul_left', sum_map_sum_comm, sum_map_mul_left']
    congr 2
    apply List.map_congr_left
    intro e he
    exact hmem e he (fun a => x a * x a)
  · -- Gram part
    have h2 : ((classes nodes).map fun a => ((classes nodes).map fun b => x a * gram d es a b * x b).sum)
        = (classes nodes).map fun a => ((classes nodes).map fun b =>
            x a * ((ofOrder d es).map fun e => (ind (decide (a ∈ e.1)) : R) * ind (decide (b ∈ e.1))).sum * x b).sum := by
      apply List.map_congr_left
      intro a _
      congr 1
      apply List.map_congr_left
      intro b _
      rw [gram_unweighted' d es hW]
    rw [h2, quad_gram (classes nodes) (ofOrder d es) (fun e a => (ind (decide (a ∈ e.1)) : R)) x]
    congr 1
    apply List.map_congr_left
    intro e he
    rw [hmem e he x]

/-! ### row sums of the order-`d` adjacency matrix -/

theorem encode_inj_mem (cls : List Nat) (a b : Nat) (ha : a ∈ cls) (hb : b ∈ cls) :
    encode cls a = encode cls b ↔ a = b := by
  constructor
  · intro he
    have h1 := getElem_encode cls a ha
    have h2 := getElem_encode cls b hb
    simp only [he] at h1
    rw [← h1, h2]
  · rintro rfl; rfl

/-- entry of the order-`d` adjacency matrix in the row of label `a` and the column of label `b` -/
theorem adjByOrder_entry_label (d : Nat) (nodes : List Nat) (es : List (Edge × R)) (hN : nodes.Nodup)
    (hE : ∀ e ∈ es, ∀ x ∈ e.1, x ∈ nodes) (a b : Nat) (ha : a ∈ nodes) (hb : b ∈ nodes) :
    entry (adjByOrder d nodes es) (encode (classes nodes) a) (encode (classes nodes) b)
      = some (if a = b then 0 else gram d es a b) := by
  have ha' := (mem_classes a nodes).2 ha
  have hb' := (mem_classes b nodes).2 hb
  unfold adjByOrder
  simp only
  rw [gramMatrix_eq d nodes es hN hE, entry_subDiag,
    entry_map_map _ _ _ _ _ (encode_lt _ a ha') (encode_lt _ b hb')]
  simp only [getElem_encode _ a ha', getElem_encode _ b hb', Option.map_some, encode_inj_mem _ a b ha' hb']

/-- row sums of the order-`d` adjacency matrix: `d` times the order-`d` degree -/
theorem adj_row_sum_label (d : Nat) (nodes : List Nat) (es : List (Edge × R))
    (hE : ∀ e ∈ es, ∀ x ∈ e.1, x ∈ nodes) (hD : ∀ e ∈ es, e.1.Nodup) (hW : ∀ e ∈ es, e.2 = 1)
    (a : Nat) (ha : a ∈ nodes) :
    ((classes nodes).map fun b => if a = b then 0 else gram d es a b).sum
      = (d : R) * ((degree d es a : Nat) : R) := by
  have h1 : ((classes nodes).map fun b => if a = b then (0 : R) else gram d es a b)
      = (classes nodes).map fun b => gram d es a b - (if a = b then gram d es a b else 0) := by
    apply List.map_congr_left
    intro b _
    by_cases h : a = b <;> simp [h]
  rw [h1, sum_map_sub', sum_gram_unweighted d nodes es hE hD hW,
    sum_ite_mem_nodup (classes nodes) (classes_nodup nodes) a ((mem_classes a nodes).2 ha) (fun b => gram d es a b),
    gram_unweighted d es hW, ← degree_eq_countP]
  push_cast
  ring

/-! ### non-negativity -/
section order
variable [LinearOrder R] [IsStrictOrderedRing R]

theorem two_mul_sum_le (l : List Nat) (x : Nat → R) (c : R) :
    2 * c * (l.map x).sum ≤ (l.length : R) * (c * c) + (l.map fun a => x a * x a).sum := by
  induction l with
  | nil => simp
  | cons a l ih =>
    simp only [List.map_cons, List.sum_cons, List.length_cons]
    push_cast
    nlinarith [mul_self_nonneg (c - x a)]

/-- Cauchy-Schwarz with the all-ones vector -/
theorem sq_sum_le (l : List Nat) (x : Nat → R) :
    (l.map x).sum * (l.map x).sum ≤ (l.length : R) * (l.map fun a => x a * x a).sum := by
  induction l with
  | nil => simp
  | cons a l ih =>
    simp only [List.map_cons, List.sum_cons, List.length_cons]
    push_cast
    nlinarith [two_mul_sum_le l x (x a), mul_self_nonneg (x a)]

theorem sum_nonneg' {β : Type} (l : List β) (f : β → R) (h : ∀ e ∈ l, 0 ≤ f e) : 0 ≤ (l.map f).sum := by
  induction l with
  | nil => simp
  | cons a l ih =>
    simp only [List.map_cons, List.sum_cons]
    exact add_nonneg (h a List.mem_cons_self) (ih fun e he => h e (List.mem_cons_of_mem _ he))

theorem lap_quadratic_form_nonneg (d : Nat) (nodes : List Nat) (es : List (Edge × R))
    (hE : ∀ e ∈ es, ∀ x ∈ e.1, x ∈ nodes) (hD : ∀ e ∈ es, e.1.Nodup) (hW : ∀ e ∈ es, e.2 = 1) (x : Nat → R) :
    0 ≤ ((classes nodes).map fun a => ((classes nodes).map fun b => x a * lapL d es a b * x b).sum).sum := by
  rw [lap_quadratic_form d nodes es hE hD hW x]
  apply sum_nonneg'
  intro e he
  have hl := ((mem_ofOrder d es e).1 he).2
  have := sq_sum_le e.1 x
  rw [hl] at this
  linarith

end order
end C09
