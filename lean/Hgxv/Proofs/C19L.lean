import Hgxv.Proofs.C19S
import Hgxv.Proofs.C19P
import Mathlib.Algebra.Order.BigOperators.Group.Finset
import Mathlib.Algebra.Order.Field.Rat
import Mathlib.Tactic.Linarith
import Mathlib.Tactic.Positivity
/-! C19 part B, strengthening round d.

* The inequality of the step-up rule is STRICT: a position whose p-value lies ON its line `i * bonf` (or above it) never
  supplies the threshold (seeded change C19-d2 reads `p ≤ line`). `stepUp_le` bounds the scan from above by any bound
  of the lines that are hit.
* The exact binomial tail of a row is a positive number, at least `p₀ ^ N`, and at most 1: a p-value 0 (seeded change
  C19-d1: `1 - (1 - q) ^ N` evaluated in doubles) is never what the definition gives. -/
namespace C19
open Finset

/-- the scan stays below every bound of the starting value and of the lines that are hit -/
theorem stepUp_le (bonf : Rat) (l : List Rat) (i : Nat) (best B : Rat) (hbest : best ≤ B)
    (hh : ∀ j (hj : j < l.length), l[j] < ((i + j : Nat) : Rat) * bonf → ((i + j : Nat) : Rat) * bonf ≤ B) :
    stepUp bonf l i best ≤ B := by
  induction l generalizing i best with
  | nil => simpa [stepUp] using hbest
  | cons p ps ih =>
    simp only [stepUp]
    apply ih
    · split
      · rename_i hp
        have := hh 0 (by simp) (by simpa using hp)
        simpa using this
      · exact hbest
    · intro j hj hhit
      have shift : i + 1 + j = i + (j + 1) := by omega
      have := hh (j + 1) (by simp; omega) (by simpa [shift] using hhit)
      simpa [shift] using this

/-- a product of ratios `K / N` with `0 < K ≤ N` lies in `(0, 1]` -/
theorem ratios_prod_bounds (ks : List Nat) (N : Nat) (hk : ∀ k ∈ ks, 0 < k ∧ k ≤ N) :
    0 < (ks.map (fun (k : Nat) => (k : ℚ) / (N : ℚ))).prod ∧ (ks.map (fun (k : Nat) => (k : ℚ) / (N : ℚ))).prod ≤ 1 := by
  induction ks with
  | nil => simp
  | cons k ks ih =>
    obtain ⟨hpos, hle⟩ := ih (fun x hx => hk x (List.mem_cons_of_mem _ hx))
    obtain ⟨hk0, hkN⟩ := hk k List.mem_cons_self
    have hN : (0 : ℚ) < (N : ℚ) := by exact_mod_cast (lt_of_lt_of_le hk0 hkN)
    have h1 : (0 : ℚ) < (k : ℚ) / (N : ℚ) := div_pos (by exact_mod_cast hk0) hN
    have h2 : (k : ℚ) / (N : ℚ) ≤ 1 := by
      rw [div_le_one hN]; exact_mod_cast hkN
    simp only [List.map_cons, List.prod_cons]
    exact ⟨mul_pos h1 hpos, by nlinarith⟩

/-- for a success probability in `(0, 1]` and `w ≤ N` the tail `P(X ≥ w)` is at least `p ^ N > 0` and at most 1 -/
theorem tail_bounds (w N : Nat) (p : ℚ) (hwN : w ≤ N) (hp0 : 0 < p) (hp1 : p ≤ 1) :
    p ^ N ≤ tail w N p ∧ 0 < tail w N p ∧ tail w N p ≤ 1 := by
  have hq : 0 ≤ 1 - p := by linarith
  have hterm : ∀ j, 0 ≤ (N.choose j : ℚ) * p ^ j * (1 - p) ^ (N - j) := fun j => by positivity
  have hlow : p ^ N ≤ tail w N p := by
    rw [tail_eq_sum]
    have hmem : N ∈ Ico w (N + 1) := by simp [hwN]
    have := Finset.single_le_sum (f := fun j => (N.choose j : ℚ) * p ^ j * (1 - p) ^ (N - j))
      (fun j _ => hterm j) hmem
    simpa using this
  refine ⟨hlow, lt_of_lt_of_le (pow_pos hp0 N) hlow, ?_⟩
  rw [← tail_zero N p, tail_eq_sum, tail_eq_sum]
  apply Finset.sum_le_sum_of_subset_of_nonneg
  · intro j hj
    simp only [mem_Ico] at hj ⊢
    omega
  · intro j _ _
    exact hterm j

end C19
