import Hgxv.Model.C07Dumps
import Hgxv.Proofs.C07Json
/-! # C07: the JSON text determines the tree (core Lean only)

`renderK f` is a prefix code on JSON trees: two trees written in front of continuations that start with `,` `]` `}`
(or are empty) give the same text only when the trees AND the continuations are the same.  Needed from the atom
writers (`Fmt.Laws`): numbers are written injectively, start with a character that no other kind of value starts
with and contain no `,` `]` `}`; the escape of a character never starts with `"` and escapes form a prefix code. -/
namespace C07

/-- a continuation that ends a value: empty, or starting with `,` `]` `}` -/
def Stop (r : List Char) : Prop := ∀ c cs, r = c :: cs → c = ',' ∨ c = ']' ∨ c = '}'

structure Fmt.Laws (f : Fmt) : Prop where
  numInj : ∀ a b, f.num a = f.num b → a = b
  numHead : ∀ a, ∃ c cs, f.num a = c :: cs ∧ c ≠ 'n' ∧ c ≠ 't' ∧ c ≠ 'f' ∧ c ≠ '"' ∧ c ≠ '[' ∧ c ≠ '{'
  numBody : ∀ a c, c ∈ f.num a → c ≠ ',' ∧ c ≠ ']' ∧ c ≠ '}'
  escHead : ∀ a, ∃ c cs, f.esc a = c :: cs ∧ c ≠ '"'
  escFree : ∀ a b r₁ r₂, f.esc a ++ r₁ = f.esc b ++ r₂ → a = b ∧ r₁ = r₂

variable {f : Fmt}

theorem stop_nil : Stop [] := by intro c cs h; cases h

/-- two runs of non-stop characters in front of stopping continuations -/
theorem run_split : ∀ (l₁ l₂ r₁ r₂ : List Char),
    (∀ c, c ∈ l₁ → c ≠ ',' ∧ c ≠ ']' ∧ c ≠ '}') → (∀ c, c ∈ l₂ → c ≠ ',' ∧ c ≠ ']' ∧ c ≠ '}') →
    Stop r₁ → Stop r₂ → l₁ ++ r₁ = l₂ ++ r₂ → l₁ = l₂ ∧ r₁ = r₂ := by
  intro l₁
  induction l₁ with
  | nil =>
    intro l₂ r₁ r₂ _ h2 s1 _ h
    cases l₂ with
    | nil => exact ⟨rfl, by simpa using h⟩
    | cons d ds =>
      exfalso
      have hd := h2 d List.mem_cons_self
      rcases s1 d (ds ++ r₂) (by simpa using h) with e | e | e
      · exact hd.1 e
      · exact hd.2.1 e
      · exact hd.2.2 e
  | cons c cs ih =>
    intro l₂ r₁ r₂ h1 h2 s1 s2 h
    cases l₂ with
    | nil =>
      exfalso
      have hc := h1 c List.mem_cons_self
      rcases s2 c (cs ++ r₁) (by simpa using h.symm) with e | e | e
      · exact hc.1 e
      · exact hc.2.1 e
      · exact hc.2.2 e
    | cons d ds =>
      simp only [List.cons_append, List.cons.injEq] at h
      obtain ⟨e, r⟩ := ih ds r₁ r₂ (fun x hx => h1 x (List.mem_cons_of_mem _ hx))
        (fun x hx => h2 x (List.mem_cons_of_mem _ hx)) s1 s2 h.2
      exact ⟨by rw [h.1, e], r⟩

theorem escK_split (L : f.Laws) : ∀ (s₁ s₂ r₁ r₂ : List Char),
    escK f s₁ ('"' :: r₁) = escK f s₂ ('"' :: r₂) → s₁ = s₂ ∧ r₁ = r₂ := by
  intro s₁
  induction s₁ with
  | nil =>
    intro s₂ r₁ r₂ h
    cases s₂ with
    | nil => simpa [escK] using h
    | cons d ds =>
      exfalso
      obtain ⟨c, cs, hc, hne⟩ := L.escHead d
      simp only [escK, hc, List.cons_append, List.cons.injEq] at h
      exact hne h.1.symm
  | cons c cs ih =>
    intro s₂ r₁ r₂ h
    cases s₂ with
    | nil =>
      exfalso
      obtain ⟨x, xs, hx, hne⟩ := L.escHead c
      simp only [escK, hx, List.cons_append, List.cons.injEq] at h
      exact hne h.1
    | cons d ds =>
      simp only [escK] at h
      obtain ⟨e, r⟩ := L.escFree _ _ _ _ h
      obtain ⟨e2, r2⟩ := ih ds r₁ r₂ r
      exact ⟨by rw [e, e2], r2⟩

theorem quoteK_split (L : f.Laws) (s₁ s₂ : String) (r₁ r₂ : List Char)
    (h : quoteK f s₁ r₁ = quoteK f s₂ r₂) : s₁ = s₂ ∧ r₁ = r₂ := by
  simp only [quoteK, List.cons.injEq, true_and] at h
  obtain ⟨e, r⟩ := escK_split L _ _ _ _ h
  exact ⟨String.toList_inj.mp e, r⟩

/-- a value that is not a number starts with one of `n t f " [ {` -/
theorem nonnum_head (b : JTree) (r : List Char) (hb : ∀ n, b ≠ .num n) :
    ∃ c rest, renderK f b r = c :: rest ∧ (c = 'n' ∨ c = 't' ∨ c = 'f' ∨ c = '"' ∨ c = '[' ∨ c = '{') := by
  cases b with
  | null => exact ⟨'n', 'u' :: 'l' :: 'l' :: r, by simp only [renderK], by simp⟩
  | bool x =>
    cases x
    · exact ⟨'f', 'a' :: 'l' :: 's' :: 'e' :: r, by simp [renderK], by simp⟩
    · exact ⟨'t', 'r' :: 'u' :: 'e' :: r, by simp [renderK], by simp⟩
  | num n => exact absurd rfl (hb n)
  | str s => exact ⟨'"', escK f s.toList ('"' :: r), by simp only [renderK, quoteK], by simp⟩
  | arr l => exact ⟨'[', itemsK f true l r, by simp only [renderK], by simp⟩
  | obj l => exact ⟨'{', fieldsK f true l r, by simp only [renderK], by simp⟩

theorem num_vs_nonnum (L : f.Laws) (n : Num) (b : JTree) (r₁ r₂ : List Char) (hb : ∀ m, b ≠ .num m)
    (h : f.num n ++ r₁ = renderK f b r₂) : False := by
  obtain ⟨c, rest, hc, hcase⟩ := nonnum_head (f := f) b r₂ hb
  obtain ⟨d, ds, hd, h1, h2, h3, h4, h5, h6⟩ := L.numHead n
  rw [hc, hd] at h
  simp only [List.cons_append, List.cons.injEq] at h
  rw [h.1] at h1 h2 h3 h4 h5 h6
  rcases hcase with e | e | e | e | e | e
  · exact h1 e
  · exact h2 e
  · exact h3 e
  · exact h4 e
  · exact h5 e
  · exact h6 e

/-- every value starts with a character that is none of `,` `]` `}` -/
theorem renderK_head (L : f.Laws) (b : JTree) (r : List Char) :
    ∃ c rest, renderK f b r = c :: rest ∧ c ≠ ',' ∧ c ≠ ']' ∧ c ≠ '}' := by
  have key : (∀ n, b ≠ .num n) → ∃ c rest, renderK f b r = c :: rest ∧ c ≠ ',' ∧ c ≠ ']' ∧ c ≠ '}' := by
    intro hb
    obtain ⟨c, rest, hc, hcase⟩ := nonnum_head (f := f) b r hb
    refine ⟨c, rest, hc, ?_⟩
    rcases hcase with e | e | e | e | e | e <;> (rw [e]; decide)
  cases b with
  | num n =>
    obtain ⟨d, ds, hd, _⟩ := L.numHead n
    refine ⟨d, ds ++ r, by simp only [renderK, hd, List.cons_append], ?_⟩
    exact L.numBody n d (by rw [hd]; exact List.mem_cons_self)
  | null => exact key (by intro m e; cases e)
  | bool x => exact key (by intro m e; cases e)
  | str x => exact key (by intro m e; cases e)
  | arr x => exact key (by intro m e; cases e)
  | obj x => exact key (by intro m e; cases e)

theorem stop_of_head {r : List Char} {c : Char} {rest : List Char} (h : r = c :: rest)
    (hc : c = ',' ∨ c = ']' ∨ c = '}') : Stop r := by
  intro d ds e
  rw [h] at e
  simp only [List.cons.injEq] at e
  rw [← e.1]; exact hc

theorem itemsK_stop (l : List JTree) (r : List Char) : Stop (itemsK f false l r) := by
  cases l with
  | nil => exact stop_of_head (rest := r) (by simp only [itemsK]) (Or.inr (Or.inl rfl))
  | cons x xs => exact stop_of_head (by simp only [itemsK, sepK]; rfl) (Or.inl rfl)

theorem fieldsK_stop (l : List (String × JTree)) (r : List Char) : Stop (fieldsK f false l r) := by
  cases l with
  | nil => exact stop_of_head (rest := r) (by simp only [fieldsK]) (Or.inr (Or.inr rfl))
  | cons p xs => obtain ⟨k, v⟩ := p; exact stop_of_head (by simp only [fieldsK, sepK]; rfl) (Or.inl rfl)

/-- the prefix-code statement for one tree -/
def Pref (f : Fmt) (a : JTree) : Prop :=
  ∀ b r₁ r₂, Stop r₁ → Stop r₂ → renderK f a r₁ = renderK f b r₂ → a = b ∧ r₁ = r₂

theorem sepK_inj (first : Bool) {a b : List Char} (h : sepK first a = sepK first b) : a = b := by
  cases first <;> simpa [sepK] using h

theorem itemsK_split (L : f.Laws) : ∀ (l : List JTree), (∀ x, x ∈ l → Pref f x) →
    ∀ (first : Bool) (l' : List JTree) (r₁ r₂ : List Char),
      itemsK f first l r₁ = itemsK f first l' r₂ → l = l' ∧ r₁ = r₂ := by
  intro l
  induction l with
  | nil =>
    intro _ first l' r₁ r₂ h
    cases l' with
    | nil => simpa [itemsK] using h
    | cons y ys =>
      exfalso
      obtain ⟨c, rest, hc, h1, h2, h3⟩ := renderK_head L y (itemsK f false ys r₂)
      cases first
      · simp [itemsK, sepK] at h
      · simp only [itemsK, sepK, hc, if_true, List.cons.injEq] at h
        exact h2 h.1.symm
  | cons x xs ih =>
    intro hP first l' r₁ r₂ h
    cases l' with
    | nil =>
      exfalso
      obtain ⟨c, rest, hc, h1, h2, h3⟩ := renderK_head L x (itemsK f false xs r₁)
      cases first
      · simp [itemsK, sepK] at h
      · simp only [itemsK, sepK, hc, if_true, List.cons.injEq] at h
        exact h2 h.1
    | cons y ys =>
      simp only [itemsK] at h
      have h' := sepK_inj first h
      obtain ⟨e, r⟩ := hP x List.mem_cons_self y _ _ (itemsK_stop xs r₁) (itemsK_stop ys r₂) h'
      obtain ⟨e2, r2⟩ := ih (fun z hz => hP z (List.mem_cons_of_mem _ hz)) false ys r₁ r₂ r
      exact ⟨by rw [e, e2], r2⟩

theorem fieldsK_split (L : f.Laws) : ∀ (l : List (String × JTree)), (∀ p, p ∈ l → Pref f p.2) →
    ∀ (first : Bool) (l' : List (String × JTree)) (r₁ r₂ : List Char),
      fieldsK f first l r₁ = fieldsK f first l' r₂ → l = l' ∧ r₁ = r₂ := by
  intro l
  induction l with
  | nil =>
    intro _ first l' r₁ r₂ h
    cases l' with
    | nil => simpa [fieldsK] using h
    | cons q ys =>
      exfalso
      obtain ⟨k, v⟩ := q
      cases first
      · simp [fieldsK, sepK] at h
      · simp [fieldsK, sepK, quoteK] at h
  | cons p xs ih =>
    intro hP first l' r₁ r₂ h
    obtain ⟨k, v⟩ := p
    cases l' with
    | nil =>
      exfalso
      cases first
      · simp [fieldsK, sepK] at h
      · simp [fieldsK, sepK, quoteK] at h
    | cons q ys =>
      obtain ⟨k', v'⟩ := q
      simp only [fieldsK] at h
      have h' := sepK_inj first h
      obtain ⟨ek, rk⟩ := quoteK_split L _ _ _ _ h'
      simp only [List.cons.injEq, true_and] at rk
      obtain ⟨e, r⟩ := hP (k, v) List.mem_cons_self v' _ _ (fieldsK_stop xs r₁) (fieldsK_stop ys r₂) rk
      obtain ⟨e2, r2⟩ := ih (fun z hz => hP z (List.mem_cons_of_mem _ hz)) false ys r₁ r₂ r
      simp only at e
      exact ⟨by rw [ek, e, e2], r2⟩

/-- `renderK` is a prefix code -/
theorem renderK_pref (L : f.Laws) : ∀ a, Pref f a := by
  apply JTree.induct
  · -- null
    intro b r₁ r₂ _ _ h
    cases b with
    | null => simpa [renderK] using h
    | bool x => cases x <;> simp [renderK] at h
    | num n => exact (num_vs_nonnum L n .null r₂ r₁ (by intro m e; cases e) h.symm).elim
    | str s => simp [renderK, quoteK] at h
    | arr l => simp [renderK] at h
    | obj l => simp [renderK] at h
  · -- bool
    intro x b r₁ r₂ _ _ h
    cases b with
    | null => cases x <;> simp [renderK] at h
    | bool y => cases x <;> cases y <;> simp [renderK] at h <;> simp [h]
    | num n => exact (num_vs_nonnum L n (.bool x) r₂ r₁ (by intro m e; cases e) h.symm).elim
    | str s => cases x <;> simp [renderK, quoteK] at h
    | arr l => cases x <;> simp [renderK] at h
    | obj l => cases x <;> simp [renderK] at h
  · -- num
    intro n b r₁ r₂ s1 s2 h
    cases b with
    | num m =>
      simp only [renderK] at h
      obtain ⟨e, r⟩ := run_split _ _ _ _ (L.numBody n) (L.numBody m) s1 s2 h
      exact ⟨by rw [L.numInj _ _ e], r⟩
    | null => exact (num_vs_nonnum L n _ r₁ r₂ (by intro m e; cases e) h).elim
    | bool x => exact (num_vs_nonnum L n _ r₁ r₂ (by intro m e; cases e) h).elim
    | str x => exact (num_vs_nonnum L n _ r₁ r₂ (by intro m e; cases e) h).elim
    | arr x => exact (num_vs_nonnum L n _ r₁ r₂ (by intro m e; cases e) h).elim
    | obj x => exact (num_vs_nonnum L n _ r₁ r₂ (by intro m e; cases e) h).elim
  · -- str
    intro s b r₁ r₂ _ _ h
    cases b with
    | null => simp [renderK, quoteK] at h
    | bool x => cases x <;> simp [renderK, quoteK] at h
    | num n => exact (num_vs_nonnum L n (.str s) r₂ r₁ (by intro m e; cases e) h.symm).elim
    | str s' =>
      simp only [renderK] at h
      obtain ⟨e, r⟩ := quoteK_split L _ _ _ _ h
      exact ⟨by rw [e], r⟩
    | arr l => simp [renderK, quoteK] at h
    | obj l => simp [renderK, quoteK] at h
  · -- arr
    intro l ih b r₁ r₂ _ _ h
    cases b with
    | null => simp [renderK] at h
    | bool x => cases x <;> simp [renderK] at h
    | num n => exact (num_vs_nonnum L n (.arr l) r₂ r₁ (by intro m e; cases e) h.symm).elim
    | str s => simp [renderK, quoteK] at h
    | arr l' =>
      simp only [renderK, List.cons.injEq, true_and] at h
      obtain ⟨e, r⟩ := itemsK_split L l ih true l' r₁ r₂ h
      exact ⟨by rw [e], r⟩
    | obj l' => simp [renderK] at h
  · -- obj
    intro l ih b r₁ r₂ _ _ h
    cases b with
    | null => simp [renderK] at h
    | bool x => cases x <;> simp [renderK] at h
    | num n => exact (num_vs_nonnum L n (.obj l) r₂ r₁ (by intro m e; cases e) h.symm).elim
    | str s => simp [renderK, quoteK] at h
    | arr l' => simp [renderK] at h
    | obj l' =>
      simp only [renderK, List.cons.injEq, true_and] at h
      obtain ⟨e, r⟩ := fieldsK_split L l ih true l' r₁ r₂ h
      exact ⟨by rw [e], r⟩

/-- the text of a tree determines the tree (dictionary order included) -/
theorem render_inj (L : f.Laws) {a b : JTree} (h : render f a = render f b) : a = b :=
  (renderK_pref L a b [] [] stop_nil stop_nil h).1

/-- `json.dumps(·, sort_keys=True)` determines the tree up to the order of dictionary keys -/
theorem dumpsJ_inj (L : f.Laws) {a b : JTree} (h : dumpsJ f a = dumpsJ f b) : ser a = ser b := by
  unfold dumpsJ at h
  exact render_inj L (String.ofList_inj.mp h)

/-! ## `sort_keys=True` on an already serialized tree changes nothing -/

theorem fieldLe_total (a b : String × JTree) : (fieldLe a b || fieldLe b a) = true := KeyOrd.total a.1 b.1
theorem fieldLe_trans (a b c : String × JTree) (h1 : fieldLe a b = true) (h2 : fieldLe b c = true) :
    fieldLe a c = true := KeyOrd.trans a.1 b.1 c.1 h1 h2

/-- `serialize` is idempotent: the keys are sorted already, at every depth -/
theorem ser_idem : ∀ a : JTree, ser (ser a) = ser a := by
  apply JTree.induct
  · rfl
  · intro b; rfl
  · intro n; rfl
  · intro s; rfl
  · intro l ih
    rw [ser_arr, ser_arr, List.map_map]
    congr 1
    apply List.map_congr_left
    intro x hx
    exact ih x hx
  · intro l ih
    rw [ser_obj, ser_obj]
    congr 1
    have hm : (sortBy fieldLe (l.map serField)).map serField = sortBy fieldLe ((l.map serField).map serField) :=
      (sortBy_map fieldLe fieldLe serField (fun a b => rfl) _).symm
    have hi : (l.map serField).map serField = l.map serField := by
      rw [List.map_map]
      apply List.map_congr_left
      intro p hp
      show (p.1, ser (ser p.2)) = (p.1, ser p.2)
      rw [ih p hp]
    show sortBy fieldLe ((sortBy fieldLe (l.map serField)).map serField) = sortBy fieldLe (l.map serField)
    rw [hm, hi]
    exact sortBy_of_pairwise _ (sortBy_pairwise fieldLe_total fieldLe_trans _)

/-- so the text of a serialized pre-image is the text of the pre-image as it stands -/
theorem dumpsJ_ser (f : Fmt) (a : JTree) : dumpsJ f (ser a) = String.ofList (render f (ser a)) := by
  unfold dumpsJ; rw [ser_idem]

end C07
