import Hgxv.Model.C18
import Hgxv.Proofs.C18RW
/-! Helper lemmas of the C18 extension round: rows of `T` without connectivity, matrix powers, the t-step density,
linearity / mass of one density step, the inverse-cdf sampler. -/
namespace C18
open Finset

/-! ### rows of `T` -/

theorem deg2_pos_iff (es : List Edge) (i : Nat) : 0 < deg2 es i ↔ ∃ e ∈ es, i ∈ e ∧ 2 ≤ e.length := by
  unfold deg2
  induction es with
  | nil => simp
  | cons e es ih =>
    by_cases h : e.contains i = true
    · have hm : i ∈ e := by simpa using h
      simp only [List.filter_cons, h, if_true, List.map_cons, List.sum_cons, List.mem_cons, exists_eq_or_imp]
      constructor
      · intro hp
        by_cases h2 : 2 ≤ e.length
        · exact Or.inl ⟨hm, h2⟩
        · right
          apply ih.mp
          have : e.length - 1 = 0 := by omega
          rw [this] at hp; simpa using hp
      · rintro (⟨_, h2⟩ | hex)
        · have : 0 < (e.length - 1) * (e.length - 1) := Nat.mul_pos (by omega) (by omega)
          omega
        · have := ih.mpr hex; omega
    · have hm : i ∉ e := by simpa using h
      simp only [List.filter_cons, h, List.mem_cons, exists_eq_or_imp]
      rw [if_neg (by simp)]
      rw [ih]
      constructor
      · intro hex; exact Or.inr hex
      · rintro (⟨hi, _⟩ | hex)
        · exact absurd hi hm
        · exact hex

theorem kEntry_le_one (es : List Edge) (N i j : Nat) (hj : j < N) : kEntry es N i j ≤ 1 := by
  unfold kEntry
  by_cases hr : rowSum es N i = 0
  · simp [hr]
  · have hpos : (0 : ℚ) < (rowSum es N i : ℚ) := by
      have : 0 < rowSum es N i := Nat.pos_of_ne_zero hr
      exact_mod_cast this
    rw [div_le_one hpos]
    have : tEntry es i j ≤ rowSum es N i := by
      unfold rowSum; rw [natSum_eq]
      exact Finset.single_le_sum (f := fun j => tEntry es i j) (fun _ _ => Nat.zero_le _) (Finset.mem_range.mpr hj)
    exact_mod_cast this

/-! ### tables -/

theorem at2_table (N : Nat) (f : Nat → Nat → Rat) (i j : Nat) (hi : i < N) (hj : j < N) : at2 (table N f) i j = f i j := by
  simp [at2, table, hi, hj]

theorem sumTo_succ (n : Nat) (p : Nat → Rat) : sumTo (n + 1) p = sumTo n p + p n := by
  rw [sumTo_eq, sumTo_eq, Finset.sum_range_succ]

theorem kPow_zero (es : List Edge) (N i j : Nat) (hi : i < N) (hj : j < N) :
    kPow es N 0 i j = if i = j then 1 else 0 := by
  unfold kPow kPowMat; rw [at2_table N _ i j hi hj]

theorem kPow_succ (es : List Edge) (N t i j : Nat) (hi : i < N) (hj : j < N) :
    kPow es N (t + 1) i j = ∑ k ∈ range N, kEntry es N i k * kPow es N t k j := by
  unfold kPow
  rw [kPowMat, matMul, at2_table N _ i j hi hj, sumTo_eq]
  apply Finset.sum_congr rfl
  intro k hk
  rw [kMat, at2_table N _ i k hi (mem_range.mp hk)]

theorem kPow_nonneg (es : List Edge) (N : Nat) : ∀ (t i j : Nat), i < N → j < N → 0 ≤ kPow es N t i j := by
  intro t
  induction t with
  | zero => intro i j hi hj; rw [kPow_zero es N i j hi hj]; split <;> norm_num
  | succ t ih =>
    intro i j hi hj
    rw [kPow_succ es N t i j hi hj]
    apply Finset.sum_nonneg
    intro k hk
    exact mul_nonneg (kEntry_nonneg es N i k) (ih k j (mem_range.mp hk) hj)

theorem kPow_row_sum (es : List Edge) (N : Nat) (hr : ∀ i, i < N → 0 < rowSum es N i) :
    ∀ (t i : Nat), i < N → ∑ j ∈ range N, kPow es N t i j = 1 := by
  intro t
  induction t with
  | zero =>
    intro i hi
    have : ∀ j ∈ range N, kPow es N 0 i j = if i = j then 1 else 0 := fun j hj => kPow_zero es N i j hi (mem_range.mp hj)
    rw [Finset.sum_congr rfl this, Finset.sum_ite_eq]; simp [hi]
  | succ t ih =>
    intro i hi
    have : ∀ j ∈ range N, kPow es N (t + 1) i j = ∑ k ∈ range N, kEntry es N i k * kPow es N t k j :=
      fun j hj => kPow_succ es N t i j hi (mem_range.mp hj)
    rw [Finset.sum_congr rfl this, Finset.sum_comm]
    have h2 : ∀ k ∈ range N, ∑ j ∈ range N, kEntry es N i k * kPow es N t k j = kEntry es N i k := by
      intro k hk
      rw [← Finset.mul_sum, ih k (mem_range.mp hk), mul_one]
    rw [Finset.sum_congr rfl h2]
    exact kRow_sum es N i (hr i hi)

/-! ### densities -/

theorem vecOf_lt (v : List Rat) (i : Nat) (h : i < v.length) : vecOf v i = v[i] := by
  simp [vecOf, h]

theorem densityNext_length (es : List Edge) (N : Nat) (v : List Rat) : (densityNext es N v).length = N := by
  simp [densityNext]

theorem vecOf_densityNext (es : List Edge) (N : Nat) (v : List Rat) (k : Nat) (hk : k < N) :
    vecOf (densityNext es N v) k = ∑ i ∈ range N, vecOf v i * kEntry es N i k := by
  rw [vecOf_lt _ _ (by rw [densityNext_length]; exact hk)]
  simp [densityNext, densityStep, sumTo_eq]

theorem densityAt_eq (es : List Edge) (N t : Nat) (v : List Rat) :
    densityAt es N t v = (List.range N).map (fun j => sumTo N (fun i => vecOf v i * kPow es N t i j)) := rfl

theorem densityAt_zero (es : List Edge) (N : Nat) (v : List Rat) (hl : v.length = N) : densityAt es N 0 v = v := by
  apply List.ext_getElem
  · simp [densityAt_eq, hl]
  · intro j h1 h2
    have hj : j < N := by simpa [densityAt_eq] using h1
    simp only [densityAt_eq, List.getElem_map, List.getElem_range, sumTo_eq]
    have : ∀ i ∈ range N, vecOf v i * kPow es N 0 i j = if i = j then vecOf v i else 0 := by
      intro i hi
      rw [kPow_zero es N i j (mem_range.mp hi) hj]; split <;> simp
    rw [Finset.sum_congr rfl this, Finset.sum_ite_eq']
    simp [hj, vecOf_lt v j h2]

theorem densityAt_succ (es : List Edge) (N t : Nat) (v : List Rat) :
    densityAt es N (t + 1) v = densityAt es N t (densityNext es N v) := by
  rw [densityAt_eq, densityAt_eq]
  apply List.map_congr_left
  intro j hj
  have hj : j < N := by simpa using hj
  rw [sumTo_eq, sumTo_eq]
  have h1 : ∀ i ∈ range N, vecOf v i * kPow es N (t + 1) i j
      = ∑ k ∈ range N, vecOf v i * kEntry es N i k * kPow es N t k j := by
    intro i hi
    rw [kPow_succ es N t i j (mem_range.mp hi) hj, Finset.mul_sum]
    apply Finset.sum_congr rfl; intro k _; ring
  have h2 : ∀ k ∈ range N, vecOf (densityNext es N v) k * kPow es N t k j
      = ∑ i ∈ range N, vecOf v i * kEntry es N i k * kPow es N t k j := by
    intro k hk
    rw [vecOf_densityNext es N v k (mem_range.mp hk), Finset.sum_mul]
  rw [Finset.sum_congr rfl h1, Finset.sum_congr rfl h2, Finset.sum_comm]

theorem densityList_getElem (es : List Edge) (N : Nat) : ∀ (t : Nat) (v : List Rat), v.length = N → ∀ k, k ≤ t →
    (densityList es N t v)[k]? = some (densityAt es N k v) := by
  intro t
  induction t with
  | zero =>
    intro v hl k hk
    have : k = 0 := by omega
    subst this
    simp [densityList, densityAt_zero es N v hl]
  | succ t ih =>
    intro v hl k hk
    cases k with
    | zero => simp [densityList, densityAt_zero es N v hl]
    | succ k =>
      rw [densityList, List.getElem?_cons_succ, ih (densityNext es N v) (densityNext_length es N v) k (by omega),
        densityAt_succ]

theorem densityNext_sum (es : List Edge) (N : Nat) (hr : ∀ i, i < N → 0 < rowSum es N i) (v : List Rat)
    (hl : v.length = N) : (densityNext es N v).sum = v.sum := by
  have e1 : (densityNext es N v).sum = sumTo N (densityStep es N (vecOf v)) := rfl
  rw [e1, sumTo_eq, density_mass es N hr, ← sumTo_eq, ← hl, ← list_sum_eq_sumTo]

theorem densityList_mass (es : List Edge) (N : Nat) (hr : ∀ i, i < N → 0 < rowSum es N i) :
    ∀ (t : Nat) (v : List Rat), v.length = N → ∀ w ∈ densityList es N t v, w.length = N ∧ w.sum = v.sum := by
  intro t
  induction t with
  | zero => intro v hl w hw; simp [densityList] at hw; subst hw; exact ⟨hl, rfl⟩
  | succ t ih =>
    intro v hl w hw
    simp only [densityList, List.mem_cons] at hw
    rcases hw with rfl | hw
    · exact ⟨hl, rfl⟩
    · have := ih (densityNext es N v) (densityNext_length es N v) w hw
      rw [densityNext_sum es N hr v hl] at this; exact this

theorem densityNext_nonneg (es : List Edge) (N : Nat) (v : List Rat) (hv : ∀ x ∈ v, 0 ≤ x) :
    ∀ y ∈ densityNext es N v, 0 ≤ y := by
  intro y hy
  simp only [densityNext, List.mem_map, List.mem_range] at hy
  obtain ⟨j, _, rfl⟩ := hy
  unfold densityStep
  rw [sumTo_eq]
  apply Finset.sum_nonneg
  intro i _
  apply mul_nonneg _ (kEntry_nonneg es N i j)
  unfold vecOf
  by_cases h : i < v.length
  · simp [h]; exact hv _ (List.getElem_mem h)
  · simp [List.getD_eq_getElem?_getD, List.getElem?_eq_none (by omega : v.length ≤ i)]

theorem densityStep_linear (es : List Edge) (N : Nat) (a b : Rat) (s s' : Nat → Rat) (j : Nat) :
    densityStep es N (fun i => a * s i + b * s' i) j = a * densityStep es N s j + b * densityStep es N s' j := by
  unfold densityStep
  simp only [sumTo_eq]
  rw [Finset.mul_sum, Finset.mul_sum, ← Finset.sum_add_distrib]
  apply Finset.sum_congr rfl; intro i _; ring

theorem vecOf_zipWith (a b : Rat) (v w : List Rat) (hl : v.length = w.length) (i : Nat) :
    vecOf (List.zipWith (fun x y => a * x + b * y) v w) i = a * vecOf v i + b * vecOf w i := by
  unfold vecOf
  by_cases h : i < v.length
  · have h' : i < w.length := by omega
    simp [h, h']
  · have h' : ¬ i < w.length := by omega
    have hz : (List.zipWith (fun x y => a * x + b * y) v w).length ≤ i := by simp; omega
    simp [List.getD_eq_getElem?_getD, List.getElem?_eq_none (by omega : v.length ≤ i),
      List.getElem?_eq_none (by omega : w.length ≤ i), List.getElem?_eq_none hz]

theorem densityNext_linear (es : List Edge) (N : Nat) (a b : Rat) (v w : List Rat) (hl : v.length = w.length) :
    densityNext es N (List.zipWith (fun x y => a * x + b * y) v w)
      = List.zipWith (fun x y => a * x + b * y) (densityNext es N v) (densityNext es N w) := by
  apply List.ext_getElem
  · simp [densityNext]
  · intro j h1 h2
    simp only [densityNext, List.getElem_map, List.getElem_range, List.getElem_zipWith]
    rw [← densityStep_linear]
    congr 1
    funext i
    exact vecOf_zipWith a b v w hl i

/-! ### the stationary vector -/

theorem detailed_balance (es : List Edge) (N i j : Nat) (hi : 0 < rowSum es N i) (hj : 0 < rowSum es N j) :
    piEntry es N i * kEntry es N i j = piEntry es N j * kEntry es N j i := by
  unfold piEntry kEntry
  have h1 : (rowSum es N i : ℚ) ≠ 0 := by positivity
  have h2 : (rowSum es N j : ℚ) ≠ 0 := by positivity
  rw [tEntry_symm es j i]
  by_cases hS : sumTo N (fun k => (rowSum es N k : ℚ)) = 0
  · simp [hS]
  · field_simp

theorem piList_fixed (es : List Edge) (N : Nat) (hr : ∀ i, i < N → 0 < rowSum es N i) :
    densityNext es N ((List.range N).map (piEntry es N)) = (List.range N).map (piEntry es N) := by
  unfold densityNext
  apply List.map_congr_left
  intro j _
  unfold densityStep
  rw [sumTo_eq, ← pi_fixed es N hr j]
  apply Finset.sum_congr rfl
  intro i hi
  have hi' : i < N := mem_range.mp hi
  rw [vecOf_lt _ _ (by simpa using hi')]
  simp

theorem densityList_const (es : List Edge) (N : Nat) (v : List Rat) (hfix : densityNext es N v = v) :
    ∀ t, ∀ w ∈ densityList es N t v, w = v := by
  intro t
  induction t with
  | zero => intro w hw; simpa [densityList] using hw
  | succ t ih =>
    intro w hw
    simp only [densityList, List.mem_cons] at hw
    rcases hw with rfl | hw
    · rfl
    · rw [hfix] at hw; exact ih w hw

/-! ### the inverse-cdf sampler -/

theorem chooseFrom_spec (p : Nat → Rat) (u : Rat) : ∀ (n j : Nat), sumTo j p ≤ u → u < sumTo (j + n) p →
    j ≤ chooseFrom p u n j (sumTo j p) ∧ chooseFrom p u n j (sumTo j p) < j + n
    ∧ sumTo (chooseFrom p u n j (sumTo j p)) p ≤ u ∧ u < sumTo (chooseFrom p u n j (sumTo j p) + 1) p := by
  intro n
  induction n with
  | zero => intro j h1 h2; simp at h2; linarith
  | succ n ih =>
    intro j h1 h2
    unfold chooseFrom
    by_cases h : u < sumTo j p + p j
    · rw [if_pos h]
      exact ⟨Nat.le_refl _, by omega, h1, by rw [sumTo_succ]; exact h⟩
    · rw [if_neg h, ← sumTo_succ]
      have h3 : sumTo (j + 1) p ≤ u := by rw [sumTo_succ]; linarith
      have h4 : u < sumTo (j + 1 + n) p := by rw [show j + 1 + n = j + (n + 1) by omega]; exact h2
      obtain ⟨a, b, c, d⟩ := ih (j + 1) h3 h4
      exact ⟨by omega, by omega, c, d⟩

theorem chooseIdx_spec (p : Nat → Rat) (N : Nat) (u : Rat) (h0 : 0 ≤ u) (h1 : u < sumTo N p) :
    chooseIdx p N u < N ∧ 0 < p (chooseIdx p N u)
    ∧ sumTo (chooseIdx p N u) p ≤ u ∧ u < sumTo (chooseIdx p N u + 1) p := by
  have hz : sumTo 0 p = 0 := by simp [sumTo]
  have := chooseFrom_spec p u N 0 (by rw [hz]; exact h0) (by simpa using h1)
  rw [hz] at this
  obtain ⟨_, b, c, d⟩ := this
  refine ⟨by simpa [chooseIdx] using b, ?_, c, d⟩
  · have e : sumTo (chooseIdx p N u + 1) p = sumTo (chooseIdx p N u) p + p (chooseIdx p N u) := sumTo_succ _ _
    unfold chooseIdx at e ⊢
    linarith

end C18
