import Hgxv.Model.C19C
import Hgxv.Proofs.C19B
import Mathlib.Data.List.Nodup
/-! C19 extension round: combinatorics of `get_svc` (statistically validated cores).

`combos k b` (= `itertools.combinations(b, k)`) lists exactly the sublists of length `k`, each once when `b` has no
repetition; the count of a group is the number of occurrences it is a sublist of (= the sum of the weights of the
hyperedges containing it); the tested groups of an order are the `order`-sublists of the occurrences that are not a
sublist of a group validated before; the loop threads the validated groups of the earlier (higher) orders. -/
namespace C19
set_option linter.unusedSectionVars false
set_option linter.unusedSimpArgs false
set_option linter.unusedVariables false

theorem mem_combos {α : Type} (k : Nat) (b g : List α) : g ∈ combos k b ↔ g.Sublist b ∧ g.length = k := by
  induction b generalizing k g with
  | nil =>
    cases k with
    | zero => simp [combos]
    | succ k =>
      simp only [combos, List.not_mem_nil, false_iff, not_and]
      intro h; rw [List.sublist_nil.mp h]; simp
  | cons x xs ih =>
    cases k with
    | zero =>
      simp only [combos, List.mem_singleton, List.length_eq_zero_iff]
      constructor
      · rintro rfl; exact ⟨List.nil_sublist _, rfl⟩
      · exact fun h => h.2
    | succ k =>
      simp only [combos, List.mem_append, List.mem_map, ih]
      constructor
      · rintro (⟨g', ⟨hs, hl⟩, rfl⟩ | ⟨hs, hl⟩)
        · exact ⟨hs.cons_cons x, by simp [hl]⟩
        · exact ⟨hs.cons x, hl⟩
      · rintro ⟨hs, hl⟩
        cases hs with
        | cons _ h => right; exact ⟨h, hl⟩
        | cons_cons _ h => left; exact ⟨_, ⟨h, by simpa using hl⟩, rfl⟩

theorem combos_nodup {α : Type} (k : Nat) (b : List α) (hb : b.Nodup) : (combos k b).Nodup := by
  induction b generalizing k with
  | nil => cases k <;> simp [combos]
  | cons x xs ih =>
    cases k with
    | zero => simp [combos]
    | succ k =>
      have hx := List.nodup_cons.mp hb
      simp only [combos]
      refine List.Nodup.append ?_ (ih _ hx.2) ?_
      · exact List.Pairwise.map _ (fun a b hab h => hab (List.cons.inj h).2) (ih k hx.2)
      · intro g hg1 hg2
        obtain ⟨g', _, rfl⟩ := List.mem_map.mp hg1
        have := ((mem_combos _ _ _).mp hg2).1
        exact hx.1 (this.subset List.mem_cons_self)

/-- `groups[g]` = number of occurrences of which `g` is a sublist (occurrences are repetition-free tuples) -/
theorem countOf_eq (occ : List (List Nat)) (hnd : ∀ b ∈ occ, b.Nodup) (k : Nat) (g : List Nat) (hg : g.length = k) :
    countOf occ k g = (occ.filter (fun b => g.isSublist b)).length := by
  unfold countOf pairsOf
  induction occ with
  | nil => simp
  | cons b bs ih =>
    have ihh := ih (fun c hc => hnd c (List.mem_cons_of_mem _ hc))
    have hcount : (combos k b).count g = if g.isSublist b then 1 else 0 := by
      split
      · rename_i h
        exact List.count_eq_one_of_mem (combos_nodup k b (hnd b List.mem_cons_self))
          ((mem_combos k b g).mpr ⟨List.isSublist_iff_sublist.mp h, hg⟩)
      · rename_i h
        exact List.count_eq_zero_of_not_mem
          (fun hm => h (List.isSublist_iff_sublist.mpr ((mem_combos k b g).mp hm).1))
    by_cases hlen : k ≤ b.length
    · simp only [List.filter_cons, hlen, decide_true, if_true, List.flatMap_cons, List.count_append, hcount, ihh]
      by_cases hs : g.isSublist b = true
      · simp [hs]; omega
      · simp [hs]
    · have hs : ¬ g.isSublist b = true := by
        intro h
        have := (List.isSublist_iff_sublist.mp h).length_le
        omega
      simp only [List.filter_cons, hlen, decide_false, hs, if_false, Bool.false_eq_true]
      exact ihh

theorem expand_nodup (edges : List (List Nat × Nat)) (h : ∀ f ∈ edges, f.1.Nodup) : ∀ b ∈ expand edges, b.Nodup := by
  intro b hb
  obtain ⟨w, hw, _⟩ := (mem_expand edges b).mp hb
  exact h (b, w) hw

/-- counting = summing weights: `w(g)` is the total weight of the hyperedges that contain the group -/
theorem countOf_weight (edges : List (List Nat × Nat)) (h : ∀ f ∈ edges, f.1.Nodup) (k : Nat) (g : List Nat)
    (hg : g.length = k) :
    countOf (expand edges) k g = ((edges.filter (fun f => g.isSublist f.1)).map (·.2)).sum := by
  rw [countOf_eq _ (expand_nodup edges h) k g hg, length_filter_expand]

theorem degAll_eq (occ : List (List Nat)) (hnd : ∀ b ∈ occ, b.Nodup) (i : Nat) :
    degAll occ i = (occ.filter (fun b => b.contains i)).length := by
  unfold degAll
  induction occ with
  | nil => simp
  | cons b bs ih =>
    have ihh := ih (fun c hc => hnd c (List.mem_cons_of_mem _ hc))
    rw [List.flatten_cons, List.count_append, ihh]
    by_cases hi : i ∈ b
    · have : b.contains i = true := by simpa using hi
      rw [List.count_eq_one_of_mem (hnd b List.mem_cons_self) hi]
      simp only [List.filter_cons, this, if_true, List.length_cons]; omega
    · have : ¬ b.contains i = true := by simpa using hi
      rw [List.count_eq_zero_of_not_mem hi]
      simp only [List.filter_cons, this, if_false, Bool.false_eq_true]; omega

/-- `deg_a[i]` is the total weight of the hyperedges (of every size) containing the node -/
theorem degAll_weight (edges : List (List Nat × Nat)) (h : ∀ f ∈ edges, f.1.Nodup) (i : Nat) :
    degAll (expand edges) i = ((edges.filter (fun f => f.1.contains i)).map (·.2)).sum := by
  rw [degAll_eq _ (expand_nodup edges h), length_filter_expand]

/-- `N` is the total weight -/
theorem expand_length (edges : List (List Nat × Nat)) : (expand edges).length = (edges.map (·.2)).sum := by
  have := length_filter_expand edges (fun _ => true)
  simpa using this

theorem mem_pairsOf (occ : List (List Nat)) (k : Nat) (g : List Nat) :
    g ∈ pairsOf occ k ↔ g.length = k ∧ ∃ b ∈ occ, g.Sublist b := by
  simp only [pairsOf, List.mem_flatMap, List.mem_filter, decide_eq_true_eq, mem_combos]
  constructor
  · rintro ⟨b, ⟨hb, _⟩, hs, hl⟩; exact ⟨hl, b, hb, hs⟩
  · rintro ⟨hl, b, hb, hs⟩; exact ⟨b, ⟨hb, by have := hs.length_le; omega⟩, hs, hl⟩

theorem mem_dropOf (sg : List (List Nat)) (k : Nat) (g : List Nat) :
    g ∈ dropOf sg k ↔ g.length = k ∧ ∃ v ∈ sg, g.Sublist v := by
  simp only [dropOf, List.mem_flatMap, mem_combos]
  constructor
  · rintro ⟨v, hv, hs, hl⟩; exact ⟨hl, v, hv, hs⟩
  · rintro ⟨hl, v, hv, hs⟩; exact ⟨v, hv, hs, hl⟩

/-- the tested groups of an order -/
theorem mem_groupsOf (occ sg : List (List Nat)) (k : Nat) (g : List Nat) :
    g ∈ groupsOf occ sg k ↔ g.length = k ∧ (∃ b ∈ occ, g.Sublist b) ∧ ¬ ∃ v ∈ sg, g.Sublist v := by
  simp only [groupsOf, List.mem_filter, mem_dedup, mem_pairsOf, Bool.not_eq_true', List.contains_eq_mem,
    decide_eq_false_iff_not, mem_dropOf]
  constructor
  · rintro ⟨⟨hl, hb⟩, hno⟩; exact ⟨hl, hb, fun hv => hno ⟨hl, hv⟩⟩
  · rintro ⟨hl, hb, hno⟩; exact ⟨⟨hl, hb⟩, fun hv => hno hv.2⟩

theorem groupsOf_nodup (occ sg : List (List Nat)) (k : Nat) : (groupsOf occ sg k).Nodup :=
  (dedup_nodup _).filter _

theorem coreRows_edges (sf : Nat → Nat → Rat → Rat) (occ sg : List (List Nat)) (k : Nat) :
    (coreRows sf occ sg k).map (·.edge) = groupsOf occ sg k := by
  simp [coreRows, List.map_map, Function.comp_def]

theorem coreTable_edges (sf : Nat → Nat → Rat → Rat) (alpha : Rat) (occ sg : List (List Nat)) (k : Nat) :
    (coreTable sf alpha occ sg k).rows.map (·.1.edge) = groupsOf occ sg k := by
  simp only [coreTable, List.map_map, Function.comp_def]
  exact coreRows_edges sf occ sg k

theorem validGroups_sub (t : CoreTable) (g : List Nat) (h : g ∈ validGroups t) : g ∈ t.rows.map (·.1.edge) := by
  simp only [validGroups, List.mem_map, List.mem_filter] at h ⊢
  obtain ⟨r, ⟨hr, _⟩, rfl⟩ := h
  exact ⟨r, hr, rfl⟩

theorem coreLoop_length (sf : Nat → Nat → Rat → Rat) (alpha : Rat) (occ : List (List Nat)) (os : List Nat)
    (sg : List (List Nat)) : (coreLoop sf alpha occ os sg).length = os.length := by
  induction os generalizing sg with
  | nil => rfl
  | cons o os ih => simp [coreLoop, ih]

theorem coreLoop_orders (sf : Nat → Nat → Rat → Rat) (alpha : Rat) (occ : List (List Nat)) (os : List Nat)
    (sg : List (List Nat)) : (coreLoop sf alpha occ os sg).map (·.order) = os := by
  induction os generalizing sg with
  | nil => rfl
  | cons o os ih => simp [coreLoop, ih, coreTable]

/-- the frame at position `i` is the loop body run on the groups validated in the frames before it -/
theorem coreLoop_getElem (sf : Nat → Nat → Rat → Rat) (alpha : Rat) (occ : List (List Nat)) (os : List Nat)
    (sg : List (List Nat)) (i : Nat) (h : i < os.length) :
    (coreLoop sf alpha occ os sg)[i]'(by rw [coreLoop_length]; exact h) =
      coreTable sf alpha occ (sg ++ ((coreLoop sf alpha occ os sg).take i).flatMap validGroups) os[i] := by
  induction os generalizing sg i with
  | nil => simp at h
  | cons o os ih =>
    cases i with
    | zero => simp [coreLoop]
    | succ i =>
      simp only [coreLoop, List.getElem_cons_succ, List.take_succ_cons, List.flatMap_cons]
      rw [ih (sg ++ validGroups (coreTable sf alpha occ sg o)) i (by simpa using h), List.append_assoc]

theorem mem_ordersDesc (lo hi o : Nat) : o ∈ ordersDesc lo hi ↔ lo ≤ o ∧ o ≤ hi := by
  simp only [ordersDesc, List.mem_map, List.mem_range]
  constructor
  · rintro ⟨i, hi', rfl⟩; omega
  · rintro ⟨h1, h2⟩; exact ⟨hi - o, by omega, by omega⟩

theorem ordersDesc_getElem (lo hi i : Nat) (h : i < (ordersDesc lo hi).length) : (ordersDesc lo hi)[i] = hi - i := by
  simp [ordersDesc]

theorem ordersDesc_length (lo hi : Nat) : (ordersDesc lo hi).length = hi + 1 - lo := by
  simp [ordersDesc]

theorem foldl_max_spec (bs : List (List Nat)) (m0 : Nat) :
    m0 ≤ bs.foldl (fun m c => max m c.length) m0 ∧ (∀ b ∈ bs, b.length ≤ bs.foldl (fun m c => max m c.length) m0) ∧
    (bs.foldl (fun m c => max m c.length) m0 = m0 ∨ ∃ b ∈ bs, b.length = bs.foldl (fun m c => max m c.length) m0) := by
  induction bs generalizing m0 with
  | nil => simp
  | cons b bs ih =>
    obtain ⟨h1, h2, h3⟩ := ih (max m0 b.length)
    simp only [List.foldl_cons, List.mem_cons, forall_eq_or_imp]
    refine ⟨by omega, ⟨by omega, h2⟩, ?_⟩
    rcases h3 with h3 | ⟨c, hc, h3⟩
    · rcases Nat.le_total m0 b.length with hle | hle
      · right; exact ⟨b, Or.inl rfl, by rw [h3]; omega⟩
      · left; rw [h3]; omega
    · right; exact ⟨c, Or.inr hc, h3⟩

/-- `max(map(len, observables))` -/
theorem maxLen_spec (occ : List (List Nat)) :
    (maxLen occ = none ↔ occ = []) ∧
    ∀ m, maxLen occ = some m → (∃ b ∈ occ, b.length = m) ∧ ∀ b ∈ occ, b.length ≤ m := by
  cases occ with
  | nil => simp [maxLen]
  | cons b bs =>
    refine ⟨by simp [maxLen], ?_⟩
    intro m hm
    simp only [maxLen, Option.some.injEq] at hm
    obtain ⟨h1, h2, h3⟩ := foldl_max_spec bs b.length
    rw [hm] at h1 h2 h3
    refine ⟨?_, ?_⟩
    · rcases h3 with h3 | ⟨c, hc, h3⟩
      · exact ⟨b, List.mem_cons_self, h3.symm⟩
      · exact ⟨c, List.mem_cons_of_mem _ hc, h3⟩
    · intro c hc
      rcases List.mem_cons.mp hc with rfl | hc
      · exact h1
      · exact h2 c hc

end C19
