import Hgxv.Model.C18
import Hgxv.Proofs.C18Cont
import Mathlib.Algebra.Order.Field.Rat
import Mathlib.Tactic.Linarith
/-! More lemmas for C18, contagion part: set-wise monotonicity, keys outside `nodes`, absorption,
horizon prefix, locality in the draw stream. -/
namespace C18

theorem runStates_succ (es : List Edge) (nodes keys : List Nat) (r : Rates) (f : Nat → Rat)
    (n : Nat) (I : Nat → Bool) (p : Nat) :
    runStates es nodes keys r f (n + 1) I p =
      if infected keys I = 0 then List.replicate (n + 1) (I, p)
      else step es nodes r f I p ::
        runStates es nodes keys r f n (step es nodes r f I p).1 (step es nodes r f I p).2 := by
  rw [runStates]

/-! ### 1. set-wise monotonicity -/

theorem runStates_adj (es : List Edge) (nodes keys : List Nat) (r : Rates) (f : Nat → Rat)
    (R : (Nat → Bool) → (Nat → Bool) → Prop)
    (hrefl : ∀ I, R I I) (hstep : ∀ I p, R I (step es nodes r f I p).1) :
    ∀ (n : Nat) (I : Nat → Bool) (p : Nat),
      Adj (fun a b => R a.1 b.1) ((I, p) :: runStates es nodes keys r f n I p) := by
  intro n
  induction n with
  | zero => intro I p; exact adj_single _ _
  | succ n ih =>
    intro I p
    rw [runStates_succ]
    split
    · have e : (I, p) :: List.replicate (n + 1) (I, p) = List.replicate (n + 2) (I, p) := rfl
      rw [e]
      exact adj_replicate (fun a b : (Nat → Bool) × Nat => R a.1 b.1) (I, p) (hrefl I) (n + 2)
    · exact adj_cons _ _ _ _ (hstep I p) (ih _ _)

theorem run_set_grows (es : List Edge) (nodes keys : List Nat) (hnd : nodes.Nodup) (r : Rates)
    (f : Nat → Rat) (hf : UnitDraws f) (hmu : r.mu = 0) (n : Nat) (I : Nat → Bool) (p : Nat) :
    Adj (fun a b => ∀ v, a.1 v = true → b.1 v = true)
      ((I, p) :: runStates es nodes keys r f n I p) :=
  runStates_adj es nodes keys r f (fun a b => ∀ v, a v = true → b v = true)
    (fun _ _ h => h)
    (fun I p v hv => step_mu0 es nodes hnd r f (fun n => (hf n).1) hmu I p v hv) n I p

theorem run_set_shrinks (es : List Edge) (nodes keys : List Nat) (hnd : nodes.Nodup) (r : Rates)
    (f : Nat → Rat) (hf : UnitDraws f) (hb : r.beta = 0) (hbd : r.betaD = 0)
    (n : Nat) (I : Nat → Bool) (p : Nat) :
    Adj (fun a b => ∀ v, b.1 v = true → a.1 v = true)
      ((I, p) :: runStates es nodes keys r f n I p) :=
  runStates_adj es nodes keys r f (fun a b => ∀ v, b v = true → a v = true)
    (fun _ _ h => h)
    (fun I p v hv => step_beta0 es nodes hnd r f (fun n => (hf n).1) hb hbd I p v hv) n I p

/-! ### 2. keys outside `nodes` -/

theorem run_outside_unchanged (es : List Edge) (nodes keys : List Nat) (hnd : nodes.Nodup) (r : Rates)
    (f : Nat → Rat) : ∀ (n : Nat) (I : Nat → Bool) (p : Nat),
    ∀ s ∈ runStates es nodes keys r f n I p, ∀ u, u ∉ nodes → s.1 u = I u := by
  intro n
  induction n with
  | zero => intro I p s hs; simp [runStates] at hs
  | succ n ih =>
    intro I p s hs u hu
    rw [runStates_succ] at hs
    split at hs
    · rw [List.eq_of_mem_replicate hs]
    · rcases List.mem_cons.mp hs with rfl | hs
      · exact (step_spec es nodes hnd r f I p).1 u hu
      · rw [ih _ _ s hs u hu]
        exact (step_spec es nodes hnd r f I p).1 u hu

/-! ### 3. absorption and horizon prefix -/

theorem runStates_take (es : List Edge) (nodes keys : List Nat) (r : Rates) (f : Nat → Rat) :
    ∀ (n : Nat) (I : Nat → Bool) (p : Nat),
      runStates es nodes keys r f n I p = (runStates es nodes keys r f (n + 1) I p).take n := by
  intro n
  induction n with
  | zero => intro I p; simp [runStates]
  | succ n ih =>
    intro I p
    rw [runStates_succ es nodes keys r f (n + 1), runStates_succ es nodes keys r f n]
    by_cases hz : infected keys I = 0
    · simp only [hz, if_true, List.take_replicate]
      congr 1; omega
    · simp only [hz, if_false, List.take_succ_cons]
      rw [← ih]

theorem counts_prefix (es : List Edge) (nodes keys : List Nat) (r : Rates) (f : Nat → Rat)
    (I0 : Nat → Bool) (T : Nat) (hT : 1 ≤ T) :
    counts es nodes keys r f I0 T = (counts es nodes keys r f I0 (T + 1)).take T := by
  obtain ⟨k, rfl⟩ : ∃ k, T = k + 1 := ⟨T - 1, by omega⟩
  unfold counts
  simp only [Nat.add_sub_cancel, List.take_succ_cons]
  rw [← List.map_take, ← runStates_take]

theorem run_absorbing (es : List Edge) (nodes keys : List Nat) (r : Rates) (f : Nat → Rat) :
    ∀ (n : Nat) (I : Nat → Bool) (p : Nat) (t : Nat),
      (infected keys I :: (runStates es nodes keys r f n I p).map (fun s => infected keys s.1))[t]? = some 0 →
      ∀ t', t ≤ t' → t' < n + 1 →
        (infected keys I :: (runStates es nodes keys r f n I p).map (fun s => infected keys s.1))[t']? = some 0 := by
  intro n
  induction n with
  | zero =>
    intro I p t h t' h1 h2
    have : t' = 0 := by omega
    subst this
    have : t = 0 := by omega
    subst this
    exact h
  | succ n ih =>
    intro I p t h t' h1 h2
    rw [runStates_succ] at h ⊢
    by_cases hz : infected keys I = 0
    · simp only [hz, if_true, List.map_replicate]
      have e : (0 : Nat) :: List.replicate (n + 1) 0 = List.replicate (n + 2) 0 := rfl
      rw [e, List.getElem?_replicate]
      simp [h2]
    · simp only [hz, if_false, List.map_cons] at h ⊢
      cases t with
      | zero => simp at h; exact absurd h hz
      | succ t =>
        cases t' with
        | zero => omega
        | succ t' =>
          rw [List.getElem?_cons_succ] at h ⊢
          exact ih _ _ t h t' (by omega) (by omega)

theorem counts_absorbing (es : List Edge) (nodes keys : List Nat) (r : Rates) (f : Nat → Rat)
    (I0 : Nat → Bool) (T : Nat) (t : Nat) (h : (counts es nodes keys r f I0 T)[t]? = some 0) :
    ∀ t', t ≤ t' → t' < T → (counts es nodes keys r f I0 T)[t']? = some 0 := by
  intro t' h1 h2
  unfold counts at h ⊢
  exact run_absorbing es nodes keys r f (T - 1) I0 0 t h t' h1 (by omega)

/-! ### 4. locality in the draw stream -/

theorem loopHits_pos_le (f : Nat → Rat) (rate : Rat) (cs : List Bool) (p : Nat) :
    p ≤ (loopHits f rate cs p).2 := by
  induction cs generalizing p with
  | nil => simp [loopHits]
  | cons c cs ih =>
    simp only [loopHits]
    split
    · split
      · simp
      · exact le_trans (Nat.le_succ p) (ih (p + 1))
    · exact ih p

theorem loopHits_congr (f g : Nat → Rat) (rate : Rat) (cs : List Bool) (p : Nat)
    (h : ∀ q, p ≤ q → q < (loopHits f rate cs p).2 → f q = g q) :
    loopHits g rate cs p = loopHits f rate cs p := by
  induction cs generalizing p with
  | nil => simp [loopHits]
  | cons c cs ih =>
    cases c with
    | false =>
      simp only [loopHits, Bool.false_eq_true, if_false] at h ⊢
      exact ih p h
    | true =>
      have hp : f p = g p := by
        apply h p le_rfl
        simp only [loopHits, if_true]
        split
        · simp
        · have := loopHits_pos_le f rate cs (p + 1); omega
      simp only [loopHits, if_true] at h ⊢
      rw [← hp]
      by_cases hlt : f p < rate
      · simp only [hlt, if_true]
      · simp only [hlt, if_false] at h ⊢
        exact ih (p + 1) (fun q hq hq' => h q (by omega) hq')

theorem nodeStep_pos_le (es : List Edge) (nodes : List Nat) (r : Rates) (f : Nat → Rat)
    (Iold : Nat → Bool) (st : (Nat → Bool) × Nat) (v : Nat) :
    st.2 ≤ (nodeStep es nodes r f Iold st v).2 := by
  have h1 := loopHits_pos_le f r.beta ((pairNbrs es nodes v).map Iold) st.2
  have h2 := loopHits_pos_le f r.betaD ((triplets es v).map (triHit Iold v))
    (loopHits f r.beta ((pairNbrs es nodes v).map Iold) st.2).2
  unfold nodeStep
  dsimp only
  split_ifs <;> simp only <;> omega

theorem nodeStep_congr (es : List Edge) (nodes : List Nat) (r : Rates) (f g : Nat → Rat)
    (Iold : Nat → Bool) (st : (Nat → Bool) × Nat) (v : Nat)
    (h : ∀ q, st.2 ≤ q → q < (nodeStep es nodes r f Iold st v).2 → f q = g q) :
    nodeStep es nodes r g Iold st v = nodeStep es nodes r f Iold st v := by
  by_cases hI : Iold v = false
  · have h1 := loopHits_pos_le f r.beta ((pairNbrs es nodes v).map Iold) st.2
    have h2 := loopHits_pos_le f r.betaD ((triplets es v).map (triHit Iold v))
      (loopHits f r.beta ((pairNbrs es nodes v).map Iold) st.2).2
    have ha2 : (loopHits f r.beta ((pairNbrs es nodes v).map Iold) st.2).2
        ≤ (nodeStep es nodes r f Iold st v).2 := by
      unfold nodeStep
      simp only [hI, if_true]
      generalize (if (loopHits f r.beta ((pairNbrs es nodes v).map Iold) st.2).1 = true
        then setI st.1 v true else st.1) = I1
      by_cases hc : I1 v = true
      · rw [if_pos hc]
      · rw [if_neg hc]; exact h2
    have ea : loopHits g r.beta ((pairNbrs es nodes v).map Iold) st.2
        = loopHits f r.beta ((pairNbrs es nodes v).map Iold) st.2 :=
      loopHits_congr f g _ _ _ (fun q hq hq' => h q hq (by omega))
    unfold nodeStep at h ⊢
    simp only [hI, if_true, ea] at h ⊢
    generalize (if (loopHits f r.beta ((pairNbrs es nodes v).map Iold) st.2).1 = true
      then setI st.1 v true else st.1) = I1 at h ⊢
    by_cases hc : I1 v = true
    · rw [if_pos hc, if_pos hc]
    · rw [if_neg hc] at h
      rw [if_neg hc, if_neg hc]
      have eb := loopHits_congr f g r.betaD ((triplets es v).map (triHit Iold v))
        (loopHits f r.beta ((pairNbrs es nodes v).map Iold) st.2).2
        (fun q hq hq' => h q (by omega) hq')
      rw [eb]
  · have hI' : Iold v = true := by simpa using hI
    have hp : f st.2 = g st.2 := by
      apply h st.2 le_rfl
      unfold nodeStep
      simp only [hI', Bool.true_eq_false, if_false]
      split <;> simp
    unfold nodeStep
    simp only [hI', Bool.true_eq_false, if_false, hp]

theorem foldNode_pos_le (es : List Edge) (nodes : List Nat) (r : Rates) (f : Nat → Rat)
    (Iold : Nat → Bool) : ∀ (l : List Nat) (st : (Nat → Bool) × Nat),
    st.2 ≤ (l.foldl (nodeStep es nodes r f Iold) st).2 := by
  intro l
  induction l with
  | nil => intro st; exact le_rfl
  | cons v l ih =>
    intro st
    rw [List.foldl_cons]
    exact le_trans (nodeStep_pos_le es nodes r f Iold st v) (ih _)

theorem foldNode_congr (es : List Edge) (nodes : List Nat) (r : Rates) (f g : Nat → Rat)
    (Iold : Nat → Bool) : ∀ (l : List Nat) (st : (Nat → Bool) × Nat),
    (∀ q, st.2 ≤ q → q < (l.foldl (nodeStep es nodes r f Iold) st).2 → f q = g q) →
    l.foldl (nodeStep es nodes r g Iold) st = l.foldl (nodeStep es nodes r f Iold) st := by
  intro l
  induction l with
  | nil => intro st _; rfl
  | cons v l ih =>
    intro st h
    rw [List.foldl_cons, List.foldl_cons] at *
    have e : nodeStep es nodes r g Iold st v = nodeStep es nodes r f Iold st v :=
      nodeStep_congr es nodes r f g Iold st v
        (fun q hq hq' => h q hq (lt_of_lt_of_le hq' (foldNode_pos_le es nodes r f Iold l _)))
    rw [e]
    exact ih _ (fun q hq hq' => h q (le_trans (nodeStep_pos_le es nodes r f Iold st v) hq) hq')

theorem step_pos_le (es : List Edge) (nodes : List Nat) (r : Rates) (f : Nat → Rat)
    (I : Nat → Bool) (p : Nat) : p ≤ (step es nodes r f I p).2 :=
  foldNode_pos_le es nodes r f I nodes (I, p)

theorem step_congr (es : List Edge) (nodes : List Nat) (r : Rates) (f g : Nat → Rat)
    (I : Nat → Bool) (p : Nat)
    (h : ∀ q, p ≤ q → q < (step es nodes r f I p).2 → f q = g q) :
    step es nodes r g I p = step es nodes r f I p :=
  foldNode_congr es nodes r f g I nodes (I, p) h

theorem runStates_congr (es : List Edge) (nodes keys : List Nat) (r : Rates) (f g : Nat → Rat)
    (M : Nat) (hfg : ∀ q, q < M → f q = g q) :
    ∀ (n : Nat) (I : Nat → Bool) (p : Nat),
      (∀ s ∈ runStates es nodes keys r f n I p, s.2 ≤ M) →
      runStates es nodes keys r g n I p = runStates es nodes keys r f n I p := by
  intro n
  induction n with
  | zero => intro I p _; rfl
  | succ n ih =>
    intro I p hM
    rw [runStates_succ] at hM
    rw [runStates_succ, runStates_succ]
    by_cases hz : infected keys I = 0
    · simp only [hz, if_true]
    · simp only [hz, if_false] at hM ⊢
      have e : step es nodes r g I p = step es nodes r f I p :=
        step_congr es nodes r f g I p
          (fun q _ hq' => hfg q (lt_of_lt_of_le hq' (hM _ List.mem_cons_self)))
      rw [e, ih _ _ (fun s hs => hM s (List.mem_cons_of_mem _ hs))]

/-- positions never decrease -/
theorem runStates_pos_ge (es : List Edge) (nodes keys : List Nat) (r : Rates) (f : Nat → Rat) :
    ∀ (n : Nat) (I : Nat → Bool) (p : Nat), ∀ s ∈ runStates es nodes keys r f n I p, p ≤ s.2 := by
  intro n
  induction n with
  | zero => intro I p s hs; simp [runStates] at hs
  | succ n ih =>
    intro I p s hs
    rw [runStates_succ] at hs
    split at hs
    · rw [List.eq_of_mem_replicate hs]
    · rcases List.mem_cons.mp hs with rfl | hs
      · exact step_pos_le es nodes r f I p
      · exact le_trans (step_pos_le es nodes r f I p) (ih _ _ s hs)

theorem runStates_pos_mono (es : List Edge) (nodes keys : List Nat) (r : Rates) (f : Nat → Rat) :
    ∀ (n : Nat) (I : Nat → Bool) (p : Nat),
      Adj (fun a b => a.2 ≤ b.2) ((I, p) :: runStates es nodes keys r f n I p) := by
  intro n
  induction n with
  | zero => intro I p; exact adj_single _ _
  | succ n ih =>
    intro I p
    rw [runStates_succ]
    split
    · have e : (I, p) :: List.replicate (n + 1) (I, p) = List.replicate (n + 2) (I, p) := rfl
      rw [e]
      exact adj_replicate (fun a b : (Nat → Bool) × Nat => a.2 ≤ b.2) (I, p) le_rfl (n + 2)
    · exact adj_cons _ _ _ _ (step_pos_le es nodes r f I p) (ih _ _)

/-- every state's position is at most the position of the last state -/
theorem runStates_pos_le_last (es : List Edge) (nodes keys : List Nat) (r : Rates) (f : Nat → Rat) :
    ∀ (n : Nat) (I : Nat → Bool) (p : Nat) (l : (Nat → Bool) × Nat),
      (runStates es nodes keys r f n I p).getLast? = some l →
      ∀ s ∈ runStates es nodes keys r f n I p, s.2 ≤ l.2 := by
  intro n
  induction n with
  | zero => intro I p l _ s hs; simp [runStates] at hs
  | succ n ih =>
    intro I p l hl s hs
    rw [runStates_succ] at hl hs
    by_cases hz : infected keys I = 0
    · simp only [hz, if_true] at hl hs
      rw [List.eq_of_mem_replicate hs, List.eq_of_mem_replicate (List.mem_of_getLast? hl)]
    · simp only [hz, if_false] at hl hs
      cases hrest : runStates es nodes keys r f n (step es nodes r f I p).1 (step es nodes r f I p).2 with
      | nil =>
        rw [hrest] at hl hs
        simp at hl hs
        rw [hs, ← hl]
      | cons b rest =>
        have hl' : (runStates es nodes keys r f n (step es nodes r f I p).1
            (step es nodes r f I p).2).getLast? = some l := by
          rw [hrest] at hl ⊢
          rw [List.getLast?_cons_cons] at hl
          exact hl
        rcases List.mem_cons.mp hs with rfl | hs
        · exact runStates_pos_ge es nodes keys r f n _ _ l (List.mem_of_getLast? hl')
        · exact ih _ _ l hl' s hs

theorem consumed_bound (es : List Edge) (nodes keys : List Nat) (r : Rates) (f : Nat → Rat)
    (I0 : Nat → Bool) (T : Nat) :
    ∀ s ∈ runStates es nodes keys r f (T - 1) I0 0, s.2 ≤ consumed es nodes keys r f I0 T := by
  intro s hs
  unfold consumed
  cases hl : (runStates es nodes keys r f (T - 1) I0 0).getLast? with
  | none =>
    rw [List.getLast?_eq_none_iff] at hl
    rw [hl] at hs; simp at hs
  | some l => exact runStates_pos_le_last es nodes keys r f (T - 1) I0 0 l hl s hs

theorem counts_congr (es : List Edge) (nodes keys : List Nat) (r : Rates) (f g : Nat → Rat)
    (I0 : Nat → Bool) (T : Nat)
    (h : ∀ q, q < consumed es nodes keys r f I0 T → f q = g q) :
    counts es nodes keys r g I0 T = counts es nodes keys r f I0 T
    ∧ fractions es nodes keys r g I0 T = fractions es nodes keys r f I0 T
    ∧ consumed es nodes keys r g I0 T = consumed es nodes keys r f I0 T := by
  have e : runStates es nodes keys r g (T - 1) I0 0 = runStates es nodes keys r f (T - 1) I0 0 :=
    runStates_congr es nodes keys r f g _ h (T - 1) I0 0 (consumed_bound es nodes keys r f I0 T)
  have ec : counts es nodes keys r g I0 T = counts es nodes keys r f I0 T := by
    unfold counts; rw [e]
  refine ⟨ec, ?_, ?_⟩
  · unfold fractions; rw [ec]
  · unfold consumed; rw [e]

end C18
