import Hgxv.Proofs.C11Census
import Hgxv.Proofs.C11Cut
import Hgxv.Proofs.C11Classes
import Hgxv.Proofs.C11DirCensus
/-! # C11 - every connected `n`-subset is counted exactly once (core Lean only)

The per-class counts of `census n E` add up to the number of connected `n`-subsets: by `census_spec` class `c`
counts the connected subsets whose pattern is a relabelling of `c`, and by the certificate every connected
subset's pattern is a relabelling of exactly one class. -/
namespace C11

theorem sum_single {α} [DecidableEq α] (f : α → Nat) (a : α) : ∀ (D : List α), D.Nodup → a ∈ D → f a = 1 →
    (∀ k ∈ D, k ≠ a → f k = 0) → (D.map f).sum = 1 := by
  intro D; induction D with
  | nil => intro _ h; simp at h
  | cons d D ihD =>
    intro hnd hmem h1 h0
    have hnd' := List.nodup_cons.mp hnd
    simp only [List.map_cons, List.sum_cons]
    by_cases hda : d = a
    · have hz : (D.map f).sum = 0 := by
        apply sum_map_eq_zero
        intro k hk
        exact h0 k (List.mem_cons_of_mem _ hk) (fun e => hnd'.1 (hda ▸ e ▸ hk))
      rw [hz, hda, h1]
    · have hmem' : a ∈ D := by
        rcases List.mem_cons.mp hmem with h | h
        · exact absurd h.symm hda
        · exact h
      rw [ihD hnd'.2 hmem' h1 (fun k hk => h0 k (List.mem_cons_of_mem _ hk)), h0 d List.mem_cons_self hda]

/-- if every `Q`-element of `L` satisfies `P c` for exactly one `c` of the duplicate-free list `cs`, the per-`c`
counts of the `Q ∧ P c`-elements add up to the number of `Q`-elements -/
theorem sum_classes_total {α} (cs : List Nat) (hcs : cs.Nodup) (Q : α → Prop) (P : Nat → α → Prop)
    [∀ S, Decidable (Q S)] [∀ c S, Decidable (Q S ∧ P c S)] :
    ∀ L : List α, (∀ S ∈ L, Q S → ∃ c ∈ cs, P c S ∧ ∀ c' ∈ cs, P c' S → c' = c) →
    (cs.map fun c => L.countP fun S => decide (Q S ∧ P c S)).sum = L.countP fun S => decide (Q S) := by
  intro L
  induction L with
  | nil => intro _; simp only [List.countP_nil]; exact sum_map_eq_zero _ _ (fun _ _ => rfl)
  | cons a L ih =>
    intro h
    have ih' := ih (fun S hS => h S (List.mem_cons_of_mem _ hS))
    have hfun : (fun c => (a :: L).countP fun S => decide (Q S ∧ P c S))
        = fun c => (L.countP fun S => decide (Q S ∧ P c S)) + if Q a ∧ P c a then 1 else 0 := by
      funext c; rw [List.countP_cons]; simp
    rw [hfun, sum_map_add_nat, ih', List.countP_cons]
    congr 1
    by_cases hq : Q a
    · obtain ⟨c0, hc0, hp0, huniq⟩ := h a List.mem_cons_self hq
      simp only [hq, decide_true, if_true]
      apply sum_single _ c0 cs hcs hc0
      · simp [hp0, hq]
      · intro k hk hne
        have : ¬ P k a := fun hp => hne (huniq k hk hp)
        simp [this]
    · simp only [hq, decide_false, Bool.false_eq_true, if_false]
      apply sum_map_eq_zero
      intro k _; simp [hq]

open Classical in
/-- the counts of the census add up to the number of connected `n`-subsets of the node set -/
theorem census_total {n : Nat} (hn : n = 3 ∨ n = 4) {E : HG} (hE : WF E) :
    ((census n E).map (·.2)).sum
      = ((subsetsOfSize n (nodesOf E)).filter fun S => decide (Conn E S)).length := by
  have C := certFor hn
  rw [census_spec hn hE, List.map_map]
  unfold specCount
  simp only [Function.comp_def, ← List.countP_eq_length_filter]
  apply sum_classes_total (classes n) (classes_nodup C) (fun S => Conn E S)
    (fun c S => ∃ t ∈ tbls n, applyPerm t c = pattern n E S)
  intro S hS hc
  obtain ⟨hsorted, _, hlen⟩ := (mem_subsetsOfSize_sorted (nodesOf_sorted E)).mp hS
  have hne := conn_pattern hn hE hsorted hlen hc
  have hlt := pattern_lt E hlen
  refine ⟨cidFor n (pattern n E S), cid_mem_classes C hlt hne, C.ofRep _ hlt hne, ?_⟩
  rintro c' hc' ⟨t, ht, h⟩
  exact (cid_of_relabel C hc' ht h).2.symm

end C11
