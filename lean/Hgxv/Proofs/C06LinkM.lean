import Hgxv.Proofs.C06Link
import Hgxv.Proofs.C04Ref
/-! # C06 ↔ C04 (`MultiplexHypergraph`): the content-level `add_node` / `add_edge` of `Model/C06.lean` are the
operations of `C04.Spec`, and every reachable state of the full model is a well-formed C06 content.  The layer registry
(`_existing_layers`, `C04.Spec.layers`) is not part of a JSON content: `ofSpec04` forgets it (C06 carries it only on the
binary path, `Full.layers`).  Core Lean only. -/
namespace C06

def mkey (k : C04.Key) : MKey := ⟨k.1, k.2⟩

theorem mkey_inj : ∀ a b : C04.Key, mkey a = mkey b → a = b := by
  intro a b h
  obtain ⟨a1, a2⟩ := a
  obtain ⟨b1, b2⟩ := b
  simp only [mkey, MKey.mk.injEq] at h
  rw [h.1, h.2]

/-- the abstract state of the full `MultiplexHypergraph` model as a C06 content (registry forgotten) -/
def ofSpec04 (a : C04.Spec) : Content MKey := ofTables mkey a.weighted a.hmeta a.nodes a.edges

theorem insertSorted04 (a : Nat) (l : List Nat) : C04.insertSorted a l = Wire.insertSorted a l := by
  induction l with
  | nil => rfl
  | cons b bs ih => simp [C04.insertSorted, Wire.insertSorted, ih]

theorem canon04 (l : List Nat) : C04.canon l = sort l := by
  unfold C04.canon sort Wire.sortNats
  induction l with
  | nil => rfl
  | cons a t ih => simp only [List.foldr_cons, ih, insertSorted04]

/-! ## the spec operations as table updates -/

theorem spec04_addNode (a : C04.Spec) (n : Nat) (md : Option C04.Meta) :
    C04.Spec.addNode a n md = { a with nodes := tAddNode a.nodes n (md.getD []) } := by
  unfold C04.Spec.addNode tAddNode
  cases h : AL.get? a.nodes n with
  | none => rfl
  | some old =>
    cases old with
    | nil => rfl
    | cons x xs => rfl

theorem spec04_touchNodes (l : List Nat) (a : C04.Spec) :
    C04.Spec.touchNodes a l = { a with nodes := tTouchAll a.nodes l } := by
  unfold C04.Spec.touchNodes tTouchAll
  induction l generalizing a with
  | nil => rfl
  | cons n l ih =>
    simp only [List.foldl_cons]
    rw [ih, spec04_addNode]; rfl

theorem rejects04 (wtd : Bool) (w : Option Int) :
    (!wtd && w.getD C04.one != C04.one) = rejectsWeight wtd w := by
  have : C04.one = unit := rfl
  cases w with
  | none => simp [rejectsWeight]
  | some q => cases wtd <;> simp [rejectsWeight, this, bne]

theorem mergeEntry04 (wtd : Bool) (old : Option (Int × TMeta)) (w : Option Int) (md : TMeta)
    (h : ¬ rejectsWeight wtd w = true) :
    C04.Spec.mergeEntry wtd old (weightOrUnit w) md = tEntry wtd old (weightOrUnit w) md := by
  cases old with
  | none => simp only [C04.Spec.mergeEntry, tEntry, accepted_weight wtd w h]
  | some o => rfl

theorem spec04_addEdge (a : C04.Spec) (raw : List Nat) (l : Nat) (w : Option Int) (md : Option C04.Meta) :
    C04.Spec.addEdge a raw l w md =
      if rejectsWeight a.weighted w then (a, .rej)
      else ({ a with
                layers := C04.addLayer a.layers l
                edges := AL.set a.edges (C04.canon raw, l)
                  (tEntry a.weighted (AL.get? a.edges (C04.canon raw, l)) (weightOrUnit w) (md.getD []))
                nodes := tTouchAll a.nodes (C04.canon raw) }, .ok) := by
  unfold C04.Spec.addEdge
  rw [rejects04]
  by_cases hr : rejectsWeight a.weighted w = true
  · simp [hr]
  · have hw : w.getD C04.one = weightOrUnit w := by cases w <;> rfl
    simp only [hr, Bool.false_eq_true, if_false, C04.Spec.addEdgeCore, spec04_touchNodes, hw,
      mergeEntry04 a.weighted _ w _ hr]

/-! ## the link -/

theorem link_addNode04 (a : C04.Spec) (n : Nat) (md : Option C04.Meta) :
    ofSpec04 (C04.Spec.addNode a n md) = addNode (ofSpec04 a) n (md.map decMeta) := by
  rw [spec04_addNode]; unfold ofSpec04; rw [addNode_ofTables]

/-- `add_edge(edge, layer, weight, metadata)` of the spec is C06's `addEdge` on the content, accepted and rejected alike -/
theorem link_addEdge04 (a : C04.Spec) (raw : List Nat) (l : Nat) (w : Option Int) (md : Option C04.Meta) :
    addEdge (ofSpec04 a) ⟨raw, l⟩ w (md.map decMeta) =
      match C04.Spec.addEdge a raw l w md with
      | (a', .ok) => some (ofSpec04 a')
      | (_, .rej) => none := by
  rw [spec04_addEdge]
  unfold ofSpec04
  rw [addEdge_ofTables mkey mkey_inj a.weighted a.hmeta a.nodes a.edges ⟨raw, l⟩ (C04.canon raw, l)
    (by show (⟨sort raw, l⟩ : MKey) = mkey (C04.canon raw, l); simp [mkey, canon04])]
  by_cases hr : rejectsWeight a.weighted w = true
  · simp [hr]
  · simp only [hr, Bool.false_eq_true, if_false]
    have : Kind.touchAlways MKey = true := rfl
    simp only [this, Bool.true_or, if_true]
    rfl

theorem link_new04 (w : Bool) (hm : C04.HMeta) :
    ofSpec04 (C04.Spec.init w hm) =
      setHMeta (construct MKey w) (decMeta (AL.set (AL.set hm C04.hkWeighted (C04.tokBool w)) C04.hkType C04.tokMultiplex)) :=
  rfl

theorem link_setHMeta04 (a : C04.Spec) (hm : C04.HMeta) :
    ofSpec04 (C04.Spec.step a (.setHMeta hm)).1 = setHMeta (ofSpec04 a) (decMeta hm) := rfl

theorem ofSpec04_onto (c : Content MKey) : ∃ a : C04.Spec, ofSpec04 a = c :=
  ⟨{ weighted := c.weighted, hmeta := encMeta c.hmeta, nodes := mapKV id encMeta c.nodes,
     edges := mapKV (fun k : MKey => (k.nodes, k.layer)) (fun v => (v.1, encMeta v.2)) c.edges },
   ofTables_enc mkey (fun k : MKey => (k.nodes, k.layer)) (fun _ => rfl) c⟩

/-! ## `load_hypergraph` replays the records on `C04.Spec` -/

/-- the spec's own entry points, as `load_hypergraph` uses them: `MultiplexHypergraph(weighted=w)` then
`set_hypergraph_metadata`, `add_node(n, md)`, `add_edge(nodes, layer, weight, md)` -/
def specM : SpecOps MKey C04.Spec where
  of := ofSpec04
  new w hm := (C04.Spec.step (C04.Spec.init w []) (.setHMeta hm)).1
  addNode a n md := (C04.Spec.step a (.addNode n (some md))).1
  addEdge a k w md :=
    match C04.Spec.step a (.addEdge k.nodes k.layer w (some md)) with
    | (a', .ok) => some a'
    | (_, .rej) => none
  okKey _ := True
  of_new w hm := rfl
  of_addNode a n md := link_addNode04 a n (some md)
  of_addEdge a k w md _ := by
    have h := link_addEdge04 a k.nodes k.layer w (some md)
    simp only [Option.map_some] at h
    rw [h]
    simp only [C04.Spec.step]
    cases C04.Spec.addEdge a k.nodes k.layer w (some md) with
    | mk a' o => cases o <;> rfl

/-! ## reachable states of the full model are well-formed contents -/

theorem WF_ofSpec04_abs (s : C04.Store) (h : C04.Inv s) : WF (ofSpec04 (C04.abs s)) := by
  unfold ofSpec04
  have hkeys : AL.keys (C04.abs s).edges = AL.keys s.edgeList := by
    rw [C04.abs_edges, C04.keys_mapVal]
  apply WF_ofTables mkey mkey_inj
  · exact h.nm.nm_nodup
  · rw [hkeys]; exact h.id.el_nodup
  · intro k hk
    rw [hkeys] at hk
    obtain ⟨id, hid⟩ := AL_get?_isSome_of_mem _ _ hk
    show (⟨sort k.1, k.2⟩ : MKey) = ⟨k.1, k.2⟩
    rw [sort_of_sorted _ (h.id.key_sorted id k (h.id.rev_of_edge k id hid)).le]
  · intro k hk n hn
    rw [hkeys] at hk
    obtain ⟨id, hid⟩ := AL_get?_isSome_of_mem _ _ hk
    have h1 := (h.nm.adj_nm n).mp (h.adj.nodes_in id k (h.id.rev_of_edge k id hid) n hn)
    show n ∈ AL.keys s.nmeta
    apply Decidable.byContradiction
    intro hc
    rw [AL_get?_none_of_not_mem _ _ hc] at h1
    cases h1
  · intro hw e he
    simp only [C04.abs, List.mem_map] at he
    obtain ⟨p, hp, rfl⟩ := he
    have hid : AL.get? s.edgeList p.1 = some p.2 := AL_get?_of_mem_nodup _ _ _ h.id.el_nodup hp
    have hsome : (AL.get? s.weights p.2).isSome = true :=
      (h.id.w_some p.2).mpr (by rw [h.id.rev_of_edge _ _ hid]; rfl)
    obtain ⟨w0, hw0⟩ := Option.isSome_iff_exists.mp hsome
    show (AL.get? s.weights p.2).getD C04.one = unit
    rw [hw0]
    exact h.id.unw hw p.2 w0 hw0

/-- the object after every history of well-formed public calls, from any constructor arguments -/
theorem WF_ofSpec04_run (w : Bool) (hm : C04.HMeta) (ops : List C04.Op) (hw : ∀ op ∈ ops, op.WF) :
    WF (ofSpec04 (C04.abs (C04.run (C04.init w hm) ops))) :=
  WF_ofSpec04_abs _ (C04.run_inv _ ops (C04.inv_init w hm) hw)

/-! ## one step on the concrete store (`C04.abs_step`) -/

theorem link_store_addNode04 (s : C04.Store) (h : C04.Inv s) (n : Nat) (md : Option C04.Meta) :
    ofSpec04 (C04.abs (C04.step s (.addNode n md)).1) = addNode (ofSpec04 (C04.abs s)) n (md.map decMeta) := by
  have hs := (C04.abs_step s (.addNode n md) h trivial).1
  rw [hs]
  exact link_addNode04 (C04.abs s) n md

theorem link_store_addEdge04 (s : C04.Store) (h : C04.Inv s) (raw : List Nat) (hraw : raw.Nodup) (l : Nat)
    (w : Option Int) (md : Option C04.Meta) :
    addEdge (ofSpec04 (C04.abs s)) ⟨raw, l⟩ w (md.map decMeta) =
      match C04.step s (.addEdge raw l w md) with
      | (s', .ok) => some (ofSpec04 (C04.abs s'))
      | (_, .rej) => none := by
  obtain ⟨h1, h2⟩ := C04.abs_step s (.addEdge raw l w md) h hraw
  rw [link_addEdge04]
  simp only [C04.Spec.step] at h1 h2
  revert h1 h2
  generalize C04.step s (.addEdge raw l w md) = r
  generalize C04.Spec.addEdge (C04.abs s) raw l w md = q
  obtain ⟨s', o1⟩ := r
  obtain ⟨a', o2⟩ := q
  intro h1 h2
  simp only at h1 h2
  subst h1 h2
  cases o1 <;> rfl

/-! ## `load_hypergraph` builds an object of the id-indexed model -/

theorem match_outM {β : Type} (r : C04.Store × C04.Out) (g : C04.Store → β) :
    (match r with
      | (s', .ok) => some (g s')
      | (_, .rej) => none) = if r.2 = .ok then some (g r.1) else none := by
  obtain ⟨s', o⟩ := r
  cases o <;> simp

abbrev StoreM := { s : C04.Store // C04.Inv s }

def storeM : SpecOps MKey StoreM where
  of s := ofSpec04 (C04.abs s.1)
  new w hm := ⟨(C04.step (C04.init w []) (.setHMeta hm)).1, C04.step_inv _ (.setHMeta hm) (C04.inv_init w []) trivial⟩
  addNode s n md := ⟨(C04.step s.1 (.addNode n (some md))).1, C04.step_inv _ (.addNode n (some md)) s.2 trivial⟩
  addEdge s k w md :=
    if hk : k.nodes.Nodup then
      if (C04.step s.1 (.addEdge k.nodes k.layer w (some md))).2 = .ok then
        some ⟨(C04.step s.1 (.addEdge k.nodes k.layer w (some md))).1,
          C04.step_inv _ (.addEdge k.nodes k.layer w (some md)) s.2 hk⟩
      else none
    else none
  okKey k := k.nodes.Nodup
  of_new w hm := rfl
  of_addNode s n md := link_store_addNode04 s.1 s.2 n (some md)
  of_addEdge s k w md hk := by
    have h := link_store_addEdge04 s.1 s.2 k.nodes hk k.layer w (some md)
    simp only [Option.map_some] at h
    rw [h]
    rw [match_outM]
    simp only [dif_pos hk]
    split <;> rfl

theorem okKeys04 (s : C04.Store) (h : C04.Inv s) : ∀ e ∈ (ofSpec04 (C04.abs s)).edges, storeM.okKey e.1 := by
  intro e he
  obtain ⟨p, hp, rfl⟩ := (mem_mapKV mkey decVal2 _ e).mp he
  have hk : p.1 ∈ AL.keys (C04.abs s).edges := List.mem_map.mpr ⟨p, hp, rfl⟩
  rw [C04.abs_edges, C04.keys_mapVal] at hk
  obtain ⟨id, hid⟩ := AL_get?_isSome_of_mem _ _ hk
  exact (h.id.key_sorted id p.1 (h.id.rev_of_edge p.1 id hid)).nodup

end C06
